/-
  C05 helper lemmas, part 4: histories — the invariants and the refinement relations hold after
  every operation sequence; listings.
-/
import NdnVerif.C05.LemmasHash
namespace Ndn.C05

/-- the state of each table after a history, starting from the constructors' initial state -/
def runTree (d : Name) (ops : List Op) : Tree := ops.foldl Tree.apply (Tree.init d)
def runHash (m : Nat) (d : Name) (ops : List Op) : Hash := ops.foldl Hash.apply (Hash.init m d)
def runSpec (d : Name) (ops : List Op) : Spec := ops.foldl Spec.apply (Spec.init d)

theorem runTree_snoc (d : Name) (ops : List Op) (op : Op) : runTree d (ops ++ [op]) = (runTree d ops).apply op := by
  simp [runTree, List.foldl_append]
theorem runHash_snoc (m : Nat) (d : Name) (ops : List Op) (op : Op) : runHash m d (ops ++ [op]) = (runHash m d ops).apply op := by
  simp [runHash, List.foldl_append]
theorem runSpec_snoc (d : Name) (ops : List Op) (op : Op) : runSpec d (ops ++ [op]) = (runSpec d ops).apply op := by
  simp [runSpec, List.foldl_append]

/-- induction over histories from the end -/
theorem ops_induction {P : List Op → Prop} (h0 : P []) (hs : ∀ ops op, P ops → P (ops ++ [op])) : ∀ ops, P ops := by
  intro ops
  have : ∀ n (ops : List Op), ops.length = n → P ops := by
    intro n
    induction n with
    | zero => intro ops h; have : ops = [] := List.length_eq_zero_iff.mp h
              subst this; exact h0
    | succ n ih =>
      intro ops h
      have hne : ops ≠ [] := by intro e; subst e; simp at h
      rw [← List.dropLast_concat_getLast hne]
      apply hs
      apply ih
      simp [h]
  exact this _ _ rfl

/-! ### specification side -/

structure SpecInv (s : Spec) : Prop where
  nhKeys : KeysNodup s.nh
  stKeys : KeysNodup s.st
  hops : ∀ n, KeysNodup (s.nhAt n)
  nonempty : ∀ n h, afind s.nh n = some h → h ≠ []

theorem keysNodup_filter {a : Hops} (hn : KeysNodup a) (p : Hop → Bool) : KeysNodup (a.filter p) :=
  (List.filter_sublist.map _).nodup hn

theorem Spec.inv_init (d : Name) : SpecInv (Spec.init d) :=
  ⟨by simp [Spec.init, KeysNodup], by simp [Spec.init, KeysNodup], by intro n; simp [Spec.init, Spec.nhAt, afind, KeysNodup],
   by intro n h hf; simp [Spec.init, afind] at hf⟩

theorem Spec.inv_apply {s : Spec} (hi : SpecInv s) (op : Op) : SpecInv (s.apply op) := by
  refine ⟨?_, ?_, ?_, ?_⟩
  · cases op with
    | ins m f c => exact keysNodup_aset hi.nhKeys _ _
    | rem m f => simp only [Spec.apply]; split; exact keysNodup_aerase hi.nhKeys _; exact keysNodup_aset hi.nhKeys _ _
    | clr m => exact keysNodup_aerase hi.nhKeys _
    | sets m x => exact hi.nhKeys
    | unsets m => exact hi.nhKeys
  · cases op with
    | ins m f c => exact hi.stKeys
    | rem m f => simp only [Spec.apply]; exact hi.stKeys
    | clr m => exact hi.stKeys
    | sets m x => exact keysNodup_aset hi.stKeys _ _
    | unsets m => exact keysNodup_aerase hi.stKeys _
  · intro n
    rw [Spec.nhAt_apply]
    cases op with
    | ins m f c => simp only [nhStep]; split; exact keysNodup_aset (hi.hops m) _ _; exact hi.hops n
    | rem m f => simp only [nhStep]; split; exact keysNodup_filter (hi.hops m) _; exact hi.hops n
    | clr m => simp only [nhStep]; split; simp [KeysNodup]; exact hi.hops n
    | sets m x => exact hi.hops n
    | unsets m => exact hi.hops n
  · intro n h hf
    cases op with
    | ins m f c =>
      simp only [Spec.apply, afind_aset] at hf
      by_cases hk : m = n
      · simp [hk] at hf; subst hf
        intro e
        have := congrArg (fun l => afind l f) e
        simp [afind_aset, afind] at this
      · simp [hk] at hf; exact hi.nonempty n h hf
    | rem m f =>
      simp only [Spec.apply] at hf
      split at hf
      · simp only [afind_aerase] at hf
        by_cases hk : m = n
        · simp [hk] at hf
        · simp [hk] at hf; exact hi.nonempty n h hf
      · rename_i hne
        simp only [afind_aset] at hf
        by_cases hk : m = n
        · simp [hk] at hf; subst hf
          intro e; rw [hk] at hne; rw [e] at hne; simp at hne
        · simp [hk] at hf; exact hi.nonempty n h hf
    | clr m =>
      simp only [Spec.apply, afind_aerase] at hf
      by_cases hk : m = n
      · simp [hk] at hf
      · simp [hk] at hf; exact hi.nonempty n h hf
    | sets m x => exact hi.nonempty n h hf
    | unsets m => exact hi.nonempty n h hf

theorem runSpec_inv (d : Name) (ops : List Op) : SpecInv (runSpec d ops) := by
  induction ops using ops_induction with
  | h0 => exact Spec.inv_init d
  | hs ops op ih => rw [runSpec_snoc]; exact Spec.inv_apply ih op

/-! ### tree side -/

theorem removeHopShift_eq_filter {a : Hops} (hn : KeysNodup a) (f : Nat) :
    removeHopShift a f = a.filter fun p => !(decide (p.1 = f)) := by
  induction a with
  | nil => rfl
  | cons p t ih =>
    obtain ⟨f', c⟩ := p
    have hn1 : f' ∉ t.map (·.1) := (List.nodup_cons.mp hn).1
    have hn2 : KeysNodup t := (List.nodup_cons.mp hn).2
    by_cases h : f' = f
    · subst h
      simp only [removeHopShift, if_true, List.filter_cons, decide_true, Bool.not_true, Bool.false_eq_true, if_false]
      symm
      rw [List.filter_eq_self]
      intro q hq
      simp only [Bool.not_eq_eq_eq_not, Bool.not_true, decide_eq_false_iff_not]
      intro e
      exact hn1 (List.mem_map.mpr ⟨q, hq, e⟩)
    · simp [removeHopShift, h, List.filter_cons, ih hn2]

theorem Tree.inv_init (d : Name) : TreeInv (Tree.init d) := by
  refine ⟨by simp [Tree.init, ahas, afind], ?_, by simp [Tree.init, KeysNodup], ?_, ?_, ?_⟩
  · intro p k hp
    have : p = [] := by
      simp only [Tree.init, ahas, afind] at hp
      by_cases h : [] = p
      · exact h.symm
      · simp [h] at hp
    subst this; simpa using hp
  · intro key nd x hf hx
    simp only [Tree.init, afind] at hf
    by_cases h : [] = key
    · cases h; simp at hf; subst hf; simp at hx; exact hx
    · simp [h] at hf
  · intro key nd hf _
    simp only [Tree.init, afind] at hf
    by_cases h : [] = key
    · simp [h] at hf; subst hf; rfl
    · simp [h] at hf
  · intro key nd hf
    simp only [Tree.init, afind] at hf
    by_cases h : [] = key
    · simp [h] at hf; subst hf; simp [KeysNodup]
    · simp [h] at hf

/-- tree state and spec state denote the same two maps -/
def TreeRel (t : Tree) (s : Spec) : Prop := (∀ n, t.nhAt n = s.nhAt n) ∧ (∀ n, t.stAt n = s.stAt n)

theorem runTree_rel (d : Name) (ops : List Op) :
    TreeInv (runTree d ops) ∧ TreeRel (runTree d ops) (runSpec d ops) := by
  induction ops using ops_induction with
  | h0 =>
    refine ⟨Tree.inv_init d, ?_, ?_⟩
    · intro n
      simp only [runTree, runSpec, List.foldl_nil, Tree.init, Spec.init, Tree.nhAt, Spec.nhAt, afind]
      by_cases h : [] = n <;> simp [h]
    · intro n
      simp only [runTree, runSpec, List.foldl_nil, Tree.init, Spec.init, Tree.stAt, Spec.stAt, afind]
      by_cases h : [] = n <;> simp [h]
  | hs ops op ih =>
    obtain ⟨hi, hr1, hr2⟩ := ih
    rw [runTree_snoc, runSpec_snoc]
    obtain ⟨a, b, c⟩ := Tree.apply_spec hi op
    refine ⟨a, ?_, ?_⟩
    · intro n
      rw [b n, Spec.nhAt_apply]
      have hnd : ∀ m, KeysNodup ((runTree d ops).nhAt m) := by
        intro m
        simp only [Tree.nhAt]
        cases hf : afind (runTree d ops).nodes m with
        | none => simp [KeysNodup]
        | some nd => exact hi.hops m nd hf
      cases op with
      | ins m f c => simp only [nhStep, hr1]
      | rem m f => simp only [nhStep]; rw [removeHopShift_eq_filter (hnd m)]; simp only [hr1]
      | clr m => simp only [nhStep, hr1]
      | sets m x => simp only [nhStep, hr1]
      | unsets m => simp only [nhStep, hr1]
    · intro n
      rw [c n, Spec.stAt_apply]
      cases op <;> simp only [stStep, hr2]

/-! ### hash side -/

theorem Hash.inv_init (m : Nat) (hm1 : 1 ≤ m) (d : Name) : HashInv (Hash.init m d) := by
  refine ⟨by simp [Hash.init, KeysNodup], ?_, ?_⟩
  · intro n e hf
    simp only [Hash.init, afind] at hf
    by_cases h : [] = n
    · simp [h] at hf; subst hf; simp [KeysNodup]
    · simp [h] at hf
  · intro n hn hm
    have : n = [] := by
      simp only [Hash.init, ahas, afind] at hn
      by_cases h : [] = n
      · exact h.symm
      · simp [h] at hn
    subst this
    simp only [Hash.init, List.length_nil, Nat.le_zero_eq] at hm
    omega

/-- hash-table state and spec state denote the same two maps (next hops as face ↦ cost maps) -/
def HashRel (h : Hash) (s : Spec) : Prop := (∀ n, HopsEq (h.nhAt n) (s.nhAt n)) ∧ (∀ n, h.stAt n = s.stAt n)

theorem Hash.nhAt_nodup {h : Hash} (hi : HashInv h) (n : Name) : KeysNodup (h.nhAt n) := by
  simp only [Hash.nhAt]
  cases hf : afind h.real n with
  | none => simp [KeysNodup]
  | some e => exact hi.hops n e hf

theorem runHash_rel (m : Nat) (hm1 : 1 ≤ m) (d : Name) (ops : List Op) :
    HashInv (runHash m d ops) ∧ (runHash m d ops).m = m ∧ HashRel (runHash m d ops) (runSpec d ops) := by
  induction ops using ops_induction with
  | h0 =>
    refine ⟨Hash.inv_init m hm1 d, rfl, ?_, ?_⟩
    · intro n f
      simp only [runHash, runSpec, List.foldl_nil, Hash.init, Spec.init, Hash.nhAt, Spec.nhAt, afind]
      by_cases h : [] = n <;> simp [h, afind]
    · intro n
      simp only [runHash, runSpec, List.foldl_nil, Hash.init, Spec.init, Hash.stAt, Spec.stAt, afind]
      by_cases h : [] = n <;> simp [h]
  | hs ops op ih =>
    obtain ⟨hi, hm, hr1, hr2⟩ := ih
    have si := runSpec_inv d ops
    rw [runHash_snoc, runSpec_snoc]
    obtain ⟨a, a', b, c⟩ := Hash.apply_spec hi op
    refine ⟨a, a'.trans hm, ?_, ?_⟩
    · intro n
      rw [b n, Spec.nhAt_apply]
      cases op with
      | ins m' f cost =>
        simp only [nhStep]
        split
        · exact hopsEq_aset (hr1 m') f cost
        · exact hr1 n
      | rem m' f =>
        simp only [nhStep]
        split
        · intro k
          rw [afind_removeHopSwap (Hash.nhAt_nodup hi m'), afind_filter_ne, hr1 m' k]
        · exact hr1 n
      | clr m' => simp only [nhStep]; split; exact HopsEq.refl _; exact hr1 n
      | sets m' x => exact hr1 n
      | unsets m' => exact hr1 n
    · intro n
      rw [c n, Spec.stAt_apply]
      cases op <;> simp only [stStep, hr2]

/-! ### listings -/

theorem Tree.mem_listFib {t : Tree} (hi : TreeInv t) (n : Name) (hops : Hops) :
    (n, hops) ∈ t.listFib ↔ hops ≠ [] ∧ t.nhAt n = hops := by
  simp only [Tree.listFib, List.mem_map, List.mem_filter, Prod.mk.injEq]
  constructor
  · rintro ⟨⟨key, nd⟩, ⟨hm, hne⟩, hn, hh⟩
    simp only at hn hh hne
    have hf := mem_afind hi.keys hm
    have hemp : nd.isEmpty = false := by
      simp only [TNode.isEmpty, Bool.and_eq_false_iff]
      left; simpa using hne
    have hsome := hi.nm2 key nd hf hemp
    obtain ⟨x, hx⟩ := Option.isSome_iff_exists.mp hsome
    have := hi.nm1 key nd x hf hx
    subst this
    rw [hx] at hn; simp at hn; subst hn
    refine ⟨?_, by simp [Tree.nhAt, hf, hh]⟩
    subst hh; intro e; simp [e] at hne
  · rintro ⟨hne, hh⟩
    simp only [Tree.nhAt] at hh
    cases hf : afind t.nodes n with
    | none => rw [hf] at hh; exact absurd hh.symm hne
    | some nd =>
      rw [hf] at hh; simp only at hh
      have hemp : nd.isEmpty = false := by
        simp only [TNode.isEmpty, Bool.and_eq_false_iff]
        left; rw [hh]; cases hops with
        | nil => exact absurd rfl hne
        | cons _ _ => rfl
      obtain ⟨x, hx⟩ := Option.isSome_iff_exists.mp (hi.nm2 n nd hf hemp)
      have := hi.nm1 n nd x hf hx
      subst this
      refine ⟨(x, nd), ⟨afind_some_mem hf, ?_⟩, by simp [hx], hh⟩
      simp only [hh]
      cases hops with
      | nil => exact absurd rfl hne
      | cons _ _ => rfl

theorem Tree.mem_listStrat {t : Tree} (hi : TreeInv t) (n : Name) (x : Name) :
    (n, x) ∈ t.listStrat ↔ t.stAt n = some x := by
  simp only [Tree.listStrat, List.mem_filterMap, Option.map_eq_some_iff, Prod.mk.injEq]
  constructor
  · rintro ⟨⟨key, nd⟩, hm, s', hs, hn, hx⟩
    simp only at hs hn hx
    have hf := mem_afind hi.keys hm
    have hemp : nd.isEmpty = false := by
      simp only [TNode.isEmpty, Bool.and_eq_false_iff]
      right; simp [hs]
    obtain ⟨y, hy⟩ := Option.isSome_iff_exists.mp (hi.nm2 key nd hf hemp)
    have := hi.nm1 key nd y hf hy
    subst this
    rw [hy] at hn; simp at hn; subst hn; subst hx
    simp [Tree.stAt, hf, hs]
  · intro hh
    simp only [Tree.stAt] at hh
    cases hf : afind t.nodes n with
    | none => rw [hf] at hh; cases hh
    | some nd =>
      rw [hf] at hh; simp only at hh
      have hemp : nd.isEmpty = false := by
        simp only [TNode.isEmpty, Bool.and_eq_false_iff]
        right; simp [hh]
      obtain ⟨y, hy⟩ := Option.isSome_iff_exists.mp (hi.nm2 n nd hf hemp)
      have := hi.nm1 n nd y hf hy
      subst this
      exact ⟨(y, nd), afind_some_mem hf, x, hh, by simp [hy], rfl⟩

theorem Hash.mem_listFib {h : Hash} (hi : HashInv h) (n : Name) (hops : Hops) :
    (n, hops) ∈ h.listFib ↔ hops ≠ [] ∧ h.nhAt n = hops := by
  simp only [Hash.listFib, List.mem_map, List.mem_filter, Prod.mk.injEq]
  constructor
  · rintro ⟨⟨key, e⟩, ⟨hm, hne⟩, hn, hh⟩
    simp only at hn hh hne
    subst hn
    have hf := mem_afind hi.keys hm
    refine ⟨?_, by simp [Hash.nhAt, hf, hh]⟩
    subst hh; intro e'; simp [e'] at hne
  · rintro ⟨hne, hh⟩
    simp only [Hash.nhAt] at hh
    cases hf : afind h.real n with
    | none => rw [hf] at hh; exact absurd hh.symm hne
    | some e =>
      rw [hf] at hh; simp only at hh
      refine ⟨(n, e), ⟨afind_some_mem hf, ?_⟩, rfl, hh⟩
      simp only [hh]
      cases hops with
      | nil => exact absurd rfl hne
      | cons _ _ => rfl

theorem Hash.mem_listStrat {h : Hash} (hi : HashInv h) (n : Name) (x : Name) :
    (n, x) ∈ h.listStrat ↔ h.stAt n = some x := by
  simp only [Hash.listStrat, List.mem_filterMap, Option.map_eq_some_iff, Prod.mk.injEq]
  constructor
  · rintro ⟨⟨key, e⟩, hm, s', hs, hn, hx⟩
    simp only at hs hn hx
    subst hn; subst hx
    simp [Hash.stAt, mem_afind hi.keys hm, hs]
  · intro hh
    simp only [Hash.stAt] at hh
    cases hf : afind h.real n with
    | none => rw [hf] at hh; cases hh
    | some e =>
      rw [hf] at hh; simp only at hh
      exact ⟨(n, e), afind_some_mem hf, x, hh, rfl, rfl⟩

theorem Spec.mem_listFib {s : Spec} (hi : SpecInv s) (n : Name) (hops : Hops) :
    (n, hops) ∈ s.listFib ↔ hops ≠ [] ∧ s.nhAt n = hops := by
  simp only [Spec.listFib, List.mem_filter]
  constructor
  · rintro ⟨hm, hne⟩
    have hf := mem_afind hi.nhKeys hm
    refine ⟨?_, by simp [Spec.nhAt, hf]⟩
    intro e; simp [e] at hne
  · rintro ⟨hne, hh⟩
    simp only [Spec.nhAt] at hh
    cases hf : afind s.nh n with
    | none => rw [hf] at hh; exact absurd hh.symm hne
    | some h' =>
      rw [hf] at hh; simp only [Option.getD_some] at hh; subst hh
      refine ⟨afind_some_mem hf, ?_⟩
      cases h' with
      | nil => exact absurd rfl hne
      | cons _ _ => rfl

theorem Spec.mem_listStrat {s : Spec} (hi : SpecInv s) (n : Name) (x : Name) :
    (n, x) ∈ s.listStrat ↔ s.stAt n = some x := by
  simp only [Spec.listStrat, Spec.stAt]
  exact mem_iff_afind hi.stKeys n x

end Ndn.C05
