/-
  C05 helper lemmas, part 3: the hash-table FIB model — invariants and abstraction.
-/
import NdnVerif.C05.LemmasTree
namespace Ndn.C05

/-- next hops stored in the real-table entry of `n` -/
def Hash.nhAt (h : Hash) (n : Name) : Hops :=
  match afind h.real n with
  | some e => e.hops
  | none => []

def Hash.stAt (h : Hash) (n : Name) : Option Name :=
  match afind h.real n with
  | some e => e.strat
  | none => none

/-- invariant of the hash-table FIB: every real name of length ≥ m is recorded under its
    m-component virtual name, whose `md` is at least the name's length -/
structure HashInv (h : Hash) : Prop where
  keys : KeysNodup h.real
  hops : ∀ n e, afind h.real n = some e → KeysNodup e.hops
  virt : ∀ n, ahas h.real n = true → h.m ≤ n.length →
    (∃ md, afind h.virt (n.take h.m) = some md ∧ n.length ≤ md) ∧
    (∃ ns, afind h.vnames (n.take h.m) = some ns ∧ nameIn ns n = true)

/-! ### lookups -/

theorem scanReal_spec (real : List (Name × HEntry)) (name : Name) (lo : Nat) (hi : Nat) :
    match scanReal real name lo hi with
    | some k => lo ≤ k ∧ k ≤ hi ∧ ahas real (name.take k) = true ∧
        ∀ j, k < j → j ≤ hi → ahas real (name.take j) = false
    | none => ∀ j, lo ≤ j → j ≤ hi → ahas real (name.take j) = false := by
  induction hi with
  | zero =>
    simp only [scanReal]
    by_cases h0 : 0 < lo
    · simp only [h0, if_true]; intro j h1 h2; omega
    · simp only [h0, if_false]
      cases hh : ahas real (List.take 0 name) with
      | true => simp only [if_true]; exact ⟨by omega, by omega, hh, by intro j h1 h2; omega⟩
      | false =>
        simp only [Bool.false_eq_true, if_false]
        intro j h1 h2
        have : j = 0 := by omega
        subst this; exact hh
  | succ hi ih =>
    simp only [scanReal]
    by_cases h0 : hi + 1 < lo
    · simp only [h0, if_true]; intro j h1 h2; omega
    · simp only [h0, if_false]
      cases hh : ahas real (List.take (hi + 1) name) with
      | true => simp only [if_true]; exact ⟨by omega, by omega, hh, by intro j h1 h2; omega⟩
      | false =>
        simp only [Bool.false_eq_true, if_false]
        cases hs : scanReal real name lo hi with
        | some k =>
          rw [hs] at ih
          obtain ⟨a, b, c, d⟩ := ih
          refine ⟨a, by omega, c, ?_⟩
          intro j h1 h2
          by_cases hj : j = hi + 1
          · subst hj; exact hh
          · exact d j h1 (by omega)
        | none =>
          rw [hs] at ih
          intro j h1 h2
          by_cases hj : j = hi + 1
          · subst hj; exact hh
          · exact ih j h1 (by omega)

/-- what `findLongestPrefixMatchEnc` returns: the longest prefix present in the real table -/
def LongestReal (real : List (Name × HEntry)) (name : Name) : Option Nat → Prop
  | some k => k ≤ name.length ∧ ahas real (name.take k) = true ∧
      ∀ j, k < j → j ≤ name.length → ahas real (name.take j) = false
  | none => ∀ j, j ≤ name.length → ahas real (name.take j) = false

theorem Hash.findLpm_spec {h : Hash} (hi : HashInv h) (name : Name) : LongestReal h.real name (h.findLpm name) := by
  unfold Hash.findLpm
  by_cases hlen : name.length ≤ h.m
  · simp only [hlen, if_true]
    have := scanReal_spec h.real name 0 name.length
    cases hs : scanReal h.real name 0 name.length with
    | some k => rw [hs] at this; exact ⟨this.2.1, this.2.2.1, this.2.2.2⟩
    | none => rw [hs] at this; exact fun j hj => this j (by omega) hj
  · simp only [hlen, if_false]
    have hlen' : h.m < name.length := by omega
    -- every real prefix longer than m is covered by the virtual entry
    have hK : ∀ j, h.m < j → j ≤ name.length → ahas h.real (name.take j) = true →
        ∃ md, afind h.virt (name.take h.m) = some md ∧ j ≤ md := by
      intro j h1 h2 hj
      have := (hi.virt (name.take j) hj (by rw [List.length_take]; omega)).1
      rw [List.take_take, List.length_take] at this
      have e1 : min h.m j = h.m := by omega
      have e2 : min j name.length = j := by omega
      rw [e1, e2] at this; exact this
    have low := scanReal_spec h.real name 0 h.m
    -- result when nothing longer than m matches
    have fallback : (∀ j, h.m < j → j ≤ name.length → ahas h.real (name.take j) = false) →
        LongestReal h.real name (scanReal h.real name 0 h.m) := by
      intro hno
      cases hs : scanReal h.real name 0 h.m with
      | some k =>
        rw [hs] at low
        refine ⟨by omega, low.2.2.1, ?_⟩
        intro j h1 h2
        by_cases hj : j ≤ h.m
        · exact low.2.2.2 j h1 hj
        · exact hno j (by omega) h2
      | none =>
        rw [hs] at low
        intro j h2
        by_cases hj : j ≤ h.m
        · exact low j (by omega) hj
        · exact hno j (by omega) h2
    cases hv : afind h.virt (List.take h.m name) with
    | none =>
      simp only []
      apply fallback
      intro j h1 h2
      cases hj : ahas h.real (name.take j) with
      | false => rfl
      | true => obtain ⟨md, hmd, _⟩ := hK j h1 h2 hj; rw [hv] at hmd; cases hmd
    | some md =>
      simp only []
      have hbeyond : ∀ j, h.m < j → min md name.length < j → j ≤ name.length → ahas h.real (name.take j) = false := by
        intro j h0 h1 h2
        cases hj : ahas h.real (name.take j) with
        | false => rfl
        | true =>
          obtain ⟨md', hmd, h3⟩ := hK j h0 h2 hj
          rw [hv] at hmd; cases hmd; omega
      have high := scanReal_spec h.real name (h.m + 1) (min md name.length)
      cases hs : scanReal h.real name (h.m + 1) (min md name.length) with
      | some k =>
        rw [hs] at high
        simp only []
        refine ⟨by omega, high.2.2.1, ?_⟩
        intro j h1 h2
        by_cases hj : j ≤ min md name.length
        · exact high.2.2.2 j h1 hj
        · exact hbeyond j (by omega) (by omega) h2
      | none =>
        rw [hs] at high
        simp only []
        apply fallback
        intro j h1 h2
        by_cases hj : j ≤ min md name.length
        · exact high j (by omega) hj
        · exact hbeyond j h1 (by omega) h2

theorem scanHops_eq_lpm (real : List (Name × HEntry)) (name : Name) (k : Nat) (m : Nat) (v : List (Name × Nat)) (vn : List (Name × List Name)) :
    scanHops real name k = lpm (Hash.nhAt ⟨m, real, v, vn⟩) (fun h => !h.isEmpty) [] name k := by
  induction k with
  | zero =>
    rcases h : afind real [] with _ | e
    · simp [scanHops, lpm, Hash.nhAt, h]
    · cases h2 : e.hops <;> simp [scanHops, lpm, Hash.nhAt, h, h2]
  | succ k ih =>
    rcases h : afind real (List.take (k + 1) name) with _ | e
    · simp [scanHops, lpm, Hash.nhAt, h, ih]
    · cases h2 : e.hops <;> simp [scanHops, lpm, Hash.nhAt, h, h2, ih]

theorem scanStrat_eq_lpm (real : List (Name × HEntry)) (name : Name) (k : Nat) (m : Nat) (v : List (Name × Nat)) (vn : List (Name × List Name)) :
    scanStrat real name k = lpm (Hash.stAt ⟨m, real, v, vn⟩) (fun x => x.isSome) none name k := by
  induction k with
  | zero =>
    rcases h : afind real [] with _ | e
    · simp [scanStrat, lpm, Hash.stAt, h]
    · cases h2 : e.strat <;> simp [scanStrat, lpm, Hash.stAt, h, h2]
  | succ k ih =>
    rcases h : afind real (List.take (k + 1) name) with _ | e
    · simp [scanStrat, lpm, Hash.stAt, h, ih]
    · cases h2 : e.strat <;> simp [scanStrat, lpm, Hash.stAt, h, h2, ih]

theorem lpm_none {β : Type} (g : Name → β) (ok : β → Bool) (dflt : β) (name : Name) (n : Nat)
    (h : ∀ j, j ≤ n → ok (g (name.take j)) = false) : lpm g ok dflt name n = dflt := by
  induction n with
  | zero => have := h 0 (by omega); simp only [List.take_zero] at this; simp [lpm, this]
  | succ n ih => simp [lpm, h (n + 1) (by omega), ih (fun j hj => h j (by omega))]

theorem Hash.nhAt_of_not_has (h : Hash) (n : Name) (hn : ahas h.real n = false) : h.nhAt n = [] := by
  simp [Hash.nhAt, (ahas_false_iff _ _).mp hn]

theorem Hash.stAt_of_not_has (h : Hash) (n : Name) (hn : ahas h.real n = false) : h.stAt n = none := by
  simp [Hash.stAt, (ahas_false_iff _ _).mp hn]

theorem Hash.findNextHops_eq {h : Hash} (hi : HashInv h) (name : Name) :
    h.findNextHops name = lpm h.nhAt (fun x => !x.isEmpty) [] name name.length := by
  have hs := Hash.findLpm_spec hi name
  unfold Hash.findNextHops
  cases hl : h.findLpm name with
  | none =>
    rw [hl] at hs
    simp only []
    symm; apply lpm_none
    intro j hj
    simp [Hash.nhAt_of_not_has h _ (hs j hj)]
  | some k =>
    rw [hl] at hs
    simp only []
    rw [scanHops_eq_lpm h.real name k h.m h.virt h.vnames]
    symm
    apply lpm_skip _ _ _ _ _ _ hs.1
    intro j h1 h2
    simp [Hash.nhAt_of_not_has h _ (hs.2.2 j h1 h2)]

theorem Hash.findStrategy_eq {h : Hash} (hi : HashInv h) (name : Name) :
    h.findStrategy name = lpm h.stAt (fun x => x.isSome) none name name.length := by
  have hs := Hash.findLpm_spec hi name
  unfold Hash.findStrategy
  cases hl : h.findLpm name with
  | none =>
    rw [hl] at hs
    simp only []
    symm; apply lpm_none
    intro j hj
    simp [Hash.stAt_of_not_has h _ (hs j hj)]
  | some k =>
    rw [hl] at hs
    simp only []
    rw [scanStrat_eq_lpm h.real name k h.m h.virt h.vnames]
    symm
    apply lpm_skip _ _ _ _ _ _ hs.1
    intro j h1 h2
    simp [Hash.stAt_of_not_has h _ (hs.2.2 j h1 h2)]

/-! ### insertEntry / update in place / prune -/

theorem nameIn_iff (ns : List Name) (n : Name) : nameIn ns n = true ↔ n ∈ ns := by
  simp only [nameIn, List.any_eq_true, decide_eq_true_eq]
  constructor
  · rintro ⟨x, hx, rfl⟩; exact hx
  · intro h; exact ⟨n, h, rfl⟩

theorem le_maxLen {ns : List Name} {n : Name} (h : n ∈ ns) : n.length ≤ maxLen ns := by
  induction ns with
  | nil => cases h
  | cons a t ih =>
    simp only [maxLen]
    rcases List.mem_cons.mp h with h | h
    · subst h; omega
    · have := ih h; omega

theorem Hash.afind_insertEntry_real (h : Hash) (name n : Name) :
    afind (h.insertEntry name).real n =
      match afind h.real n with
      | some e => some e
      | none => if name = n then some ⟨[], none⟩ else none := by
  have : (h.insertEntry name).real = if ahas h.real name then h.real else h.real ++ [(name, ⟨[], none⟩)] := by
    unfold Hash.insertEntry; simp only []; split <;> rfl
  rw [this]
  cases hh : ahas h.real name with
  | true =>
    simp only [if_true]
    cases hn : afind h.real n with
    | some e => rfl
    | none =>
      simp only []
      have : name ≠ n := by
        intro e; subst e
        rw [(ahas_false_iff _ _).mpr hn] at hh; cases hh
      simp [this]
  | false =>
    simp only [Bool.false_eq_true, if_false, afind_append, afind]
    cases hn : afind h.real n with
    | some e => rfl
    | none => rfl

theorem Hash.insertEntry_m (h : Hash) (name : Name) : (h.insertEntry name).m = h.m := by
  unfold Hash.insertEntry; simp only []; split <;> rfl

theorem Hash.insertEntry_spec {h : Hash} (hi : HashInv h) (name : Name) :
    HashInv (h.insertEntry name) ∧ ahas (h.insertEntry name).real name = true ∧
      (∀ n, (h.insertEntry name).nhAt n = h.nhAt n) ∧ (∀ n, (h.insertEntry name).stAt n = h.stAt n) := by
  have hreal := Hash.afind_insertEntry_real h name
  have hhas : ∀ n, ahas (h.insertEntry name).real n = true ↔ (ahas h.real n = true ∨ name = n) := by
    intro n
    simp only [ahas, hreal n]
    cases afind h.real n with
    | some e => simp
    | none => by_cases hk : name = n <;> simp [hk]
  refine ⟨⟨?_, ?_, ?_⟩, ?_, ?_, ?_⟩
  · -- keys
    have : (h.insertEntry name).real = if ahas h.real name then h.real else h.real ++ [(name, ⟨[], none⟩)] := by
      unfold Hash.insertEntry; simp only []; split <;> rfl
    rw [this]
    cases hh : ahas h.real name with
    | true => exact hi.keys
    | false =>
      simp only [Bool.false_eq_true, if_false]
      unfold KeysNodup
      simp only [List.map_append, List.map_cons, List.map_nil]
      refine List.nodup_append.mpr ⟨hi.keys, by simp, ?_⟩
      intro a ha b hb e
      simp only [List.mem_singleton] at hb
      subst hb; subst e
      exact ((afind_eq_none_iff _ _).mp ((ahas_false_iff _ _).mp hh)) ha
  · intro n e hf
    rw [hreal n] at hf
    cases hn : afind h.real n with
    | some e' => rw [hn] at hf; cases hf; exact hi.hops n _ hn
    | none =>
      rw [hn] at hf
      by_cases hk : name = n
      · simp [hk] at hf; subst hf; simp [KeysNodup]
      · simp [hk] at hf
  · intro n hn hm
    rw [Hash.insertEntry_m] at hm ⊢
    rw [hhas] at hn
    by_cases hlen : name.length ≥ h.m
    · have hv : (h.insertEntry name).virt = aset h.virt (name.take h.m)
          (match afind h.virt (name.take h.m) with | some md => max md name.length | none => name.length) := by
        unfold Hash.insertEntry; simp only [hlen, if_true]; try rfl
      have hvn : (h.insertEntry name).vnames = aset h.vnames (name.take h.m)
          (if nameIn ((afind h.vnames (name.take h.m)).getD []) name then (afind h.vnames (name.take h.m)).getD []
           else (afind h.vnames (name.take h.m)).getD [] ++ [name]) := by
        unfold Hash.insertEntry; simp only [hlen, if_true]; try rfl
      rw [hv, hvn]
      simp only [afind_aset]
      by_cases hvv : name.take h.m = n.take h.m
      · simp only [hvv, if_true]
        by_cases hnn : name = n
        · subst hnn
          refine ⟨⟨_, rfl, ?_⟩, ⟨_, rfl, ?_⟩⟩
          · cases afind h.virt (List.take h.m name) with
            | none => simp
            | some md => simp only []; omega
          · split
            · assumption
            · rw [nameIn_iff]; simp
        · have hold := hi.virt n (by rcases hn with hn | hn; exact hn; exact absurd hn hnn) hm
          obtain ⟨⟨md, h1, h2⟩, ⟨ns, h3, h4⟩⟩ := hold
          refine ⟨⟨_, rfl, ?_⟩, ⟨_, rfl, ?_⟩⟩
          · rw [h1]; simp only []; omega
          · rw [h3]; simp only [Option.getD_some]
            split
            · exact h4
            · rw [nameIn_iff] at h4 ⊢; simp [h4]
      · simp only [hvv, if_false]
        have hnn : name ≠ n := by intro e; subst e; exact hvv rfl
        exact hi.virt n (by rcases hn with hn | hn; exact hn; exact absurd hn hnn) hm
    · have hv : (h.insertEntry name).virt = h.virt := by
        unfold Hash.insertEntry; simp only [hlen, if_false]
      have hvn : (h.insertEntry name).vnames = h.vnames := by
        unfold Hash.insertEntry; simp only [hlen, if_false]
      rw [hv, hvn]
      have hnn : name ≠ n := by intro e; subst e; omega
      exact hi.virt n (by rcases hn with hn | hn; exact hn; exact absurd hn hnn) hm
  · rw [hhas]; exact Or.inr rfl
  · intro n
    simp only [Hash.nhAt, hreal n]
    cases afind h.real n with
    | some e => rfl
    | none => by_cases hk : name = n <;> simp [hk]
  · intro n
    simp only [Hash.stAt, hreal n]
    cases afind h.real n with
    | some e => rfl
    | none => by_cases hk : name = n <;> simp [hk]

theorem hashInv_update {h : Hash} (hi : HashInv h) {name : Name} {e e' : HEntry}
    (hf : afind h.real name = some e) (hh : KeysNodup e'.hops) :
    HashInv { h with real := aset h.real name e' } := by
  refine ⟨keysNodup_aset hi.keys _ _, ?_, ?_⟩
  · intro n e'' hf'
    simp only [afind_aset] at hf'
    by_cases hk : name = n
    · simp [hk] at hf'; subst hf'; exact hh
    · simp [hk] at hf'; exact hi.hops n e'' hf'
  · intro n hn hm
    simp only [ahas_aset_of_has hf] at hn
    exact hi.virt n hn hm

theorem Hash.prune_spec {h : Hash} (hi : HashInv h) (name : Name) :
    HashInv (h.prune name) ∧ (h.prune name).m = h.m ∧
      (∀ n, (h.prune name).nhAt n = h.nhAt n) ∧ (∀ n, (h.prune name).stAt n = h.stAt n) := by
  unfold Hash.prune
  cases hf : afind h.real name with
  | none => exact ⟨hi, rfl, fun _ => rfl, fun _ => rfl⟩
  | some e =>
    simp only []
    by_cases hemp : (e.hops.isEmpty && e.strat.isNone) = true
    · simp only [hemp, if_true]
      simp only [Bool.and_eq_true, List.isEmpty_iff, Option.isNone_iff_eq_none] at hemp
      -- facts about the shrunken real table
      have hhas : ∀ n, ahas (aerase h.real name) n = true ↔ (ahas h.real n = true ∧ name ≠ n) := by
        intro n
        simp only [ahas, afind_aerase]
        by_cases hk : name = n <;> simp [hk]
      have hnh : ∀ (v : List (Name × Nat)) (vn : List (Name × List Name)) n,
          Hash.nhAt ⟨h.m, aerase h.real name, v, vn⟩ n = h.nhAt n := by
        intro v vn n
        simp only [Hash.nhAt, afind_aerase]
        by_cases hk : name = n
        · subst hk; simp [hf, hemp.1]
        · simp [hk]
      have hst : ∀ (v : List (Name × Nat)) (vn : List (Name × List Name)) n,
          Hash.stAt ⟨h.m, aerase h.real name, v, vn⟩ n = h.stAt n := by
        intro v vn n
        simp only [Hash.stAt, afind_aerase]
        by_cases hk : name = n
        · subst hk; simp [hf, hemp.2]
        · simp [hk]
      have hkeys := keysNodup_aerase hi.keys name
      have hhops : ∀ n e', afind (aerase h.real name) n = some e' → KeysNodup e'.hops := by
        intro n e' hf'
        simp only [afind_aerase] at hf'
        by_cases hk : name = n
        · simp [hk] at hf'
        · simp [hk] at hf'; exact hi.hops n e' hf'
      -- the virtual part is unchanged
      have same : HashInv { h with real := aerase h.real name } := by
        refine ⟨hkeys, hhops, ?_⟩
        intro n hn hm
        exact hi.virt n ((hhas n).mp hn).1 hm
      by_cases hlen : name.length ≥ h.m
      · simp only [hlen, if_true]
        cases hv : afind h.virt (List.take h.m name) with
        | none => exact ⟨same, rfl, hnh _ _, hst _ _⟩
        | some md =>
          simp only []
          have claimA : ∀ n, ahas h.real n = true → name ≠ n → h.m ≤ n.length →
              ∃ ns, afind (unrecord h.vnames (List.take h.m name) name) (n.take h.m) = some ns ∧ nameIn ns n = true := by
            intro n hn hne hm
            obtain ⟨ns, h3, h4⟩ := (hi.virt n hn hm).2
            unfold unrecord
            by_cases hvv : name.take h.m = n.take h.m
            · rw [hvv, h3]
              simp only []
              by_cases hin : nameIn ns name = true
              · simp only [hin, if_true]
                have hmem : n ∈ List.filter (fun x => !decide (x = name)) ns := by
                  rw [List.mem_filter]
                  refine ⟨(nameIn_iff _ _).mp h4, ?_⟩
                  simp; exact fun e => hne e.symm
                have hne' : (List.filter (fun x => !decide (x = name)) ns).isEmpty = false := by
                  cases hl : List.filter (fun x => !decide (x = name)) ns with
                  | nil => rw [hl] at hmem; cases hmem
                  | cons _ _ => rfl
                simp only [hne', Bool.false_eq_true, if_false]
                exact ⟨_, by simp [afind_aset], (nameIn_iff _ _).mpr hmem⟩
              · simp only [hin]
                exact ⟨ns, h3, h4⟩
            · refine ⟨ns, ?_, h4⟩
              rw [← h3]
              cases afind h.vnames (List.take h.m name) with
              | none => rfl
              | some ns' =>
                simp only []
                split
                · split
                  · simp [afind_aerase, hvv]
                  · simp [afind_aset, hvv]
                · rfl
          by_cases hmd : name.length = md
          · simp only [hmd, if_true]
            cases hv1 : afind (unrecord h.vnames (List.take h.m name) name) (List.take h.m name) with
            | none =>
              simp only []
              refine ⟨⟨hkeys, hhops, ?_⟩, (by first | rfl | trivial), hnh _ _, hst _ _⟩
              intro n hn hm
              obtain ⟨hn1, hn2⟩ := (hhas n).mp hn
              obtain ⟨ns, h3, h4⟩ := claimA n hn1 hn2 hm
              have hvv : name.take h.m ≠ n.take h.m := by
                intro e; rw [← e] at h3; rw [hv1] at h3; cases h3
              refine ⟨?_, ⟨ns, h3, h4⟩⟩
              simp only [afind_aerase, hvv, if_false]
              exact (hi.virt n hn1 hm).1
            | some ns2 =>
              simp only []
              refine ⟨⟨hkeys, hhops, ?_⟩, (by first | rfl | trivial), hnh _ _, hst _ _⟩
              intro n hn hm
              obtain ⟨hn1, hn2⟩ := (hhas n).mp hn
              obtain ⟨ns, h3, h4⟩ := claimA n hn1 hn2 hm
              refine ⟨?_, ⟨ns, h3, h4⟩⟩
              simp only [afind_aset]
              by_cases hvv : name.take h.m = n.take h.m
              · simp only [hvv, if_true]
                have h3' := h3; rw [← hvv] at h3'; rw [hv1] at h3'; cases h3'
                exact ⟨_, rfl, le_maxLen ((nameIn_iff _ _).mp h4)⟩
              · simp only [hvv, if_false]
                exact (hi.virt n hn1 hm).1
          · simp only [hmd, if_false]
            refine ⟨⟨hkeys, hhops, ?_⟩, (by first | rfl | trivial), hnh _ _, hst _ _⟩
            intro n hn hm
            obtain ⟨hn1, hn2⟩ := (hhas n).mp hn
            exact ⟨(hi.virt n hn1 hm).1, claimA n hn1 hn2 hm⟩
      · simp only [hlen, if_false]
        exact ⟨same, (by first | rfl | trivial), hnh _ _, hst _ _⟩
    · simp only [hemp]
      exact ⟨hi, rfl, fun _ => rfl, fun _ => rfl⟩

/-! ### every operation preserves the invariant and acts on the abstraction as `nhStep`/`stStep` -/

theorem removeHopSwap_of_not_hasFace (a : Hops) (f : Nat) (h : hasFace a f = false) : removeHopSwap a f = a := by
  induction a with
  | nil => rfl
  | cons p t ih =>
    obtain ⟨f', c⟩ := p
    simp only [hasFace, List.any_cons, Bool.or_eq_false_iff, beq_eq_false_iff_ne] at h
    simp only [removeHopSwap, h.1, if_false]
    rw [ih (by simpa [hasFace] using h.2)]

theorem Hash.apply_insmod {h : Hash} (hi : HashInv h) (name : Name) (g : HEntry → HEntry)
    (hh : ∀ e, KeysNodup e.hops → KeysNodup (g e).hops) :
    let h1 := h.insertEntry name
    let h' : Hash := { h1 with real := amodify h1.real name g }
    HashInv h' ∧ h'.m = h.m ∧
      (∀ n, h'.nhAt n = if name = n then (g ⟨h.nhAt name, h.stAt name⟩).hops else h.nhAt n) ∧
      (∀ n, h'.stAt n = if name = n then (g ⟨h.nhAt name, h.stAt name⟩).strat else h.stAt n) := by
  intro h1 h'
  obtain ⟨i1, i2, i3, i4⟩ := Hash.insertEntry_spec hi name
  obtain ⟨e, he⟩ := (ahas_iff _ _).mp i2
  have hreal : h'.real = aset h1.real name (g e) := by
    simp only [h', amodify, h1, he]
  have hinv : HashInv h' := by
    have := hashInv_update i1 he (hh e (i1.hops name e he)) (e' := g e)
    have e2 : h' = { h1 with real := aset h1.real name (g e) } := by
      simp only [h', amodify, h1, he]
    rw [e2]; exact this
  have hee : e = ⟨h.nhAt name, h.stAt name⟩ := by
    have a := i3 name
    have b := i4 name
    simp only [Hash.nhAt, Hash.stAt, he] at a b
    cases e; simp_all [Hash.nhAt, Hash.stAt]
  refine ⟨hinv, Hash.insertEntry_m h name, ?_, ?_⟩
  · intro n
    simp only [Hash.nhAt, hreal, afind_aset]
    by_cases hk : name = n
    · subst hk; simp only [if_true]; rw [hee]; rfl
    · simp only [hk, if_false]; exact i3 n
  · intro n
    simp only [Hash.stAt, hreal, afind_aset]
    by_cases hk : name = n
    · subst hk; simp only [if_true]; rw [hee]; rfl
    · simp only [hk, if_false]; exact i4 n

theorem Hash.apply_setprune {h : Hash} (hi : HashInv h) (name : Name) (e e' : HEntry)
    (he : afind h.real name = some e) (hh : KeysNodup e'.hops) :
    let h' := ({ h with real := aset h.real name e' } : Hash).prune name
    HashInv h' ∧ h'.m = h.m ∧ (∀ n, h'.nhAt n = if name = n then e'.hops else h.nhAt n) ∧
      (∀ n, h'.stAt n = if name = n then e'.strat else h.stAt n) := by
  intro h'
  have i1 := hashInv_update hi he hh (e' := e')
  obtain ⟨g1, g2, g3, g4⟩ := Hash.prune_spec i1 name
  refine ⟨g1, g2, ?_, ?_⟩
  · intro n
    rw [g3 n]
    simp only [Hash.nhAt, afind_aset]
    by_cases hk : name = n <;> simp [hk]
  · intro n
    rw [g4 n]
    simp only [Hash.stAt, afind_aset]
    by_cases hk : name = n <;> simp [hk]

theorem Hash.apply_spec {h : Hash} (hi : HashInv h) (op : Op) :
    HashInv (h.apply op) ∧ (h.apply op).m = h.m ∧ (∀ n, (h.apply op).nhAt n = nhStep removeHopSwap h.nhAt op n) ∧
      (∀ n, (h.apply op).stAt n = stStep h.stAt op n) := by
  cases op with
  | ins name f c =>
    obtain ⟨a, b, c', d⟩ := Hash.apply_insmod hi name (fun e => { e with hops := upsertHop e.hops f c })
      (fun e h => keysNodup_aset h f c)
    refine ⟨a, b, ?_, ?_⟩
    · intro n; simp only [Hash.apply, nhStep]; rw [c' n]; rfl
    · intro n; simp only [Hash.apply, stStep]; rw [d n]
      by_cases hk : name = n
      · subst hk; simp
      · simp [hk]
  | sets name x =>
    obtain ⟨a, b, c', d⟩ := Hash.apply_insmod hi name (fun e => { e with strat := some x }) (fun e h => h)
    refine ⟨a, b, ?_, ?_⟩
    · intro n; simp only [Hash.apply, nhStep]; rw [c' n]
      by_cases hk : name = n
      · subst hk; simp
      · simp [hk]
    · intro n; simp only [Hash.apply, stStep]; rw [d n]
  | rem name f =>
    simp only [Hash.apply]
    cases he : afind h.real name with
    | none =>
      refine ⟨hi, rfl, ?_, fun _ => rfl⟩
      intro n
      simp only [nhStep]
      by_cases hk : name = n
      · subst hk; simp [Hash.nhAt, he, removeHopSwap]
      · simp [hk]
    | some e =>
      simp only []
      cases hf : hasFace e.hops f with
      | false =>
        refine ⟨hi, rfl, ?_, fun _ => rfl⟩
        intro n
        simp only [nhStep]
        by_cases hk : name = n
        · subst hk; simp [Hash.nhAt, he, removeHopSwap_of_not_hasFace _ _ hf]
        · simp [hk]
      | true =>
        simp only [if_true]
        obtain ⟨a, b, c', d⟩ := Hash.apply_setprune hi name e { e with hops := removeHopSwap e.hops f } he
          (keysNodup_removeHopSwap (hi.hops name e he) f)
        refine ⟨a, b, ?_, ?_⟩
        · intro n; rw [c' n]; simp only [nhStep, Hash.nhAt, he]
        · intro n; rw [d n]; simp only [stStep, Hash.stAt]
          by_cases hk : name = n
          · subst hk; simp [he]
          · simp [hk]
  | clr name =>
    simp only [Hash.apply]
    cases he : afind h.real name with
    | none =>
      refine ⟨hi, rfl, ?_, fun _ => rfl⟩
      intro n
      simp only [nhStep]
      by_cases hk : name = n
      · subst hk; simp [Hash.nhAt, he]
      · simp [hk]
    | some e =>
      simp only []
      obtain ⟨a, b, c', d⟩ := Hash.apply_setprune hi name e { e with hops := [] } he (by simp [KeysNodup])
      refine ⟨a, b, ?_, ?_⟩
      · intro n; rw [c' n]; simp only [nhStep]
      · intro n; rw [d n]; simp only [stStep, Hash.stAt]
        by_cases hk : name = n
        · subst hk; simp [he]
        · simp [hk]
  | unsets name =>
    simp only [Hash.apply]
    cases he : afind h.real name with
    | none =>
      refine ⟨hi, rfl, fun _ => rfl, ?_⟩
      intro n
      simp only [stStep]
      by_cases hk : name = n
      · subst hk; simp [Hash.stAt, he]
      · simp [hk]
    | some e =>
      simp only []
      obtain ⟨a, b, c', d⟩ := Hash.apply_setprune hi name e { e with strat := none } he (hi.hops name e he)
      refine ⟨a, b, ?_, ?_⟩
      · intro n; rw [c' n]; simp only [nhStep, Hash.nhAt]
        by_cases hk : name = n
        · subst hk; simp [he]
        · simp [hk]
      · intro n; rw [d n]; simp only [stStep]

end Ndn.C05
