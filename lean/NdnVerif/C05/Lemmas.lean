/-
  C05 helper lemmas, part 1: association lists, next-hop lists, longest-prefix match.
-/
import NdnVerif.C05.Spec
namespace Ndn.C05

/-! ## association lists -/
section Assoc
variable {κ : Type} [DecidableEq κ] {α : Type}

theorem afind_aset (l : List (κ × α)) (k k' : κ) (v : α) :
    afind (aset l k v) k' = if k = k' then some v else afind l k' := by
  induction l with
  | nil => simp [aset, afind]
  | cons p t ih =>
    obtain ⟨a, b⟩ := p
    simp only [aset]
    split <;> simp_all [afind] <;> grind

theorem afind_aerase (l : List (κ × α)) (k k' : κ) :
    afind (aerase l k) k' = if k = k' then none else afind l k' := by
  induction l with
  | nil => simp [aerase, afind]
  | cons p t ih =>
    obtain ⟨a, b⟩ := p
    simp only [aerase, List.filter] at *
    by_cases h : a = k <;> simp_all [afind] <;> grind

theorem afind_append (l l' : List (κ × α)) (k : κ) :
    afind (l ++ l') k = match afind l k with | some v => some v | none => afind l' k := by
  induction l with
  | nil => simp [afind]
  | cons p t ih =>
    obtain ⟨a, b⟩ := p
    by_cases h : a = k <;> simp_all [afind]

theorem afind_amodify (l : List (κ × α)) (k k' : κ) (f : α → α) :
    afind (amodify l k f) k' = if k = k' then (afind l k).map f else afind l k' := by
  unfold amodify
  cases h : afind l k with
  | none => by_cases hk : k = k' <;> simp_all
  | some v => simp [afind_aset]

/-- the keys are pairwise distinct -/
def KeysNodup (l : List (κ × α)) : Prop := (l.map (·.1)).Nodup

theorem afind_eq_none_iff (l : List (κ × α)) (k : κ) : afind l k = none ↔ k ∉ l.map (·.1) := by
  induction l with
  | nil => simp [afind]
  | cons p t ih =>
    obtain ⟨a, b⟩ := p
    by_cases h : a = k <;> simp_all [afind] <;> grind

theorem afind_some_mem {l : List (κ × α)} {k : κ} {v : α} (h : afind l k = some v) : (k, v) ∈ l := by
  induction l with
  | nil => simp [afind] at h
  | cons p t ih =>
    obtain ⟨a, b⟩ := p
    by_cases hk : a = k <;> simp_all [afind]

theorem mem_afind {l : List (κ × α)} (hn : KeysNodup l) {k : κ} {v : α} (hm : (k, v) ∈ l) :
    afind l k = some v := by
  induction l with
  | nil => simp at hm
  | cons p t ih =>
    obtain ⟨a, b⟩ := p
    have hn1 : a ∉ t.map (·.1) := (List.nodup_cons.mp hn).1
    have hn2 : KeysNodup t := (List.nodup_cons.mp hn).2
    rcases List.mem_cons.mp hm with h | h
    · cases h; simp [afind]
    · have hk : a ≠ k := by
        intro e; subst e
        exact hn1 (List.mem_map.mpr ⟨(a, v), h, rfl⟩)
      simp [afind, hk]; exact ih hn2 h

theorem mem_iff_afind {l : List (κ × α)} (hn : KeysNodup l) (k : κ) (v : α) :
    (k, v) ∈ l ↔ afind l k = some v := ⟨mem_afind hn, afind_some_mem⟩

theorem dropLast_append_of_getLast? {t : List α} {l : α} (h : t.getLast? = some l) : t.dropLast ++ [l] = t := by
  have hne : t ≠ [] := by intro e; subst e; simp at h
  have h2 := List.dropLast_concat_getLast hne
  have : t.getLast hne = l := by
    rw [List.getLast?_eq_some_getLast hne] at h
    exact Option.some.inj h
  rw [this] at h2; exact h2

theorem keys_aset (l : List (κ × α)) (k : κ) (v : α) :
    (aset l k v).map (·.1) = if k ∈ l.map (·.1) then l.map (·.1) else l.map (·.1) ++ [k] := by
  induction l with
  | nil => simp [aset]
  | cons p t ih =>
    obtain ⟨a, b⟩ := p
    by_cases h : a = k
    · subst h; simp [aset]
    · simp only [aset, h, if_false, List.map_cons, ih]
      have : ¬ k = a := fun e => h e.symm
      by_cases hm : k ∈ t.map (·.1) <;> simp_all

theorem keysNodup_aset {l : List (κ × α)} (hn : KeysNodup l) (k : κ) (v : α) : KeysNodup (aset l k v) := by
  unfold KeysNodup at *
  rw [keys_aset]
  split
  · exact hn
  · rename_i h
    refine List.nodup_append.mpr ⟨hn, by simp, ?_⟩
    intro a ha b hb e
    simp only [List.mem_singleton] at hb
    subst hb; subst e
    exact h ha

theorem keysNodup_aerase {l : List (κ × α)} (hn : KeysNodup l) (k : κ) : KeysNodup (aerase l k) := by
  unfold KeysNodup aerase at *
  exact (List.filter_sublist.map _).nodup hn

theorem keysNodup_amodify {l : List (κ × α)} (hn : KeysNodup l) (k : κ) (f : α → α) : KeysNodup (amodify l k f) := by
  unfold amodify
  split
  · exact hn
  · exact keysNodup_aset hn _ _

end Assoc

/-! ## next-hop lists -/

/-- two next-hop lists denote the same face ↦ cost map -/
def HopsEq (a b : Hops) : Prop := ∀ f, afind a f = afind b f

theorem HopsEq.refl (a : Hops) : HopsEq a a := fun _ => rfl
theorem HopsEq.symm {a b : Hops} (h : HopsEq a b) : HopsEq b a := fun f => (h f).symm
theorem HopsEq.trans {a b c : Hops} (h : HopsEq a b) (h' : HopsEq b c) : HopsEq a c := fun f => (h f).trans (h' f)

theorem afind_nil_of_all_none {a : Hops} (h : ∀ f, afind a f = none) : a = [] := by
  cases a with
  | nil => rfl
  | cons p t =>
    obtain ⟨f, c⟩ := p
    have := h f
    simp [afind] at this

theorem HopsEq.isEmpty {a b : Hops} (h : HopsEq a b) : a.isEmpty = b.isEmpty := by
  cases a with
  | nil =>
    have : b = [] := afind_nil_of_all_none fun f => by rw [← h f]; simp [afind]
    simp [this]
  | cons p t =>
    cases b with
    | nil =>
      have : p :: t = [] := afind_nil_of_all_none fun f => by rw [h f]; simp [afind]
      simp at this
    | cons _ _ => simp

theorem HopsEq.mem_iff {a b : Hops} (h : HopsEq a b) (ha : KeysNodup a) (hb : KeysNodup b) (x : Hop) :
    x ∈ a ↔ x ∈ b := by
  obtain ⟨f, c⟩ := x
  rw [mem_iff_afind ha, mem_iff_afind hb, h f]

theorem hopsEq_aset {a b : Hops} (h : HopsEq a b) (f c : Nat) : HopsEq (aset a f c) (aset b f c) := by
  intro k; simp [afind_aset, h k]

theorem afind_removeHopShift {a : Hops} (hn : KeysNodup a) (f k : Nat) :
    afind (removeHopShift a f) k = if f = k then none else afind a k := by
  induction a with
  | nil => simp [removeHopShift, afind]
  | cons p t ih =>
    obtain ⟨f', c⟩ := p
    simp only [KeysNodup, List.map_cons, List.nodup_cons] at hn
    by_cases h : f' = f
    · subst h
      simp only [removeHopShift, if_true]
      by_cases hk : f' = k
      · subst hk; simp; exact (afind_eq_none_iff t f').mpr hn.1
      · simp [afind, hk]
    · simp only [removeHopShift, h, if_false, afind]
      by_cases hk : f' = k
      · subst hk; simp [h]; intro e; exact absurd e.symm h
      · simp [hk]; exact ih hn.2

theorem keysNodup_removeHopShift {a : Hops} (hn : KeysNodup a) (f : Nat) : KeysNodup (removeHopShift a f) := by
  have hs : ∀ (a : Hops), (removeHopShift a f).Sublist a := by
    intro a
    induction a with
    | nil => simp [removeHopShift]
    | cons p t ih =>
      obtain ⟨f', c⟩ := p
      by_cases h : f' = f <;> simp [removeHopShift, h, ih]
  exact ((hs a).map _).nodup hn

theorem afind_cons_dropLast {t : Hops} {l : Hop} (hl : t.getLast? = some l) (hn : KeysNodup t) (k : Nat) :
    afind (l :: t.dropLast) k = afind t k := by
  have ht : t.dropLast ++ [l] = t := dropLast_append_of_getLast? hl
  have hn' : KeysNodup (t.dropLast ++ [l]) := by rw [ht]; exact hn
  conv => rhs; rw [← ht]
  rw [afind_append]
  obtain ⟨lf, lc⟩ := l
  by_cases h : lf = k
  · subst h
    have : afind t.dropLast lf = none := by
      rw [afind_eq_none_iff]
      simp only [KeysNodup, List.map_append, List.map_cons, List.map_nil] at hn'
      have := (List.nodup_append.mp hn').2.2
      intro hm
      exact this _ hm _ (by simp) rfl
    simp [afind, this]
  · simp [afind, h]
    cases afind t.dropLast k <;> rfl

theorem afind_removeHopSwap {a : Hops} (hn : KeysNodup a) (f k : Nat) :
    afind (removeHopSwap a f) k = if f = k then none else afind a k := by
  induction a with
  | nil => simp [removeHopSwap, afind]
  | cons p t ih =>
    obtain ⟨f', c⟩ := p
    simp only [KeysNodup, List.map_cons, List.nodup_cons] at hn
    by_cases h : f' = f
    · subst h
      simp only [removeHopSwap, if_true]
      cases hl : t.getLast? with
      | none =>
        have : t = [] := List.getLast?_eq_none_iff.mp hl
        subst this
        by_cases hk : f' = k <;> simp [afind, hk]
      | some l =>
        simp only []
        rw [afind_cons_dropLast hl hn.2]
        by_cases hk : f' = k
        · subst hk; simp; exact (afind_eq_none_iff t f').mpr hn.1
        · simp [afind, hk]
    · simp only [removeHopSwap, h, if_false, afind]
      by_cases hk : f' = k
      · subst hk; simp [h]; intro e; exact absurd e.symm h
      · simp [hk]; exact ih hn.2

theorem removeHopSwap_perm (a : Hops) (f : Nat) : (removeHopSwap a f).Perm (removeHopShift a f) := by
  induction a with
  | nil => simp [removeHopSwap, removeHopShift]
  | cons p t ih =>
    obtain ⟨f', c⟩ := p
    by_cases h : f' = f
    · subst h
      simp only [removeHopSwap, removeHopShift, if_true]
      cases hl : t.getLast? with
      | none => simp [List.getLast?_eq_none_iff.mp hl]
      | some l =>
        have ht : t.dropLast ++ [l] = t := dropLast_append_of_getLast? hl
        conv => rhs; rw [← ht]
        exact (List.perm_append_singleton l t.dropLast).symm
    · simp only [removeHopSwap, removeHopShift, h, if_false]
      exact ih.cons _

theorem keysNodup_removeHopSwap {a : Hops} (hn : KeysNodup a) (f : Nat) : KeysNodup (removeHopSwap a f) := by
  unfold KeysNodup
  exact ((removeHopSwap_perm a f).map _).nodup_iff.mpr (keysNodup_removeHopShift hn f)

theorem afind_filter_ne (a : Hops) (f k : Nat) :
    afind (a.filter fun p => !(decide (p.1 = f))) k = if f = k then none else afind a k :=
  afind_aerase a f k

theorem hasFace_iff (a : Hops) (f : Nat) : hasFace a f = (afind a f).isSome := by
  induction a with
  | nil => simp [hasFace, afind]
  | cons p t ih =>
    obtain ⟨f', c⟩ := p
    simp only [hasFace, List.any_cons, afind] at *
    by_cases h : f' = f <;> simp [h, ih]

/-! ## longest-prefix match -/

theorem lpm_congr {β γ : Type} (g : Name → β) (g' : Name → γ) (ok : β → Bool) (ok' : γ → Bool)
    (d : β) (d' : γ) (R : β → γ → Prop) (name : Name)
    (hok : ∀ n, ok (g n) = ok' (g' n)) (hR : ∀ n, R (g n) (g' n)) (hd : R d d') (k : Nat) :
    R (lpm g ok d name k) (lpm g' ok' d' name k) := by
  induction k with
  | zero => simp only [lpm, hok]; split <;> simp_all
  | succ k ih => simp only [lpm, hok]; split <;> simp_all

/-- prefixes longer than `d` without a value do not matter -/
theorem lpm_skip {β : Type} (g : Name → β) (ok : β → Bool) (dflt : β) (name : Name) (d : Nat) :
    ∀ n, d ≤ n → (∀ j, d < j → j ≤ n → ok (g (name.take j)) = false) →
      lpm g ok dflt name n = lpm g ok dflt name d := by
  intro n
  induction n with
  | zero => intro h _; have : d = 0 := by omega
            subst this; rfl
  | succ n ih =>
    intro h hj
    by_cases hd : d = n + 1
    · subst hd; rfl
    · have h1 : ok (g (name.take (n + 1))) = false := hj (n + 1) (by omega) (by omega)
      simp only [lpm, h1]
      exact ih (by omega) fun j hj1 hj2 => hj j hj1 (by omega)

/-- declarative reading of `lpm`: the value at the longest prefix `name.take k` (k ≤ n) that is `ok` -/
theorem lpm_spec {β : Type} (g : Name → β) (ok : β → Bool) (dflt : β) (name : Name) (n : Nat) :
    (∃ k, k ≤ n ∧ ok (g (name.take k)) = true ∧ (∀ j, k < j → j ≤ n → ok (g (name.take j)) = false) ∧
        lpm g ok dflt name n = g (name.take k)) ∨
    ((∀ j, j ≤ n → ok (g (name.take j)) = false) ∧ lpm g ok dflt name n = dflt) := by
  induction n with
  | zero =>
    by_cases h : ok (g []) = true
    · left; exact ⟨0, by omega, by simpa using h, by intro j h1 h2; omega, by simp [lpm, h]⟩
    · right
      refine ⟨?_, by simp [lpm, h]⟩
      intro j hj
      have : j = 0 := by omega
      subst this; simpa using h
  | succ n ih =>
    by_cases h : ok (g (name.take (n + 1))) = true
    · left; exact ⟨n + 1, by omega, h, by intro j h1 h2; omega, by simp [lpm, h]⟩
    · have h' : ok (g (name.take (n + 1))) = false := by simpa using h
      rcases ih with ⟨k, hk, hok, hj, he⟩ | ⟨hall, he⟩
      · left
        refine ⟨k, by omega, hok, ?_, by simp [lpm, h', he]⟩
        intro j h1 h2
        by_cases hjn : j = n + 1
        · subst hjn; exact h'
        · exact hj j h1 (by omega)
      · right
        refine ⟨?_, by simp [lpm, h', he]⟩
        intro j hj
        by_cases hjn : j = n + 1
        · subst hjn; exact h'
        · exact hall j (by omega)

/-! ## the effect of an operation on the "value at prefix" functions -/

/-- next hops at each prefix after `op`, given the removal function of the implementation -/
def nhStep (rm : Hops → Nat → Hops) (g : Name → Hops) : Op → Name → Hops
  | .ins m f c, n => if m = n then aset (g m) f c else g n
  | .rem m f, n => if m = n then rm (g m) f else g n
  | .clr m, n => if m = n then [] else g n
  | .sets _ _, n => g n
  | .unsets _, n => g n

/-- strategy at each prefix after `op` -/
def stStep (g : Name → Option Name) : Op → Name → Option Name
  | .sets m s, n => if m = n then some s else g n
  | .unsets m, n => if m = n then none else g n
  | .ins _ _ _, n => g n
  | .rem _ _, n => g n
  | .clr _, n => g n

theorem Spec.nhAt_apply (s : Spec) (op : Op) (n : Name) :
    (s.apply op).nhAt n = nhStep (fun h f => h.filter fun p => !(decide (p.1 = f))) s.nhAt op n := by
  cases op with
  | ins m f c => simp only [Spec.apply, Spec.nhAt, nhStep, afind_aset]; split <;> simp
  | rem m f =>
    simp only [Spec.apply, Spec.nhAt, nhStep]
    by_cases he : (List.filter (fun p => !decide (p.fst = f)) ((afind s.nh m).getD [])).isEmpty = true
    · simp only [he, if_true, afind_aerase]
      by_cases hm : m = n
      · simp only [hm, if_true, Option.getD_none]
        rw [hm] at he; exact (List.isEmpty_iff.mp he).symm
      · simp [hm]
    · simp only [he]
      by_cases hm : m = n <;> simp [hm, afind_aset]
  | clr m => simp only [Spec.apply, Spec.nhAt, nhStep, afind_aerase]; split <;> simp
  | sets m x => rfl
  | unsets m => rfl

theorem Spec.stAt_apply (s : Spec) (op : Op) (n : Name) : (s.apply op).stAt n = stStep s.stAt op n := by
  cases op with
  | ins m f c => rfl
  | rem m f => simp only [Spec.apply, Spec.stAt, stStep]
  | clr m => rfl
  | sets m x => simp only [Spec.apply, Spec.stAt, stStep, afind_aset]
  | unsets m => simp only [Spec.apply, Spec.stAt, stStep, afind_aerase]

end Ndn.C05
