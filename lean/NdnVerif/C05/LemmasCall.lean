/-
  C05 helper lemmas, part 5: `ReplaceNextHopsEnc` and call-level histories.  A replace call is,
  in the code and in the models, the sequence clear / insert … per listed prefix; a history of
  calls therefore reduces to a history of primitive operations.
-/
import NdnVerif.C05.LemmasRun
namespace Ndn.C05

/-- the primitive operations one update of `ReplaceNextHopsEnc` performs -/
def expandUpdate (u : Update) : List Op := .clr u.1 :: u.2.map fun h => .ins u.1 h.1 h.2

def Call.expand : Call → List Op
  | .op o => [o]
  | .replace us => us.flatMap expandUpdate

theorem replaceWith_eq {σ : Type} (ap : σ → Op → σ) (us : List Update) : ∀ t : σ,
    replaceWith ap t us = (us.flatMap expandUpdate).foldl ap t := by
  induction us with
  | nil => intro t; rfl
  | cons u r ih =>
    intro t
    simp only [replaceWith, List.foldl_cons, List.flatMap_cons, List.foldl_append, expandUpdate, List.foldl_map]
    exact ih _

theorem Tree.call_eq (t : Tree) (c : Call) : t.call c = c.expand.foldl Tree.apply t := by
  cases c with
  | op o => rfl
  | replace us => exact replaceWith_eq _ us t

theorem Hash.call_eq (h : Hash) (c : Call) : h.call c = c.expand.foldl Hash.apply h := by
  cases c with
  | op o => rfl
  | replace us => exact replaceWith_eq _ us h

theorem Spec.call_eq (s : Spec) (c : Call) : s.call c = c.expand.foldl Spec.apply s := by
  cases c with
  | op o => rfl
  | replace us => exact replaceWith_eq _ us s

/-- the state of each table after a history of interface calls -/
def runTreeC (d : Name) (calls : List Call) : Tree := calls.foldl Tree.call (Tree.init d)
def runHashC (m : Nat) (d : Name) (calls : List Call) : Hash := calls.foldl Hash.call (Hash.init m d)
def runSpecC (d : Name) (calls : List Call) : Spec := calls.foldl Spec.call (Spec.init d)

theorem foldl_call_eq {σ : Type} (call : σ → Call → σ) (ap : σ → Op → σ)
    (h : ∀ t c, call t c = (Call.expand c).foldl ap t) (calls : List Call) : ∀ t : σ,
    calls.foldl call t = (calls.flatMap Call.expand).foldl ap t := by
  induction calls with
  | nil => intro t; rfl
  | cons c r ih => intro t; simp only [List.foldl_cons, List.flatMap_cons, List.foldl_append, h, ih]

theorem runTreeC_eq (d : Name) (calls : List Call) : runTreeC d calls = runTree d (calls.flatMap Call.expand) :=
  foldl_call_eq _ _ Tree.call_eq calls _
theorem runHashC_eq (m : Nat) (d : Name) (calls : List Call) : runHashC m d calls = runHash m d (calls.flatMap Call.expand) :=
  foldl_call_eq _ _ Hash.call_eq calls _
theorem runSpecC_eq (d : Name) (calls : List Call) : runSpecC d calls = runSpec d (calls.flatMap Call.expand) :=
  foldl_call_eq _ _ Spec.call_eq calls _

theorem expand_admissible (calls : List Call) (h : ∀ c ∈ calls, c.admissible = true) :
    ∀ o ∈ calls.flatMap Call.expand, o.admissible = true := by
  intro o ho
  obtain ⟨c, hc, hoc⟩ := List.mem_flatMap.mp ho
  cases c with
  | op o' =>
    simp only [Call.expand, List.mem_singleton] at hoc
    subst hoc; exact h _ hc
  | replace us =>
    simp only [Call.expand, List.mem_flatMap, expandUpdate, List.mem_cons, List.mem_map] at hoc
    obtain ⟨u, _, hu⟩ := hoc
    rcases hu with hu | ⟨x, _, hu⟩ <;> subst hu <;> rfl

/-! ### folding inserts on the abstract table -/

theorem aset_of_not_mem {a : Hops} {k : Nat} (h : k ∉ a.map (·.1)) (v : Nat) : aset a k v = a ++ [(k, v)] := by
  induction a with
  | nil => rfl
  | cons p t ih =>
    obtain ⟨k', v'⟩ := p
    simp only [List.map_cons, List.mem_cons, not_or] at h
    have : ¬ k' = k := fun e => h.1 e.symm
    simp [aset, this, ih h.2]

theorem foldl_aset_append (l : Hops) : ∀ (acc : Hops), KeysNodup (acc ++ l) →
    l.foldl (fun a h => aset a h.1 h.2) acc = acc ++ l := by
  induction l with
  | nil => intro acc _; simp
  | cons p t ih =>
    intro acc hn
    obtain ⟨k, v⟩ := p
    simp only [List.foldl_cons]
    have hk : k ∉ acc.map (·.1) := by
      unfold KeysNodup at hn
      simp only [List.map_append, List.map_cons] at hn
      have := (List.nodup_append.mp hn).2.2
      intro hm
      exact this k hm k (by simp) rfl
    rw [aset_of_not_mem hk]
    have := ih (acc ++ [(k, v)]) (by simpa [List.append_assoc] using hn)
    simpa [List.append_assoc] using this

theorem foldl_ins_nhAt (nm : Name) (l : Hops) : ∀ (fib : Spec) (q : Name),
    ((l.map fun h => Op.ins nm h.1 h.2).foldl Spec.apply fib).nhAt q =
      if nm = q then l.foldl (fun a h => aset a h.1 h.2) (fib.nhAt nm) else fib.nhAt q := by
  induction l with
  | nil => intro fib q; by_cases h : nm = q <;> simp [h]
  | cons p t ih =>
    intro fib q
    simp only [List.map_cons, List.foldl_cons]
    rw [ih]
    simp only [Spec.nhAt_apply, nhStep, if_true]
    by_cases h : nm = q <;> simp [h]


theorem Spec.stAt_foldl_ins (nm : Name) (l : Hops) : ∀ (s : Spec) (q : Name),
    ((l.map fun h => Op.ins nm h.1 h.2).foldl Spec.apply s).stAt q = s.stAt q := by
  induction l with
  | nil => intro s q; rfl
  | cons p t ih => intro s q; simp only [List.map_cons, List.foldl_cons]; rw [ih]; rfl

end Ndn.C05
