/-
  C05 specification — the FIB/strategy table as two finite maps and longest-prefix match.
  Short, executable, independent of both implementations.  Core Lean only.
-/
import NdnVerif.C05.Model
namespace Ndn.C05

/-- Abstract table: `nh` maps a prefix to its non-empty next-hop list (face ↦ cost), `st` maps a
    prefix to the strategy set on it. -/
structure Spec where
  nh : List (Name × Hops)
  st : List (Name × Name)
deriving Repr

/-- initially no next hops anywhere; the root has the default strategy -/
def Spec.init (dflt : Name) : Spec := ⟨[], [([], dflt)]⟩

/-- next hops registered on exactly the prefix `n` (`[]` = none) -/
def Spec.nhAt (s : Spec) (n : Name) : Hops := (afind s.nh n).getD []
/-- strategy set on exactly the prefix `n` -/
def Spec.stAt (s : Spec) (n : Name) : Option Name := afind s.st n

def Spec.apply (s : Spec) : Op → Spec
  | .ins n f c => { s with nh := aset s.nh n (aset (s.nhAt n) f c) }          -- add face or update its cost
  | .rem n f =>
    let h := (s.nhAt n).filter fun p => !(decide (p.1 = f))                    -- drop that face
    { s with nh := if h.isEmpty then aerase s.nh n else aset s.nh n h }
  | .clr n => { s with nh := aerase s.nh n }
  | .sets n x => { s with st := aset s.st n x }
  | .unsets n => { s with st := aerase s.st n }

/-- Longest-prefix match on a "value at prefix" function: the value at the longest prefix
    `name.take k` (k from `name.length` down to 0) where `ok` holds. -/
def lpm {β : Type} (g : Name → β) (ok : β → Bool) (dflt : β) (name : Name) : Nat → β
  | 0 => if ok (g []) then g [] else dflt
  | k + 1 => if ok (g (name.take (k + 1))) then g (name.take (k + 1)) else lpm g ok dflt name k

/-- next-hop lookup: the next hops of the longest prefix of `name` that has next hops -/
def Spec.lpmNextHops (s : Spec) (name : Name) : Hops :=
  lpm s.nhAt (fun h => !h.isEmpty) [] name name.length

/-- strategy lookup: the strategy of the longest prefix of `name` that has one -/
def Spec.lpmStrategy (s : Spec) (name : Name) : Option Name :=
  lpm s.stAt (fun x => x.isSome) none name name.length

/-- FIB listing: the prefixes that hold next hops, with them -/
def Spec.listFib (s : Spec) : List (Name × Hops) := s.nh.filter fun q => !q.2.isEmpty
/-- strategy listing -/
def Spec.listStrat (s : Spec) : List (Name × Name) := s.st


/-- `ReplaceNextHops [(n₁, hops₁), …]`: for each listed prefix in turn, forget its next hops and
    add the listed ones (a face listed twice keeps the later cost) — see `spec_replace_exact`:
    afterwards the prefix holds exactly the listed next hops, every other prefix is untouched. -/
def Spec.call (s : Spec) : Call → Spec
  | .op o => s.apply o
  | .replace us => replaceWith Spec.apply s us

end Ndn.C05
