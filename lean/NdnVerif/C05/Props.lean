/-
  C05 — property theorems only (helper lemmas live in Lemmas*.lean).
-/
import NdnVerif.C05.Spec
namespace Ndn.C05

theorem placeholder_init (d : Name) : (Spec.init d).lpmStrategy [] = some d := by
  simp [Spec.init, Spec.lpmStrategy, lpm, Spec.stAt, afind]

end Ndn.C05
