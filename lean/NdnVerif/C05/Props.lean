/-
  C05 — property theorems only (helper lemmas live in Lemmas*.lean).

  Objects (see Model.lean / Spec.lean / LemmasRun.lean):
    runTree d ops    the name-tree FIB model after the history `ops` (root strategy `d`)
    runHash m d ops  the hash-table FIB model with virtual depth `m` after `ops`
    runSpec d ops    the abstract table (two finite maps) after `ops`
    Spec.lpmNextHops / Spec.lpmStrategy   longest-prefix match on the abstract table
  Histories are arbitrary lists of operations (no length or depth bound); names, faces, costs and
  strategies are arbitrary.  Only `strategy_lookup_total` needs the history to be one that
  management can produce (no unset of the root strategy, F-05b).
-/
import NdnVerif.C05.LemmasCall
namespace Ndn.C05

/-! ## the specification's lookup *is* longest-prefix match -/

/-- Clause "a next-hop lookup returns exactly the (face, cost) set of the longest registered
    prefix of that name which has next hops": the spec lookup returns the next hops stored on
    the prefix `name.take k` where `k` is the largest length with next hops, and nothing if no
    prefix has next hops. -/
theorem spec_lookup_is_longest_prefix_match (s : Spec) (name : Name) :
    (∃ k, k ≤ name.length ∧ s.nhAt (name.take k) ≠ [] ∧
        (∀ j, k < j → j ≤ name.length → s.nhAt (name.take j) = []) ∧
        s.lpmNextHops name = s.nhAt (name.take k)) ∨
    ((∀ j, j ≤ name.length → s.nhAt (name.take j) = []) ∧ s.lpmNextHops name = []) := by
  rcases lpm_spec s.nhAt (fun h => !h.isEmpty) [] name name.length with ⟨k, h1, h2, h3, h4⟩ | ⟨h1, h2⟩
  · left
    refine ⟨k, h1, ?_, ?_, h4⟩
    · intro e; simp [e] at h2
    · intro j a b; have := h3 j a b; simpa using this
  · right
    exact ⟨fun j hj => by have := h1 j hj; simpa using this, h2⟩

example : (runSpec [] [.ins [⟨8, [97]⟩] 7 10]).lpmNextHops [⟨8, [97]⟩, ⟨8, [98]⟩] = [(7, 10)] := by decide

/-- the same for strategies: the strategy set on the longest prefix that has one -/
theorem spec_strategy_is_longest_prefix_match (s : Spec) (name : Name) :
    (∃ k, k ≤ name.length ∧ (s.stAt (name.take k)).isSome ∧
        (∀ j, k < j → j ≤ name.length → s.stAt (name.take j) = none) ∧
        s.lpmStrategy name = s.stAt (name.take k)) ∨
    ((∀ j, j ≤ name.length → s.stAt (name.take j) = none) ∧ s.lpmStrategy name = none) := by
  rcases lpm_spec s.stAt (fun x => x.isSome) none name name.length with ⟨k, h1, h2, h3, h4⟩ | ⟨h1, h2⟩
  · left
    exact ⟨k, h1, h2, fun j a b => by have := h3 j a b; simpa using this, h4⟩
  · right
    exact ⟨fun j hj => by have := h1 j hj; simpa using this, h2⟩

example : (runSpec [⟨8, [100]⟩] []).lpmStrategy [⟨8, [97]⟩] = some [⟨8, [100]⟩] := by decide

/-- in every entry each face occurs once (the next hops are a face ↦ cost map) and the abstract
    listing is exactly the set of prefixes that hold next hops, with exactly those values -/
theorem spec_listing_exact (d : Name) (ops : List Op) (n : Name) (hops : Hops) :
    ((n, hops) ∈ (runSpec d ops).listFib ↔ hops ≠ [] ∧ (runSpec d ops).nhAt n = hops) ∧
    KeysNodup ((runSpec d ops).nhAt n) :=
  ⟨Spec.mem_listFib (runSpec_inv d ops) n hops, (runSpec_inv d ops).hops n⟩

example : (runSpec [] [.ins [] 7 10, .ins [] 7 3, .ins [] 8 1, .rem [] 8]).listFib = [([], [(7, 3)])] := by decide

/-! ## the name tree refines the specification, for every history -/

/-- After any history the name tree's `FindNextHopsEnc` / `FindStrategyEnc` return exactly what
    longest-prefix match on the abstract table returns, for every lookup name. -/
theorem tree_refines_spec (d : Name) (ops : List Op) (name : Name) :
    (runTree d ops).findNextHops name = (runSpec d ops).lpmNextHops name ∧
    (runTree d ops).findStrategy name = (runSpec d ops).lpmStrategy name := by
  obtain ⟨hi, hr1, hr2⟩ := runTree_rel d ops
  constructor
  · rw [Tree.findNextHops_eq hi]
    exact lpm_congr _ _ _ _ _ _ Eq name (fun n => by rw [hr1]) hr1 rfl _
  · rw [Tree.findStrategy_eq hi]
    exact lpm_congr _ _ _ _ _ _ Eq name (fun n => by rw [hr2]) hr2 rfl _

example : (runTree [] [.ins [⟨8, [97]⟩] 7 10, .sets [⟨8, [97]⟩, ⟨8, [98]⟩] [⟨8, [115]⟩], .rem [⟨8, [97]⟩] 7]).findNextHops
    [⟨8, [97]⟩, ⟨8, [98]⟩, ⟨8, [99]⟩] = [] := by decide

/-- The tree's `GetAllFIBEntries` / `GetAllForwardingStrategies` list exactly the entries of the
    abstract table (as sets; each prefix once). -/
theorem tree_listing_refines_spec (d : Name) (ops : List Op) :
    (∀ e, e ∈ (runTree d ops).listFib ↔ e ∈ (runSpec d ops).listFib) ∧
    (∀ e, e ∈ (runTree d ops).listStrat ↔ e ∈ (runSpec d ops).listStrat) := by
  obtain ⟨hi, hr1, hr2⟩ := runTree_rel d ops
  have si := runSpec_inv d ops
  constructor
  · rintro ⟨n, hops⟩
    rw [Tree.mem_listFib hi, Spec.mem_listFib si, hr1]
  · rintro ⟨n, x⟩
    rw [Tree.mem_listStrat hi, Spec.mem_listStrat si, hr2]

example : (runTree [] [.ins [⟨8, [97]⟩, ⟨8, [98]⟩] 7 10, .ins [] 1 1, .clr [⟨8, [97]⟩, ⟨8, [98]⟩]]).listFib
    = [([], [(1, 1)])] := by decide

/-! ## the hash table refines the specification, for every history and every m ≥ 1 -/

/-- After any history, for every virtual depth `m ≥ 1`, the hash table's `FindNextHopsEnc` returns
    the same (face, cost) set as longest-prefix match on the abstract table (each face once on
    both sides; the slice order may differ because removal swaps with the last element), and
    `FindStrategyEnc` returns the same strategy. -/
theorem hash_refines_spec (m : Nat) (hm : 1 ≤ m) (d : Name) (ops : List Op) (name : Name) :
    (∀ x, x ∈ (runHash m d ops).findNextHops name ↔ x ∈ (runSpec d ops).lpmNextHops name) ∧
    KeysNodup ((runHash m d ops).findNextHops name) ∧ KeysNodup ((runSpec d ops).lpmNextHops name) ∧
    (runHash m d ops).findStrategy name = (runSpec d ops).lpmStrategy name := by
  obtain ⟨hi, _, hr1, hr2⟩ := runHash_rel m hm d ops
  have si := runSpec_inv d ops
  rw [Hash.findNextHops_eq hi, Hash.findStrategy_eq hi]
  have key := lpm_congr (runHash m d ops).nhAt (runSpec d ops).nhAt (fun h => !h.isEmpty) (fun h => !h.isEmpty) [] []
    (fun a b => HopsEq a b ∧ KeysNodup a ∧ KeysNodup b) name
    (fun n => by rw [(hr1 n).isEmpty]) (fun n => ⟨hr1 n, Hash.nhAt_nodup hi n, si.hops n⟩)
    ⟨HopsEq.refl _, by simp [KeysNodup], by simp [KeysNodup]⟩ name.length
  refine ⟨fun x => key.1.mem_iff key.2.1 key.2.2 x, key.2.1, key.2.2, ?_⟩
  exact lpm_congr _ _ _ _ _ _ Eq name (fun n => by rw [hr2]) hr2 rfl _

example : (runHash 2 [] [.ins [⟨8, [97]⟩, ⟨8, [98]⟩, ⟨8, [99]⟩] 7 10, .ins [⟨8, [97]⟩] 8 1,
    .rem [⟨8, [97]⟩, ⟨8, [98]⟩, ⟨8, [99]⟩] 7]).findNextHops [⟨8, [97]⟩, ⟨8, [98]⟩, ⟨8, [99]⟩, ⟨8, [100]⟩] = [(8, 1)] := by decide

/-- The hash table's listings contain exactly the prefixes of the abstract table, each with the
    same face ↦ cost map / the same strategy. -/
theorem hash_listing_refines_spec (m : Nat) (hm : 1 ≤ m) (d : Name) (ops : List Op) :
    (∀ n hops, (n, hops) ∈ (runHash m d ops).listFib →
        ∃ hops', (n, hops') ∈ (runSpec d ops).listFib ∧ ∀ x, x ∈ hops ↔ x ∈ hops') ∧
    (∀ n hops', (n, hops') ∈ (runSpec d ops).listFib →
        ∃ hops, (n, hops) ∈ (runHash m d ops).listFib ∧ ∀ x, x ∈ hops ↔ x ∈ hops') ∧
    (∀ e, e ∈ (runHash m d ops).listStrat ↔ e ∈ (runSpec d ops).listStrat) := by
  obtain ⟨hi, _, hr1, hr2⟩ := runHash_rel m hm d ops
  have si := runSpec_inv d ops
  refine ⟨?_, ?_, ?_⟩
  · intro n hops hmem
    obtain ⟨hne, hh⟩ := (Hash.mem_listFib hi n hops).mp hmem
    refine ⟨(runSpec d ops).nhAt n, (Spec.mem_listFib si n _).mpr ⟨?_, rfl⟩, ?_⟩
    · intro e
      have := (hr1 n).isEmpty
      rw [hh, e] at this
      cases hops with
      | nil => exact hne rfl
      | cons _ _ => simp at this
    · intro x
      have := (hr1 n).mem_iff (Hash.nhAt_nodup hi n) (si.hops n) x
      rw [hh] at this; exact this
  · intro n hops' hmem
    obtain ⟨hne, hh⟩ := (Spec.mem_listFib si n hops').mp hmem
    refine ⟨(runHash m d ops).nhAt n, (Hash.mem_listFib hi n _).mpr ⟨?_, rfl⟩, ?_⟩
    · intro e
      have := (hr1 n).isEmpty
      rw [hh, e] at this
      cases hops' with
      | nil => exact hne rfl
      | cons _ _ => simp at this
    · intro x
      have := (hr1 n).mem_iff (Hash.nhAt_nodup hi n) (si.hops n) x
      rw [hh] at this; exact this
  · rintro ⟨n, x⟩
    rw [Hash.mem_listStrat hi, Spec.mem_listStrat si, hr2]

example : (runHash 1 [] [.ins [⟨8, [97]⟩] 7 10, .ins [⟨8, [97]⟩] 8 1, .ins [⟨8, [97]⟩] 9 1, .rem [⟨8, [97]⟩] 7]).listFib
    = [([⟨8, [97]⟩], [(9, 1), (8, 1)])] := by decide

/-! ## the two implementations are observationally identical -/

/-- For every history, every `m ≥ 1` and every lookup name the name tree and the hash table
    return the same (face, cost) set and the same strategy, and list the same prefixes. -/
theorem tree_hash_observationally_equal (m : Nat) (hm : 1 ≤ m) (d : Name) (ops : List Op) (name : Name) :
    (∀ x, x ∈ (runTree d ops).findNextHops name ↔ x ∈ (runHash m d ops).findNextHops name) ∧
    (runTree d ops).findStrategy name = (runHash m d ops).findStrategy name ∧
    (∀ n, (∃ hops, (n, hops) ∈ (runTree d ops).listFib) ↔ (∃ hops, (n, hops) ∈ (runHash m d ops).listFib)) ∧
    (∀ e, e ∈ (runTree d ops).listStrat ↔ e ∈ (runHash m d ops).listStrat) := by
  obtain ⟨t1, t2⟩ := tree_refines_spec d ops name
  obtain ⟨h1, _, _, h4⟩ := hash_refines_spec m hm d ops name
  obtain ⟨l1, l2⟩ := tree_listing_refines_spec d ops
  obtain ⟨g1, g2, g3⟩ := hash_listing_refines_spec m hm d ops
  refine ⟨fun x => by rw [t1]; exact (h1 x).symm, by rw [t2, h4], ?_, fun e => (l2 e).trans (g3 e).symm⟩
  intro n
  constructor
  · rintro ⟨hops, hmem⟩
    obtain ⟨hops2, hm2, _⟩ := g2 n hops ((l1 _).mp hmem)
    exact ⟨hops2, hm2⟩
  · rintro ⟨hops, hmem⟩
    obtain ⟨hops2, hm2, _⟩ := g1 n hops hmem
    exact ⟨hops2, (l1 _).mpr hm2⟩

/-! ## the root always has a strategy -/

/-- Clause "the root always has one: it can be replaced but not unset": on every history that
    management can produce (no unset of the root), every strategy lookup returns a strategy —
    in the abstract table, hence (previous theorems) in both implementations. -/
theorem strategy_lookup_total (d : Name) (ops : List Op) (hadm : ∀ op ∈ ops, op.admissible = true) (name : Name) :
    ((runSpec d ops).lpmStrategy name).isSome ∧ ((runTree d ops).findStrategy name).isSome ∧
    ∀ m, 1 ≤ m → ((runHash m d ops).findStrategy name).isSome := by
  have root : ∀ ops : List Op, (∀ op ∈ ops, op.admissible = true) → ((runSpec d ops).stAt []).isSome := by
    intro ops
    induction ops using ops_induction with
    | h0 => intro _; simp [runSpec, Spec.init, Spec.stAt, afind]
    | hs ops op ih =>
      intro h
      have h1 := ih (fun o ho => h o (List.mem_append_left _ ho))
      have h2 := h op (by simp)
      rw [runSpec_snoc, Spec.stAt_apply]
      cases op with
      | sets m x => simp only [stStep]; split <;> simp [h1]
      | unsets m =>
        simp only [stStep]
        have : m ≠ [] := by intro e; subst e; simp [Op.admissible] at h2
        simp [this, h1]
      | ins m f c => exact h1
      | rem m f => exact h1
      | clr m => exact h1
  have hs : ((runSpec d ops).lpmStrategy name).isSome := by
    rcases spec_strategy_is_longest_prefix_match (runSpec d ops) name with ⟨k, _, h2, _, h4⟩ | ⟨h1, _⟩
    · rw [h4]; exact h2
    · have := h1 0 (by omega)
      have r := root ops hadm
      simp only [List.take_zero] at this
      rw [this] at r; cases r
  refine ⟨hs, by rw [(tree_refines_spec d ops name).2]; exact hs, ?_⟩
  intro m hm
  rw [(hash_refines_spec m hm d ops name).2.2.2]; exact hs

example : ((runSpec [⟨8, [100]⟩] [.sets [] [⟨8, [101]⟩], .unsets [⟨8, [97]⟩]]).lpmStrategy [⟨8, [97]⟩]) = some [⟨8, [101]⟩] := by decide


/-! ## `ReplaceNextHopsEnc`, and histories of interface calls

  `Call` = one of the five primitive operations or `ReplaceNextHopsEnc updates`; `runTreeC`,
  `runHashC`, `runSpecC` are the tables after a history of calls.  Both implementations execute a
  replace as clear + inserts per listed prefix (`replaceWith`), so a call history reduces to a
  history of primitive operations and every theorem above carries over. -/

/-- What a replace means on the abstract table: afterwards the prefix holds exactly the listed
    next hops (a face listed twice keeps the later cost; literally the list when faces are
    distinct, nothing when the list is empty), every other prefix and every strategy is untouched. -/
theorem spec_replace_exact (s : Spec) (n : Name) (hs : Hops) (x : Name) :
    (s.call (.replace [(n, hs)])).nhAt x = (if n = x then hs.foldl (fun a h => aset a h.1 h.2) [] else s.nhAt x) ∧
    (s.call (.replace [(n, hs)])).stAt x = s.stAt x ∧
    (KeysNodup hs → (s.call (.replace [(n, hs)])).nhAt n = hs) := by
  have e : s.call (.replace [(n, hs)]) = (hs.map fun h => Op.ins n h.1 h.2).foldl Spec.apply (s.apply (.clr n)) := by
    rw [Spec.call_eq]; simp [Call.expand, expandUpdate]
  have h1 : ∀ y, (s.call (.replace [(n, hs)])).nhAt y =
      (if n = y then hs.foldl (fun a h => aset a h.1 h.2) [] else s.nhAt y) := by
    intro y
    rw [e, foldl_ins_nhAt]
    simp only [Spec.nhAt_apply, nhStep, if_true]
    by_cases hk : n = y <;> simp [hk]
  refine ⟨h1 x, ?_, ?_⟩
  · rw [e, Spec.stAt_foldl_ins]; rfl
  · intro hn
    rw [h1 n]; simp only [if_true]
    have := foldl_aset_append hs [] (by simpa using hn)
    simpa using this

example : (runSpecC [] [.op (.ins [⟨8, [97]⟩] 1 0), .replace [([⟨8, [97]⟩], [(2, 7)])]]).lpmNextHops [⟨8, [97]⟩, ⟨8, [98]⟩] = [(2, 7)] := by decide
example : (runSpecC [] [.op (.ins [] 1 0), .op (.ins [] 2 5), .replace [([], [(2, 5), (3, 9)])]]).listFib = [([], [(2, 5), (3, 9)])] := by decide

/-- a history of calls is the history of the primitive operations it performs — in the tree, in
    the hash table and in the abstract table -/
theorem calls_reduce_to_ops (m : Nat) (d : Name) (calls : List Call) :
    runTreeC d calls = runTree d (calls.flatMap Call.expand) ∧
    runHashC m d calls = runHash m d (calls.flatMap Call.expand) ∧
    runSpecC d calls = runSpec d (calls.flatMap Call.expand) :=
  ⟨runTreeC_eq d calls, runHashC_eq m d calls, runSpecC_eq d calls⟩

/-- `tree_refines_spec` and `tree_listing_refines_spec` for histories that include replace calls -/
theorem tree_refines_spec_calls (d : Name) (calls : List Call) (name : Name) :
    (runTreeC d calls).findNextHops name = (runSpecC d calls).lpmNextHops name ∧
    (runTreeC d calls).findStrategy name = (runSpecC d calls).lpmStrategy name ∧
    (∀ e, e ∈ (runTreeC d calls).listFib ↔ e ∈ (runSpecC d calls).listFib) ∧
    (∀ e, e ∈ (runTreeC d calls).listStrat ↔ e ∈ (runSpecC d calls).listStrat) := by
  rw [runTreeC_eq, runSpecC_eq]
  exact ⟨(tree_refines_spec d _ name).1, (tree_refines_spec d _ name).2,
    (tree_listing_refines_spec d _).1, (tree_listing_refines_spec d _).2⟩

example : (runTreeC [] [.op (.ins [⟨8, [97]⟩] 1 0), .replace [([⟨8, [97]⟩], [(2, 7)])]]).findNextHops [⟨8, [97]⟩] = [(2, 7)] := by decide

/-- `hash_refines_spec` and `hash_listing_refines_spec` for histories that include replace calls -/
theorem hash_refines_spec_calls (m : Nat) (hm : 1 ≤ m) (d : Name) (calls : List Call) (name : Name) :
    (∀ x, x ∈ (runHashC m d calls).findNextHops name ↔ x ∈ (runSpecC d calls).lpmNextHops name) ∧
    KeysNodup ((runHashC m d calls).findNextHops name) ∧ KeysNodup ((runSpecC d calls).lpmNextHops name) ∧
    (runHashC m d calls).findStrategy name = (runSpecC d calls).lpmStrategy name ∧
    (∀ n hops, (n, hops) ∈ (runHashC m d calls).listFib →
        ∃ hops', (n, hops') ∈ (runSpecC d calls).listFib ∧ ∀ x, x ∈ hops ↔ x ∈ hops') ∧
    (∀ n hops', (n, hops') ∈ (runSpecC d calls).listFib →
        ∃ hops, (n, hops) ∈ (runHashC m d calls).listFib ∧ ∀ x, x ∈ hops ↔ x ∈ hops') ∧
    (∀ e, e ∈ (runHashC m d calls).listStrat ↔ e ∈ (runSpecC d calls).listStrat) := by
  rw [runHashC_eq, runSpecC_eq]
  obtain ⟨a, b, c, e⟩ := hash_refines_spec m hm d (calls.flatMap Call.expand) name
  obtain ⟨f, g, h⟩ := hash_listing_refines_spec m hm d (calls.flatMap Call.expand)
  exact ⟨a, b, c, e, f, g, h⟩

example : (runHashC 1 [] [.op (.ins [⟨8, [97]⟩, ⟨8, [98]⟩] 1 0), .op (.ins [⟨8, [97]⟩, ⟨8, [98]⟩] 2 5),
    .replace [([⟨8, [97]⟩, ⟨8, [98]⟩], [(2, 5), (3, 9)])]]).findNextHops [⟨8, [97]⟩, ⟨8, [98]⟩, ⟨8, [99]⟩] = [(2, 5), (3, 9)] := by decide

/-- the two implementations stay observationally identical on histories with replace calls -/
theorem tree_hash_observationally_equal_calls (m : Nat) (hm : 1 ≤ m) (d : Name) (calls : List Call) (name : Name) :
    (∀ x, x ∈ (runTreeC d calls).findNextHops name ↔ x ∈ (runHashC m d calls).findNextHops name) ∧
    (runTreeC d calls).findStrategy name = (runHashC m d calls).findStrategy name ∧
    (∀ n, (∃ hops, (n, hops) ∈ (runTreeC d calls).listFib) ↔ (∃ hops, (n, hops) ∈ (runHashC m d calls).listFib)) ∧
    (∀ e, e ∈ (runTreeC d calls).listStrat ↔ e ∈ (runHashC m d calls).listStrat) := by
  rw [runTreeC_eq, runHashC_eq]
  exact tree_hash_observationally_equal m hm d _ name

/-- the root keeps a strategy on every management-producible history of calls -/
theorem strategy_lookup_total_calls (d : Name) (calls : List Call) (hadm : ∀ c ∈ calls, c.admissible = true) (name : Name) :
    ((runSpecC d calls).lpmStrategy name).isSome ∧ ((runTreeC d calls).findStrategy name).isSome ∧
    ∀ m, 1 ≤ m → ((runHashC m d calls).findStrategy name).isSome := by
  rw [runSpecC_eq, runTreeC_eq]
  obtain ⟨a, b, c⟩ := strategy_lookup_total d _ (expand_admissible calls hadm) name
  exact ⟨a, b, fun m hm => by rw [runHashC_eq]; exact c m hm⟩

end Ndn.C05
