/-
  C05 helper lemmas, part 2: the name-tree FIB model — invariants and abstraction.
-/
import NdnVerif.C05.Lemmas
namespace Ndn.C05

/-- next hops stored in the node at path `n` -/
def Tree.nhAt (t : Tree) (n : Name) : Hops :=
  match afind t.nodes n with
  | some nd => nd.hops
  | none => []

/-- strategy stored in the node at path `n` -/
def Tree.stAt (t : Tree) (n : Name) : Option Name :=
  match afind t.nodes n with
  | some nd => nd.strat
  | none => none

/-- structural invariant of the name tree -/
structure TreeInv (t : Tree) : Prop where
  root : ahas t.nodes [] = true
  pc : ∀ p k, ahas t.nodes p = true → ahas t.nodes (p.take k) = true      -- prefix closed
  keys : KeysNodup t.nodes
  nm1 : ∀ key nd x, afind t.nodes key = some nd → nd.name = some x → x = key
  nm2 : ∀ key nd, afind t.nodes key = some nd → nd.isEmpty = false → nd.name.isSome = true
  hops : ∀ key nd, afind t.nodes key = some nd → KeysNodup nd.hops

theorem ahas_iff {κ α : Type} [DecidableEq κ] (l : List (κ × α)) (k : κ) : ahas l k = true ↔ ∃ v, afind l k = some v := by
  unfold ahas; cases afind l k <;> simp

theorem ahas_false_iff {κ α : Type} [DecidableEq κ] (l : List (κ × α)) (k : κ) : ahas l k = false ↔ afind l k = none := by
  unfold ahas; cases afind l k <;> simp

/-! ### lookups -/

theorem walkUpHops_eq_lpm (nodes : List (Name × TNode)) (name : Name) (k : Nat) :
    walkUpHops nodes name k = lpm (Tree.nhAt ⟨nodes⟩) (fun h => !h.isEmpty) [] name k := by
  induction k with
  | zero =>
    rcases h : afind nodes [] with _ | nd
    · simp [walkUpHops, lpm, Tree.nhAt, h]
    · cases h2 : nd.hops <;> simp [walkUpHops, lpm, Tree.nhAt, h, h2]
  | succ k ih =>
    rcases h : afind nodes (List.take (k + 1) name) with _ | nd
    · simp [walkUpHops, lpm, Tree.nhAt, h, ih]
    · cases h2 : nd.hops <;> simp [walkUpHops, lpm, Tree.nhAt, h, h2, ih]

theorem walkUpStrat_eq_lpm (nodes : List (Name × TNode)) (name : Name) (k : Nat) :
    walkUpStrat nodes name k = lpm (Tree.stAt ⟨nodes⟩) (fun x => x.isSome) none name k := by
  induction k with
  | zero =>
    rcases h : afind nodes [] with _ | nd
    · simp [walkUpStrat, lpm, Tree.stAt, h]
    · cases h2 : nd.strat <;> simp [walkUpStrat, lpm, Tree.stAt, h, h2]
  | succ k ih =>
    rcases h : afind nodes (List.take (k + 1) name) with _ | nd
    · simp [walkUpStrat, lpm, Tree.stAt, h, ih]
    · cases h2 : nd.strat <;> simp [walkUpStrat, lpm, Tree.stAt, h, h2, ih]

theorem descendLen_le (nodes : List (Name × TNode)) (pre rest : Name) : descendLen nodes pre rest ≤ rest.length := by
  induction rest generalizing pre with
  | nil => simp [descendLen]
  | cons c r ih =>
    simp only [descendLen]
    split
    · have := ih (pre ++ [c]); simp; omega
    · simp

theorem descendLen_has (nodes : List (Name × TNode)) (pre rest : Name) (hp : ahas nodes pre = true) :
    ∀ i, i ≤ descendLen nodes pre rest → ahas nodes (pre ++ rest.take i) = true := by
  induction rest generalizing pre with
  | nil => intro i _; simpa using hp
  | cons c r ih =>
    intro i hi
    simp only [descendLen] at hi
    cases i with
    | zero => simpa using hp
    | succ i =>
      split at hi
      · rename_i hc
        have := ih (pre ++ [c]) hc i (by omega)
        simpa using this
      · omega

theorem descendLen_stop (nodes : List (Name × TNode)) (pre rest : Name) (h : descendLen nodes pre rest < rest.length) :
    ahas nodes (pre ++ rest.take (descendLen nodes pre rest + 1)) = false := by
  induction rest generalizing pre with
  | nil => simp at h
  | cons c r ih =>
    simp only [descendLen] at h ⊢
    split
    · rename_i hc
      simp only [hc, if_true] at h
      have := ih (pre ++ [c]) (by simp at h; omega)
      simpa using this
    · rename_i hc
      simpa using hc

theorem Tree.depthOf_le (t : Tree) (name : Name) : t.depthOf name ≤ name.length := descendLen_le _ _ _

theorem Tree.has_upto_depth {t : Tree} (hi : TreeInv t) (name : Name) (i : Nat) (h : i ≤ t.depthOf name) :
    ahas t.nodes (name.take i) = true := by
  have := descendLen_has t.nodes [] name hi.root i h
  simpa using this

theorem Tree.not_has_beyond_depth {t : Tree} (hi : TreeInv t) (name : Name) (j : Nat)
    (h1 : t.depthOf name < j) (h2 : j ≤ name.length) : ahas t.nodes (name.take j) = false := by
  have hd : t.depthOf name < name.length := by omega
  have hs := descendLen_stop t.nodes [] name hd
  simp only [List.nil_append] at hs
  cases hj : ahas t.nodes (name.take j) with
  | false => rfl
  | true =>
    have := hi.pc _ (t.depthOf name + 1) hj
    rw [List.take_take] at this
    have hm : min (t.depthOf name + 1) j = t.depthOf name + 1 := by omega
    rw [hm] at this
    unfold Tree.depthOf at this
    rw [hs] at this; cases this

theorem Tree.nhAt_of_not_has (t : Tree) (n : Name) (h : ahas t.nodes n = false) : t.nhAt n = [] := by
  simp [Tree.nhAt, (ahas_false_iff _ _).mp h]

theorem Tree.stAt_of_not_has (t : Tree) (n : Name) (h : ahas t.nodes n = false) : t.stAt n = none := by
  simp [Tree.stAt, (ahas_false_iff _ _).mp h]

theorem Tree.findNextHops_eq {t : Tree} (hi : TreeInv t) (name : Name) :
    t.findNextHops name = lpm t.nhAt (fun h => !h.isEmpty) [] name name.length := by
  unfold Tree.findNextHops
  rw [walkUpHops_eq_lpm]
  symm
  apply lpm_skip _ _ _ _ _ _ (t.depthOf_le name)
  intro j h1 h2
  simp [Tree.nhAt_of_not_has t _ (Tree.not_has_beyond_depth hi name j h1 h2)]

theorem Tree.findStrategy_eq {t : Tree} (hi : TreeInv t) (name : Name) :
    t.findStrategy name = lpm t.stAt (fun x => x.isSome) none name name.length := by
  unfold Tree.findStrategy
  rw [walkUpStrat_eq_lpm]
  symm
  apply lpm_skip _ _ _ _ _ _ (t.depthOf_le name)
  intro j h1 h2
  simp [Tree.stAt_of_not_has t _ (Tree.not_has_beyond_depth hi name j h1 h2)]

theorem Tree.findExact_eq {t : Tree} (hi : TreeInv t) (name : Name) : t.findExact name = afind t.nodes name := by
  unfold Tree.findExact
  split
  · rfl
  · rename_i h
    have hlt : t.depthOf name < name.length := by have := t.depthOf_le name; omega
    have := Tree.not_has_beyond_depth hi name name.length hlt (Nat.le_refl _)
    simp only [List.take_length] at this
    exact ((ahas_false_iff _ _).mp this).symm

/-! ### fill -/

theorem afind_blank_map (l : List Nat) (f : Nat → Name) (n : Name) :
    afind (l.map fun k => (f k, TNode.blank)) n = if l.any (fun k => decide (f k = n)) then some TNode.blank else none := by
  induction l with
  | nil => simp [afind]
  | cons a t ih =>
    simp only [List.map_cons, afind, ih, List.any_cons]
    by_cases h : f a = n
    · simp [h]
    · simp [h]

/-- `n` is one of the paths created by `fill name` -/
def Tree.isNewKey (t : Tree) (name n : Name) : Bool :=
  (List.range' (t.depthOf name + 1) (name.length - t.depthOf name)).any fun k => decide (name.take k = n)

theorem Tree.isNewKey_iff (t : Tree) (name n : Name) :
    t.isNewKey name n = true ↔ ∃ k, t.depthOf name < k ∧ k ≤ name.length ∧ name.take k = n := by
  have hd := t.depthOf_le name
  simp only [Tree.isNewKey, List.any_eq_true, List.mem_range'_1, decide_eq_true_eq]
  constructor
  · rintro ⟨k, ⟨h1, h2⟩, h3⟩; exact ⟨k, by omega, by omega, h3⟩
  · rintro ⟨k, h1, h2, h3⟩; exact ⟨k, ⟨by omega, by omega⟩, h3⟩

theorem Tree.afind_fill (t : Tree) (name n : Name) :
    afind (t.fill name).nodes n =
      match afind t.nodes n with
      | some v => some v
      | none => if t.isNewKey name n then some TNode.blank else none := by
  simp only [Tree.fill, afind_append, afind_blank_map, Tree.isNewKey]
  cases afind t.nodes n with
  | some v => rfl
  | none =>
    simp only []
    congr

theorem Tree.nhAt_fill (t : Tree) (name n : Name) : (t.fill name).nhAt n = t.nhAt n := by
  simp only [Tree.nhAt, Tree.afind_fill]
  cases afind t.nodes n with
  | some v => rfl
  | none => cases t.isNewKey name n <;> rfl

theorem Tree.stAt_fill (t : Tree) (name n : Name) : (t.fill name).stAt n = t.stAt n := by
  simp only [Tree.stAt, Tree.afind_fill]
  cases afind t.nodes n with
  | some v => rfl
  | none => cases t.isNewKey name n <;> rfl

theorem Tree.ahas_fill (t : Tree) (name n : Name) :
    ahas (t.fill name).nodes n = true ↔
      ahas t.nodes n = true ∨ ∃ k, t.depthOf name < k ∧ k ≤ name.length ∧ name.take k = n := by
  rw [← Tree.isNewKey_iff]
  simp only [ahas, Tree.afind_fill]
  cases afind t.nodes n with
  | some v => simp
  | none => cases t.isNewKey name n <;> simp

theorem Tree.has_fill_self {t : Tree} (hi : TreeInv t) (name : Name) : ahas (t.fill name).nodes name = true := by
  rw [Tree.ahas_fill]
  by_cases h : t.depthOf name = name.length
  · left
    have := Tree.has_upto_depth hi name name.length (by omega)
    simpa using this
  · right
    have := t.depthOf_le name
    exact ⟨name.length, by omega, by omega, by simp⟩

theorem take_inj_of_le {name : Name} {a b : Nat} (ha : a ≤ name.length) (hb : b ≤ name.length)
    (h : name.take a = name.take b) : a = b := by
  have := congrArg List.length h
  simp only [List.length_take] at this
  omega

theorem nodup_map_take (name : Name) (a b : Nat) (h : a + b ≤ name.length + 1) :
    ((List.range' a b).map fun k => List.take k name).Nodup := by
  induction b generalizing a with
  | zero => simp
  | succ b ih =>
    simp only [List.range'_succ, List.map_cons, List.nodup_cons]
    refine ⟨?_, ih (a + 1) (by omega)⟩
    intro hm
    simp only [List.mem_map, List.mem_range'_1] at hm
    obtain ⟨k, ⟨h1, h2⟩, h3⟩ := hm
    have := take_inj_of_le (by omega) (by omega) h3
    omega

theorem Tree.inv_fill {t : Tree} (hi : TreeInv t) (name : Name) : TreeInv (t.fill name) := by
  have hd := t.depthOf_le name
  refine ⟨?_, ?_, ?_, ?_, ?_, ?_⟩
  · rw [Tree.ahas_fill]; exact Or.inl hi.root
  · intro p k hp
    rw [Tree.ahas_fill] at hp ⊢
    rcases hp with hp | ⟨j, h1, h2, h3⟩
    · exact Or.inl (hi.pc p k hp)
    · subst h3
      rw [List.take_take]
      by_cases hm : min k j ≤ t.depthOf name
      · exact Or.inl (Tree.has_upto_depth hi name _ hm)
      · exact Or.inr ⟨min k j, by omega, by omega, rfl⟩
  · -- keys
    unfold KeysNodup Tree.fill
    simp only [List.map_append, List.map_map]
    refine List.nodup_append.mpr ⟨hi.keys, ?_, ?_⟩
    · have : ((fun x : Name × TNode => x.fst) ∘ fun k => (List.take k name, TNode.blank)) = fun k => List.take k name := rfl
      rw [this]
      exact nodup_map_take name _ _ (by omega)
    · intro a ha b hb hab
      subst hab
      simp only [List.mem_map, Function.comp, List.mem_range'_1] at hb
      obtain ⟨k, ⟨h1, h2⟩, h3⟩ := hb
      have hn := Tree.not_has_beyond_depth hi name k (by omega) (by omega)
      rw [h3] at hn
      have : afind t.nodes a = none := (ahas_false_iff _ _).mp hn
      exact ((afind_eq_none_iff _ _).mp this) ha
  · intro key nd x hf hx
    rw [Tree.afind_fill] at hf
    cases h : afind t.nodes key with
    | some v => rw [h] at hf; cases hf; exact hi.nm1 key _ x h hx
    | none =>
      rw [h] at hf
      simp only at hf
      obtain ⟨_, hf⟩ : t.isNewKey name key = true ∧ TNode.blank = nd := by
        cases hk : t.isNewKey name key <;> simp [hk] at hf; exact ⟨rfl, hf⟩
      subst hf; simp [TNode.blank] at hx
  · intro key nd hf he
    rw [Tree.afind_fill] at hf
    cases h : afind t.nodes key with
    | some v => rw [h] at hf; cases hf; exact hi.nm2 key _ h he
    | none =>
      rw [h] at hf
      simp only at hf
      obtain ⟨_, hf⟩ : t.isNewKey name key = true ∧ TNode.blank = nd := by
        cases hk : t.isNewKey name key <;> simp [hk] at hf; exact ⟨rfl, hf⟩
      subst hf; simp [TNode.blank, TNode.isEmpty] at he
  · intro key nd hf
    rw [Tree.afind_fill] at hf
    cases h : afind t.nodes key with
    | some v => rw [h] at hf; cases hf; exact hi.hops key _ h
    | none =>
      rw [h] at hf
      simp only at hf
      obtain ⟨_, hf⟩ : t.isNewKey name key = true ∧ TNode.blank = nd := by
        cases hk : t.isNewKey name key <;> simp [hk] at hf; exact ⟨rfl, hf⟩
      subst hf; simp [TNode.blank, KeysNodup]

/-! ### updating a node in place, pruning -/

theorem ahas_aset_of_has {κ α : Type} [DecidableEq κ] {l : List (κ × α)} {k : κ} {v0 : α} (h : afind l k = some v0)
    (v : α) (p : κ) : ahas (aset l k v) p = ahas l p := by
  simp only [ahas, afind_aset]
  by_cases hk : k = p
  · subst hk; simp [h]
  · simp [hk]

theorem treeInv_update {t : Tree} (hi : TreeInv t) {key : Name} {nd nd' : TNode}
    (h : afind t.nodes key = some nd)
    (hn1 : ∀ x, nd'.name = some x → x = key) (hn2 : nd'.isEmpty = false → nd'.name.isSome = true)
    (hh : KeysNodup nd'.hops) : TreeInv ⟨aset t.nodes key nd'⟩ := by
  refine ⟨?_, ?_, keysNodup_aset hi.keys _ _, ?_, ?_, ?_⟩
  · simp only [ahas_aset_of_has h]; exact hi.root
  · intro p k hp
    simp only [ahas_aset_of_has h] at hp ⊢
    exact hi.pc p k hp
  · intro key' nd'' x hf hx
    simp only [afind_aset] at hf
    by_cases hk : key = key'
    · subst hk; simp at hf; subst hf; exact hn1 x hx
    · simp [hk] at hf; exact hi.nm1 key' nd'' x hf hx
  · intro key' nd'' hf he
    simp only [afind_aset] at hf
    by_cases hk : key = key'
    · subst hk; simp at hf; subst hf; exact hn2 he
    · simp [hk] at hf; exact hi.nm2 key' nd'' hf he
  · intro key' nd'' hf
    simp only [afind_aset] at hf
    by_cases hk : key = key'
    · subst hk; simp at hf; subst hf; exact hh
    · simp [hk] at hf; exact hi.hops key' nd'' hf

theorem hasChild_false {nodes : List (Name × TNode)} {q : Name} (h : hasChild nodes q = false) (p : Name)
    (hp : ahas nodes p = true) : ¬ (p.length = q.length + 1 ∧ p.take q.length = q) := by
  obtain ⟨v, hv⟩ := (ahas_iff _ _).mp hp
  have hm := afind_some_mem hv
  unfold hasChild at h
  rw [List.any_eq_false] at h
  have := h _ hm
  simpa using this

theorem treeInv_erase {nodes : List (Name × TNode)} (hi : TreeInv ⟨nodes⟩) {q : Name} {nd : TNode}
    (hq : q ≠ []) (hf : afind nodes q = some nd) (he : nd.isEmpty = true) (hc : hasChild nodes q = false) :
    TreeInv ⟨aerase nodes q⟩ ∧ (∀ n, Tree.nhAt ⟨aerase nodes q⟩ n = Tree.nhAt ⟨nodes⟩ n) ∧
      (∀ n, Tree.stAt ⟨aerase nodes q⟩ n = Tree.stAt ⟨nodes⟩ n) := by
  have hhas : ∀ p, ahas (aerase nodes q) p = true ↔ (ahas nodes p = true ∧ q ≠ p) := by
    intro p
    simp only [ahas, afind_aerase]
    by_cases hk : q = p <;> simp [hk]
  simp only [TNode.isEmpty, Bool.and_eq_true, List.isEmpty_iff, Option.isNone_iff_eq_none] at he
  refine ⟨⟨?_, ?_, keysNodup_aerase hi.keys _, ?_, ?_, ?_⟩, ?_, ?_⟩
  · exact (hhas []).mpr ⟨hi.root, hq⟩
  · intro p k hp
    rw [hhas] at hp ⊢
    refine ⟨hi.pc p k hp.1, ?_⟩
    intro hqk
    have hklt : k < p.length := by
      by_cases hk : k < p.length
      · exact hk
      · exfalso; apply hp.2; rw [hqk]; exact List.take_of_length_le (by omega)
    have hql : q.length = k := by rw [hqk, List.length_take]; omega
    have hch := hi.pc p (k + 1) hp.1
    apply hasChild_false hc _ hch
    constructor
    · rw [List.length_take]; omega
    · rw [List.take_take, hql]
      have : min k (k + 1) = k := by omega
      rw [this]; exact hqk.symm
  · intro key nd' x hf' hx
    simp only [afind_aerase] at hf'
    by_cases hk : q = key
    · simp [hk] at hf'
    · simp [hk] at hf'; exact hi.nm1 key nd' x hf' hx
  · intro key nd' hf' he'
    simp only [afind_aerase] at hf'
    by_cases hk : q = key
    · simp [hk] at hf'
    · simp [hk] at hf'; exact hi.nm2 key nd' hf' he'
  · intro key nd' hf'
    simp only [afind_aerase] at hf'
    by_cases hk : q = key
    · simp [hk] at hf'
    · simp [hk] at hf'; exact hi.hops key nd' hf'
  · intro n
    simp only [Tree.nhAt, afind_aerase]
    by_cases hk : q = n
    · subst hk; simp [hf, he.1]
    · simp [hk]
  · intro n
    simp only [Tree.stAt, afind_aerase]
    by_cases hk : q = n
    · subst hk; simp [hf, he.2]
    · simp [hk]

theorem pruneUp_spec (name : Name) (k : Nat) (hk : k ≤ name.length) (nodes : List (Name × TNode)) (hi : TreeInv ⟨nodes⟩) :
    TreeInv ⟨pruneUp nodes name k⟩ ∧ (∀ n, Tree.nhAt ⟨pruneUp nodes name k⟩ n = Tree.nhAt ⟨nodes⟩ n) ∧
      (∀ n, Tree.stAt ⟨pruneUp nodes name k⟩ n = Tree.stAt ⟨nodes⟩ n) := by
  induction k generalizing nodes with
  | zero => exact ⟨hi, fun _ => rfl, fun _ => rfl⟩
  | succ k ih =>
    simp only [pruneUp]
    cases hf : afind nodes (List.take (k + 1) name) with
    | none => exact ⟨hi, fun _ => rfl, fun _ => rfl⟩
    | some nd =>
      simp only []
      by_cases hc : (nd.isEmpty && !hasChild nodes (List.take (k + 1) name)) = true
      · simp only [hc, if_true]
        simp only [Bool.and_eq_true, Bool.not_eq_true'] at hc
        have hq : List.take (k + 1) name ≠ [] := by
          intro e
          have := congrArg List.length e
          simp only [List.length_take, List.length_nil] at this
          omega
        obtain ⟨h1, h2, h3⟩ := treeInv_erase hi hq hf hc.1 hc.2
        obtain ⟨g1, g2, g3⟩ := ih (by omega) _ h1
        exact ⟨g1, fun n => (g2 n).trans (h2 n), fun n => (g3 n).trans (h3 n)⟩
      · simp only [hc]
        exact ⟨hi, fun _ => rfl, fun _ => rfl⟩

/-! ### every operation preserves the invariant and acts on the abstraction as `nhStep`/`stStep` -/

theorem TNode.named_name (nd : TNode) (name : Name) :
    (nd.named name).name = (match nd.name with | some x => some x | none => some name) := rfl

theorem Tree.apply_fillmod {t : Tree} (hi : TreeInv t) (name : Name) (g : TNode → TNode)
    (hh : ∀ nd, KeysNodup nd.hops → KeysNodup (g nd).hops) (hname : ∀ nd, (g nd).name = (nd.named name).name) :
    let t' : Tree := ⟨amodify (t.fill name).nodes name g⟩
    TreeInv t' ∧ (∀ n, t'.nhAt n = if name = n then (g (((afind (t.fill name).nodes name).getD TNode.blank))).hops else t.nhAt n) ∧
      (∀ n, t'.stAt n = if name = n then (g (((afind (t.fill name).nodes name).getD TNode.blank))).strat else t.stAt n) := by
  intro t'
  have hi1 := Tree.inv_fill hi name
  obtain ⟨nd, hnd⟩ := (ahas_iff _ _).mp (Tree.has_fill_self hi name)
  have ht' : t' = ⟨aset (t.fill name).nodes name (g nd)⟩ := by
    simp only [t', amodify, hnd]
  refine ⟨?_, ?_, ?_⟩
  · rw [ht']
    apply treeInv_update hi1 hnd
    · intro x hx
      rw [hname, TNode.named_name] at hx
      cases hn : nd.name with
      | none => rw [hn] at hx; simp at hx; exact hx.symm
      | some y => rw [hn] at hx; simp at hx; subst hx; exact hi1.nm1 name nd y hnd hn
    · intro _
      rw [hname, TNode.named_name]
      cases nd.name <;> rfl
    · exact hh nd (hi1.hops name nd hnd)
  · intro n
    rw [ht']
    simp only [Tree.nhAt, afind_aset, hnd, Option.getD_some]
    by_cases hk : name = n
    · simp [hk]
    · simp only [hk, if_false]
      exact Tree.nhAt_fill t name n
  · intro n
    rw [ht']
    simp only [Tree.stAt, afind_aset, hnd, Option.getD_some]
    by_cases hk : name = n
    · simp [hk]
    · simp only [hk, if_false]
      exact Tree.stAt_fill t name n

theorem Tree.apply_setprune {t : Tree} (hi : TreeInv t) (name : Name) (nd nd' : TNode)
    (hnd : afind t.nodes name = some nd) (hname : nd'.name = nd.name)
    (he : nd'.isEmpty = false → nd.isEmpty = false) (hh : KeysNodup nd'.hops) :
    let t' : Tree := ⟨pruneUp (aset t.nodes name nd') name name.length⟩
    TreeInv t' ∧ (∀ n, t'.nhAt n = if name = n then nd'.hops else t.nhAt n) ∧
      (∀ n, t'.stAt n = if name = n then nd'.strat else t.stAt n) := by
  intro t'
  have hi1 : TreeInv ⟨aset t.nodes name nd'⟩ := by
    apply treeInv_update hi hnd
    · intro x hx; rw [hname] at hx; exact hi.nm1 name nd x hnd hx
    · intro h; rw [hname]; exact hi.nm2 name nd hnd (he h)
    · exact hh
  obtain ⟨g1, g2, g3⟩ := pruneUp_spec name name.length (Nat.le_refl _) _ hi1
  refine ⟨g1, ?_, ?_⟩
  · intro n
    rw [g2 n]
    simp only [Tree.nhAt, afind_aset]
    by_cases hk : name = n <;> simp [hk]
  · intro n
    rw [g3 n]
    simp only [Tree.stAt, afind_aset]
    by_cases hk : name = n <;> simp [hk]

theorem Tree.apply_spec {t : Tree} (hi : TreeInv t) (op : Op) :
    TreeInv (t.apply op) ∧ (∀ n, (t.apply op).nhAt n = nhStep removeHopShift t.nhAt op n) ∧
      (∀ n, (t.apply op).stAt n = stStep t.stAt op n) := by
  cases op with
  | ins name f c =>
    obtain ⟨h1, h2, h3⟩ := Tree.apply_fillmod hi name (fun nd => { nd.named name with hops := upsertHop nd.hops f c })
      (fun nd h => keysNodup_aset h f c) (fun _ => rfl)
    obtain ⟨nd, hnd⟩ := (ahas_iff _ _).mp (Tree.has_fill_self hi name)
    refine ⟨h1, ?_, ?_⟩
    · intro n
      simp only [Tree.apply, nhStep]
      rw [h2 n]
      by_cases hk : name = n
      · simp only [hk, if_true]
        subst hk
        have := Tree.nhAt_fill t name name
        simp only [Tree.nhAt, hnd] at this
        simp [hnd, upsertHop, Tree.nhAt, ← this]
      · simp [hk]
    · intro n
      simp only [Tree.apply, stStep]
      rw [h3 n]
      by_cases hk : name = n
      · subst hk
        have := Tree.stAt_fill t name name
        simp only [Tree.stAt, hnd] at this
        simp [hnd, Tree.stAt, ← this, TNode.named]
      · simp [hk]
  | sets name x =>
    obtain ⟨h1, h2, h3⟩ := Tree.apply_fillmod hi name (fun nd => { nd.named name with strat := some x })
      (fun nd h => h) (fun _ => rfl)
    obtain ⟨nd, hnd⟩ := (ahas_iff _ _).mp (Tree.has_fill_self hi name)
    refine ⟨h1, ?_, ?_⟩
    · intro n
      simp only [Tree.apply, nhStep]
      rw [h2 n]
      by_cases hk : name = n
      · subst hk
        have := Tree.nhAt_fill t name name
        simp only [Tree.nhAt, hnd] at this
        simp [hnd, TNode.named, Tree.nhAt, ← this]
      · simp [hk]
    · intro n
      simp only [Tree.apply, stStep]
      rw [h3 n]
  | rem name f =>
    simp only [Tree.apply, Tree.findExact_eq hi]
    cases hnd : afind t.nodes name with
    | none =>
      refine ⟨hi, ?_, fun _ => rfl⟩
      intro n
      simp only [nhStep]
      by_cases hk : name = n
      · subst hk; simp [Tree.nhAt, hnd, removeHopShift]
      · simp [hk]
    | some nd =>
      obtain ⟨h1, h2, h3⟩ := Tree.apply_setprune hi name nd { nd with hops := removeHopShift nd.hops f } hnd rfl
        (by
          intro h
          simp only [TNode.isEmpty, Bool.and_eq_false_iff, List.isEmpty_eq_false_iff, Option.isNone_eq_false_iff] at h ⊢
          rcases h with h | h
          · left; intro e; apply h; simp [e, removeHopShift]
          · right; exact h)
        (keysNodup_removeHopShift (hi.hops name nd hnd) f)
      refine ⟨h1, ?_, ?_⟩
      · intro n; rw [h2 n]; simp only [nhStep, Tree.nhAt, hnd]
      · intro n; rw [h3 n]; simp only [stStep, Tree.stAt]
        by_cases hk : name = n
        · subst hk; simp [hnd]
        · simp [hk]
  | clr name =>
    simp only [Tree.apply, Tree.findExact_eq hi]
    cases hnd : afind t.nodes name with
    | none =>
      refine ⟨hi, ?_, fun _ => rfl⟩
      intro n
      simp only [nhStep]
      by_cases hk : name = n
      · subst hk; simp [Tree.nhAt, hnd]
      · simp [hk]
    | some nd =>
      obtain ⟨h1, h2, h3⟩ := Tree.apply_setprune hi name nd { nd with hops := [] } hnd rfl
        (by
          intro h
          simp only [TNode.isEmpty, Bool.and_eq_false_iff, List.isEmpty_eq_false_iff, Option.isNone_eq_false_iff] at h ⊢
          rcases h with h | h
          · exact absurd rfl h
          · right; exact h)
        (by simp [KeysNodup])
      refine ⟨h1, ?_, ?_⟩
      · intro n; rw [h2 n]; simp only [nhStep]
      · intro n; rw [h3 n]; simp only [stStep, Tree.stAt]
        by_cases hk : name = n
        · subst hk; simp [hnd]
        · simp [hk]
  | unsets name =>
    simp only [Tree.apply, Tree.findExact_eq hi]
    cases hnd : afind t.nodes name with
    | none =>
      refine ⟨hi, fun _ => rfl, ?_⟩
      intro n
      simp only [stStep]
      by_cases hk : name = n
      · subst hk; simp [Tree.stAt, hnd]
      · simp [hk]
    | some nd =>
      obtain ⟨h1, h2, h3⟩ := Tree.apply_setprune hi name nd { nd with strat := none } hnd rfl
        (by
          intro h
          simp only [TNode.isEmpty, Bool.and_eq_false_iff, List.isEmpty_eq_false_iff, Option.isNone_eq_false_iff] at h ⊢
          rcases h with h | h
          · left; exact h
          · simp at h)
        (hi.hops name nd hnd)
      refine ⟨h1, ?_, ?_⟩
      · intro n; rw [h2 n]; simp only [nhStep, Tree.nhAt]
        by_cases hk : name = n
        · subst hk; simp [hnd]
        · simp [hk]
      · intro n; rw [h3 n]; simp only [stStep]

end Ndn.C05
