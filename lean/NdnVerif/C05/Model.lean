/-
  C05 model — fw/table/fib-strategy-tree.go (name-tree FIB) and fw/table/fib-strategy-hashtable.go
  (hash-table FIB with virtual nodes, parameter m).  Mirrors what the code does.  Core Lean only.

  Representation choices (see design/C05.md):
  * a pointer tree is represented by its node set keyed by the path from the root
    (`List (Name × TNode)`); the parent of the node at path `p ++ [c]` is the node at path `p`,
    the children of `p` are the nodes at `p ++ [c]`.
  * hash tables `map[uint64]…` are keyed by the hashed *name* (A-hash: the harness checks at run
    time that distinct names of a run have distinct hashes).
  * next hops are the Go slices `[]*FibNextHopEntry` as lists of (face, cost), in slice order.
-/
import NdnVerif.Base.Name
namespace Ndn.C05

/-! ## association lists (finite maps) -/
section Assoc
variable {κ : Type} [DecidableEq κ] {α : Type}

/-- first binding of `k` -/
def afind : List (κ × α) → κ → Option α
  | [], _ => none
  | (k', v) :: t, k => if k' = k then some v else afind t k

/-- replace the first binding of `k` in place, or append a new binding at the end -/
def aset : List (κ × α) → κ → α → List (κ × α)
  | [], k, v => [(k, v)]
  | (k', v') :: t, k, v => if k' = k then (k, v) :: t else (k', v') :: aset t k v

/-- remove every binding of `k` -/
def aerase (l : List (κ × α)) (k : κ) : List (κ × α) := l.filter (fun p => !(decide (p.1 = k)))

def ahas (l : List (κ × α)) (k : κ) : Bool := (afind l k).isSome

/-- apply `f` to the binding of `k` if there is one -/
def amodify (l : List (κ × α)) (k : κ) (f : α → α) : List (κ × α) :=
  match afind l k with
  | none => l
  | some v => aset l k (f v)
end Assoc

/-! ## next-hop slices -/

abbrev Hop := Nat × Nat      -- (face id, cost)
abbrev Hops := List Hop

/-- `for existing … if existing.Nexthop == nexthop { existing.Cost = cost; return }` else `append` -/
def upsertHop (h : Hops) (f c : Nat) : Hops := aset h f c

/-- tree FIB `RemoveNextHopEnc`: delete the first match, shifting the tail left -/
def removeHopShift : Hops → Nat → Hops
  | [], _ => []
  | (f', c) :: t, f => if f' = f then t else (f', c) :: removeHopShift t f

/-- hash-table FIB `RemoveNextHopEnc`: overwrite the first match with the last element and drop
    the last element (`if len > 1 { nextHops[i] = nextHops[len-1] }; nextHops[:len-1]`): the
    elements before the match stay, the match is replaced by the last element of the rest (if
    there is a rest), the rest loses its last element. -/
def removeHopSwap : Hops → Nat → Hops
  | [], _ => []
  | (f', c) :: t, f =>
    if f' = f then
      match t.getLast? with
      | none => []
      | some l => l :: t.dropLast
    else (f', c) :: removeHopSwap t f

def hasFace (h : Hops) (f : Nat) : Bool := h.any (fun p => p.1 == f)

/-! ## operations of the FibStrategy interface (the mutating ones) -/

inductive Op where
  | ins (n : Name) (face cost : Nat)     -- InsertNextHopEnc
  | rem (n : Name) (face : Nat)          -- RemoveNextHopEnc
  | clr (n : Name)                       -- ClearNextHopsEnc
  | sets (n : Name) (s : Name)           -- SetStrategyEnc
  | unsets (n : Name)                    -- UnSetStrategyEnc
deriving Repr

/-- Histories that management can produce: `strategy-choice/unset` rejects the root
    (fw/mgmt/strategy-choice.go `if len(params.Name) == 0 { … 400 }`). -/
def Op.admissible : Op → Bool
  | .unsets n => !n.isEmpty
  | _ => true

/-! ## name-tree FIB  (fib-strategy-tree.go) -/

structure TNode where
  name : Option Name      -- `entry.name` (nil for nodes created as path fillers)
  hops : Hops             -- `entry.nexthops`
  strat : Option Name     -- `entry.strategy` (nil = unset)
deriving Repr

def TNode.blank : TNode := ⟨none, [], none⟩

/-- the loop condition of `pruneIfEmpty` without the parent test -/
def TNode.isEmpty (n : TNode) : Bool := n.hops.isEmpty && n.strat.isNone

structure Tree where
  nodes : List (Name × TNode)     -- key = path from the root; the root `[]` is always present
deriving Repr

/-- `newFibStrategyTableTree`; `dflt` is the root strategy the constructor installs -/
def Tree.init (dflt : Name) : Tree := ⟨[([], ⟨some [], [], some dflt⟩)]⟩

/-- `findLongestPrefixEntryEnc`: descend from the node at path `pre` along `rest` while a child
    with the next component exists; returns the number of levels descended. -/
def descendLen (nodes : List (Name × TNode)) : Name → Name → Nat
  | _, [] => 0
  | pre, c :: r => if ahas nodes (pre ++ [c]) then descendLen nodes (pre ++ [c]) r + 1 else 0

/-- depth of the node `root.findLongestPrefixEntryEnc(name)` -/
def Tree.depthOf (t : Tree) (name : Name) : Nat := descendLen t.nodes [] name

/-- `findExactMatchEntryEnc`: the node at path `name`, if the descent reaches it -/
def Tree.findExact (t : Tree) (name : Name) : Option TNode :=
  if t.depthOf name = name.length then afind t.nodes name else none

/-- `fillTreeToPrefixEnc`: create the missing nodes below the longest existing one -/
def Tree.fill (t : Tree) (name : Name) : Tree :=
  let d := t.depthOf name
  ⟨t.nodes ++ (List.range' (d + 1) (name.length - d)).map fun k => (name.take k, TNode.blank)⟩

def hasChild (nodes : List (Name × TNode)) (p : Name) : Bool :=
  nodes.any fun q => q.1.length == p.length + 1 && decide (q.1.take p.length = p)

/-- `pruneIfEmpty` (loop from the node at `name.take k` towards the root):
    `for cur := f; cur.parent != nil && no children && no nexthops && strategy == nil; cur = cur.parent`
    unlink `cur` from its parent. -/
def pruneUp (nodes : List (Name × TNode)) (name : Name) : Nat → List (Name × TNode)
  | 0 => nodes                       -- the root has no parent
  | k + 1 =>
    match afind nodes (name.take (k + 1)) with
    | none => nodes
    | some nd =>
      if nd.isEmpty && !hasChild nodes (name.take (k + 1)) then
        pruneUp (aerase nodes (name.take (k + 1))) name k
      else nodes

/-- walk from the node at `name.take k` up the parent pointers to the first node whose `sel`
    is non-empty (`FindNextHopsEnc` / `FindStrategyEnc` second loop) -/
def walkUpHops (nodes : List (Name × TNode)) (name : Name) : Nat → Hops
  | 0 => match afind nodes [] with
    | some nd => nd.hops
    | none => []
  | k + 1 => match afind nodes (name.take (k + 1)) with
    | some nd => if !nd.hops.isEmpty then nd.hops else walkUpHops nodes name k
    | none => walkUpHops nodes name k

def walkUpStrat (nodes : List (Name × TNode)) (name : Name) : Nat → Option Name
  | 0 => match afind nodes [] with
    | some nd => nd.strat
    | none => none
  | k + 1 => match afind nodes (name.take (k + 1)) with
    | some nd => if nd.strat.isSome then nd.strat else walkUpStrat nodes name k
    | none => walkUpStrat nodes name k

def Tree.findNextHops (t : Tree) (name : Name) : Hops := walkUpHops t.nodes name (t.depthOf name)
def Tree.findStrategy (t : Tree) (name : Name) : Option Name := walkUpStrat t.nodes name (t.depthOf name)

/-- `if entry.name == nil { entry.name = name }` -/
def TNode.named (nd : TNode) (name : Name) : TNode :=
  { nd with name := match nd.name with | some x => some x | none => some name }

def Tree.apply (t : Tree) : Op → Tree
  | .ins name f c =>
    let t1 := t.fill name
    ⟨amodify t1.nodes name fun nd => { nd.named name with hops := upsertHop nd.hops f c }⟩
  | .rem name f =>
    match t.findExact name with
    | none => t
    | some nd => ⟨pruneUp (aset t.nodes name { nd with hops := removeHopShift nd.hops f }) name name.length⟩
  | .clr name =>
    match t.findExact name with
    | none => t
    | some nd => ⟨pruneUp (aset t.nodes name { nd with hops := [] }) name name.length⟩
  | .sets name s =>
    let t1 := t.fill name
    ⟨amodify t1.nodes name fun nd => { nd.named name with strat := some s }⟩
  | .unsets name =>
    match t.findExact name with
    | none => t
    | some nd => ⟨pruneUp (aset t.nodes name { nd with strat := none }) name name.length⟩

/-- `GetAllFIBEntries`: every node with `len(nexthops) > 0`, as (entry.Name(), nexthops) -/
def Tree.listFib (t : Tree) : List (Name × Hops) :=
  (t.nodes.filter fun q => !q.2.hops.isEmpty).map fun q => (q.2.name.getD [], q.2.hops)

/-- `GetAllForwardingStrategies`: every node with `strategy != nil` -/
def Tree.listStrat (t : Tree) : List (Name × Name) :=
  t.nodes.filterMap fun q => q.2.strat.map fun s => (q.2.name.getD [], s)

/-! ## hash-table FIB  (fib-strategy-hashtable.go) -/

structure HEntry where
  hops : Hops
  strat : Option Name
deriving Repr

structure Hash where
  m : Nat                               -- virtual-node depth
  real : List (Name × HEntry)           -- realTable (entry.name = key)
  virt : List (Name × Nat)              -- virtTable: virtual name ↦ md
  vnames : List (Name × List Name)      -- virtTableNames: virtual name ↦ set of real names
deriving Repr

/-- `newFibStrategyTableHashTable(m)` -/
def Hash.init (m : Nat) (dflt : Name) : Hash := ⟨m, [([], ⟨[], some dflt⟩)], [], []⟩

/-- `for pfx := hi; pfx >= lo; pfx-- { if realTable[prefixHash[pfx]] ok → return }` -/
def scanReal (real : List (Name × HEntry)) (name : Name) (lo : Nat) : Nat → Option Nat
  | 0 => if 0 < lo then none else if ahas real (name.take 0) then some 0 else none
  | h + 1 =>
    if h + 1 < lo then none
    else if ahas real (name.take (h + 1)) then some (h + 1)
    else scanReal real name lo h

/-- `findLongestPrefixMatchEnc`: length of the name of the returned entry (none = nil) -/
def Hash.findLpm (h : Hash) (name : Name) : Option Nat :=
  if name.length ≤ h.m then scanReal h.real name 0 name.length
  else
    match afind h.virt (name.take h.m) with
    | some md =>
      match scanReal h.real name (h.m + 1) (min md name.length) with
      | some k => some k
      | none => scanReal h.real name 0 h.m
    | none => scanReal h.real name 0 h.m

/-- `for pfx := len(entry.name); pfx >= 0; pfx-- { val, ok := realTable[…]; if ok && len(val.nexthops) > 0 → return }` -/
def scanHops (real : List (Name × HEntry)) (name : Name) : Nat → Hops
  | 0 => match afind real [] with
    | some e => e.hops
    | none => []
  | k + 1 => match afind real (name.take (k + 1)) with
    | some e => if !e.hops.isEmpty then e.hops else scanHops real name k
    | none => scanHops real name k

def scanStrat (real : List (Name × HEntry)) (name : Name) : Nat → Option Name
  | 0 => match afind real [] with
    | some e => e.strat
    | none => none
  | k + 1 => match afind real (name.take (k + 1)) with
    | some e => if e.strat.isSome then e.strat else scanStrat real name k
    | none => scanStrat real name k

def Hash.findNextHops (h : Hash) (name : Name) : Hops :=
  match h.findLpm name with
  | none => []
  | some k => scanHops h.real name k

def Hash.findStrategy (h : Hash) (name : Name) : Option Name :=
  match h.findLpm name with
  | none => none
  | some k => scanStrat h.real name k

/-- set membership in a `map[string]int` keyed by the name's bytes -/
def nameIn (ns : List Name) (name : Name) : Bool := ns.any fun x => decide (x = name)

def maxLen : List Name → Nat
  | [] => 0
  | n :: t => max n.length (maxLen t)

/-- `insertEntryEnc`: real entry created if missing; for `len(name) >= m` the virtual entry at
    the m-prefix is created/updated (`md = max(md, len)`) and the name recorded. -/
def Hash.insertEntry (h : Hash) (name : Name) : Hash :=
  let real := if ahas h.real name then h.real else h.real ++ [(name, ⟨[], none⟩)]
  if name.length ≥ h.m then
    let v := name.take h.m
    let md := match afind h.virt v with
      | some md => max md name.length
      | none => name.length
    let ns := (afind h.vnames v).getD []
    let ns := if nameIn ns name then ns else ns ++ [name]
    { h with real := real, virt := aset h.virt v md, vnames := aset h.vnames v ns }
  else { h with real := real }

/-- step (1) of `pruneTables`: unrecord `name` from the set of the virtual name `v`, dropping the
    set when it becomes empty -/
def unrecord (vnames : List (Name × List Name)) (v name : Name) : List (Name × List Name) :=
  match afind vnames v with
  | some ns =>
    if nameIn ns name then
      let ns' := ns.filter (fun x => !(decide (x = name)))
      if ns'.isEmpty then aerase vnames v else aset vnames v ns'
    else vnames
  | none => vnames

/-- `pruneTables(entry)` for the entry stored under `name`: delete the real entry if it has no
    next hops and no strategy; then, for `len(name) >= m`, (1) if the virtual entry exists and
    the name is recorded for it, unrecord it (dropping the name set when it becomes empty);
    (2) if the virtual entry exists and `len(name) == md`: delete the virtual entry when its name
    set is gone, otherwise recompute `md` as the longest recorded name. -/
def Hash.prune (h : Hash) (name : Name) : Hash :=
  match afind h.real name with
  | none => h
  | some e =>
    if e.hops.isEmpty && e.strat.isNone then
      let real := aerase h.real name
      if name.length ≥ h.m then
        let v := name.take h.m
        match afind h.virt v with
        | none => { h with real := real }
        | some md =>
          let vn1 := unrecord h.vnames v name
          if name.length = md then
            match afind vn1 v with
            | none => { h with real := real, virt := aerase h.virt v, vnames := vn1 }
            | some ns => { h with real := real, virt := aset h.virt v (maxLen ns), vnames := vn1 }
          else { h with real := real, vnames := vn1 }
      else { h with real := real }
    else h

def Hash.apply (h : Hash) : Op → Hash
  | .ins name f c =>
    let h1 := h.insertEntry name
    { h1 with real := amodify h1.real name fun e => { e with hops := upsertHop e.hops f c } }
  | .rem name f =>
    match afind h.real name with
    | none => h
    | some e =>
      if hasFace e.hops f then
        ({ h with real := aset h.real name { e with hops := removeHopSwap e.hops f } } : Hash).prune name
      else h
  | .clr name =>
    match afind h.real name with
    | none => h
    | some e => ({ h with real := aset h.real name { e with hops := [] } } : Hash).prune name
  | .sets name s =>
    let h1 := h.insertEntry name
    { h1 with real := amodify h1.real name fun e => { e with strat := some s } }
  | .unsets name =>
    match afind h.real name with
    | none => h
    | some e => ({ h with real := aset h.real name { e with strat := none } } : Hash).prune name

def Hash.listFib (h : Hash) : List (Name × Hops) :=
  (h.real.filter fun q => !q.2.hops.isEmpty).map fun q => (q.1, q.2.hops)

def Hash.listStrat (h : Hash) : List (Name × Name) :=
  h.real.filterMap fun q => q.2.strat.map fun s => (q.1, s)


/-! ## `ReplaceNextHopsEnc` and the interface calls -/

/-- `FibNextHopsUpdate`: the complete new next-hop list of one prefix -/
abbrev Update := Name × Hops

/-- one mutating call of the `FibStrategy` interface -/
inductive Call where
  | op (o : Op)                    -- InsertNextHopEnc … UnSetStrategyEnc
  | replace (us : List Update)     -- ReplaceNextHopsEnc
deriving Repr

def Call.admissible : Call → Bool
  | .op o => o.admissible
  | .replace _ => true

/-- `ReplaceNextHopsEnc` (identical in both implementations, under one write lock):
    `for _, update := range updates { f.clearNextHops(update.Name); for _, nh := range update.NextHops { f.insertNextHop(update.Name, nh.Nexthop, nh.Cost) } }`
    where `clearNextHops`/`insertNextHop` are the bodies of `ClearNextHopsEnc`/`InsertNextHopEnc`. -/
def replaceWith {σ : Type} (ap : σ → Op → σ) (t : σ) (us : List Update) : σ :=
  us.foldl (fun t u => u.2.foldl (fun t h => ap t (.ins u.1 h.1 h.2)) (ap t (.clr u.1))) t

def Tree.call (t : Tree) : Call → Tree
  | .op o => t.apply o
  | .replace us => replaceWith Tree.apply t us

def Hash.call (h : Hash) : Call → Hash
  | .op o => h.apply o
  | .replace us => replaceWith Hash.apply h us

end Ndn.C05
