/-
  Base/Name.lean — NDN names as lists of (type, value) components, plus the canonical wire text
  used in the harness line protocol:   /8:6162/32:   (type in decimal, value in lower-case hex),
  the empty name is "/".
-/
import NdnVerif.Base.Num
namespace Ndn

structure Component where
  typ : Nat
  val : Bytes
deriving DecidableEq, Repr, BEq, Hashable

abbrev Name := List Component

def hexDigit (n : Nat) : Char := if n < 10 then Char.ofNat (48 + n) else Char.ofNat (87 + n)

def hexOfBytes (b : Bytes) : String :=
  String.ofList (b.flatMap fun x => [hexDigit (x / 16 % 16), hexDigit (x % 16)])

def hexVal (c : Char) : Option Nat :=
  if '0' ≤ c ∧ c ≤ '9' then some (c.toNat - 48)
  else if 'a' ≤ c ∧ c ≤ 'f' then some (c.toNat - 87)
  else if 'A' ≤ c ∧ c ≤ 'F' then some (c.toNat - 55)
  else none

def bytesOfHexAux : List Char → Option Bytes
  | [] => some []
  | [_] => none
  | a :: b :: t => do
    let x ← hexVal a; let y ← hexVal b; let r ← bytesOfHexAux t
    pure ((x * 16 + y) :: r)

/-- "-" or "" is the empty byte string -/
def bytesOfHex (s : String) : Option Bytes :=
  if s == "-" then some [] else bytesOfHexAux s.toList

def hexOrDash (b : Bytes) : String := if b.isEmpty then "-" else hexOfBytes b

def Component.toText (c : Component) : String := s!"{c.typ}:{hexOfBytes c.val}"

def Name.toText (n : Name) : String :=
  if n.isEmpty then "/" else String.join (n.map fun c => "/" ++ c.toText)

def Component.ofText (s : String) : Option Component :=
  match s.splitOn ":" with
  | [t, v] => do
    let ty ← t.toNat?
    let b ← bytesOfHexAux v.toList
    pure ⟨ty, b⟩
  | _ => none

def Name.ofText (s : String) : Option Name :=
  if s == "/" then some []
  else match s.splitOn "/" with
    | "" :: comps => comps.mapM Component.ofText
    | _ => none

/-- `a` is a (non-strict) prefix of `b` -/
def Name.isPrefixOf (a b : Name) : Bool := a.length ≤ b.length && b.take a.length == a

end Ndn
