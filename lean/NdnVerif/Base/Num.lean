/-
  Base/Num.lean — byte strings and the two NDN number encodings
  (std/encoding/primitives.go: TLNum 1/3/5/9 bytes, Nat 1/2/4/8 bytes).
  Core Lean only (no Mathlib) so that drivers can be linked as executables.
-/
namespace Ndn

abbrev Bytes := List Nat   -- every element is < 256 in well-formed byte strings

def Bytes.WF (b : Bytes) : Prop := ∀ x ∈ b, x < 256

instance (b : Bytes) : Decidable (Bytes.WF b) := by unfold Bytes.WF; exact inferInstance

/-- big-endian encoding of `n` in exactly `k` bytes (value reduced mod 256^k, like Go's
    `binary.BigEndian.PutUintN(uintN(x))`). -/
def be : Nat → Nat → Bytes
  | 0,     _ => []
  | k + 1, n => (n / 256 ^ k % 256) :: be k n

/-- big-endian decoding. -/
def beDec : Bytes → Nat
  | [] => 0
  | x :: t => x * 256 ^ t.length + beDec t

@[simp] theorem be_length (k n : Nat) : (be k n).length = k := by
  induction k with
  | zero => simp [be]
  | succ k ih => simp [be, ih]

theorem be_wf (k n : Nat) : Bytes.WF (be k n) := by
  induction k with
  | zero => simp [be, Bytes.WF]
  | succ k ih =>
    intro x hx
    simp [be] at hx
    rcases hx with hx | hx
    · omega
    · exact ih x hx

theorem beDec_be_mod (k n : Nat) : beDec (be k n) = n % 256 ^ k := by
  induction k with
  | zero => simp [be, beDec, Nat.mod_one]
  | succ k ih =>
    simp only [be, beDec, be_length, ih]
    rw [Nat.mod_pow_succ]; rw [Nat.mul_comm]; omega

theorem beDec_be (k n : Nat) (h : n < 256 ^ k) : beDec (be k n) = n := by
  rw [beDec_be_mod, Nat.mod_eq_of_lt h]

theorem beDec_lt (b : Bytes) (h : Bytes.WF b) : beDec b < 256 ^ b.length := by
  induction b with
  | nil => simp [beDec]
  | cons x t ih =>
    have ht : Bytes.WF t := fun y hy => h y (by simp [hy])
    have hx : x < 256 := h x (by simp)
    have := ih ht
    simp only [beDec, List.length_cons, Nat.pow_succ]
    have : x * 256 ^ t.length ≤ 255 * 256 ^ t.length := Nat.mul_le_mul_right _ (by omega)
    omega

theorem be_beDec (b : Bytes) (h : Bytes.WF b) : be b.length (beDec b) = b := by
  induction b with
  | nil => simp [be]
  | cons x t ih =>
    have ht : Bytes.WF t := fun y hy => h y (by simp [hy])
    have hx : x < 256 := h x (by simp)
    have hlt := beDec_lt t ht
    simp only [List.length_cons, be, beDec]
    have hpos : 0 < 256 ^ t.length := Nat.pow_pos (by omega)
    have h1 : (x * 256 ^ t.length + beDec t) / 256 ^ t.length = x := by
      rw [Nat.mul_comm, Nat.mul_add_div hpos, Nat.div_eq_of_lt hlt]; simp
    rw [h1, Nat.mod_eq_of_lt hx]
    congr 1
    -- be only looks at the value mod 256^k
    have key : ∀ k a c, be k (a * 256 ^ k + c) = be k c := by
      intro k
      induction k with
      | zero => intros; simp [be]
      | succ k ihk =>
        intro a c
        simp only [be]
        have e : a * 256 ^ (k + 1) + c = (a * 256) * 256 ^ k + c := by
          rw [Nat.pow_succ]; rw [Nat.mul_assoc, Nat.mul_comm 256]
        rw [e, ihk]
        congr 1
        have hp : 0 < 256 ^ k := Nat.pow_pos (by omega)
        rw [Nat.mul_comm (a*256), Nat.mul_add_div hp]
        omega
    rw [key]; exact ih ht

/-! ### TLNum: variable-length type/length numbers -/

/-- `TLNum.EncodingLength` -/
def tlLen (x : Nat) : Nat :=
  if x ≤ 0xfc then 1 else if x ≤ 0xffff then 3 else if x ≤ 0xffffffff then 5 else 9

/-- `TLNum.EncodeInto` (x < 2^64 in Go; larger values are reduced like uint64 would be) -/
def encTL (x : Nat) : Bytes :=
  if x ≤ 0xfc then [x]
  else if x ≤ 0xffff then 0xfd :: be 2 x
  else if x ≤ 0xffffffff then 0xfe :: be 4 x
  else 0xff :: be 8 x

/-- number of bytes following the first byte of a TL number -/
def tlExtra (x : Nat) : Nat :=
  if x ≤ 0xfc then 0 else if x = 0xfd then 2 else if x = 0xfe then 4 else 8

/-- `ParseTLNum`/`ReadTLNum` as a total function: `none` when the buffer is too short
    (Go: index panic in `ParseTLNum`, `io.ErrUnexpectedEOF` in the reader variants). Returns the
    value and the remaining bytes. Non-minimal encodings are accepted, as in the Go code. -/
def decTL : Bytes → Option (Nat × Bytes)
  | [] => none
  | x :: rest =>
    if x ≤ 0xfc then some (x, rest)
    else if rest.length < tlExtra x then none
    else some (beDec (rest.take (tlExtra x)), rest.drop (tlExtra x))

theorem encTL_length (x : Nat) : (encTL x).length = tlLen x := by
  unfold encTL tlLen; repeat' split
  all_goals simp

theorem encTL_wf (x : Nat) : Bytes.WF (encTL x) := by
  unfold encTL
  split
  · intro y hy; simp at hy; omega
  · split
    · intro y hy; simp at hy; rcases hy with hy | hy
      · omega
      · exact be_wf _ _ y hy
    · split
      · intro y hy; simp at hy; rcases hy with hy | hy
        · omega
        · exact be_wf _ _ y hy
      · intro y hy; simp at hy; rcases hy with hy | hy
        · omega
        · exact be_wf _ _ y hy

/-- round trip with an arbitrary suffix, for every 64-bit value -/
theorem decTL_encTL (x : Nat) (hx : x < 2 ^ 64) (rest : Bytes) :
    decTL (encTL x ++ rest) = some (x, rest) := by
  unfold encTL
  split
  · rename_i h; simp [decTL, h]
  · split
    · have : beDec (be 2 x) = x := beDec_be 2 x (by omega)
      simp [decTL, tlExtra, this]
    · split
      · have : beDec (be 4 x) = x := beDec_be 4 x (by omega)
        simp [decTL, tlExtra, this]
      · have : beDec (be 8 x) = x := beDec_be 8 x (by omega)
        simp [decTL, tlExtra, this]

theorem tlExtra_cases (x : Nat) : tlExtra x = 0 ∨ tlExtra x = 2 ∨ tlExtra x = 4 ∨ tlExtra x = 8 := by
  unfold tlExtra; repeat' split
  all_goals simp

/-- what was consumed is a prefix: `b = consumed ++ rest` with `consumed.length ∈ {1,3,5,9}` -/
theorem decTL_split {b rest : Bytes} {v : Nat} (h : decTL b = some (v, rest)) :
    ∃ hd, b = hd ++ rest ∧ (hd.length = 1 ∨ hd.length = 3 ∨ hd.length = 5 ∨ hd.length = 9) := by
  cases b with
  | nil => simp [decTL] at h
  | cons x t =>
    simp only [decTL] at h
    split at h
    · simp at h; exact ⟨[x], by simp [h.2], by simp⟩
    · split at h
      · simp at h
      · rename_i h1 h2
        simp at h
        refine ⟨x :: t.take (tlExtra x), ?_, ?_⟩
        · rw [← h.2]; simp
        · have hc := tlExtra_cases x
          have h0 : tlExtra x ≠ 0 := by
            unfold tlExtra; rw [if_neg h1]; repeat' split
            all_goals simp
          simp only [List.length_cons, List.length_take]
          omega

/-- decoding consumes at least one byte (used for termination arguments) -/
theorem decTL_rest_lt {b rest : Bytes} {v : Nat} (h : decTL b = some (v, rest)) :
    rest.length < b.length := by
  obtain ⟨hd, rfl, hl⟩ := decTL_split h
  simp; omega

/-! ### Nat: fixed-width natural numbers (1/2/4/8 bytes) -/

def natLen (x : Nat) : Nat :=
  if x ≤ 0xff then 1 else if x ≤ 0xffff then 2 else if x ≤ 0xffffffff then 4 else 8

def encNat (x : Nat) : Bytes := be (natLen x) x

/-- `ParseNat`: `none` = ErrFormat (length not 1, 2, 4 or 8) -/
def decNat (b : Bytes) : Option Nat :=
  if b.length = 1 ∨ b.length = 2 ∨ b.length = 4 ∨ b.length = 8 then some (beDec b) else none

theorem encNat_length (x : Nat) : (encNat x).length = natLen x := by simp [encNat]

theorem decNat_encNat (x : Nat) (hx : x < 2 ^ 64) : decNat (encNat x) = some x := by
  unfold decNat encNat
  have hl : natLen x = 1 ∨ natLen x = 2 ∨ natLen x = 4 ∨ natLen x = 8 := by
    unfold natLen; repeat' split
    all_goals simp
  rw [be_length, if_pos hl]
  congr 1
  apply beDec_be
  unfold natLen; repeat' split
  all_goals omega

end Ndn
