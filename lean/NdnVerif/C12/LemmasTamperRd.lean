/-
  C12/LemmasTamperRd.lean — the out-of-range `Delegate` fact (`ReaderSpecs2`, proved for both readers in
  LemmasReader2.lean), and the tamper-detection theorems with the reader interfaces discharged.
-/
import NdnVerif.C03.LemmasReader
import NdnVerif.C12.LemmasReader2
import NdnVerif.C12.LemmasTamper
namespace Ndn.C12
open Ndn.C03

theorem readerSpecs2 : ReaderSpecs2 where
  delegate_oob := rd_delegate_oob

/-! ### the theorems for every healthy reader (BufferReader, or WireReader over any segmentation) -/

theorem parseData_cov_all (r : Rd) (V : Bytes) (s : DataSt) (sv : Bytes) :
    At r V 0 → parseData {} r = .ok s → s.v.sv = some sv →
    ∃ s0 e h1 h2, s0 ≤ e ∧ 0 < h1 ∧ 0 < h2 ∧ e + h1 + h2 + sv.length ≤ V.length
      ∧ s.sigCovered = (V.drop s0).take (e - s0)
      ∧ sv = (V.drop (e + h1 + h2)).take sv.length
      ∧ rdTL (V.drop e) = some (23, h1) ∧ rdTL (V.drop (e + h1)) = some (sv.length, h2)
      ∧ (V.headD 0 ∈ [7, 20, 21, 22, 23] → s0 = 0) :=
  parseData_cov readerSpecs readerSpecs2 r V s sv

theorem bitflip_detected_data_all (E : EncSpecs) (d : DataIn) (sign : Bytes → Bytes)
    (e : Encoded) (hv : d.Valid) (hm : makeData d sign = .ok e) (hest : d.est > 0)
    (b' : Bytes) (k : Nat) (hlen : b'.length = e.wire.flatten.length)
    (hk : b'.getD k 0 ≠ e.wire.flatten.getD k 0) (hsame : ∀ j, j ≠ k → b'.getD j 0 = e.wire.flatten.getD j 0)
    (hreg : (1 + tlLen (dataValue d e.sigVal).length ≤ k
              ∧ k < 1 + tlLen (dataValue d e.sigVal).length + (dataCovered d).length)
            ∨ (e.wire.flatten.length - e.sigVal.length ≤ k ∧ k < e.wire.flatten.length))
    (r : Rd) (hr : At r b' 0) (p : DataP) (cov : Bytes) :
    readData r = .ok (p, cov) → ¬ (cov = dataCovered d ∧ p.sv = some e.sigVal) :=
  bitflip_detected_data readerSpecs readerSpecs2 E d sign e hv hm hest b' k hlen hk hsame hreg r hr p cov

end Ndn.C12
