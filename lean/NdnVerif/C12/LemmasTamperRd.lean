/-
  C12/LemmasTamperRd.lean — the out-of-range `Delegate` fact (`ReaderSpecs2`) for both readers, and the
  tamper-detection theorems with the reader interfaces discharged.
-/
import NdnVerif.C03.LemmasReader
import NdnVerif.C12.LemmasTamper
namespace Ndn.C12
open Ndn.C03

theorem buf_delegate_oob (b : BufR) (buf : Bytes) (p l : Nat) (sub r' : Rd) (h : At (.buf b) buf p)
    (hl : p + l > buf.length) (e : (Rd.buf b).delegate l = .ok (sub, r')) : ∃ p', p ≤ p' ∧ At r' buf p' := by
  obtain ⟨rfl, hp⟩ := (at_buf_iff _ _ _).1 h
  simp [Rd.delegate, BufR.delegate, hl] at e
  obtain ⟨_, rfl⟩ := e
  exact ⟨p, Nat.le_refl _, h⟩

theorem wire_delegate_oob (w : WireR) (buf : Bytes) (p l : Nat) (sub r' : Rd) (h : At (.wire w) buf p)
    (hl : p + l > buf.length) (e : (Rd.wire w).delegate l = .ok (sub, r')) : ∃ p', p ≤ p' ∧ At r' buf p' := by
  obtain ⟨hinv, h2, h3, h4, h5⟩ := at_wire_dest h
  obtain ⟨hb1, _, _, hb4⟩ := at_wire_buf h
  have hn : ¬ (w.absPos + l ≤ w.wire.flatten.length) := fun hh => by have := (hb4 l).2 hh; omega
  have hpre := hinv.pre
  simp only [Rd.delegate] at e
  obtain ⟨⟨s1, w1⟩, e1, e2⟩ := bind_ok_inv e
  obtain ⟨rfl, rfl⟩ : s1 = sub ∧ Rd.wire w1 = r' := by simpa using e2
  by_cases hseg : w.seg ≥ w.wire.length
  · simp [WireR.delegate, hseg] at e1
    obtain ⟨_, rfl⟩ := e1
    exact ⟨p, Nat.le_refl _, h⟩
  have hlt : w.seg < w.wire.length := by omega
  have hsucc := accSz_succ w.wire w.seg hlt
  have htot := accSz_le_total w.wire (w.seg + 1)
  rw [accSz_length] at htot
  have hc : ¬ (w.pos + l ≤ (w.wire[w.seg]?.getD []).length) := by
    intro hc; apply hn; unfold WireR.absPos; omega
  have hadv := (advance_spec (w.wire.length + 1) { w with pos := w.pos + l } hlt (by simp only []; omega)).2
    (by simp only [accSz_length]; unfold WireR.absPos at hn; omega)
  simp only [WireR.delegate, if_neg hseg, WireR.segAt_eq, if_neg hc, hadv] at e1
  obtain ⟨_, rfl⟩ : _ ∧ { w with seg := w.wire.length, pos := 0 } = w1 := by simpa using e1
  have hpre' : WireR.Pre { w with seg := w.wire.length, pos := 0 } :=
    ⟨Nat.le_refl _, fun hh => by simp only [] at hh; omega, fun _ => rfl⟩
  have hstep := at_wire_step (l := w.wire.flatten.length - w.absPos) h
    (w' := { w with seg := w.wire.length, pos := 0 }) rfl rfl
    (by simp only [WireR.absPos, accSz_length]; unfold WireR.absPos at h5; omega) hpre'
  exact ⟨_, by omega, hstep⟩

theorem readerSpecs2 : ReaderSpecs2 where
  delegate_oob := by
    intro r buf p l sub r' h hl e
    cases r with
    | buf b => exact buf_delegate_oob b buf p l sub r' h hl e
    | wire w => exact wire_delegate_oob w buf p l sub r' h hl e

/-! ### the theorems for every healthy reader (BufferReader, or WireReader over any segmentation) -/

theorem parseData_cov_all (r : Rd) (V : Bytes) (s : DataSt) (sv : Bytes) :
    At r V 0 → parseData {} r = .ok s → s.v.sv = some sv →
    ∃ s0 e h1 h2, s0 ≤ e ∧ 0 < h1 ∧ 0 < h2 ∧ e + h1 + h2 + sv.length ≤ V.length
      ∧ s.sigCovered = (V.drop s0).take (e - s0)
      ∧ sv = (V.drop (e + h1 + h2)).take sv.length
      ∧ rdTL (V.drop e) = some (23, h1) ∧ rdTL (V.drop (e + h1)) = some (sv.length, h2)
      ∧ (V.headD 0 ∈ [7, 20, 21, 22, 23] → s0 = 0) :=
  parseData_cov readerSpecs readerSpecs2 r V s sv

theorem bitflip_detected_data_all (E : EncSpecs) (d : DataIn) (sign : Bytes → Bytes)
    (e : Encoded) (hv : d.Valid) (hm : makeData d sign = .ok e) (hest : d.est > 0)
    (b' : Bytes) (k : Nat) (hlen : b'.length = e.wire.flatten.length)
    (hk : b'.getD k 0 ≠ e.wire.flatten.getD k 0) (hsame : ∀ j, j ≠ k → b'.getD j 0 = e.wire.flatten.getD j 0)
    (hreg : (1 + tlLen (dataValue d e.sigVal).length ≤ k
              ∧ k < 1 + tlLen (dataValue d e.sigVal).length + (dataCovered d).length)
            ∨ (e.wire.flatten.length - e.sigVal.length ≤ k ∧ k < e.wire.flatten.length))
    (r : Rd) (hr : At r b' 0) (p : DataP) (cov : Bytes) :
    readData r = .ok (p, cov) → ¬ (cov = dataCovered d ∧ p.sv = some e.sigVal) :=
  bitflip_detected_data readerSpecs readerSpecs2 E d sign e hv hm hest b' k hlen hk hsame hreg r hr p cov

end Ndn.C12
