/-
  C12/LemmasTamper.lean — positional tamper detection for Data packets over the parser model.

  * pure list facts (`range_changed`, `splice_mid`)
  * ALL-INPUT reader-step facts derived from `ReaderSpecs` (a successful operation on a healthy reader
    was in range and returned the bytes of the logical buffer)
  * `rdTL`: what `ReadTLNum` computes as a function of the remaining bytes (for arbitrary, possibly
    non-minimal, encodings), `readTL_gen`
  * the invariant of the ordered Data loop on ARBITRARY input, `parseData_cov`
  * `bitflip_detected_data`
-/
import NdnVerif.C03.LemmasParse
namespace Ndn.C12
open Ndn.C03

/-! ### pure list facts -/

theorem getD_range (b : Bytes) (s e j : Nat) (hj : s + j < e) :
    ((b.drop s).take (e - s)).getD j 0 = b.getD (s + j) 0 := by
  have hlt : j < e - s := by omega
  simp [List.getElem?_drop, hlt]

/-- changing one byte inside [s,e) changes that range -/
theorem range_changed (b b' : Bytes) (k s e : Nat) : b'.length = b.length → b'.getD k 0 ≠ b.getD k 0 →
    s ≤ k → k < e → e ≤ b.length →
    (b'.drop s).take (e - s) ≠ (b.drop s).take (e - s) := by
  intro _ hk hs he _ h
  apply hk
  have : ((b'.drop s).take (e - s)).getD (k - s) 0 = ((b.drop s).take (e - s)).getD (k - s) 0 := by rw [h]
  rw [getD_range b' s e (k - s) (by omega), getD_range b s e (k - s) (by omega)] at this
  rwa [show s + (k - s) = k by omega] at this

theorem agree_getElem? (b b' : Bytes) (j : Nat) (hl : b'.length = b.length) (h : b'.getD j 0 = b.getD j 0) :
    b'[j]? = b[j]? := by
  rcases Nat.lt_or_ge j b.length with h1 | h1
  · have h2 : j < b'.length := by omega
    simp only [List.getD_eq_getElem?_getD, List.getElem?_eq_getElem h1, List.getElem?_eq_getElem h2,
      Option.getD_some] at h
    rw [List.getElem?_eq_getElem h1, List.getElem?_eq_getElem h2, h]
  · rw [List.getElem?_eq_none h1, List.getElem?_eq_none (by omega)]

/-- a string that agrees with `A ++ M ++ C` everywhere except at one position inside `M` is
    `A ++ M' ++ C` with `M' ≠ M` of the same length -/
theorem splice_mid (A M C b' : Bytes) (k : Nat) (hl : b'.length = (A ++ M ++ C).length)
    (hk : b'.getD k 0 ≠ (A ++ M ++ C).getD k 0)
    (hsame : ∀ j, j ≠ k → b'.getD j 0 = (A ++ M ++ C).getD j 0)
    (h1 : A.length ≤ k) (h2 : k < A.length + M.length) :
    ∃ M', b' = A ++ M' ++ C ∧ M'.length = M.length ∧ M' ≠ M := by
  have hl' : b'.length = A.length + M.length + C.length := by simp at hl; omega
  have e0 : b' = b'.take A.length ++ ((b'.drop A.length).take M.length ++ b'.drop (A.length + M.length)) := by
    rw [← List.drop_drop, List.take_append_drop, List.take_append_drop]
  have eA : b'.take A.length = A := by
    apply List.ext_getElem?
    intro i
    rw [List.getElem?_take]
    split
    · rename_i hi
      rw [agree_getElem? _ _ i hl (hsame i (by omega))]
      simp [List.getElem?_append_left, hi]
    · rename_i hi
      rw [List.getElem?_eq_none (by omega)]
  have eC : b'.drop (A.length + M.length) = C := by
    apply List.ext_getElem?
    intro i
    rw [List.getElem?_drop, agree_getElem? _ _ _ hl (hsame _ (by omega))]
    rw [List.getElem?_append_right (by simp)]
    simp
  refine ⟨(b'.drop A.length).take M.length, ?_, by simp; omega, ?_⟩
  · rw [List.append_assoc, ← eC]
    conv => rhs; arg 1; rw [← eA]
    exact e0
  · have h3 := range_changed (A ++ M ++ C) b' k A.length (A.length + M.length) hl hk h1 h2 (by simp)
    rw [Nat.add_sub_cancel_left] at h3
    intro hM
    apply h3
    rw [hM]; simp


/-! ### the `Res` monad: a successful bind -/

theorem bind_ok_inv {α β : Type} {x : Res α} {f : α → Res β} {b : β} (h : (x >>= f) = .ok b) :
    ∃ a, x = .ok a ∧ f a = .ok b := by
  cases x with
  | ok a => exact ⟨a, rfl, h⟩
  | err => exact absurd h (by simp [bind, Res.bind])
  | panic m => exact absurd h (by simp [bind, Res.bind])
  | alloc => exact absurd h (by simp [bind, Res.bind])
  | oom => exact absurd h (by simp [bind, Res.bind])

/-! ### what `ReadTLNum` computes, as a function of the remaining bytes -/

/-- value and number of bytes consumed; `none` = the reader runs off the end. (Agrees with `decTL`
    on well-formed bytes, see `rdTL_decTL`; the reader accumulates in a uint64.) -/
def rdTL : Bytes → Option (Nat × Nat)
  | [] => none
  | y :: rest =>
    if y ≤ 0xfc then some (y, 1)
    else if rest.length < tlExtra y then none
    else some (accBytes 0 (rest.take (tlExtra y)), 1 + tlExtra y)

theorem rdTL_pos {b : Bytes} {x k : Nat} (h : rdTL b = some (x, k)) : 0 < k ∧ k ≤ b.length ∧ k ≤ 9 := by
  cases b with
  | nil => simp [rdTL] at h
  | cons y rest =>
    have hc := tlExtra_cases y
    simp only [rdTL] at h
    split at h
    · simp at h; simp; omega
    · split at h
      · simp at h
      · simp at h; simp; omega

/-- over an encoded number, with any suffix -/
theorem rdTL_encTL (x : Nat) (hx : x < 2 ^ 64) (rest : Bytes) : rdTL (encTL x ++ rest) = some (x, tlLen x) := by
  unfold encTL tlLen
  split
  · rename_i h; simp [rdTL, h]
  · split
    · rename_i h1 h2
      simp [rdTL, tlExtra, accBytes_be 2 x (by omega) (by simp [u64])]
    · split
      · simp [rdTL, tlExtra, accBytes_be 4 x (by omega) (by simp [u64])]
      · simp [rdTL, tlExtra, accBytes_be 8 x (by omega) (by simp [u64])]


theorem accBytes_wf (bs : Bytes) (hwf : Bytes.WF bs) (hl : bs.length ≤ 8) :
    accBytes 0 bs = beDec bs ∧ beDec bs < 256 ^ bs.length := by
  have h1 := beDec_lt bs hwf
  have h2 : 256 ^ bs.length ≤ u64 := by
    have : 256 ^ bs.length ≤ 256 ^ 8 := Nat.pow_le_pow_right (by omega) hl
    simpa [u64] using this
  have := accBytes_eq bs 0 hwf (by omega)
  exact ⟨by simpa using this, h1⟩

/-- a number read from well-formed bytes is not shorter in minimal form -/
theorem rdTL_tlLen {b : Bytes} {x k : Nat} (h : rdTL b = some (x, k)) (hwf : Bytes.WF (b.take k)) : tlLen x ≤ k := by
  cases b with
  | nil => simp [rdTL] at h
  | cons y rest =>
    simp only [rdTL] at h
    split at h
    · rename_i hy; simp at h; obtain ⟨rfl, rfl⟩ := h; simp [tlLen, hy]
    · rename_i hy
      split at h
      · simp at h
      · rename_i hr
        simp at h
        obtain ⟨hx, rfl⟩ := h
        have hwf' : Bytes.WF (rest.take (tlExtra y)) := by
          intro z hz; apply hwf z
          rw [show 1 + tlExtra y = tlExtra y + 1 by omega, List.take_succ_cons]; simp [hz]
        have hc := tlExtra_cases y
        obtain ⟨e1, e2⟩ := accBytes_wf _ hwf' (by simp; omega)
        rw [e1] at hx
        rw [hx] at e2
        have hlen : (rest.take (tlExtra y)).length = tlExtra y := by simp; omega
        rw [hlen] at e2
        have h0 : tlExtra y ≠ 0 := by
          unfold tlExtra; rw [if_neg hy]; repeat' split
          all_goals simp
        unfold tlLen
        rcases hc with hc | hc | hc | hc
        · omega
        · rw [hc] at e2 ⊢; repeat' split
          all_goals omega
        · rw [hc] at e2 ⊢; repeat' split
          all_goals omega
        · rw [hc]; repeat' split
          all_goals omega

/-- on well-formed bytes the reader computes `decTL` -/
theorem rdTL_decTL {b : Bytes} {x k : Nat} (h : rdTL b = some (x, k)) (hwf : Bytes.WF (b.take k)) :
    decTL b = some (x, b.drop k) := by
  cases b with
  | nil => simp [rdTL] at h
  | cons y rest =>
    simp only [rdTL] at h
    split at h
    · rename_i hy; simp at h; obtain ⟨rfl, rfl⟩ := h; simp [decTL, hy]
    · rename_i hy
      split at h
      · simp at h
      · rename_i hr
        simp at h
        obtain ⟨hx, rfl⟩ := h
        have hwf' : Bytes.WF (rest.take (tlExtra y)) := by
          intro z hz; apply hwf z
          rw [show 1 + tlExtra y = tlExtra y + 1 by omega, List.take_succ_cons]; simp [hz]
        have hc := tlExtra_cases y
        obtain ⟨e1, _⟩ := accBytes_wf _ hwf' (by simp; omega)
        rw [e1] at hx
        rw [show 1 + tlExtra y = tlExtra y + 1 by omega]
        simp [decTL, hy, hr, hx]


/-! ### ALL-INPUT reader steps: a successful operation on a healthy reader was in range -/

/-- the one reader fact `ReaderSpecs` does not state: `Delegate` with a length that runs past the end
    of the buffer still returns a healthy parent, not before its old position (BufferReader: parent
    unchanged; WireReader: parent parked at the end).  Proved for both readers in
    `LemmasTamperRd.lean`. -/
structure ReaderSpecs2 : Prop where
  delegate_oob : ∀ (r : Rd) (buf : Bytes) (p l : Nat) (sub r' : Rd), At r buf p → p + l > buf.length →
    r.delegate l = .ok (sub, r') → ∃ p', p ≤ p' ∧ At r' buf p'

section
variable (R : ReaderSpecs)
include R

theorem readByte_gen (r r' : Rd) (buf : Bytes) (p x : Nat) (h : At r buf p) (e : r.readByte = .ok (x, r')) :
    p < buf.length ∧ x = buf.getD p 0 ∧ At r' buf (p + 1) ∧ r'.Live := by
  rcases Nat.lt_or_ge p buf.length with hp | hp
  · obtain ⟨r1, e1, a1, l1⟩ := R.readByte_ok r buf p h hp
    rw [e1] at e
    obtain ⟨rfl, rfl⟩ : buf.getD p 0 = x ∧ r1 = r' := by simpa using e
    exact ⟨hp, rfl, a1, l1⟩
  · rw [R.readByte_eof r buf p h hp] at e; cases e

theorem readBuf_gen (r r' : Rd) (buf : Bytes) (p l : Nat) (x : Bytes) (h : At r buf p) (e : r.readBuf l = .ok (x, r')) :
    p + l ≤ buf.length ∧ x = (buf.drop p).take l ∧ At r' buf (p + l) := by
  rcases Nat.lt_or_ge buf.length (p + l) with hp | hp
  · rw [R.readBuf_err r buf p l h hp] at e; cases e
  · obtain ⟨r1, e1, a1⟩ := R.readBuf_ok r buf p l h hp
    rw [e1] at e
    obtain ⟨rfl, rfl⟩ : (buf.drop p).take l = x ∧ r1 = r' := by simpa using e
    exact ⟨hp, rfl, a1⟩

theorem readWire_gen (r r' : Rd) (buf : Bytes) (p l : Nat) (x : Bytes) (h : At r buf p) (e : r.readWire l = .ok (x, r')) :
    p + l ≤ buf.length ∧ x = (buf.drop p).take l ∧ At r' buf (p + l) := by
  rcases Nat.lt_or_ge buf.length (p + l) with hp | hp
  · rw [R.readWire_err r buf p l h hp] at e; cases e
  · obtain ⟨r1, e1, a1⟩ := R.readWire_ok r buf p l h hp
    rw [e1] at e
    obtain ⟨rfl, rfl⟩ : (buf.drop p).take l = x ∧ r1 = r' := by simpa using e
    exact ⟨hp, rfl, a1⟩

theorem readFull_gen (r r' : Rd) (buf : Bytes) (p l : Nat) (x : Bytes) (h : At r buf p) (e : r.readFull l = .ok (x, r')) :
    p + l ≤ buf.length ∧ x = (buf.drop p).take l ∧ At r' buf (p + l) := by
  rcases Nat.lt_or_ge buf.length (p + l) with hp | hp
  · rw [R.readFull_err r buf p l h hp] at e; cases e
  · obtain ⟨r1, e1, a1⟩ := R.readFull_ok r buf p l h hp
    rw [e1] at e
    obtain ⟨rfl, rfl⟩ : (buf.drop p).take l = x ∧ r1 = r' := by simpa using e
    exact ⟨hp, rfl, a1⟩

theorem skip_gen (r r' : Rd) (buf : Bytes) (p n : Nat) (h : At r buf p) (hl : r.Live) (e : r.skip n = .ok r') :
    p + n ≤ buf.length ∧ At r' buf (p + n) := by
  rcases Nat.lt_or_ge buf.length (p + n) with hp | hp
  · rw [R.skip_err r buf p n h hl hp] at e; cases e
  · obtain ⟨r1, e1, a1⟩ := R.skip_ok r buf p n h hl hp
    rw [e1] at e
    obtain rfl : r1 = r' := by simpa using e
    exact ⟨hp, a1⟩

theorem delegate_gen (R2 : ReaderSpecs2) (r sub r' : Rd) (buf : Bytes) (p l : Nat) (h : At r buf p)
    (e : r.delegate l = .ok (sub, r')) : ∃ p', p ≤ p' ∧ At r' buf p' := by
  rcases Nat.lt_or_ge buf.length (p + l) with hp | hp
  · exact R2.delegate_oob r buf p l sub r' h hp e
  · obtain ⟨s1, r1, e1, _, a1⟩ := R.delegate_ok r buf p l h hp
    rw [e1] at e
    obtain ⟨_, rfl⟩ : s1 = sub ∧ r1 = r' := by simpa using e
    exact ⟨p + l, by omega, a1⟩

theorem readBytesAcc_gen : ∀ (k : Nat) (r r' : Rd) (buf : Bytes) (p acc x : Nat), At r buf p →
    readBytesAcc k r acc = .ok (x, r') →
    p + k ≤ buf.length ∧ x = accBytes acc ((buf.drop p).take k) ∧ At r' buf (p + k) ∧ (0 < k → r'.Live) := by
  intro k
  induction k with
  | zero =>
    intro r r' buf p acc x h e
    simp [readBytesAcc] at e
    obtain ⟨rfl, rfl⟩ := e
    exact ⟨h.2.2, by simp [accBytes], h, by omega⟩
  | succ k ih =>
    intro r r' buf p acc x h e
    simp only [readBytesAcc] at e
    obtain ⟨⟨y, r1⟩, e1, e2⟩ := bind_ok_inv e
    obtain ⟨hp, rfl, a1, l1⟩ := readByte_gen R r r1 buf p y h e1
    obtain ⟨hle, hx, a2, l2⟩ := ih r1 r' buf (p + 1) _ x a1 e2
    refine ⟨by omega, ?_, by rw [show p + (k + 1) = p + 1 + k by omega]; exact a2, ?_⟩
    · rw [hx]
      have hd : buf.drop p = buf.getD p 0 :: buf.drop (p + 1) := by
        rw [List.drop_eq_getElem_cons hp]
        simp [List.getD, List.getElem?_eq_getElem hp]
      rw [hd]; simp [accBytes]
    · intro _
      rcases Nat.eq_zero_or_pos k with hk | hk
      · subst hk; simp [readBytesAcc] at e2; rw [← e2.2]; exact l1
      · exact l2 hk

/-- `ReadTLNum` on ARBITRARY bytes: a successful read computed `rdTL` of the remaining bytes -/
theorem readTL_gen (r r' : Rd) (buf : Bytes) (p x : Nat) (h : At r buf p) (e : readTL r = .ok (x, r')) :
    ∃ k, rdTL (buf.drop p) = some (x, k) ∧ 0 < k ∧ p + k ≤ buf.length ∧ At r' buf (p + k) ∧ r'.Live := by
  simp only [readTL] at e
  obtain ⟨⟨y, r1⟩, e1, e2⟩ := bind_ok_inv e
  obtain ⟨hp, hy0, a1, l1⟩ := readByte_gen R r r1 buf p y h e1
  have hd : buf.drop p = y :: buf.drop (p + 1) := by
    rw [List.drop_eq_getElem_cons hp, hy0]
    simp [List.getD, List.getElem?_eq_getElem hp]
  simp only [] at e2
  split at e2
  · rename_i hy
    obtain ⟨rfl, rfl⟩ : y = x ∧ r1 = r' := by simpa using e2
    exact ⟨1, by rw [hd]; simp [rdTL, hy], by omega, by omega, a1, l1⟩
  · rename_i hy
    obtain ⟨hle, hx, a2, l2⟩ := readBytesAcc_gen R _ r1 r' buf (p + 1) 0 x a1 e2
    have h0 : 0 < tlExtra y := by
      unfold tlExtra; rw [if_neg hy]; repeat' split
      all_goals omega
    refine ⟨1 + tlExtra y, ?_, by omega, by omega, by rw [← Nat.add_assoc]; exact a2, l2 h0⟩
    rw [hd]
    have : ¬ ((buf.drop (p + 1)).length < tlExtra y) := by simp; omega
    simp only [rdTL, if_neg hy, if_neg this, hx]

end

end Ndn.C12
