/-
  C12/LemmasTamper.lean — positional tamper detection for Data packets over the parser model.

  * pure list facts (`range_changed`, `splice_mid`)
  * ALL-INPUT reader-step facts derived from `ReaderSpecs` (a successful operation on a healthy reader
    was in range and returned the bytes of the logical buffer)
  * `rdTL`: what `ReadTLNum` computes as a function of the remaining bytes (for arbitrary, possibly
    non-minimal, encodings), `readTL_gen`
  * the invariant of the ordered Data loop on ARBITRARY input, `parseData_cov`
  * `bitflip_detected_data`
-/
import NdnVerif.C03.LemmasData
namespace Ndn.C12
open Ndn.C03

/-! ### pure list facts -/

theorem getD_range (b : Bytes) (s e j : Nat) (hj : s + j < e) :
    ((b.drop s).take (e - s)).getD j 0 = b.getD (s + j) 0 := by
  have hlt : j < e - s := by omega
  simp [List.getElem?_drop, hlt]

/-- changing one byte inside [s,e) changes that range -/
theorem range_changed (b b' : Bytes) (k s e : Nat) : b'.length = b.length → b'.getD k 0 ≠ b.getD k 0 →
    s ≤ k → k < e → e ≤ b.length →
    (b'.drop s).take (e - s) ≠ (b.drop s).take (e - s) := by
  intro _ hk hs he _ h
  apply hk
  have : ((b'.drop s).take (e - s)).getD (k - s) 0 = ((b.drop s).take (e - s)).getD (k - s) 0 := by rw [h]
  rw [getD_range b' s e (k - s) (by omega), getD_range b s e (k - s) (by omega)] at this
  rwa [show s + (k - s) = k by omega] at this

theorem agree_getElem? (b b' : Bytes) (j : Nat) (hl : b'.length = b.length) (h : b'.getD j 0 = b.getD j 0) :
    b'[j]? = b[j]? := by
  rcases Nat.lt_or_ge j b.length with h1 | h1
  · have h2 : j < b'.length := by omega
    simp only [List.getD_eq_getElem?_getD, List.getElem?_eq_getElem h1, List.getElem?_eq_getElem h2,
      Option.getD_some] at h
    rw [List.getElem?_eq_getElem h1, List.getElem?_eq_getElem h2, h]
  · rw [List.getElem?_eq_none h1, List.getElem?_eq_none (by omega)]

/-- a string that agrees with `A ++ M ++ C` everywhere except at one position inside `M` is
    `A ++ M' ++ C` with `M' ≠ M` of the same length -/
theorem splice_mid (A M C b' : Bytes) (k : Nat) (hl : b'.length = (A ++ M ++ C).length)
    (hk : b'.getD k 0 ≠ (A ++ M ++ C).getD k 0)
    (hsame : ∀ j, j ≠ k → b'.getD j 0 = (A ++ M ++ C).getD j 0)
    (h1 : A.length ≤ k) (h2 : k < A.length + M.length) :
    ∃ M', b' = A ++ M' ++ C ∧ M'.length = M.length ∧ M' ≠ M := by
  have hl' : b'.length = A.length + M.length + C.length := by simp at hl; omega
  have e0 : b' = b'.take A.length ++ ((b'.drop A.length).take M.length ++ b'.drop (A.length + M.length)) := by
    rw [← List.drop_drop, List.take_append_drop, List.take_append_drop]
  have eA : b'.take A.length = A := by
    apply List.ext_getElem?
    intro i
    rw [List.getElem?_take]
    split
    · rename_i hi
      rw [agree_getElem? _ _ i hl (hsame i (by omega))]
      simp [List.getElem?_append_left, hi]
    · rename_i hi
      rw [List.getElem?_eq_none (by omega)]
  have eC : b'.drop (A.length + M.length) = C := by
    apply List.ext_getElem?
    intro i
    rw [List.getElem?_drop, agree_getElem? _ _ _ hl (hsame _ (by omega))]
    rw [List.getElem?_append_right (by simp)]
    simp
  refine ⟨(b'.drop A.length).take M.length, ?_, by simp; omega, ?_⟩
  · rw [List.append_assoc, ← eC]
    conv => rhs; arg 1; rw [← eA]
    exact e0
  · have h3 := range_changed (A ++ M ++ C) b' k A.length (A.length + M.length) hl hk h1 h2 (by simp)
    rw [Nat.add_sub_cancel_left] at h3
    intro hM
    apply h3
    rw [hM]; simp


/-! ### the `Res` monad: a successful bind -/

theorem bind_ok_inv {α β : Type} {x : Res α} {f : α → Res β} {b : β} (h : (x >>= f) = .ok b) :
    ∃ a, x = .ok a ∧ f a = .ok b := by
  cases x with
  | ok a => exact ⟨a, rfl, h⟩
  | err => exact absurd h (by simp [bind, Res.bind])
  | panic m => exact absurd h (by simp [bind, Res.bind])
  | alloc => exact absurd h (by simp [bind, Res.bind])
  | oom => exact absurd h (by simp [bind, Res.bind])

/-! ### what `ReadTLNum` computes, as a function of the remaining bytes -/

/-- value and number of bytes consumed; `none` = the reader runs off the end. (Agrees with `decTL`
    on well-formed bytes, see `rdTL_decTL`; the reader accumulates in a uint64.) -/
def rdTL : Bytes → Option (Nat × Nat)
  | [] => none
  | y :: rest =>
    if y ≤ 0xfc then some (y, 1)
    else if rest.length < tlExtra y then none
    else some (accBytes 0 (rest.take (tlExtra y)), 1 + tlExtra y)

theorem rdTL_pos {b : Bytes} {x k : Nat} (h : rdTL b = some (x, k)) : 0 < k ∧ k ≤ b.length ∧ k ≤ 9 := by
  cases b with
  | nil => simp [rdTL] at h
  | cons y rest =>
    have hc := tlExtra_cases y
    simp only [rdTL] at h
    split at h
    · simp at h; simp; omega
    · split at h
      · simp at h
      · simp at h; simp; omega

/-- over an encoded number, with any suffix -/
theorem rdTL_encTL (x : Nat) (hx : x < 2 ^ 64) (rest : Bytes) : rdTL (encTL x ++ rest) = some (x, tlLen x) := by
  unfold encTL tlLen
  split
  · rename_i h; simp [rdTL, h]
  · split
    · rename_i h1 h2
      simp [rdTL, tlExtra, accBytes_be 2 x (by omega) (by simp [u64])]
    · split
      · simp [rdTL, tlExtra, accBytes_be 4 x (by omega) (by simp [u64])]
      · simp [rdTL, tlExtra, accBytes_be 8 x (by omega) (by simp [u64])]


theorem accBytes_wf (bs : Bytes) (hwf : Bytes.WF bs) (hl : bs.length ≤ 8) :
    accBytes 0 bs = beDec bs ∧ beDec bs < 256 ^ bs.length := by
  have h1 := beDec_lt bs hwf
  have h2 : 256 ^ bs.length ≤ u64 := by
    have : 256 ^ bs.length ≤ 256 ^ 8 := Nat.pow_le_pow_right (by omega) hl
    simpa [u64] using this
  have := accBytes_eq bs 0 hwf (by omega)
  exact ⟨by simpa using this, h1⟩

/-- a number read from well-formed bytes is not shorter in minimal form -/
theorem rdTL_tlLen {b : Bytes} {x k : Nat} (h : rdTL b = some (x, k)) (hwf : Bytes.WF (b.take k)) : tlLen x ≤ k := by
  cases b with
  | nil => simp [rdTL] at h
  | cons y rest =>
    simp only [rdTL] at h
    split at h
    · rename_i hy; simp at h; obtain ⟨rfl, rfl⟩ := h; simp [tlLen, hy]
    · rename_i hy
      split at h
      · simp at h
      · rename_i hr
        simp at h
        obtain ⟨hx, rfl⟩ := h
        have hwf' : Bytes.WF (rest.take (tlExtra y)) := by
          intro z hz; apply hwf z
          rw [show 1 + tlExtra y = tlExtra y + 1 by omega, List.take_succ_cons]; simp [hz]
        have hc := tlExtra_cases y
        obtain ⟨e1, e2⟩ := accBytes_wf _ hwf' (by simp; omega)
        rw [e1] at hx
        rw [hx] at e2
        have hlen : (rest.take (tlExtra y)).length = tlExtra y := by simp; omega
        rw [hlen] at e2
        have h0 : tlExtra y ≠ 0 := by
          unfold tlExtra; rw [if_neg hy]; repeat' split
          all_goals simp
        unfold tlLen
        rcases hc with hc | hc | hc | hc
        · omega
        · rw [hc] at e2 ⊢; repeat' split
          all_goals omega
        · rw [hc] at e2 ⊢; repeat' split
          all_goals omega
        · rw [hc]; repeat' split
          all_goals omega

/-- on well-formed bytes the reader computes `decTL` -/
theorem rdTL_decTL {b : Bytes} {x k : Nat} (h : rdTL b = some (x, k)) (hwf : Bytes.WF (b.take k)) :
    decTL b = some (x, b.drop k) := by
  cases b with
  | nil => simp [rdTL] at h
  | cons y rest =>
    simp only [rdTL] at h
    split at h
    · rename_i hy; simp at h; obtain ⟨rfl, rfl⟩ := h; simp [decTL, hy]
    · rename_i hy
      split at h
      · simp at h
      · rename_i hr
        simp at h
        obtain ⟨hx, rfl⟩ := h
        have hwf' : Bytes.WF (rest.take (tlExtra y)) := by
          intro z hz; apply hwf z
          rw [show 1 + tlExtra y = tlExtra y + 1 by omega, List.take_succ_cons]; simp [hz]
        have hc := tlExtra_cases y
        obtain ⟨e1, _⟩ := accBytes_wf _ hwf' (by simp; omega)
        rw [e1] at hx
        rw [show 1 + tlExtra y = tlExtra y + 1 by omega]
        simp [decTL, hy, hr, hx]


/-! ### ALL-INPUT reader steps: a successful operation on a healthy reader was in range -/

/-- the one reader fact `ReaderSpecs` does not state: `Delegate` with a length that runs past the end
    of the buffer still returns a healthy parent, not before its old position (BufferReader: parent
    unchanged; WireReader: parent parked at the end).  Proved for both readers in
    `LemmasTamperRd.lean`. -/
structure ReaderSpecs2 : Prop where
  delegate_oob : ∀ (r : Rd) (buf : Bytes) (p l : Nat) (sub r' : Rd), At r buf p → p + l > buf.length →
    r.delegate l = .ok (sub, r') → ∃ p', p ≤ p' ∧ At r' buf p'

section
variable (R : ReaderSpecs)
include R

theorem readByte_gen (r r' : Rd) (buf : Bytes) (p x : Nat) (h : At r buf p) (e : r.readByte = .ok (x, r')) :
    p < buf.length ∧ x = buf.getD p 0 ∧ At r' buf (p + 1) ∧ r'.Live := by
  rcases Nat.lt_or_ge p buf.length with hp | hp
  · obtain ⟨r1, e1, a1, l1⟩ := R.readByte_ok r buf p h hp
    rw [e1] at e
    obtain ⟨rfl, rfl⟩ : buf.getD p 0 = x ∧ r1 = r' := by simpa using e
    exact ⟨hp, rfl, a1, l1⟩
  · rw [R.readByte_eof r buf p h hp] at e; cases e

theorem readBuf_gen (r r' : Rd) (buf : Bytes) (p l : Nat) (x : Bytes) (h : At r buf p) (e : r.readBuf l = .ok (x, r')) :
    p + l ≤ buf.length ∧ x = (buf.drop p).take l ∧ At r' buf (p + l) := by
  rcases Nat.lt_or_ge buf.length (p + l) with hp | hp
  · rw [R.readBuf_err r buf p l h hp] at e; cases e
  · obtain ⟨r1, e1, a1⟩ := R.readBuf_ok r buf p l h hp
    rw [e1] at e
    obtain ⟨rfl, rfl⟩ : (buf.drop p).take l = x ∧ r1 = r' := by simpa using e
    exact ⟨hp, rfl, a1⟩

theorem readWire_gen (r r' : Rd) (buf : Bytes) (p l : Nat) (x : Bytes) (h : At r buf p) (e : r.readWire l = .ok (x, r')) :
    p + l ≤ buf.length ∧ x = (buf.drop p).take l ∧ At r' buf (p + l) := by
  rcases Nat.lt_or_ge buf.length (p + l) with hp | hp
  · rw [R.readWire_err r buf p l h hp] at e; cases e
  · obtain ⟨r1, e1, a1⟩ := R.readWire_ok r buf p l h hp
    rw [e1] at e
    obtain ⟨rfl, rfl⟩ : (buf.drop p).take l = x ∧ r1 = r' := by simpa using e
    exact ⟨hp, rfl, a1⟩

theorem readFull_gen (r r' : Rd) (buf : Bytes) (p l : Nat) (x : Bytes) (h : At r buf p) (e : r.readFull l = .ok (x, r')) :
    p + l ≤ buf.length ∧ x = (buf.drop p).take l ∧ At r' buf (p + l) := by
  rcases Nat.lt_or_ge buf.length (p + l) with hp | hp
  · rw [R.readFull_err r buf p l h hp] at e; cases e
  · obtain ⟨r1, e1, a1⟩ := R.readFull_ok r buf p l h hp
    rw [e1] at e
    obtain ⟨rfl, rfl⟩ : (buf.drop p).take l = x ∧ r1 = r' := by simpa using e
    exact ⟨hp, rfl, a1⟩

theorem skip_gen (r r' : Rd) (buf : Bytes) (p n : Nat) (h : At r buf p) (hl : r.Live) (e : r.skip n = .ok r') :
    p + n ≤ buf.length ∧ At r' buf (p + n) := by
  rcases Nat.lt_or_ge buf.length (p + n) with hp | hp
  · rw [R.skip_err r buf p n h hl hp] at e; cases e
  · obtain ⟨r1, e1, a1⟩ := R.skip_ok r buf p n h hl hp
    rw [e1] at e
    obtain rfl : r1 = r' := by simpa using e
    exact ⟨hp, a1⟩

theorem delegate_gen (R2 : ReaderSpecs2) (r sub r' : Rd) (buf : Bytes) (p l : Nat) (h : At r buf p)
    (e : r.delegate l = .ok (sub, r')) : ∃ p', p ≤ p' ∧ At r' buf p' := by
  rcases Nat.lt_or_ge buf.length (p + l) with hp | hp
  · exact R2.delegate_oob r buf p l sub r' h hp e
  · obtain ⟨s1, r1, e1, _, a1⟩ := R.delegate_ok r buf p l h hp
    rw [e1] at e
    obtain ⟨_, rfl⟩ : s1 = sub ∧ r1 = r' := by simpa using e
    exact ⟨p + l, by omega, a1⟩

theorem readBytesAcc_gen : ∀ (k : Nat) (r r' : Rd) (buf : Bytes) (p acc x : Nat), At r buf p →
    readBytesAcc k r acc = .ok (x, r') →
    p + k ≤ buf.length ∧ x = accBytes acc ((buf.drop p).take k) ∧ At r' buf (p + k) ∧ (0 < k → r'.Live) := by
  intro k
  induction k with
  | zero =>
    intro r r' buf p acc x h e
    simp [readBytesAcc] at e
    obtain ⟨rfl, rfl⟩ := e
    exact ⟨h.2.2, by simp [accBytes], h, by omega⟩
  | succ k ih =>
    intro r r' buf p acc x h e
    simp only [readBytesAcc] at e
    obtain ⟨⟨y, r1⟩, e1, e2⟩ := bind_ok_inv e
    obtain ⟨hp, rfl, a1, l1⟩ := readByte_gen R r r1 buf p y h e1
    obtain ⟨hle, hx, a2, l2⟩ := ih r1 r' buf (p + 1) _ x a1 e2
    refine ⟨by omega, ?_, by rw [show p + (k + 1) = p + 1 + k by omega]; exact a2, ?_⟩
    · rw [hx]
      have hd : buf.drop p = buf.getD p 0 :: buf.drop (p + 1) := by
        rw [List.drop_eq_getElem_cons hp]
        simp [List.getD, List.getElem?_eq_getElem hp]
      rw [hd]; simp [accBytes]
    · intro _
      rcases Nat.eq_zero_or_pos k with hk | hk
      · subst hk; simp [readBytesAcc] at e2; rw [← e2.2]; exact l1
      · exact l2 hk

/-- `ReadTLNum` on ARBITRARY bytes: a successful read computed `rdTL` of the remaining bytes -/
theorem readTL_gen (r r' : Rd) (buf : Bytes) (p x : Nat) (h : At r buf p) (e : readTL r = .ok (x, r')) :
    ∃ k, rdTL (buf.drop p) = some (x, k) ∧ 0 < k ∧ p + k ≤ buf.length ∧ At r' buf (p + k) ∧ r'.Live := by
  simp only [readTL] at e
  obtain ⟨⟨y, r1⟩, e1, e2⟩ := bind_ok_inv e
  obtain ⟨hp, hy0, a1, l1⟩ := readByte_gen R r r1 buf p y h e1
  have hd : buf.drop p = y :: buf.drop (p + 1) := by
    rw [List.drop_eq_getElem_cons hp, hy0]
    simp [List.getD, List.getElem?_eq_getElem hp]
  simp only [] at e2
  split at e2
  · rename_i hy
    obtain ⟨rfl, rfl⟩ : y = x ∧ r1 = r' := by simpa using e2
    exact ⟨1, by rw [hd]; simp [rdTL, hy], by omega, by omega, a1, l1⟩
  · rename_i hy
    obtain ⟨hle, hx, a2, l2⟩ := readBytesAcc_gen R _ r1 r' buf (p + 1) 0 x a1 e2
    have h0 : 0 < tlExtra y := by
      unfold tlExtra; rw [if_neg hy]; repeat' split
      all_goals omega
    refine ⟨1 + tlExtra y, ?_, by omega, by omega, by rw [← Nat.add_assoc]; exact a2, l2 h0⟩
    rw [hd]
    have : ¬ ((buf.drop (p + 1)).length < tlExtra y) := by simp; omega
    simp only [rdTL, if_neg hy, if_neg this, hx]


theorem nameLoop_gen : ∀ (fuel : Nat) (r r' : Rd) (buf : Bytes) (p en : Nat) (acc n : Name) (s s' : Nat), At r buf p →
    nameLoop fuel r en acc s = .ok (n, s', r') → ∃ p', p ≤ p' ∧ At r' buf p' := by
  intro fuel
  induction fuel with
  | zero =>
    intro r r' buf p en acc n s s' h e
    simp only [nameLoop] at e
    split at e
    · cases e
    · obtain ⟨_, _, rfl⟩ : acc = n ∧ s = s' ∧ r = r' := by simpa using e
      exact ⟨p, Nat.le_refl _, h⟩
  | succ fuel ih =>
    intro r r' buf p en acc n s s' h e
    simp only [nameLoop] at e
    split at e
    · split at e
      · cases e
      · obtain ⟨_, _, rfl⟩ : acc = n ∧ s = s' ∧ r = r' := by simpa using e
        exact ⟨p, Nat.le_refl _, h⟩
    · obtain ⟨⟨t, r1⟩, e1, e2⟩ := bind_ok_inv e
      obtain ⟨k1, _, _, _, a1, _⟩ := readTL_gen R r r1 buf p t h e1
      simp only [] at e2
      obtain ⟨⟨l, r2⟩, e3, e4⟩ := bind_ok_inv e2
      obtain ⟨k2, _, _, _, a2, _⟩ := readTL_gen R r1 r2 buf _ l a1 e3
      simp only [] at e4
      obtain ⟨⟨v, r3⟩, e5, e6⟩ := bind_ok_inv e4
      obtain ⟨_, _, a3⟩ := readBuf_gen R r2 r3 buf _ l v a2 e5
      simp only [] at e6
      obtain ⟨p', hp', a4⟩ := ih r3 r' buf _ en _ n _ s' a3 e6
      exact ⟨p', by omega, a4⟩

theorem readNameField_gen (r r' : Rd) (buf : Bytes) (p l : Nat) (n : Name) (s' : Nat) (h : At r buf p)
    (e : readNameField r l = .ok (n, s', r')) : ∃ p', p ≤ p' ∧ At r' buf p' := by
  simp only [readNameField] at e
  obtain ⟨_, _, e2⟩ := bind_ok_inv e
  exact nameLoop_gen R _ r r' buf p _ _ n _ s' h e2

end

/-! ### the invariant of the ordered Data loop on arbitrary input -/

/-- once a SignatureValue was decoded: the reported signed portion is the range from the context's
    start marker to the start `e` of the SignatureValue TLV, whose header (as the reader decodes it)
    has type 23 and the length of the reported signature value, which is its value -/
def Good (V : Bytes) (st : DataSt) : Prop :=
  ∀ sv, st.v.sv = some sv → ∃ e h1 h2, st.sigCoverStart ≤ e ∧ e + h1 + h2 + sv.length ≤ V.length
    ∧ rdTL (V.drop e) = some (23, h1) ∧ rdTL (V.drop (e + h1)) = some (sv.length, h2)
    ∧ st.sigCovered = (V.drop st.sigCoverStart).take (e - st.sigCoverStart)
    ∧ sv = (V.drop (e + h1 + h2)).take sv.length

/-- the first byte is one of the known Data element types -/
def KnownHead (V : Bytes) : Prop := V.headD 0 ∈ [7, 20, 21, 22, 23]

/-- loop invariant: `q` = progress + 1, `x` = start position of the current / next element -/
def J (V : Bytes) (st : DataSt) (q x : Nat) : Prop :=
  st.sigCoverStart ≤ x ∧ (q ≤ 6 → st.sigCovered = [] ∧ st.v.sv = none) ∧ Good V st
  ∧ (KnownHead V → (q ≤ 1 → x = 0) ∧ (2 ≤ q → st.sigCoverStart = 0))

theorem dataIdx_some {t k : Nat} (h : dataIdx t = some k) :
    (k = 2 ∧ t = 7) ∨ (k = 3 ∧ t = 20) ∨ (k = 4 ∧ t = 21) ∨ (k = 5 ∧ t = 22) ∨ (k = 6 ∧ t = 23) := by
  unfold dataIdx at h
  repeat' split at h
  all_goals simp at h
  all_goals omega

theorem knownHead_idx {V : Bytes} {t h1 : Nat} (hk : KnownHead V) (h : rdTL (V.drop 0) = some (t, h1)) :
    dataIdx t ≠ none := by
  cases V with
  | nil => simp [rdTL] at h
  | cons y rest =>
    simp [KnownHead] at hk
    have hy : y ≤ 0xfc := by omega
    simp [rdTL, hy] at h
    obtain ⟨rfl, _⟩ := h
    rcases hk with rfl | rfl | rfl | rfl | rfl <;> simp [dataIdx]

section
variable (R : ReaderSpecs) (R2 : ReaderSpecs2)
include R R2

/-- slots 2–5 (Name, MetaInfo, Content, SignatureInfo) leave the signature bookkeeping alone -/
theorem dataHandle_other (k : Nat) (hk : k ≠ 6) (hk2 : 2 ≤ k) (hk5 : k ≤ 6) (st st' : DataSt) (l sp : Nat) (r r' : Rd) (V : Bytes) (p : Nat)
    (h : At r V p) (e : dataHandle k st l sp r = .ok (st', r')) :
    (∃ p', p ≤ p' ∧ At r' V p') ∧ st'.sigCovered = st.sigCovered ∧ st'.sigCoverStart = st.sigCoverStart
      ∧ st'.v.sv = st.v.sv := by
  simp only [dataHandle] at e
  split at e
  · obtain ⟨⟨n, s1, r1⟩, e1, e2⟩ := bind_ok_inv e
    simp at e2
    obtain ⟨rfl, rfl⟩ := e2
    exact ⟨readNameField_gen R r r1 V p l n s1 h e1, rfl, rfl, rfl⟩
  · split at e
    · obtain ⟨⟨sub, r1⟩, e1, e2⟩ := bind_ok_inv e
      simp only [] at e2
      obtain ⟨m, _, e3⟩ := bind_ok_inv e2
      simp at e3
      obtain ⟨rfl, rfl⟩ := e3
      exact ⟨delegate_gen R R2 r sub r1 V p l h e1, rfl, rfl, rfl⟩
    · split at e
      · obtain ⟨⟨c, r1⟩, e1, e2⟩ := bind_ok_inv e
        simp at e2
        obtain ⟨rfl, rfl⟩ := e2
        obtain ⟨_, _, a1⟩ := readWire_gen R r r1 V p l c h e1
        exact ⟨⟨p + l, by omega, a1⟩, rfl, rfl, rfl⟩
      · split at e
        · obtain ⟨⟨sub, r1⟩, e1, e2⟩ := bind_ok_inv e
          simp only [] at e2
          obtain ⟨m, _, e3⟩ := bind_ok_inv e2
          simp at e3
          obtain ⟨rfl, rfl⟩ := e3
          exact ⟨delegate_gen R R2 r sub r1 V p l h e1, rfl, rfl, rfl⟩
        · omega

/-- one outer iteration of the ordered Data loop preserves the invariant (all branches) -/
theorem ordLoop_inv (V : Bytes) (typ l sp p h1 h2 : Nat)
    (ht : rdTL (V.drop sp) = some (typ, h1)) (hl : rdTL (V.drop (sp + h1)) = some (l, h2)) (hp : p = sp + h1 + h2) :
    ∀ (fuel q : Nat) (st : DataSt) (r : Rd), At r V p → r.Live → J V st q sp → 8 ≤ q + fuel →
      ∀ (st' : DataSt) (q' : Nat) (r' : Rd),
        ordLoop 7 dataIdx dataHandle dataAbsent typ l sp fuel q st r = .ok ((st', q'), r') →
        ∃ p', p ≤ p' ∧ At r' V p' ∧ J V st' q' p' := by
  have hh1 := (rdTL_pos ht).1
  have hh2 := (rdTL_pos hl).1
  intro fuel
  induction fuel with
  | zero =>
    intro q st r ha _ hj hq st' q' r' e
    simp only [ordLoop] at e
    obtain ⟨⟨rfl, rfl⟩, rfl⟩ : (st = st' ∧ q = q') ∧ r = r' := by simpa using e
    obtain ⟨j1, j2, j3, j4⟩ := hj
    exact ⟨p, Nat.le_refl _, ha, by omega, fun h => by omega, j3, fun hk => ⟨fun h => by omega, fun _ => (j4 hk).2 (by omega)⟩⟩
  | succ fuel ih =>
    intro q st r ha hlive hj hq st' q' r' e
    obtain ⟨j1, j2, j3, j4⟩ := hj
    simp only [ordLoop] at e
    split at e
    · rename_i hq7
      obtain ⟨⟨rfl, rfl⟩, rfl⟩ : (st = st' ∧ q = q') ∧ r = r' := by simpa using e
      exact ⟨p, Nat.le_refl _, ha, by omega, fun h => by omega, j3, fun hk => ⟨fun h => by omega, fun _ => (j4 hk).2 (by omega)⟩⟩
    · rename_i hq7
      split at e
      · rename_i k hidx
        have hkk := dataIdx_some hidx
        split at e
        · rename_i hqk
          subst hqk
          obtain ⟨⟨st1, r1⟩, e1, e2⟩ := bind_ok_inv e
          simp at e2
          obtain ⟨⟨rfl, rfl⟩, rfl⟩ := e2
          by_cases h6 : q = 6
          · -- SignatureValue
            subst h6
            have ht23 : typ = 23 := by omega
            subst ht23
            have hq6 : (6 : Nat) ≤ 6 := Nat.le_refl _
            obtain ⟨jc, jsv⟩ := j2 hq6
            simp only [dataHandle] at e1
            simp at e1
            obtain ⟨⟨c, r2⟩, e3, e4⟩ := bind_ok_inv e1
            simp at e4
            obtain ⟨rfl, rfl⟩ := e4
            obtain ⟨hle, hc, a1⟩ := readWire_gen R r r2 V p l c ha e3
            have hcl : c.length = l := by rw [hc]; simp; omega
            have hrange := R.range_eq r2 V (p + l) st.sigCoverStart sp a1 j1 (by omega)
            refine ⟨p + l, by omega, a1, by simp; omega, fun h => by omega, ?_, fun hk => ⟨fun h => by omega, fun _ => (j4 hk).2 (by omega)⟩⟩
            intro sv hsv
            simp at hsv
            subst hsv
            refine ⟨sp, h1, h2, j1, by omega, ht, by rw [hcl]; exact hl, ?_, ?_⟩
            · simp [jc, hrange]
            · rw [hcl, ← hp]; exact hc
          · obtain ⟨hp', hs1, hs2, hs3⟩ := dataHandle_other R R2 q h6 (by omega) (by omega) st st1 l sp r r1 V p ha e1
            obtain ⟨p', hp1, a1⟩ := hp'
            have hq6 : q ≤ 6 := by omega
            obtain ⟨jc, jsv⟩ := j2 hq6
            refine ⟨p', hp1, a1, by rw [hs2]; omega, fun _ => ⟨by rw [hs1]; exact jc, by rw [hs3]; exact jsv⟩, ?_,
              fun hk => ⟨fun h => by omega, fun _ => by rw [hs2]; exact (j4 hk).2 (by omega)⟩⟩
            intro sv hsv
            rw [hs3, jsv] at hsv; cases hsv
        · rename_i hqk
          -- absent-action of slot q, continue with q + 1
          refine ih (q + 1) (dataAbsent q st sp r) r ha hlive ?_ (by omega) st' q' r' e
          by_cases hq1 : q = 1
          · subst hq1
            obtain ⟨jc, jsv⟩ := j2 (by omega)
            refine ⟨by simp [dataAbsent], fun _ => by simpa [dataAbsent] using ⟨jc, jsv⟩, ?_,
              fun hk => ⟨fun h => by omega, fun _ => by simpa [dataAbsent] using (j4 hk).1 (by omega)⟩⟩
            intro sv hsv
            simp [dataAbsent] at hsv
            rw [jsv] at hsv; cases hsv
          · have : dataAbsent q st sp r = st := by simp [dataAbsent, hq1]
            rw [this]
            exact ⟨j1, fun h => j2 (by omega), j3, fun hk => ⟨fun h => (j4 hk).1 (by omega), fun h => (j4 hk).2 (by omega)⟩⟩
      · rename_i hidx
        split at e
        · cases e
        · obtain ⟨r1, e1, e2⟩ := bind_ok_inv e
          simp at e2
          obtain ⟨⟨rfl, rfl⟩, rfl⟩ := e2
          obtain ⟨hle, a1⟩ := skip_gen R r r1 V p l ha hlive e1
          refine ⟨p + l, by omega, a1, by omega, fun h => j2 (by omega), j3, fun hk => ?_⟩
          by_cases hq1 : q ≤ 1
          · have := (j4 hk).1 hq1
            subst this
            exact absurd hidx (knownHead_idx hk ht)
          · exact ⟨fun h => by omega, fun _ => (j4 hk).2 (by omega)⟩


/-- the whole element loop of `DataParsingContext.Parse` preserves the invariant -/
theorem dataLoop_inv (V : Bytes) : ∀ (fuel : Nat) (st : DataSt) (q : Nat) (r : Rd) (p : Nat), At r V p → J V st q p →
    ∀ (st' : DataSt) (q' : Nat) (r' : Rd), tlvLoop dataBody fuel (st, q) r = .ok ((st', q'), r') →
      ∃ p', At r' V p' ∧ J V st' q' p' := by
  intro fuel
  induction fuel with
  | zero => intro st q r p _ _ st' q' r' e; simp [tlvLoop] at e
  | succ fuel ih =>
    intro st q r p ha hj st' q' r' e
    simp only [tlvLoop, R.pos_eq r V p ha, R.length_eq r V p ha] at e
    split at e
    · obtain ⟨⟨rfl, rfl⟩, rfl⟩ : (st = st' ∧ q = q') ∧ r = r' := by simpa using e
      exact ⟨p, ha, hj⟩
    · obtain ⟨⟨typ, r1⟩, e1, e2⟩ := bind_ok_inv e
      obtain ⟨h1, ht, _, _, a1, _⟩ := readTL_gen R r r1 V p typ ha e1
      simp only [] at e2
      obtain ⟨⟨l, r2⟩, e3, e4⟩ := bind_ok_inv e2
      obtain ⟨h2, hl, _, _, a2, l2⟩ := readTL_gen R r1 r2 V _ l a1 e3
      simp only [] at e4
      obtain ⟨⟨⟨st1, q1⟩, r3⟩, e5, e6⟩ := bind_ok_inv e4
      simp only [dataBody] at e5
      obtain ⟨p3, _, a3, j3⟩ := ordLoop_inv R R2 V typ l p (p + h1 + h2) h1 h2 ht hl rfl 9 q st r2 a2 l2 hj (by omega)
        st1 q1 r3 e5
      exact ih st1 q1 r3 p3 a3 j3 st' q' r' e6

end

theorem ordFinish_data (r : Rd) : ∀ (fuel q : Nat) (s : DataSt),
    (ordFinish dataAbsent r fuel q s).v = s.v ∧ (ordFinish dataAbsent r fuel q s).sigCovered = s.sigCovered
      ∧ (2 ≤ q → (ordFinish dataAbsent r fuel q s).sigCoverStart = s.sigCoverStart) := by
  intro fuel
  induction fuel with
  | zero => intro q s; simp [ordFinish]
  | succ fuel ih =>
    intro q s
    simp only [ordFinish]
    obtain ⟨i1, i2, i3⟩ := ih (q + 1) (dataAbsent q s r.pos r)
    rw [i1, i2]
    refine ⟨?_, ?_, fun hq => ?_⟩
    · unfold dataAbsent; split <;> rfl
    · unfold dataAbsent; split <;> rfl
    · have hq1 : q ≠ 1 := by omega
      rw [i3 (by omega)]; simp [dataAbsent, hq1]

/-- ALL-INPUT invariant of the Data parser: whenever parsing a Data value `V` (fresh context) succeeds
    and a SignatureValue was decoded, the reported signed portion is a contiguous range `V[s0, e)` that
    ends exactly where the SignatureValue TLV starts; the header of that TLV, as the reader decodes
    it (`h1` bytes of type, `h2` bytes of length), has type 23 and the length of the reported signature
    value, which is the value of that TLV; and `s0 = 0` when the first byte is a known element type. -/
theorem parseData_cov (R : ReaderSpecs) (R2 : ReaderSpecs2) (r : Rd) (V : Bytes) (s : DataSt) (sv : Bytes) :
    At r V 0 → parseData {} r = .ok s → s.v.sv = some sv →
    ∃ s0 e h1 h2, s0 ≤ e ∧ 0 < h1 ∧ 0 < h2 ∧ e + h1 + h2 + sv.length ≤ V.length
      ∧ s.sigCovered = (V.drop s0).take (e - s0)
      ∧ sv = (V.drop (e + h1 + h2)).take sv.length
      ∧ rdTL (V.drop e) = some (23, h1) ∧ rdTL (V.drop (e + h1)) = some (sv.length, h2)
      ∧ (V.headD 0 ∈ [7, 20, 21, 22, 23] → s0 = 0) := by
  intro ha e hsv
  simp only [parseData] at e
  obtain ⟨⟨⟨s1, q1⟩, r1⟩, e1, e2⟩ := bind_ok_inv e
  have hj0 : J V ({ ({} : DataSt) with v := {} }) 0 0 := by
    refine ⟨Nat.le_refl _, fun _ => ⟨rfl, rfl⟩, ?_, fun _ => ⟨fun _ => rfl, fun h => by omega⟩⟩
    intro sv h; cases h
  obtain ⟨p1, a1, j1, j2, j3, j4⟩ := dataLoop_inv R R2 V _ _ 0 r 0 ha hj0 s1 q1 r1 e1
  simp at e2
  subst e2
  obtain ⟨f1, f2, f3⟩ := ordFinish_data r1 (7 - q1) q1 s1
  rw [f1] at hsv
  have hq : 7 ≤ q1 := by
    rcases Nat.lt_or_ge q1 7 with h | h
    · have := (j2 (by omega)).2; rw [this] at hsv; cases hsv
    · exact h
  obtain ⟨e, h1, h2, g1, g2, g3, g4, g5, g6⟩ := j3 sv hsv
  refine ⟨s1.sigCoverStart, e, h1, h2, g1, (rdTL_pos g3).1, (rdTL_pos g4).1, g2, by rw [f2]; exact g5, g6, g3, g4, ?_⟩
  intro hk
  exact (j4 hk).2 (by omega)


/-- `parseData_cov` phrased with `decTL`, for a value made of bytes (< 256) -/
theorem parseData_cov_decTL (R : ReaderSpecs) (R2 : ReaderSpecs2) (r : Rd) (V : Bytes) (s : DataSt) (sv : Bytes)
    (hwf : Bytes.WF V) : At r V 0 → parseData {} r = .ok s → s.v.sv = some sv →
    ∃ s0 e h, s0 ≤ e ∧ 0 < h ∧ e + h + sv.length ≤ V.length
      ∧ s.sigCovered = (V.drop s0).take (e - s0)
      ∧ sv = (V.drop (e + h)).take sv.length
      ∧ (∃ t l rest, decTL (V.drop e) = some (t, rest) ∧ t = 23 ∧ decTL rest = some (l, V.drop (e + h)) ∧ l = sv.length)
      ∧ (V.headD 0 ∈ [7, 20, 21, 22, 23] → s0 = 0) := by
  intro ha e hsv
  obtain ⟨s0, e, h1, h2, g1, g2, g3, g4, g5, g6, g7, g8, g9⟩ := parseData_cov R R2 r V s sv ha e hsv
  have hsub : ∀ a b, Bytes.WF ((V.drop a).take b) := fun a b z hz =>
    hwf z (List.mem_of_mem_drop (List.mem_of_mem_take hz))
  have d1 := rdTL_decTL g7 (hsub _ _)
  have d2 := rdTL_decTL g8 (hsub _ _)
  rw [List.drop_drop] at d1 d2
  refine ⟨s0, e, h1 + h2, g1, by omega, by omega, g5, by rw [← Nat.add_assoc]; exact g6,
    ⟨23, sv.length, V.drop (e + h1), d1, rfl, by rw [← Nat.add_assoc]; exact d2, rfl⟩, g9⟩

/-! ### tamper detection -/

/-- a packet that is exactly one Data TLV: `ReadData` returns what the Data parser reports for the value -/
theorem readData_single (R : ReaderSpecs) (r : Rd) (V : Bytes) (hL : V.length + 16 < 2 ^ 62)
    (hr : At r (encTL 6 ++ encTL V.length ++ V) 0) (p : DataP) (c : Bytes) (e : readData r = .ok (p, c)) :
    ∃ sub s, At sub V 0 ∧ parseData {} sub = .ok s ∧ p = s.v ∧ c = s.sigCovered := by
  have hb : (encTL 6 ++ encTL V.length ++ V).drop 0 = encTL 6 ++ (encTL V.length ++ (V ++ [])) := by simp
  obtain ⟨r2, a2, l2, d2, e2⟩ := tlvLoop_step R packetBody (r.length - r.pos) ({} : PacketSt) r _ 0 6 V.length (V ++ [])
    hr hb (by omega) (by omega)
  obtain ⟨sub, r3, e3, as, a3⟩ := delegate_at R r2 _ _ V [] a2 d2
  simp only [readData] at e
  obtain ⟨ps, e4, e5⟩ := bind_ok_inv e
  simp only [parsePacket, loopFuel] at e4
  obtain ⟨⟨ps', rend⟩, e6, e7⟩ := bind_ok_inv e4
  obtain rfl : ps' = ps := by simpa using e7
  rw [e2] at e6
  obtain ⟨⟨ps1, r4⟩, e8, e9⟩ := bind_ok_inv e6
  simp only [packetBody, e3] at e8
  simp at e8
  obtain ⟨s, e10, e11⟩ := bind_ok_inv e8
  simp at e11
  obtain ⟨rfl, rfl⟩ := e11
  have hend : (encTL 6 ++ encTL V.length ++ V).drop (0 + tlLen 6 + tlLen V.length + V.length) = [] := by
    apply List.drop_eq_nil_of_le
    simp [encTL_length]; omega
  have hf : 0 < r.length - r.pos := by
    rw [R.pos_eq r _ 0 hr, R.length_eq r _ 0 hr]; simp [encTL_length]; have := tlLen_pos 6; omega
  rw [tlvLoop_end' R packetBody _ _ r3 _ _ a3 hend hf] at e9
  obtain ⟨rfl, _⟩ : ps' = _ ∧ rend = r3 := by simpa using e9.symm
  simp at e5
  split at e5
  · cases e5
  · obtain ⟨rfl, rfl⟩ : s.v = p ∧ s.sigCovered = c := by simpa using e5
    exact ⟨sub, s, as, e10, rfl, rfl⟩

/-- the Data value level: a value whose signed portion or signature value was altered (lengths kept,
    SignatureValue header intact) is never reported with the original (signed portion, signature) pair -/
theorem value_tamper (R : ReaderSpecs) (R2 : ReaderSpecs2) (cov cov' sv sv' : Bytes) (sub : Rd) (s : DataSt)
    (hc : cov'.length = cov.length) (hs : sv'.length = sv.length) (hn : sv.length < 2 ^ 64)
    (hne : cov' ≠ cov ∨ sv' ≠ sv)
    (ha : At sub (cov' ++ (encTL 23 ++ encTL sv.length) ++ sv') 0) (hp : parseData {} sub = .ok s) :
    ¬ (s.sigCovered = cov ∧ s.v.sv = some sv) := by
  rintro ⟨h1, h2⟩
  obtain ⟨s0, e, k1, k2, g1, g2, g3, g4, g5, g6, g7, g8, _⟩ := parseData_cov R R2 sub _ s sv ha hp h2
  have h23 : tlLen 23 = 1 := by decide
  have hT : (encTL 23 ++ encTL sv.length).length = 1 + tlLen sv.length := by simp [encTL_length, h23]
  have hVl : (cov' ++ (encTL 23 ++ encTL sv.length) ++ sv').length = cov.length + (1 + tlLen sv.length) + sv.length := by
    rw [List.length_append, List.length_append, hT, hc, hs]
  rw [hVl] at g4
  have hcl : e - s0 = cov.length := by
    have := congrArg List.length g5
    rw [h1] at this
    simp only [List.length_take, List.length_drop, hVl] at this
    omega
  -- the start marker is 0: otherwise the length field would be shorter than its minimal form
  have hs0 : s0 = 0 := by
    rcases Nat.eq_zero_or_pos s0 with h | h
    · exact h
    · exfalso
      have hd : (cov' ++ (encTL 23 ++ encTL sv.length) ++ sv').drop (e + k1)
          = (encTL 23 ++ encTL sv.length).drop (s0 + k1) ++ sv' := by
        rw [show e + k1 = cov'.length + (s0 + k1) by omega, ← List.drop_drop, List.append_assoc,
          List.drop_left, List.drop_append_of_le_length (by rw [hT]; omega)]
      have htk : ((cov' ++ (encTL 23 ++ encTL sv.length) ++ sv').drop (e + k1)).take k2
          = ((encTL 23 ++ encTL sv.length).drop (s0 + k1)).take k2 := by
        rw [hd, List.take_append_of_le_length (by rw [List.length_drop, hT]; omega)]
      have hwf : Bytes.WF (((cov' ++ (encTL 23 ++ encTL sv.length) ++ sv').drop (e + k1)).take k2) := by
        rw [htk]
        intro z hz
        have hz1 := List.mem_of_mem_drop (List.mem_of_mem_take hz)
        rcases List.mem_append.1 hz1 with hz2 | hz2
        · exact encTL_wf 23 z hz2
        · exact encTL_wf _ z hz2
      have := rdTL_tlLen g8 hwf
      omega
  subst hs0
  have he : e = cov.length := by omega
  subst he
  have hcov : cov' = cov := by
    rw [← h1, g5]
    simp [List.append_assoc, ← hc]
  have hd1 : (cov' ++ (encTL 23 ++ encTL sv.length) ++ sv').drop cov.length = encTL 23 ++ (encTL sv.length ++ sv') := by
    rw [← hc, List.append_assoc, List.drop_left, List.append_assoc]
  rw [hd1, rdTL_encTL 23 (by omega)] at g7
  obtain rfl : 1 = k1 := by simpa [h23] using g7
  have hd2 : (cov' ++ (encTL 23 ++ encTL sv.length) ++ sv').drop (cov.length + 1) = encTL sv.length ++ sv' := by
    rw [← List.drop_drop, hd1]; simp [encTL]
  rw [hd2, rdTL_encTL _ hn] at g8
  obtain rfl : tlLen sv.length = k2 := by simpa using g8
  have hd3 : (cov' ++ (encTL 23 ++ encTL sv.length) ++ sv').drop (cov.length + 1 + tlLen sv.length) = sv' := by
    rw [← List.drop_drop, hd2, ← encTL_length, List.drop_left]
  rw [hd3, ← hs, List.take_length] at g6
  rcases hne with h | h
  · exact h hcov
  · exact h g6.symm


/-- Tamper detection for Data (byte-range content; the cryptography is assumed elsewhere): let the packet
    `e.wire` be built by `makeData` with a signature (`d.est > 0`), and `b'` any byte string of the same
    length that agrees with it everywhere except at byte `k`, where `k` lies in the signed portion or in
    the signature value.  Then for every healthy reader over `b'`: decoding fails, or the
    (signed portion, signature value) pair reported by the decoder differs from the pair
    (bytes handed to the signer, signature value) of the original — a validator that accepts exactly
    the original pair rejects. -/
theorem bitflip_detected_data (R : ReaderSpecs) (R2 : ReaderSpecs2) (E : EncSpecs) (d : DataIn) (sign : Bytes → Bytes)
    (e : Encoded) (hv : d.Valid) (hm : makeData d sign = .ok e) (hest : d.est > 0)
    (b' : Bytes) (k : Nat) (hlen : b'.length = e.wire.flatten.length)
    (hk : b'.getD k 0 ≠ e.wire.flatten.getD k 0) (hsame : ∀ j, j ≠ k → b'.getD j 0 = e.wire.flatten.getD j 0)
    (hreg : (1 + tlLen (dataValue d e.sigVal).length ≤ k
              ∧ k < 1 + tlLen (dataValue d e.sigVal).length + (dataCovered d).length)       -- signed portion
            ∨ (e.wire.flatten.length - e.sigVal.length ≤ k ∧ k < e.wire.flatten.length))   -- signature value
    (r : Rd) (hr : At r b' 0) (p : DataP) (cov : Bytes) :
    readData r = .ok (p, cov) → ¬ (cov = dataCovered d ∧ p.sv = some e.sigVal) := by
  intro hrd
  obtain ⟨hfl, hs1, _⟩ := E.makeData_flatten d sign e hv hm
  obtain ⟨_, _, hsl⟩ := hs1 hest
  have hvl := dataValue_length_le E d e.sigVal (fun _ => hsl)
  have hdl := hv.2.2.2
  have hsplit : dataValue d e.sigVal = dataCovered d ++ (encTL 23 ++ encTL e.sigVal.length) ++ e.sigVal := by
    rw [dataValue_split]; simp [sigPart, hest]
  obtain ⟨V, hVdef⟩ : ∃ V, V = dataValue d e.sigVal := ⟨_, rfl⟩
  rw [← hVdef] at hfl hvl hsplit hreg
  have h6 : tlLen 6 = 1 := by decide
  have hVlen : V.length = (dataCovered d).length + (tlLen 23 + tlLen e.sigVal.length) + e.sigVal.length := by
    rw [hsplit]; simp only [List.length_append, encTL_length]
  have hH : (encTL 6 ++ encTL V.length).length = 1 + tlLen V.length := by
    simp [encTL_length, h6]
  have hsvl : e.sigVal.length < 2 ^ 64 := by omega
  rcases hreg with ⟨k1, k2⟩ | ⟨k1, k2⟩
  · -- the altered byte is in the signed portion
    have heq : e.wire.flatten = (encTL 6 ++ encTL V.length) ++ dataCovered d
        ++ ((encTL 23 ++ encTL e.sigVal.length) ++ e.sigVal) := by
      rw [hfl]; conv => lhs; rhs; rw [hsplit]
      simp only [List.append_assoc]
    rw [heq] at hlen hk hsame
    obtain ⟨C', hb', hC'l, hC'ne⟩ := splice_mid _ _ _ b' k hlen hk hsame (by rw [hH]; exact k1) (by rw [hH]; exact k2)
    have hV' : (C' ++ (encTL 23 ++ encTL e.sigVal.length) ++ e.sigVal).length = V.length := by
      rw [hVlen]; simp only [List.length_append, hC'l, encTL_length]
    have hb2 : b' = encTL 6 ++ encTL (C' ++ (encTL 23 ++ encTL e.sigVal.length) ++ e.sigVal).length
        ++ (C' ++ (encTL 23 ++ encTL e.sigVal.length) ++ e.sigVal) := by
      rw [hV', hb']; simp only [List.append_assoc]
    rw [hb2] at hr
    obtain ⟨sub, s, as, hp, rfl, rfl⟩ := readData_single R r _ (by rw [hV']; omega) hr p cov hrd
    exact value_tamper R R2 (dataCovered d) C' e.sigVal e.sigVal sub s hC'l rfl hsvl (Or.inl hC'ne) as hp
  · -- the altered byte is in the signature value
    have heq : e.wire.flatten = ((encTL 6 ++ encTL V.length) ++ dataCovered d
        ++ (encTL 23 ++ encTL e.sigVal.length)) ++ e.sigVal ++ [] := by
      rw [hfl]; conv => lhs; rhs; rw [hsplit]
      simp only [List.append_assoc, List.append_nil]
    have hfl_len : e.wire.flatten.length = 1 + tlLen V.length + V.length := by
      rw [hfl]; simp only [List.length_append, encTL_length, h6]
    have hAl : ((encTL 6 ++ encTL V.length) ++ dataCovered d
        ++ (encTL 23 ++ encTL e.sigVal.length)).length = e.wire.flatten.length - e.sigVal.length := by
      simp only [List.length_append, encTL_length, h6]; omega
    rw [heq] at hlen hk hsame
    obtain ⟨S', hb', hS'l, hS'ne⟩ := splice_mid _ _ _ b' k hlen hk hsame (by rw [hAl]; exact k1)
      (by rw [hAl]; omega)
    have hV' : (dataCovered d ++ (encTL 23 ++ encTL e.sigVal.length) ++ S').length = V.length := by
      rw [hVlen]; simp only [List.length_append, hS'l, encTL_length]
    have hb2 : b' = encTL 6 ++ encTL (dataCovered d ++ (encTL 23 ++ encTL e.sigVal.length) ++ S').length
        ++ (dataCovered d ++ (encTL 23 ++ encTL e.sigVal.length) ++ S') := by
      rw [hV', hb']; simp only [List.append_assoc, List.append_nil]
    rw [hb2] at hr
    obtain ⟨sub, s, as, hp, rfl, rfl⟩ := readData_single R r _ (by rw [hV']; omega) hr p cov hrd
    exact value_tamper R R2 (dataCovered d) (dataCovered d) e.sigVal S' sub s rfl hS'l hsvl (Or.inr hS'ne) as hp

end Ndn.C12
