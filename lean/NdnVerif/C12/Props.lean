/-
  C12 — property theorems only (proofs in Lemmas*.lean and NdnVerif/C03/Lemmas*.lean; the
  hypothesis bundles used between proof files are instantiated here, nothing is assumed except the
  cryptography, which appears ONLY as explicit hypotheses of the theorems: `Scheme.Correct`,
  `Scheme.ExactOn`, `hinj`).

  Model: NdnVerif/C03 (encoder offset markers → sigCovered / digest input; parser `reader.Range` →
  signed portion; `checkInterest`).  Spec: NdnVerif/C12/Spec.lean.
-/
import NdnVerif.C03.LemmasEnc
import NdnVerif.C12.LemmasC12
import NdnVerif.C12.LemmasTamperInt
import NdnVerif.C03.Examples
namespace Ndn.C12
open Ndn.C03

/-! ### signer and parser cover the same bytes, so the matching validator accepts -/

/-- Data, every packet shape, every healthy reader (contiguous or any segmentation): the signed
    portion reported by the parser equals the bytes handed to the signer; the signature value and
    type come back; a correct validator accepts. -/
theorem covered_enc_eq_dec_data (sch : Scheme) (hc : sch.Correct) (d : DataIn) (e : Encoded) (r : Rd)
    (hv : d.Valid) (hest : d.est > 0) (hm : makeData d sch.sign = .ok e) (hr : At r e.wire.flatten 0) :
    ∃ p cov, readData r = .ok (p, cov) ∧ e.sigCovered = some cov ∧ p.sv = some (sch.sign cov)
      ∧ p.si = d.si ∧ ∀ t, (d.si.map (·.typ)) = some t → verdict sch t (p.si.map (·.typ)) cov p.sv = true :=
  covered_enc_eq_dec_data_E encSpecs sch hc d e r hv hest hm hr

theorem covered_enc_eq_dec_interest (sch : Scheme) (hc : sch.Correct) (i : InterestIn) (H : Bytes → Bytes) (e : Encoded)
    (fn : Name) (r : Rd) (hv : i.Valid) (hH : ∀ x, (H x).length = 32) (hest : i.est > 0)
    (hm : makeInterest i sch.sign H = .ok (e, fn)) (hr : At r e.wire.flatten 0) :
    ∃ p cov, readInterest H r = .ok (p, cov) ∧ e.sigCovered = some cov ∧ p.sv = some (sch.sign cov)
      ∧ p.si = i.si ∧ ∀ t, (i.si.map (·.typ)) = some t → verdict sch t (p.si.map (·.typ)) cov p.sv = true :=
  covered_enc_eq_dec_interest_E encSpecs sch hc i H e fn r hv hH hest hm hr

/-- the bytes handed to the signer are the signed portion the NDN packet format prescribes:
    Data: Name … SignatureInfo; Interest: name components before the digest, ApplicationParameters,
    InterestSignatureInfo -/
theorem covered_is_signed_portion :
    (∀ (d : DataIn) (sign : Bytes → Bytes) (e : Encoded), d.Valid → d.est > 0 → makeData d sign = .ok e →
        e.sigCovered = some (dataCovered d) ∧ ∃ tl, e.wire.flatten = tl ++ dataCovered d ++ (encTL 23 ++ encTL e.sigVal.length ++ e.sigVal))
    ∧ (∀ (i : InterestIn) (sign H : Bytes → Bytes) (e : Encoded) (fn : Name), i.Valid → (∀ x, (H x).length = 32) → i.est > 0 →
        makeInterest i sign H = .ok (e, fn) → e.sigCovered = some (interestCovered i)) := by
  refine ⟨?_, ?_⟩
  · intro d sign e hv hest hm
    obtain ⟨hfl, hs, _⟩ := encSpecs.makeData_flatten d sign e hv hm
    refine ⟨(hs hest).2.1, encTL 6 ++ encTL (dataValue d e.sigVal).length, ?_⟩
    rw [hfl]; simp [dataValue, dataCovered, hest, List.append_assoc]
  · intro i sign H e fn hv hH hest hm
    exact ((encSpecs.makeInterest_flatten i sign H e fn hv hH hm).2.2.1 hest).2.1

/-! ### parameters digest -/

theorem params_digest_correct (i : InterestIn) (sign H : Bytes → Bytes) (e : Encoded) (fn : Name)
    (hv : i.Valid) (hH : ∀ x, (H x).length = 32) (hap : i.ap.isSome) (hm : makeInterest i sign H = .ok (e, fn)) :
    fn.getLast? = some ⟨2, H (interestParamsPortion i e.sigVal)⟩
    ∧ (∃ pre, e.wire.flatten = pre ++ interestParamsPortion i e.sigVal)
    ∧ ∀ r, At r e.wire.flatten 0 → ∃ p cov, readInterest H r = .ok (p, cov) ∧ p.name = some fn :=
  params_digest_correct_E encSpecs i sign H e fn hv hH hap hm

theorem bad_digest_rejected (H : Bytes → Bytes) (s : InterestSt) (hap : s.v.ap.isSome)
    (hbad : ∀ n c, s.v.name = some n → n.getLast? = some c → c.val ≠ H s.digestCovered) :
    checkInterest H s = false :=
  bad_digest_rejected_thm H s hap hbad

theorem bad_digest_rejected_onWire (i : InterestIn) (H : Bytes → Bytes) (sv v : Bytes) (r : Rd)
    (hap : i.ap.isSome) (hv : v ≠ H (interestParamsPortion i sv))
    (hr : InterestReady i (stripDigest i.name ++ [⟨2, v⟩]) sv)
    (h : At r (interestValue i (stripDigest i.name ++ [⟨2, v⟩]) sv) 0) :
    ∃ fs, parseInterest {} r = .ok fs ∧ checkInterest H fs = false :=
  bad_digest_rejected_packet encSpecs i H sv v r hap hv hr h

/-! ### tampering is detected (byte-range content proved; cryptography assumed) -/

/-- Data: change ANY byte inside the signed portion or the signature value (in particular flip any
    bit there). Over every healthy reader, decoding fails or the (signed portion, signature value)
    pair reported differs from the pair the signer produced — hence, under A-crypto (`ExactOn`),
    the validator rejects. -/
theorem bitflip_detected (sch : Scheme) (d : DataIn) (e : Encoded) (hv : d.Valid)
    (hm : makeData d sch.sign = .ok e) (hest : d.est > 0) (hx : sch.ExactOn (dataCovered d))
    (b' : Bytes) (k : Nat) (hlen : b'.length = e.wire.flatten.length)
    (hk : b'.getD k 0 ≠ e.wire.flatten.getD k 0) (hsame : ∀ j, j ≠ k → b'.getD j 0 = e.wire.flatten.getD j 0)
    (hreg : (1 + tlLen (dataValue d e.sigVal).length ≤ k
              ∧ k < 1 + tlLen (dataValue d e.sigVal).length + (dataCovered d).length)
            ∨ (e.wire.flatten.length - e.sigVal.length ≤ k ∧ k < e.wire.flatten.length))
    (r : Rd) (hr : At r b' 0) (t : Nat) :
    (∀ x, readData r ≠ .ok x) ∨ ∃ p cov, readData r = .ok (p, cov) ∧ verdict sch t (p.si.map (·.typ)) cov p.sv = false := by
  cases hrd : readData r with
  | ok x =>
    right
    obtain ⟨p, cov⟩ := x
    refine ⟨p, cov, rfl, ?_⟩
    have hneg := bitflip_detected_data_all encSpecs d sch.sign e hv hm hest b' k hlen hk hsame hreg r hr p cov hrd
    cases hsv : p.sv with
    | none => simp [verdict]
    | some v =>
      cases hver : sch.verify cov v with
      | false => simp [verdict, hver]
      | true =>
        exfalso
        obtain ⟨h1, h2⟩ := hx cov v hver
        apply hneg
        obtain ⟨_, hs, _⟩ := encSpecs.makeData_flatten d sch.sign e hv hm
        exact ⟨h1, by rw [hsv, (hs hest).1, h2]⟩
  | err => left; intro x h; cases h
  | panic m => left; intro x h; cases h
  | alloc => left; intro x h; cases h
  | oom => left; intro x h; cases h

/-- Interest with parameters (signed or not): change ANY byte from the first byte of the
    ApplicationParameters element to the end of the Interest (parameters, SignatureInfo, signature
    value). If SHA-256 has no collision with the original digest input, decoding fails. -/
theorem bitflip_detected_interest (i : InterestIn) (sign H : Bytes → Bytes) (e : Encoded) (fn : Name)
    (hv : i.Valid) (hH : ∀ x, (H x).length = 32) (hm : makeInterest i sign H = .ok (e, fn)) (hap : i.ap.isSome)
    (hinj : ∀ x, H x = H (interestParamsPortion i e.sigVal) → x = interestParamsPortion i e.sigVal)
    (b' : Bytes) (k : Nat) (hlen : b'.length = e.wire.flatten.length)
    (hk : b'.getD k 0 ≠ e.wire.flatten.getD k 0) (hsame : ∀ j, j ≠ k → b'.getD j 0 = e.wire.flatten.getD j 0)
    (hreg : e.wire.flatten.length - (interestParamsPortion i e.sigVal).length ≤ k ∧ k < e.wire.flatten.length)
    (r : Rd) (hr : At r b' 0) : ∀ x, readInterest H r ≠ .ok x :=
  bitflip_detected_interest_digest_all encSpecs i sign H e fn hv hH hm hap hinj b' k hlen hk hsame hreg r hr

/-- signed Interest: change ANY byte inside the name components the signature covers (all
    components before the parameters digest). Decoding fails, or the signed portion reported differs
    from what was signed, so under A-crypto (`ExactOn`) the validator rejects. -/
theorem bitflip_detected_interest_name_sig (sch : Scheme) (i : InterestIn) (H : Bytes → Bytes) (e : Encoded) (fn : Name)
    (hv : i.Valid) (hH : ∀ x, (H x).length = 32) (hm : makeInterest i sch.sign H = .ok (e, fn)) (hest : i.est > 0)
    (hx : sch.ExactOn (interestCovered i))
    (b' : Bytes) (k : Nat) (hlen : b'.length = e.wire.flatten.length)
    (hk : b'.getD k 0 ≠ e.wire.flatten.getD k 0) (hsame : ∀ j, j ≠ k → b'.getD j 0 = e.wire.flatten.getD j 0)
    (hreg : 1 + tlLen (interestValue i fn e.sigVal).length + 1 + tlLen (nameLen fn) ≤ k
      ∧ k < 1 + tlLen (interestValue i fn e.sigVal).length + 1 + tlLen (nameLen fn)
            + (encNameInner (stripDigest i.name)).length)
    (r : Rd) (hr : At r b' 0) (t : Nat) :
    (∀ x, readInterest H r ≠ .ok x) ∨ ∃ p cov, readInterest H r = .ok (p, cov) ∧ verdict sch t (p.si.map (·.typ)) cov p.sv = false := by
  cases hrd : readInterest H r with
  | ok x =>
    right
    obtain ⟨p, cov⟩ := x
    refine ⟨p, cov, rfl, ?_⟩
    have hneg := bitflip_detected_interest_name_all encSpecs i sch.sign H e fn hv hH hm hest b' k hlen hk hsame hreg r hr p cov hrd
    cases hsv : p.sv with
    | none => simp [verdict]
    | some v =>
      cases hver : sch.verify cov v with
      | false => simp [verdict, hver]
      | true =>
        exfalso
        obtain ⟨h1, h2⟩ := hx cov v hver
        apply hneg
        obtain ⟨_, _, hs, _⟩ := encSpecs.makeInterest_flatten i sch.sign H e fn hv hH hm
        exact ⟨h1, by rw [hsv, (hs hest).1, h2]⟩
  | err => left; intro x h; cases h
  | panic m => left; intro x h; cases h
  | alloc => left; intro x h; cases h
  | oom => left; intro x h; cases h

/-! ### non-vacuity: the C03 example packets (`exData` with est 300 / 200-byte signature, `exInterest`
    signed with parameters) meet the hypotheses; a tampered copy of the right length exists -/

set_option maxRecDepth 100000 in
example : exData.Valid ∧ exData.est > 0 ∧ ∃ e, makeData exData exSign = .ok e := ⟨exData_valid, by decide, ⟨_, rfl⟩⟩
example : exInterest.Valid ∧ exInterest.ap.isSome ∧ exInterest.est > 0
    ∧ ∃ e fn, makeInterest exInterest exSign32 exHash = .ok (e, fn) := ⟨exInterest_valid, rfl, by decide, ⟨_, _, rfl⟩⟩
/-- the A-crypto hypotheses are satisfiable (each theorem uses only ONE of them: `Correct` for
    acceptance of the untampered packet, `ExactOn m` — during the run nothing but the pair produced
    for the one signed message `m` verifies — for rejection of tampered ones) -/
example : ∃ sch : Scheme, sch.Correct := ⟨⟨fun m => m, fun m v => m == v⟩, by intro m; simp [Scheme.Correct]⟩
example : ∃ sch : Scheme, sch.ExactOn [1, 2, 3] :=
  ⟨⟨fun m => m, fun m v => m == [1, 2, 3] && v == [1, 2, 3]⟩, by
    intro m v h
    simp at h
    exact ⟨h.1, h.2⟩⟩

end Ndn.C12
