/-
  C12 — property theorems only.
-/
import NdnVerif.C03.Parse
import NdnVerif.C03.Spec
namespace Ndn.C12
open Ndn.C03

/-- placeholder while the proofs are being built -/
theorem fixSigShrink_zero (est : Nat) : fixSigShrink est est = 0 := by simp [fixSigShrink]

end Ndn.C12
