/-
  C12/Spec.lean — the specification side of "signed packets verify iff untampered".

  A signature scheme is abstract: `sign` is what the signer computes from the bytes it is handed,
  `verify` what the matching validator computes from (signed portion reported by the parser,
  signature value).  The cryptography is ASSUMED, never proved (trusted base, A-crypto):
    * correctness      `verify m (sign m) = true`                       (`Scheme.correct`)
    * exactness on the run: the only pair the validator accepts is the pair the signer produced
      for the one message of the run                                      (`Scheme.ExactOn`)
    * SHA-256 has no collision with the digest input of the run           (hypothesis `hinj`)
  What IS proved is the byte-range content: which bytes reach `sign`, which bytes reach `verify`
  and the digest check, for every packet shape, reader and segmentation.
-/
import NdnVerif.Base.Num
namespace Ndn.C12

structure Scheme where
  sign : Bytes → Bytes
  verify : Bytes → Bytes → Bool

/-- the validator accepts what the signer produced -/
def Scheme.Correct (s : Scheme) : Prop := ∀ m, s.verify m (s.sign m) = true

/-- A-crypto for one run: besides the pair the signer produced for `m`, nothing verifies -/
def Scheme.ExactOn (s : Scheme) (m : Bytes) : Prop := ∀ m' v, s.verify m' v = true → m' = m ∧ v = s.sign m

/-- the validator's verdict on a decoded packet: right signature type, a signature value is
    present (every shipped validator returns false for an absent value: a 32-byte digest / MAC never
    equals nil, ASN.1 / PKCS#1 verification of an empty signature fails) and the scheme verifies
    (signed portion reported by the parser, signature value) -/
def verdict (s : Scheme) (wantType : Nat) (gotType : Option Nat) (cov : Bytes) (sv : Option Bytes) : Bool :=
  gotType == some wantType &&
  match sv with
  | none => false
  | some v => s.verify cov v

end Ndn.C12
