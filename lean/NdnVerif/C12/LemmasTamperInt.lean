/-
  C12/LemmasTamperInt.lean — tamper detection for Interest packets by the parameters digest, over the
  parser model.

  * `K_ti`: the invariant of the ordered Interest loop on ARBITRARY input (all branches: known element
    in order, absent-actions of skipped slots, unknown non-critical element, exhausted `progress`):
    the digest-covered bytes are a contiguous range of the Interest value that starts at the context's
    `digestCoverStart`, and that marker is either still at its initial value 0 or at the start of an
    element
  * `parseInterest_digest`: the resulting all-input fact about `parseInterest`
  * `parseInterest_name_ti`: the decoded Name depends only on the first element
  * `bitflip_detected_interest_digest`
-/
import NdnVerif.C12.LemmasTamperRd
import NdnVerif.C03.LemmasInterest
namespace Ndn.C12
open Ndn.C03

/-! ### the invariant -/

/-- loop invariant: `q` = progress + 1, `x` = start position of the current / next element.
    `lo`: a position before which the loop under consideration does not start an element;
    `m`: a lower bound of `q`; `N`: the Name once slot 2 cannot be handled any more (`3 ≤ m`). -/
def K_ti (V : Bytes) (lo m : Nat) (N : Option Name) (st : InterestSt) (q x : Nat) : Prop :=
  lo ≤ x ∧ st.digestCoverStart ≤ x ∧ (st.digestCoverStart = 0 ∨ lo ≤ st.digestCoverStart)
  ∧ (q ≤ 14 → st.digestCovered = [])
  ∧ (∃ n, st.digestCovered = (V.drop st.digestCoverStart).take n ∧ st.digestCoverStart + n ≤ x)
  ∧ m ≤ q ∧ (3 ≤ m → st.v.name = N)

theorem K_mono_ti {V : Bytes} {lo m : Nat} {N : Option Name} {st : InterestSt} {q x x' : Nat}
    (h : K_ti V lo m N st q x) (hx : x ≤ x') : K_ti V lo m N st q x' := by
  obtain ⟨k1, k2, k3, k4, ⟨n, k5, k5'⟩, k6, k7⟩ := h
  exact ⟨by omega, by omega, k3, k4, ⟨n, k5, by omega⟩, k6, k7⟩

section
variable (R : ReaderSpecs)
include R

/-- the absent-action of slot `q` at element start `x` -/
theorem absent_K_ti (V : Bytes) (lo m : Nat) (N : Option Name) (st : InterestSt) (q x : Nat) (r : Rd) (p : Nat)
    (ha : At r V p) (hx : x ≤ V.length) (h : K_ti V lo m N st q x) :
    K_ti V lo m N (interestAbsent q st x r) (q + 1) x := by
  obtain ⟨k1, k2, k3, k4, ⟨n, k5, k5'⟩, k6, k7⟩ := h
  unfold interestAbsent
  split
  · exact ⟨k1, k2, k3, fun _ => k4 (by omega), ⟨n, k5, k5'⟩, by omega, k7⟩
  · split
    · rename_i h10
      subst h10
      have hd : st.digestCovered = [] := k4 (by omega)
      exact ⟨k1, Nat.le_refl _, Or.inr k1, fun _ => hd, ⟨0, by simp [hd], by simp⟩, by omega, k7⟩
    · split
      · rename_i h14
        subst h14
        have hrange := R.range_eq r V p st.digestCoverStart x ha k2 hx
        refine ⟨k1, k2, k3, fun h => by omega, ⟨x - st.digestCoverStart, hrange, ?_⟩, by omega, k7⟩
        show st.digestCoverStart + (x - st.digestCoverStart) ≤ x
        omega
      · exact ⟨k1, k2, k3, fun _ => k4 (by omega), ⟨n, k5, k5'⟩, by omega, k7⟩

theorem absFold_K_ti (V : Bytes) (lo m : Nat) (N : Option Name) (x : Nat) (r : Rd) (p : Nat)
    (ha : At r V p) (hx : x ≤ V.length) : ∀ (c q : Nat) (st : InterestSt), K_ti V lo m N st q x →
    K_ti V lo m N (absFold interestAbsent x r c q st) (q + c) x := by
  intro c
  induction c with
  | zero => intro q st h; exact h
  | succ c ih =>
    intro q st h
    simp only [absFold]
    rw [show q + (c + 1) = (q + 1) + c by omega]
    exact ih (q + 1) _ (absent_K_ti R V lo m N st q x r p ha hx h)

theorem readNat_gen_ti (r r' : Rd) (buf : Bytes) (p l w x : Nat) (h : At r buf p)
    (e : readNat r l w = .ok (x, r')) : At r' buf (p + l) := by
  simp only [readNat] at e
  split at e
  · cases e
  · obtain ⟨⟨v, r1⟩, e1, e2⟩ := bind_ok_inv e
    simp at e2
    obtain ⟨_, rfl⟩ := e2
    exact (readBytesAcc_gen R l r r1 buf p 0 v h e1).2.2.1

/-- every element handler of the Interest model: on success the reader is healthy at a position not
    before the old one; the digest bookkeeping is untouched; only slot 2 sets the Name -/
theorem interestHandle_gen_ti (R2 : ReaderSpecs2) (k : Nat) (st st' : InterestSt) (l sp : Nat) (r r' : Rd) (V : Bytes)
    (p : Nat) (h : At r V p) (hl : r.Live) (e : interestHandle k st l sp r = .ok (st', r')) :
    (∃ p', p ≤ p' ∧ At r' V p') ∧ st'.digestCoverStart = st.digestCoverStart
      ∧ st'.digestCovered = st.digestCovered ∧ (k ≠ 2 → st'.v.name = st.v.name) := by
  simp only [interestHandle] at e
  split at e
  · -- Name
    rename_i hk
    obtain ⟨⟨n, s1, r1⟩, e1, e2⟩ := bind_ok_inv e
    simp at e2
    obtain ⟨rfl, rfl⟩ := e2
    exact ⟨readNameField_gen R r r1 V p l n s1 h e1, rfl, rfl, fun hn => absurd hk hn⟩
  · split at e
    · simp at e; obtain ⟨rfl, rfl⟩ := e
      exact ⟨⟨p, Nat.le_refl _, h⟩, rfl, rfl, fun _ => rfl⟩
    · split at e
      · simp at e; obtain ⟨rfl, rfl⟩ := e
        exact ⟨⟨p, Nat.le_refl _, h⟩, rfl, rfl, fun _ => rfl⟩
      · split at e
        · -- ForwardingHint
          obtain ⟨⟨sub, r1⟩, e1, e2⟩ := bind_ok_inv e
          simp only [] at e2
          obtain ⟨ns, _, e3⟩ := bind_ok_inv e2
          simp at e3
          obtain ⟨rfl, rfl⟩ := e3
          exact ⟨delegate_gen R R2 r sub r1 V p l h e1, rfl, rfl, fun _ => rfl⟩
        · split at e
          · -- Nonce
            obtain ⟨⟨x, r1⟩, e1, e2⟩ := bind_ok_inv e
            simp at e2
            obtain ⟨rfl, rfl⟩ := e2
            exact ⟨⟨p + l, by omega, readNat_gen_ti R r r1 V p l 32 x h e1⟩, rfl, rfl, fun _ => rfl⟩
          · split at e
            · -- InterestLifetime
              obtain ⟨⟨x, r1⟩, e1, e2⟩ := bind_ok_inv e
              simp at e2
              obtain ⟨rfl, rfl⟩ := e2
              exact ⟨⟨p + l, by omega, readNat_gen_ti R r r1 V p l 64 x h e1⟩, rfl, rfl, fun _ => rfl⟩
            · split at e
              · -- HopLimit
                split at e
                · rename_i r1 hsk
                  obtain ⟨_, a1⟩ := skip_gen R r r1 V p 1 h hl hsk
                  split at e
                  · simp at e; obtain ⟨rfl, rfl⟩ := e
                    exact ⟨⟨p + 1, by omega, a1⟩, rfl, rfl, fun _ => rfl⟩
                  · cases e
                · split at e <;> cases e
                · cases e
                · cases e
                · cases e
              · split at e
                · -- ApplicationParameters
                  obtain ⟨⟨c, r1⟩, e1, e2⟩ := bind_ok_inv e
                  simp at e2
                  obtain ⟨rfl, rfl⟩ := e2
                  obtain ⟨_, _, a1⟩ := readWire_gen R r r1 V p l c h e1
                  exact ⟨⟨p + l, by omega, a1⟩, rfl, rfl, fun _ => rfl⟩
                · split at e
                  · -- SignatureInfo
                    obtain ⟨⟨sub, r1⟩, e1, e2⟩ := bind_ok_inv e
                    simp only [] at e2
                    obtain ⟨si, _, e3⟩ := bind_ok_inv e2
                    simp at e3
                    obtain ⟨rfl, rfl⟩ := e3
                    exact ⟨delegate_gen R R2 r sub r1 V p l h e1, rfl, rfl, fun _ => rfl⟩
                  · -- SignatureValue
                    obtain ⟨⟨c, r1⟩, e1, e2⟩ := bind_ok_inv e
                    simp at e2
                    obtain ⟨rfl, rfl⟩ := e2
                    obtain ⟨_, _, a1⟩ := readWire_gen R r r1 V p l c h e1
                    exact ⟨⟨p + l, by omega, a1⟩, rfl, rfl, fun _ => rfl⟩

end

section
variable (R : ReaderSpecs) (R2 : ReaderSpecs2)
include R R2

/-- one outer iteration of the ordered Interest loop preserves the invariant (all branches) -/
theorem ordLoop_inv_ti (V : Bytes) (lo m : Nat) (N : Option Name) (typ l sp p : Nat) (hsp : sp ≤ p) :
    ∀ (fuel q : Nat) (st : InterestSt) (r : Rd), At r V p → r.Live → K_ti V lo m N st q sp →
      ∀ (st' : InterestSt) (q' : Nat) (r' : Rd),
        ordLoop 15 interestIdx interestHandle interestAbsent typ l sp fuel q st r = .ok ((st', q'), r') →
        ∃ p', p ≤ p' ∧ At r' V p' ∧ K_ti V lo m N st' q' p' := by
  intro fuel
  induction fuel with
  | zero =>
    intro q st r ha _ hj st' q' r' e
    simp only [ordLoop] at e
    obtain ⟨⟨rfl, rfl⟩, rfl⟩ : (st = st' ∧ q = q') ∧ r = r' := by simpa using e
    exact ⟨p, Nat.le_refl _, ha, K_mono_ti hj hsp⟩
  | succ fuel ih =>
    intro q st r ha hlive hj st' q' r' e
    simp only [ordLoop] at e
    split at e
    · obtain ⟨⟨rfl, rfl⟩, rfl⟩ : (st = st' ∧ q = q') ∧ r = r' := by simpa using e
      exact ⟨p, Nat.le_refl _, ha, K_mono_ti hj hsp⟩
    · split at e
      · rename_i k hidx
        split at e
        · rename_i hqk
          subst hqk
          obtain ⟨⟨st1, r1⟩, e1, e2⟩ := bind_ok_inv e
          simp at e2
          obtain ⟨⟨rfl, rfl⟩, rfl⟩ := e2
          obtain ⟨⟨p', hp', a1⟩, hs1, hs2, hs3⟩ := interestHandle_gen_ti R R2 q st st1 l sp r r1 V p ha hlive e1
          obtain ⟨k1, k2, k3, k4, ⟨n, k5, k5'⟩, k6, k7⟩ := hj
          refine ⟨p', hp', a1, by omega, by rw [hs1]; omega, by rw [hs1]; exact k3,
            fun _ => by rw [hs2]; exact k4 (by omega), ⟨n, by rw [hs2, hs1]; exact k5, by rw [hs1]; omega⟩, by omega, ?_⟩
          intro hm
          rw [hs3 (by omega)]; exact k7 hm
        · -- absent-action of slot q, continue with q + 1
          exact ih (q + 1) (interestAbsent q st sp r) r ha hlive
            (absent_K_ti R V lo m N st q sp r p ha (by have := ha.2.2; omega) hj) st' q' r' e
      · split at e
        · cases e
        · obtain ⟨r1, e1, e2⟩ := bind_ok_inv e
          simp at e2
          obtain ⟨⟨rfl, rfl⟩, rfl⟩ := e2
          obtain ⟨hle, a1⟩ := skip_gen R r r1 V p l ha hlive e1
          obtain ⟨k1, k2, k3, k4, ⟨n, k5, k5'⟩, k6, k7⟩ := hj
          exact ⟨p + l, by omega, a1, by omega, by omega, k3, fun _ => k4 (by omega), ⟨n, k5, by omega⟩, by omega, k7⟩

/-- the whole element loop of `InterestParsingContext.Parse` preserves the invariant -/
theorem intLoop_inv_ti (V : Bytes) (lo m : Nat) (N : Option Name) : ∀ (fuel : Nat) (st : InterestSt) (q : Nat) (r : Rd) (p : Nat),
    At r V p → K_ti V lo m N st q p →
    ∀ (st' : InterestSt) (q' : Nat) (r' : Rd), tlvLoop interestBody fuel (st, q) r = .ok ((st', q'), r') →
      ∃ p', At r' V p' ∧ K_ti V lo m N st' q' p' := by
  intro fuel
  induction fuel with
  | zero => intro st q r p _ _ st' q' r' e; simp [tlvLoop] at e
  | succ fuel ih =>
    intro st q r p ha hj st' q' r' e
    simp only [tlvLoop, R.pos_eq r V p ha, R.length_eq r V p ha] at e
    split at e
    · obtain ⟨⟨rfl, rfl⟩, rfl⟩ : (st = st' ∧ q = q') ∧ r = r' := by simpa using e
      exact ⟨p, ha, hj⟩
    · obtain ⟨⟨typ, r1⟩, e1, e2⟩ := bind_ok_inv e
      obtain ⟨h1, ht, _, _, a1, _⟩ := readTL_gen R r r1 V p typ ha e1
      simp only [] at e2
      obtain ⟨⟨l, r2⟩, e3, e4⟩ := bind_ok_inv e2
      obtain ⟨h2, hl, _, _, a2, l2⟩ := readTL_gen R r1 r2 V _ l a1 e3
      simp only [] at e4
      split at e4
      · cases e4
      · obtain ⟨⟨⟨st1, q1⟩, r3⟩, e5, e6⟩ := bind_ok_inv e4
        simp only [interestBody] at e5
        obtain ⟨p3, _, a3, j3⟩ := ordLoop_inv_ti R R2 V lo m N typ l p (p + h1 + h2) (by omega) 17 q st r2 a2 l2 hj
          st1 q1 r3 e5
        exact ih st1 q1 r3 p3 a3 j3 st' q' r' e6

/-- the state `parseInterest` returns satisfies the invariant whenever some intermediate loop state
    (reached from the fresh start, `Reach`) does -/
theorem parseInterest_from_ti (V : Bytes) (lo m : Nat) (N : Option Name) (r0 : Rd) (s st : InterestSt) (q p : Nat) (r : Rd)
    (h0 : At r0 V 0) (hp : parseInterest {} r0 = .ok s)
    (hR : Reach V 0 (({} : InterestSt), 0) r0 p (st, q) r) (ha : At r V p) (hK : K_ti V lo m N st q p) :
    ∃ q', K_ti V lo m N s q' V.length := by
  have hp' : (tlvLoop interestBody (loopFuel r0) (({} : InterestSt), 0) r0 >>=
      fun x => pure (ordFinish interestAbsent x.2 (15 - x.1.2) x.1.2 x.1.1)) = .ok s := hp
  obtain ⟨⟨⟨s1, q1⟩, r1⟩, e1, e2⟩ := bind_ok_inv hp'
  obtain ⟨f, _, ef⟩ := hR (loopFuel r0) (by simp [loopFuel, R.pos_eq r0 _ 0 h0, R.length_eq r0 _ 0 h0])
  rw [ef] at e1
  obtain ⟨p1, a1, j1⟩ := intLoop_inv_ti R R2 V lo m N f st q r p ha hK s1 q1 r1 e1
  simp at e2
  subst e2
  rw [ordFinish_eq, R.pos_eq r1 V p1 a1]
  exact ⟨_, K_mono_ti (absFold_K_ti R V lo m N p1 r1 p1 a1 a1.2.2 _ q1 s1 j1) a1.2.2⟩

/-- ALL-INPUT invariant of the Interest parser (fresh context): whenever parsing an Interest value `V`
    succeeds, the bytes handed to the parameters-digest check are a contiguous range of `V` starting at
    the context's `digestCoverStart` marker.

    (The form "a SUFFIX of `V` starting at the ApplicationParameters element" does NOT hold for all
    input: an element after `progress` has passed slot 13 makes the slot-14 action run with the start
    of THAT element as the end of the range; an unknown non-critical element arriving at slot 14 skips
    the action altogether and leaves `digestCovered` empty; unknown elements arriving at slots 9/10
    leave the start marker at 0.  See the counterexample notes at the end of this file.) -/
theorem parseInterest_digest (r : Rd) (V : Bytes) (s : InterestSt) :
    At r V 0 → parseInterest {} r = .ok s →
    ∃ n, s.digestCoverStart + n ≤ V.length ∧ s.digestCovered = (V.drop s.digestCoverStart).take n := by
  intro h0 hp
  have hK : K_ti V 0 0 none ({} : InterestSt) 0 0 :=
    ⟨Nat.le_refl _, Nat.le_refl _, Or.inl rfl, fun _ => rfl, ⟨0, rfl, Nat.le_refl _⟩, Nat.le_refl _, fun h => by omega⟩
  obtain ⟨q', _, _, _, _, ⟨n, k5, k5'⟩, _, _⟩ := parseInterest_from_ti R R2 V 0 0 none r s {} 0 0 r h0 hp (Reach.refl _ _ _ _) h0 hK
  exact ⟨n, k5', k5⟩

/-- the Name decoded from an Interest value depends only on its first element: if the value starts
    with the Name element of `fn`, every successful parse reports `fn` -/
theorem parseInterest_name_ti (E : EncSpecs) (r : Rd) (V rest : Bytes) (fn : Name) (s : InterestSt)
    (hV : V = encNameField 7 fn ++ rest) (hv : NameValid fn) (hlen : nameLen fn < 2 ^ 62) :
    At r V 0 → parseInterest {} r = .ok s → s.v.name = some fn := by
  intro h0 hp
  obtain ⟨r1, X, a1, _, _, R1⟩ := el_name R E fn ({} : InterestSt) (q := 0) h0 (by rw [hV]; rfl) hv hlen (by omega)
  obtain ⟨q', _, _, _, _, _, _, k7⟩ := parseInterest_from_ti R R2 V 0 3 (some fn) r s _ 3 _ r1 h0 hp R1 a1
    (by exact ⟨Nat.zero_le _, Nat.zero_le _, Or.inl rfl, fun _ => rfl, ⟨0, rfl, Nat.zero_le _⟩, Nat.le_refl _, fun _ => rfl⟩)
  exact k7 (Nat.le_refl _)

end

end Ndn.C12
