/-
  C12/LemmasTamperInt.lean — tamper detection for Interest packets by the parameters digest, over the
  parser model.

  * `K_ti`: the invariant of the ordered Interest loop on ARBITRARY input (all branches: known element
    in order, absent-actions of skipped slots, unknown non-critical element, exhausted `progress`):
    the digest-covered bytes are a contiguous range of the Interest value that starts at the context's
    `digestCoverStart`, and that marker is either still at its initial value 0 or at the start of an
    element (or at the end of the value)
  * `parseInterest_digest`: the resulting all-input fact about `parseInterest`
  * `parseInterest_name_ti`: the decoded Name depends only on the first element
  * `bitflip_detected_interest_digest`
-/
import NdnVerif.C12.LemmasTamperRd
import NdnVerif.C03.LemmasInterest
namespace Ndn.C12
open Ndn.C03

/-! ### the invariant -/

/-- loop invariant: `q` = progress + 1, `x` = start position of the current / next element.
    `lo`: a position before which the loop under consideration does not start an element;
    `m`: a lower bound of `q`; `N`: the Name once slot 2 cannot be handled any more (`3 ≤ m`). -/
def K_ti (V : Bytes) (lo m : Nat) (N : Option Name) (st : InterestSt) (q x : Nat) : Prop :=
  lo ≤ x ∧ st.digestCoverStart ≤ x ∧ (st.digestCoverStart = 0 ∨ lo ≤ st.digestCoverStart)
  ∧ (q ≤ 14 → st.digestCovered = [])
  ∧ (∃ n, st.digestCovered = (V.drop st.digestCoverStart).take n ∧ st.digestCoverStart + n ≤ x)
  ∧ m ≤ q ∧ (3 ≤ m → st.v.name = N)

theorem K_mono_ti {V : Bytes} {lo m : Nat} {N : Option Name} {st : InterestSt} {q x x' : Nat}
    (h : K_ti V lo m N st q x) (hx : x ≤ x') : K_ti V lo m N st q x' := by
  obtain ⟨k1, k2, k3, k4, ⟨n, k5, k5'⟩, k6, k7⟩ := h
  exact ⟨by omega, by omega, k3, k4, ⟨n, k5, by omega⟩, k6, k7⟩

section
variable (R : ReaderSpecs)
include R

/-- the absent-action of slot `q` at element start `x` -/
theorem absent_K_ti (V : Bytes) (lo m : Nat) (N : Option Name) (st : InterestSt) (q x : Nat) (r : Rd) (p : Nat)
    (ha : At r V p) (hx : x ≤ V.length) (h : K_ti V lo m N st q x) :
    K_ti V lo m N (interestAbsent q st x r) (q + 1) x := by
  obtain ⟨k1, k2, k3, k4, ⟨n, k5, k5'⟩, k6, k7⟩ := h
  unfold interestAbsent
  split
  · exact ⟨k1, k2, k3, fun _ => k4 (by omega), ⟨n, k5, k5'⟩, by omega, k7⟩
  · split
    · rename_i h10
      subst h10
      have hd : st.digestCovered = [] := k4 (by omega)
      exact ⟨k1, Nat.le_refl _, Or.inr k1, fun _ => hd, ⟨0, by simp [hd], by simp⟩, by omega, k7⟩
    · split
      · rename_i h14
        subst h14
        have hrange := R.range_eq r V p st.digestCoverStart x ha k2 hx
        refine ⟨k1, k2, k3, fun h => by omega, ⟨x - st.digestCoverStart, hrange, ?_⟩, by omega, k7⟩
        show st.digestCoverStart + (x - st.digestCoverStart) ≤ x
        omega
      · exact ⟨k1, k2, k3, fun _ => k4 (by omega), ⟨n, k5, k5'⟩, by omega, k7⟩

theorem absFold_K_ti (V : Bytes) (lo m : Nat) (N : Option Name) (x : Nat) (r : Rd) (p : Nat)
    (ha : At r V p) (hx : x ≤ V.length) : ∀ (c q : Nat) (st : InterestSt), K_ti V lo m N st q x →
    K_ti V lo m N (absFold interestAbsent x r c q st) (q + c) x := by
  intro c
  induction c with
  | zero => intro q st h; exact h
  | succ c ih =>
    intro q st h
    simp only [absFold]
    rw [show q + (c + 1) = (q + 1) + c by omega]
    exact ih (q + 1) _ (absent_K_ti R V lo m N st q x r p ha hx h)

theorem readNat_gen_ti (r r' : Rd) (buf : Bytes) (p l w x : Nat) (h : At r buf p)
    (e : readNat r l w = .ok (x, r')) : ∃ p', p ≤ p' ∧ At r' buf p' := by
  simp only [readNat] at e
  split at e
  · -- negative `int(l)`: zero iterations, reader unchanged
    obtain ⟨_, rfl⟩ : 0 = x ∧ r = r' := by simpa using e
    exact ⟨p, Nat.le_refl _, h⟩
  · split at e
    · cases e
    · obtain ⟨⟨v, r1⟩, e1, e2⟩ := bind_ok_inv e
      simp at e2
      obtain ⟨_, rfl⟩ := e2
      exact ⟨p + l, by omega, (readBytesAcc_gen R l r r1 buf p 0 v h e1).2.2.1⟩

/-- every element handler of the Interest model: on success the reader is healthy at a position not
    before the old one; the digest bookkeeping is untouched; only slot 2 sets the Name -/
theorem interestHandle_gen_ti (R2 : ReaderSpecs2) (k : Nat) (st st' : InterestSt) (l sp : Nat) (r r' : Rd) (V : Bytes)
    (p : Nat) (h : At r V p) (hl : r.Live) (e : interestHandle k st l sp r = .ok (st', r')) :
    (∃ p', p ≤ p' ∧ At r' V p') ∧ st'.digestCoverStart = st.digestCoverStart
      ∧ st'.digestCovered = st.digestCovered ∧ (k ≠ 2 → st'.v.name = st.v.name) := by
  simp only [interestHandle] at e
  split at e
  · -- Name
    rename_i hk
    obtain ⟨⟨n, s1, r1⟩, e1, e2⟩ := bind_ok_inv e
    simp at e2
    obtain ⟨rfl, rfl⟩ := e2
    exact ⟨readNameField_gen R r r1 V p l n s1 h e1, rfl, rfl, fun hn => absurd hk hn⟩
  · split at e
    · simp at e; obtain ⟨rfl, rfl⟩ := e
      exact ⟨⟨p, Nat.le_refl _, h⟩, rfl, rfl, fun _ => rfl⟩
    · split at e
      · simp at e; obtain ⟨rfl, rfl⟩ := e
        exact ⟨⟨p, Nat.le_refl _, h⟩, rfl, rfl, fun _ => rfl⟩
      · split at e
        · -- ForwardingHint
          obtain ⟨⟨sub, r1⟩, e1, e2⟩ := bind_ok_inv e
          simp only [] at e2
          obtain ⟨ns, _, e3⟩ := bind_ok_inv e2
          simp at e3
          obtain ⟨rfl, rfl⟩ := e3
          exact ⟨delegate_gen R R2 r sub r1 V p l h e1, rfl, rfl, fun _ => rfl⟩
        · split at e
          · -- Nonce
            obtain ⟨⟨x, r1⟩, e1, e2⟩ := bind_ok_inv e
            simp at e2
            obtain ⟨rfl, rfl⟩ := e2
            exact ⟨readNat_gen_ti R r r1 V p l 32 x h e1, rfl, rfl, fun _ => rfl⟩
          · split at e
            · -- InterestLifetime
              obtain ⟨⟨x, r1⟩, e1, e2⟩ := bind_ok_inv e
              simp at e2
              obtain ⟨rfl, rfl⟩ := e2
              exact ⟨readNat_gen_ti R r r1 V p l 64 x h (readNatural_ok e1), rfl, rfl, fun _ => rfl⟩
            · split at e
              · -- HopLimit
                split at e
                · rename_i r1 hsk
                  obtain ⟨_, a1⟩ := skip_gen R r r1 V p 1 h hl hsk
                  split at e
                  · simp at e; obtain ⟨rfl, rfl⟩ := e
                    exact ⟨⟨p + 1, by omega, a1⟩, rfl, rfl, fun _ => rfl⟩
                  · cases e
                · cases e
                · cases e
                · cases e
                · cases e
              · split at e
                · -- ApplicationParameters
                  obtain ⟨⟨c, r1⟩, e1, e2⟩ := bind_ok_inv e
                  simp at e2
                  obtain ⟨rfl, rfl⟩ := e2
                  obtain ⟨_, _, a1⟩ := readWire_gen R r r1 V p l c h e1
                  exact ⟨⟨p + l, by omega, a1⟩, rfl, rfl, fun _ => rfl⟩
                · split at e
                  · -- SignatureInfo
                    obtain ⟨⟨sub, r1⟩, e1, e2⟩ := bind_ok_inv e
                    simp only [] at e2
                    obtain ⟨si, _, e3⟩ := bind_ok_inv e2
                    simp at e3
                    obtain ⟨rfl, rfl⟩ := e3
                    exact ⟨delegate_gen R R2 r sub r1 V p l h e1, rfl, rfl, fun _ => rfl⟩
                  · -- SignatureValue
                    obtain ⟨⟨c, r1⟩, e1, e2⟩ := bind_ok_inv e
                    simp at e2
                    obtain ⟨rfl, rfl⟩ := e2
                    obtain ⟨_, _, a1⟩ := readWire_gen R r r1 V p l c h e1
                    exact ⟨⟨p + l, by omega, a1⟩, rfl, rfl, fun _ => rfl⟩

end

section
variable (R : ReaderSpecs) (R2 : ReaderSpecs2)
include R R2

/-- one outer iteration of the ordered Interest loop preserves the invariant (all branches) -/
theorem ordLoop_inv_ti (V : Bytes) (lo m : Nat) (N : Option Name) (typ l sp p : Nat) (hsp : sp ≤ p) :
    ∀ (fuel q : Nat) (st : InterestSt) (r : Rd), At r V p → r.Live → K_ti V lo m N st q sp →
      ∀ (st' : InterestSt) (q' : Nat) (r' : Rd),
        ordLoop 15 interestIdx interestHandle interestAbsent typ l sp fuel q st r = .ok ((st', q'), r') →
        ∃ p', p ≤ p' ∧ At r' V p' ∧ K_ti V lo m N st' q' p' := by
  intro fuel
  induction fuel with
  | zero =>
    intro q st r ha _ hj st' q' r' e
    simp only [ordLoop] at e
    obtain ⟨⟨rfl, rfl⟩, rfl⟩ : (st = st' ∧ q = q') ∧ r = r' := by simpa using e
    exact ⟨p, Nat.le_refl _, ha, K_mono_ti hj hsp⟩
  | succ fuel ih =>
    intro q st r ha hlive hj st' q' r' e
    simp only [ordLoop] at e
    split at e
    · obtain ⟨⟨rfl, rfl⟩, rfl⟩ : (st = st' ∧ q = q') ∧ r = r' := by simpa using e
      exact ⟨p, Nat.le_refl _, ha, K_mono_ti hj hsp⟩
    · split at e
      · rename_i k hidx
        split at e
        · rename_i hqk
          subst hqk
          obtain ⟨⟨st1, r1⟩, e1, e2⟩ := bind_ok_inv e
          simp at e2
          obtain ⟨⟨rfl, rfl⟩, rfl⟩ := e2
          obtain ⟨⟨p', hp', a1⟩, hs1, hs2, hs3⟩ := interestHandle_gen_ti R R2 q st st1 l sp r r1 V p ha hlive e1
          obtain ⟨k1, k2, k3, k4, ⟨n, k5, k5'⟩, k6, k7⟩ := hj
          refine ⟨p', hp', a1, by omega, by rw [hs1]; omega, by rw [hs1]; exact k3,
            fun _ => by rw [hs2]; exact k4 (by omega), ⟨n, by rw [hs2, hs1]; exact k5, by rw [hs1]; omega⟩, by omega, ?_⟩
          intro hm
          rw [hs3 (by omega)]; exact k7 hm
        · -- absent-action of slot q, continue with q + 1
          exact ih (q + 1) (interestAbsent q st sp r) r ha hlive
            (absent_K_ti R V lo m N st q sp r p ha (by have := ha.2.2; omega) hj) st' q' r' e
      · split at e
        · cases e
        · obtain ⟨r1, e1, e2⟩ := bind_ok_inv e
          simp at e2
          obtain ⟨⟨rfl, rfl⟩, rfl⟩ := e2
          obtain ⟨hle, a1⟩ := skip_gen R r r1 V p l ha hlive e1
          obtain ⟨k1, k2, k3, k4, ⟨n, k5, k5'⟩, k6, k7⟩ := hj
          exact ⟨p + l, by omega, a1, by omega, by omega, k3, k4, ⟨n, k5, by omega⟩, k6, k7⟩

/-- the whole element loop of `InterestParsingContext.Parse` preserves the invariant -/
theorem intLoop_inv_ti (V : Bytes) (lo m : Nat) (N : Option Name) : ∀ (fuel : Nat) (st : InterestSt) (q : Nat) (r : Rd) (p : Nat),
    At r V p → K_ti V lo m N st q p →
    ∀ (st' : InterestSt) (q' : Nat) (r' : Rd), tlvLoop interestBody fuel (st, q) r = .ok ((st', q'), r') →
      ∃ p', At r' V p' ∧ K_ti V lo m N st' q' p' := by
  intro fuel
  induction fuel with
  | zero => intro st q r p _ _ st' q' r' e; simp [tlvLoop] at e
  | succ fuel ih =>
    intro st q r p ha hj st' q' r' e
    simp only [tlvLoop, R.pos_eq r V p ha, R.length_eq r V p ha] at e
    split at e
    · obtain ⟨⟨rfl, rfl⟩, rfl⟩ : (st = st' ∧ q = q') ∧ r = r' := by simpa using e
      exact ⟨p, ha, hj⟩
    · obtain ⟨⟨typ, r1⟩, e1, e2⟩ := bind_ok_inv e
      obtain ⟨h1, ht, _, _, a1, _⟩ := readTL_gen R r r1 V p typ ha e1
      simp only [] at e2
      obtain ⟨⟨l, r2⟩, e3, e4⟩ := bind_ok_inv e2
      obtain ⟨h2, hl, _, _, a2, l2⟩ := readTL_gen R r1 r2 V _ l a1 e3
      simp only [] at e4
      obtain ⟨⟨⟨st1, q1⟩, r3⟩, e5, e6⟩ := bind_ok_inv e4
      simp only [interestBody] at e5
      obtain ⟨p3, _, a3, j3⟩ := ordLoop_inv_ti R R2 V lo m N typ l p (p + h1 + h2) (by omega) 17 q st r2 a2 l2 hj
        st1 q1 r3 e5
      exact ih st1 q1 r3 p3 a3 j3 st' q' r' e6

/-- the state `parseInterest` returns satisfies the invariant whenever some intermediate loop state
    (reached from the fresh start, `Reach`) does -/
theorem parseInterest_from_ti (V : Bytes) (lo m : Nat) (N : Option Name) (r0 : Rd) (s st : InterestSt) (q p : Nat) (r : Rd)
    (h0 : At r0 V 0) (hp : parseInterest {} r0 = .ok s)
    (hR : Reach V 0 (({} : InterestSt), 0) r0 p (st, q) r) (ha : At r V p) (hK : K_ti V lo m N st q p) :
    ∃ q', K_ti V lo m N s q' V.length := by
  have hp' : (tlvLoop interestBody (loopFuel r0) (({} : InterestSt), 0) r0 >>=
      fun x => pure (ordFinish interestAbsent x.2 (15 - x.1.2) x.1.2 x.1.1)) = .ok s := hp
  obtain ⟨⟨⟨s1, q1⟩, r1⟩, e1, e2⟩ := bind_ok_inv hp'
  obtain ⟨f, _, ef⟩ := hR (loopFuel r0) (by simp [loopFuel, R.pos_eq r0 _ 0 h0, R.length_eq r0 _ 0 h0])
  rw [ef] at e1
  obtain ⟨p1, a1, j1⟩ := intLoop_inv_ti R R2 V lo m N f st q r p ha hK s1 q1 r1 e1
  simp at e2
  subst e2
  rw [ordFinish_eq, R.pos_eq r1 V p1 a1]
  exact ⟨_, K_mono_ti (absFold_K_ti R V lo m N p1 r1 p1 a1 a1.2.2 _ q1 s1 j1) a1.2.2⟩

/-- ALL-INPUT invariant of the Interest parser (fresh context): whenever parsing an Interest value `V`
    succeeds, the bytes handed to the parameters-digest check are a contiguous range of `V` starting at
    the context's `digestCoverStart` marker.

    (The form "a SUFFIX of `V` starting at the ApplicationParameters element" does NOT hold for all
    input: a known element arriving out of order after ApplicationParameters makes the slot-14 action
    run with the start of THAT element as the end of the range.  See the notes at the end of this file.) -/
theorem parseInterest_digest (r : Rd) (V : Bytes) (s : InterestSt) :
    At r V 0 → parseInterest {} r = .ok s →
    ∃ n, s.digestCoverStart + n ≤ V.length ∧ s.digestCovered = (V.drop s.digestCoverStart).take n := by
  intro h0 hp
  have hK : K_ti V 0 0 none ({} : InterestSt) 0 0 :=
    ⟨Nat.le_refl _, Nat.le_refl _, Or.inl rfl, fun _ => rfl, ⟨0, rfl, Nat.le_refl _⟩, Nat.le_refl _, fun h => by omega⟩
  obtain ⟨q', _, _, _, _, ⟨n, k5, k5'⟩, _, _⟩ := parseInterest_from_ti R R2 V 0 0 none r s {} 0 0 r h0 hp (Reach.refl _ _ _ _) h0 hK
  exact ⟨n, k5', k5⟩

/-- the Name decoded from an Interest value depends only on its first element: if the value starts
    with the Name element of `fn`, every successful parse reports `fn` -/
theorem parseInterest_name_ti (E : EncSpecs) (r : Rd) (V rest : Bytes) (fn : Name) (s : InterestSt)
    (hV : V = encNameField 7 fn ++ rest) (hv : NameValid fn) (hlen : nameLen fn < 2 ^ 62) :
    At r V 0 → parseInterest {} r = .ok s → s.v.name = some fn := by
  intro h0 hp
  obtain ⟨r1, X, a1, _, _, R1⟩ := el_name R E fn ({} : InterestSt) (q := 0) h0 (by rw [hV]; rfl) hv hlen (by omega)
  obtain ⟨q', _, _, _, _, _, _, k7⟩ := parseInterest_from_ti R R2 V 0 3 (some fn) r s _ 3 _ r1 h0 hp R1 a1
    (by exact ⟨Nat.zero_le _, Nat.zero_le _, Or.inl rfl, fun _ => rfl, ⟨0, rfl, Nat.zero_le _⟩, Nat.le_refl _, fun _ => rfl⟩)
  exact k7 (Nat.le_refl _)

end

/-! ### tamper detection -/

/-- a packet that is exactly one Interest TLV: a successful `ReadInterest` parsed the value with a
    fresh context and `checkInterest` accepted the result -/
theorem readInterest_single_ti (R : ReaderSpecs) (H : Bytes → Bytes) (r : Rd) (V : Bytes) (hL : V.length < 2 ^ 62)
    (hr : At r (encTL 5 ++ encTL V.length ++ V) 0) (x : InterestP × Bytes) (e : readInterest H r = .ok x) :
    ∃ sub s, At sub V 0 ∧ parseInterest {} sub = .ok s ∧ checkInterest H s = true ∧ x = (s.v, s.sigCovered) := by
  have hb : (encTL 5 ++ encTL V.length ++ V).drop 0 = encTL 5 ++ (encTL V.length ++ (V ++ [])) := by simp
  obtain ⟨r2, a2, l2, d2, e2⟩ := tlvLoop_step R packetBody (r.length - r.pos) ({} : PacketSt) r _ 0 5 V.length (V ++ [])
    hr hb (by omega) (by omega)
  obtain ⟨sub, r3, e3, as, a3⟩ := delegate_at R r2 _ _ V [] a2 d2
  simp only [readInterest] at e
  obtain ⟨ps, e4, e5⟩ := bind_ok_inv e
  simp only [parsePacket, loopFuel] at e4
  obtain ⟨⟨ps', rend⟩, e6, e7⟩ := bind_ok_inv e4
  obtain rfl : ps' = ps := by simpa using e7
  rw [e2] at e6
  obtain ⟨⟨ps1, r4⟩, e8, e9⟩ := bind_ok_inv e6
  simp only [packetBody, e3] at e8
  simp at e8
  obtain ⟨s, e10, e11⟩ := bind_ok_inv e8
  simp at e11
  obtain ⟨rfl, rfl⟩ := e11
  have hend : (encTL 5 ++ encTL V.length ++ V).drop (0 + tlLen 5 + tlLen V.length + V.length) = [] := by
    apply List.drop_eq_nil_of_le
    simp [encTL_length]; omega
  have hf : 0 < r.length - r.pos := by
    rw [R.pos_eq r _ 0 hr, R.length_eq r _ 0 hr]; simp [encTL_length]; have := tlLen_pos 5; omega
  rw [tlvLoop_end' R packetBody _ _ r3 _ _ a3 hend hf] at e9
  obtain ⟨rfl, _⟩ : ps' = _ ∧ rend = r3 := by simpa using e9.symm
  simp at e5
  split at e5
  · rename_i hchk
    have hx : (s.v, s.sigCovered) = x := by simpa using e5
    exact ⟨sub, s, as, e10, hchk, hx.symm⟩
  · cases e5

/-- the head part (Name … HopLimit) of a built Interest is decoded identically on ANY buffer that
    starts with those bytes: the loop arrives at the end of the head with `progress` still before the
    offset markers and untouched digest bookkeeping -/
theorem head_reach_ti (R : ReaderSpecs) (E : EncSpecs) (i : InterestIn) (fn : Name) (sv : Bytes)
    (hr : InterestReady i fn sv) (buf rest : Bytes) (r0 : Rd) (hbuf : buf = interestHead i fn ++ rest)
    (h0 : At r0 buf 0) :
    ∃ r7 q7 st7, q7 ≤ 9 ∧ At r7 buf (interestHead i fn).length ∧ st7.digestCoverStart = 0 ∧ st7.digestCovered = []
      ∧ Reach buf 0 (({} : InterestSt), 0) r0 (interestHead i fn).length (st7, q7) r7 := by
  have hb0 : buf.drop 0 = encNameField 7 fn ++ (boolField 33 i.cbp ++ (boolField 18 i.mbf
      ++ (optB i.fh (fun ns => encTL 30 ++ encTL (linksLen ns) ++ encLinks ns)
      ++ (optB i.nonce encNonce ++ (optB i.lt (encNatField 12) ++ (optB i.hl encHopLimit
      ++ rest)))))) := by
    rw [hbuf]; simp only [List.drop_zero, interestHead, List.append_assoc]
  obtain ⟨r1, X, a1, d1, hX, R1⟩ := el_name R E fn {} (q := 0) h0 hb0 hr.nameValid hr.nameLen (by omega)
  obtain ⟨r2, q2, hq2, a2, d2, R2⟩ := el_cbp R i.cbp
    ({ v := { name := some fn }, sigCovered := X } : InterestSt) (q := 3) a1 d1 (by omega) rfl
  obtain ⟨r3, q3, hq3, a3, d3, R3⟩ := el_mbf R i.mbf
    ({ v := { name := some fn, cbp := i.cbp }, sigCovered := X } : InterestSt) a2 d2 hq2 rfl
  obtain ⟨r4, q4, hq4, a4, d4, R4⟩ := el_fh R E i.fh
    ({ v := { name := some fn, cbp := i.cbp, mbf := i.mbf }, sigCovered := X } : InterestSt) rfl a3 d3
    hr.fhValid hr.fhLen hq3 rfl
  obtain ⟨r5, q5, hq5, a5, d5, R5⟩ := el_nonce R i.nonce
    ({ v := { name := some fn, cbp := i.cbp, mbf := i.mbf, fh := i.fh }, sigCovered := X } : InterestSt) a4 d4
    hr.nonce hq4 rfl
  obtain ⟨r6, q6, hq6, a6, d6, R6⟩ := el_lt R i.lt
    ({ v := { name := some fn, cbp := i.cbp, mbf := i.mbf, fh := i.fh, nonce := i.nonce }, sigCovered := X } : InterestSt)
    a5 d5 hr.lt hq5 rfl
  obtain ⟨r7, q7, hq7, a7, d7, R7⟩ := el_hl R i.hl
    ({ v := { name := some fn, cbp := i.cbp, mbf := i.mbf, fh := i.fh, nonce := i.nonce, lt := i.lt },
       sigCovered := X } : InterestSt) a6 d6 hr.hl hq6 rfl
  have RH := R1.trans (R2.trans (R3.trans (R4.trans (R5.trans (R6.trans R7)))))
  clear R1 R2 R3 R4 R5 R6 R7
  have hpos : 0 + (encNameField 7 fn).length + (boolField 33 i.cbp).length + (boolField 18 i.mbf).length
      + (optB i.fh (fun ns => encTL 30 ++ encTL (linksLen ns) ++ encLinks ns)).length
      + (optB i.nonce encNonce).length + (optB i.lt (encNatField 12)).length + (optB i.hl encHopLimit).length
      = (interestHead i fn).length := by
    simp only [interestHead, List.length_append]; omega
  rw [hpos] at RH a7
  exact ⟨r7, q7, _, hq7, a7, rfl, rfl, RH⟩

/-- Tamper detection by the parameters digest: `b` a built Interest WITH parameters, `b'` of the same
    length, equal to `b` except at byte `k`, where `k` lies at or after the first byte of the
    ApplicationParameters element (i.e. in the parameters, SignatureInfo or SignatureValue).  If the hash
    has no collision with the original digest input (`hinj`), decoding `b'` fails — for every healthy
    reader, signed or not. -/
theorem bitflip_detected_interest_digest (R : ReaderSpecs) (R2 : ReaderSpecs2) (E : EncSpecs)
    (i : InterestIn) (sign H : Bytes → Bytes) (e : Encoded) (fn : Name)
    (hv : i.Valid) (hH : ∀ x, (H x).length = 32) (hm : makeInterest i sign H = .ok (e, fn)) (hap : i.ap.isSome)
    (hinj : ∀ x, H x = H (interestParamsPortion i e.sigVal) → x = interestParamsPortion i e.sigVal)
    (b' : Bytes) (k : Nat) (hlen : b'.length = e.wire.flatten.length)
    (hk : b'.getD k 0 ≠ e.wire.flatten.getD k 0) (hsame : ∀ j, j ≠ k → b'.getD j 0 = e.wire.flatten.getD j 0)
    (hreg : e.wire.flatten.length - (interestParamsPortion i e.sigVal).length ≤ k ∧ k < e.wire.flatten.length)
    (r : Rd) (hr : At r b' 0) : ∀ x, readInterest H r ≠ .ok x := by
  intro x hrd
  obtain ⟨hfn, hfl, _, _⟩ := E.makeInterest_flatten i sign H e fn hv hH hm
  obtain ⟨hrdy, hL⟩ := interestReady_of_int E i sign H e fn hv hH hm
  obtain ⟨P, hP⟩ : ∃ P, P = interestParamsPortion i e.sigVal := ⟨_, rfl⟩
  obtain ⟨Hd, hHd⟩ : ∃ Hd, Hd = interestHead i fn := ⟨_, rfl⟩
  have hVeq : interestValue i fn e.sigVal = Hd ++ P := by rw [hHd, hP]; rfl
  rw [hVeq] at hfl hL
  rw [← hP] at hinj hreg
  have h5 : tlLen 5 = 1 := by decide
  have hfl_len : e.wire.flatten.length = 1 + tlLen (Hd ++ P).length + (Hd.length + P.length) := by
    rw [hfl]; simp only [List.length_append, encTL_length, h5]
  have heq : e.wire.flatten = (encTL 5 ++ encTL (Hd ++ P).length ++ Hd) ++ P ++ [] := by
    rw [hfl]; simp only [List.append_assoc, List.append_nil]
  have hAl : (encTL 5 ++ encTL (Hd ++ P).length ++ Hd).length = e.wire.flatten.length - P.length := by
    rw [hfl_len]; simp only [List.length_append, encTL_length, h5]; omega
  obtain ⟨hk1, hk2⟩ := hreg
  rw [heq] at hlen hk hsame
  obtain ⟨P', hb', hP'l, hP'ne⟩ := splice_mid _ _ _ b' k hlen hk hsame (by rw [hAl]; exact hk1) (by rw [hAl]; omega)
  have hV' : (Hd ++ P').length = (Hd ++ P).length := by simp only [List.length_append, hP'l]
  have hb2 : b' = encTL 5 ++ encTL (Hd ++ P').length ++ (Hd ++ P') := by
    rw [hV', hb']; simp only [List.append_assoc, List.append_nil]
  rw [hb2] at hr
  obtain ⟨sub, s, as, hp, hchk, _⟩ := readInterest_single_ti R H r _ (by rw [hV']; omega) hr x hrd
  -- the Name is the original one
  obtain ⟨rest, hrest⟩ : ∃ rest, Hd ++ P' = encNameField 7 fn ++ rest :=
    ⟨_, by rw [hHd]; simp only [interestHead, List.append_assoc]; rfl⟩
  have hname : s.v.name = some fn :=
    parseInterest_name_ti R R2 E sub (Hd ++ P') rest fn s hrest hrdy.nameValid hrdy.nameLen as hp
  -- the head part is decoded as in the original
  obtain ⟨r7, q7, st7, hq7, a7, hd0, hdc, RH⟩ := head_reach_ti R E i fn e.sigVal hrdy (Hd ++ P') P' sub (by rw [hHd]) as
  rw [← hHd] at a7 RH
  have hK : K_ti (Hd ++ P') Hd.length 0 none st7 q7 Hd.length :=
    ⟨Nat.le_refl _, by omega, Or.inl hd0, fun _ => hdc, ⟨0, by simp [hdc], by omega⟩, Nat.zero_le _, fun h => by omega⟩
  obtain ⟨q', _, _, k3, _, ⟨n, k5, k5'⟩, _, _⟩ := parseInterest_from_ti R R2 (Hd ++ P') Hd.length 0 none sub s st7 q7 _ r7 as hp RH a7 hK
  -- what `checkInterest` demanded
  have hfn' : fn = stripDigest i.name ++ [digestComp (H P)] := by
    rw [hfn, hP]; unfold interestFinalName; rw [if_pos hap]
  obtain ⟨c, hc⟩ : ∃ c, i.ap = some c := by cases hi : i.ap with
    | none => simp [hi] at hap
    | some c => exact ⟨c, rfl⟩
  have hP36 : ∃ t, P = 36 :: t := by
    rw [hP]; simp [interestParamsPortion, hc, optB, encTL]
  unfold checkInterest at hchk
  rw [hname] at hchk
  simp only [] at hchk
  have hgl : fn.getLast? = some (digestComp (H P)) := by rw [hfn']; simp
  rw [hgl] at hchk
  simp only [] at hchk
  cases hsap : s.v.ap with
  | none => simp [hsap, digestComp] at hchk
  | some apv =>
    simp [hsap, digestComp] at hchk
    have hdP : s.digestCovered = P := hinj _ hchk.symm
    have hlenP : P.length = n := by
      have := congrArg List.length k5
      rw [hdP] at this
      simp only [List.length_take, List.length_drop] at this
      omega
    obtain ⟨t, ht⟩ := hP36
    rcases k3 with h0 | hlo
    · -- the start marker was never set: the range would begin with the Name element
      have hu : encNameField 7 fn ++ rest = 7 :: (encTL (nameLen fn) ++ encNameInner fn ++ rest) := by
        simp [encNameField, encTL_small_int]
      rw [h0, hdP, hrest, hu, ← hlenP, ht] at k5
      simp at k5
    · -- the start marker is at the end of the head: the range is the altered portion
      have hd : s.digestCoverStart = Hd.length := by
        simp only [List.length_append] at k5'; omega
      apply hP'ne
      rw [hd, hdP, List.drop_left, ← hlenP, ← hP'l, List.take_length] at k5
      exact k5.symm

/-! ### the covered name components (signed Interests) -/

/-- a successful name-component loop ends exactly at `en`; the reported start of the last
    ParametersSha256Digest component is the initial value or a component start inside the field -/
theorem nameLoop_pos_ti (R : ReaderSpecs) : ∀ (fuel : Nat) (r r' : Rd) (buf : Bytes) (p en : Nat) (acc n : Name) (s s' : Nat),
    At r buf p → nameLoop fuel r en acc s = .ok (n, s', r') → At r' buf en ∧ (s' = s ∨ (p ≤ s' ∧ s' < en)) := by
  intro fuel
  induction fuel with
  | zero =>
    intro r r' buf p en acc n s s' h e
    simp only [nameLoop, R.pos_eq r buf p h] at e
    split at e
    · cases e
    · rename_i hpe
      obtain ⟨_, rfl, rfl⟩ : acc = n ∧ s = s' ∧ r = r' := by simpa using e
      have : p = en := by omega
      subst this
      exact ⟨h, Or.inl rfl⟩
  | succ fuel ih =>
    intro r r' buf p en acc n s s' h e
    simp only [nameLoop, R.pos_eq r buf p h] at e
    split at e
    · split at e
      · cases e
      · rename_i hpe
        obtain ⟨_, rfl, rfl⟩ : acc = n ∧ s = s' ∧ r = r' := by simpa using e
        have : p = en := by omega
        subst this
        exact ⟨h, Or.inl rfl⟩
    · rename_i hlt
      obtain ⟨⟨t, r1⟩, e1, e2⟩ := bind_ok_inv e
      obtain ⟨k1, _, _, _, a1, _⟩ := readTL_gen R r r1 buf p t h e1
      simp only [] at e2
      obtain ⟨⟨l, r2⟩, e3, e4⟩ := bind_ok_inv e2
      obtain ⟨k2, _, _, _, a2, _⟩ := readTL_gen R r1 r2 buf _ l a1 e3
      simp only [] at e4
      obtain ⟨⟨v, r3⟩, e5, e6⟩ := bind_ok_inv e4
      obtain ⟨_, _, a3⟩ := readBuf_gen R r2 r3 buf _ l v a2 e5
      simp only [] at e6
      obtain ⟨a4, hs⟩ := ih r3 r' buf _ en _ n _ s' a3 e6
      refine ⟨a4, ?_⟩
      split at hs
      · rcases hs with hs | hs
        · exact Or.inr ⟨by omega, by omega⟩
        · exact Or.inr ⟨by omega, hs.2⟩
      · rcases hs with hs | hs
        · exact Or.inl hs
        · exact Or.inr ⟨by omega, hs.2⟩

/-- an Interest value that starts with a Name header (type 7, length `L`): a successful parse decoded
    the Name element first; the name part of the signed range is `V[p2, sigEnd)` with `sigEnd` inside
    the Name value, and the loop continues after the Name element with `progress` at slot 3 -/
theorem name_first_ti (R : ReaderSpecs) (V rest : Bytes) (L : Nat) (hL : L < 2 ^ 62)
    (hV : V = encTL 7 ++ (encTL L ++ rest)) (r0 : Rd) (h0 : At r0 V 0) (s : InterestSt)
    (hp : parseInterest {} r0 = .ok s) :
    ∃ (n' : Name) (sigEnd : Nat) (r3 : Rd), At r3 V (tlLen 7 + tlLen L + L)
      ∧ tlLen 7 + tlLen L ≤ sigEnd ∧ sigEnd ≤ tlLen 7 + tlLen L + L
      ∧ Reach V 0 (({} : InterestSt), 0) r0 (tlLen 7 + tlLen L + L)
          (({ v := { name := some n' },
              sigCovered := [] ++ (V.drop (tlLen 7 + tlLen L)).take (sigEnd - (tlLen 7 + tlLen L)) } : InterestSt), 3) r3 := by
  have hb : V.drop 0 = encTL 7 ++ (encTL L ++ rest) := by rw [hV]; rfl
  obtain ⟨r2, a2, l2, d2, hle2, e2⟩ := tlvLoop_step_int R interestBody (({} : InterestSt), 0) r0 V 0 7 L rest h0 hb (by omega) hL
  have hp' : (tlvLoop interestBody (loopFuel r0) (({} : InterestSt), 0) r0 >>=
      fun x => pure (ordFinish interestAbsent x.2 (15 - x.1.2) x.1.2 x.1.1)) = .ok s := hp
  obtain ⟨⟨⟨s1, q1⟩, r1⟩, e1, _⟩ := bind_ok_inv hp'
  have hfuel : loopFuel r0 = V.length + 1 := by
    simp [loopFuel, R.pos_eq r0 _ 0 h0, R.length_eq r0 _ 0 h0]
  have hbody := interestBody_hit 7 L 0 2 0 ({} : InterestSt) r2 (by decide) (by omega) (by omega)
  rw [hfuel, e2 V.length, hbody, Res.bind_assoc_int] at e1
  obtain ⟨⟨st1, r3⟩, eh, _⟩ := bind_ok_inv e1
  rw [absFold_head _ _ _ _ _ (by omega)] at eh
  have eh0 := eh
  simp only [interestHandle, ↓reduceIte, R.pos_eq r2 _ _ a2] at eh
  obtain ⟨⟨n', sigEnd, r3'⟩, en, e3⟩ := bind_ok_inv eh
  simp only [readNameField] at en
  obtain ⟨_, _, enl⟩ := bind_ok_inv en
  simp only [R.pos_eq r2 _ _ a2] at enl
  obtain ⟨a3, hs⟩ := nameLoop_pos_ti R _ r2 r3' V _ _ [] n' _ sigEnd a2 enl
  simp at e3
  obtain ⟨rfl, rfl⟩ := e3
  rw [Nat.zero_add] at a3 hs a2
  have hse : tlLen 7 + tlLen L ≤ sigEnd ∧ sigEnd ≤ tlLen 7 + tlLen L + L := by
    rcases hs with hs | hs <;> omega
  refine ⟨n', sigEnd, r3', a3, hse.1, hse.2, ?_⟩
  rw [← R.range_eq r3' V _ _ _ a3 hse.1 (by have := a3.2.2; omega)]
  intro fuel hf
  cases fuel with
  | zero => omega
  | succ f =>
    refine ⟨f, by have := tlLen_pos 7; omega, ?_⟩
    rw [e2 f, hbody, Res.bind_assoc_int, absFold_head _ _ _ _ _ (by omega), eh0]
    rfl

/-- the head elements after the Name (CanBePrefix … HopLimit) of a built Interest, decoded on any
    buffer that carries those bytes after a Name element that decoded to some name `n'` -/
theorem head_rest_reach_ti (R : ReaderSpecs) (E : EncSpecs) (i : InterestIn) (fn : Name) (sv : Bytes)
    (hr : InterestReady i fn sv) (buf rest : Bytes) (r0 r1 : Rd) (p1 : Nat) (n' : Name) (X : Bytes)
    (a1 : At r1 buf p1)
    (d1 : buf.drop p1 = boolField 33 i.cbp ++ (boolField 18 i.mbf
      ++ (optB i.fh (fun ns => encTL 30 ++ encTL (linksLen ns) ++ encLinks ns)
      ++ (optB i.nonce encNonce ++ (optB i.lt (encNatField 12) ++ (optB i.hl encHopLimit ++ rest))))))
    (R1 : Reach buf 0 (({} : InterestSt), 0) r0 p1 (({ v := { name := some n' }, sigCovered := X } : InterestSt), 3) r1) :
    ∃ r7 q7 p7 v7, q7 ≤ 9 ∧ At r7 buf p7 ∧ buf.drop p7 = rest ∧ v7.ap = none ∧ v7.si = none ∧ v7.sv = none
      ∧ Reach buf 0 (({} : InterestSt), 0) r0 p7 (({ v := v7, sigCovered := X } : InterestSt), q7) r7 := by
  obtain ⟨r2, q2, hq2, a2, d2, R2⟩ := el_cbp R i.cbp
    ({ v := { name := some n' }, sigCovered := X } : InterestSt) (q := 3) a1 d1 (by omega) rfl
  obtain ⟨r3, q3, hq3, a3, d3, R3⟩ := el_mbf R i.mbf
    ({ v := { name := some n', cbp := i.cbp }, sigCovered := X } : InterestSt) a2 d2 hq2 rfl
  obtain ⟨r4, q4, hq4, a4, d4, R4⟩ := el_fh R E i.fh
    ({ v := { name := some n', cbp := i.cbp, mbf := i.mbf }, sigCovered := X } : InterestSt) rfl a3 d3
    hr.fhValid hr.fhLen hq3 rfl
  obtain ⟨r5, q5, hq5, a5, d5, R5⟩ := el_nonce R i.nonce
    ({ v := { name := some n', cbp := i.cbp, mbf := i.mbf, fh := i.fh }, sigCovered := X } : InterestSt) a4 d4
    hr.nonce hq4 rfl
  obtain ⟨r6, q6, hq6, a6, d6, R6⟩ := el_lt R i.lt
    ({ v := { name := some n', cbp := i.cbp, mbf := i.mbf, fh := i.fh, nonce := i.nonce }, sigCovered := X } : InterestSt)
    a5 d5 hr.lt hq5 rfl
  obtain ⟨r7, q7, hq7, a7, d7, R7⟩ := el_hl R i.hl
    ({ v := { name := some n', cbp := i.cbp, mbf := i.mbf, fh := i.fh, nonce := i.nonce, lt := i.lt },
       sigCovered := X } : InterestSt) a6 d6 hr.hl hq6 rfl
  exact ⟨r7, q7, _, _, hq7, a7, d7, rfl, rfl, rfl, R1.trans (R2.trans (R3.trans (R4.trans (R5.trans (R6.trans R7)))))⟩

/-- Tamper detection for the name of a SIGNED Interest: `b'` has the length of the built Interest and
    agrees with it everywhere except at byte `k`, which lies in the name components covered by the
    signature (the bytes of `encNameInner (stripDigest i.name)` inside the Name element).  Then for every
    healthy reader over `b'`: decoding fails, or the signed portion reported by the decoder differs from
    the bytes handed to the signer — a validator that accepts exactly the original
    (signed portion, signature value) pair rejects.  (The parameters digest does not cover the name;
    this is the signature's job.) -/
theorem bitflip_detected_interest_name (R : ReaderSpecs) (E : EncSpecs) (S : SigInfoParseSpec)
    (i : InterestIn) (sign H : Bytes → Bytes) (e : Encoded) (fn : Name)
    (hv : i.Valid) (hH : ∀ x, (H x).length = 32) (hm : makeInterest i sign H = .ok (e, fn)) (hest : i.est > 0)
    (b' : Bytes) (k : Nat) (hlen : b'.length = e.wire.flatten.length)
    (hk : b'.getD k 0 ≠ e.wire.flatten.getD k 0) (hsame : ∀ j, j ≠ k → b'.getD j 0 = e.wire.flatten.getD j 0)
    (hreg : 1 + tlLen (interestValue i fn e.sigVal).length + 1 + tlLen (nameLen fn) ≤ k
      ∧ k < 1 + tlLen (interestValue i fn e.sigVal).length + 1 + tlLen (nameLen fn)
            + (encNameInner (stripDigest i.name)).length)
    (r : Rd) (hr : At r b' 0) (p : InterestP) (cov : Bytes) :
    readInterest H r = .ok (p, cov) → ¬ (cov = interestCovered i ∧ p.sv = some e.sigVal) := by
  intro hrd
  obtain ⟨hfn, hfl, _, _⟩ := E.makeInterest_flatten i sign H e fn hv hH hm
  obtain ⟨hrdy, hL⟩ := interestReady_of_int E i sign H e fn hv hH hm
  have hap : i.ap.isSome := hrdy.est hest
  obtain ⟨P, hP⟩ : ∃ P, P = interestParamsPortion i e.sigVal := ⟨_, rfl⟩
  obtain ⟨M, hM⟩ : ∃ M, M = encNameInner (stripDigest i.name) := ⟨_, rfl⟩
  obtain ⟨D, hD⟩ : ∃ D, D = encNameInner [digestComp (H P)] := ⟨_, rfl⟩
  obtain ⟨HR, hHR⟩ : ∃ HR, HR = boolField 33 i.cbp ++ (boolField 18 i.mbf
      ++ (optB i.fh (fun ns => encTL 30 ++ encTL (linksLen ns) ++ encLinks ns)
      ++ (optB i.nonce encNonce ++ (optB i.lt (encNatField 12) ++ (optB i.hl encHopLimit ++ P))))) := ⟨_, rfl⟩
  obtain ⟨L, hLdef⟩ : ∃ L, L = nameLen fn := ⟨_, rfl⟩
  have hfn' : fn = stripDigest i.name ++ [digestComp (H P)] := by
    rw [hfn, hP]; unfold interestFinalName; rw [if_pos hap]
  have hinner : encNameInner fn = M ++ D := by rw [hfn', hM, hD, encNameInner_append_int]
  have hLlen : L = M.length + D.length := by
    rw [hLdef, ← E.nameLen_eq, hinner, List.length_append]
  have hVeq : interestValue i fn e.sigVal = encTL 7 ++ (encTL L ++ (M ++ (D ++ HR))) := by
    rw [hHR, hP, hLdef]
    simp only [interestValue, interestHead, encNameField, hinner, List.append_assoc]
  obtain ⟨V, hVdef⟩ : ∃ V, V = interestValue i fn e.sigVal := ⟨_, rfl⟩
  rw [← hVdef] at hfl hL hreg hVeq
  rw [← hLdef, ← hM] at hreg
  have h5 : tlLen 5 = 1 := by decide
  have h7 : tlLen 7 = 1 := by decide
  have heq : e.wire.flatten = (encTL 5 ++ encTL V.length ++ encTL 7 ++ encTL L) ++ M ++ (D ++ HR) := by
    rw [hfl]; conv => lhs; rhs; rw [hVeq]
    simp only [List.append_assoc]
  have hAl : (encTL 5 ++ encTL V.length ++ encTL 7 ++ encTL L).length = 1 + tlLen V.length + 1 + tlLen L := by
    simp only [List.length_append, encTL_length, h5, h7]
  obtain ⟨hk1, hk2⟩ := hreg
  rw [heq] at hlen hk hsame
  obtain ⟨M', hb', hM'l, hM'ne⟩ := splice_mid _ _ _ b' k hlen hk hsame (by rw [hAl]; exact hk1) (by rw [hAl]; exact hk2)
  obtain ⟨V', hV'def⟩ : ∃ V', V' = encTL 7 ++ (encTL L ++ (M' ++ (D ++ HR))) := ⟨_, rfl⟩
  have hV'len : V'.length = V.length := by
    rw [hV'def, hVeq]; simp only [List.length_append, hM'l]
  have hb2 : b' = encTL 5 ++ encTL V'.length ++ V' := by
    rw [hV'len, hb', hV'def]; simp only [List.append_assoc]
  rw [hb2] at hr
  obtain ⟨sub, s, as, hp, _, hx⟩ := readInterest_single_ti R H r V' (by omega) hr (p, cov) hrd
  obtain ⟨rfl, rfl⟩ : p = s.v ∧ cov = s.sigCovered := by simpa using hx
  -- the Name element of the altered value
  have hLlt : L < 2 ^ 62 := by rw [hLdef]; exact hrdy.nameLen
  obtain ⟨n', sigEnd, r3, a3, hse1, hse2, R1⟩ := name_first_ti R V' _ L hLlt hV'def sub as s hp
  have hp2 : V'.drop (tlLen 7 + tlLen L) = M' ++ (D ++ HR) := by
    rw [hV'def, ← List.append_assoc]
    exact List.drop_left' (by simp only [List.length_append, encTL_length])
  have hd1 : V'.drop (tlLen 7 + tlLen L + L) = HR := by
    rw [← List.drop_drop, hp2, ← List.append_assoc]
    exact List.drop_left' (by simp only [List.length_append]; omega)
  rw [hHR] at hd1
  -- the rest is decoded as in the original
  obtain ⟨r7, q7, p7, v7, hq7, a7, d7, hv1, hv2, hv3, RH⟩ := head_rest_reach_ti R E i fn e.sigVal hrdy V' P sub r3 _ n' _ a3 hd1 R1
  rw [hP] at d7
  obtain ⟨fs, efs, _, _, hcov⟩ := tail_at R E S i fn e.sigVal hrdy as a7 d7 hq7 RH hv1 hv2 hv3
  rw [hp] at efs
  obtain rfl : s = fs := by simpa using efs
  rintro ⟨hc, _⟩
  rw [hcov hest] at hc
  unfold interestCovered at hc
  rw [← hM] at hc
  simp only [List.append_assoc, List.nil_append] at hc
  have hX := List.append_cancel_right hc
  have hXl := congrArg List.length hX
  simp only [List.length_take, List.length_drop] at hXl
  have hVl : tlLen 7 + tlLen L + L ≤ V'.length := a3.2.2
  have hsz : sigEnd - (tlLen 7 + tlLen L) = M'.length := by omega
  rw [hsz, hp2, List.take_left' rfl] at hX
  exact hM'ne hX

/-! ### the theorems for every healthy reader (BufferReader, or WireReader over any segmentation) -/

theorem parseInterest_digest_all (r : Rd) (V : Bytes) (s : InterestSt) :
    At r V 0 → parseInterest {} r = .ok s →
    ∃ n, s.digestCoverStart + n ≤ V.length ∧ s.digestCovered = (V.drop s.digestCoverStart).take n :=
  parseInterest_digest readerSpecs readerSpecs2 r V s

theorem bitflip_detected_interest_digest_all (E : EncSpecs)
    (i : InterestIn) (sign H : Bytes → Bytes) (e : Encoded) (fn : Name)
    (hv : i.Valid) (hH : ∀ x, (H x).length = 32) (hm : makeInterest i sign H = .ok (e, fn)) (hap : i.ap.isSome)
    (hinj : ∀ x, H x = H (interestParamsPortion i e.sigVal) → x = interestParamsPortion i e.sigVal)
    (b' : Bytes) (k : Nat) (hlen : b'.length = e.wire.flatten.length)
    (hk : b'.getD k 0 ≠ e.wire.flatten.getD k 0) (hsame : ∀ j, j ≠ k → b'.getD j 0 = e.wire.flatten.getD j 0)
    (hreg : e.wire.flatten.length - (interestParamsPortion i e.sigVal).length ≤ k ∧ k < e.wire.flatten.length)
    (r : Rd) (hr : At r b' 0) : ∀ x, readInterest H r ≠ .ok x :=
  bitflip_detected_interest_digest readerSpecs readerSpecs2 E i sign H e fn hv hH hm hap hinj b' k hlen hk hsame hreg r hr

theorem bitflip_detected_interest_name_all (E : EncSpecs)
    (i : InterestIn) (sign H : Bytes → Bytes) (e : Encoded) (fn : Name)
    (hv : i.Valid) (hH : ∀ x, (H x).length = 32) (hm : makeInterest i sign H = .ok (e, fn)) (hest : i.est > 0)
    (b' : Bytes) (k : Nat) (hlen : b'.length = e.wire.flatten.length)
    (hk : b'.getD k 0 ≠ e.wire.flatten.getD k 0) (hsame : ∀ j, j ≠ k → b'.getD j 0 = e.wire.flatten.getD j 0)
    (hreg : 1 + tlLen (interestValue i fn e.sigVal).length + 1 + tlLen (nameLen fn) ≤ k
      ∧ k < 1 + tlLen (interestValue i fn e.sigVal).length + 1 + tlLen (nameLen fn)
            + (encNameInner (stripDigest i.name)).length)
    (r : Rd) (hr : At r b' 0) (p : InterestP) (cov : Bytes) :
    readInterest H r = .ok (p, cov) → ¬ (cov = interestCovered i ∧ p.sv = some e.sigVal) :=
  bitflip_detected_interest_name readerSpecs E (parseSigInfo_at readerSpecs E) i sign H e fn hv hH hm hest
    b' k hlen hk hsame hreg r hr p cov

/-! ### notes: why `parseInterest_digest` is stated for a range, not for a suffix

  The digest-covered range is `V[digestCoverStart, digestCoverStart + n)`; it is NOT on all input the
  suffix of the Interest value that starts at the ApplicationParameters element: a KNOWN element that
  arrives out of order after ApplicationParameters (its slot is already behind `progress`) makes the
  `progress` loop run all remaining absent-actions, the slot-14 action among them, with the start of
  THAT element as the end of the range (and consumes nothing).  Interest value
  `07 25 | 08 01 61 | 02 20 SHA256(24 03 01 02 03) || 24 03 01 02 03 || 0a 00`
  (Name /a/params-sha256=e6a19fa8…, ApplicationParameters 010203, then an empty Nonce element) is accepted
  by the model's `readInterest Sha.sha256` AND by the Go decoder (`spec.Spec{}.ReadInterest` of the checked
  tree): the digest covers the ApplicationParameters element only, the trailing element is ignored
  (`nonce = none`).  So a `parseInterest_digest_suffix` does not hold, for the model and for the code alike.

  (With the parser model of before the re-sync — unknown non-critical elements consumed a slot — there
  were two more cases, an empty range and a start marker left at 0; both are gone: the two packets found
  then, `… || 24 03 01 02 03 || 26 00 || 26 00 || 26 00` and `… || 24 03 09 09 09 || 2c 03 1b 01 00 ||
  2e 02 07 07 || 26 00` with digest component SHA256(""), are rejected by the re-synced model, as they are
  by the Go decoder.)

  None of this affects `bitflip_detected_interest_digest`: the hash of whatever range is compared would
  have to collide with the original digest input (`hinj`), and a range of the right length that starts at
  or after the end of the unchanged head part is the altered portion itself. -/

end Ndn.C12
