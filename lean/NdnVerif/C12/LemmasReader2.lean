/-
  C12/LemmasReader2.lean — the out-of-range `Delegate` fact (the field of `ReaderSpecs2`, defined in
  LemmasTamper.lean) for both readers: a `Delegate(l)` whose length runs past the end of the logical
  buffer returns the parent unchanged.  Depends only on the C03 reader lemmas.
-/
import NdnVerif.C03.LemmasReader
namespace Ndn.C12
open Ndn.C03

theorem buf_delegate_oob (b : BufR) (buf : Bytes) (p l : Nat) (sub r' : Rd) (h : At (.buf b) buf p)
    (hl : p + l > buf.length) (e : (Rd.buf b).delegate l = .ok (sub, r')) : ∃ p', p ≤ p' ∧ At r' buf p' := by
  obtain ⟨rfl, hp⟩ := (at_buf_iff _ _ _).1 h
  simp [Rd.delegate, BufR.delegate, hl] at e
  obtain ⟨_, rfl⟩ := e
  exact ⟨p, Nat.le_refl _, h⟩

theorem wire_delegate_oob (w : WireR) (buf : Bytes) (p l : Nat) (sub r' : Rd) (h : At (.wire w) buf p)
    (hl : p + l > buf.length) (e : (Rd.wire w).delegate l = .ok (sub, r')) : ∃ p', p ≤ p' ∧ At r' buf p' := by
  obtain ⟨_, _, _, _, h5⟩ := at_wire_dest h
  obtain ⟨_, _, _, hb4⟩ := at_wire_buf h
  have hn : ¬ (w.absPos + l ≤ w.wire.flatten.length) := fun hh => by have := (hb4 l).2 hh; omega
  have hg : w.seg ≥ w.wire.length ∨ l > w.absLength - w.absPos :=
    Or.inr (by rw [WireR.absLength_eq]; omega)
  simp only [Rd.delegate, WireR.delegate, if_pos hg, Res.bind_ok, Res.pure_eq, Res.ok.injEq, Prod.mk.injEq] at e
  obtain ⟨_, rfl⟩ := e
  exact ⟨p, Nat.le_refl _, h⟩

/-- exactly the statement of `ReaderSpecs2.delegate_oob` -/
theorem rd_delegate_oob : ∀ (r : Rd) (buf : Bytes) (p l : Nat) (sub r' : Rd), At r buf p → p + l > buf.length →
    r.delegate l = .ok (sub, r') → ∃ p', p ≤ p' ∧ At r' buf p' := by
  intro r buf p l sub r' h hl e
  cases r with
  | buf b => exact buf_delegate_oob b buf p l sub r' h hl e
  | wire w => exact wire_delegate_oob w buf p l sub r' h hl e

end Ndn.C12
