/-
  C12/LemmasC12.lean — C12 statements assembled from the proof files, parameterised by `E : EncSpecs`.
-/
import NdnVerif.C12.Spec
import NdnVerif.C12.LemmasTamperRd
import NdnVerif.C03.LemmasFinal
namespace Ndn.C12
open Ndn.C03

section
variable (E : EncSpecs)
include E

/-- Data: the signed portion reported by the parser is the byte string handed to the signer, the
    signature value and type come back, so a correct validator accepts — for every healthy reader
    (contiguous or any segmentation) -/
theorem covered_enc_eq_dec_data_E (sch : Scheme) (hc : sch.Correct) (d : DataIn) (e : Encoded) (r : Rd)
    (hv : d.Valid) (hest : d.est > 0) (hm : makeData d sch.sign = .ok e) (hr : At r e.wire.flatten 0) :
    ∃ p cov, readData r = .ok (p, cov) ∧ e.sigCovered = some cov ∧ p.sv = some (sch.sign cov)
      ∧ p.si = d.si ∧ ∀ t, (d.si.map (·.typ)) = some t → verdict sch t (p.si.map (·.typ)) cov p.sv = true := by
  obtain ⟨cov, h1, h2, _⟩ := readData_makeData_E E d sch.sign e r hv hm hr
  obtain ⟨_, hs, _⟩ := E.makeData_flatten d sch.sign e hv hm
  obtain ⟨hsv, hsc, _⟩ := hs hest
  have hcov : cov = dataCovered d := by
    have := h2 hest; rw [hsc] at this; injection this with h; exact h.symm
  refine ⟨_, cov, h1, h2 hest, ?_, rfl, ?_⟩
  · simp [dataExpect, hest, hsv, hcov]
  · intro t ht
    simp [verdict, dataExpect, ht, hest, hsv, hcov, hc (dataCovered d)]

theorem covered_enc_eq_dec_interest_E (sch : Scheme) (hc : sch.Correct) (i : InterestIn) (H : Bytes → Bytes) (e : Encoded)
    (fn : Name) (r : Rd) (hv : i.Valid) (hH : ∀ x, (H x).length = 32) (hest : i.est > 0)
    (hm : makeInterest i sch.sign H = .ok (e, fn)) (hr : At r e.wire.flatten 0) :
    ∃ p cov, readInterest H r = .ok (p, cov) ∧ e.sigCovered = some cov ∧ p.sv = some (sch.sign cov)
      ∧ p.si = i.si ∧ ∀ t, (i.si.map (·.typ)) = some t → verdict sch t (p.si.map (·.typ)) cov p.sv = true := by
  have hnt : NoTrailingDigest i := by
    intro hnone; have := hv.2.2.2.2.2.2.1 hest; simp [hnone] at this
  obtain ⟨cov, h1, h2⟩ := readInterest_makeInterest_E E i sch.sign H e fn r hv hnt hH hm hr
  obtain ⟨_, _, hs, _⟩ := E.makeInterest_flatten i sch.sign H e fn hv hH hm
  obtain ⟨hsv, hsc, _⟩ := hs hest
  have hcov : cov = interestCovered i := by
    have := h2 hest; rw [hsc] at this; injection this with h; exact h.symm
  refine ⟨_, cov, h1, h2 hest, ?_, rfl, ?_⟩
  · simp [interestExpect, hest, hsv, hcov]
  · intro t ht
    simp [verdict, interestExpect, ht, hest, hsv, hcov, hc (interestCovered i)]

/-- an Interest built with parameters carries, as its last name component, the SHA-256 of exactly
    the bytes from the ApplicationParameters element to the end of the Interest; and decoding
    accepts it -/
theorem params_digest_correct_E (i : InterestIn) (sign H : Bytes → Bytes) (e : Encoded) (fn : Name)
    (hv : i.Valid) (hH : ∀ x, (H x).length = 32) (hap : i.ap.isSome) (hm : makeInterest i sign H = .ok (e, fn)) :
    fn.getLast? = some ⟨2, H (interestParamsPortion i e.sigVal)⟩
    ∧ (∃ pre, e.wire.flatten = pre ++ interestParamsPortion i e.sigVal)
    ∧ ∀ r, At r e.wire.flatten 0 → ∃ p cov, readInterest H r = .ok (p, cov) ∧ p.name = some fn := by
  obtain ⟨hfn, hfl, _, _⟩ := E.makeInterest_flatten i sign H e fn hv hH hm
  refine ⟨?_, ?_, ?_⟩
  · rw [hfn]; simp [interestFinalName, hap, digestComp]
  · exact ⟨encTL 5 ++ encTL (interestValue i fn e.sigVal).length ++ interestHead i fn,
      by rw [hfl]; simp [interestValue, List.append_assoc]⟩
  · intro r hr
    have hnt : NoTrailingDigest i := by
      intro hnone; simp [hnone] at hap
    obtain ⟨cov, h1, _⟩ := readInterest_makeInterest_E E i sign H e fn r hv hnt hH hm hr
    exact ⟨_, cov, h1, rfl⟩

end

/-- an Interest whose parameters digest does not match is rejected by the decoder's check,
    whatever else it contains -/
theorem bad_digest_rejected_thm (H : Bytes → Bytes) (s : InterestSt) (hap : s.v.ap.isSome)
    (hbad : ∀ n c, s.v.name = some n → n.getLast? = some c → c.val ≠ H s.digestCovered) :
    checkInterest H s = false := by
  unfold checkInterest
  cases hn : s.v.name with
  | none => rfl
  | some n =>
    have hap' : s.v.ap.isNone = false := by
      cases h : s.v.ap <;> simp [h] at hap ⊢
    simp only [hap', hap, Bool.false_eq_true, and_false, ↓reduceIte]
    cases hl : n.getLast? with
    | none => rfl
    | some c => simp [hbad n c hn hl]

/-- … and `ReadInterest` applies that check to what it parsed: a packet whose Interest value is the
    normal form of `i` but carries ANY other 32-byte value `v` in the digest component is rejected -/
theorem bad_digest_rejected_packet (E : EncSpecs) (i : InterestIn) (H : Bytes → Bytes) (sv v : Bytes) (r : Rd)
    (hap : i.ap.isSome) (hv : v ≠ H (interestParamsPortion i sv))
    (hr : InterestReady i (stripDigest i.name ++ [⟨2, v⟩]) sv)
    (h : At r (interestValue i (stripDigest i.name ++ [⟨2, v⟩]) sv) 0) :
    ∃ fs, parseInterest {} r = .ok fs ∧ checkInterest H fs = false := by
  obtain ⟨fs, h1, h2, h3, _⟩ := parseInterest_at readerSpecs E (parseSigInfo_at readerSpecs E) i _ sv r hr h
  refine ⟨fs, h1, bad_digest_rejected_thm H fs ?_ ?_⟩
  · rw [h2]; simpa [interestExpect] using hap
  · intro n c hn hl
    rw [h2] at hn
    simp [interestExpect] at hn
    subst hn
    simp at hl
    rw [← hl, h3 hap]
    exact hv

end Ndn.C12
