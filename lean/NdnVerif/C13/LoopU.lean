/-
  C13/LoopU.lean — the UNORDERED generated parse loop (`loopU` of Model.lean) meets `LoopSpec`:
  on a well-formed element stream (one group of items/junk per slot, in slot order) it skips the
  junk, hands every item to its slot and ends with `expected slots groups`.

  Proof: `loop_groups` (outer induction over the slots not yet reached, `slots = pre ++ post`, the
  accumulator is `A ++ initAcc post` with `A` final for `pre`) over `loop_group` (inner induction
  over the elements of one group, in continuation style so that neither fuel nor the allocation
  counters have to be composed).
  Core Lean only.
-/
import NdnVerif.C13.LoopSpec
namespace Ndn.C13
namespace LU

/-! ## small facts -/

theorem Res.bind_ok_of {α β : Type} {r : Res α} {f : α → Res β} {x : α} {n : Nat} {y : β} {m : Nat}
    (h1 : r = .ok x n) (h2 : f x = .ok y m) : r.bind f = .ok y (n + m) := by
  subst h1; simp [Res.bind, h2]

theorem Vals.append_assoc : ∀ (a b c : Vals), (a.append b).append c = a.append (b.append c)
  | .nil, b, c => by simp [Vals.append]
  | .cons v a, b, c => by simp [Vals.append, Vals.append_assoc a b c]

theorem Vals.append_nil : ∀ (a : Vals), a.append .nil = a
  | .nil => by simp [Vals.append]
  | .cons v a => by simp [Vals.append, Vals.append_nil a]

theorem tlLen_pos (x : Nat) : 1 ≤ tlLen x := by
  unfold tlLen; repeat' split
  all_goals omega

theorem encTL_append_ne_nil (x : Nat) (R : Bytes) : encTL x ++ R ≠ [] := by
  intro h
  have h1 := congrArg List.length h
  have h2 := tlLen_pos x
  rw [List.length_append, encTL_length] at h1
  simp at h1; omega

theorem skipN_app (body R : Bytes) (h : body.length < 2 ^ 63) :
    skipN body.length (body ++ R) = .ok R 0 := by
  have h1 : ¬ goInt body.length < 0 := by
    unfold goInt
    have h2 : body.length % 2 ^ 64 = body.length := Nat.mod_eq_of_lt (by omega)
    rw [h2, if_pos h]; omega
  simp [skipN, h1]

/-! ## one dispatch -/

/-- an element of a type number no slot knows falls through every `case` -/
theorem stepU_unknown (typ l : Nat) (ic : Bool) (r : Bytes) :
    ∀ (slots : List Slot) (acc : Vals), knownTyp slots typ = false →
      stepU slots typ l ic r acc = .ok none 0
  | [], acc, _ => by simp [stepU]
  | s :: ss, acc, h => by
    simp only [knownTyp, List.any_cons, Bool.or_eq_false_iff] at h
    have ih := stepU_unknown typ l ic r ss acc.tail (by simpa [knownTyp] using h.2)
    simp only [stepU]
    rw [if_neg (by rw [h.1]; exact Bool.false_ne_true), ih]
    simp [Res.bind]

/-- an element of the type number of slot `s` (the first slot with that number) is read by the
    reader of `s` and merged at the position of `s`; nothing else changes -/
theorem stepU_at (s : Slot) (typ l : Nat) (ic : Bool) (r r' : Bytes) (v : Val) (a : Nat)
    (cur : Val) (B : Vals) (post : List Slot)
    (hm : (s.hasTyp && s.typ == typ) = true) (hr : s.read l ic r = .ok (v, r') a) :
    ∀ (pre : List Slot) (A : Vals), A.length = pre.length →
      (∀ p ∈ pre, (p.hasTyp && p.typ == typ) = false) →
      stepU (pre ++ s :: post) typ l ic r (A.append (.cons cur B)) =
        .ok (some (A.append (.cons (merge s.multi cur v) B), r')) a
  | [], A, hA, _ => by
    cases A with
    | nil =>
      simp only [List.nil_append, stepU]
      rw [if_pos hm, hr]
      simp [Res.bind, Vals.head, Vals.tail, Vals.append]
    | cons _ _ => simp [Vals.length] at hA
  | p :: pre, A, hA, hp => by
    cases A with
    | nil => simp [Vals.length] at hA
    | cons x A =>
      have hp0 := hp p (by simp)
      have ih := stepU_at s typ l ic r r' v a cur B post hm hr pre A
        (by simpa [Vals.length] using hA) (fun q hq => hp q (by simp [hq]))
      simp only [List.cons_append, stepU]
      rw [if_neg (by rw [hp0]; exact Bool.false_ne_true)]
      simp only [Vals.append, Vals.head, Vals.tail, ih]
      simp [Res.bind]

/-- distinct type numbers: no slot before `s` has a `case` for the number of `s` -/
theorem distinct_nomatch (s : Slot) (post : List Slot) (hs : s.hasTyp = true) :
    ∀ pre : List Slot, DistinctTyps (pre ++ s :: post) →
      ∀ p ∈ pre, (p.hasTyp && p.typ == s.typ) = false
  | [], _, p, hp => by simp at hp
  | q :: pre, hd, p, hp => by
    simp only [List.cons_append, DistinctTyps] at hd
    rcases List.mem_cons.1 hp with rfl | hp'
    · cases hq : p.hasTyp with
      | false => simp
      | true =>
        have h1 := hd.1 hq s (by simp) hs
        simp only [Bool.true_and, beq_eq_false_iff_ne, ne_eq]
        intro h; exact h1 h.symm
    · exact distinct_nomatch s post hs pre hd.2 p hp'

/-! ## one iteration of the loop -/

theorem loop_item (slots : List Slot) (ic : Bool) (f typ l : Nat) (body R : Bytes)
    (acc acc' X : Vals) (a : Nat) (ht : typ < 2 ^ 64) (hl : l < 2 ^ 64)
    (hstep : stepU slots typ l ic (body ++ R) acc = .ok (some (acc', R)) a)
    (hk : ∃ a', loopU slots ic f R acc' = .ok X a') :
    ∃ a'', loopU slots ic (f + 1) (encTL typ ++ (encTL l ++ (body ++ R))) acc = .ok X a'' := by
  obtain ⟨a', hk⟩ := hk
  refine ⟨a + a', ?_⟩
  rw [loopU, if_neg (encTL_append_ne_nil _ _)]
  simp only [decTL_encTL typ ht, decTL_encTL l hl]
  exact Res.bind_ok_of hstep hk

theorem loop_junk (slots : List Slot) (ic : Bool) (f t : Nat) (body R : Bytes) (acc X : Vals)
    (ht : t < 2 ^ 64) (hb : body.length < 2 ^ 63) (hu : knownTyp slots t = false)
    (hc : ic = true ∨ critical t = false)
    (hk : ∃ a', loopU slots ic f R acc = .ok X a') :
    ∃ a'', loopU slots ic (f + 1) (encTL t ++ (encTL body.length ++ (body ++ R))) acc = .ok X a'' := by
  obtain ⟨a', hk⟩ := hk
  refine ⟨0 + (0 + a'), ?_⟩
  rw [loopU, if_neg (encTL_append_ne_nil _ _)]
  simp only [decTL_encTL t ht, decTL_encTL body.length (by omega : body.length < 2 ^ 64)]
  refine Res.bind_ok_of (stepU_unknown t body.length ic (body ++ R) slots acc hu) ?_
  have hc' : ¬ (!ic && critical t) = true := by
    rcases hc with h | h <;> simp [h]
  show (if (!ic && critical t) = true then _ else _) = _
  rw [if_neg hc']
  exact Res.bind_ok_of (skipN_app body R hb) hk

/-! ## one group, then all groups -/

/-- the elements of the group of slot `s` (at position `pre.length`): junk is skipped, items are
    merged into the value of `s`; continuation style -/
theorem loop_group (slots pre post : List Slot) (s : Slot) (ic : Bool)
    (hs : slots = pre ++ s :: post)
    (hnm : s.hasTyp = true → ∀ p ∈ pre, (p.hasTyp && p.typ == s.typ) = false)
    (A B : Vals) (hA : A.length = pre.length) (R : Bytes) (X : Vals) :
    ∀ (todo : List El) (cur : Val), (∀ e ∈ todo, ElOk slots ic s e) →
      (∀ f, R.length < f → ∃ a, loopU slots ic f R
          (A.append (.cons ((itemVals todo).foldl (merge s.multi) cur) B)) = .ok X a) →
      ∀ f, (groupBytes s.typ todo ++ R).length < f →
        ∃ a, loopU slots ic f (groupBytes s.typ todo ++ R) (A.append (.cons cur B)) = .ok X a
  | [], cur, _, hk, f, hf => by
    simp only [groupBytes, List.flatMap_nil, List.nil_append] at hf ⊢
    exact hk f hf
  | e :: todo, cur, hok, hk, f, hf => by
    have hok' : ∀ e ∈ todo, ElOk slots ic s e := fun e he => hok e (by simp [he])
    have he := hok e (by simp)
    have hbytes : groupBytes s.typ (e :: todo) ++ R
        = El.bytes s.typ e ++ (groupBytes s.typ todo ++ R) := by
      simp [groupBytes, List.flatMap_cons, List.append_assoc]
    rw [hbytes] at hf ⊢
    cases e with
    | junk t body =>
      obtain ⟨ht, hb, hu, hc⟩ := he
      have hb1 : El.bytes s.typ (.junk t body) ++ (groupBytes s.typ todo ++ R)
          = encTL t ++ (encTL body.length ++ (body ++ (groupBytes s.typ todo ++ R))) := by
        simp [El.bytes, tlv, List.append_assoc]
      rw [hb1] at hf ⊢
      have hpos := tlLen_pos t
      simp only [List.length_append, encTL_length] at hf
      obtain ⟨f', rfl⟩ : ∃ f', f = f' + 1 := ⟨f - 1, by omega⟩
      have ih := loop_group slots pre post s ic hs hnm A B hA R X todo cur hok'
        (by simpa [itemVals] using hk) f' (by simp only [List.length_append]; omega)
      exact loop_junk slots ic f' t body _ _ X ht hb hu hc ih
    | item l body v =>
      obtain ⟨hty, ht, hl, hread, _⟩ := he
      have hb1 : El.bytes s.typ (.item l body v) ++ (groupBytes s.typ todo ++ R)
          = encTL s.typ ++ (encTL l ++ (body ++ (groupBytes s.typ todo ++ R))) := by
        simp [El.bytes, List.append_assoc]
      rw [hb1] at hf ⊢
      have hpos := tlLen_pos s.typ
      simp only [List.length_append, encTL_length] at hf
      obtain ⟨f', rfl⟩ : ∃ f', f = f' + 1 := ⟨f - 1, by omega⟩
      obtain ⟨a, hr⟩ := hread (groupBytes s.typ todo ++ R)
      have hm : (s.hasTyp && s.typ == s.typ) = true := by simp [hty]
      have hstep := stepU_at s s.typ l ic _ _ v a cur B post hm hr pre A hA (hnm hty)
      rw [← hs] at hstep
      have ih := loop_group slots pre post s ic hs hnm A B hA R X todo (merge s.multi cur v) hok'
        (by simpa [itemVals] using hk) f' (by simp only [List.length_append]; omega)
      exact loop_item slots ic f' s.typ l body _ _ _ X a ht hl hstep ih

/-- the accumulator passes the final `!handled` checks: required slots are not absent -/
def FinOk : List Slot → Vals → Prop
  | [], .nil => True
  | s :: ss, .cons v vs => (s.required = true → v ≠ .absent) ∧ FinOk ss vs
  | _, _ => False

theorem FinOk_length : ∀ (ss : List Slot) (A : Vals), FinOk ss A → A.length = ss.length
  | [], .nil, _ => by simp [Vals.length]
  | [], .cons _ _, h => by simp [FinOk] at h
  | _ :: _, .nil, h => by simp [FinOk] at h
  | s :: ss, .cons v vs, h => by
    simp only [FinOk] at h
    simp [Vals.length, FinOk_length ss vs h.2]

theorem FinOk_snoc (s : Slot) (v : Val) (hv : s.required = true → v ≠ .absent) :
    ∀ (ss : List Slot) (A : Vals), FinOk ss A → FinOk (ss ++ [s]) (A.append (.cons v .nil))
  | [], .nil, _ => by simp [FinOk, Vals.append]; exact hv
  | [], .cons _ _, h => by simp [FinOk] at h
  | _ :: _, .nil, h => by simp [FinOk] at h
  | q :: ss, .cons x vs, h => by
    simp only [FinOk] at h
    simp only [List.cons_append, Vals.append, FinOk]
    exact ⟨h.1, FinOk_snoc s v hv ss vs h.2⟩

theorem finishU_ok : ∀ (ss : List Slot) (A : Vals), FinOk ss A → finishU ss A = .ok A 0
  | [], .nil, _ => by simp [finishU]
  | [], .cons _ _, h => by simp [FinOk] at h
  | _ :: _, .nil, h => by simp [FinOk] at h
  | s :: ss, .cons v vs, h => by
    simp only [FinOk] at h
    have ih := finishU_ok ss vs h.2
    simp only [finishU, Vals.head, Vals.tail]
    split
    · rename_i h2
      exact absurd rfl (h.1 h2)
    · simp [ih, Res.bind]

/-- what a group leaves in a required slot is not absent -/
theorem slotResult_required (all : List Slot) (ic : Bool) (s : Slot) (g : List El)
    (hg : GroupOk all ic s g) (hr : s.required = true) : slotResult s g ≠ .absent := by
  obtain ⟨hel, _, h1, hm⟩ := hg
  have hm0 := hm hr
  have hlen := h1 hr
  -- the item of a required slot carries a value that is not absent
  have hv : ∀ (g : List El), (∀ e ∈ g, ElOk all ic s e) → ∀ v ∈ itemVals g, v ≠ .absent := by
    intro g
    induction g with
    | nil => intro _ v hv; simp [itemVals] at hv
    | cons e g ih =>
      intro hok v hv
      have ih' := ih (fun e he => hok e (by simp [he]))
      cases e with
      | junk t body => exact ih' v (by simpa [itemVals] using hv)
      | item l body w =>
        simp only [itemVals, List.mem_cons] at hv
        rcases hv with rfl | hv
        · have h3 : ElOk all ic s (.item l body v) := hok _ (by simp)
          exact h3.2.2.2.2 hr
        · exact ih' v hv
  unfold slotResult
  match hiv : itemVals g, hlen with
  | [v], _ =>
    have := hv g hel v (by simp [hiv])
    simp only [List.foldl_cons, List.foldl_nil, hm0]
    simpa [merge] using this

theorem loop_groups (slots : List Slot) (ic : Bool) (hd : DistinctTyps slots) :
    ∀ (post : List Slot) (gpost : List (List El)) (pre : List Slot) (A : Vals),
      slots = pre ++ post → FinOk pre A → GroupsOk slots ic post gpost →
      ∀ f, (groupsBytes post gpost).length < f →
        ∃ a, loopU slots ic f (groupsBytes post gpost) (A.append (initAcc post))
          = .ok (A.append (expected post gpost)) a
  | [], [], pre, A, hs, hA, _, f, hf => by
    obtain ⟨f', rfl⟩ : ∃ f', f = f' + 1 := ⟨f - 1, by simp [groupsBytes] at hf; omega⟩
    have hs' : slots = pre := by simpa using hs
    refine ⟨0, ?_⟩
    simp only [groupsBytes, initAcc, expected, Vals.append_nil]
    rw [loopU, if_pos rfl, hs']
    exact finishU_ok pre A hA
  | [], _ :: _, _, _, _, _, hg, _, _ => by simp [GroupsOk] at hg
  | _ :: _, [], _, _, _, _, hg, _, _ => by simp [GroupsOk] at hg
  | s :: post, g :: gpost, pre, A, hs, hA, hg, f, hf => by
    simp only [GroupsOk] at hg
    obtain ⟨hg1, hg2⟩ := hg
    simp only [groupsBytes, initAcc, expected] at hf ⊢
    have hnm : s.hasTyp = true → ∀ p ∈ pre, (p.hasTyp && p.typ == s.typ) = false :=
      fun hty => distinct_nomatch s post hty pre (hs ▸ hd)
    refine loop_group slots pre post s ic hs hnm A (initAcc post) (FinOk_length pre A hA)
      (groupsBytes post gpost) _ g s.init hg1.1 ?_ f hf
    intro f2 hf2
    have hA' : FinOk (pre ++ [s]) (A.append (.cons (slotResult s g) .nil)) :=
      FinOk_snoc s _ (slotResult_required slots ic s g hg1) pre A hA
    have ih := loop_groups slots ic hd post gpost (pre ++ [s]) _ (by simp [hs]) hA' hg2 f2 hf2
    simpa [Vals.append_assoc, Vals.append, slotResult] using ih

/-- **the unordered parse loop meets the loop specification** -/
theorem loopU_spec : LoopSpec false := by
  intro slots ic groups hd _ hg
  have h := loop_groups slots ic hd slots groups [] .nil (by simp) (by simp [FinOk]) hg
    ((groupsBytes slots groups).length + 1) (by omega)
  simpa [runSlots, Vals.append] using h

/-! ## non-vacuity: a concrete two-slot model (required natural 7, sequence of binary 9), input
    with two junk elements (non-critical types 240, 242), `ignoreCritical = false` -/

def exSlots : List Slot := compile (.cons 7 (.natural false) (.cons 9 (.seq .binary) .nil))

def exGroups : List (List El) :=
  [[.junk 240 [1, 2], .item 1 [5] (.nat 5)],
   [.item 2 [1, 2] (.bytes [1, 2]), .junk 242 [], .item 1 [3] (.bytes [3])]]

theorem exSlots_eq : exSlots =
    [⟨7, true, true, 0, .absent, readKind (.natural false)⟩,
     ⟨9, true, false, 1, .seq .nil, readKind (.seq .binary)⟩] := by
  simp [exSlots, compile, Kind.hasTyp, Kind.required, Kind.multi, Kind.init]

theorem ex_distinct : DistinctTyps exSlots := by
  simp [exSlots_eq, DistinctTyps]

theorem ex_init : ∀ s ∈ exSlots, InitOk s := by
  simp [exSlots_eq, InitOk]

theorem ex_groups : GroupsOk exSlots false exSlots exGroups := by
  have hg : ¬ goInt 1 < 0 := by decide
  have hm1 : goMake 1 1 = .ok () 1 := by simp [goMake, maxAlloc]
  have hm2 : goMake 2 1 = .ok () 2 := by simp [goMake, maxAlloc]
  rw [exSlots_eq]
  simp [exGroups, GroupsOk, GroupOk, ElOk, itemVals, knownTyp, critical, readKind, readNatLoop, natLenOk, readUintLoop,
    fits, hg, hm1, hm2, Res.bind, beDec, beDecMod]
  intro rest
  exact ⟨2, by rw [if_neg (by omega)]⟩

/-- the hypotheses of `loopU_spec` are satisfiable, and the conclusion is a concrete parse -/
example : ∃ a, runSlots false exSlots false
      [240, 2, 1, 2, 7, 1, 5, 9, 2, 1, 2, 242, 0, 9, 1, 3]
    = .ok (.cons (.nat 5) (.cons (.seq (.cons (.bytes [1, 2]) (.cons (.bytes [3]) .nil))) .nil)) a := by
  have h := loopU_spec exSlots false exGroups ex_distinct ex_init ex_groups
  have hb : groupsBytes exSlots exGroups = [240, 2, 1, 2, 7, 1, 5, 9, 2, 1, 2, 242, 0, 9, 1, 3] := by
    rw [exSlots_eq]; decide
  have he : expected exSlots exGroups
      = .cons (.nat 5) (.cons (.seq (.cons (.bytes [1, 2]) (.cons (.bytes [3]) .nil))) .nil) := by
    rw [exSlots_eq]
    simp [exGroups, expected, slotResult, itemVals, merge, Vals.snoc, Vals.append]
  rw [hb, he] at h
  exact h

end LU
end Ndn.C13
