/-
  C13/LoopOFail.lean — the ORDERED generated parse loop (`loopO` of Model.lean) meets `FailSpec`:
  a well-formed prefix of the element stream (full groups of the slots `pre`, some elements of the
  next slot `s`) followed by a refused element (unknown critical type while `ic = false`, or an
  element of `s` whose reader fails) makes the whole parse an error, whatever follows.

  Proof organisation (mirrors LoopO.lean, for the outcome "is an error" instead of "yields v")
  * `IsErr r` = "`r` is `.err _`"; it propagates outwards through every `Res.bind` whose first part
    is `.ok`, so the recursion of `loopO` is followed up to the refused element;
  * `NoHitE s b`: the stream `b` starts with acceptable junk followed by a known element that slot
    `s` has no `case` for, or by an unknown critical element; `pass_err`: on such a stream an error
    of the loop started after `s` is an error of the loop started at `s` (whether `s` is required or
    not: a required slot that is passed is `ErrSkipRequired`) — this covers the lagging state;
  * `walk_s`: the elements of the head group one by one; `walk_pre`: induction over the slots of the
    prefix; `loopO_fail` puts the refused element at the end.
  Core Lean only.
-/
import NdnVerif.C13.LoopO
import NdnVerif.C13.LoopFailSpec
namespace Ndn.C13
namespace LOF
open LO

/-! ## "is an error" -/

def IsErr {α : Type} (r : Res α) : Prop := ∃ a, r = .err a

theorem isErr_err {α : Type} (n : Nat) : IsErr (Res.err n : Res α) := ⟨n, rfl⟩

theorem isErr_bind_ok {α β : Type} (x : α) (n : Nat) (f : α → Res β) :
    IsErr ((Res.ok x n).bind f) ↔ IsErr (f x) := by
  cases hf : f x <;> simp [Res.bind, hf, IsErr]

theorem isErr_bind_err {α β : Type} (n : Nat) (f : α → Res β) : IsErr ((Res.err n).bind f) :=
  ⟨n, rfl⟩

theorem isErr_bind_of_yields {α β : Type} {r : Res α} {f : α → Res β} {x : α}
    (h1 : Yields r x) (h2 : IsErr (f x)) : IsErr (r.bind f) := by
  obtain ⟨n, rfl⟩ := h1
  exact (isErr_bind_ok x n f).2 h2

/-- a final repackaging of the value does not change whether the result is an error -/
theorem isErr_bind_okfun {α β : Type} (r : Res α) (g : α → β) :
    IsErr (r.bind fun x => .ok (g x) 0) ↔ IsErr r := by
  cases r <;> simp [Res.bind, IsErr]

theorem isErr_contO_at (slots : List Slot) (ic : Bool) (f : Nat) (r2 : Bytes) (p : Vals)
    (rem : List Slot) (cur : Val) (r3 : Bytes) :
    IsErr (contO slots ic f r2 (.at p rem cur r3)) ↔ IsErr (loopO slots ic f (some (rem, cur)) r3) := by
  simp only [contO]
  exact isErr_bind_okfun _ _

theorem isErr_contO_exh (slots : List Slot) (ic : Bool) (f : Nat) (r2 : Bytes) (p : Vals) :
    IsErr (contO slots ic f r2 (.exhausted p)) ↔ IsErr (loopO slots ic f none r2) := by
  simp only [contO]
  exact isErr_bind_okfun _ _

theorem not_isErr_fuel0 (slots : List Slot) (ic : Bool) (st : Option (List Slot × Val)) (b : Bytes) :
    ¬ IsErr (loopO slots ic 0 st b) := by
  intro ⟨a, h⟩
  simp [loopO] at h

/-! ## one iteration of the ordered loop -/

theorem loopO_junk_err (slots : List Slot) (ic : Bool) (f : Nat) (st : List Slot × Val)
    (t : Nat) (body rest : Bytes) (ht : t < 2 ^ 64) (hb : body.length < 2 ^ 63)
    (hk : knownTyp slots t = false) (hc : ic = true ∨ critical t = false) :
    IsErr (loopO slots ic (f + 1) (some st) (tlv t body ++ rest)) ↔
      IsErr (loopO slots ic f (some st) rest) := by
  have hb64 : body.length < 2 ^ 64 := by omega
  have hcc : (!ic && critical t) = false := by
    rcases hc with h | h <;> simp [h]
  obtain ⟨rem, cur⟩ := st
  have e : tlv t body ++ rest = encTL t ++ (encTL body.length ++ (body ++ rest)) := by
    simp [tlv, List.append_assoc]
  rw [e, loopO, if_neg (by simp [encTL_ne_nil]), decTL_encTL t ht]
  simp only []
  rw [decTL_encTL body.length hb64]
  simp only [hk, hcc, skipN_body body rest hb, Bool.false_eq_true, if_false]
  exact isErr_bind_ok _ _ _

/-- an unknown critical element while `ignoreCritical = false`, in any live state -/
theorem loopO_crit (slots : List Slot) (ic : Bool) (f : Nat) (st : List Slot × Val)
    (t l : Nat) (r2 : Bytes) (ht : t < 2 ^ 64) (hl : l < 2 ^ 64)
    (hk : knownTyp slots t = false) (hic : ic = false) (hc : critical t = true) :
    loopO slots ic (f + 1) (some st) (encTL t ++ (encTL l ++ r2)) = .err 0 := by
  obtain ⟨rem, cur⟩ := st
  rw [loopO, if_neg (by simp [encTL_ne_nil]), decTL_encTL t ht]
  simp only []
  rw [decTL_encTL l hl]
  simp [hk, hic, hc]

/-! ## passing a slot -/

/-- the stream consists of acceptable junk, then continues with an element that the model knows but
    slot `s` has no `case` for, or with an unknown critical element (refused) -/
inductive NoHitE (slots : List Slot) (ic : Bool) (s : Slot) : Bytes → Prop where
  | junk (t : Nat) (body rest : Bytes) : t < 2 ^ 64 → body.length < 2 ^ 63 →
      knownTyp slots t = false → (ic = true ∨ critical t = false) →
      NoHitE slots ic s rest → NoHitE slots ic s (tlv t body ++ rest)
  | known (t l : Nat) (r2 : Bytes) : t < 2 ^ 64 → l < 2 ^ 64 → knownTyp slots t = true →
      (s.hasTyp && s.typ == t) = false → NoHitE slots ic s (encTL t ++ (encTL l ++ r2))
  | crit (t l : Nat) (r2 : Bytes) : t < 2 ^ 64 → l < 2 ^ 64 → knownTyp slots t = false →
      ic = false → critical t = true → NoHitE slots ic s (encTL t ++ (encTL l ++ r2))

/-- if the loop started after `s` ends in an error on such a stream, so does the loop started at `s` -/
theorem pass_err (slots : List Slot) (ic : Bool) (s : Slot) (ss : List Slot)
    (b : Bytes) (h : NoHitE slots ic s b) :
    ∀ (fuel : Nat) (cur : Val),
      IsErr (loopO slots ic fuel (some (ss, headInit ss)) b) →
      IsErr (loopO slots ic fuel (some (s :: ss, cur)) b) := by
  induction h with
  | junk t body rest ht hb hk hc _ ih =>
    intro fuel cur hy
    cases fuel with
    | zero => exact absurd hy (not_isErr_fuel0 _ _ _ _)
    | succ f =>
      rw [loopO_junk_err slots ic f _ t body rest ht hb hk hc] at hy ⊢
      exact ih f cur hy
  | known t l r2 ht hl hk hn =>
    intro fuel cur hy
    cases fuel with
    | zero => exact absurd hy (not_isErr_fuel0 _ _ _ _)
    | succ f =>
      rw [loopO_known slots ic f _ _ t l r2 ht hl hk] at hy ⊢
      rw [stepO, hn, if_neg (by simp)]
      cases hreq : s.required with
      | true => rw [if_pos rfl]; exact isErr_bind_err _ _
      | false =>
        rw [if_neg (by simp)]
        cases hso : stepO ss (headInit ss) t l ic r2 with
        | ok so n =>
          rw [hso, isErr_bind_ok] at hy
          cases so with
          | «at» p rem' c r =>
            rw [isErr_contO_at] at hy
            have e : ∀ (g : StepO → Res StepO), g (.at p rem' c r) = .ok (.at (.cons cur p) rem' c r) 0 →
                IsErr (((Res.ok (StepO.at p rem' c r) n).bind g).bind (contO slots ic f r2)) := by
              intro g hg
              have h1 : (Res.ok (StepO.at p rem' c r) n).bind g
                  = .ok (.at (.cons cur p) rem' c r) (n + 0) := by simp only [Res.bind, hg]
              rw [h1, isErr_bind_ok, isErr_contO_at]
              exact hy
            exact e _ rfl
          | exhausted p =>
            rw [isErr_contO_exh] at hy
            have e : ∀ (g : StepO → Res StepO), g (.exhausted p) = .ok (.exhausted (.cons cur p)) 0 →
                IsErr (((Res.ok (StepO.exhausted p) n).bind g).bind (contO slots ic f r2)) := by
              intro g hg
              have h1 : (Res.ok (StepO.exhausted p) n).bind g
                  = .ok (.exhausted (.cons cur p)) (n + 0) := by simp only [Res.bind, hg]
              rw [h1, isErr_bind_ok, isErr_contO_exh]
              exact hy
            exact e _ rfl
        | err n => exact isErr_bind_err _ _
        | panic => rw [hso] at hy; obtain ⟨a, ha⟩ := hy; simp [Res.bind] at ha
        | fuel => rw [hso] at hy; obtain ⟨a, ha⟩ := hy; simp [Res.bind] at ha
  | crit t l r2 ht hl hk hic hc =>
    intro fuel cur hy
    cases fuel with
    | zero => exact absurd hy (not_isErr_fuel0 _ _ _ _)
    | succ f =>
      rw [loopO_crit slots ic f _ t l r2 ht hl hk hic hc]
      exact isErr_err 0

/-- the elements of a group of slot `s'` never hit a slot `s` with another type number -/
theorem nohitE_group (slots : List Slot) (ic : Bool) (s s' : Slot) (R : Bytes) (hmem : s' ∈ slots)
    (hne : s.hasTyp = true → s'.hasTyp = true → s'.typ ≠ s.typ) (hR : NoHitE slots ic s R) :
    ∀ (g : List El), (∀ e ∈ g, ElOk slots ic s' e) → NoHitE slots ic s (groupBytes s'.typ g ++ R) := by
  intro g
  induction g with
  | nil => intro _; rw [groupBytes_nil]; exact hR
  | cons e g' ihg =>
    intro hel
    have hg' := ihg (fun x hx => hel x (List.mem_cons_of_mem _ hx))
    have he := hel e (List.mem_cons_self ..)
    cases e with
    | junk t body =>
      obtain ⟨ht, hb, hk, hc⟩ := he
      rw [groupBytes_junk, List.append_assoc]
      exact NoHitE.junk t body _ ht hb hk hc hg'
    | item l body v =>
      obtain ⟨hh, ht, hl, _, _⟩ := he
      rw [groupBytes_item]
      refine NoHitE.known s'.typ l _ ht hl (knownTyp_of_mem slots s' hmem hh) ?_
      cases hsh : s.hasTyp with
      | false => simp
      | true =>
        have := hne hsh hh
        simp; exact fun h => this h.symm

/-- the groups of later slots never hit an earlier slot -/
theorem nohitE_groups (slots : List Slot) (ic : Bool) (s : Slot) (R : Bytes)
    (hR : NoHitE slots ic s R) :
    ∀ (ss : List Slot) (gs : List (List El)), (∀ s' ∈ ss, s' ∈ slots) →
      (s.hasTyp = true → ∀ s' ∈ ss, s'.hasTyp = true → s'.typ ≠ s.typ) →
      GroupsOk slots ic ss gs → NoHitE slots ic s (groupsBytes ss gs ++ R) := by
  intro ss
  induction ss with
  | nil =>
    intro gs _ _ _
    cases gs <;> exact hR
  | cons s' ss' ih =>
    intro gs hmem hd hok
    cases gs with
    | nil => exact absurd hok (by simp [GroupsOk])
    | cons g gs' =>
      obtain ⟨⟨hel, -⟩, hok'⟩ := hok
      have htail : NoHitE slots ic s (groupsBytes ss' gs' ++ R) :=
        ih gs' (fun x hx => hmem x (List.mem_cons_of_mem _ hx))
          (fun hh x hx => hd hh x (List.mem_cons_of_mem _ hx)) hok'
      show NoHitE slots ic s (groupBytes s'.typ g ++ groupsBytes ss' gs' ++ R)
      rw [List.append_assoc]
      exact nohitE_group slots ic s s' _ (hmem s' (List.mem_cons_self ..))
        (fun hh hh' => hd hh s' (List.mem_cons_self ..) hh') htail g hel

/-! ## junk-only stretch with any state -/

theorem junkgroup_err (slots : List Slot) (ic : Bool) (st : List Slot × Val) (s : Slot) (typ : Nat)
    (rest : Bytes)
    (hrest : ∀ fuel, fuel > rest.length → IsErr (loopO slots ic fuel (some st) rest)) :
    ∀ (g : List El), (∀ e ∈ g, ElOk slots ic s e) → itemVals g = [] →
      ∀ fuel, fuel > (groupBytes typ g ++ rest).length →
        IsErr (loopO slots ic fuel (some st) (groupBytes typ g ++ rest)) := by
  intro g
  induction g with
  | nil => intro _ _ fuel hf; rw [groupBytes_nil] at hf ⊢; exact hrest fuel hf
  | cons e g' ih =>
    intro hel hi fuel hf
    cases e with
    | item l body v => simp [itemVals] at hi
    | junk t body =>
      obtain ⟨ht, hb, hk, hc⟩ := hel _ (List.mem_cons_self ..)
      rw [groupBytes_junk, List.append_assoc] at hf ⊢
      have hp := tlv_length_pos t body
      cases fuel with
      | zero => omega
      | succ f =>
        rw [loopO_junk_err slots ic f st t body _ ht hb hk hc]
        refine ih (fun x hx => hel x (List.mem_cons_of_mem _ hx)) (by simpa [itemVals] using hi) f ?_
        rw [List.length_append] at hf; omega

/-! ## the head group, element by element -/

/-- acceptable elements of the head slot `s` followed by a stream `B` on which the loop fails (in
    the state where `s` is still the head, and — needed only when a plain slot has consumed its
    item — in the state after `s`) -/
theorem walk_s (slots : List Slot) (ic : Bool) (s : Slot) (ss : List Slot) (B : Bytes)
    (hs : s ∈ slots)
    (hend : ∀ (cur : Val) (fuel : Nat), fuel > B.length →
      IsErr (loopO slots ic fuel (some (s :: ss, cur)) B)) :
    ∀ (g : List El), (∀ e ∈ g, ElOk slots ic s e) →
      (s.multi = 0 → (itemVals g).length ≤ 1) →
      (s.multi = 0 → itemVals g ≠ [] → ∀ fuel, fuel > B.length →
        IsErr (loopO slots ic fuel (some (ss, headInit ss)) B)) →
      ∀ (cur : Val) (fuel : Nat), fuel > (groupBytes s.typ g ++ B).length →
        IsErr (loopO slots ic fuel (some (s :: ss, cur)) (groupBytes s.typ g ++ B)) := by
  intro g
  induction g with
  | nil =>
    intro _ _ _ cur fuel hf
    rw [groupBytes_nil, List.nil_append] at hf ⊢
    exact hend cur fuel hf
  | cons e g' ihg =>
    intro hel h1 h2 cur fuel hf
    have hel' : ∀ e ∈ g', ElOk slots ic s e := fun x hx => hel x (List.mem_cons_of_mem _ hx)
    cases e with
    | junk t body =>
      obtain ⟨ht, hb, hk, hc⟩ := hel _ (List.mem_cons_self ..)
      rw [groupBytes_junk, List.append_assoc] at hf ⊢
      have hp := tlv_length_pos t body
      cases fuel with
      | zero => omega
      | succ f =>
        rw [loopO_junk_err slots ic f _ t body _ ht hb hk hc]
        refine ihg hel' (by simpa [itemVals] using h1) (by simpa [itemVals] using h2) cur f ?_
        rw [List.length_append] at hf; omega
    | item l body v =>
      obtain ⟨hh, ht, hl, hread, _⟩ := hel _ (List.mem_cons_self ..)
      rw [groupBytes_item] at hf ⊢
      have hp := encTL_length_pos s.typ
      obtain ⟨a, hr⟩ := hread (groupBytes s.typ g' ++ B)
      cases fuel with
      | zero => omega
      | succ f =>
        have hf' : f > (groupBytes s.typ g' ++ B).length := by
          simp only [List.length_append] at hf ⊢; omega
        rw [loopO_known slots ic f _ _ s.typ l _ ht hl (knownTyp_of_mem slots s hs hh)]
        cases hm : s.multi with
        | zero =>
          -- plain slot: its value is emitted, the rest of the group is junk
          have hi : itemVals g' = [] := by
            have := h1 hm
            simp only [itemVals, List.length_cons] at this
            exact List.eq_nil_of_length_eq_zero (by omega)
          refine isErr_bind_of_yields (stepO_hit_plain s ss cur l ic _ _ v a hh hr hm) ?_
          rw [isErr_contO_at]
          exact junkgroup_err slots ic _ s s.typ B (h2 hm (by simp [itemVals])) g' hel' hi f hf'
        | succ k =>
          have hm' : s.multi ≠ 0 := by omega
          refine isErr_bind_of_yields (stepO_hit_multi s ss cur l ic _ _ v a hh hr hm') ?_
          rw [isErr_contO_at]
          exact ihg hel' (fun h => absurd h hm') (fun h => absurd h hm') _ f hf'

/-! ## the slots of the prefix -/

theorem walk_pre (slots : List Slot) (ic : Bool) (s : Slot) (post : List Slot) (T : Bytes)
    (hbase : ∀ (cur : Val) (fuel : Nat), fuel > T.length →
      IsErr (loopO slots ic fuel (some (s :: post, cur)) T))
    (hnh : ∀ s0 : Slot, (s0.hasTyp = true → s.hasTyp = true → s.typ ≠ s0.typ) →
      NoHitE slots ic s0 T) :
    ∀ (pre : List Slot) (gpre : List (List El)), (∀ x ∈ pre ++ s :: post, x ∈ slots) →
      DistinctTyps (pre ++ s :: post) → GroupsOk slots ic pre gpre →
      ∀ (cur : Val) (fuel : Nat), fuel > (groupsBytes pre gpre ++ T).length →
        IsErr (loopO slots ic fuel (some (pre ++ s :: post, cur)) (groupsBytes pre gpre ++ T)) := by
  intro pre
  induction pre with
  | nil =>
    intro gpre _ _ hok cur fuel hf
    cases gpre with
    | cons g gs' => exact absurd hok (by simp [GroupsOk])
    | nil =>
      simp only [groupsBytes, List.nil_append] at hf ⊢
      exact hbase cur fuel hf
  | cons s0 pre' ih =>
    intro gpre hmem hdist hok cur fuel hf
    cases gpre with
    | nil => exact absurd hok (by simp [GroupsOk])
    | cons g gs' =>
      obtain ⟨⟨hel, h1, _, _⟩, hok'⟩ := hok
      simp only [List.cons_append, DistinctTyps] at hdist
      obtain ⟨hd, hdist'⟩ := hdist
      have hmem' : ∀ x ∈ pre' ++ s :: post, x ∈ slots :=
        fun x hx => hmem x (by simp only [List.cons_append]; exact List.mem_cons_of_mem _ hx)
      have hs0 : s0 ∈ slots := hmem s0 (by simp)
      have ih' : ∀ (cur : Val) (fuel : Nat), fuel > (groupsBytes pre' gs' ++ T).length →
          IsErr (loopO slots ic fuel (some (pre' ++ s :: post, cur)) (groupsBytes pre' gs' ++ T)) :=
        ih gs' hmem' hdist' hok'
      have hnohit : NoHitE slots ic s0 (groupsBytes pre' gs' ++ T) :=
        nohitE_groups slots ic s0 T (hnh s0 (fun h0 hs' => hd h0 s (by simp) hs')) pre' gs'
          (fun x hx => hmem' x (by simp [hx])) (fun hh x hx => hd hh x (by simp [hx])) hok'
      have e : groupsBytes (s0 :: pre') (g :: gs') ++ T
          = groupBytes s0.typ g ++ (groupsBytes pre' gs' ++ T) := by
        simp [groupsBytes, List.append_assoc]
      rw [e] at hf ⊢
      simp only [List.cons_append]
      refine walk_s slots ic s0 (pre' ++ s :: post) (groupsBytes pre' gs' ++ T) hs0 ?_ g hel h1 ?_
        cur fuel hf
      · intro cur2 fuel2 hf2
        exact pass_err slots ic s0 _ _ hnohit fuel2 cur2 (ih' _ fuel2 hf2)
      · intro _ _ fuel2 hf2
        exact ih' _ fuel2 hf2

/-! ## the refused element -/

/-- **the ordered parse loop meets the failure specification** -/
theorem loopO_fail : FailSpec true := by
  intro slots pre post s ic gpre gpart bad tail hs hd hgpre hgpart hbad
  have hsm : s ∈ slots := by rw [hs]; simp
  -- the refused element fails in the state where `s` is the head, and passes every other slot
  have hbase : ∀ (cur : Val) (fuel : Nat), fuel > (groupBytes s.typ gpart ++ (bad ++ tail)).length →
      IsErr (loopO slots ic fuel (some (s :: post, cur)) (groupBytes s.typ gpart ++ (bad ++ tail))) := by
    cases hbad with
    | critical t body ht hb hu hic hc h1 =>
      have e : tlv t body ++ tail = encTL t ++ (encTL body.length ++ (body ++ tail)) := by
        simp [tlv, List.append_assoc]
      have hany : ∀ (st : List Slot × Val) (fuel : Nat), fuel > (tlv t body ++ tail).length →
          IsErr (loopO slots ic fuel (some st) (tlv t body ++ tail)) := by
        intro st fuel hf
        obtain ⟨f, rfl⟩ : ∃ f, fuel = f + 1 := ⟨fuel - 1, by omega⟩
        rw [e, loopO_crit slots ic f st t body.length _ ht hb hu hic hc]
        exact isErr_err 0
      exact walk_s slots ic s post _ hsm (fun cur fuel hf => hany _ fuel hf) gpart hgpart h1
        (fun _ _ fuel hf => hany _ fuel hf)
    | inner l body hty ht hl hread h0 =>
      have e : encTL s.typ ++ encTL l ++ body ++ tail = encTL s.typ ++ (encTL l ++ (body ++ tail)) := by
        simp [List.append_assoc]
      refine walk_s slots ic s post _ hsm ?_ gpart hgpart
        (fun hm => by rw [h0 hm]; simp) (fun hm hne => absurd (h0 hm) hne)
      intro cur fuel hf
      obtain ⟨f, rfl⟩ : ∃ f, fuel = f + 1 := ⟨fuel - 1, by omega⟩
      obtain ⟨a, hr⟩ := hread tail
      rw [e, loopO_known slots ic f _ _ s.typ l _ ht hl (knownTyp_of_mem slots s hsm hty),
        stepO, if_pos (by simp [hty]), hr]
      exact isErr_bind_err _ _
  have hnh : ∀ s0 : Slot, (s0.hasTyp = true → s.hasTyp = true → s.typ ≠ s0.typ) →
      NoHitE slots ic s0 (groupBytes s.typ gpart ++ (bad ++ tail)) := by
    intro s0 hne
    refine nohitE_group slots ic s0 s _ hsm hne ?_ gpart hgpart
    cases hbad with
    | critical t body ht hb hu hic hc _ =>
      have e : tlv t body ++ tail = encTL t ++ (encTL body.length ++ (body ++ tail)) := by
        simp [tlv, List.append_assoc]
      rw [e]
      exact NoHitE.crit t body.length _ ht hb hu hic hc
    | inner l body hty ht hl _ _ =>
      have e : encTL s.typ ++ encTL l ++ body ++ tail = encTL s.typ ++ (encTL l ++ (body ++ tail)) := by
        simp [List.append_assoc]
      rw [e]
      refine NoHitE.known s.typ l _ ht hl (knownTyp_of_mem slots s hsm hty) ?_
      cases hsh : s0.hasTyp with
      | false => simp
      | true =>
        have := hne hsh hty
        simp; exact fun h => this h.symm
  have h := walk_pre slots ic s post _ hbase hnh pre gpre (by rw [← hs]; exact fun _ h => h)
    (hs ▸ hd) hgpre (headInit slots)
    ((groupsBytes pre gpre ++ (groupBytes s.typ gpart ++ (bad ++ tail))).length + 1) (by omega)
  rw [← hs] at h
  simpa [runSlots, IsErr] using h

/-! ## non-vacuity: ordered model binary 7, sequence of naturals 9; one item of slot 7, then an
    unknown critical element (type 241), `ignoreCritical = false` -/

def exSlots : List Slot := compile (.cons 7 .binary (.cons 9 (.seq (.natural false)) .nil))

theorem exSlots_eq : exSlots =
    [⟨7, true, false, 0, .absent, readKind .binary⟩,
     ⟨9, true, false, 1, .seq .nil, readKind (.seq (.natural false))⟩] := by
  simp [exSlots, compile, Kind.hasTyp, Kind.required, Kind.multi, Kind.init]

/-- the concrete parse, evaluated -/
example : runSlots true exSlots false [7, 2, 170, 187, 241, 1, 0, 9, 1, 5] = .err 2 := by
  rfl

/-- the hypotheses of `loopO_fail` are satisfiable: `pre = []`, current slot 7 with one item, then
    the critical element 241, then an item of slot 9 as the arbitrary tail -/
example : ∃ a, runSlots true exSlots false [7, 2, 170, 187, 241, 1, 0, 9, 1, 5] = .err a := by
  have hg : ∀ e ∈ [El.item 2 [170, 187] (.bytes [170, 187])],
      ElOk exSlots false ⟨7, true, false, 0, .absent, readKind .binary⟩ e := by
    have hm2 : goMake 2 1 = .ok () 2 := by simp [goMake, maxAlloc]
    simp [ElOk, readKind, fits, hm2, Res.bind]
    intro rest
    exact ⟨2, by rw [if_neg (by omega)]⟩
  have hbad : BadHead exSlots false ⟨7, true, false, 0, .absent, readKind .binary⟩
      [El.item 2 [170, 187] (.bytes [170, 187])] (tlv 241 [0]) :=
    BadHead.critical 241 [0] (by omega) (by simp) (by rw [exSlots_eq]; simp [knownTyp]) rfl
      (by simp [critical]) (by simp [itemVals])
  have h := loopO_fail exSlots [] [⟨9, true, false, 1, .seq .nil, readKind (.seq (.natural false))⟩]
    ⟨7, true, false, 0, .absent, readKind .binary⟩ false [] _ _ [9, 1, 5]
    (by rw [exSlots_eq]; rfl) (by rw [exSlots_eq]; simp [DistinctTyps]) (by simp [GroupsOk]) hg hbad
  have hb : groupsBytes [] [] ++ (groupBytes 7 [El.item 2 [170, 187] (.bytes [170, 187])]
      ++ (tlv 241 [0] ++ [9, 1, 5])) = [7, 2, 170, 187, 241, 1, 0, 9, 1, 5] := by decide
  rw [hb] at h
  exact h

end LOF
end Ndn.C13
