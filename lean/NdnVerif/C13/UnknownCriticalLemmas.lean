/-
  C13/UnknownCriticalLemmas.lean — helper lemmas for UnknownCritical.lean:

  * `Refused all fs b`: the byte string `b` is, for the model `fs` (inside a model whose slots are
    `all`), the full groups of a prefix of the slots, some acceptable elements of the next slot, a
    refused element (`BadHead`) and then anything — the input shape of `FailSpec`
  * an unknown critical element at any item boundary (`insert_refused`), or a struct item whose
    inner model is refused (`replace_refused`), makes the whole stream `Refused`
  * `refused_run`: a `Refused` stream is an error of both parse loops (`LUF.loopU_fail`,
    `LOF.loopO_fail`)
  The item ↔ element correspondence (`head_corr`, `elOf`) is that of UnknownSkipLemmas.lean.
  Core Lean only.
-/
import NdnVerif.C13.UnknownSkipLemmas
import NdnVerif.C13.LoopUFail
import NdnVerif.C13.LoopOFail
namespace Ndn.C13

/-! ## refused streams -/

def Refused (all : List Slot) (fs : Fields) (b : Bytes) : Prop :=
  ∃ (pre post : List Slot) (s : Slot) (gpre : List (List El)) (gpart : List El) (bad tail : Bytes),
    compile fs = pre ++ s :: post ∧ GroupsOk all false pre gpre ∧ (∀ e ∈ gpart, ElOk all false s e) ∧
    BadHead all false s gpart bad ∧
    b = groupsBytes pre gpre ++ (groupBytes s.typ gpart ++ (bad ++ tail))

theorem refused_run (fs : Fields) (ord : Bool) (b : Bytes) (hwf : wfFields fs = true)
    (h : Refused (compile fs) fs b) : ∃ a, runSlots ord (compile fs) false b = .err a := by
  obtain ⟨pre, post, s, gpre, gpart, bad, tail, h1, h2, h3, h4, h5⟩ := h
  have hd := distinct_compile fs hwf
  subst h5
  cases ord with
  | false => exact LUF.loopU_fail (compile fs) pre post s false gpre gpart bad tail h1 hd h2 h3 h4
  | true => exact LOF.loopO_fail (compile fs) pre post s false gpre gpart bad tail h1 hd h2 h3 h4

theorem itemVals_take_le (g : List El) (j : Nat) : (itemVals (g.take j)).length ≤ (itemVals g).length := by
  have := congrArg List.length (itemVals_append (g.take j) (g.drop j))
  rw [List.take_append_drop, List.length_append] at this
  omega

/-- a refusal further down the field list -/
theorem refused_tail (all : List Slot) (t : Nat) (k : Kind) (fs : Fields) (v : Val) (vs : Vals)
    (hwf : wfFields (.cons t k fs) = true) (hv : validVs (.cons t k fs) (.cons v vs) = true)
    (B : Bytes) (h : Refused all fs B) :
    Refused all (.cons t k fs) (encItems (headLive t k v) ++ B) := by
  have hwf' := hwf
  have hv' := hv
  simp only [wfFields, Bool.and_eq_true] at hwf'
  simp only [validVs, Bool.and_eq_true] at hv'
  obtain ⟨pre, post, s, gpre, gpart, bad, tail, h1, h2, h3, h4, h5⟩ := h
  obtain ⟨c1, c2⟩ := head_corr t k v hwf'.1.1 hv'.1
  refine ⟨slotOf t k :: pre, post, s, mkGroup k v :: gpre, gpart, bad, tail, ?_, ?_, h3, h4, ?_⟩
  · rw [compile_cons, h1]; rfl
  · simp only [GroupsOk]
    exact ⟨head_groupOk all false t k fs v vs hwf hv, h2⟩
  · simp only [groupsBytes, h5]
    rw [c1]
    show _ = groupBytes t _ ++ _ ++ _
    rw [groupBytes_map_elOf t _ c2, List.append_assoc]

/-- an unknown critical element at boundary `j` of the first field's items -/
theorem refused_head_crit (all : List Slot) (t : Nat) (k : Kind) (fs : Fields) (v : Val) (vs : Vals)
    (hwf : wfFields (.cons t k fs) = true) (hv : validVs (.cons t k fs) (.cons v vs) = true)
    (j jt : Nat) (jbody : Bytes) (ht : jt < 2 ^ 64) (hb : jbody.length < 2 ^ 64)
    (hu : knownTyp all jt = false) (hc : critical jt = true) (T : Bytes) :
    Refused all (.cons t k fs)
      (encItems ((headLive t k v).take j) ++ tlv jt jbody ++ encItems ((headLive t k v).drop j) ++ T) := by
  have hwf' := hwf
  have hv' := hv
  simp only [wfFields, Bool.and_eq_true] at hwf'
  simp only [validVs, Bool.and_eq_true] at hv'
  obtain ⟨c1, c2⟩ := head_corr t k v hwf'.1.1 hv'.1
  have hg := head_groupOk all false t k fs v vs hwf hv
  refine ⟨[], compile fs, slotOf t k, [], (mkGroup k v).take j, tlv jt jbody,
    encItems ((headLive t k v).drop j) ++ T, ?_, ?_, ?_, ?_, ?_⟩
  · rw [compile_cons]; rfl
  · simp only [GroupsOk]
  · exact fun e he => hg.1 e (List.mem_of_mem_take he)
  · refine BadHead.critical jt jbody ht hb hu rfl hc (fun hm => ?_)
    have h1 := hg.2.1 hm
    have h2 := itemVals_take_le (mkGroup k v) j
    omega
  · simp only [groupsBytes, List.nil_append]
    rw [c1, ← List.map_take]
    show _ = groupBytes t _ ++ _
    rw [groupBytes_map_elOf t _ (fun it h => c2 it (List.mem_of_mem_take h))]
    simp only [List.append_assoc]

/-- the struct reader fails on a body the inner model refuses, whatever follows -/
theorem readStruct_err (ord : Bool) (fs : Fields) (body : Bytes) (rest : Bytes)
    (hb : body.length < 2 ^ 63) (h : ∃ a, runSlots ord (compile fs) false body = .err a) :
    ∃ a, readKind (.struct ord fs) body.length false (body ++ rest) = .err a := by
  obtain ⟨a, ha⟩ := h
  refine ⟨a, ?_⟩
  simp only [readKind, delegate_exact body rest hb, ha, Res.bind]

/-- the struct item at index `i` of the first field's items, with a body its inner model refuses -/
theorem refused_head_inner (all : List Slot) (t : Nat) (k : Kind) (fs : Fields) (v : Val) (vs : Vals)
    (hwf : wfFields (.cons t k fs) = true) (hv : validVs (.cons t k fs) (.cons v vs) = true)
    (i t' : Nat) (o : Bool) (ifs : Fields) (ivs : Vals)
    (hi : (headLive t k v)[i]? = some (t', .struct o ifs, .struct ivs))
    (nb : Bytes) (hnb : nb.length < 2 ^ 63) (hrun : ∃ a, runSlots o (compile ifs) false nb = .err a)
    (T : Bytes) :
    Refused all (.cons t k fs)
      (encItems ((headLive t k v).take i) ++ tlv t' nb ++ encItems ((headLive t k v).drop (i + 1)) ++ T) := by
  have hwf' := hwf
  have hv' := hv
  simp only [wfFields, Bool.and_eq_true] at hwf'
  simp only [validVs, Bool.and_eq_true] at hv'
  obtain ⟨c1, c2⟩ := head_corr t k v hwf'.1.1 hv'.1
  have hg := head_groupOk all false t k fs v vs hwf hv
  have hmem := List.mem_of_getElem? hi
  obtain ⟨_, _, _, _, hrd⟩ := head_struct_facts t k v hwf'.1.1 hv'.1 t' o ifs ivs hmem
  have htt : t' = t := (c2 _ hmem).1
  subst htt
  have hgi : (mkGroup k v)[i]? =
      some (.item (encFields ifs ivs).length (encFields ifs ivs) (.struct ivs)) := by
    rw [c1, List.getElem?_map, hi]
    simp [elOf_plain _ _ _ (show (Kind.struct o ifs).multi = 0 from rfl), bodyOf]
  have hold : ElOk all false (slotOf t' k) (.item (encFields ifs ivs).length (encFields ifs ivs) (.struct ivs)) :=
    hg.1 _ (List.mem_of_getElem? hgi)
  have hsplit := us_split_at (mkGroup k v) i _ hgi
  refine ⟨[], compile fs, slotOf t' k, [], (mkGroup k v).take i, encTL t' ++ encTL nb.length ++ nb,
    encItems ((headLive t' k v).drop (i + 1)) ++ T, ?_, ?_, ?_, ?_, ?_⟩
  · rw [compile_cons]; rfl
  · simp only [GroupsOk]
  · exact fun e he => hg.1 e (List.mem_of_mem_take he)
  · refine BadHead.inner (s := slotOf t' k) nb.length nb hold.1 hold.2.1 (by omega) (fun rest => ?_) (fun hm => ?_)
    · show ∃ a, readKind k nb.length false (nb ++ rest) = _
      rw [hrd]
      exact readStruct_err o ifs nb rest hnb hrun
    · have h1 := hg.2.1 hm
      rw [hsplit, itemVals_append] at h1
      simp only [itemVals, List.length_append, List.length_cons] at h1
      exact List.eq_nil_of_length_eq_zero (by omega)
  · simp only [groupsBytes, List.nil_append]
    rw [c1, ← List.map_take]
    show _ = groupBytes t' _ ++ _
    rw [groupBytes_map_elOf t' _ (fun it h => c2 it (List.mem_of_mem_take h))]
    simp only [tlv, List.append_assoc]

/-! ## at a position of the whole item list -/

/-- an unknown critical element at item boundary `j` of a non-empty model -/
theorem insert_refused (all : List Slot) (jt : Nat) (jbody : Bytes) (ht : jt < 2 ^ 64)
    (hb : jbody.length < 2 ^ 64) (hu : knownTyp all jt = false) (hc : critical jt = true) :
    ∀ (fs : Fields) (vs : Vals), wfFields fs = true → validVs fs vs = true → fs ≠ .nil →
    ∀ j, j ≤ (liveItems fs vs).length →
    Refused all fs
      (encItems ((liveItems fs vs).take j) ++ tlv jt jbody ++ encItems ((liveItems fs vs).drop j))
  | .nil, _, _, _, hne, _, _ => absurd rfl hne
  | .cons _ _ _, .nil, _, hv, _, _, _ => by simp [validVs] at hv
  | .cons t k fs, .cons v vs, hwf, hv, _, j, hj => by
    have hwf' := hwf
    have hv' := hv
    simp only [wfFields, Bool.and_eq_true] at hwf'
    simp only [validVs, Bool.and_eq_true] at hv'
    rw [liveItems_cons] at hj ⊢
    by_cases hjl : j ≤ (headLive t k v).length
    · have := refused_head_crit all t k fs v vs hwf hv j jt jbody ht hb hu hc (encItems (liveItems fs vs))
      rw [List.take_append_of_le_length hjl, List.drop_append_of_le_length hjl, encItems_append]
      simpa only [List.append_assoc] using this
    · have hlt : (headLive t k v).length < j := by omega
      have hfs : fs ≠ .nil := by
        intro h; subst h
        simp [liveItems_nil_left] at hj
        omega
      have ih := insert_refused all jt jbody ht hb hu hc fs vs hwf'.2 hv'.2 hfs (j - (headLive t k v).length)
        (by simp only [List.length_append] at hj; omega)
      have := refused_tail all t k fs v vs hwf hv _ ih
      rw [List.take_append, List.drop_append, List.take_of_length_le (by omega),
        List.drop_of_length_le (by omega), encItems_append]
      simpa only [List.append_assoc, List.nil_append] using this

/-- the body of the struct item at index `i` replaced by a body the inner model refuses -/
theorem replace_refused (all : List Slot) (t' : Nat) (o : Bool) (ifs : Fields) (ivs : Vals)
    (nb : Bytes) (hnb : nb.length < 2 ^ 63) (hrun : ∃ a, runSlots o (compile ifs) false nb = .err a) :
    ∀ (fs : Fields) (vs : Vals), wfFields fs = true → validVs fs vs = true →
    ∀ i, (liveItems fs vs)[i]? = some (t', .struct o ifs, .struct ivs) →
    Refused all fs
      (encItems ((liveItems fs vs).take i) ++ tlv t' nb ++ encItems ((liveItems fs vs).drop (i + 1)))
  | .nil, _, _, _, i, hi => by simp [liveItems_nil_left] at hi
  | .cons _ _ _, .nil, _, hv, _, _ => by simp [validVs] at hv
  | .cons t k fs, .cons v vs, hwf, hv, i, hi => by
    have hwf' := hwf
    have hv' := hv
    simp only [wfFields, Bool.and_eq_true] at hwf'
    simp only [validVs, Bool.and_eq_true] at hv'
    rw [liveItems_cons] at hi ⊢
    by_cases hil : i < (headLive t k v).length
    · rw [List.getElem?_append_left hil] at hi
      have := refused_head_inner all t k fs v vs hwf hv i t' o ifs ivs hi nb hnb hrun
        (encItems (liveItems fs vs))
      rw [List.take_append_of_le_length (by omega), List.drop_append_of_le_length (by omega), encItems_append]
      simpa only [List.append_assoc] using this
    · have hle : (headLive t k v).length ≤ i := by omega
      rw [List.getElem?_append_right hle] at hi
      have ih := replace_refused all t' o ifs ivs nb hnb hrun fs vs hwf'.2 hv'.2 _ hi
      have := refused_tail all t k fs v vs hwf hv _ ih
      rw [List.take_append, List.drop_append, List.take_of_length_le hle,
        List.drop_of_length_le (by omega), encItems_append]
      have e : i + 1 - (headLive t k v).length = i - (headLive t k v).length + 1 := by omega
      rw [e]
      simpa only [List.append_assoc, List.nil_append] using this

/-! ## the empty model -/

/-- a model without fields refuses an unknown critical element at once -/
theorem runSlots_nil_crit (ord : Bool) (jt : Nat) (jbody : Bytes) (ht : jt < 2 ^ 64)
    (hb : jbody.length < 2 ^ 64) (hc : critical jt = true) :
    ∃ a, runSlots ord [] false (tlv jt jbody) = .err a := by
  have hk : knownTyp [] jt = false := by simp [knownTyp]
  have e : tlv jt jbody = encTL jt ++ (encTL jbody.length ++ jbody) := by
    simp [tlv, List.append_assoc]
  cases ord with
  | false =>
    simp only [runSlots, Bool.false_eq_true, if_false, initAcc]
    have := LUF.loop_crit [] (tlv jt jbody).length jt jbody.length jbody .nil ht hb hk hc
    rw [← e] at this
    exact this
  | true =>
    simp only [runSlots, if_true, headInit]
    rw [e, LOF.loopO_crit [] false _ ([], .absent) jt jbody.length jbody ht hb hk rfl hc]
    exact ⟨0, rfl⟩

end Ndn.C13
