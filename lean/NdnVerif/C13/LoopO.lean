/-
  C13/LoopO.lean — the ORDERED generated parse loop (`loopO` of Model.lean) meets `LoopSpec true`:
  on a well-formed element stream (one group of elements per slot, in slot order, junk of unknown
  type anywhere) it skips the junk, hands every item to its slot and returns one value per slot.

  Proof organisation
  * `Yields r v` = "`r` is `.ok v _`" (the allocation counter is existentially quantified);
  * one-element step equations of `loopO` (`loopO_junk`, `loopO_known`);
  * `NoHit s b`: the byte stream `b` starts with junk elements followed by nothing or by a known
    element that slot `s` has no `case` for; `pass_lemma`: on such a stream the loop started with a
    non-required head slot `s` produces `cur` followed by what the loop started after `s` produces
    (this is the "slot is passed" step, it also covers the end of input);
  * `loopO_group`: the elements of the head group one by one; `loopO_main`: induction over the slots.
  Core Lean only.
-/
import NdnVerif.C13.LoopSpec
namespace Ndn.C13
namespace LO

/-! ## results up to the allocation counter -/

def Yields {α : Type} (r : Res α) (v : α) : Prop := ∃ a, r = .ok v a

theorem yields_ok {α : Type} (v : α) (n : Nat) : Yields (Res.ok v n) v := ⟨n, rfl⟩

theorem yields_ok_iff {α : Type} (v w : α) (n : Nat) : Yields (Res.ok v n) w ↔ w = v := by
  constructor
  · intro ⟨a, h⟩; injection h with h1 _; exact h1.symm
  · intro h; subst h; exact ⟨n, rfl⟩

theorem yields_bind_iff {α β : Type} (r : Res α) (f : α → Res β) (v : β) :
    Yields (r.bind f) v ↔ ∃ x, Yields r x ∧ Yields (f x) v := by
  constructor
  · intro ⟨a, h⟩
    cases r with
    | ok x n =>
      refine ⟨x, ⟨n, rfl⟩, ?_⟩
      simp only [Res.bind] at h
      cases hf : f x with
      | ok b m => rw [hf] at h; injection h with h1 _; subst h1; exact ⟨m, rfl⟩
      | err m => rw [hf] at h; cases h
      | panic => rw [hf] at h; cases h
      | fuel => rw [hf] at h; cases h
    | err n => simp only [Res.bind] at h; cases h
    | panic => simp only [Res.bind] at h; cases h
    | fuel => simp only [Res.bind] at h; cases h
  · intro ⟨x, ⟨n, hr⟩, ⟨m, hf⟩⟩
    subst hr
    exact ⟨n + m, by simp only [Res.bind, hf]⟩

/-! ## bytes -/

theorem encTL_ne_nil (x : Nat) : encTL x ≠ [] := by
  unfold encTL; repeat' split
  all_goals simp

theorem encTL_length_pos (x : Nat) : 0 < (encTL x).length := by
  have := encTL_ne_nil x
  cases h : encTL x with
  | nil => exact absurd h this
  | cons a r => simp

theorem skipN_body (body rest : Bytes) (h : body.length < 2 ^ 63) :
    skipN body.length (body ++ rest) = .ok rest 0 := by
  have h1 : goInt body.length = (body.length : Int) := by
    unfold goInt
    have h2 : body.length % 2 ^ 64 = body.length := Nat.mod_eq_of_lt (by omega)
    rw [h2, if_pos h]
  unfold skipN
  rw [h1, if_neg (by omega), if_neg (by simp), List.drop_left]

/-! ## one iteration of the ordered loop -/

/-- what the loop does with the outcome of `stepO` (same text as in `loopO`) -/
def contO (slots : List Slot) (ic : Bool) (f : Nat) (r2 : Bytes) : StepO → Res Vals
  | .at p rem' cur' r3 => (loopO slots ic f (some (rem', cur')) r3).bind fun vs => .ok (p.append vs) 0
  | .exhausted p => (loopO slots ic f none r2).bind fun vs => .ok (p.append vs) 0

theorem loopO_known (slots : List Slot) (ic : Bool) (f : Nat) (rem : List Slot) (cur : Val)
    (t l : Nat) (r2 : Bytes) (ht : t < 2 ^ 64) (hl : l < 2 ^ 64) (hk : knownTyp slots t = true) :
    loopO slots ic (f + 1) (some (rem, cur)) (encTL t ++ (encTL l ++ r2)) =
      (stepO rem cur t l ic r2).bind (contO slots ic f r2) := by
  rw [loopO, if_neg (by simp [encTL_ne_nil]), decTL_encTL t ht]
  simp only []
  rw [decTL_encTL l hl]
  simp only [hk, if_true]
  rfl

theorem loopO_junk (slots : List Slot) (ic : Bool) (f : Nat) (st : List Slot × Val)
    (t : Nat) (body rest : Bytes) (ht : t < 2 ^ 64) (hb : body.length < 2 ^ 63)
    (hk : knownTyp slots t = false) (hc : ic = true ∨ critical t = false) (vs : Vals) :
    Yields (loopO slots ic (f + 1) (some st) (tlv t body ++ rest)) vs ↔
      Yields (loopO slots ic f (some st) rest) vs := by
  have hb64 : body.length < 2 ^ 64 := by omega
  have hcc : (!ic && critical t) = false := by
    rcases hc with h | h <;> simp [h]
  obtain ⟨rem, cur⟩ := st
  have e : tlv t body ++ rest = encTL t ++ (encTL body.length ++ (body ++ rest)) := by
    simp [tlv, List.append_assoc]
  rw [e, loopO, if_neg (by simp [encTL_ne_nil]), decTL_encTL t ht]
  simp only []
  rw [decTL_encTL body.length hb64]
  simp only [hk, hcc, skipN_body body rest hb, Bool.false_eq_true, if_false]
  rw [yields_bind_iff]
  constructor
  · intro ⟨x, hx, h⟩
    rw [yields_ok_iff] at hx; subst hx; exact h
  · intro h; exact ⟨rest, yields_ok _ _, h⟩

theorem tlv_length_pos (t : Nat) (body : Bytes) : 0 < (tlv t body).length := by
  have := encTL_length_pos t
  simp [tlv]; omega

/-! ## `stepO` when the head slot has the `case` -/

theorem stepO_hit_multi (s : Slot) (ss : List Slot) (cur : Val) (l : Nat) (ic : Bool) (r2 r : Bytes)
    (v : Val) (a : Nat) (hh : s.hasTyp = true) (hr : s.read l ic r2 = .ok (v, r) a) (hm : s.multi ≠ 0) :
    Yields (stepO (s :: ss) cur s.typ l ic r2) (.at .nil (s :: ss) (merge s.multi cur v) r) := by
  rw [stepO, if_pos (by simp [hh]), hr]
  exact ⟨a + 0, by simp [Res.bind, hm]⟩

theorem stepO_hit_plain (s : Slot) (ss : List Slot) (cur : Val) (l : Nat) (ic : Bool) (r2 r : Bytes)
    (v : Val) (a : Nat) (hh : s.hasTyp = true) (hr : s.read l ic r2 = .ok (v, r) a) (hm : s.multi = 0) :
    Yields (stepO (s :: ss) cur s.typ l ic r2) (.at (.cons v .nil) ss (headInit ss) r) := by
  rw [stepO, if_pos (by simp [hh]), hr]
  exact ⟨a + 0, by simp [Res.bind, hm]⟩

theorem merge_zero (cur v : Val) : merge 0 cur v = v := by
  unfold merge; rfl

/-! ## passing a slot -/

/-- the stream consists of acceptable junk, then either ends or continues with an element that the
    model knows but slot `s` has no `case` for -/
inductive NoHit (slots : List Slot) (ic : Bool) (s : Slot) : Bytes → Prop where
  | nil : NoHit slots ic s []
  | junk (t : Nat) (body rest : Bytes) : t < 2 ^ 64 → body.length < 2 ^ 63 →
      knownTyp slots t = false → (ic = true ∨ critical t = false) →
      NoHit slots ic s rest → NoHit slots ic s (tlv t body ++ rest)
  | known (t l : Nat) (r2 : Bytes) : t < 2 ^ 64 → l < 2 ^ 64 → knownTyp slots t = true →
      (s.hasTyp && s.typ == t) = false → NoHit slots ic s (encTL t ++ (encTL l ++ r2))

theorem pass_lemma (slots : List Slot) (ic : Bool) (s : Slot) (ss : List Slot)
    (hreq : s.required = false) (b : Bytes) (h : NoHit slots ic s b) :
    ∀ (fuel : Nat) (cur : Val) (vs : Vals),
      Yields (loopO slots ic fuel (some (ss, headInit ss)) b) vs →
      Yields (loopO slots ic fuel (some (s :: ss, cur)) b) (.cons cur vs) := by
  induction h with
  | nil =>
    intro fuel cur vs hy
    cases fuel with
    | zero => obtain ⟨a, ha⟩ := hy; simp [loopO] at ha
    | succ f =>
      simp only [loopO, if_true] at hy ⊢
      simp only [finishO, hreq]
      rw [if_neg (by simp), yields_bind_iff]
      exact ⟨vs, hy, yields_ok _ _⟩
  | junk t body rest ht hb hk hc _ ih =>
    intro fuel cur vs hy
    cases fuel with
    | zero => obtain ⟨a, ha⟩ := hy; simp [loopO] at ha
    | succ f =>
      rw [loopO_junk slots ic f _ t body rest ht hb hk hc] at hy ⊢
      exact ih f cur vs hy
  | known t l r2 ht hl hk hn =>
    intro fuel cur vs hy
    cases fuel with
    | zero => obtain ⟨a, ha⟩ := hy; simp [loopO] at ha
    | succ f =>
      rw [loopO_known slots ic f _ _ t l r2 ht hl hk] at hy ⊢
      rw [yields_bind_iff] at hy ⊢
      obtain ⟨so, hso, hc⟩ := hy
      rw [stepO, hn, if_neg (by simp), hreq, if_neg (by simp)]
      cases so with
      | «at» p rem' c r =>
        refine ⟨.at (.cons cur p) rem' c r, ?_, ?_⟩
        · rw [yields_bind_iff]; exact ⟨_, hso, yields_ok _ _⟩
        · simp only [contO] at hc ⊢
          rw [yields_bind_iff] at hc ⊢
          obtain ⟨vs0, h0, h1⟩ := hc
          rw [yields_ok_iff] at h1; subst h1
          exact ⟨vs0, h0, yields_ok _ _⟩
      | exhausted p =>
        refine ⟨.exhausted (.cons cur p), ?_, ?_⟩
        · rw [yields_bind_iff]; exact ⟨_, hso, yields_ok _ _⟩
        · simp only [contO] at hc ⊢
          rw [yields_bind_iff] at hc ⊢
          obtain ⟨vs0, h0, h1⟩ := hc
          rw [yields_ok_iff] at h1; subst h1
          exact ⟨vs0, h0, yields_ok _ _⟩

theorem knownTyp_of_mem (slots : List Slot) (s : Slot) (hm : s ∈ slots) (hh : s.hasTyp = true) :
    knownTyp slots s.typ = true := by
  unfold knownTyp
  rw [List.any_eq_true]
  exact ⟨s, hm, by simp [hh]⟩

theorem groupBytes_nil (typ : Nat) : groupBytes typ [] = [] := rfl

theorem groupBytes_junk (typ t : Nat) (body : Bytes) (g : List El) :
    groupBytes typ (.junk t body :: g) = tlv t body ++ groupBytes typ g := by
  simp [groupBytes, El.bytes]

theorem groupBytes_item (typ l : Nat) (body : Bytes) (v : Val) (g : List El) (rest : Bytes) :
    groupBytes typ (.item l body v :: g) ++ rest =
      encTL typ ++ (encTL l ++ (body ++ (groupBytes typ g ++ rest))) := by
  simp [groupBytes, El.bytes, List.append_assoc]

/-- the groups of later slots never hit an earlier slot -/
theorem nohit_groups (slots : List Slot) (ic : Bool) (s : Slot) :
    ∀ (ss : List Slot) (gs : List (List El)), (∀ s' ∈ ss, s' ∈ slots) →
      (s.hasTyp = true → ∀ s' ∈ ss, s'.hasTyp = true → s'.typ ≠ s.typ) →
      GroupsOk slots ic ss gs → NoHit slots ic s (groupsBytes ss gs) := by
  intro ss
  induction ss with
  | nil => intro gs _ _ _; cases gs <;> exact NoHit.nil
  | cons s' ss' ih =>
    intro gs hmem hd hok
    cases gs with
    | nil => exact NoHit.nil
    | cons g gs' =>
      obtain ⟨⟨hel, -⟩, hok'⟩ := hok
      have htail : NoHit slots ic s (groupsBytes ss' gs') :=
        ih gs' (fun x hx => hmem x (List.mem_cons_of_mem _ hx))
          (fun hh x hx => hd hh x (List.mem_cons_of_mem _ hx)) hok'
      show NoHit slots ic s (groupBytes s'.typ g ++ groupsBytes ss' gs')
      clear hok'
      induction g with
      | nil => rw [groupBytes_nil]; exact htail
      | cons e g' ihg =>
        have hg' := ihg (fun x hx => hel x (List.mem_cons_of_mem _ hx))
        have he := hel e (List.mem_cons_self ..)
        cases e with
        | junk t body =>
          obtain ⟨ht, hb, hk, hc⟩ := he
          rw [groupBytes_junk, List.append_assoc]
          exact NoHit.junk t body _ ht hb hk hc hg'
        | item l body v =>
          obtain ⟨hh, ht, hl, _, _⟩ := he
          rw [groupBytes_item]
          refine NoHit.known s'.typ l _ ht hl
            (knownTyp_of_mem slots s' (hmem s' (List.mem_cons_self ..)) hh) ?_
          cases hsh : s.hasTyp with
          | false => simp
          | true =>
            have := hd hsh s' (List.mem_cons_self ..) hh
            simp; exact fun h => this h.symm

/-! ## junk-only stretch with any state -/

theorem loopO_junkgroup (slots : List Slot) (ic : Bool) (st : List Slot × Val) (s : Slot) (typ : Nat)
    (rest : Bytes) (vs : Vals)
    (hrest : ∀ fuel, fuel > rest.length → Yields (loopO slots ic fuel (some st) rest) vs) :
    ∀ (g : List El), (∀ e ∈ g, ElOk slots ic s e) → itemVals g = [] →
      ∀ fuel, fuel > (groupBytes typ g ++ rest).length →
        Yields (loopO slots ic fuel (some st) (groupBytes typ g ++ rest)) vs := by
  intro g
  induction g with
  | nil => intro _ _ fuel hf; rw [groupBytes_nil] at hf ⊢; exact hrest fuel hf
  | cons e g' ih =>
    intro hel hi fuel hf
    cases e with
    | item l body v => simp [itemVals] at hi
    | junk t body =>
      obtain ⟨ht, hb, hk, hc⟩ := hel _ (List.mem_cons_self ..)
      rw [groupBytes_junk, List.append_assoc] at hf ⊢
      have hp := tlv_length_pos t body
      cases fuel with
      | zero => omega
      | succ f =>
        rw [loopO_junk slots ic f st t body _ ht hb hk hc]
        refine ih (fun x hx => hel x (List.mem_cons_of_mem _ hx)) (by simpa [itemVals] using hi) f ?_
        rw [List.length_append] at hf; omega

/-! ## the head group, element by element -/

theorem loopO_group (slots : List Slot) (ic : Bool) (s : Slot) (ss : List Slot) (gs' : List (List El))
    (hs : s ∈ slots) (hss : ∀ s' ∈ ss, s' ∈ slots)
    (hd : s.hasTyp = true → ∀ s' ∈ ss, s'.hasTyp = true → s'.typ ≠ s.typ)
    (hgs : GroupsOk slots ic ss gs')
    (ih : ∀ fuel, fuel > (groupsBytes ss gs').length →
      Yields (loopO slots ic fuel (some (ss, headInit ss)) (groupsBytes ss gs')) (expected ss gs')) :
    ∀ (g : List El) (cur : Val) (fuel : Nat), (∀ e ∈ g, ElOk slots ic s e) →
      (s.multi = 0 → (itemVals g).length ≤ 1) → (s.required = true → (itemVals g).length = 1) →
      (s.required = true → s.multi = 0) →
      fuel > (groupBytes s.typ g ++ groupsBytes ss gs').length →
      Yields (loopO slots ic fuel (some (s :: ss, cur)) (groupBytes s.typ g ++ groupsBytes ss gs'))
        (.cons ((itemVals g).foldl (merge s.multi) cur) (expected ss gs')) := by
  intro g
  induction g with
  | nil =>
    intro cur fuel _ _ hr1 _ hf
    rw [groupBytes_nil, List.nil_append] at hf ⊢
    have hreq : s.required = false := by
      cases h : s.required with
      | false => rfl
      | true => have := hr1 h; simp [itemVals] at this
    exact pass_lemma slots ic s ss hreq _ (nohit_groups slots ic s ss gs' hss hd hgs) fuel cur _
      (ih fuel hf)
  | cons e g' ihg =>
    intro cur fuel hel h1 hr1 hrm hf
    have hel' : ∀ e ∈ g', ElOk slots ic s e := fun x hx => hel x (List.mem_cons_of_mem _ hx)
    cases e with
    | junk t body =>
      obtain ⟨ht, hb, hk, hc⟩ := hel _ (List.mem_cons_self ..)
      rw [groupBytes_junk, List.append_assoc] at hf ⊢
      have hp := tlv_length_pos t body
      cases fuel with
      | zero => omega
      | succ f =>
        rw [loopO_junk slots ic f _ t body _ ht hb hk hc]
        refine ihg cur f hel' h1 hr1 hrm ?_
        rw [List.length_append] at hf; omega
    | item l body v =>
      obtain ⟨hh, ht, hl, hread, _⟩ := hel _ (List.mem_cons_self ..)
      rw [groupBytes_item] at hf ⊢
      have hp := encTL_length_pos s.typ
      obtain ⟨a, hr⟩ := hread (groupBytes s.typ g' ++ groupsBytes ss gs')
      cases fuel with
      | zero => omega
      | succ f =>
        have hf' : f > (groupBytes s.typ g' ++ groupsBytes ss gs').length := by
          simp only [List.length_append] at hf ⊢; omega
        rw [loopO_known slots ic f _ _ s.typ l _ ht hl (knownTyp_of_mem slots s hs hh),
          yields_bind_iff]
        cases hm : s.multi with
        | zero =>
          -- plain slot: its value is emitted, the rest of the group is junk
          have hi : itemVals g' = [] := by
            have := h1 hm
            simp only [itemVals, List.length_cons] at this
            exact List.eq_nil_of_length_eq_zero (by omega)
          refine ⟨_, stepO_hit_plain s ss cur l ic _ _ v a hh hr hm, ?_⟩
          simp only [contO]
          rw [yields_bind_iff]
          refine ⟨expected ss gs', loopO_junkgroup slots ic _ s s.typ _ _ ih g' hel' hi f hf', ?_⟩
          simp only [itemVals, hi, List.foldl_cons, List.foldl_nil, merge_zero, Vals.append]
          exact yields_ok _ _
        | succ k =>
          have hm' : s.multi ≠ 0 := by omega
          have hnr : s.required = false := by
            cases h : s.required with
            | false => rfl
            | true => exact absurd (hrm h) hm'
          have hstep := stepO_hit_multi s ss cur l ic _ _ v a hh hr hm'
          rw [hm] at hstep
          refine ⟨_, hstep, ?_⟩
          simp only [contO]
          rw [yields_bind_iff]
          have hrec := ihg (merge (k + 1) cur v) f hel' (fun h => absurd h hm')
            (fun h => by rw [hnr] at h; cases h) hrm hf'
          rw [hm] at hrec
          refine ⟨_, hrec, ?_⟩
          simp only [itemVals, List.foldl_cons, Vals.append]
          exact yields_ok _ _

/-! ## all slots -/

/-- expected output when the head slot has already accumulated `cur` -/
def expectedC (cur : Val) : List Slot → List (List El) → Vals
  | s :: ss, g :: gs => .cons ((itemVals g).foldl (merge s.multi) cur) (expected ss gs)
  | _, _ => .nil

theorem expectedC_headInit (ss : List Slot) (gs : List (List El)) :
    expectedC (headInit ss) ss gs = expected ss gs := by
  cases ss with
  | nil => cases gs <;> rfl
  | cons s ss' => cases gs <;> rfl

theorem loopO_main (slots : List Slot) (ic : Bool) :
    ∀ (rem : List Slot) (gs : List (List El)) (cur : Val) (fuel : Nat),
      (∀ s ∈ rem, s ∈ slots) → DistinctTyps rem → GroupsOk slots ic rem gs →
      fuel > (groupsBytes rem gs).length →
      Yields (loopO slots ic fuel (some (rem, cur)) (groupsBytes rem gs)) (expectedC cur rem gs) := by
  intro rem
  induction rem with
  | nil =>
    intro gs cur fuel _ _ hok hf
    cases gs with
    | cons g gs' => exact absurd hok (by simp [GroupsOk])
    | nil =>
      cases fuel with
      | zero => simp [groupsBytes] at hf
      | succ f => exact ⟨0, by simp [loopO, groupsBytes, finishO, expectedC]⟩
  | cons s ss ih =>
    intro gs cur fuel hmem hdist hok hf
    cases gs with
    | nil => exact absurd hok (by simp [GroupsOk])
    | cons g gs' =>
      obtain ⟨⟨hel, h1, hr1, hrm⟩, hok'⟩ := hok
      obtain ⟨hd, hdist'⟩ := hdist
      have hss : ∀ s' ∈ ss, s' ∈ slots := fun x hx => hmem x (List.mem_cons_of_mem _ hx)
      have ih' : ∀ fuel, fuel > (groupsBytes ss gs').length →
          Yields (loopO slots ic fuel (some (ss, headInit ss)) (groupsBytes ss gs')) (expected ss gs') := by
        intro fuel' hf'
        have := ih gs' (headInit ss) fuel' hss hdist' hok' hf'
        rw [expectedC_headInit] at this
        exact this
      exact loopO_group slots ic s ss gs' (hmem s (List.mem_cons_self ..)) hss hd hok' ih' g cur fuel
        hel h1 hr1 hrm hf

/-- The ordered generated parse loop meets the loop specification: on every well-formed element
    stream it returns exactly one value per slot — the slot's initial value with all its items merged
    in — whatever acceptable junk is interleaved.  (`InitOk` is not needed for the ordered loop.) -/
theorem loopO_spec : LoopSpec true := by
  intro slots ic groups hdist _ hok
  have h := loopO_main slots ic slots groups (headInit slots) ((groupsBytes slots groups).length + 1)
    (fun _ h => h) hdist hok (by omega)
  rw [expectedC_headInit] at h
  simpa [runSlots, Yields] using h

end LO
end Ndn.C13

/-! ## non-vacuity: a concrete ordered model with junk between the items -/
namespace Ndn.C13
namespace LO

/-- binary(7), sequence of naturals(9), optional natural(11) -/
def exSlots : List Slot :=
  compile (.cons 7 .binary (.cons 9 (.seq (.natural false)) (.cons 11 (.natural true) .nil)))

/-- one item for slot 7 then junk 240; two items for slot 9 with junk 240 in between; slot 11 absent,
    junk 242 at the end -/
def exGroups : List (List El) :=
  [ [.item 2 [0xAA, 0xBB] (.bytes [0xAA, 0xBB]), .junk 240 [1, 2, 3]],
    [.item 1 [5] (.nat 5), .junk 240 [], .item 2 [1, 0] (.nat 256)],
    [.junk 242 [9]] ]

example : groupsBytes exSlots exGroups =
    [7, 2, 170, 187, 240, 3, 1, 2, 3, 9, 1, 5, 240, 0, 9, 2, 1, 0, 242, 1, 9] := by decide

example : expected exSlots exGroups =
    .cons (.bytes [170, 187]) (.cons (.seq (.cons (.nat 5) (.cons (.nat 256) .nil))) (.cons .absent .nil)) := by
  rfl

/-- the parse of the concrete stream, evaluated -/
example : runSlots true exSlots false
      [7, 2, 170, 187, 240, 3, 1, 2, 3, 9, 1, 5, 240, 0, 9, 2, 1, 0, 242, 1, 9] =
    .ok (.cons (.bytes [170, 187]) (.cons (.seq (.cons (.nat 5) (.cons (.nat 256) .nil))) (.cons .absent .nil))) 2 := by
  rfl

/-- the hypotheses of `loopO_spec` hold for this instance -/
example : DistinctTyps exSlots ∧ GroupsOk exSlots false exSlots exGroups := by
  refine ⟨by simp [DistinctTyps, exSlots, compile, Kind.hasTyp], ?_⟩
  simp [GroupsOk, GroupOk, ElOk, exSlots, exGroups, compile, Kind.hasTyp, Kind.required, Kind.multi,
    itemVals, knownTyp, critical, readKind, fits, goMake, maxAlloc, Res.bind, readNatLoop, natLenOk, readUintLoop, goInt, beDec, beDecMod]
  constructor <;> intro rest <;> rw [if_neg (by omega)] <;> exact ⟨_, rfl⟩

end LO
end Ndn.C13
