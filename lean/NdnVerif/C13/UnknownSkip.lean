/-
  C13/UnknownSkip.lean — an unrecognised element the caller tolerates (non-critical type number, or
  `ignoreCritical`), inserted at ANY item boundary at ANY nesting depth of a valid encoding, is
  skipped by the generated parsers and every field still decodes unchanged.

  The statement is about `insAt` of Text.lean — the function the correspondence harness checks
  against the real encoder/decoder (harness/c13 `InsertAt`): the extra element is inserted at
  boundary `k` of the nesting level reached through the struct items `sel`, and every enclosing
  length is recomputed.

  Proof (helper lemmas in UnknownSkipLemmas.lean): the live items of a field list are, field by
  field, the elements of the element stream `mkGroups` of the round-trip proof.  Inserting a junk
  element into one group, or replacing the body of one struct item by another body which the inner
  model decodes to the same value, keeps the stream an acceptable input (`GroupsOk`) with the same
  expected result, so the loop specifications `LU.loopU_spec` / `LO.loopO_spec` apply.  The nesting
  is an induction over `sel`; the bound `body.length < 2^63` needed by the struct reader follows from
  `insAt_length` (an edited encoding is at most 5× the original plus the new element).
  No hypothesis beyond those of the property is needed; the empty model (`fs = .nil`) is covered.
  Core Lean only.
-/
import NdnVerif.C13.UnknownSkipLemmas
namespace Ndn.C13

/-- the induction over the nesting path, with "unknown at every level" as non-membership -/
theorem unknown_skipped_aux (ic : Bool) (k jt : Nat) (jbody : Bytes)
    (ht : jt < 2 ^ 64) (hb : jbody.length < maxLen) (hc : ic = true ∨ critical jt = false) :
    ∀ (sel : List Nat) (fs : Fields) (vs : Vals) (ord : Bool) (b : Bytes),
      wfFields fs = true → validVs fs vs = true → jt ∉ fieldsTypes fs →
      insAt fs vs sel k (tlv jt jbody) = some b →
      ∃ a, runSlots ord (compile fs) ic b = .ok vs a
  | [], fs, vs, ord, b, hwf, hv, hu, h => by
    obtain ⟨hk, hb'⟩ := insAt_nil fs vs k _ b h
    subst hb'
    have hb63 : jbody.length < 2 ^ 63 := by simp only [maxLen] at hb; omega
    cases fs with
    | nil =>
      cases vs with
      | cons _ _ => simp [validVs] at hv
      | nil =>
        simp only [liveItems_nil_left, List.take_nil, List.drop_nil, encItems, List.flatMap_nil,
          List.nil_append, List.append_nil, compile]
        exact runSlots_nil_junk ord ic jt jbody ht hb63 hc
    | cons t kd fs' =>
      exact edited_run _ vs ord ic _ hwf
        (insert_edited _ ic jt jbody ⟨ht, hb63, knownTyp_compile jt _ hu, hc⟩ _ vs hwf hv
          (by intro h; cases h) k hk)
  | i :: sel, fs, vs, ord, b, hwf, hv, hu, h => by
    obtain ⟨t, o, ifs, ivs, nb, hi, hn, hb'⟩ := insAt_cons fs vs i sel k _ b h
    obtain ⟨iwf, iv, ilen, isub⟩ := struct_item_facts fs vs hwf hv t o ifs ivs (List.mem_of_getElem? hi)
    have ih := unknown_skipped_aux ic k jt jbody ht hb hc sel ifs ivs o nb iwf iv
      (fun hx => hu (isub _ hx)) hn
    have hlen := insAt_length k _ sel ifs ivs nb iwf iv hn
    have hnb : nb.length < 2 ^ 63 := by
      have h1 := us_tlLen_le jt
      have h2 := us_tlLen_le jbody.length
      simp only [tlv_length', tlvLen] at hlen
      simp only [maxLen] at hb ilen
      omega
    subst hb'
    exact edited_run fs vs ord ic _ hwf
      (replace_edited _ ic t o ifs ivs nb hnb ih fs vs hwf hv i hi)

/-- **Unknown elements are skipped, at any depth.**  For every well-formed field list `fs`, every
    valid value `vs`, both generated loops (`ord`) and both settings of `ignoreCritical`: if a TLV
    `jt jbody` whose type number is used nowhere in the model (`fieldsTypes`: at no nesting level,
    including map value types) and which the caller tolerates (`ic` or non-critical) is inserted by
    `insAt` at item boundary `k` of the level reached through the struct items `sel`, the result
    decodes to exactly `vs`. -/
theorem unknown_skipped_fields (fs : Fields) (vs : Vals) (ord ic : Bool) (sel : List Nat) (k jt : Nat)
    (jbody b : Bytes) :
    wfFields fs = true → validVs fs vs = true →
    jt < 2 ^ 64 → jbody.length < maxLen →
    (fieldsTypes fs).contains jt = false →
    (ic = true ∨ critical jt = false) →
    insAt fs vs sel k (tlv jt jbody) = some b →
    ∃ a, runSlots ord (compile fs) ic b = .ok vs a := by
  intro hwf hv ht hb hu hc h
  exact unknown_skipped_aux ic k jt jbody ht hb hc sel fs vs ord b hwf hv (by simpa using hu) h

/-- the same for a generated model: `Parse<Model>` of the edited encoding returns the value -/
theorem unknown_noncritical_skipped' (s : Schema) (v : Vals) (ic : Bool) (sel : List Nat) (k jt : Nat)
    (jbody b : Bytes) :
    wfSchema s = true → validVs s.fields v = true →
    jt < 2 ^ 64 → jbody.length < maxLen →
    (fieldsTypes s.fields).contains jt = false →
    (ic = true ∨ critical jt = false) →
    insAt s.fields v sel k (tlv jt jbody) = some b →
    ∃ a, parse s ic b = .ok v a :=
  fun hwf hv ht hb hu hc h =>
    unknown_skipped_fields s.fields v s.ordered ic sel k jt jbody b hwf hv ht hb hu hc h

/-! ## non-vacuity: `exFields`/`exVal` of RoundTrip.lean (an ordered nested struct, a sequence of
    structs, a map, a bool, an optional time); type 200 is non-critical and unknown at every level -/

/-- the edited encodings: inside the nested struct (item 0) after its only live item, inside the
    second element of the sequence of structs (item 2) before its first item, and at top level -/
def exNested : Bytes :=
  [1, 8, 7, 2, 1, 44, 200, 2, 1, 2, 2, 6, 7, 1, 1, 8, 1, 97, 2, 3, 7, 1, 2, 3, 1, 1, 5, 2, 1, 2, 3, 4, 0, 1,
   17, 112, 5, 0, 4, 0, 6, 1, 4]
def exSeqElem : Bytes :=
  [1, 4, 7, 2, 1, 44, 2, 6, 7, 1, 1, 8, 1, 97, 2, 7, 200, 2, 1, 2, 7, 1, 2, 3, 1, 1, 5, 2, 1, 2, 3, 4, 0, 1,
   17, 112, 5, 0, 4, 0, 6, 1, 4]

example : wfFields exFields = true ∧ validVs exFields exVal = true ∧
    (fieldsTypes exFields).contains 200 = false ∧ critical 200 = false := by decide
example : insAt exFields exVal [0] 1 (tlv 200 [1, 2]) = some exNested := by decide
example : insAt exFields exVal [2] 0 (tlv 200 [1, 2]) = some exSeqElem := by decide
/-- the hypotheses of `unknown_skipped_fields` are satisfiable for a nested position and its
    conclusion is what evaluation gives (both loops, critical elements not ignored) -/
example : ∃ a, runSlots false (compile exFields) false exNested = .ok exVal a := ⟨_, rfl⟩
example : ∃ a, runSlots true (compile exFields) false exNested = .ok exVal a := ⟨_, rfl⟩
example : ∃ a, parse ⟨"Ex", false, exFields⟩ false exSeqElem = .ok exVal a := ⟨_, rfl⟩
/-- and the theorem itself instantiated -/
example : ∃ a, parse ⟨"Ex", true, exFields⟩ false exNested = .ok exVal a :=
  unknown_noncritical_skipped' ⟨"Ex", true, exFields⟩ exVal false [0] 1 200 [1, 2] exNested
    (by decide) (by decide) (by decide) (by decide) (by decide) (Or.inr (by decide)) (by decide)

end Ndn.C13
