/-
  C13/Text.lean — canonical text form of values shared with the Go harness (harness/c13/value.go),
  item enumeration and insertion of an unknown element at a position (value side).
  Core Lean only.
-/
import NdnVerif.C13.Model
namespace Ndn.C13

/-! ## printing -/

def keyLe : Val → Val → Bool
  | .nat a, .nat b => a ≤ b
  | .bytes a, .bytes b => decide (a ≤ b)
  | _, _ => true

def pairKey : Val → Val
  | .pair k _ => k
  | v => v

def insertSorted (x : Val) : Vals → Vals
  | .nil => .cons x .nil
  | .cons y ys => if keyLe (pairKey x) (pairKey y) then .cons x (.cons y ys) else .cons y (insertSorted x ys)

def sortPairs : Vals → Vals
  | .nil => .nil
  | .cons x r => insertSorted x (sortPairs r)

mutual
/-- canonical form: map entries sorted by key (the Go side sorts when printing) -/
def Val.canon : Val → Val
  | .struct vs => .struct (Vals.canon vs)
  | .seq vs => .seq (Vals.canon vs)
  | .map kvs => .map (sortPairs (Vals.canon kvs))
  | .pair k v => .pair (Val.canon k) (Val.canon v)
  | v => v
def Vals.canon : Vals → Vals
  | .nil => .nil
  | .cons v vs => .cons (Val.canon v) (Vals.canon vs)
end

mutual
def Val.toTextRaw : Val → String
  | .absent => "_"
  | .tt => "T"
  | .nat n => toString n
  | .bytes b => "x" ++ hexOfBytes b
  | .name n => "N" ++ Name.toText n
  | .struct vs => "{" ++ Vals.toTextList vs ++ "}"
  | .seq vs => "[" ++ Vals.toTextList vs ++ "]"
  | .map kvs => "<" ++ Vals.toTextList kvs ++ ">"
  | .pair k v => Val.toTextRaw k ++ "=" ++ Val.toTextRaw v
def Vals.toTextList : Vals → String
  | .nil => ""
  | .cons v .nil => Val.toTextRaw v
  | .cons v (.cons w vs) => Val.toTextRaw v ++ "," ++ Vals.toTextList (.cons w vs)
end

/-- canonical text -/
def Val.toText (v : Val) : String := v.canon.toTextRaw

/-! ## parsing (driver side only) -/

def stopChar (c : Char) : Bool := c == ',' || c == '}' || c == ']' || c == '>' || c == '='

def spanTok (cs : List Char) : List Char × List Char := cs.span (fun c => !stopChar c)

mutual
partial def parseVal : List Char → Option (Val × List Char)
  | '_' :: r => some (.absent, r)
  | 'T' :: r => some (.tt, r)
  | 'x' :: r =>
    let (tok, r') := spanTok r
    (bytesOfHexAux tok).map fun b => (.bytes b, r')
  | 'N' :: r =>
    let (tok, r') := spanTok r
    (Name.ofText (String.ofList tok)).map fun n => (.name n, r')
  | '{' :: r => (parseList '}' r).map fun (vs, r') => (.struct (Vals.ofList vs), r')
  | '[' :: r => (parseList ']' r).map fun (vs, r') => (.seq (Vals.ofList vs), r')
  | '<' :: r => (parsePairs r).map fun (vs, r') => (.map (Vals.ofList vs), r')
  | cs =>
    let (tok, r') := spanTok cs
    (String.ofList tok).toNat?.map fun n => (.nat n, r')
partial def parseList (close : Char) : List Char → Option (List Val × List Char)
  | c :: r =>
    if c == close then some ([], r)
    else if c == ',' then parseList close r
    else do
      let (v, r') ← parseVal (c :: r)
      let (vs, r'') ← parseList close r'
      pure (v :: vs, r'')
  | [] => none
partial def parsePairs : List Char → Option (List Val × List Char)
  | '>' :: r => some ([], r)
  | ',' :: r => parsePairs r
  | cs => do
    let (k, r1) ← parseVal cs
    match r1 with
    | '=' :: r2 =>
      let (v, r3) ← parseVal r2
      let (ps, r4) ← parsePairs r3
      pure (.pair k v :: ps, r4)
    | _ => none
end

def Val.ofText (s : String) : Option Val :=
  match parseVal s.toList with
  | some (v, []) => some v
  | _ => none

/-! ## items and insertion positions (mirror of harness/c13/gen.go Items / InsertAt) -/

/-- the TLV items the encoder emits for a field list, in order: sequence elements one by one,
    a map entry (key TLV + value TLV) as one item, absent fields nothing.  An item is
    (type number, kind, value) with `encKind kind typ value` = its bytes. -/
def itemsOf : Fields → Vals → List (Nat × Kind × Val)
  | .cons t k fs, .cons v vs =>
    (match k, v with
     | .seq sub, .seq es => es.toList.map fun e => (t, sub, e)
     | .map kk vt vk, .map kvs => kvs.toList.map fun p => (t, .map kk vt vk, .map (.cons p .nil))
     | k, v => [(t, k, v)]) ++ itemsOf fs vs
  | _, _ => []

def encItem (it : Nat × Kind × Val) : Bytes := encKind it.2.1 it.1 it.2.2

def liveItems (fs : Fields) (vs : Vals) : List (Nat × Kind × Val) :=
  (itemsOf fs vs).filter fun it => !(encItem it).isEmpty

def encItems (l : List (Nat × Kind × Val)) : Bytes := l.flatMap encItem

/-- encoding of `vs` with `junk` inserted at boundary `k` of the level reached by descending through
    the struct items `sel`; every enclosing length is recomputed. -/
def insAt (fs : Fields) (vs : Vals) : List Nat → Nat → Bytes → Option Bytes
  | [], k, junk =>
    let its := liveItems fs vs
    if k ≤ its.length then some (encItems (its.take k) ++ junk ++ encItems (its.drop k)) else none
  | i :: sel, k, junk =>
    let its := liveItems fs vs
    match its[i]? with
    | some (t, .struct _ ifs, .struct ivs) =>
      (insAt ifs ivs sel k junk).map fun nb => encItems (its.take i) ++ tlv t nb ++ encItems (its.drop (i + 1))
    | _ => none

-- every type number used by a field list, at any depth
mutual
def kindTypes : Kind → List Nat
  | .struct _ fs => fieldsTypes fs
  | .seq sub => kindTypes sub
  | .map kk vt vk => vt :: (kindTypes kk ++ kindTypes vk)
  | _ => []
def fieldsTypes : Fields → List Nat
  | .nil => []
  | .cons t k fs => t :: (kindTypes k ++ fieldsTypes fs)
end

end Ndn.C13
