/-
  C13/Model.lean — generic TLV schema interpreter: what the GENERATED code does, for every schema.

  * `lenKind/lenFields`   mirror of `<Model>Encoder.Init` (the length pass, "announced" size)
  * `encKind/encFields`   mirror of `<Model>Encoder.EncodeInto`
  * `readKind`, `parseModel` mirror of the generated `Parse` loop of `codegen/model.go` (GenReadFrom)
    with the per-field readers of `codegen/fields_*.go`, reading from a contiguous buffer
    (`enc.BufferReader`, `std/encoding/readers.go`).  The reader is represented by the bytes that
    remain (`Pos() >= Length()` ⇔ remaining = []).
  Go runtime effects are explicit: `int(l)` conversions (`goInt`), `make` (`goMake`, panics when the
  size is out of range, otherwise counted in `alloc`), slice expressions (`goSlice`).  Fuel is an
  explicit outcome of the byte loops (`Res.fuel`), `parse_fuel_free` (C04) shows it never happens.
  Core Lean only.
-/
import NdnVerif.Gen.C13Facts
import NdnVerif.C13.Schema
namespace Ndn.C13

/-! ## Go primitives with explicit failure -/

inductive Res (α : Type) where
  | ok (a : α) (alloc : Nat)   -- value + bytes allocated because a LENGTH FIELD said so
  | err (alloc : Nat)          -- a Go `error` was returned
  | panic                      -- a Go run-time panic (slice bounds, makeslice, index)
  | fuel                       -- loop fuel exhausted (would be a spin)
deriving Repr

def Res.bind {α β : Type} (r : Res α) (f : α → Res β) : Res β :=
  match r with
  | .ok a n =>
    match f a with
    | .ok b m => .ok b (n + m)
    | .err m => .err (n + m)
    | .panic => .panic
    | .fuel => .fuel
  | .err n => .err n
  | .panic => .panic
  | .fuel => .fuel

def Res.map {α β : Type} (r : Res α) (f : α → β) : Res β := r.bind fun a => .ok (f a) 0

def Res.val? {α : Type} : Res α → Option α
  | .ok a _ => some a
  | _ => none

def Res.alloc {α : Type} : Res α → Nat
  | .ok _ n => n
  | .err n => n
  | _ => 0

def Res.isPanic {α : Type} : Res α → Bool
  | .panic => true
  | _ => false

/-- Go `int(x)` for `x : uint64` on a 64-bit platform -/
def goInt (x : Nat) : Int := if x % 2 ^ 64 < 2 ^ 63 then (x % 2 ^ 64 : Nat) else ((x % 2 ^ 64 : Nat) : Int) - 2 ^ 64

/-- largest allocation the Go runtime accepts (`maxAlloc`, 48 address bits) -/
def maxAlloc : Nat := 2 ^ 48

/-- Go `make([]T, n)` for `n : uint64`, element size `esz`: panics (`makeslice: len out of range`) when
    `n` does not fit an `int` or the size exceeds `maxAlloc`; otherwise allocates `n * esz` bytes. -/
def goMake (n esz : Nat) : Res Unit :=
  if n ≥ 2 ^ 63 ∨ n * esz > maxAlloc then .panic else .ok () (n * esz)

/-- Go slice expression `buf[lo:hi]` over `buf` of length `len`, with `int` operands -/
def goSlice (buf : Bytes) (lo hi : Int) : Res Bytes :=
  if 0 ≤ lo ∧ lo ≤ hi ∧ hi ≤ buf.length then .ok ((buf.drop lo.toNat).take (hi.toNat - lo.toNat)) 0 else .panic

/-! ## Encoding -/

/-- one TLV block -/
def tlv (t : Nat) (body : Bytes) : Bytes := encTL t ++ encTL body.length ++ body

/-- natural-number TLV: `GenEncodeTypeNum` + `GenNaturalNumberEncode(…, false)` -/
def encNatTLV (t n : Nat) : Bytes := encTL t ++ [natLen n] ++ encNat n

/-- `Component.EncodeInto` (type and length are TLNums) -/
def encComp (c : Component) : Bytes := encTL c.typ ++ encTL c.val.length ++ c.val

def encComps (n : Name) : Bytes := n.flatMap encComp

/-- `uint64(d / time.Millisecond)` where `ns` are the 64 bits of the `time.Duration` (int64, truncated
    division) -/
def timeMs (ns : Nat) : Nat :=
  if ns < 2 ^ 63 then ns / 1000000 else (2 ^ 64 - (2 ^ 64 - ns) / 1000000) % 2 ^ 64

/-- `InterestNameField.GenInitEncoder` with `needDigest = false`: a trailing
    ParametersSha256DigestComponent (type 2) is removed -/
def stripDigest (n : Name) : Name :=
  match n.getLast? with
  | some c => if c.typ = 2 then n.dropLast else n
  | none => n

mutual
/-- `GenEncodeInto` of one field of kind `k` and type number `t` -/
def encKind : Kind → Nat → Val → Bytes
  | .natural _, t, .nat n => encNatTLV t n
  | .time _, t, .nat ns => encNatTLV t (timeMs ns)
  | .fixedUint w _, t, .nat n => encTL t ++ [w] ++ be w n
  | .bool, t, .tt => encTL t ++ [0]
  | .binary, t, .bytes b => tlv t b
  | .string _, t, .bytes b => tlv t b
  | .wire, t, .bytes b => tlv t b
  -- SignatureValue: the value is the signature the CALLER supplies (signing path: `<Model>Encoder`
  -- with `Sig_estLen = len(sig)` and the signer's output copied into the reserved `T L value`);
  -- with the plain `Encode()` (`Sig_estLen = 0`) the field is absent and nothing is written.
  | .signature, t, .bytes b => tlv t b
  | .name, t, .name n => tlv t (encComps n)
  | .interestName, t, .name n => tlv t (encComps (stripDigest n))
  | .struct _ fs, t, .struct vs => tlv t (encFields fs vs)
  | .seq sub, t, .seq vs => encSeq sub t vs
  | .map kk vt vk, t, .map kvs => encMap kk vt vk t kvs
  | _, _, _ => []
/-- `EncodeInto`: the fields in declaration order -/
def encFields : Fields → Vals → Bytes
  | .cons t k fs, .cons v vs => encKind k t v ++ encFields fs vs
  | _, _ => []
def encSeq : Kind → Nat → Vals → Bytes
  | k, t, .cons v vs => encKind k t v ++ encSeq k t vs
  | _, _, .nil => []
def encMap : Kind → Nat → Kind → Nat → Vals → Bytes
  | kk, vt, vk, t, .cons (.pair a b) kvs => encKind kk t a ++ encKind vk vt b ++ encMap kk vt vk t kvs
  | kk, vt, vk, t, .cons _ kvs => encMap kk vt vk t kvs
  | _, _, _, _, .nil => []
end

/-- announced length of a TLV with a body of `n` bytes: `GenTypeNumLen` + `GenNaturalNumberLen(…, true)` -/
def tlvLen (t n : Nat) : Nat := tlLen t + tlLen n + n

mutual
/-- `GenEncodingLength` of one field: what `Init` adds to `encoder.length` -/
def lenKind : Kind → Nat → Val → Nat
  | .natural _, t, .nat n => tlLen t + 1 + natLen n
  | .time _, t, .nat ns => tlLen t + 1 + natLen (timeMs ns)
  | .fixedUint w _, t, .nat _ => tlLen t + 1 + w
  | .bool, t, .tt => tlLen t + 1
  | .binary, t, .bytes b => tlvLen t b.length
  | .string _, t, .bytes b => tlvLen t b.length
  | .wire, t, .bytes b => tlvLen t b.length
  | .signature, t, .bytes b => tlvLen t b.length   -- `Sig_estLen = len(sig)`; absent ⇒ 0
  | .name, t, .name n => tlvLen t ((n.map fun c => tlLen c.typ + tlLen c.val.length + c.val.length).sum)
  | .interestName, t, .name n =>
      tlvLen t (((stripDigest n).map fun c => tlLen c.typ + tlLen c.val.length + c.val.length).sum)
  | .struct _ fs, t, .struct vs => tlvLen t (lenFields fs vs)
  | .seq sub, t, .seq vs => lenSeq sub t vs
  | .map kk vt vk, t, .map kvs => lenMap kk vt vk t kvs
  | _, _, _ => 0
def lenFields : Fields → Vals → Nat
  | .cons t k fs, .cons v vs => lenKind k t v + lenFields fs vs
  | _, _ => 0
def lenSeq : Kind → Nat → Vals → Nat
  | k, t, .cons v vs => lenKind k t v + lenSeq k t vs
  | _, _, .nil => 0
def lenMap : Kind → Nat → Kind → Nat → Vals → Nat
  | kk, vt, vk, t, .cons (.pair a b) kvs => lenKind kk t a + lenKind vk vt b + lenMap kk vt vk t kvs
  | kk, vt, vk, t, .cons _ kvs => lenMap kk vt vk t kvs
  | _, _, _, _, .nil => 0
end

def encode (s : Schema) (v : Vals) : Bytes := encFields s.fields v
def encLen (s : Schema) (v : Vals) : Nat := lenFields s.fields v

/-! ## Decoding -/

/-- components strictly inside the name's value bytes (`fields_name.go` GenReadFrom: a component
    that crosses `endName` ends in `ErrBufferOverflow`/`ErrUnexpectedEOF` — both are `none`).
    Fuel: every component consumes at least two bytes. -/
def decComps : Nat → Bytes → Option Name
  | 0, _ => none
  | f + 1, b =>
    if b = [] then some []
    else match decTL b with
      | none => none
      | some (t, r1) =>
        match decTL r1 with
        | none => none
        | some (l, r2) =>
          if l > r2.length then none
          else match decComps f (r2.drop l) with
            | none => none
            | some n => some (⟨t, r2.take l⟩ :: n)

/-- remaining-bytes guard introduced by the repairs of F-04a/F-04e: a length that exceeds what the
    reader still holds is `io.ErrUnexpectedEOF` before anything is allocated. -/
def fits (l : Nat) (rest : Bytes) : Bool := l ≤ rest.length

/-- `BufferReader.Skip(int(l))` (repaired: negative and overflowing `n` are errors) -/
def skipN (l : Nat) (rest : Bytes) : Res Bytes :=
  if goInt l < 0 then .err 0
  else if l > rest.length then .err 0
  else .ok (rest.drop l) 0

/-- `v = uintW(v<<8) | uintW(x)` over the bytes read: big-endian value truncated to `w` bytes at every step -/
def beDecMod (w : Nat) : Nat → Bytes → Nat
  | acc, [] => acc
  | acc, x :: t => beDecMod w ((acc * 256 + x) % 256 ^ w) t

/-- `for i := 0; i < int(l); i++ { x, err = reader.ReadByte() … v = v<<8 | x }` with the value
    truncated to `w` bytes: no iteration when `int(l)` is negative. -/
def readUintLoop (w l : Nat) (rest : Bytes) : Res (Val × Bytes) :=
  if goInt l < 0 then .ok (.nat 0, rest) 0
  else if l > rest.length then .err 0
  else .ok (.nat (beDecMod w 0 (rest.take l)), rest.drop l) 0

/-- a non-negative integer of the NDN packet format is 1, 2, 4 or 8 bytes long; whether the generated decoders
    ENFORCE that is a regenerated fact (`Gen/C13Facts.lean`, read off the decoder template on every run): on a
    tree whose template accepts every length the model does too — and `natural_of_other_width_rejected` no
    longer checks. -/
def natLenOk (l : Nat) : Bool :=
  !Ndn.Gen.C13.naturalWidthChecked || (l == 1 || l == 2 || l == 4 || l == 8)

/-- natural and time fields (`GenNaturalNumberDecode`; repair F-13e: before it EVERY length was
    accepted — `6a 03 01 02 03` decoded to 66051, `6a 00` to 0, nine bytes lost their first):
    `if l != 1 && l != 2 && l != 4 && l != 8 { err = ErrFormat } else { the byte loop }` -/
def readNatLoop (l : Nat) (rest : Bytes) : Res (Val × Bytes) :=
  if natLenOk l then readUintLoop 8 l rest else .err 0

/-- `reader.ReadWire(int(l))` on a BufferReader (repaired bounds) -/
def readWire (l : Nat) (rest : Bytes) : Res (Val × Bytes) :=
  if goInt l < 0 then .err 0
  else if rest = [] ∧ l > 0 then .err 0
  else if l > rest.length then .err 0
  else .ok (.bytes (rest.take l), rest.drop l) 0

/-- `make(enc.Name, l/2+1)` + component loop (repaired: `l` is checked against the remaining bytes
    first). A `Component` is 32 bytes (uint64 + slice header). -/
def readName (l : Nat) (rest : Bytes) : Res (Val × Bytes) :=
  if !fits l rest then .err 0
  else (goMake (l / 2 + 1) 32).bind fun _ =>
    match decComps (l + 1) (rest.take l) with
    | none => .err 0
    | some n => .ok (.name n, rest.drop l) 0

/-- `reader.Delegate(int(l))` on a BufferReader (repaired bounds): an out-of-range length yields an
    EMPTY sub-reader and does not advance the parent. -/
def delegate (l : Nat) (rest : Bytes) : Bytes × Bytes :=
  if goInt l < 0 ∨ l > rest.length then ([], rest) else (rest.take l, rest.drop l)

/-- one field slot of a compiled model: everything the parse loop needs to know about the field -/
structure Slot where
  typ : Nat
  hasTyp : Bool
  required : Bool
  multi : Nat
  init : Val
  read : Nat → Bool → Bytes → Res (Val × Bytes)   -- length, ignoreCritical, remaining ↦ value, remaining

/-- Go map assignment `m[k] = v` on the association list (insertion order kept, later wins) -/
def mapInsert : Vals → Val → Val → (Val → Val → Bool) → Vals
  | .nil, k, v, _ => .cons (.pair k v) .nil
  | .cons (.pair k' v') r, k, v, eq => if eq k' k then .cons (.pair k v) r else .cons (.pair k' v') (mapInsert r k v eq)
  | .cons x r, k, v, eq => .cons x (mapInsert r k v eq)

/-- key equality for map keys (natural or string keys) -/
def keyEq : Val → Val → Bool
  | .nat a, .nat b => a == b
  | .bytes a, .bytes b => a == b
  | _, _ => false

/-- how a newly read value is stored into the field: plain fields overwrite, sequences append,
    maps assign -/
def merge (multi : Nat) (cur v : Val) : Val :=
  match multi, cur, v with
  | 1, .seq vs, v => .seq (vs.snoc v)
  | 1, _, v => .seq (.cons v .nil)
  | 2, .map kvs, .pair k x => .map (mapInsert kvs k x keyEq)
  | 2, _, .pair k x => .map (.cons (.pair k x) .nil)
  | _, _, v => v

/-! ### unordered models: `if handled := false; true { switch typ { case T: … default: … } }` -/

def Vals.head : Vals → Val
  | .nil => .absent
  | .cons v _ => v
def Vals.tail : Vals → Vals
  | .nil => .nil
  | .cons _ r => r

/-- dispatch of one TLV on the field list: `some` = a `case` matched and the field was read -/
def stepU : List Slot → Nat → Nat → Bool → Bytes → Vals → Res (Option (Vals × Bytes))
  | [], _, _, _, _, _ => .ok none 0
  | s :: ss, typ, l, ic, rest, acc =>
    if s.hasTyp && s.typ == typ then
      (s.read l ic rest).bind fun (v, r) => .ok (some (.cons (merge s.multi acc.head v) acc.tail, r)) 0
    else
      (stepU ss typ l ic rest acc.tail).bind fun o => .ok (o.map fun (x, r) => (.cons acc.head x, r)) 0

/-- the final `if !handled_X && err == nil { skip-process }` pass -/
def finishU : List Slot → Vals → Res Vals
  | [], _ => .ok .nil 0
  | s :: ss, acc =>
    match acc.head, s.required with
    | .absent, true => .err 0
    | v, _ => (finishU ss acc.tail).bind fun r => .ok (.cons v r) 0

def initAcc : List Slot → Vals
  | [] => .nil
  | s :: ss => .cons s.init (initAcc ss)

def loopU (slots : List Slot) (ic : Bool) : Nat → Bytes → Vals → Res Vals
  | 0, _, _ => .fuel
  | f + 1, rest, acc =>
    if rest = [] then finishU slots acc
    else match decTL rest with
      | none => .err 0
      | some (typ, r1) =>
        match decTL r1 with
        | none => .err 0
        | some (l, r2) =>
          (stepU slots typ l ic r2 acc).bind fun
            | some (acc', r3) => loopU slots ic f r3 acc'
            | none =>
              if !ic && critical typ then .err 0
              else (skipN l r2).bind fun r3 => loopU slots ic f r3 acc

/-! ### ordered models:
    `for handled := false; !handled && progress < N; progress++ { switch typ { case T: if progress+1 == i {…} … } }`
    The state is the list of slots not yet passed (`progress + 1` = number of passed slots) together
    with what the head slot has accumulated (sequences/maps stay at their slot: `progress--`);
    `none` = `progress == N` was reached by a recognised out-of-order element: from then on the loop
    body no longer runs, element values are not even skipped.
    REPAIRED F-13a: an unrecognised element does not advance `progress`. -/

inductive StepO where
  | at (passed : Vals) (rem : List Slot) (cur : Val) (rest : Bytes)
  | exhausted (passed : Vals)

def headInit : List Slot → Val
  | [] => .absent
  | s :: _ => s.init

def stepO : List Slot → Val → Nat → Nat → Bool → Bytes → Res StepO
  | [], _, _, _, _, _ => .ok (.exhausted .nil) 0
  | s :: ss, cur, typ, l, ic, rest =>
    if s.hasTyp && s.typ == typ then
      (s.read l ic rest).bind fun (v, r) =>
        if s.multi ≠ 0 then .ok (.at .nil (s :: ss) (merge s.multi cur v) r) 0
        else .ok (.at (.cons v .nil) ss (headInit ss) r) 0
    else if s.required then .err 0      -- `switch progress { case i-1: err = ErrSkipRequired }`
    else
      (stepO ss (headInit ss) typ l ic rest).bind fun
        | .at p rem c r => .ok (.at (.cons cur p) rem c r) 0
        | .exhausted p => .ok (.exhausted (.cons cur p)) 0

/-- the fields never reached get their skip-process at the end -/
def finishO : List Slot → Val → Res Vals
  | [], _ => .ok .nil 0
  | s :: ss, cur =>
    if s.required then .err 0
    else (finishO ss (headInit ss)).bind fun r => .ok (.cons cur r) 0

def knownTyp (slots : List Slot) (typ : Nat) : Bool := slots.any fun s => s.hasTyp && s.typ == typ

def loopO (slots : List Slot) (ic : Bool) : Nat → Option (List Slot × Val) → Bytes → Res Vals
  | 0, _, _ => .fuel
  | f + 1, st, rest =>
    if rest = [] then
      match st with
      | some (rem, cur) => finishO rem cur
      | none => .ok .nil 0
    else match decTL rest with
      | none => .err 0
      | some (typ, r1) =>
        match decTL r1 with
        | none => .err 0
        | some (l, r2) =>
          match st with
          | none => loopO slots ic f none r2
          | some (rem, cur) =>
            if knownTyp slots typ then
              (stepO rem cur typ l ic r2).bind fun
                | .at p rem' cur' r3 => (loopO slots ic f (some (rem', cur')) r3).bind fun vs => .ok (p.append vs) 0
                | .exhausted p => (loopO slots ic f none r2).bind fun vs => .ok (p.append vs) 0
            else if !ic && critical typ then .err 0
            else (skipN l r2).bind fun r3 => loopO slots ic f (some (rem, cur)) r3

/-- run a compiled model over the bytes of one reader -/
def runSlots (ordered : Bool) (slots : List Slot) (ic : Bool) (b : Bytes) : Res Vals :=
  if ordered then loopO slots ic (b.length + 1) (some (slots, headInit slots)) b
  else loopU slots ic (b.length + 1) b (initAcc slots)

/-- `MapField.GenReadFrom`: key, then T and L of the value, which must have type `vt` -/
def readMap (rk rv : Nat → Bool → Bytes → Res (Val × Bytes)) (vt : Nat) (l : Nat) (ic : Bool) (rest : Bytes) :
    Res (Val × Bytes) :=
  (rk l ic rest).bind fun (k, r0) =>
    match decTL r0 with
    | none => .err 0
    | some (typ, r1) =>
      match decTL r1 with
      | none => .err 0
      | some (l2, r2) =>
        if typ ≠ vt then .err 0
        else (rv l2 ic r2).bind fun (v, r3) => .ok (.pair k v, r3) 0

mutual
/-- `GenReadFrom` of one field: given the decoded length and the bytes after the L field -/
def readKind : Kind → Nat → Bool → Bytes → Res (Val × Bytes)
  | .natural _, l, _, rest => readNatLoop l rest
  | .time _, l, _, rest =>
      (readNatLoop l rest).bind fun
        | (.nat ms, r) => .ok (.nat (min ms 9223372036854 * 1000000), r) 0
        | x => .ok x 0
  | .fixedUint 1 _, _, _, rest =>
      -- `reader.ReadByte()` / `reader.Skip(1)`: the length is not looked at
      match rest with
      | [] => .err 0
      | x :: r => .ok (.nat x, r) 0
  | .fixedUint w _, l, _, rest => readUintLoop w l rest
  | .bool, _, _, rest => .ok (.tt, rest) 0
  | .binary, l, _, rest =>
      -- repaired: `if l > remaining { err } else { make([]byte, l); io.ReadFull }`
      if !fits l rest then .err 0
      else (goMake l 1).bind fun _ => .ok (.bytes (rest.take l), rest.drop l) 0
  | .string _, l, _, rest =>
      -- io.CopyN(&builder, reader, int64(l)): a negative count copies nothing and reports no error
      if goInt l < 0 then .ok (.bytes [], rest) 0
      else if l > rest.length then .err rest.length
      else .ok (.bytes (rest.take l), rest.drop l) l
  | .wire, l, _, rest => readWire l rest
  | .signature, l, _, rest => readWire l rest
  | .name, l, _, rest => readName l rest
  | .interestName, l, _, rest => readName l rest
  | .struct ord fs, l, ic, rest =>
      let (sub, rest') := delegate l rest
      (runSlots ord (compile fs) ic sub).bind fun vs => .ok (.struct vs, rest') 0
  | .seq sub, l, ic, rest => readKind sub l ic rest
  | .map kk vt vk, l, ic, rest => readMap (readKind kk) (readKind vk) vt l ic rest
  | .marker, _, _, rest => .ok (.absent, rest) 0
def compile : Fields → List Slot
  | .nil => []
  -- `{{- if (ne $f.TypeNum 0)}} case …`: a field without a type number has no `case`
  | .cons t k fs => ⟨t, k.hasTyp && t != 0, k.required, k.multi, k.init, readKind k⟩ :: compile fs
end

/-- `Parse<Model>(enc.NewBufferReader(b), ignoreCritical)` -/
def parse (s : Schema) (ic : Bool) (b : Bytes) : Res Vals :=
  runSlots s.ordered (compile s.fields) ic b

end Ndn.C13
