/-
  C13/KindRT.lean — field-level round trip: every field kind decodes its own encoding.
  Core Lean only.
-/
import NdnVerif.C13.Lemmas
namespace Ndn.C13

/-- value bytes of a (non-multi) field: `encKind k t v = encTL t ++ encTL body.length ++ body` -/
def bodyOf : Kind → Val → Bytes
  | .natural _, .nat n => encNat n
  | .time _, .nat ns => encNat (timeMs ns)
  | .fixedUint w _, .nat n => be w n
  | .binary, .bytes b => b
  | .string _, .bytes b => b
  | .wire, .bytes b => b
  | .signature, .bytes b => b
  | .name, .name n => encComps n
  | .interestName, .name n => encComps (stripDigest n)
  | .struct _ fs, .struct vs => encFields fs vs
  | _, _ => []

theorem encTL_small (x : Nat) (h : x ≤ 0xfc) : encTL x = [x] := by simp [encTL, h]

/-- the encoder only ever writes the four widths the decoder accepts -/
theorem natLenOk_encNat (n : Nat) : natLenOk (encNat n).length = true := by
  rw [encNat_length]; unfold natLen natLenOk; repeat' split
  all_goals decide

theorem readNatLoop_encNat (n : Nat) (rest : Bytes) :
    readNatLoop (encNat n).length (encNat n ++ rest) = readUintLoop 8 (encNat n).length (encNat n ++ rest) := by
  unfold readNatLoop; rw [natLenOk_encNat]; rfl

theorem natLen_le (n : Nat) : natLen n ≤ 8 := by
  unfold natLen
  repeat' split
  all_goals omega

/-- normal form of the encoding of a present plain field -/
theorem encKind_eq_tlv (k : Kind) (t : Nat) (v : Val) (hwf : wfKind k = true) (hk : k.multi = 0)
    (hv : validV k v = true) (hp : v ≠ .absent) :
    encKind k t v = encTL t ++ encTL (bodyOf k v).length ++ bodyOf k v := by
  cases k <;> cases v <;> simp_all [validV, encKind, bodyOf, tlv, encNatTLV, Kind.multi]
  · rw [encNat_length, encTL_small _ (by have := natLen_le ‹Nat›; omega)]; rfl
  · rename_i w o n
    simp [wfKind] at hwf
    rcases hwf with ((h | h) | h) | h <;> subst h <;> simp [encTL]
  · rename_i o ns
    rw [encNat_length, encTL_small _ (by have := natLen_le (timeMs ns); omega)]; rfl
  · simp [encTL]

theorem goInt_nonneg (l : Nat) (h : l < 2 ^ 63) : ¬ goInt l < 0 := by
  unfold goInt
  have : l % 2 ^ 64 = l := Nat.mod_eq_of_lt (by omega)
  rw [this]; simp [h]

theorem take_append_len (b rest : Bytes) : (b ++ rest).take b.length = b := by simp
theorem drop_append_len (b rest : Bytes) : (b ++ rest).drop b.length = rest := by simp

theorem beDecMod_eq (w : Nat) (b : Bytes) :
    ∀ acc, acc < 256 ^ w → beDecMod w acc b = (acc * 256 ^ b.length + beDec b) % 256 ^ w := by
  induction b with
  | nil => intro acc h; simp [beDecMod, beDec, Nat.mod_eq_of_lt h]
  | cons x t ih =>
    intro acc _
    simp only [beDecMod, beDec, List.length_cons]
    rw [ih _ (Nat.mod_lt _ (Nat.pow_pos (by omega)))]
    have e : acc * 256 ^ (t.length + 1) + (x * 256 ^ t.length + beDec t)
        = (acc * 256 + x) * 256 ^ t.length + beDec t := by
      rw [Nat.pow_succ, Nat.add_mul, Nat.mul_assoc, Nat.mul_comm (256 ^ t.length) 256]; omega
    rw [e, Nat.add_mod, Nat.mul_mod, Nat.mod_mod, ← Nat.mul_mod, ← Nat.add_mod]

theorem readUintLoop_spec (w : Nat) (b rest : Bytes) (hl : b.length < 2 ^ 63) :
    readUintLoop w b.length (b ++ rest) = .ok (.nat (beDec b % 256 ^ w), rest) 0 := by
  unfold readUintLoop
  rw [if_neg (goInt_nonneg _ hl), if_neg (by simp)]
  simp [beDecMod_eq w _ 0 (Nat.pow_pos (by omega))]

theorem encNat_dec (n : Nat) (h : n < 2 ^ 64) : beDec (encNat n) = n := by
  have := decNat_encNat n h
  unfold decNat at this
  split at this
  · simpa using this
  · simp at this

theorem timeMs_back (ns : Nat) (h1 : ns % 1000000 = 0) (h2 : ns < 2 ^ 63) :
    min (timeMs ns) 9223372036854 * 1000000 = ns := by
  unfold timeMs
  rw [if_pos h2]
  have : ns / 1000000 * 1000000 = ns := by omega
  have hle : ns / 1000000 ≤ 9223372036854 := by omega
  rw [Nat.min_eq_left hle, this]

theorem timeMs_lt (ns : Nat) (h2 : ns < 2 ^ 63) : timeMs ns < 2 ^ 64 := by
  unfold timeMs; rw [if_pos h2]; omega

/-- `decComps` reads back `encComps` -/
theorem decComps_encComps (n : Name) (hn : n.all compOk = true) :
    ∀ f, (encComps n).length < f → decComps f (encComps n) = some n := by
  induction n with
  | nil => intro f hf; cases f with
    | zero => simp at hf
    | succ f => simp [decComps, encComps]
  | cons c r ih =>
    intro f hf
    simp only [List.all_cons, Bool.and_eq_true] at hn
    have hc := hn.1
    simp [compOk, maxLen] at hc
    have hc2 : c.val.length < 2 ^ 64 := by have := of_decide_eq_true hc.2; omega
    cases f with
    | zero => simp at hf
    | succ f =>
      have he : encComps (c :: r) = encTL c.typ ++ (encTL c.val.length ++ (c.val ++ encComps r)) := by
        simp [encComps, encComp, List.append_assoc]
      have hne : encComps (c :: r) ≠ [] := by
        rw [he]; intro h
        have := congrArg List.length h
        simp [encTL_length] at this
        have h1 : 1 ≤ tlLen c.typ := by
          unfold tlLen
          repeat' split
          all_goals omega
        omega
      have hlen : (encComps r).length < f := by
        rw [he] at hf; simp [encTL_length] at hf
        have h1 : 1 ≤ tlLen c.typ := by
          unfold tlLen
          repeat' split
          all_goals omega
        omega
      unfold decComps
      rw [if_neg hne, he, decTL_encTL _ hc.1, ]
      simp only []
      rw [decTL_encTL _ hc2]
      simp only []
      rw [if_neg (by simp)]
      simp only [drop_append_len, take_append_len]
      rw [ih hn.2 f hlen]


theorem delegate_exact (b rest : Bytes) (h : b.length < 2 ^ 63) : delegate b.length (b ++ rest) = (b, rest) := by
  unfold delegate
  rw [if_neg]
  · simp
  · intro hc
    rcases hc with hc | hc
    · exact goInt_nonneg _ h hc
    · simp at hc; omega

/-- a struct field: whatever body the inner model accepts is accepted as the field's value -/
theorem readStruct_of_inner (ord : Bool) (fs : Fields) (body : Bytes) (vs : Vals) (ic : Bool) (rest : Bytes)
    (hb : body.length < 2 ^ 63) (h : ∃ a, runSlots ord (compile fs) ic body = .ok vs a) :
    ∃ a, readKind (.struct ord fs) body.length ic (body ++ rest) = .ok (.struct vs, rest) a := by
  obtain ⟨a, ha⟩ := h
  refine ⟨a + 0, ?_⟩
  simp only [readKind, delegate_exact body rest hb, ha, Res.bind]

theorem stripDigest_id (n : Name) (h : lastIsDigest n = false) : stripDigest n = n := by
  unfold stripDigest lastIsDigest at *
  split
  · rename_i c hc
    rw [hc] at h
    simp at h
    simp [h]
  · rfl

theorem goMake_ok (n esz : Nat) (h1 : n < 2 ^ 63) (h2 : n * esz ≤ maxAlloc) : goMake n esz = .ok () (n * esz) := by
  unfold goMake
  rw [if_neg]; omega

theorem readName_spec (n : Name) (rest : Bytes) (hn : nameOk n = true) :
    ∃ a, readName (encComps n).length (encComps n ++ rest) = .ok (.name n, rest) a := by
  simp only [nameOk, Bool.and_eq_true] at hn
  have hl := of_decide_eq_true hn.2
  simp only [maxLen] at hl
  unfold readName fits
  simp only [List.length_append, Nat.le_add_right, decide_true, Bool.not_true, Bool.false_eq_true, if_false]
  rw [goMake_ok _ _ (by omega) (by simp only [maxAlloc]; omega)]
  simp only [Res.bind, take_append_len, drop_append_len]
  rw [decComps_encComps n hn.1 _ (by omega)]
  exact ⟨_, rfl⟩

/-- every plain (non-struct) field kind decodes the value bytes of its own encoding -/
theorem readKind_prim (k : Kind) (v : Val) (hwf : wfKind k = true) (hk : k.multi = 0)
    (hns : ∀ o fs, k ≠ .struct o fs) (hv : validV k v = true) (hp : v ≠ .absent) (ic : Bool) (rest : Bytes) :
    ∃ a, readKind k (bodyOf k v).length ic (bodyOf k v ++ rest) = .ok (v, rest) a := by
  cases k <;> cases v <;> simp_all [validV, bodyOf, Kind.multi]
  · -- natural
    rename_i o n
    have h8 : (encNat n).length < 2 ^ 63 := by rw [encNat_length]; have := natLen_le n; omega
    refine ⟨0, ?_⟩
    simp only [readKind]
    rw [readNatLoop_encNat, readUintLoop_spec 8 _ rest h8, encNat_dec n hv, Nat.mod_eq_of_lt (by omega)]
  · -- fixedUint
    rename_i w o n
    simp [wfKind] at hwf
    rcases hwf with ((h | h) | h) | h <;> subst h
    · refine ⟨0, ?_⟩
      have h256 : n < 256 := by simpa using hv
      simp [readKind, be, h256, Nat.mod_eq_of_lt h256]
    · refine ⟨0, ?_⟩
      simp only [readKind]
      have hl := readUintLoop_spec 2 (be 2 n) rest (by simp)
      simp only [be_length] at hl
      rw [hl, beDec_be _ n hv, Nat.mod_eq_of_lt hv]
    · refine ⟨0, ?_⟩
      simp only [readKind]
      have hl := readUintLoop_spec 4 (be 4 n) rest (by simp)
      simp only [be_length] at hl
      rw [hl, beDec_be _ n hv, Nat.mod_eq_of_lt hv]
    · refine ⟨0, ?_⟩
      simp only [readKind]
      have hl := readUintLoop_spec 8 (be 8 n) rest (by simp)
      simp only [be_length] at hl
      rw [hl, beDec_be _ n hv, Nat.mod_eq_of_lt hv]
  · -- time
    rename_i o ns
    have h8 : (encNat (timeMs ns)).length < 2 ^ 63 := by
      rw [encNat_length]; have := natLen_le (timeMs ns); omega
    refine ⟨0 + 0, ?_⟩
    simp only [readKind]
    rw [readNatLoop_encNat, readUintLoop_spec 8 _ rest h8, encNat_dec _ (timeMs_lt ns hv.2),
      Nat.mod_eq_of_lt (by have := timeMs_lt ns hv.2; omega)]
    simp only [Res.bind, timeMs_back ns hv.1 hv.2]
  · -- bool
    exact ⟨0, by simp [readKind]⟩
  · -- binary
    rename_i b
    simp only [maxLen] at hv
    refine ⟨b.length * 1 + 0, ?_⟩
    simp only [readKind, fits, List.length_append, Nat.le_add_right, decide_true, Bool.not_true,
      Bool.false_eq_true, if_false]
    rw [goMake_ok _ _ (by omega) (by simp only [maxAlloc]; omega)]
    simp [Res.bind]
  · -- string
    rename_i o b
    simp only [maxLen] at hv
    refine ⟨b.length, ?_⟩
    simp only [readKind]
    rw [if_neg (goInt_nonneg _ (by omega)), if_neg (by simp)]
    simp
  · -- wire
    rename_i b
    simp only [maxLen] at hv
    refine ⟨0, ?_⟩
    simp only [readKind, readWire]
    rw [if_neg (goInt_nonneg _ (by omega)), if_neg, if_neg (by simp)]
    · simp
    · intro h
      have := h.1
      have h2 := h.2
      simp at this
      simp [this] at h2
  · -- name
    rename_i n
    simpa [readKind] using readName_spec n rest hv
  · -- signature (read by `readWire`, exactly like a wire field)
    rename_i b
    simp only [maxLen] at hv
    refine ⟨0, ?_⟩
    simp only [readKind, readWire]
    rw [if_neg (goInt_nonneg _ (by omega)), if_neg, if_neg (by simp)]
    · simp
    · intro h
      have := h.1
      have h2 := h.2
      simp at this
      simp [this] at h2
  · -- interestName
    rename_i n
    have hs := stripDigest_id n hv.2
    rw [hs]
    simpa [readKind] using readName_spec n rest hv.1

end Ndn.C13
