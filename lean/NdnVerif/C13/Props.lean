/-
  C13/Props.lean — property theorems of C13 (work in progress: see design/C13.md)
-/
import NdnVerif.C13.Model
namespace Ndn.C13

theorem tlv_length (t : Nat) (b : Bytes) : (tlv t b).length = tlvLen t b.length := by
  simp [tlv, tlvLen, encTL_length]; omega

end Ndn.C13
