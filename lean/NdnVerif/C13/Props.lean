/-
  C13/Props.lean — property theorems of C13: every generated TLV model round-trips and matches its
  generator.  The theorems are about the generic schema interpreter (`Model.lean`), for EVERY
  well-formed schema and EVERY valid value; `all_generated_schemas_wf` instantiates them with the
  table regenerated from the working tree on every check run (`Gen/C13Schemas.lean`).
  Helper lemmas: Lemmas.lean, KindRT.lean, LoopSpec.lean, LoopU.lean, LoopO.lean, RoundTrip*.lean.
  Core Lean only.
-/
import NdnVerif.C13.RoundTrip
import NdnVerif.C13.LoopU
import NdnVerif.C13.LoopO
import NdnVerif.C13.UnknownSkip
import NdnVerif.C13.UnknownCritical
import NdnVerif.Gen.C13Schemas
namespace Ndn.C13

/-! ## "encoding yields exactly the number of bytes the encoder announced" -/

/-- `EncodeInto` writes exactly `encoder.length` bytes: for every schema (well-formed or not) and
    every value (valid or not). -/
theorem encode_length_eq_announced (s : Schema) (v : Vals) : (encode s v).length = encLen s v :=
  encFields_length v s.fields

/-- the same for one field of any kind, at any nesting depth -/
theorem field_length_eq_announced (k : Kind) (t : Nat) (v : Val) : (encKind k t v).length = lenKind k t v :=
  encKind_length v k t

example : (encode ⟨"x", false, .cons 7 .name (.cons 24 (.natural true) .nil)⟩
            (.cons (.name [⟨8, [97]⟩]) (.cons (.nat 300) .nil))).length = 9 := by decide

/-! ## the regenerated schema table -/

/-- every model the generator accepts in the current working tree is well-formed: typed fields
    have distinct non-zero type numbers below 2^64, fixed-width integers are 1/2/4/8 bytes wide,
    sequence elements and map values are single-TLV kinds, map keys are naturals or strings.
    (`decide` over the finite regenerated table.) -/
theorem all_generated_schemas_wf : ∀ s ∈ Ndn.Gen.C13.allSchemas, wfSchema s = true := by
  have h : Ndn.Gen.C13.allSchemas.all wfSchema = true := by decide
  intro s hs
  exact List.all_eq_true.mp h s hs

/-- the table is what the check discovered: non-empty and of the announced size -/
theorem generated_table_size : Ndn.Gen.C13.allSchemas.length = Ndn.Gen.C13.modelCount := by decide

/-! ## "decoding it reproduces the value" -/

/-- decode ∘ encode = id for every well-formed schema, every valid value, with or without
    `ignoreCritical`; nested models, sequences, maps, ordered and unordered models included. -/
theorem parse_encode (s : Schema) (v : Vals) (ic : Bool)
    (hwf : wfSchema s = true) (hv : validVs s.fields v = true) :
    ∃ a, parse s ic (encode s v) = .ok v a :=
  parse_encode' LU.loopU_spec LO.loopO_spec s v ic hwf hv

/-- instantiated: every generated model of the working tree round-trips every valid value -/
theorem generated_models_roundtrip (s : Schema) (hs : s ∈ Ndn.Gen.C13.allSchemas) (v : Vals) (ic : Bool)
    (hv : validVs s.fields v = true) : ∃ a, parse s ic (encode s v) = .ok v a :=
  parse_encode s v ic (all_generated_schemas_wf s hs) hv

/-! ## "an unrecognised non-critical element inserted at any position … is skipped and every other
       field still decodes unchanged" -/

/-- `insAt s.fields v sel k junk` is the encoding of `v` with the extra element inserted at item
    boundary `k` of the nesting level reached through the struct items `sel` (every enclosing
    length recomputed) — the same function the correspondence harness checks against the real
    code.  For ANY such position, any depth, ordered and unordered models: if the element's type
    number is unknown to the model (at every level) and the caller tolerates it (non-critical, or
    `ignoreCritical`), the decoder returns exactly the original value. -/
theorem unknown_noncritical_skipped (s : Schema) (v : Vals) (ic : Bool) (sel : List Nat) (k jt : Nat)
    (jbody b : Bytes)
    (hwf : wfSchema s = true) (hv : validVs s.fields v = true)
    (hjt : jt < 2 ^ 64) (hjb : jbody.length < maxLen)
    (hunk : (fieldsTypes s.fields).contains jt = false)
    (htol : ic = true ∨ critical jt = false)
    (hins : insAt s.fields v sel k (tlv jt jbody) = some b) :
    ∃ a, parse s ic b = .ok v a :=
  unknown_noncritical_skipped' s v ic sel k jt jbody b hwf hv hjt hjb hunk htol hins

/-! ## "an unrecognised critical element causes rejection unless the caller asked to ignore it" -/

/-- the same insertion with a CRITICAL unknown type number (`typ ≤ 31` or odd) and
    `ignoreCritical = false`: the decoder returns an error — at any position, any nesting depth,
    ordered and unordered models.  With `ignoreCritical = true` the element is skipped
    (`unknown_noncritical_skipped` with `ic = true`). -/
theorem unknown_critical_rejected_unless_ignored (s : Schema) (v : Vals) (sel : List Nat) (k jt : Nat)
    (jbody b : Bytes)
    (hwf : wfSchema s = true) (hv : validVs s.fields v = true)
    (hjt : jt < 2 ^ 64) (hjb : jbody.length < maxLen)
    (hunk : (fieldsTypes s.fields).contains jt = false)
    (hcrit : critical jt = true)
    (hins : insAt s.fields v sel k (tlv jt jbody) = some b) :
    (∃ a, parse s false b = .err a) ∧ (∃ a, parse s true b = .ok v a) :=
  ⟨unknown_critical_rejected' s v sel k jt jbody b hwf hv hjt hjb hunk hcrit hins,
   unknown_noncritical_skipped' s v true sel k jt jbody b hwf hv hjt hjb hunk (Or.inl rfl) hins⟩

/-- the critical-bit rule the property names: `typ ≤ 31` or odd -/
theorem critical_rule (t : Nat) : critical t = true ↔ (t ≤ 31 ∨ t % 2 = 1) := by
  simp [critical]

example : critical 31 = true ∧ critical 32 = false ∧ critical 33 = true ∧ critical 240 = false := by decide

-- non-vacuity: a nested ordered struct, a sequence of structs, a map, a bool and an optional time
example : wfFields exFields = true ∧ validVs exFields exVal = true := by decide

end Ndn.C13
