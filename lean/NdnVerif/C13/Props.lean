/-
  C13/Props.lean — property theorems of C13: every generated TLV model round-trips and matches its
  generator.  The theorems are about the generic schema interpreter (`Model.lean`), for EVERY
  well-formed schema and EVERY valid value; `all_generated_schemas_wf` instantiates them with the
  table regenerated from the working tree on every check run (`Gen/C13Schemas.lean`).
  Helper lemmas: Lemmas.lean, KindRT.lean, LoopSpec.lean, LoopU.lean, LoopO.lean, RoundTrip*.lean.
  Core Lean only.
-/
import NdnVerif.C13.RoundTrip
import NdnVerif.C13.LoopU
import NdnVerif.C13.LoopO
import NdnVerif.C13.UnknownSkip
import NdnVerif.C13.UnknownCritical
import NdnVerif.Gen.C13Schemas
namespace Ndn.C13

/-! ## "encoding yields exactly the number of bytes the encoder announced" -/

/-- `EncodeInto` writes exactly `encoder.length` bytes: for every schema (well-formed or not) and
    every value (valid or not). -/
theorem encode_length_eq_announced (s : Schema) (v : Vals) : (encode s v).length = encLen s v :=
  encFields_length v s.fields

/-- the same for one field of any kind, at any nesting depth -/
theorem field_length_eq_announced (k : Kind) (t : Nat) (v : Val) : (encKind k t v).length = lenKind k t v :=
  encKind_length v k t

example : (encode ⟨"x", false, .cons 7 .name (.cons 24 (.natural true) .nil)⟩
            (.cons (.name [⟨8, [97]⟩]) (.cons (.nat 300) .nil))).length = 9 := by decide

/-! ## the regenerated schema table -/

/-- every model the generator accepts in the current working tree is well-formed: typed fields
    have distinct non-zero type numbers below 2^64, fixed-width integers are 1/2/4/8 bytes wide,
    sequence elements and map values are single-TLV kinds, map keys are naturals or strings.
    (`decide` over the finite regenerated table.) -/
theorem all_generated_schemas_wf : ∀ s ∈ Ndn.Gen.C13.allSchemas, wfSchema s = true := by
  have h : Ndn.Gen.C13.allSchemas.all wfSchema = true := by decide
  intro s hs
  exact List.all_eq_true.mp h s hs

/-- the table is what the check discovered: non-empty and of the announced size -/
theorem generated_table_size : Ndn.Gen.C13.allSchemas.length = Ndn.Gen.C13.modelCount := by decide

/-! ## "decoding it reproduces the value" -/

/-- decode ∘ encode = id for every well-formed schema, every valid value, with or without
    `ignoreCritical`; nested models, sequences, maps, ordered and unordered models included. -/
theorem parse_encode (s : Schema) (v : Vals) (ic : Bool)
    (hwf : wfSchema s = true) (hv : validVs s.fields v = true) :
    ∃ a, parse s ic (encode s v) = .ok v a :=
  parse_encode' LU.loopU_spec LO.loopO_spec s v ic hwf hv

/-- instantiated: every generated model of the working tree round-trips every valid value -/
theorem generated_models_roundtrip (s : Schema) (hs : s ∈ Ndn.Gen.C13.allSchemas) (v : Vals) (ic : Bool)
    (hv : validVs s.fields v = true) : ∃ a, parse s ic (encode s v) = .ok v a :=
  parse_encode s v ic (all_generated_schemas_wf s hs) hv

/-! ## "an unrecognised non-critical element inserted at any position … is skipped and every other
       field still decodes unchanged" -/

/-- `insAt s.fields v sel k junk` is the encoding of `v` with the extra element inserted at item
    boundary `k` of the nesting level reached through the struct items `sel` (every enclosing
    length recomputed) — the same function the correspondence harness checks against the real
    code.  For ANY such position, any depth, ordered and unordered models: if the element's type
    number is unknown to the model (at every level) and the caller tolerates it (non-critical, or
    `ignoreCritical`), the decoder returns exactly the original value. -/
theorem unknown_noncritical_skipped (s : Schema) (v : Vals) (ic : Bool) (sel : List Nat) (k jt : Nat)
    (jbody b : Bytes)
    (hwf : wfSchema s = true) (hv : validVs s.fields v = true)
    (hjt : jt < 2 ^ 64) (hjb : jbody.length < maxLen)
    (hunk : (fieldsTypes s.fields).contains jt = false)
    (htol : ic = true ∨ critical jt = false)
    (hins : insAt s.fields v sel k (tlv jt jbody) = some b) :
    ∃ a, parse s ic b = .ok v a :=
  unknown_noncritical_skipped' s v ic sel k jt jbody b hwf hv hjt hjb hunk htol hins

/-! ## "an unrecognised critical element causes rejection unless the caller asked to ignore it" -/

/-- the same insertion with a CRITICAL unknown type number (`typ ≤ 31` or odd) and
    `ignoreCritical = false`: the decoder returns an error — at any position, any nesting depth,
    ordered and unordered models.  With `ignoreCritical = true` the element is skipped
    (`unknown_noncritical_skipped` with `ic = true`). -/
theorem unknown_critical_rejected_unless_ignored (s : Schema) (v : Vals) (sel : List Nat) (k jt : Nat)
    (jbody b : Bytes)
    (hwf : wfSchema s = true) (hv : validVs s.fields v = true)
    (hjt : jt < 2 ^ 64) (hjb : jbody.length < maxLen)
    (hunk : (fieldsTypes s.fields).contains jt = false)
    (hcrit : critical jt = true)
    (hins : insAt s.fields v sel k (tlv jt jbody) = some b) :
    (∃ a, parse s false b = .err a) ∧ (∃ a, parse s true b = .ok v a) :=
  ⟨unknown_critical_rejected' s v sel k jt jbody b hwf hv hjt hjb hunk hcrit hins,
   unknown_noncritical_skipped' s v true sel k jt jbody b hwf hv hjt hjb hunk (Or.inl rfl) hins⟩

/-- the critical-bit rule the property names: `typ ≤ 31` or odd -/
theorem critical_rule (t : Nat) : critical t = true ↔ (t ≤ 31 ∨ t % 2 = 1) := by
  simp [critical]

example : critical 31 = true ∧ critical 32 = false ∧ critical 33 = true ∧ critical 240 = false := by decide

-- non-vacuity: a nested ordered struct, a sequence of structs, a map, a bool and an optional time
example : wfFields exFields = true ∧ validVs exFields exVal = true := by decide

/-! ## non-vacuity with a PRESENT SignatureValue on an ordered model whose LAST declared field is the
       signature (the shape of Data: Name, Content, SignatureValue) — the signing path, where the
       caller supplies the signature bytes and the encoder writes `T L value` for them -/

def sigFields : Fields := .cons 7 .name (.cons 21 .wire (.cons 23 .signature .nil))
def sigSchema : Schema := ⟨"SigEx", true, sigFields⟩
/-- name `/a`, content `[1]`, signature `[9, 9]` -/
def sigVal : Vals := .cons (.name [⟨8, [97]⟩]) (.cons (.bytes [1]) (.cons (.bytes [9, 9]) .nil))
/-- the encoding of `sigVal` followed by the unknown non-critical element `240 2 [1 2]` -/
def sigJunkAfter : Bytes := [7, 3, 8, 1, 97, 21, 1, 1, 23, 2, 9, 9, 240, 2, 1, 2]
/-- the same with the unknown CRITICAL element `241 2 [1 2]` -/
def sigCritAfter : Bytes := [7, 3, 8, 1, 97, 21, 1, 1, 23, 2, 9, 9, 241, 2, 1, 2]

example : wfSchema sigSchema = true ∧ validVs sigSchema.fields sigVal = true := by decide
-- the signature IS written and announced: 5 + 3 + 4 bytes
example : encode sigSchema sigVal = [7, 3, 8, 1, 97, 21, 1, 1, 23, 2, 9, 9] ∧ encLen sigSchema sigVal = 12 := by
  decide
-- boundary 3 = after the last declared field (the SignatureValue)
example : insAt sigSchema.fields sigVal [] 3 (tlv 240 [1, 2]) = some sigJunkAfter := by decide
example : insAt sigSchema.fields sigVal [] 3 (tlv 241 [1, 2]) = some sigCritAfter := by decide

/-- `parse_encode` with a present signature -/
example : ∃ a, parse sigSchema false (encode sigSchema sigVal) = .ok sigVal a :=
  parse_encode sigSchema sigVal false (by decide) (by decide)

/-- `unknown_noncritical_skipped` instantiated: junk after the SignatureValue of an ordered model -/
example : ∃ a, parse sigSchema false sigJunkAfter = .ok sigVal a :=
  unknown_noncritical_skipped sigSchema sigVal false [] 3 240 [1, 2] sigJunkAfter
    (by decide) (by decide) (by decide) (by decide) (by decide) (Or.inr (by decide)) (by decide)

/-- `unknown_critical_rejected_unless_ignored` instantiated at the same position -/
example : (∃ a, parse sigSchema false sigCritAfter = .err a) ∧ (∃ a, parse sigSchema true sigCritAfter = .ok sigVal a) :=
  unknown_critical_rejected_unless_ignored sigSchema sigVal [] 3 241 [1, 2] sigCritAfter
    (by decide) (by decide) (by decide) (by decide) (by decide) (by decide) (by decide)

/-- and what evaluation of the model gives on those concrete byte strings -/
example : ∃ a, parse sigSchema false sigJunkAfter = .ok sigVal a := ⟨_, rfl⟩
example : ∃ a, parse sigSchema false sigCritAfter = .err a := ⟨_, rfl⟩
example : ∃ a, parse sigSchema true sigCritAfter = .ok sigVal a := ⟨_, rfl⟩
-- also at every other boundary of the signed encoding (before the name, the content, the signature)
example : ([0, 1, 2, 3].map fun k =>
      (insAt sigSchema.fields sigVal [] k (tlv 240 [1, 2])).bind fun b => (parse sigSchema false b).val?)
    = [some sigVal, some sigVal, some sigVal, some sigVal] := rfl

/-- **Non-negative integers have one of four widths.**  A natural-number or time field whose TLV
    length is not 1, 2, 4 or 8 is REJECTED by every generated decoder, whatever follows (repair
    F-13e; before it `6a 03 01 02 03` decoded to 66051, `6a 00` to 0 and a nine-byte value lost its
    first byte — the management protocol then acted on a number nobody had written). -/
theorem natural_of_other_width_rejected (o : Bool) (l : Nat) (ic : Bool) (rest : Bytes)
    (hl : l ≠ 1 ∧ l ≠ 2 ∧ l ≠ 4 ∧ l ≠ 8) :
    readKind (.natural o) l ic rest = .err 0 ∧ readKind (.time o) l ic rest = .err 0 := by
  have h : natLenOk l = false := by
    simp [natLenOk, Ndn.Gen.C13.naturalWidthChecked, hl.1, hl.2.1, hl.2.2.1, hl.2.2.2]
  constructor <;> simp [readKind, readNatLoop, h, Res.bind]

/-- the regenerated fact behind it: the decoder template of the working tree enforces the widths (a tree whose
    template accepts every length regenerates `false`, and this and the theorem above no longer check) -/
theorem decoder_template_enforces_natural_widths : Ndn.Gen.C13.naturalWidthChecked = true := by decide

/-- … and the four widths are exactly what the generated encoders write, for every value -/
theorem encoders_write_accepted_widths (n : Nat) : natLenOk (encNat n).length = true :=
  natLenOk_encNat n

example : readKind (.natural false) 3 false [1, 2, 3, 9] = .err 0 :=
  (natural_of_other_width_rejected false 3 false [1, 2, 3, 9] (by decide)).1
example : ∃ a, readKind (.natural false) 2 false [1, 2, 3, 9] = .ok (.nat 258, [3, 9]) a := ⟨0, by simp [readKind, readNatLoop, natLenOk, readUintLoop, goInt, beDecMod]⟩

/-- **A map entry whose KEY does not decode is an error of the map field** (repair F-13f; before it the
    generated map decoder let the `ReadTLNum` that follows overwrite the key decoder's error and kept
    the entry under a zero / partial key): whatever the key and value decoders are. -/
theorem map_key_error_is_an_error (rk rv : Nat → Bool → Bytes → Res (Val × Bytes)) (vt l : Nat) (ic : Bool)
    (rest : Bytes) (a : Nat) (h : rk l ic rest = .err a) :
    readMap rk rv vt l ic rest = .err a := by
  simp [readMap, h, Res.bind]

example : readMap (readKind (.natural false)) (readKind .binary) 135 3 false [1, 2, 3, 135, 1, 9] = .err 0 :=
  map_key_error_is_an_error _ _ 135 3 false _ 0
    ((natural_of_other_width_rejected false 3 false _ (by decide)).1)

end Ndn.C13
