/-
  C13/Props.lean — property theorems of C13: every generated TLV model round-trips and matches its
  generator.  The theorems are about the generic schema interpreter (`Model.lean`), for EVERY
  well-formed schema and EVERY valid value; `all_generated_schemas_wf` instantiates them with the
  table regenerated from the working tree on every check run (`Gen/C13Schemas.lean`).
  Helper lemmas: Lemmas.lean, KindRT.lean, LoopSpec.lean, LoopU.lean, LoopO.lean, RoundTrip*.lean.
  Core Lean only.
-/
import NdnVerif.C13.RoundTrip
import NdnVerif.C13.LoopU
import NdnVerif.C13.LoopO
import NdnVerif.Gen.C13Schemas
namespace Ndn.C13

/-! ## "encoding yields exactly the number of bytes the encoder announced" -/

/-- `EncodeInto` writes exactly `encoder.length` bytes: for every schema (well-formed or not) and
    every value (valid or not). -/
theorem encode_length_eq_announced (s : Schema) (v : Vals) : (encode s v).length = encLen s v :=
  encFields_length v s.fields

/-- the same for one field of any kind, at any nesting depth -/
theorem field_length_eq_announced (k : Kind) (t : Nat) (v : Val) : (encKind k t v).length = lenKind k t v :=
  encKind_length v k t

example : (encode ⟨"x", false, .cons 7 .name (.cons 24 (.natural true) .nil)⟩
            (.cons (.name [⟨8, [97]⟩]) (.cons (.nat 300) .nil))).length = 9 := by decide

/-! ## the regenerated schema table -/

/-- every model the generator accepts in the current working tree is well-formed: typed fields
    have distinct non-zero type numbers below 2^64, fixed-width integers are 1/2/4/8 bytes wide,
    sequence elements and map values are single-TLV kinds, map keys are naturals or strings.
    (`decide` over the finite regenerated table.) -/
theorem all_generated_schemas_wf : ∀ s ∈ Ndn.Gen.C13.allSchemas, wfSchema s = true := by
  have h : Ndn.Gen.C13.allSchemas.all wfSchema = true := by decide
  intro s hs
  exact List.all_eq_true.mp h s hs

/-- the table is what the check discovered: non-empty and of the announced size -/
theorem generated_table_size : Ndn.Gen.C13.allSchemas.length = Ndn.Gen.C13.modelCount := by decide

/-! ## "decoding it reproduces the value" -/

/-- decode ∘ encode = id for every well-formed schema, every valid value, with or without
    `ignoreCritical`; nested models, sequences, maps, ordered and unordered models included. -/
theorem parse_encode (s : Schema) (v : Vals) (ic : Bool)
    (hwf : wfSchema s = true) (hv : validVs s.fields v = true) :
    ∃ a, parse s ic (encode s v) = .ok v a :=
  parse_encode' LU.loopU_spec LO.loopO_spec s v ic hwf hv

/-- instantiated: every generated model of the working tree round-trips every valid value -/
theorem generated_models_roundtrip (s : Schema) (hs : s ∈ Ndn.Gen.C13.allSchemas) (v : Vals) (ic : Bool)
    (hv : validVs s.fields v = true) : ∃ a, parse s ic (encode s v) = .ok v a :=
  parse_encode s v ic (all_generated_schemas_wf s hs) hv

-- non-vacuity: a nested ordered struct, a sequence of structs, a map, a bool and an optional time
example : wfFields exFields = true ∧ validVs exFields exVal = true := by decide

end Ndn.C13
