/-
  C13/LoopFailSpec.lean — what the parse loops must do when a well-formed prefix of the element
  stream is followed by an element that has to be refused: the whole parse is an error (never a
  value, a panic or fuel exhaustion), whatever follows.  Used for "an unrecognised critical element
  causes rejection" at any position and any nesting depth.  Core Lean only.
-/
import NdnVerif.C13.LoopSpec
namespace Ndn.C13

/-- the refused element, seen from the model whose slots are `all`, while slot `s` is current -/
inductive BadHead (all : List Slot) (ic : Bool) (s : Slot) (gpart : List El) : Bytes → Prop where
  /-- an element of a type number no slot knows, critical, and the caller did not ask to ignore it -/
  | critical (t : Nat) (body : Bytes) :
      t < 2 ^ 64 → body.length < 2 ^ 64 → knownTyp all t = false → ic = false → critical t = true →
      (s.multi = 0 → (itemVals gpart).length ≤ 1) →
      BadHead all ic s gpart (tlv t body)
  /-- an element of the current slot whose reader fails whatever follows it (e.g. a nested model
      that contains a refused element) -/
  | inner (l : Nat) (body : Bytes) :
      s.hasTyp = true → s.typ < 2 ^ 64 → l < 2 ^ 64 →
      (∀ rest : Bytes, ∃ a, s.read l ic (body ++ rest) = .err a) →
      (s.multi = 0 → itemVals gpart = []) →
      BadHead all ic s gpart (encTL s.typ ++ encTL l ++ body)

/-- groups of the slots `pre` in full, then some elements `gpart` of the next slot `s`, then the
    refused element, then anything: the parse is an error. -/
def FailSpec (ordered : Bool) : Prop :=
  ∀ (slots pre post : List Slot) (s : Slot) (ic : Bool) (gpre : List (List El)) (gpart : List El)
    (bad tail : Bytes),
    slots = pre ++ s :: post → DistinctTyps slots →
    GroupsOk slots ic pre gpre → (∀ e ∈ gpart, ElOk slots ic s e) →
    BadHead slots ic s gpart bad →
    ∃ a, runSlots ordered slots ic (groupsBytes pre gpre ++ (groupBytes s.typ gpart ++ (bad ++ tail))) = .err a

end Ndn.C13
