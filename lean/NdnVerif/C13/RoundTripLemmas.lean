/-
  C13/RoundTripLemmas.lean — the element stream the generated encoder emits (`mkGroups`), and the two
  value-level facts of the round trip:
    * `groupsBytes_mkGroups`  the stream's bytes are `encFields fs vs`
    * `expected_mkGroups`     merging the stream's items slot by slot rebuilds `vs`
  Core Lean only.
-/
import NdnVerif.C13.KindRT
import NdnVerif.C13.LoopSpec
namespace Ndn.C13

/-! ## the items of one field -/

/-- one item per element of a sequence -/
def seqItems (sub : Kind) : Vals → List El
  | .nil => []
  | .cons e es => .item (bodyOf sub e).length (bodyOf sub e) e :: seqItems sub es

/-- one item per pair of a map: the key's value bytes, then the whole value TLV -/
def mapItems (kk : Kind) (vt : Nat) (vk : Kind) : Vals → List El
  | .nil => []
  | .cons (.pair a b) r =>
      .item (bodyOf kk a).length (bodyOf kk a ++ (encTL vt ++ encTL (bodyOf vk b).length ++ bodyOf vk b)) (.pair a b)
        :: mapItems kk vt vk r
  | .cons _ r => mapItems kk vt vk r

/-- does a plain field write a TLV for this value? -/
def plainEmits (k : Kind) (v : Val) : Bool :=
  match v with
  | .absent => false
  | _ =>
    match k with
    | .marker => false
    | _ => true

/-- the items the encoder emits for one field of kind `k` holding `v` (the type number is the
    slot's, see `El.bytes`) -/
def mkGroup (k : Kind) (v : Val) : List El :=
  match k with
  | .seq sub =>
    match v with
    | .seq es => seqItems sub es
    | _ => []
  | .map kk vt vk =>
    match v with
    | .map kvs => mapItems kk vt vk kvs
    | _ => []
  | k => if plainEmits k v then [.item (bodyOf k v).length (bodyOf k v) v] else []

def mkGroups : Fields → Vals → List (List El)
  | .cons _ k fs, .cons v vs => mkGroup k v :: mkGroups fs vs
  | _, _ => []

/-- the kind whose reader decodes one item of a field of kind `k` -/
def elemKind : Kind → Kind
  | .seq sub => sub
  | .map _ _ vk => vk
  | k => k

/-! ## small facts -/

theorem rt_append_assoc : ∀ (a b c : Vals), (a.append b).append c = a.append (b.append c)
  | .nil, b, c => by simp [Vals.append]
  | .cons v a, b, c => by simp [Vals.append, rt_append_assoc a b c]

theorem rt_append_nil : ∀ (a : Vals), a.append .nil = a
  | .nil => by simp [Vals.append]
  | .cons v a => by simp [Vals.append, rt_append_nil a]

theorem rt_snoc_append (a : Vals) (v : Val) (r : Vals) : (a.snoc v).append r = a.append (.cons v r) := by
  simp [Vals.snoc, rt_append_assoc, Vals.append]

theorem elemKindOk_multi {k : Kind} (h : elemKindOk k = true) : k.multi = 0 := by
  cases k <;> simp_all [elemKindOk, Kind.multi]

theorem keyKindOk_facts {k : Kind} (h : keyKindOk k = true) :
    k.multi = 0 ∧ wfKind k = true ∧ ∀ o fs, k ≠ .struct o fs := by
  cases k <;> simp_all [keyKindOk, Kind.multi, wfKind]

theorem plainEmits_iff {k : Kind} {v : Val} (hv : validV k v = true) :
    plainEmits k v = true ↔ v ≠ .absent := by
  cases k <;> cases v <;> simp_all [plainEmits, validV]

theorem encKind_absent (k : Kind) (t : Nat) : encKind k t .absent = [] := by
  cases k <;> simp [encKind]

/-! ## the stream's bytes -/

theorem seqItems_bytes (sub : Kind) (t : Nat) (hwf : wfKind sub = true) (hm : sub.multi = 0) :
    ∀ es : Vals, validElems sub es = true → groupBytes t (seqItems sub es) = encSeq sub t es
  | .nil, _ => by simp [seqItems, groupBytes, encSeq]
  | .cons e es, hv => by
    simp only [validElems, Bool.and_eq_true] at hv
    have hne : e ≠ .absent := by intro h; subst h; simp at hv
    have ih := seqItems_bytes sub t hwf hm es hv.2
    simp only [groupBytes] at ih
    simp only [seqItems, groupBytes, List.flatMap_cons, El.bytes, encSeq, ih,
      encKind_eq_tlv sub t e hwf hm hv.1.2 hne]

theorem mapItems_bytes (kk : Kind) (vt : Nat) (vk : Kind) (t : Nat)
    (hkk : keyKindOk kk = true) (hwf : wfKind vk = true) (hm : vk.multi = 0) :
    ∀ kvs : Vals, validPairs kk vk kvs = true → groupBytes t (mapItems kk vt vk kvs) = encMap kk vt vk t kvs
  | .nil, _ => by simp [mapItems, groupBytes, encMap]
  | .cons (.pair a b) kvs, hv => by
    simp only [validPairs, Bool.and_eq_true] at hv
    have hna : a ≠ .absent := by intro h; subst h; simp at hv
    have hnb : b ≠ .absent := by intro h; subst h; simp at hv
    have ih := mapItems_bytes kk vt vk t hkk hwf hm kvs hv.2
    simp only [groupBytes] at ih
    obtain ⟨hkm, hkwf, _⟩ := keyKindOk_facts hkk
    simp only [mapItems, groupBytes, List.flatMap_cons, El.bytes, encMap, ih,
      encKind_eq_tlv kk t a hkwf hkm hv.1.1.2 hna, encKind_eq_tlv vk vt b hwf hm hv.1.2 hnb,
      List.append_assoc]
  | .cons .absent _, hv => by simp [validPairs] at hv
  | .cons (.nat _) _, hv => by simp [validPairs] at hv
  | .cons .tt _, hv => by simp [validPairs] at hv
  | .cons (.bytes _) _, hv => by simp [validPairs] at hv
  | .cons (.name _) _, hv => by simp [validPairs] at hv
  | .cons (.struct _) _, hv => by simp [validPairs] at hv
  | .cons (.seq _) _, hv => by simp [validPairs] at hv
  | .cons (.map _) _, hv => by simp [validPairs] at hv

/-- bytes of the items of one field = what `GenEncodeInto` writes -/
theorem mkGroup_bytes (k : Kind) (t : Nat) (v : Val) (hwf : wfKind k = true) (hv : validV k v = true) :
    groupBytes t (mkGroup k v) = encKind k t v := by
  by_cases hm : k.multi = 0
  · -- plain
    have hg : mkGroup k v = if plainEmits k v then [.item (bodyOf k v).length (bodyOf k v) v] else [] := by
      cases k <;> simp_all [mkGroup, Kind.multi]
    rw [hg]
    by_cases hp : plainEmits k v = true
    · have hne := (plainEmits_iff hv).1 hp
      rw [if_pos hp, encKind_eq_tlv k t v hwf hm hv hne]
      simp [groupBytes, El.bytes]
    · have hab : v = .absent := by
        cases hv' : v with
        | absent => rfl
        | _ => exact absurd ((plainEmits_iff hv).2 (by rw [hv']; simp)) hp
      rw [if_neg hp, hab, encKind_absent]
      simp [groupBytes]
  · cases k <;> simp [Kind.multi] at hm
    · -- seq
      rename_i sub
      simp only [wfKind, Bool.and_eq_true] at hwf
      cases v <;> simp [validV] at hv
      simp only [mkGroup, encKind]
      exact seqItems_bytes sub t hwf.2 (elemKindOk_multi hwf.1) _ hv
    · -- map
      rename_i kk vt vk
      simp only [wfKind, Bool.and_eq_true] at hwf
      cases v <;> simp [validV] at hv
      simp only [mkGroup, encKind]
      exact mapItems_bytes kk vt vk t hwf.1.1.1.1 hwf.1.1.2 (elemKindOk_multi hwf.1.1.1.2) _ hv.1

/-- lemma 2: the stream's bytes are the encoding -/
theorem groupsBytes_mkGroups : ∀ (fs : Fields) (vs : Vals), wfFields fs = true → validVs fs vs = true →
    groupsBytes (compile fs) (mkGroups fs vs) = encFields fs vs
  | .nil, .nil, _, _ => by simp [compile, mkGroups, groupsBytes, encFields]
  | .nil, .cons _ _, _, hv => by simp [validVs] at hv
  | .cons _ _ _, .nil, _, hv => by simp [validVs] at hv
  | .cons t k fs, .cons v vs, hwf, hv => by
    simp only [wfFields, Bool.and_eq_true] at hwf
    simp only [validVs, Bool.and_eq_true] at hv
    simp only [compile, mkGroups, groupsBytes, encFields,
      mkGroup_bytes k t v hwf.1.1 hv.1, groupsBytes_mkGroups fs vs hwf.2 hv.2]

/-! ## the merged values -/

theorem seqItems_vals (sub : Kind) : ∀ (es acc : Vals),
    (itemVals (seqItems sub es)).foldl (merge 1) (.seq acc) = .seq (acc.append es)
  | .nil, acc => by
    simp [seqItems, itemVals, rt_append_nil]
  | .cons e es, acc => by
    simp only [seqItems, itemVals, List.foldl_cons]
    have : merge 1 (.seq acc) e = .seq (acc.snoc e) := by simp [merge]
    rw [this, seqItems_vals sub es (acc.snoc e), rt_snoc_append]

theorem keyEq_symm (a b : Val) : keyEq a b = keyEq b a := by
  cases a <;> cases b <;> simp [keyEq, Bool.beq_comm]
  all_goals exact Bool.eq_iff_iff.2 ⟨fun h => h.symm, fun h => h.symm⟩

/-- no pair of `r` has a key that `acc` already holds -/
def noneIn (acc : Vals) : Vals → Bool
  | .nil => true
  | .cons (.pair a _) r => !(keysDistinct.pairsHaveKey a acc) && noneIn acc r
  | .cons _ r => noneIn acc r

theorem mapInsert_fresh (k x : Val) : ∀ acc : Vals, keysDistinct.pairsHaveKey k acc = false →
    mapInsert acc k x keyEq = acc.snoc (.pair k x)
  | .nil, _ => by simp [mapInsert, Vals.snoc, Vals.append]
  | .cons (.pair k' v') r, h => by
    simp only [keysDistinct.pairsHaveKey, Bool.or_eq_false_iff] at h
    have ih := mapInsert_fresh k x r h.2
    simp only [Vals.snoc] at ih
    simp [mapInsert, h.1, Vals.snoc, Vals.append, ih]
  | .cons .absent r, h => by
    have ih := mapInsert_fresh k x r (by simpa [keysDistinct.pairsHaveKey] using h)
    simp only [Vals.snoc] at ih
    simp [mapInsert, Vals.snoc, Vals.append, ih]
  | .cons (.nat _) r, h => by
    have ih := mapInsert_fresh k x r (by simpa [keysDistinct.pairsHaveKey] using h)
    simp only [Vals.snoc] at ih
    simp [mapInsert, Vals.snoc, Vals.append, ih]
  | .cons .tt r, h => by
    have ih := mapInsert_fresh k x r (by simpa [keysDistinct.pairsHaveKey] using h)
    simp only [Vals.snoc] at ih
    simp [mapInsert, Vals.snoc, Vals.append, ih]
  | .cons (.bytes _) r, h => by
    have ih := mapInsert_fresh k x r (by simpa [keysDistinct.pairsHaveKey] using h)
    simp only [Vals.snoc] at ih
    simp [mapInsert, Vals.snoc, Vals.append, ih]
  | .cons (.name _) r, h => by
    have ih := mapInsert_fresh k x r (by simpa [keysDistinct.pairsHaveKey] using h)
    simp only [Vals.snoc] at ih
    simp [mapInsert, Vals.snoc, Vals.append, ih]
  | .cons (.struct _) r, h => by
    have ih := mapInsert_fresh k x r (by simpa [keysDistinct.pairsHaveKey] using h)
    simp only [Vals.snoc] at ih
    simp [mapInsert, Vals.snoc, Vals.append, ih]
  | .cons (.seq _) r, h => by
    have ih := mapInsert_fresh k x r (by simpa [keysDistinct.pairsHaveKey] using h)
    simp only [Vals.snoc] at ih
    simp [mapInsert, Vals.snoc, Vals.append, ih]
  | .cons (.map _) r, h => by
    have ih := mapInsert_fresh k x r (by simpa [keysDistinct.pairsHaveKey] using h)
    simp only [Vals.snoc] at ih
    simp [mapInsert, Vals.snoc, Vals.append, ih]

theorem pairsHaveKey_snoc (a k x : Val) : ∀ acc : Vals,
    keysDistinct.pairsHaveKey a (acc.snoc (.pair k x)) = (keysDistinct.pairsHaveKey a acc || keyEq k a)
  | .nil => by simp [Vals.snoc, Vals.append, keysDistinct.pairsHaveKey]
  | .cons y r => by
    have ih := pairsHaveKey_snoc a k x r
    simp only [Vals.snoc] at ih
    cases y <;> simp [Vals.snoc, Vals.append, keysDistinct.pairsHaveKey, ih, Bool.or_assoc]

theorem noneIn_snoc (acc : Vals) (k x : Val) : ∀ r : Vals, noneIn acc r = true →
    keysDistinct.pairsHaveKey k r = false → noneIn (acc.snoc (.pair k x)) r = true
  | .nil, _, _ => by simp [noneIn]
  | .cons y r, h1, h2 => by
    cases y with
    | pair a b =>
      simp only [noneIn, Bool.and_eq_true, Bool.not_eq_true'] at h1
      simp only [keysDistinct.pairsHaveKey, Bool.or_eq_false_iff] at h2
      simp only [noneIn, Bool.and_eq_true, Bool.not_eq_true', pairsHaveKey_snoc, Bool.or_eq_false_iff]
      exact ⟨⟨h1.1, by rw [keyEq_symm]; exact h2.1⟩, noneIn_snoc acc k x r h1.2 h2.2⟩
    | _ =>
      simp only [noneIn] at h1
      simp only [keysDistinct.pairsHaveKey] at h2
      simp only [noneIn]
      exact noneIn_snoc acc k x r h1 h2

theorem noneIn_nil : ∀ r : Vals, noneIn .nil r = true
  | .nil => by simp [noneIn]
  | .cons y r => by cases y <;> simp [noneIn, keysDistinct.pairsHaveKey, noneIn_nil r]

/-- all entries are pairs (part of `validPairs`) -/
def allPairs : Vals → Bool
  | .nil => true
  | .cons (.pair _ _) r => allPairs r
  | .cons _ _ => false

theorem validPairs_allPairs (kk vk : Kind) : ∀ kvs : Vals, validPairs kk vk kvs = true → allPairs kvs = true
  | .nil, _ => by simp [allPairs]
  | .cons y r, h => by
    cases y <;> simp [validPairs] at h
    simp only [allPairs]
    exact validPairs_allPairs kk vk r h.2

theorem mapItems_vals (kk : Kind) (vt : Nat) (vk : Kind) : ∀ (kvs acc : Vals),
    allPairs kvs = true → keysDistinct kvs = true → noneIn acc kvs = true →
    (itemVals (mapItems kk vt vk kvs)).foldl (merge 2) (.map acc) = .map (acc.append kvs)
  | .nil, acc, _, _, _ => by simp [mapItems, itemVals, rt_append_nil]
  | .cons y r, acc, hp, hd, hn => by
    cases y <;> simp [allPairs] at hp
    rename_i k x
    simp only [keysDistinct, Bool.and_eq_true, Bool.not_eq_true'] at hd
    simp only [noneIn, Bool.and_eq_true, Bool.not_eq_true'] at hn
    simp only [mapItems, itemVals, List.foldl_cons]
    have : merge 2 (.map acc) (.pair k x) = .map (acc.snoc (.pair k x)) := by
      simp [merge, mapInsert_fresh k x acc hn.1]
    rw [this, mapItems_vals kk vt vk r (acc.snoc (.pair k x)) hp hd.2 (noneIn_snoc acc k x r hn.2 hd.1),
      rt_snoc_append]

/-- the value one slot ends with is the field's value -/
theorem mkGroup_result (k : Kind) (t : Nat) (hb : Bool) (v : Val) (hv : validV k v = true) :
    slotResult ⟨t, hb, k.required, k.multi, k.init, readKind k⟩ (mkGroup k v) = v := by
  by_cases hm : k.multi = 0
  · have hg : mkGroup k v = if plainEmits k v then [.item (bodyOf k v).length (bodyOf k v) v] else [] := by
      cases k <;> simp_all [mkGroup, Kind.multi]
    have hi : k.init = .absent := by cases k <;> simp_all [Kind.multi, Kind.init]
    rw [hg]
    simp only [slotResult, hm, hi]
    by_cases hp : plainEmits k v = true
    · rw [if_pos hp]
      cases v <;> simp [itemVals, merge]
    · have hab : v = .absent := by
        cases hv' : v with
        | absent => rfl
        | _ => exact absurd ((plainEmits_iff hv).2 (by rw [hv']; simp)) hp
      rw [if_neg hp, hab]
      simp [itemVals]
  · cases k <;> simp [Kind.multi] at hm
    · rename_i sub
      cases v <;> simp [validV] at hv
      rename_i es
      simp only [slotResult, mkGroup, Kind.multi, Kind.init]
      rw [seqItems_vals sub es .nil]
      simp [Vals.append]
    · rename_i kk vt vk
      cases v <;> simp [validV] at hv
      rename_i kvs
      simp only [slotResult, mkGroup, Kind.multi, Kind.init]
      rw [mapItems_vals kk vt vk kvs .nil (validPairs_allPairs kk vk kvs hv.1) hv.2 (noneIn_nil kvs)]
      simp [Vals.append]

/-- lemma 3: merging the stream's items rebuilds the value -/
theorem expected_mkGroups : ∀ (fs : Fields) (vs : Vals), validVs fs vs = true →
    expected (compile fs) (mkGroups fs vs) = vs
  | .nil, .nil, _ => by simp [compile, mkGroups, expected]
  | .nil, .cons _ _, hv => by simp [validVs] at hv
  | .cons _ _ _, .nil, hv => by simp [validVs] at hv
  | .cons t k fs, .cons v vs, hv => by
    simp only [validVs, Bool.and_eq_true] at hv
    simp only [compile, mkGroups, expected, mkGroup_result k t _ v hv.1, expected_mkGroups fs vs hv.2]

/-! ## side conditions of `LoopSpec` for a compiled well-formed model -/

theorem compile_typed_mem : ∀ (fs : Fields) (s : Slot), s ∈ compile fs → s.hasTyp = true →
    s.typ ∈ typedTypes fs
  | .nil, s, h, _ => by simp [compile] at h
  | .cons t k fs, s, h, ht => by
    simp only [compile, List.mem_cons] at h
    rcases h with h | h
    · subst h
      simp only at ht
      simp [typedTypes, ht]
    · have := compile_typed_mem fs s h ht
      simp only [typedTypes]
      split <;> simp [this]

theorem distinct_compile : ∀ fs : Fields, wfFields fs = true → DistinctTyps (compile fs)
  | .nil, _ => by simp [compile, DistinctTyps]
  | .cons t k fs, hwf => by
    simp only [wfFields, Bool.and_eq_true] at hwf
    simp only [compile, DistinctTyps]
    refine ⟨?_, distinct_compile fs hwf.2⟩
    intro ht s' hs' ht' heq
    simp only [Bool.and_eq_true] at ht
    have hm := compile_typed_mem fs s' hs' ht'
    have h2 := hwf.1.2
    simp [ht.1] at h2
    rw [heq] at hm
    exact h2.2 hm

theorem initOk_compile : ∀ (fs : Fields) (s : Slot), s ∈ compile fs → InitOk s
  | .nil, s, h => by simp [compile] at h
  | .cons t k fs, s, h => by
    simp only [compile, List.mem_cons] at h
    rcases h with h | h
    · subst h; cases k <;> simp [InitOk, Kind.multi, Kind.init]
    · exact initOk_compile fs s h

/-- value bytes of valid values are short -/
theorem bodyOf_length_lt (k : Kind) (v : Val) (hwf : wfKind k = true) (hv : validV k v = true) :
    (bodyOf k v).length < 2 ^ 63 := by
  cases k <;> cases v <;> simp_all [validV, bodyOf, maxLen]
  · rw [encNat_length]; have := natLen_le ‹Nat›; omega
  · simp [wfKind] at hwf; omega
  · rename_i o ns; rw [encNat_length]; have := natLen_le (timeMs ns); omega
  · have := of_decide_eq_true hv; omega
  · have := of_decide_eq_true hv; omega
  · have := of_decide_eq_true hv; omega
  · simp only [nameOk, Bool.and_eq_true, maxLen] at hv
    have := of_decide_eq_true hv.2; omega
  · have := of_decide_eq_true hv.2; omega
  · have := of_decide_eq_true hv; omega
  · rw [stripDigest_id _ hv.2]
    have hv1 := hv.1
    simp only [nameOk, Bool.and_eq_true, maxLen] at hv1
    have := of_decide_eq_true hv1.2; omega

/-- a plain kind (with the inner models of struct kinds already known to round-trip) reads the
    value bytes of its own encoding -/
def ItemOk (k : Kind) : Prop :=
  ∀ v, validV k v = true → v ≠ .absent → ∀ (ic : Bool) (rest : Bytes),
    ∃ a, readKind k (bodyOf k v).length ic (bodyOf k v ++ rest) = .ok (v, rest) a

theorem seqItems_mem (sub : Kind) : ∀ (es : Vals), validElems sub es = true → ∀ e ∈ seqItems sub es,
    ∃ x, e = .item (bodyOf sub x).length (bodyOf sub x) x ∧ x ≠ .absent ∧ validV sub x = true
  | .nil, _, e, he => by simp [seqItems] at he
  | .cons y es, hv, e, he => by
    simp only [validElems, Bool.and_eq_true] at hv
    simp only [seqItems, List.mem_cons] at he
    rcases he with he | he
    · exact ⟨y, he, by intro h; subst h; simp at hv, hv.1.2⟩
    · exact seqItems_mem sub es hv.2 e he

theorem mapItems_mem (kk : Kind) (vt : Nat) (vk : Kind) : ∀ (kvs : Vals), validPairs kk vk kvs = true →
    ∀ e ∈ mapItems kk vt vk kvs,
    ∃ a b, e = .item (bodyOf kk a).length
                (bodyOf kk a ++ (encTL vt ++ encTL (bodyOf vk b).length ++ bodyOf vk b)) (.pair a b) ∧
      a ≠ .absent ∧ b ≠ .absent ∧ validV kk a = true ∧ validV vk b = true
  | .nil, _, e, he => by simp [mapItems] at he
  | .cons y r, hv, e, he => by
    cases y <;> simp [validPairs] at hv
    rename_i a b
    simp only [mapItems, List.mem_cons] at he
    rcases he with he | he
    · refine ⟨a, b, he, ?_, ?_, hv.1.1.2, hv.1.2⟩
      · intro h; subst h; simp at hv
      · intro h; subst h; simp at hv
    · exact mapItems_mem kk vt vk r hv.2 e he

theorem seqItems_length (sub : Kind) : ∀ es : Vals, (itemVals (seqItems sub es)).length = es.length
  | .nil => by simp [seqItems, itemVals, Vals.length]
  | .cons _ es => by simp [seqItems, itemVals, Vals.length, seqItems_length sub es]

/-- a map item: key by the key reader, T and L of the value, value by the value reader -/
theorem readMap_item (kk : Kind) (vt : Nat) (vk : Kind) (a b : Val) (ic : Bool) (rest : Bytes)
    (hvt : vt < 2 ^ 64) (hl2 : (bodyOf vk b).length < 2 ^ 64)
    (hk : ∀ rest', ∃ n, readKind kk (bodyOf kk a).length ic (bodyOf kk a ++ rest') = .ok (a, rest') n)
    (hvv : ∃ n, readKind vk (bodyOf vk b).length ic (bodyOf vk b ++ rest) = .ok (b, rest) n) :
    ∃ n, readMap (readKind kk) (readKind vk) vt (bodyOf kk a).length ic
      ((bodyOf kk a ++ (encTL vt ++ encTL (bodyOf vk b).length ++ bodyOf vk b)) ++ rest) = .ok (.pair a b, rest) n := by
  obtain ⟨n1, h1⟩ := hk (encTL vt ++ (encTL (bodyOf vk b).length ++ (bodyOf vk b ++ rest)))
  obtain ⟨n2, h2⟩ := hvv
  refine ⟨n1 + (n2 + 0), ?_⟩
  simp only [List.append_assoc]
  unfold readMap
  rw [h1]
  simp only [Res.bind, decTL_encTL vt hvt, decTL_encTL _ hl2, ne_eq, not_true_eq_false, if_false, h2]

theorem required_multi (k : Kind) (h : k.required = true) : k.multi = 0 := by
  cases k <;> simp_all [Kind.required, Kind.multi]

theorem required_present (k : Kind) (v : Val) (h : k.required = true) (hv : validV k v = true) :
    v ≠ .absent := by
  intro hab; subst hab
  cases k <;> simp_all [Kind.required, validV]

/-- the items of one field form an acceptable group of the field's slot -/
theorem group_ok_of (k : Kind) (t : Nat) (all : List Slot) (ic : Bool) (v : Val)
    (hwf : wfKind k = true) (ht : k.hasTyp = true → 0 < t ∧ t < 2 ^ 64) (hv : validV k v = true)
    (hitem : ItemOk (elemKind k)) :
    GroupOk all ic ⟨t, k.hasTyp && t != 0, k.required, k.multi, k.init, readKind k⟩ (mkGroup k v) := by
  by_cases hm : k.multi = 0
  · have hg : mkGroup k v = if plainEmits k v then [.item (bodyOf k v).length (bodyOf k v) v] else [] := by
      cases k <;> simp_all [mkGroup, Kind.multi]
    have he : elemKind k = k := by cases k <;> simp_all [elemKind, Kind.multi]
    rw [he] at hitem
    by_cases hp : plainEmits k v = true
    · have hne := (plainEmits_iff hv).1 hp
      have hty : k.hasTyp = true := by cases k <;> cases v <;> simp_all [plainEmits, Kind.hasTyp]
      obtain ⟨ht0, ht1⟩ := ht hty
      rw [hg, if_pos hp]
      refine ⟨?_, ?_, ?_, ?_⟩
      · intro e he
        simp only [List.mem_singleton] at he
        subst he
        simp only [ElOk]
        refine ⟨?_, ht1, ?_, fun rest => hitem v hv hne ic rest, fun _ => hne⟩
        · simp [hty]; omega
        · have := bodyOf_length_lt k v hwf hv; omega
      · intro _; simp [itemVals]
      · intro _; simp [itemVals]
      · intro _; exact hm
    · rw [hg, if_neg hp]
      refine ⟨by simp, by simp [itemVals], ?_, fun _ => hm⟩
      intro hr
      simp only at hr
      exact absurd ((plainEmits_iff hv).2 (required_present k v hr hv)) hp
  · cases k <;> simp [Kind.multi] at hm
    · -- sequence: every element is an item of the element kind
      rename_i sub
      simp only [wfKind, Bool.and_eq_true] at hwf
      cases v <;> simp [validV] at hv
      rename_i es
      obtain ⟨ht0, ht1⟩ := ht rfl
      simp only [elemKind] at hitem
      refine ⟨?_, by simp [Kind.multi], by simp [Kind.required], by simp [Kind.required]⟩
      intro e he
      simp only [mkGroup] at he
      obtain ⟨x, hx, hxa, hxv⟩ := seqItems_mem sub es hv e he
      subst hx
      simp only [ElOk, readKind]
      refine ⟨?_, ht1, ?_, fun rest => hitem x hxv hxa ic rest, fun _ => hxa⟩
      · simp [Kind.hasTyp]; omega
      · have := bodyOf_length_lt sub x hwf.2 hxv; omega
    · -- map: every pair is an item read by `readMap`
      rename_i kk vt vk
      simp only [wfKind, Bool.and_eq_true] at hwf
      cases v <;> simp [validV] at hv
      rename_i kvs
      obtain ⟨ht0, ht1⟩ := ht rfl
      simp only [elemKind] at hitem
      obtain ⟨hkm, hkwf, hkns⟩ := keyKindOk_facts hwf.1.1.1.1
      have hvt : vt < 2 ^ 64 := of_decide_eq_true hwf.2
      refine ⟨?_, by simp [Kind.multi], by simp [Kind.required], by simp [Kind.required]⟩
      intro e he
      simp only [mkGroup] at he
      obtain ⟨a, b, hx, haa, hba, hav, hbv⟩ := mapItems_mem kk vt vk kvs hv.1 e he
      subst hx
      simp only [ElOk, readKind]
      refine ⟨?_, ht1, ?_, ?_, fun _ => by simp⟩
      · simp [Kind.hasTyp]; omega
      · have := bodyOf_length_lt kk a hkwf hav; omega
      · intro rest
        exact readMap_item kk vt vk a b ic rest hvt
          (by have := bodyOf_length_lt vk b hwf.1.1.2 hbv; omega)
          (fun rest' => readKind_prim kk a hkwf hkm hkns hav haa ic rest')
          (hitem b hbv hba ic rest)

end Ndn.C13
