/-
  C13/Schema.lean — the data types of the generic TLV schema interpreter.

  A `Schema` is what `std/encoding/codegen` extracts from the `//+field:` annotations of one Go struct
  (`TlvModel`): the `ordered` option and the list of fields with their TLV type number and kind.
  The table of all schemas of the working tree is REGENERATED on every check run by
  `harness/cmd/schemagen` (which runs the repository's own annotation parser) into
  `NdnVerif/Gen/C13Schemas.lean`.

  Nested models are inlined (`Kind.struct`), so a schema is a finite tree and every function over it
  is structurally recursive.  Core Lean only.
-/
import NdnVerif.Base.Name
namespace Ndn.C13

mutual
/-- field kinds = the `fieldList` of `codegen/fields.go` -/
inductive Kind where
  | natural (opt : Bool)                 -- fields_natural.go   uint64 / *uint64
  | fixedUint (w : Nat) (opt : Bool)     -- fields_fixeduint.go byte/uint16/uint32/uint64 (w = 1,2,4,8)
  | time (opt : Bool)                    -- fields_time.go      time.Duration (milliseconds on the wire)
  | bool                                 -- fields_bool.go      presence flag
  | binary                               -- fields_binary.go    []byte
  | string (opt : Bool)                  -- fields_string.go    string / *string
  | wire                                 -- fields_wire.go      enc.Wire
  | name                                 -- fields_name.go      enc.Name
  | struct (ordered : Bool) (fs : Fields) -- fields_struct.go   *Inner (the inner model, inlined)
  | seq (sub : Kind)                     -- fields_sequence.go  []T of a sub-field of the same type number
  | map (key : Kind) (valTyp : Nat) (val : Kind)  -- map_field.go  map[K]V, key TLV then value TLV
  | marker                               -- markers.go: offsetMarker / rangeMarker / procedureArgument
  | signature                            -- signature.go SignatureField (never written by plain Encode())
  | interestName                         -- signature.go InterestNameField
inductive Fields where
  | nil
  | cons (typ : Nat) (k : Kind) (rest : Fields)
end

structure Schema where
  name : String
  ordered : Bool
  fields : Fields

mutual
/-- values of generated structs, positional (one `Val` per schema field, markers are `absent`) -/
inductive Val where
  | absent                 -- nil pointer / nil slice / false / marker
  | nat (n : Nat)          -- natural, fixedUint; time = the Duration's 64 bits (nanoseconds)
  | tt                     -- bool true
  | bytes (b : Bytes)      -- binary, string, wire (joined), signature value
  | name (n : Name)
  | struct (fs : Vals)
  | seq (vs : Vals)        -- nil and empty slices are identified (the decoder returns nil for no element)
  | map (kvs : Vals)       -- list of `pair`s, in encoding order
  | pair (k v : Val)
inductive Vals where
  | nil
  | cons (v : Val) (vs : Vals)
end

def Fields.length : Fields → Nat
  | .nil => 0
  | .cons _ _ r => r.length + 1

def Vals.length : Vals → Nat
  | .nil => 0
  | .cons _ r => r.length + 1

def Vals.append : Vals → Vals → Vals
  | .nil, b => b
  | .cons v a, b => .cons v (a.append b)

def Vals.snoc (a : Vals) (v : Val) : Vals := a.append (.cons v .nil)

def Vals.toList : Vals → List Val
  | .nil => []
  | .cons v r => v :: r.toList

def Vals.ofList : List Val → Vals
  | [] => .nil
  | v :: r => .cons v (Vals.ofList r)

/-- does the field have a TLV type number (a `case` in the generated switch)? -/
def Kind.hasTyp : Kind → Bool
  | .marker => false
  | _ => true

/-- skip-process = `ErrSkipRequired` -/
def Kind.required : Kind → Bool
  | .natural o => !o
  | .fixedUint _ o => !o
  | .time o => !o
  | .string o => !o
  | _ => false

/-- 0 = plain field, 1 = sequence, 2 = map -/
def Kind.multi : Kind → Nat
  | .seq _ => 1
  | .map _ _ _ => 2
  | _ => 0

/-- value of a field no element of which was seen -/
def Kind.init : Kind → Val
  | .seq _ => .seq .nil
  | .map _ _ _ => .map .nil
  | _ => .absent

/-- the critical-bit rule of `model.go` GenReadFrom: `(typ <= 31) || ((typ & 1) == 1)` -/
def critical (typ : Nat) : Bool := typ ≤ 31 || typ % 2 == 1

end Ndn.C13
