/-
  C13/UnknownSkipLemmas.lean — helper lemmas for UnknownSkip.lean:

  * the live items of `Text.lean` (`liveItems`) are, field by field, the elements of the element
    stream `mkGroups` of the round-trip proof (`elOf`, `head_corr`, `encItems_live`)
  * editing one group of a stream (inserting a junk element / replacing the body of one item)
    keeps it an acceptable input of the parse loops with the same result (`Edited`)
  Core Lean only.
-/
import NdnVerif.C13.RoundTrip
import NdnVerif.C13.LoopU
import NdnVerif.C13.LoopO
import NdnVerif.C13.Text
namespace Ndn.C13

/-! ## lists -/

theorem us_split_at {α : Type} : ∀ (l : List α) (i : Nat) (a : α), l[i]? = some a →
    l = l.take i ++ a :: l.drop (i + 1)
  | [], i, a, h => by simp at h
  | x :: l, 0, a, h => by simp at h; simp [h]
  | x :: l, i + 1, a, h => by
    simp at h
    have := us_split_at l i a h
    simp only [List.take_succ_cons, List.drop_succ_cons, List.cons_append]
    rw [← this]

theorem us_tlLen_pos (x : Nat) : 1 ≤ tlLen x := LU.tlLen_pos x

theorem us_tlLen_le (x : Nat) : tlLen x ≤ 9 := by
  unfold tlLen; repeat' split
  all_goals omega

/-! ## items of one field as stream elements -/

/-- live items of the first field -/
def headLive (t : Nat) (k : Kind) (v : Val) : List (Nat × Kind × Val) :=
  liveItems (.cons t k .nil) (.cons v .nil)

theorem liveItems_cons (t : Nat) (k : Kind) (fs : Fields) (v : Val) (vs : Vals) :
    liveItems (.cons t k fs) (.cons v vs) = headLive t k v ++ liveItems fs vs := by
  simp [headLive, liveItems, itemsOf, List.filter_append]

theorem liveItems_nil_left (vs : Vals) : liveItems .nil vs = [] := by
  simp [liveItems, itemsOf]

/-- the stream element of an item: a pair item carries the key's value bytes followed by the whole
    value TLV, every other item its value bytes -/
def elOf (it : Nat × Kind × Val) : El :=
  match it.2.1 with
  | .map kk vt vk =>
    match it.2.2 with
    | .map (.cons (.pair a b) _) =>
      .item (bodyOf kk a).length (bodyOf kk a ++ (encTL vt ++ encTL (bodyOf vk b).length ++ bodyOf vk b)) (.pair a b)
    | v => .item 0 [] v
  | k => .item (bodyOf k it.2.2).length (bodyOf k it.2.2) it.2.2

theorem elOf_plain (t : Nat) (k : Kind) (v : Val) (h : k.multi = 0) :
    elOf (t, k, v) = .item (bodyOf k v).length (bodyOf k v) v := by
  cases k <;> simp_all [elOf, Kind.multi]

theorem elOf_pair (t : Nat) (kk : Kind) (vt : Nat) (vk : Kind) (a b : Val) (r : Vals) :
    elOf (t, .map kk vt vk, .map (.cons (.pair a b) r)) =
      .item (bodyOf kk a).length (bodyOf kk a ++ (encTL vt ++ encTL (bodyOf vk b).length ++ bodyOf vk b)) (.pair a b) := by
  simp [elOf]

/-- the item's bytes are those of its stream element in the group of type number `t` -/
def Good (t : Nat) (it : Nat × Kind × Val) : Prop := it.1 = t ∧ encItem it = El.bytes t (elOf it)

theorem elOf_isItem (it : Nat × Kind × Val) : ∃ l body v, elOf it = .item l body v := by
  unfold elOf
  split
  · split
    · exact ⟨_, _, _, rfl⟩
    · exact ⟨_, _, _, rfl⟩
  · exact ⟨_, _, _, rfl⟩

theorem good_live {t : Nat} {it : Nat × Kind × Val} (h : Good t it) : (!(encItem it).isEmpty) = true := by
  obtain ⟨l, body, v, he⟩ := elOf_isItem it
  rw [h.2, he]
  have := LO.encTL_ne_nil t
  cases hh : encTL t with
  | nil => exact absurd hh this
  | cons x r => simp [El.bytes, hh]

theorem validElems_mem (sub : Kind) : ∀ es : Vals, validElems sub es = true →
    ∀ e ∈ es.toList, e ≠ .absent ∧ validV sub e = true
  | .nil, _, e, he => by simp [Vals.toList] at he
  | .cons y es, hv, e, he => by
    simp only [validElems, Bool.and_eq_true] at hv
    simp only [Vals.toList, List.mem_cons] at he
    rcases he with he | he
    · subst he
      exact ⟨by intro h; subst h; simp at hv, hv.1.2⟩
    · exact validElems_mem sub es hv.2 e he

theorem validPairs_mem (kk vk : Kind) : ∀ kvs : Vals, validPairs kk vk kvs = true →
    ∀ p ∈ kvs.toList, ∃ a b, p = .pair a b ∧ a ≠ .absent ∧ b ≠ .absent ∧
      validV kk a = true ∧ validV vk b = true
  | .nil, _, p, hp => by simp [Vals.toList] at hp
  | .cons y r, hv, p, hp => by
    cases y <;> simp [validPairs] at hv
    rename_i a b
    simp only [Vals.toList, List.mem_cons] at hp
    rcases hp with hp | hp
    · refine ⟨a, b, hp, ?_, ?_, hv.1.1.2, hv.1.2⟩
      · intro h; subst h; simp at hv
      · intro h; subst h; simp at hv
    · exact validPairs_mem kk vk r hv.2 p hp

theorem seqItems_eq_map (t : Nat) (sub : Kind) (hm : sub.multi = 0) : ∀ es : Vals,
    seqItems sub es = (es.toList.map fun e => (t, sub, e)).map elOf
  | .nil => by simp [seqItems, Vals.toList]
  | .cons e es => by
    simp only [seqItems, Vals.toList, List.map_cons, elOf_plain t sub e hm, seqItems_eq_map t sub hm es]

theorem mapItems_eq_map (t : Nat) (kk : Kind) (vt : Nat) (vk : Kind) : ∀ kvs : Vals,
    validPairs kk vk kvs = true →
    mapItems kk vt vk kvs =
      (kvs.toList.map fun p => (t, Kind.map kk vt vk, Val.map (.cons p .nil))).map elOf
  | .nil, _ => by simp [mapItems, Vals.toList]
  | .cons y r, hv => by
    cases y <;> simp [validPairs] at hv
    rename_i a b
    simp only [mapItems, Vals.toList, List.map_cons, elOf_pair, mapItems_eq_map t kk vt vk r hv.2]

theorem headLive_seq (t : Nat) (sub : Kind) (es : Vals) :
    headLive t (.seq sub) (.seq es) =
      (es.toList.map fun e => (t, sub, e)).filter fun it => !(encItem it).isEmpty := by
  simp [headLive, liveItems, itemsOf]

theorem headLive_map (t : Nat) (kk : Kind) (vt : Nat) (vk : Kind) (kvs : Vals) :
    headLive t (.map kk vt vk) (.map kvs) =
      (kvs.toList.map fun p => (t, Kind.map kk vt vk, Val.map (.cons p .nil))).filter
        fun it => !(encItem it).isEmpty := by
  simp [headLive, liveItems, itemsOf]

theorem headLive_plain (t : Nat) (k : Kind) (v : Val) (hm : k.multi = 0) :
    headLive t k v = [(t, k, v)].filter fun it => !(encItem it).isEmpty := by
  cases k <;> simp_all [headLive, liveItems, itemsOf, Kind.multi]

theorem filter_all_good (t : Nat) (l : List (Nat × Kind × Val)) (h : ∀ it ∈ l, Good t it) :
    l.filter (fun it => !(encItem it).isEmpty) = l :=
  List.filter_eq_self.2 fun it hit => good_live (h it hit)

/-- the live items of a field are exactly the elements of its group, in order -/
theorem head_corr (t : Nat) (k : Kind) (v : Val) (hwf : wfKind k = true) (hv : validV k v = true) :
    mkGroup k v = (headLive t k v).map elOf ∧ ∀ it ∈ headLive t k v, Good t it := by
  by_cases hm : k.multi = 0
  · have hg : mkGroup k v = if plainEmits k v then [.item (bodyOf k v).length (bodyOf k v) v] else [] := by
      cases k <;> simp_all [mkGroup, Kind.multi]
    rw [hg, headLive_plain t k v hm]
    by_cases hp : plainEmits k v = true
    · have hne := (plainEmits_iff hv).1 hp
      have hgood : Good t (t, k, v) := by
        refine ⟨rfl, ?_⟩
        simp only [encItem, elOf_plain t k v hm, El.bytes, encKind_eq_tlv k t v hwf hm hv hne]
      have hl := good_live hgood
      rw [if_pos hp]
      simp only [List.filter_cons, hl, if_true, List.filter_nil, List.map_cons, List.map_nil,
        elOf_plain t k v hm, List.mem_singleton]
      exact ⟨trivial, fun it hit => hit ▸ hgood⟩
    · have hab : v = .absent := by
        cases hv' : v with
        | absent => rfl
        | _ => exact absurd ((plainEmits_iff hv).2 (by rw [hv']; simp)) hp
      rw [if_neg hp, hab]
      simp [encItem, encKind_absent]
  · cases k <;> simp [Kind.multi] at hm
    · rename_i sub
      simp only [wfKind, Bool.and_eq_true] at hwf
      cases v <;> simp [validV] at hv
      rename_i es
      have hsm := elemKindOk_multi hwf.1
      have hgood : ∀ it ∈ (es.toList.map fun e => (t, sub, e)), Good t it := by
        intro it hit
        simp only [List.mem_map] at hit
        obtain ⟨e, he, rfl⟩ := hit
        obtain ⟨hne, hve⟩ := validElems_mem sub es hv e he
        refine ⟨rfl, ?_⟩
        simp only [encItem, elOf_plain t sub e hsm, El.bytes, encKind_eq_tlv sub t e hwf.2 hsm hve hne]
      rw [headLive_seq, filter_all_good t _ hgood]
      exact ⟨by simp only [mkGroup]; exact seqItems_eq_map t sub hsm es, hgood⟩
    · rename_i kk vt vk
      simp only [wfKind, Bool.and_eq_true] at hwf
      cases v <;> simp [validV] at hv
      rename_i kvs
      obtain ⟨hkm, hkwf, _⟩ := keyKindOk_facts hwf.1.1.1.1
      have hvm := elemKindOk_multi hwf.1.1.1.2
      have hgood : ∀ it ∈ (kvs.toList.map fun p => (t, Kind.map kk vt vk, Val.map (.cons p .nil))),
          Good t it := by
        intro it hit
        simp only [List.mem_map] at hit
        obtain ⟨p, hp, rfl⟩ := hit
        obtain ⟨a, b, rfl, hna, hnb, hva, hvb⟩ := validPairs_mem kk vk kvs hv.1 p hp
        refine ⟨rfl, ?_⟩
        simp only [encItem, elOf_pair, El.bytes, encKind, encMap,
          encKind_eq_tlv kk t a hkwf hkm hva hna, encKind_eq_tlv vk vt b hwf.1.1.2 hvm hvb hnb,
          List.append_assoc, List.append_nil]
      rw [headLive_map, filter_all_good t _ hgood]
      exact ⟨by simp only [mkGroup]; exact mapItems_eq_map t kk vt vk kvs hv.1, hgood⟩

/-! ## struct items -/

/-- what is known about a struct item of a field of kind `k` -/
theorem head_struct_facts (t : Nat) (k : Kind) (v : Val) (hwf : wfKind k = true) (hv : validV k v = true)
    (t' : Nat) (o : Bool) (ifs : Fields) (ivs : Vals)
    (hmem : (t', Kind.struct o ifs, Val.struct ivs) ∈ headLive t k v) :
    wfFields ifs = true ∧ validVs ifs ivs = true ∧ (encFields ifs ivs).length < maxLen ∧
    (∀ x, x ∈ fieldsTypes ifs → x ∈ kindTypes k) ∧
    (∀ l ic r, readKind k l ic r = readKind (.struct o ifs) l ic r) := by
  by_cases hm : k.multi = 0
  · rw [headLive_plain t k v hm] at hmem
    have h2 := (List.mem_filter.1 hmem).1
    simp only [List.mem_singleton, Prod.mk.injEq] at h2
    obtain ⟨_, hk, hvv⟩ := h2
    subst hk; subst hvv
    simp only [wfKind] at hwf
    simp only [validV, Bool.and_eq_true] at hv
    exact ⟨hwf, hv.1, of_decide_eq_true hv.2, fun x hx => by simpa [kindTypes] using hx, fun _ _ _ => rfl⟩
  · cases k <;> simp [Kind.multi] at hm
    · rename_i sub
      simp only [wfKind, Bool.and_eq_true] at hwf
      cases v <;> simp [validV] at hv
      rename_i es
      rw [headLive_seq] at hmem
      have h2 := (List.mem_filter.1 hmem).1
      simp only [List.mem_map, Prod.mk.injEq] at h2
      obtain ⟨e, he, _, hk, hvv⟩ := h2
      subst hk; subst hvv
      obtain ⟨_, hve⟩ := validElems_mem _ es hv _ he
      have hw2 := hwf.2
      simp only [wfKind] at hw2
      simp only [validV, Bool.and_eq_true] at hve
      refine ⟨hw2, hve.1, of_decide_eq_true hve.2, fun x hx => by simpa [kindTypes] using hx, ?_⟩
      intro l ic r
      conv => lhs; rw [readKind]
    · rename_i kk vt vk
      cases v <;> simp [validV] at hv
      rename_i kvs
      rw [headLive_map] at hmem
      have h2 := (List.mem_filter.1 hmem).1
      simp at h2

theorem struct_item_facts : ∀ (fs : Fields) (vs : Vals), wfFields fs = true → validVs fs vs = true →
    ∀ (t' : Nat) (o : Bool) (ifs : Fields) (ivs : Vals),
    (t', Kind.struct o ifs, Val.struct ivs) ∈ liveItems fs vs →
    wfFields ifs = true ∧ validVs ifs ivs = true ∧ (encFields ifs ivs).length < maxLen ∧
    (∀ x, x ∈ fieldsTypes ifs → x ∈ fieldsTypes fs)
  | .nil, vs, _, _, t', o, ifs, ivs, hmem => by simp [liveItems_nil_left] at hmem
  | .cons _ _ _, .nil, _, hv, _, _, _, _, _ => by simp [validVs] at hv
  | .cons t k fs, .cons v vs, hwf, hv, t', o, ifs, ivs, hmem => by
    simp only [wfFields, Bool.and_eq_true] at hwf
    simp only [validVs, Bool.and_eq_true] at hv
    rw [liveItems_cons, List.mem_append] at hmem
    rcases hmem with hmem | hmem
    · obtain ⟨h1, h2, h3, h4, _⟩ := head_struct_facts t k v hwf.1.1 hv.1 t' o ifs ivs hmem
      refine ⟨h1, h2, h3, fun x hx => ?_⟩
      simp [fieldsTypes, h4 x hx]
    · obtain ⟨h1, h2, h3, h4⟩ := struct_item_facts fs vs hwf.2 hv.2 t' o ifs ivs hmem
      refine ⟨h1, h2, h3, fun x hx => ?_⟩
      simp [fieldsTypes, h4 x hx]

/-- a type number used nowhere in the field list has no `case` in the generated switch -/
theorem knownTyp_compile (jt : Nat) : ∀ fs : Fields, jt ∉ fieldsTypes fs → knownTyp (compile fs) jt = false
  | .nil, _ => by simp [compile, knownTyp]
  | .cons t k fs, h => by
    simp only [fieldsTypes, List.mem_cons, List.mem_append, not_or] at h
    have ih := knownTyp_compile jt fs h.2.2
    simp only [knownTyp] at ih
    simp only [compile, knownTyp, List.any_cons, ih, Bool.or_false, Bool.and_eq_false_iff]
    right
    simp only [beq_eq_false_iff_ne, ne_eq]
    exact fun h' => h.1 h'.symm

/-! ## the bytes of the live items -/

theorem groupBytes_append (t : Nat) (a b : List El) : groupBytes t (a ++ b) = groupBytes t a ++ groupBytes t b := by
  simp [groupBytes]

theorem encItems_append (a b : List (Nat × Kind × Val)) : encItems (a ++ b) = encItems a ++ encItems b := by
  simp [encItems]

theorem groupBytes_map_elOf (t : Nat) : ∀ (l : List (Nat × Kind × Val)), (∀ it ∈ l, Good t it) →
    groupBytes t (l.map elOf) = encItems l
  | [], _ => rfl
  | it :: l, h => by
    have ih := groupBytes_map_elOf t l (fun x hx => h x (by simp [hx]))
    simp only [groupBytes, encItems] at ih
    simp only [groupBytes, encItems, List.map_cons, List.flatMap_cons, ih, (h it (by simp)).2]

theorem encItems_live : ∀ (fs : Fields) (vs : Vals), wfFields fs = true → validVs fs vs = true →
    encItems (liveItems fs vs) = groupsBytes (compile fs) (mkGroups fs vs)
  | .nil, vs, _, _ => by simp [liveItems_nil_left, encItems, compile, groupsBytes]
  | .cons _ _ _, .nil, _, hv => by simp [validVs] at hv
  | .cons t k fs, .cons v vs, hwf, hv => by
    simp only [wfFields, Bool.and_eq_true] at hwf
    simp only [validVs, Bool.and_eq_true] at hv
    obtain ⟨h1, h2⟩ := head_corr t k v hwf.1.1 hv.1
    rw [liveItems_cons, encItems_append, encItems_live fs vs hwf.2 hv.2]
    simp only [compile, mkGroups, groupsBytes]
    rw [h1, groupBytes_map_elOf t _ h2]

theorem encItems_live_eq (fs : Fields) (vs : Vals) (hwf : wfFields fs = true) (hv : validVs fs vs = true) :
    encItems (liveItems fs vs) = encFields fs vs := by
  rw [encItems_live fs vs hwf hv, groupsBytes_mkGroups fs vs hwf hv]

/-! ## editing one group -/

theorem itemVals_append : ∀ (a b : List El), itemVals (a ++ b) = itemVals a ++ itemVals b
  | [], b => rfl
  | .junk _ _ :: a, b => by simp only [List.cons_append, itemVals, itemVals_append a b]
  | .item _ _ _ :: a, b => by simp only [List.cons_append, itemVals, itemVals_append a b]

/-- a group with the same items (values) whose elements are all acceptable is acceptable and gives
    the same result -/
theorem groupOk_of_same_vals (all : List Slot) (ic : Bool) (s : Slot) (g g' : List El)
    (hg : GroupOk all ic s g) (hel : ∀ e ∈ g', ElOk all ic s e) (hv : itemVals g' = itemVals g) :
    GroupOk all ic s g' ∧ slotResult s g' = slotResult s g := by
  obtain ⟨_, h2, h3, h4⟩ := hg
  refine ⟨⟨hel, ?_, ?_, h4⟩, ?_⟩
  · rw [hv]; exact h2
  · rw [hv]; exact h3
  · simp only [slotResult, hv]

/-- inserting a tolerated unknown element anywhere in a group -/
theorem group_insert (all : List Slot) (ic : Bool) (s : Slot) (g : List El) (j jt : Nat) (jbody : Bytes)
    (hg : GroupOk all ic s g)
    (hJ : jt < 2 ^ 64 ∧ jbody.length < 2 ^ 63 ∧ knownTyp all jt = false ∧ (ic = true ∨ critical jt = false)) :
    GroupOk all ic s (g.take j ++ .junk jt jbody :: g.drop j) ∧
    slotResult s (g.take j ++ .junk jt jbody :: g.drop j) = slotResult s g := by
  apply groupOk_of_same_vals all ic s g _ hg
  · intro e he
    simp only [List.mem_append, List.mem_cons] at he
    rcases he with he | he | he
    · exact hg.1 e (List.mem_of_mem_take he)
    · subst he; exact hJ
    · exact hg.1 e (List.mem_of_mem_drop he)
  · rw [itemVals_append]
    simp only [itemVals]
    rw [← itemVals_append, List.take_append_drop]

/-- replacing the body of one item by another body the slot's reader decodes to the same value -/
theorem group_replace (all : List Slot) (ic : Bool) (s : Slot) (g : List El) (i l : Nat) (body : Bytes) (v : Val)
    (l' : Nat) (body' : Bytes)
    (hg : GroupOk all ic s g) (hi : g[i]? = some (.item l body v)) (hl' : l' < 2 ^ 64)
    (hread : ∀ rest : Bytes, ∃ a, s.read l' ic (body' ++ rest) = .ok (v, rest) a) :
    GroupOk all ic s (g.take i ++ .item l' body' v :: g.drop (i + 1)) ∧
    slotResult s (g.take i ++ .item l' body' v :: g.drop (i + 1)) = slotResult s g := by
  have hsplit := us_split_at g i _ hi
  have hold : ElOk all ic s (.item l body v) := hg.1 _ (List.mem_of_getElem? hi)
  apply groupOk_of_same_vals all ic s g _ hg
  · intro e he
    simp only [List.mem_append, List.mem_cons] at he
    rcases he with he | he | he
    · exact hg.1 e (List.mem_of_mem_take he)
    · subst he
      exact ⟨hold.1, hold.2.1, hl', hread, hold.2.2.2.2⟩
    · exact hg.1 e (List.mem_of_mem_drop he)
  · conv => rhs; rw [hsplit]
    simp only [itemVals_append, itemVals]

/-! ## edited streams -/

/-- `b` is the byte string of an acceptable element stream of the model `fs` (inside a model whose
    slots are `all`) whose items merge to `vs` -/
def Edited (all : List Slot) (ic : Bool) (fs : Fields) (vs : Vals) (b : Bytes) : Prop :=
  ∃ G, GroupsOk all ic (compile fs) G ∧ groupsBytes (compile fs) G = b ∧ expected (compile fs) G = vs

theorem edited_run (fs : Fields) (vs : Vals) (ord ic : Bool) (b : Bytes) (hwf : wfFields fs = true)
    (h : Edited (compile fs) ic fs vs b) : ∃ a, runSlots ord (compile fs) ic b = .ok vs a := by
  obtain ⟨G, h1, h2, h3⟩ := h
  have hd := distinct_compile fs hwf
  have hi := initOk_compile fs
  cases ord with
  | false =>
    obtain ⟨a, ha⟩ := LU.loopU_spec (compile fs) ic G hd hi h1
    rw [h2, h3] at ha
    exact ⟨a, ha⟩
  | true =>
    obtain ⟨a, ha⟩ := LO.loopO_spec (compile fs) ic G hd hi h1
    rw [h2, h3] at ha
    exact ⟨a, ha⟩

/-- the slot of the first field -/
def slotOf (t : Nat) (k : Kind) : Slot := ⟨t, k.hasTyp && t != 0, k.required, k.multi, k.init, readKind k⟩

theorem compile_cons (t : Nat) (k : Kind) (fs : Fields) : compile (.cons t k fs) = slotOf t k :: compile fs := by
  simp [compile, slotOf]

theorem head_groupOk (all : List Slot) (ic : Bool) (t : Nat) (k : Kind) (fs : Fields) (v : Val) (vs : Vals)
    (hwf : wfFields (.cons t k fs) = true) (hv : validVs (.cons t k fs) (.cons v vs) = true) :
    GroupOk all ic (slotOf t k) (mkGroup k v) := by
  have := groups_ok LU.loopU_spec LO.loopO_spec (.cons t k fs) hwf all ic (.cons v vs) hv
  simp only [compile_cons, mkGroups, GroupsOk] at this
  exact this.1

/-- an edit inside the first field's group -/
theorem edited_head (all : List Slot) (ic : Bool) (t : Nat) (k : Kind) (fs : Fields) (v : Val) (vs : Vals)
    (hwf : wfFields (.cons t k fs) = true) (hv : validVs (.cons t k fs) (.cons v vs) = true)
    (g' : List El) (X : Bytes) (h1 : GroupOk all ic (slotOf t k) g')
    (h2 : slotResult (slotOf t k) g' = slotResult (slotOf t k) (mkGroup k v))
    (h3 : groupBytes t g' = X) :
    Edited all ic (.cons t k fs) (.cons v vs) (X ++ encItems (liveItems fs vs)) := by
  have hwf' := hwf
  have hv' := hv
  simp only [wfFields, Bool.and_eq_true] at hwf'
  simp only [validVs, Bool.and_eq_true] at hv'
  refine ⟨g' :: mkGroups fs vs, ?_, ?_, ?_⟩
  · simp only [compile_cons, GroupsOk]
    exact ⟨h1, groups_ok LU.loopU_spec LO.loopO_spec fs hwf'.2 all ic vs hv'.2⟩
  · simp only [compile_cons, groupsBytes]
    rw [encItems_live fs vs hwf'.2 hv'.2, ← h3]
    rfl
  · simp only [compile_cons, expected, h2]
    rw [expected_mkGroups fs vs hv'.2]
    have := mkGroup_result k t (k.hasTyp && t != 0) v hv'.1
    simp only [slotOf, this]

/-- an edit further down the field list -/
theorem edited_tail (all : List Slot) (ic : Bool) (t : Nat) (k : Kind) (fs : Fields) (v : Val) (vs : Vals)
    (hwf : wfFields (.cons t k fs) = true) (hv : validVs (.cons t k fs) (.cons v vs) = true)
    (B : Bytes) (h : Edited all ic fs vs B) :
    Edited all ic (.cons t k fs) (.cons v vs) (encItems (headLive t k v) ++ B) := by
  have hwf' := hwf
  have hv' := hv
  simp only [wfFields, Bool.and_eq_true] at hwf'
  simp only [validVs, Bool.and_eq_true] at hv'
  obtain ⟨G, h1, h2, h3⟩ := h
  obtain ⟨c1, c2⟩ := head_corr t k v hwf'.1.1 hv'.1
  refine ⟨mkGroup k v :: G, ?_, ?_, ?_⟩
  · simp only [compile_cons, GroupsOk]
    exact ⟨head_groupOk all ic t k fs v vs hwf hv, h1⟩
  · simp only [compile_cons, groupsBytes, h2]
    rw [c1]
    show groupBytes t _ ++ B = _
    rw [groupBytes_map_elOf t _ c2]
  · simp only [compile_cons, expected, h3]
    have := mkGroup_result k t (k.hasTyp && t != 0) v hv'.1
    simp only [slotOf, this]

/-- what the caller tolerates: the conditions of `ElOk` for a junk element -/
def JunkOk (all : List Slot) (ic : Bool) (jt : Nat) (jbody : Bytes) : Prop :=
  jt < 2 ^ 64 ∧ jbody.length < 2 ^ 63 ∧ knownTyp all jt = false ∧ (ic = true ∨ critical jt = false)

theorem head_insert (all : List Slot) (ic : Bool) (t : Nat) (k : Kind) (v : Val)
    (hwf : wfKind k = true) (hv : validV k v = true) (hg : GroupOk all ic (slotOf t k) (mkGroup k v))
    (j jt : Nat) (jbody : Bytes) (hJ : JunkOk all ic jt jbody) :
    ∃ g', GroupOk all ic (slotOf t k) g' ∧
      slotResult (slotOf t k) g' = slotResult (slotOf t k) (mkGroup k v) ∧
      groupBytes t g' = encItems ((headLive t k v).take j) ++ tlv jt jbody ++ encItems ((headLive t k v).drop j) := by
  obtain ⟨c1, c2⟩ := head_corr t k v hwf hv
  obtain ⟨r1, r2⟩ := group_insert all ic (slotOf t k) (mkGroup k v) j jt jbody hg hJ
  refine ⟨_, r1, r2, ?_⟩
  rw [groupBytes_append, c1, ← List.map_take, ← List.map_drop]
  rw [groupBytes_map_elOf t _ (fun it h => c2 it (List.mem_of_mem_take h))]
  have : groupBytes t (El.junk jt jbody :: List.map elOf (List.drop j (headLive t k v))) =
      tlv jt jbody ++ groupBytes t (List.map elOf (List.drop j (headLive t k v))) := by
    simp [groupBytes, El.bytes]
  rw [this, groupBytes_map_elOf t _ (fun it h => c2 it (List.mem_of_mem_drop h)), List.append_assoc]

theorem head_replace (all : List Slot) (ic : Bool) (t : Nat) (k : Kind) (v : Val)
    (hwf : wfKind k = true) (hv : validV k v = true) (hg : GroupOk all ic (slotOf t k) (mkGroup k v))
    (i t' : Nat) (o : Bool) (ifs : Fields) (ivs : Vals)
    (hi : (headLive t k v)[i]? = some (t', .struct o ifs, .struct ivs))
    (nb : Bytes) (hnb : nb.length < 2 ^ 63) (hrun : ∃ a, runSlots o (compile ifs) ic nb = .ok ivs a) :
    ∃ g', GroupOk all ic (slotOf t k) g' ∧
      slotResult (slotOf t k) g' = slotResult (slotOf t k) (mkGroup k v) ∧
      groupBytes t g' =
        encItems ((headLive t k v).take i) ++ tlv t' nb ++ encItems ((headLive t k v).drop (i + 1)) := by
  obtain ⟨c1, c2⟩ := head_corr t k v hwf hv
  have hmem := List.mem_of_getElem? hi
  obtain ⟨_, _, _, _, hrd⟩ := head_struct_facts t k v hwf hv t' o ifs ivs hmem
  have ht : t' = t := (c2 _ hmem).1
  subst ht
  have hgi : (mkGroup k v)[i]? =
      some (.item (encFields ifs ivs).length (encFields ifs ivs) (.struct ivs)) := by
    rw [c1, List.getElem?_map, hi]
    simp [elOf_plain _ _ _ (show (Kind.struct o ifs).multi = 0 from rfl), bodyOf]
  have hread : ∀ rest : Bytes, ∃ a, (slotOf t' k).read nb.length ic (nb ++ rest) = .ok (.struct ivs, rest) a := by
    intro rest
    show ∃ a, readKind k nb.length ic (nb ++ rest) = _
    rw [hrd]
    exact readStruct_of_inner o ifs nb ivs ic rest hnb hrun
  obtain ⟨r1, r2⟩ := group_replace all ic (slotOf t' k) (mkGroup k v) i _ _ _ nb.length nb hg hgi (by omega) hread
  refine ⟨_, r1, r2, ?_⟩
  rw [groupBytes_append, c1, ← List.map_take, ← List.map_drop]
  rw [groupBytes_map_elOf t' _ (fun it h => c2 it (List.mem_of_mem_take h))]
  have : groupBytes t' (El.item nb.length nb (.struct ivs) :: List.map elOf (List.drop (i + 1) (headLive t' k v))) =
      tlv t' nb ++ groupBytes t' (List.map elOf (List.drop (i + 1) (headLive t' k v))) := by
    simp [groupBytes, El.bytes, tlv]
  rw [this, groupBytes_map_elOf t' _ (fun it h => c2 it (List.mem_of_mem_drop h)), List.append_assoc]

/-! ## edits at a position of the whole item list -/

/-- a tolerated unknown element at item boundary `j` of a non-empty model -/
theorem insert_edited (all : List Slot) (ic : Bool) (jt : Nat) (jbody : Bytes) (hJ : JunkOk all ic jt jbody) :
    ∀ (fs : Fields) (vs : Vals), wfFields fs = true → validVs fs vs = true → fs ≠ .nil →
    ∀ j, j ≤ (liveItems fs vs).length →
    Edited all ic fs vs
      (encItems ((liveItems fs vs).take j) ++ tlv jt jbody ++ encItems ((liveItems fs vs).drop j))
  | .nil, _, _, _, hne, _, _ => absurd rfl hne
  | .cons _ _ _, .nil, _, hv, _, _, _ => by simp [validVs] at hv
  | .cons t k fs, .cons v vs, hwf, hv, _, j, hj => by
    have hwf' := hwf
    have hv' := hv
    simp only [wfFields, Bool.and_eq_true] at hwf'
    simp only [validVs, Bool.and_eq_true] at hv'
    rw [liveItems_cons] at hj ⊢
    by_cases hjl : j ≤ (headLive t k v).length
    · obtain ⟨g', h1, h2, h3⟩ := head_insert all ic t k v hwf'.1.1 hv'.1
        (head_groupOk all ic t k fs v vs hwf hv) j jt jbody hJ
      have := edited_head all ic t k fs v vs hwf hv g' _ h1 h2 h3
      rw [List.take_append_of_le_length hjl, List.drop_append_of_le_length hjl, encItems_append]
      simpa only [List.append_assoc] using this
    · have hlt : (headLive t k v).length < j := by omega
      have hfs : fs ≠ .nil := by
        intro h; subst h
        simp [liveItems_nil_left] at hj
        omega
      have ih := insert_edited all ic jt jbody hJ fs vs hwf'.2 hv'.2 hfs (j - (headLive t k v).length)
        (by simp only [List.length_append] at hj; omega)
      have := edited_tail all ic t k fs v vs hwf hv _ ih
      rw [List.take_append, List.drop_append, List.take_of_length_le (by omega),
        List.drop_of_length_le (by omega), encItems_append]
      simpa only [List.append_assoc, List.nil_append] using this

/-- the body of the struct item at index `i` replaced by a body the inner model decodes to the same
    value -/
theorem replace_edited (all : List Slot) (ic : Bool) (t' : Nat) (o : Bool) (ifs : Fields) (ivs : Vals)
    (nb : Bytes) (hnb : nb.length < 2 ^ 63) (hrun : ∃ a, runSlots o (compile ifs) ic nb = .ok ivs a) :
    ∀ (fs : Fields) (vs : Vals), wfFields fs = true → validVs fs vs = true →
    ∀ i, (liveItems fs vs)[i]? = some (t', .struct o ifs, .struct ivs) →
    Edited all ic fs vs
      (encItems ((liveItems fs vs).take i) ++ tlv t' nb ++ encItems ((liveItems fs vs).drop (i + 1)))
  | .nil, _, _, _, i, hi => by simp [liveItems_nil_left] at hi
  | .cons _ _ _, .nil, _, hv, _, _ => by simp [validVs] at hv
  | .cons t k fs, .cons v vs, hwf, hv, i, hi => by
    have hwf' := hwf
    have hv' := hv
    simp only [wfFields, Bool.and_eq_true] at hwf'
    simp only [validVs, Bool.and_eq_true] at hv'
    rw [liveItems_cons] at hi ⊢
    by_cases hil : i < (headLive t k v).length
    · rw [List.getElem?_append_left hil] at hi
      obtain ⟨g', h1, h2, h3⟩ := head_replace all ic t k v hwf'.1.1 hv'.1
        (head_groupOk all ic t k fs v vs hwf hv) i t' o ifs ivs hi nb hnb hrun
      have := edited_head all ic t k fs v vs hwf hv g' _ h1 h2 h3
      rw [List.take_append_of_le_length (by omega), List.drop_append_of_le_length (by omega), encItems_append]
      simpa only [List.append_assoc] using this
    · have hle : (headLive t k v).length ≤ i := by omega
      rw [List.getElem?_append_right hle] at hi
      have ih := replace_edited all ic t' o ifs ivs nb hnb hrun fs vs hwf'.2 hv'.2 _ hi
      have := edited_tail all ic t k fs v vs hwf hv _ ih
      rw [List.take_append, List.drop_append, List.take_of_length_le hle,
        List.drop_of_length_le (by omega), encItems_append]
      have e : i + 1 - (headLive t k v).length = i - (headLive t k v).length + 1 := by omega
      rw [e]
      simpa only [List.append_assoc, List.nil_append] using this

/-! ## the empty model -/

/-- a model without fields skips a tolerated element and returns the empty value -/
theorem runSlots_nil_junk (ord ic : Bool) (jt : Nat) (jbody : Bytes) (ht : jt < 2 ^ 64)
    (hb : jbody.length < 2 ^ 63) (hc : ic = true ∨ critical jt = false) :
    ∃ a, runSlots ord [] ic (tlv jt jbody) = .ok .nil a := by
  have hk : knownTyp [] jt = false := by simp [knownTyp]
  have hpos := LO.tlv_length_pos jt jbody
  obtain ⟨n, hn⟩ : ∃ n, (tlv jt jbody).length = n + 1 := ⟨(tlv jt jbody).length - 1, by omega⟩
  cases ord with
  | false =>
    have e : tlv jt jbody = encTL jt ++ (encTL jbody.length ++ (jbody ++ [])) := by
      simp [tlv, List.append_assoc]
    simp only [runSlots, Bool.false_eq_true, if_false, initAcc]
    rw [hn]
    have := LU.loop_junk [] ic (n + 1) jt jbody [] .nil .nil ht hb hk hc ⟨0, by simp [loopU, finishU]⟩
    rw [← e] at this
    exact this
  | true =>
    simp only [runSlots, if_true, headInit]
    rw [hn]
    have h := (LO.loopO_junk [] ic (n + 1) ([], .absent) jt jbody [] ht hb hk hc .nil).2
      ⟨0, by simp [loopO, finishO]⟩
    rw [List.append_nil] at h
    exact h

/-! ## the length of an edited encoding -/

theorem insAt_nil (fs : Fields) (vs : Vals) (k : Nat) (junk b : Bytes) (h : insAt fs vs [] k junk = some b) :
    k ≤ (liveItems fs vs).length ∧
    b = encItems ((liveItems fs vs).take k) ++ junk ++ encItems ((liveItems fs vs).drop k) := by
  simp only [insAt] at h
  split at h
  · rename_i hk
    exact ⟨hk, by injection h with h; exact h.symm⟩
  · cases h

theorem insAt_cons (fs : Fields) (vs : Vals) (i : Nat) (sel : List Nat) (k : Nat) (junk b : Bytes)
    (h : insAt fs vs (i :: sel) k junk = some b) :
    ∃ t o ifs ivs nb, (liveItems fs vs)[i]? = some (t, .struct o ifs, .struct ivs) ∧
      insAt ifs ivs sel k junk = some nb ∧
      b = encItems ((liveItems fs vs).take i) ++ tlv t nb ++ encItems ((liveItems fs vs).drop (i + 1)) := by
  simp only [insAt] at h
  split at h
  · rename_i t o ifs ivs heq
    cases hn : insAt ifs ivs sel k junk with
    | none => rw [hn] at h; cases h
    | some nb =>
      rw [hn] at h
      refine ⟨t, o, ifs, ivs, nb, heq, hn, ?_⟩
      injection h with h
      exact h.symm
  · cases h

/-- the edited encoding is at most five times as long as the original one, plus the new element:
    every enclosing length field grows by at most 8 bytes and was at least one byte long -/
theorem insAt_length (k : Nat) (junk : Bytes) : ∀ (sel : List Nat) (fs : Fields) (vs : Vals) (b : Bytes),
    wfFields fs = true → validVs fs vs = true → insAt fs vs sel k junk = some b →
    b.length ≤ 5 * (encFields fs vs).length + junk.length
  | [], fs, vs, b, hwf, hv, h => by
    obtain ⟨_, hb⟩ := insAt_nil fs vs k junk b h
    have e := encItems_live_eq fs vs hwf hv
    rw [← List.take_append_drop k (liveItems fs vs), encItems_append] at e
    have e' := congrArg List.length e
    rw [hb]
    simp only [List.length_append] at e' ⊢
    omega
  | i :: sel, fs, vs, b, hwf, hv, h => by
    obtain ⟨t, o, ifs, ivs, nb, hi, hn, hb⟩ := insAt_cons fs vs i sel k junk b h
    obtain ⟨iwf, iv, _, _⟩ := struct_item_facts fs vs hwf hv t o ifs ivs (List.mem_of_getElem? hi)
    have ih := insAt_length k junk sel ifs ivs nb iwf iv hn
    have e := encItems_live_eq fs vs hwf hv
    rw [us_split_at _ i _ hi, encItems_append] at e
    have e' := congrArg List.length e
    have hit : encItems ((t, Kind.struct o ifs, Val.struct ivs) :: (liveItems fs vs).drop (i + 1)) =
        tlv t (encFields ifs ivs) ++ encItems ((liveItems fs vs).drop (i + 1)) := by
      simp [encItems, encItem, encKind]
    rw [hit] at e'
    rw [hb]
    simp only [List.length_append, tlv_length', tlvLen] at e' ⊢
    have := us_tlLen_pos t
    have := us_tlLen_pos (encFields ifs ivs).length
    have := us_tlLen_le nb.length
    omega

end Ndn.C13
