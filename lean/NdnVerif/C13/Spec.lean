/-
  C13/Spec.lean — the decidable side conditions of the C13 theorems:

  * `wfSchema`  what the generator guarantees for a model it accepted (checked by `decide` on the
                regenerated table: `all_generated_schemas_wf`)
  * `validV`    the values the Go types can hold meaningfully (the property's "every value")
  Core Lean only.
-/
import NdnVerif.C13.Model
namespace Ndn.C13

/-! ## well-formed schemas -/

/-- type numbers of the fields that have a `case` in the generated switch -/
def typedTypes : Fields → List Nat
  | .nil => []
  | .cons t k fs => if k.hasTyp && t != 0 then t :: typedTypes fs else typedTypes fs

/-- kinds that may be the key of a map field (`map_field.go`: "KeyField can only be Natural or String") -/
def keyKindOk : Kind → Bool
  | .natural false => true
  | .string false => true
  | _ => false

/-- kinds that may be the element of a sequence / the value of a map: one TLV per element -/
def elemKindOk : Kind → Bool
  | .seq _ => false
  | .map _ _ _ => false
  | .marker => false
  | .signature => false
  | _ => true

mutual
def wfKind : Kind → Bool
  | .fixedUint w _ => w == 1 || w == 2 || w == 4 || w == 8
  | .struct _ fs => wfFields fs
  | .seq sub => elemKindOk sub && wfKind sub
  | .map kk vt vk => keyKindOk kk && elemKindOk vk && wfKind vk && decide (0 < vt) && decide (vt < 2 ^ 64)
  | _ => true
def wfFields : Fields → Bool
  | .nil => true
  | .cons t k fs =>
    wfKind k && (!k.hasTyp || (decide (0 < t) && decide (t < 2 ^ 64) && !(typedTypes fs).contains t)) && wfFields fs
end

def wfSchema (s : Schema) : Bool := wfFields s.fields

/-! ## valid values -/

/-- byte strings and encodings are shorter than this (Go slices live in memory; `goMake` refuses more
    than 2^48 bytes) -/
def maxLen : Nat := 2 ^ 40

def compOk (c : Component) : Bool := decide (c.typ < 2 ^ 64) && decide (c.val.length < maxLen)

def nameOk (n : Name) : Bool := n.all compOk && decide ((encComps n).length < maxLen)

def lastIsDigest (n : Name) : Bool :=
  match n.getLast? with
  | some c => c.typ == 2
  | none => false

/-- keys of a map value are pairwise different -/
def keysDistinct : Vals → Bool
  | .nil => true
  | .cons (.pair a _) kvs => !(pairsHaveKey a kvs) && keysDistinct kvs
  | .cons _ kvs => keysDistinct kvs
where pairsHaveKey (a : Val) : Vals → Bool
  | .nil => false
  | .cons (.pair a' _) r => keyEq a' a || pairsHaveKey a r
  | .cons _ r => pairsHaveKey a r

mutual
/-- `validV k v`: `v` is a value the Go field of kind `k` can hold and that the property quantifies
    over: numbers within their width, durations that are whole non-negative milliseconds, lengths
    below 2^63, no nil element inside a sequence or map, distinct map keys, an Interest name that
    does not already end in a parameters digest; a signature field is either absent (the plain
    `Encode()` does not write one) or holds the signature bytes the caller supplies (signing path). -/
def validV : Kind → Val → Bool
  | .natural o, .absent => o
  | .natural _, .nat n => decide (n < 2 ^ 64)
  | .fixedUint _ o, .absent => o
  | .fixedUint w _, .nat n => decide (n < 256 ^ w)
  | .time o, .absent => o
  | .time _, .nat ns => decide (ns % 1000000 = 0) && decide (ns < 2 ^ 63)
  | .bool, .absent => true
  | .bool, .tt => true
  | .binary, .absent => true
  | .binary, .bytes b => decide (b.length < maxLen)
  | .string o, .absent => o
  | .string _, .bytes b => decide (b.length < maxLen)
  | .wire, .absent => true
  | .wire, .bytes b => decide (b.length < maxLen)
  | .name, .absent => true
  | .name, .name n => nameOk n
  | .interestName, .absent => true
  | .interestName, .name n => nameOk n && !lastIsDigest n
  | .struct _ _, .absent => true
  | .struct _ fs, .struct vs => validVs fs vs && decide ((encFields fs vs).length < maxLen)
  | .seq sub, .seq vs => validElems sub vs
  | .map kk _ vk, .map kvs => validPairs kk vk kvs && keysDistinct kvs
  | .marker, .absent => true
  | .signature, .absent => true
  | .signature, .bytes b => decide (b.length < maxLen)
  | _, _ => false
def validVs : Fields → Vals → Bool
  | .nil, .nil => true
  | .cons _ k fs, .cons v vs => validV k v && validVs fs vs
  | _, _ => false
def validElems : Kind → Vals → Bool
  | _, .nil => true
  | k, .cons v vs => (match v with | .absent => false | _ => true) && validV k v && validElems k vs
def validPairs : Kind → Kind → Vals → Bool
  | _, _, .nil => true
  | kk, vk, .cons (.pair a b) kvs =>
    (match a with | .absent => false | _ => true) && (match b with | .absent => false | _ => true) &&
    validV kk a && validV vk b && validPairs kk vk kvs
  | _, _, .cons _ _ => false
end

end Ndn.C13
