/-
  C13/LoopSpec.lean — what the two generated parse loops (`loopU`, `loopO` of Model.lean) are
  expected to do on a well-formed element stream, stated generically over compiled slots.

  The input of one model is described as one GROUP of elements per slot, in slot order; an element
  is either an ITEM of that slot (a TLV carrying the slot's type number which the slot's reader
  decodes to a value) or JUNK (a TLV of a type number no slot of the model knows, which the caller
  allows: non-critical, or `ignoreCritical`).  The loops must skip the junk and hand every item to
  its slot.  Both the round-trip theorem and the unknown-element theorems of C13 are instances.
  Core Lean only.
-/
import NdnVerif.C13.Model
namespace Ndn.C13

inductive El where
  | junk (t : Nat) (body : Bytes)
  | item (l : Nat) (body : Bytes) (v : Val)

/-- bytes of an element of a slot with type number `typ` -/
def El.bytes (typ : Nat) : El → Bytes
  | .junk t body => tlv t body
  | .item l body _ => encTL typ ++ encTL l ++ body

def groupBytes (typ : Nat) (g : List El) : Bytes := g.flatMap (El.bytes typ)

/-- the whole input: groups in slot order -/
def groupsBytes : List Slot → List (List El) → Bytes
  | s :: ss, g :: gs => groupBytes s.typ g ++ groupsBytes ss gs
  | _, _ => []

def itemVals : List El → List Val
  | [] => []
  | .junk _ _ :: r => itemVals r
  | .item _ _ v :: r => v :: itemVals r

/-- the value a slot ends with: its initial value with every item merged in, in order -/
def slotResult (s : Slot) (g : List El) : Val := (itemVals g).foldl (merge s.multi) s.init

def expected : List Slot → List (List El) → Vals
  | s :: ss, g :: gs => .cons (slotResult s g) (expected ss gs)
  | _, _ => .nil

/-- an element is acceptable for slot `s` of a model whose slots are `all`, under `ic` -/
def ElOk (all : List Slot) (ic : Bool) (s : Slot) : El → Prop
  | .junk t body =>
      t < 2 ^ 64 ∧ body.length < 2 ^ 63 ∧ knownTyp all t = false ∧ (ic = true ∨ critical t = false)
  | .item l body v =>
      s.hasTyp = true ∧ s.typ < 2 ^ 64 ∧ l < 2 ^ 64 ∧
      (∀ rest : Bytes, ∃ a, s.read l ic (body ++ rest) = .ok (v, rest) a) ∧
      (s.required = true → v ≠ .absent)

/-- a group is acceptable: every element is, a plain slot has at most one item, a required slot
    has one -/
def GroupOk (all : List Slot) (ic : Bool) (s : Slot) (g : List El) : Prop :=
  (∀ e ∈ g, ElOk all ic s e) ∧
  (s.multi = 0 → (itemVals g).length ≤ 1) ∧
  (s.required = true → (itemVals g).length = 1) ∧
  (s.required = true → s.multi = 0)

def GroupsOk (all : List Slot) (ic : Bool) : List Slot → List (List El) → Prop
  | s :: ss, g :: gs => GroupOk all ic s g ∧ GroupsOk all ic ss gs
  | [], [] => True
  | _, _ => False

/-- the typed slots of a model carry pairwise different type numbers (Go: duplicate `case`) -/
def DistinctTyps : List Slot → Prop
  | [] => True
  | s :: ss => (s.hasTyp = true → ∀ s' ∈ ss, s'.hasTyp = true → s'.typ ≠ s.typ) ∧ DistinctTyps ss

/-- initial values are what `Kind.init` gives: nothing merged yet -/
def InitOk (s : Slot) : Prop :=
  (s.multi = 0 → s.init = .absent) ∧ (s.multi = 1 → s.init = .seq .nil) ∧ (s.multi = 2 → s.init = .map .nil)

/-- The statement both loop theorems have to establish. -/
def LoopSpec (ordered : Bool) : Prop :=
  ∀ (slots : List Slot) (ic : Bool) (groups : List (List El)),
    DistinctTyps slots → (∀ s ∈ slots, InitOk s) → GroupsOk slots ic slots groups →
    ∃ a, runSlots ordered slots ic (groupsBytes slots groups) = .ok (expected slots groups) a

end Ndn.C13
