/-
  C13/RoundTrip.lean — the generic round trip of the TLV schema interpreter:

      parse s ic (encode s v) = .ok v _      for every well-formed schema `s` and valid value `v`

  (`fields_roundtrip`, `parse_encode'`).  The encoder's output is described as the element stream
  `mkGroups fs vs` (RoundTripLemmas.lean: its bytes are `encFields fs vs`, merging its items slot by
  slot gives `vs` back); the two generated parse loops are used through their common specification
  `LoopSpec` (LoopSpec.lean; `loopU_spec`/`loopO_spec` instantiate the two hypotheses).  What remains
  is that every item of the stream is accepted by the reader of its slot — a mutual structural
  induction over the schema, because a struct field's reader runs the inner model.
  Core Lean only.
-/
import NdnVerif.C13.KindRT
import NdnVerif.C13.LoopSpec
import NdnVerif.C13.RoundTripLemmas
namespace Ndn.C13

/-- the round trip of a model follows from: its stream is an acceptable input of the loops -/
theorem rt_of_groups (hU : LoopSpec false) (hO : LoopSpec true) (fs : Fields) (hwf : wfFields fs = true)
    (H : ∀ (ic : Bool) (vs : Vals), validVs fs vs = true →
      GroupsOk (compile fs) ic (compile fs) (mkGroups fs vs)) :
    ∀ (ord : Bool) (vs : Vals) (ic : Bool), validVs fs vs = true →
      ∃ a, runSlots ord (compile fs) ic (encFields fs vs) = .ok vs a := by
  intro ord vs ic hv
  have hd := distinct_compile fs hwf
  have hi := initOk_compile fs
  have hg := H ic vs hv
  cases ord with
  | false =>
    obtain ⟨a, ha⟩ := hU (compile fs) ic (mkGroups fs vs) hd hi hg
    rw [groupsBytes_mkGroups fs vs hwf hv, expected_mkGroups fs vs hv] at ha
    exact ⟨a, ha⟩
  | true =>
    obtain ⟨a, ha⟩ := hO (compile fs) ic (mkGroups fs vs) hd hi hg
    rw [groupsBytes_mkGroups fs vs hwf hv, expected_mkGroups fs vs hv] at ha
    exact ⟨a, ha⟩

/-- a struct field reads its own value bytes as soon as the inner model round-trips -/
theorem item_ok_struct (ord : Bool) (fs : Fields)
    (H : ∀ (ord : Bool) (vs : Vals) (ic : Bool), validVs fs vs = true →
      ∃ a, runSlots ord (compile fs) ic (encFields fs vs) = .ok vs a) :
    ItemOk (.struct ord fs) := by
  intro v hv hne ic rest
  cases v <;> simp [validV] at hv hne
  rename_i vs
  simp only [bodyOf]
  have hl : (encFields fs vs).length < 2 ^ 63 := by
    have := hv.2
    simp only [maxLen] at this
    omega
  exact readStruct_of_inner ord fs (encFields fs vs) vs ic rest hl (H ord vs ic hv.1)

/-- every other plain kind: `readKind_prim` -/
theorem item_ok_prim (k : Kind) (hwf : wfKind k = true) (hm : k.multi = 0)
    (hns : ∀ o fs, k ≠ .struct o fs) : ItemOk k :=
  fun v hv hne ic rest => readKind_prim k v hwf hm hns hv hne ic rest

/-- one field of a model -/
theorem groups_ok_cons (t : Nat) (k : Kind) (fs : Fields) (hwf : wfFields (.cons t k fs) = true)
    (hitem : ItemOk (elemKind k))
    (ih : ∀ (all : List Slot) (ic : Bool) (vs : Vals), validVs fs vs = true →
      GroupsOk all ic (compile fs) (mkGroups fs vs)) :
    ∀ (all : List Slot) (ic : Bool) (vs : Vals), validVs (.cons t k fs) vs = true →
      GroupsOk all ic (compile (.cons t k fs)) (mkGroups (.cons t k fs) vs) := by
  intro all ic vs hv
  cases vs with
  | nil => simp [validVs] at hv
  | cons v vs =>
    simp only [validVs, Bool.and_eq_true] at hv
    simp only [wfFields, Bool.and_eq_true] at hwf
    simp only [compile, mkGroups, GroupsOk]
    refine ⟨group_ok_of k t all ic v hwf.1.1 ?_ hv.1 hitem, ih all ic vs hv.2⟩
    intro hty
    have h2 := hwf.1.2
    simp [hty] at h2
    exact ⟨h2.1.1, h2.1.2⟩

theorem wf_head {t : Nat} {k : Kind} {fs : Fields} (h : wfFields (.cons t k fs) = true) : wfKind k = true := by
  simp only [wfFields, Bool.and_eq_true] at h
  exact h.1.1

theorem wf_tail {t : Nat} {k : Kind} {fs : Fields} (h : wfFields (.cons t k fs) = true) : wfFields fs = true := by
  simp only [wfFields, Bool.and_eq_true] at h
  exact h.2

mutual
/-- every plain kind of a well-formed schema reads the value bytes of its own encoding
    (vacuous for sequences and maps, whose items are read by the element kind's reader) -/
theorem item_ok (hU : LoopSpec false) (hO : LoopSpec true) : ∀ (k : Kind), wfKind k = true → k.multi = 0 → ItemOk k
  | .struct ord fs, hwf, _ => by
    simp only [wfKind] at hwf
    exact item_ok_struct ord fs
      (rt_of_groups hU hO fs hwf (fun ic vs hv => groups_ok hU hO fs hwf (compile fs) ic vs hv))
  | .seq _, _, hm => by simp [Kind.multi] at hm
  | .map _ _ _, _, hm => by simp [Kind.multi] at hm
  | .natural o, hwf, hm => item_ok_prim _ hwf hm (by intro _ _ h; cases h)
  | .fixedUint w o, hwf, hm => item_ok_prim _ hwf hm (by intro _ _ h; cases h)
  | .time o, hwf, hm => item_ok_prim _ hwf hm (by intro _ _ h; cases h)
  | .bool, hwf, hm => item_ok_prim _ hwf hm (by intro _ _ h; cases h)
  | .binary, hwf, hm => item_ok_prim _ hwf hm (by intro _ _ h; cases h)
  | .string o, hwf, hm => item_ok_prim _ hwf hm (by intro _ _ h; cases h)
  | .wire, hwf, hm => item_ok_prim _ hwf hm (by intro _ _ h; cases h)
  | .name, hwf, hm => item_ok_prim _ hwf hm (by intro _ _ h; cases h)
  | .marker, hwf, hm => item_ok_prim _ hwf hm (by intro _ _ h; cases h)
  | .signature, hwf, hm => item_ok_prim _ hwf hm (by intro _ _ h; cases h)
  | .interestName, hwf, hm => item_ok_prim _ hwf hm (by intro _ _ h; cases h)
/-- the encoder's element stream is an acceptable input of the parse loops -/
theorem groups_ok (hU : LoopSpec false) (hO : LoopSpec true) : ∀ (fs : Fields), wfFields fs = true →
    ∀ (all : List Slot) (ic : Bool) (vs : Vals), validVs fs vs = true →
      GroupsOk all ic (compile fs) (mkGroups fs vs)
  | .nil, _ => by
    intro all ic vs hv
    cases vs with
    | nil => simp [compile, mkGroups, GroupsOk]
    | cons _ _ => simp [validVs] at hv
  | .cons t (.seq sub) fs, hwf => by
    have hwf' := hwf
    simp only [wfFields, wfKind, Bool.and_eq_true] at hwf'
    exact groups_ok_cons t _ fs hwf
      (item_ok hU hO sub hwf'.1.1.2 (elemKindOk_multi hwf'.1.1.1)) (groups_ok hU hO fs hwf'.2)
  | .cons t (.map kk vt vk) fs, hwf => by
    have hwf' := hwf
    simp only [wfFields, wfKind, Bool.and_eq_true] at hwf'
    exact groups_ok_cons t _ fs hwf
      (item_ok hU hO vk hwf'.1.1.1.1.2 (elemKindOk_multi hwf'.1.1.1.1.1.2)) (groups_ok hU hO fs hwf'.2)
  | .cons t (.natural o) fs, hwf =>
    groups_ok_cons t _ fs hwf (item_ok hU hO _ (wf_head hwf) rfl) (groups_ok hU hO fs (wf_tail hwf))
  | .cons t (.fixedUint w o) fs, hwf =>
    groups_ok_cons t _ fs hwf (item_ok hU hO _ (wf_head hwf) rfl) (groups_ok hU hO fs (wf_tail hwf))
  | .cons t (.time o) fs, hwf =>
    groups_ok_cons t _ fs hwf (item_ok hU hO _ (wf_head hwf) rfl) (groups_ok hU hO fs (wf_tail hwf))
  | .cons t (.bool) fs, hwf =>
    groups_ok_cons t _ fs hwf (item_ok hU hO _ (wf_head hwf) rfl) (groups_ok hU hO fs (wf_tail hwf))
  | .cons t (.binary) fs, hwf =>
    groups_ok_cons t _ fs hwf (item_ok hU hO _ (wf_head hwf) rfl) (groups_ok hU hO fs (wf_tail hwf))
  | .cons t (.string o) fs, hwf =>
    groups_ok_cons t _ fs hwf (item_ok hU hO _ (wf_head hwf) rfl) (groups_ok hU hO fs (wf_tail hwf))
  | .cons t (.wire) fs, hwf =>
    groups_ok_cons t _ fs hwf (item_ok hU hO _ (wf_head hwf) rfl) (groups_ok hU hO fs (wf_tail hwf))
  | .cons t (.name) fs, hwf =>
    groups_ok_cons t _ fs hwf (item_ok hU hO _ (wf_head hwf) rfl) (groups_ok hU hO fs (wf_tail hwf))
  | .cons t (.struct ord fs') fs, hwf =>
    groups_ok_cons t _ fs hwf (item_ok hU hO _ (wf_head hwf) rfl) (groups_ok hU hO fs (wf_tail hwf))
  | .cons t (.marker) fs, hwf =>
    groups_ok_cons t _ fs hwf (item_ok hU hO _ (wf_head hwf) rfl) (groups_ok hU hO fs (wf_tail hwf))
  | .cons t (.signature) fs, hwf =>
    groups_ok_cons t _ fs hwf (item_ok hU hO _ (wf_head hwf) rfl) (groups_ok hU hO fs (wf_tail hwf))
  | .cons t (.interestName) fs, hwf =>
    groups_ok_cons t _ fs hwf (item_ok hU hO _ (wf_head hwf) rfl) (groups_ok hU hO fs (wf_tail hwf))
end

/-- **Generic round trip**: for every well-formed field list and every valid value, both generated
    parse loops (`ord`), with or without `ignoreCritical`, read the encoding back to the value. -/
theorem fields_roundtrip (hU : LoopSpec false) (hO : LoopSpec true) :
    ∀ (fs : Fields) (ord : Bool) (vs : Vals) (ic : Bool),
      wfFields fs = true → validVs fs vs = true →
      ∃ a, runSlots ord (compile fs) ic (encFields fs vs) = .ok vs a :=
  fun fs ord vs ic hwf hv =>
    rt_of_groups hU hO fs hwf (fun ic vs hv => groups_ok hU hO fs hwf (compile fs) ic vs hv) ord vs ic hv

/-- `Parse<Model>(Encode(v)) = v` for every generated model -/
theorem parse_encode' (hU : LoopSpec false) (hO : LoopSpec true) (s : Schema) (v : Vals) (ic : Bool) :
    wfSchema s = true → validVs s.fields v = true → ∃ a, parse s ic (encode s v) = .ok v a :=
  fun hwf hv => fields_roundtrip hU hO s.fields s.ordered v ic hwf hv

/-! ## non-vacuity: a model with a nested struct, a sequence of structs, a map and a marker -/

def exInner : Fields := .cons 7 (.natural false) (.cons 8 (.string true) .nil)

def exFields : Fields :=
  .cons 1 (.struct true exInner)
    (.cons 0 .marker
      (.cons 2 (.seq (.struct false exInner))
        (.cons 3 (.map (.natural false) 5 (.string false))
          (.cons 4 .bool (.cons 6 (.time true) .nil)))))

def exVal : Vals :=
  .cons (.struct (.cons (.nat 300) (.cons .absent .nil)))
    (.cons .absent
      (.cons (.seq (.cons (.struct (.cons (.nat 1) (.cons (.bytes [97]) .nil)))
                   (.cons (.struct (.cons (.nat 2) (.cons .absent .nil))) .nil)))
        (.cons (.map (.cons (.pair (.nat 1) (.bytes [1, 2])) (.cons (.pair (.nat 70000) (.bytes [])) .nil)))
          (.cons .tt (.cons (.nat 4000000) .nil)))))

example : wfFields exFields = true := by decide
example : validVs exFields exVal = true := by decide
/-- the hypotheses of `fields_roundtrip` are satisfiable and its conclusion is what evaluation gives
    (both loops) -/
example : ∃ a, runSlots false (compile exFields) false (encFields exFields exVal) = .ok exVal a := ⟨_, rfl⟩
example : ∃ a, runSlots true (compile exFields) false (encFields exFields exVal) = .ok exVal a := ⟨_, rfl⟩
example : ∃ a, parse ⟨"Ex", false, exFields⟩ true (encode ⟨"Ex", false, exFields⟩ exVal) = .ok exVal a := ⟨_, rfl⟩

end Ndn.C13
