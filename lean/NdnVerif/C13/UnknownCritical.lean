/-
  C13/UnknownCritical.lean — an unrecognised CRITICAL element (type number ≤ 31 or odd, used nowhere
  in the model), inserted at ANY item boundary at ANY nesting depth of a valid encoding, makes the
  generated parsers return an error when the caller did not ask to ignore critical elements
  (`ignoreCritical = false`): never a value, a panic or fuel exhaustion.

  The statement is about `insAt` of Text.lean — the function the correspondence harness checks
  against the real encoder/decoder (harness/c13 `InsertAt`): the extra element is inserted at
  boundary `k` of the nesting level reached through the struct items `sel`, and every enclosing
  length is recomputed.

  Proof (helper lemmas in UnknownCriticalLemmas.lean): the live items of a field list are, field by
  field, the elements of the element stream `mkGroups` of the round-trip proof (`head_corr`).  The
  edited encoding is therefore the full groups of the fields before the one owning the position, the
  elements of that field's group before the position, a refused element (`BadHead.critical` at the
  innermost level; `BadHead.inner` — the struct reader delegates exactly the edited body, which the
  inner model refuses by induction — at every enclosing level) and then anything; this is the input
  shape of `FailSpec`, which both loops meet (`LUF.loopU_fail`, `LOF.loopO_fail`).  The nesting is an
  induction over `sel`; the bound `body.length < 2^63` needed by the struct reader follows from
  `insAt_length`.  No hypothesis beyond those of the property is needed; the empty model
  (`fs = .nil`) is covered.
  Core Lean only.
-/
import NdnVerif.C13.UnknownCriticalLemmas
namespace Ndn.C13

/-- the induction over the nesting path, with "unknown at every level" as non-membership -/
theorem unknown_critical_aux (k jt : Nat) (jbody : Bytes)
    (ht : jt < 2 ^ 64) (hb : jbody.length < maxLen) (hc : critical jt = true) :
    ∀ (sel : List Nat) (fs : Fields) (vs : Vals) (ord : Bool) (b : Bytes),
      wfFields fs = true → validVs fs vs = true → jt ∉ fieldsTypes fs →
      insAt fs vs sel k (tlv jt jbody) = some b →
      ∃ a, runSlots ord (compile fs) false b = .err a
  | [], fs, vs, ord, b, hwf, hv, hu, h => by
    obtain ⟨hk, hb'⟩ := insAt_nil fs vs k _ b h
    subst hb'
    have hb64 : jbody.length < 2 ^ 64 := by simp only [maxLen] at hb; omega
    cases fs with
    | nil =>
      cases vs with
      | cons _ _ => simp [validVs] at hv
      | nil =>
        simp only [liveItems_nil_left, List.take_nil, List.drop_nil, encItems, List.flatMap_nil,
          List.nil_append, List.append_nil, compile]
        exact runSlots_nil_crit ord jt jbody ht hb64 hc
    | cons t kd fs' =>
      exact refused_run _ ord _ hwf
        (insert_refused _ jt jbody ht hb64 (knownTyp_compile jt _ hu) hc _ vs hwf hv
          (by intro h; cases h) k hk)
  | i :: sel, fs, vs, ord, b, hwf, hv, hu, h => by
    obtain ⟨t, o, ifs, ivs, nb, hi, hn, hb'⟩ := insAt_cons fs vs i sel k _ b h
    obtain ⟨iwf, iv, ilen, isub⟩ := struct_item_facts fs vs hwf hv t o ifs ivs (List.mem_of_getElem? hi)
    have ih := unknown_critical_aux k jt jbody ht hb hc sel ifs ivs o nb iwf iv
      (fun hx => hu (isub _ hx)) hn
    have hlen := insAt_length k _ sel ifs ivs nb iwf iv hn
    have hnb : nb.length < 2 ^ 63 := by
      have h1 := us_tlLen_le jt
      have h2 := us_tlLen_le jbody.length
      simp only [tlv_length', tlvLen] at hlen
      simp only [maxLen] at hb ilen
      omega
    subst hb'
    exact refused_run fs ord _ hwf (replace_refused _ t o ifs ivs nb hnb ih fs vs hwf hv i hi)

/-- **An unrecognised critical element is rejected, at any depth.**  For every well-formed field
    list `fs`, every valid value `vs` and both generated loops (`ord`): if a TLV `jt jbody` whose
    type number is critical and used nowhere in the model (`fieldsTypes`: at no nesting level,
    including map value types) is inserted by `insAt` at item boundary `k` of the level reached
    through the struct items `sel`, parsing the result with `ignoreCritical = false` is an error. -/
theorem unknown_critical_rejected_fields (fs : Fields) (vs : Vals) (ord : Bool) (sel : List Nat) (k jt : Nat)
    (jbody b : Bytes) :
    wfFields fs = true → validVs fs vs = true →
    jt < 2 ^ 64 → jbody.length < maxLen →
    (fieldsTypes fs).contains jt = false → critical jt = true →
    insAt fs vs sel k (tlv jt jbody) = some b →
    ∃ a, runSlots ord (compile fs) false b = .err a := by
  intro hwf hv ht hb hu hc h
  exact unknown_critical_aux k jt jbody ht hb hc sel fs vs ord b hwf hv (by simpa using hu) h

/-- the same for a generated model: `Parse<Model>(…, ignoreCritical = false)` of the edited encoding
    returns an error -/
theorem unknown_critical_rejected' (s : Schema) (v : Vals) (sel : List Nat) (k jt : Nat)
    (jbody b : Bytes) :
    wfSchema s = true → validVs s.fields v = true →
    jt < 2 ^ 64 → jbody.length < maxLen →
    (fieldsTypes s.fields).contains jt = false → critical jt = true →
    insAt s.fields v sel k (tlv jt jbody) = some b →
    ∃ a, parse s false b = .err a :=
  fun hwf hv ht hb hu hc h =>
    unknown_critical_rejected_fields s.fields v s.ordered sel k jt jbody b hwf hv ht hb hu hc h

/-! ## non-vacuity: `exFields`/`exVal` of RoundTrip.lean (an ordered nested struct, a sequence of
    structs, a map, a bool, an optional time); type 201 is critical (odd) and unknown at every level -/

/-- the edited encodings: inside the nested struct (item 0) after its only live item, and inside the
    second element of the sequence of structs (item 2) before its first item -/
def exCritNested : Bytes :=
  [1, 8, 7, 2, 1, 44, 201, 2, 1, 2, 2, 6, 7, 1, 1, 8, 1, 97, 2, 3, 7, 1, 2, 3, 1, 1, 5, 2, 1, 2, 3, 4, 0, 1,
   17, 112, 5, 0, 4, 0, 6, 1, 4]
def exCritSeqElem : Bytes :=
  [1, 4, 7, 2, 1, 44, 2, 6, 7, 1, 1, 8, 1, 97, 2, 7, 201, 2, 1, 2, 7, 1, 2, 3, 1, 1, 5, 2, 1, 2, 3, 4, 0, 1,
   17, 112, 5, 0, 4, 0, 6, 1, 4]

example : wfFields exFields = true ∧ validVs exFields exVal = true ∧
    (fieldsTypes exFields).contains 201 = false ∧ critical 201 = true := by decide
example : insAt exFields exVal [0] 1 (tlv 201 [1, 2]) = some exCritNested := by decide
example : insAt exFields exVal [2] 0 (tlv 201 [1, 2]) = some exCritSeqElem := by decide
/-- the hypotheses of `unknown_critical_rejected_fields` are satisfiable for a nested position and
    its conclusion is what evaluation gives (both loops) -/
example : ∃ a, runSlots false (compile exFields) false exCritNested = .err a := ⟨_, rfl⟩
example : ∃ a, runSlots true (compile exFields) false exCritNested = .err a := ⟨_, rfl⟩
example : ∃ a, parse ⟨"Ex", false, exFields⟩ false exCritSeqElem = .err a := ⟨_, rfl⟩
/-- with `ignoreCritical = true` the same bytes decode to the value: the rejection is due to the
    critical element alone -/
example : ∃ a, parse ⟨"Ex", false, exFields⟩ true exCritNested = .ok exVal a := ⟨_, rfl⟩
/-- and the theorem itself instantiated -/
example : ∃ a, parse ⟨"Ex", true, exFields⟩ false exCritNested = .err a :=
  unknown_critical_rejected' ⟨"Ex", true, exFields⟩ exVal [0] 1 201 [1, 2] exCritNested
    (by decide) (by decide) (by decide) (by decide) (by decide) (by decide) (by decide)

end Ndn.C13
