/-
  C13/Lemmas.lean — helper lemmas for the C13 property theorems. Core Lean only.
-/
import NdnVerif.C13.Spec
import NdnVerif.C13.Text
namespace Ndn.C13

theorem tlv_length' (t : Nat) (b : Bytes) : (tlv t b).length = tlvLen t b.length := by
  simp [tlv, tlvLen, encTL_length]; omega

theorem encNatTLV_length (t n : Nat) : (encNatTLV t n).length = tlLen t + 1 + natLen n := by
  simp [encNatTLV, encTL_length, encNat_length]; omega

theorem encComps_length (n : Name) :
    (encComps n).length = (n.map fun c => tlLen c.typ + tlLen c.val.length + c.val.length).sum := by
  induction n with
  | nil => simp [encComps]
  | cons c r ih =>
    simp only [encComps, List.flatMap_cons, List.length_append, List.map_cons, List.sum_cons] at ih ⊢
    rw [ih]; simp [encComp, encTL_length]; omega

mutual
theorem encKind_length : ∀ (v : Val) (k : Kind) (t : Nat), (encKind k t v).length = lenKind k t v
  | .absent, k, t => by cases k <;> simp [encKind, lenKind]
  | .tt, k, t => by cases k <;> simp [encKind, lenKind, encTL_length]
  | .nat n, k, t => by
    cases k <;> simp [encKind, lenKind, encNatTLV_length, encTL_length]
    omega
  | .bytes b, k, t => by cases k <;> simp [encKind, lenKind, tlv_length']
  | .name n, k, t => by cases k <;> simp [encKind, lenKind, tlv_length', encComps_length]
  | .struct vs, k, t => by
    cases k <;> simp [encKind, lenKind, tlv_length']
    rename_i o fs
    rw [encFields_length vs fs]
  | .seq vs, k, t => by
    cases k <;> simp [encKind, lenKind]
    rename_i sub
    exact encSeq_length vs sub t
  | .map kvs, k, t => by
    cases k <;> simp [encKind, lenKind]
    rename_i kk vt vk
    exact encMap_length kvs kk vt vk t
  | .pair a b, k, t => by cases k <;> simp [encKind, lenKind]
theorem encFields_length : ∀ (vs : Vals) (fs : Fields), (encFields fs vs).length = lenFields fs vs
  | .nil, fs => by cases fs <;> simp [encFields, lenFields]
  | .cons v vs, fs => by
    cases fs with
    | nil => simp [encFields, lenFields]
    | cons t k fs' =>
      simp only [encFields, lenFields, List.length_append]
      rw [encKind_length v k t, encFields_length vs fs']
theorem encSeq_length : ∀ (vs : Vals) (k : Kind) (t : Nat), (encSeq k t vs).length = lenSeq k t vs
  | .nil, k, t => by simp [encSeq, lenSeq]
  | .cons v vs, k, t => by
    simp only [encSeq, lenSeq, List.length_append]
    rw [encKind_length v k t, encSeq_length vs k t]
theorem encMap_length : ∀ (kvs : Vals) (kk : Kind) (vt : Nat) (vk : Kind) (t : Nat),
    (encMap kk vt vk t kvs).length = lenMap kk vt vk t kvs
  | .nil, kk, vt, vk, t => by simp [encMap, lenMap]
  | .cons (.pair a b) kvs, kk, vt, vk, t => by
    simp only [encMap, lenMap, List.length_append]
    rw [encKind_length a kk t, encKind_length b vk vt, encMap_length kvs kk vt vk t]
  | .cons .absent kvs, kk, vt, vk, t => by simp only [encMap, lenMap]; exact encMap_length kvs kk vt vk t
  | .cons (.nat _) kvs, kk, vt, vk, t => by simp only [encMap, lenMap]; exact encMap_length kvs kk vt vk t
  | .cons .tt kvs, kk, vt, vk, t => by simp only [encMap, lenMap]; exact encMap_length kvs kk vt vk t
  | .cons (.bytes _) kvs, kk, vt, vk, t => by simp only [encMap, lenMap]; exact encMap_length kvs kk vt vk t
  | .cons (.name _) kvs, kk, vt, vk, t => by simp only [encMap, lenMap]; exact encMap_length kvs kk vt vk t
  | .cons (.struct _) kvs, kk, vt, vk, t => by simp only [encMap, lenMap]; exact encMap_length kvs kk vt vk t
  | .cons (.seq _) kvs, kk, vt, vk, t => by simp only [encMap, lenMap]; exact encMap_length kvs kk vt vk t
  | .cons (.map _) kvs, kk, vt, vk, t => by simp only [encMap, lenMap]; exact encMap_length kvs kk vt vk t
end

end Ndn.C13
