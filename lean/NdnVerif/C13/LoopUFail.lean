/-
  C13/LoopUFail.lean — the UNORDERED generated parse loop (`loopU` of Model.lean) meets `FailSpec`:
  a well-formed prefix of the element stream (full groups of the slots `pre`, some elements of the
  next slot `s`) followed by a refused element (unknown critical type while `ic = false`, or an
  element of `s` whose reader fails) makes the whole parse an error, whatever follows.

  Proof: the walking lemmas of LoopU.lean are restated for the outcome "is an error" (`IsErr`), in
  continuation style and for EVERY accumulator (an error does not depend on what was accumulated, so
  no shape invariant on the accumulator is needed): `walk_group` (elements of one group),
  `walk_groups` (groups of a segment of the slots), then `bad_head` (the refused element).
  Core Lean only.
-/
import NdnVerif.C13.LoopU
import NdnVerif.C13.LoopFailSpec
namespace Ndn.C13
namespace LUF
open LU

/-- the result is a Go `error` (allocation counter existentially quantified) -/
def IsErr {α : Type} (r : Res α) : Prop := ∃ a, r = .err a

theorem bind_err_of {α β : Type} {r : Res α} {f : α → Res β} {x : α} {n m : Nat}
    (h1 : r = .ok x n) (h2 : f x = .err m) : r.bind f = .err (n + m) := by
  subst h1; simp [Res.bind, h2]

/-! ## one dispatch, for any accumulator -/

/-- an element of the type number of slot `s` that the reader of `s` accepts is handled (by `s`) -/
theorem stepU_at_some (s : Slot) (typ l : Nat) (ic : Bool) (r r' : Bytes) (v : Val) (a : Nat)
    (post : List Slot)
    (hm : (s.hasTyp && s.typ == typ) = true) (hr : s.read l ic r = .ok (v, r') a) :
    ∀ (pre : List Slot) (acc : Vals), (∀ p ∈ pre, (p.hasTyp && p.typ == typ) = false) →
      ∃ acc', stepU (pre ++ s :: post) typ l ic r acc = .ok (some (acc', r')) a
  | [], acc, _ => by
    refine ⟨.cons (merge s.multi acc.head v) acc.tail, ?_⟩
    simp only [List.nil_append, stepU]
    rw [if_pos hm, hr]
    simp [Res.bind]
  | p :: pre, acc, hp => by
    have hp0 := hp p (by simp)
    obtain ⟨acc', ih⟩ := stepU_at_some s typ l ic r r' v a post hm hr pre acc.tail
      (fun q hq => hp q (by simp [hq]))
    refine ⟨.cons acc.head acc', ?_⟩
    simp only [List.cons_append, stepU]
    rw [if_neg (by rw [hp0]; exact Bool.false_ne_true), ih]
    simp [Res.bind]

/-- an element of the type number of slot `s` that the reader of `s` refuses: the dispatch fails -/
theorem stepU_at_err (s : Slot) (typ l : Nat) (ic : Bool) (r : Bytes) (a : Nat) (post : List Slot)
    (hm : (s.hasTyp && s.typ == typ) = true) (hr : s.read l ic r = .err a) :
    ∀ (pre : List Slot) (acc : Vals), (∀ p ∈ pre, (p.hasTyp && p.typ == typ) = false) →
      stepU (pre ++ s :: post) typ l ic r acc = .err a
  | [], acc, _ => by
    simp only [List.nil_append, stepU]
    rw [if_pos hm, hr]
    simp [Res.bind]
  | p :: pre, acc, hp => by
    have hp0 := hp p (by simp)
    have ih := stepU_at_err s typ l ic r a post hm hr pre acc.tail (fun q hq => hp q (by simp [hq]))
    simp only [List.cons_append, stepU]
    rw [if_neg (by rw [hp0]; exact Bool.false_ne_true), ih]
    simp [Res.bind]

/-! ## one iteration of the loop -/

theorem loop_item_err (slots : List Slot) (ic : Bool) (f typ l : Nat) (body R : Bytes)
    (acc acc' : Vals) (a : Nat) (ht : typ < 2 ^ 64) (hl : l < 2 ^ 64)
    (hstep : stepU slots typ l ic (body ++ R) acc = .ok (some (acc', R)) a)
    (hk : IsErr (loopU slots ic f R acc')) :
    IsErr (loopU slots ic (f + 1) (encTL typ ++ (encTL l ++ (body ++ R))) acc) := by
  obtain ⟨a', hk⟩ := hk
  refine ⟨a + a', ?_⟩
  rw [loopU, if_neg (encTL_append_ne_nil _ _)]
  simp only [decTL_encTL typ ht, decTL_encTL l hl]
  exact bind_err_of hstep hk

theorem loop_junk_err (slots : List Slot) (ic : Bool) (f t : Nat) (body R : Bytes) (acc : Vals)
    (ht : t < 2 ^ 64) (hb : body.length < 2 ^ 63) (hu : knownTyp slots t = false)
    (hc : ic = true ∨ critical t = false)
    (hk : IsErr (loopU slots ic f R acc)) :
    IsErr (loopU slots ic (f + 1) (encTL t ++ (encTL body.length ++ (body ++ R))) acc) := by
  obtain ⟨a', hk⟩ := hk
  refine ⟨0 + (0 + a'), ?_⟩
  rw [loopU, if_neg (encTL_append_ne_nil _ _)]
  simp only [decTL_encTL t ht, decTL_encTL body.length (by omega : body.length < 2 ^ 64)]
  refine bind_err_of (stepU_unknown t body.length ic (body ++ R) slots acc hu) ?_
  have hc' : ¬ (!ic && critical t) = true := by
    rcases hc with h | h <;> simp [h]
  show (if (!ic && critical t) = true then _ else _) = _
  rw [if_neg hc']
  exact bind_err_of (skipN_app body R hb) hk

/-- an unknown critical element while `ignoreCritical = false`: `ErrUnrecognizedField` -/
theorem loop_crit (slots : List Slot) (f t l : Nat) (R : Bytes) (acc : Vals)
    (ht : t < 2 ^ 64) (hl : l < 2 ^ 64) (hu : knownTyp slots t = false) (hc : critical t = true) :
    IsErr (loopU slots false (f + 1) (encTL t ++ (encTL l ++ R)) acc) := by
  refine ⟨0 + 0, ?_⟩
  rw [loopU, if_neg (encTL_append_ne_nil _ _)]
  simp only [decTL_encTL t ht, decTL_encTL l hl]
  refine bind_err_of (stepU_unknown t l false R slots acc hu) ?_
  show (if (!false && critical t) = true then _ else _) = _
  rw [if_pos (by simp [hc])]

/-- an element whose dispatch fails -/
theorem loop_step_err (slots : List Slot) (ic : Bool) (f typ l : Nat) (R : Bytes) (acc : Vals) (a : Nat)
    (ht : typ < 2 ^ 64) (hl : l < 2 ^ 64) (hstep : stepU slots typ l ic R acc = .err a) :
    IsErr (loopU slots ic (f + 1) (encTL typ ++ (encTL l ++ R)) acc) := by
  refine ⟨a, ?_⟩
  rw [loopU, if_neg (encTL_append_ne_nil _ _)]
  simp only [decTL_encTL typ ht, decTL_encTL l hl]
  rw [hstep]
  rfl

/-! ## one group, a segment of groups -/

/-- the acceptable elements of slot `s` are walked over; continuation style, any accumulator -/
theorem walk_group (slots pre post : List Slot) (s : Slot) (ic : Bool)
    (hs : slots = pre ++ s :: post)
    (hnm : s.hasTyp = true → ∀ p ∈ pre, (p.hasTyp && p.typ == s.typ) = false)
    (R : Bytes)
    (hk : ∀ (acc : Vals) (f : Nat), R.length < f → IsErr (loopU slots ic f R acc)) :
    ∀ (todo : List El), (∀ e ∈ todo, ElOk slots ic s e) →
      ∀ (acc : Vals) (f : Nat), (groupBytes s.typ todo ++ R).length < f →
        IsErr (loopU slots ic f (groupBytes s.typ todo ++ R) acc)
  | [], _, acc, f, hf => by
    simp only [groupBytes, List.flatMap_nil, List.nil_append] at hf ⊢
    exact hk acc f hf
  | e :: todo, hok, acc, f, hf => by
    have hok' : ∀ e ∈ todo, ElOk slots ic s e := fun e he => hok e (by simp [he])
    have he := hok e (by simp)
    have hbytes : groupBytes s.typ (e :: todo) ++ R
        = El.bytes s.typ e ++ (groupBytes s.typ todo ++ R) := by
      simp [groupBytes, List.flatMap_cons, List.append_assoc]
    rw [hbytes] at hf ⊢
    cases e with
    | junk t body =>
      obtain ⟨ht, hb, hu, hc⟩ := he
      have hb1 : El.bytes s.typ (.junk t body) ++ (groupBytes s.typ todo ++ R)
          = encTL t ++ (encTL body.length ++ (body ++ (groupBytes s.typ todo ++ R))) := by
        simp [El.bytes, tlv, List.append_assoc]
      rw [hb1] at hf ⊢
      have hpos := tlLen_pos t
      simp only [List.length_append, encTL_length] at hf
      obtain ⟨f', rfl⟩ : ∃ f', f = f' + 1 := ⟨f - 1, by omega⟩
      have ih := walk_group slots pre post s ic hs hnm R hk todo hok' acc f'
        (by simp only [List.length_append]; omega)
      exact loop_junk_err slots ic f' t body _ acc ht hb hu hc ih
    | item l body v =>
      obtain ⟨hty, ht, hl, hread, _⟩ := he
      have hb1 : El.bytes s.typ (.item l body v) ++ (groupBytes s.typ todo ++ R)
          = encTL s.typ ++ (encTL l ++ (body ++ (groupBytes s.typ todo ++ R))) := by
        simp [El.bytes, List.append_assoc]
      rw [hb1] at hf ⊢
      have hpos := tlLen_pos s.typ
      simp only [List.length_append, encTL_length] at hf
      obtain ⟨f', rfl⟩ : ∃ f', f = f' + 1 := ⟨f - 1, by omega⟩
      obtain ⟨a, hr⟩ := hread (groupBytes s.typ todo ++ R)
      have hm : (s.hasTyp && s.typ == s.typ) = true := by simp [hty]
      obtain ⟨acc', hstep⟩ := stepU_at_some s s.typ l ic _ _ v a post hm hr pre acc (hnm hty)
      rw [← hs] at hstep
      have ih := walk_group slots pre post s ic hs hnm R hk todo hok' acc' f'
        (by simp only [List.length_append]; omega)
      exact loop_item_err slots ic f' s.typ l body _ acc acc' a ht hl hstep ih

/-- the full groups of a segment `todo` of the slots are walked over -/
theorem walk_groups (slots : List Slot) (ic : Bool) (hd : DistinctTyps slots) (R : Bytes)
    (hk : ∀ (acc : Vals) (f : Nat), R.length < f → IsErr (loopU slots ic f R acc)) :
    ∀ (todo : List Slot) (gtodo : List (List El)) (done rest : List Slot),
      slots = done ++ (todo ++ rest) → GroupsOk slots ic todo gtodo →
      ∀ (acc : Vals) (f : Nat), (groupsBytes todo gtodo ++ R).length < f →
        IsErr (loopU slots ic f (groupsBytes todo gtodo ++ R) acc)
  | [], [], _, _, _, _, acc, f, hf => by
    simp only [groupsBytes, List.nil_append] at hf ⊢
    exact hk acc f hf
  | [], _ :: _, _, _, _, hg, _, _, _ => by simp [GroupsOk] at hg
  | _ :: _, [], _, _, _, hg, _, _, _ => by simp [GroupsOk] at hg
  | s :: todo, g :: gtodo, done, rest, hs, hg, acc, f, hf => by
    simp only [GroupsOk] at hg
    obtain ⟨hg1, hg2⟩ := hg
    simp only [groupsBytes, List.append_assoc] at hf ⊢
    have hs' : slots = done ++ s :: (todo ++ rest) := by simpa using hs
    have hnm : s.hasTyp = true → ∀ p ∈ done, (p.hasTyp && p.typ == s.typ) = false :=
      fun hty => distinct_nomatch s (todo ++ rest) hty done (hs' ▸ hd)
    refine walk_group slots done (todo ++ rest) s ic hs' hnm (groupsBytes todo gtodo ++ R) ?_
      g hg1.1 acc f hf
    intro acc2 f2 hf2
    exact walk_groups slots ic hd R hk todo gtodo (done ++ [s]) rest (by simp [hs]) hg2 acc2 f2 hf2

/-! ## the refused element -/

theorem bad_head (slots pre post : List Slot) (s : Slot) (ic : Bool) (gpart : List El)
    (bad tail : Bytes) (hs : slots = pre ++ s :: post) (hd : DistinctTyps slots)
    (hbad : BadHead slots ic s gpart bad) :
    ∀ (acc : Vals) (f : Nat), (bad ++ tail).length < f → IsErr (loopU slots ic f (bad ++ tail) acc) := by
  intro acc f hf
  obtain ⟨f', rfl⟩ : ∃ f', f = f' + 1 := ⟨f - 1, by omega⟩
  cases hbad with
  | critical t body ht hb hu hic hc _ =>
    subst hic
    have e : tlv t body ++ tail = encTL t ++ (encTL body.length ++ (body ++ tail)) := by
      simp [tlv, List.append_assoc]
    rw [e]
    exact loop_crit slots f' t body.length _ acc ht hb hu hc
  | inner l body hty ht hl hread _ =>
    have e : encTL s.typ ++ encTL l ++ body ++ tail = encTL s.typ ++ (encTL l ++ (body ++ tail)) := by
      simp [List.append_assoc]
    rw [e]
    obtain ⟨a, hr⟩ := hread tail
    have hm : (s.hasTyp && s.typ == s.typ) = true := by simp [hty]
    have hstep := stepU_at_err s s.typ l ic _ a post hm hr pre acc
      (distinct_nomatch s post hty pre (hs ▸ hd))
    rw [← hs] at hstep
    exact loop_step_err slots ic f' s.typ l _ acc a ht hl hstep

/-- **the unordered parse loop meets the failure specification** -/
theorem loopU_fail : FailSpec false := by
  intro slots pre post s ic gpre gpart bad tail hs hd hgpre hgpart hbad
  have hnm : s.hasTyp = true → ∀ p ∈ pre, (p.hasTyp && p.typ == s.typ) = false :=
    fun hty => distinct_nomatch s post hty pre (hs ▸ hd)
  have h1 := bad_head slots pre post s ic gpart bad tail hs hd hbad
  have h2 := walk_group slots pre post s ic hs hnm (bad ++ tail) h1 gpart hgpart
  have h3 := walk_groups slots ic hd (groupBytes s.typ gpart ++ (bad ++ tail)) h2 pre gpre []
    (s :: post) (by simpa using hs) hgpre (initAcc slots)
    ((groupsBytes pre gpre ++ (groupBytes s.typ gpart ++ (bad ++ tail))).length + 1) (by omega)
  simpa [runSlots, IsErr] using h3

/-! ## non-vacuity: binary 7, sequence of naturals 9; one item of slot 7, then an unknown critical
    element (type 241), `ignoreCritical = false` -/

def exSlots : List Slot := compile (.cons 7 .binary (.cons 9 (.seq (.natural false)) .nil))

theorem exSlots_eq : exSlots =
    [⟨7, true, false, 0, .absent, readKind .binary⟩,
     ⟨9, true, false, 1, .seq .nil, readKind (.seq (.natural false))⟩] := by
  simp [exSlots, compile, Kind.hasTyp, Kind.required, Kind.multi, Kind.init]

/-- the concrete parse, evaluated -/
example : runSlots false exSlots false [7, 2, 170, 187, 241, 1, 0, 9, 1, 5] = .err 2 := by
  rfl

/-- the hypotheses of `loopU_fail` are satisfiable: `pre = []`, current slot 7 with one item, then
    the critical element 241, then an item of slot 9 as the arbitrary tail -/
example : ∃ a, runSlots false exSlots false [7, 2, 170, 187, 241, 1, 0, 9, 1, 5] = .err a := by
  have hg : ∀ e ∈ [El.item 2 [170, 187] (.bytes [170, 187])],
      ElOk exSlots false ⟨7, true, false, 0, .absent, readKind .binary⟩ e := by
    have hm2 : goMake 2 1 = .ok () 2 := by simp [goMake, maxAlloc]
    simp [ElOk, readKind, fits, hm2, Res.bind]
    intro rest
    exact ⟨2, by rw [if_neg (by omega)]⟩
  have hbad : BadHead exSlots false ⟨7, true, false, 0, .absent, readKind .binary⟩
      [El.item 2 [170, 187] (.bytes [170, 187])] (tlv 241 [0]) :=
    BadHead.critical 241 [0] (by omega) (by simp) (by rw [exSlots_eq]; simp [knownTyp]) rfl
      (by simp [critical]) (by simp [itemVals])
  have h := loopU_fail exSlots [] [⟨9, true, false, 1, .seq .nil, readKind (.seq (.natural false))⟩]
    ⟨7, true, false, 0, .absent, readKind .binary⟩ false [] _ _ [9, 1, 5]
    (by rw [exSlots_eq]; rfl) (by rw [exSlots_eq]; simp [DistinctTyps]) (by simp [GroupsOk]) hg hbad
  have hb : groupsBytes [] [] ++ (groupBytes 7 [El.item 2 [170, 187] (.bytes [170, 187])]
      ++ (tlv 241 [0] ++ [9, 1, 5])) = [7, 2, 170, 187, 241, 1, 0, 9, 1, 5] := by decide
  rw [hb] at h
  exact h

end LUF
end Ndn.C13
