/-
  C16 — `rib/register` commands racing the teardown of the face they register (fw/mgmt/rib.go `register`,
  fw/face/table.go `Remove`), at the granularity of the table operations (each of which is one critical section,
  `rwmutex_linearizable`).

    teardown of face f        T1  `t.faces.Delete(f)`           (face table)
                              T2  `table.Rib.CleanUpFace(f)`    (RIB + FIB, one critical section)
    command i for face f      R0  explicit FaceId only: `if FaceTable.Get(f) == nil { 410 }`
                              R1  `table.Rib.AddEncRoute(.., f)`
                              R2  `if FaceTable.Get(f) == nil { table.Rib.CleanUpFace(f); 410 }`      (F-16d)

  Any number of commands (management thread, one after the other, or any other order) and the one teardown (the
  face's own goroutine) interleave in any way.  The model is parametrised by the two facts the proof needs, so that
  the theorem can also say that BOTH are needed: `recheck` (R2 exists) and `deleteFirst` (T1 before T2).  Which of
  them hold in the working tree is a regenerated fact (Gen/C16LockFacts: `registerRechecksFace`,
  `faceRemoveDeletesBeforeCleanup`).
  Core Lean only.
-/
namespace Ndn.C16.Teardown

structure Cfg where
  /-- the handler re-checks the face after the insertion and cleans up when it is gone -/
  recheck : Bool
  /-- `FaceTable.Remove` deletes the face from the face table before it cleans the RIB -/
  deleteFirst : Bool
deriving DecidableEq, Repr

structure St where
  /-- the face is in the face table -/
  inTable : Bool
  /-- teardown: number of its two steps done -/
  tpc : Nat
  /-- per command: 0 = not started, 1 = checked, 2 = inserted, 3 = answered -/
  pcs : List Nat
  /-- the commands whose route for the face is in the RIB -/
  routes : List Nat
deriving DecidableEq, Repr

/-- `explicit[i]`: command i names the face in its FaceId (R0 applies); otherwise it registers its incoming face -/
def init (n : Nat) : St := { inTable := true, tpc := 0, pcs := List.replicate n 0, routes := [] }

inductive Step where
  | t              -- the teardown goroutine takes its next step
  | c (i : Nat)    -- command i takes its next step
deriving DecidableEq, Repr

def pcOf (s : St) (i : Nat) : Nat := s.pcs.getD i 3

def teardownStep (cfg : Cfg) (s : St) : St :=
  match s.tpc with
  | 0 => if cfg.deleteFirst then { s with inTable := false, tpc := 1 } else { s with routes := [], tpc := 1 }
  | 1 => if cfg.deleteFirst then { s with routes := [], tpc := 2 } else { s with inTable := false, tpc := 2 }
  | _ => s

def commandStep (cfg : Cfg) (explicit : Nat → Bool) (s : St) (i : Nat) : St :=
  if i < s.pcs.length then
    match pcOf s i with
    | 0 => if explicit i && !s.inTable then { s with pcs := s.pcs.set i 3 } else { s with pcs := s.pcs.set i 1 }
    | 1 => { s with pcs := s.pcs.set i 2, routes := i :: s.routes }
    | 2 => if cfg.recheck && !s.inTable then { s with pcs := s.pcs.set i 3, routes := [] }
           else { s with pcs := s.pcs.set i 3 }
    | _ => s
  else s

def step (cfg : Cfg) (explicit : Nat → Bool) (s : St) : Step → St
  | .t => teardownStep cfg s
  | .c i => commandStep cfg explicit s i

def run (cfg : Cfg) (explicit : Nat → Bool) (s : St) (sched : List Step) : St := sched.foldl (step cfg explicit) s

/-- the teardown and every command have run to completion -/
def Done (s : St) : Prop := s.tpc = 2 ∧ ∀ pc ∈ s.pcs, pc = 3

instance (s : St) : Decidable (Done s) := by unfold Done; infer_instance

/-- the invariant (for `recheck` and `deleteFirst`): the face is in the table exactly until the teardown's first
    step, and every route of the face still has someone who will remove it — the teardown's clean-up is still
    ahead (the face is in the table, or the teardown sits between its two steps), or the command that inserted it
    has its re-check ahead. -/
def Inv (s : St) : Prop :=
  (s.inTable = true ↔ s.tpc = 0) ∧ s.tpc ≤ 2 ∧
  ∀ r ∈ s.routes, s.inTable = true ∨ s.tpc = 1 ∨ pcOf s r = 2

theorem inv_init (n : Nat) : Inv (init n) := by
  refine ⟨by simp [init], by simp [init], ?_⟩
  intro r hr; simp [init] at hr

theorem pcOf_set (s : St) (i j v : Nat) (routes : List Nat) (b : Bool) (t : Nat) :
    pcOf { inTable := b, tpc := t, pcs := s.pcs.set i v, routes := routes } j =
      if i = j ∧ i < s.pcs.length then v else pcOf s j := by
  unfold pcOf
  simp only [List.getD_eq_getElem?_getD, List.getElem?_set]
  by_cases h : i = j
  · subst h
    by_cases hl : i < s.pcs.length <;> simp [hl]
  · simp [h]

theorem inv_step (explicit : Nat → Bool) (s : St) (h : Inv s) (st : Step) :
    Inv (step ⟨true, true⟩ explicit s st) := by
  obtain ⟨h1, h2, h3⟩ := h
  cases st with
  | t =>
    simp only [step, teardownStep]
    split
    · rename_i ht
      refine ⟨by simp, by simp, ?_⟩
      intro r _; exact Or.inr (Or.inl rfl)
    · rename_i ht
      have hf : s.inTable = false := by
        cases hb : s.inTable
        · rfl
        · have := h1.mp hb; omega
      refine ⟨by simp [hf], by simp, ?_⟩
      intro r hr; simp at hr
    · exact ⟨h1, h2, h3⟩
  | c i =>
    simp only [step, commandStep]
    split
    · rename_i hi
      split
      · rename_i hp
        split
        · refine ⟨h1, h2, ?_⟩
          intro r hr
          rcases h3 r hr with a | a | a
          · exact Or.inl a
          · exact Or.inr (Or.inl a)
          · refine Or.inr (Or.inr ?_)
            show pcOf { inTable := s.inTable, tpc := s.tpc, pcs := s.pcs.set i 3, routes := s.routes } r = 2
            rw [pcOf_set]
            split
            · rename_i hc; rw [← hc.1, hp] at a; omega
            · exact a
        · refine ⟨h1, h2, ?_⟩
          intro r hr
          rcases h3 r hr with a | a | a
          · exact Or.inl a
          · exact Or.inr (Or.inl a)
          · refine Or.inr (Or.inr ?_)
            show pcOf { inTable := s.inTable, tpc := s.tpc, pcs := s.pcs.set i 1, routes := s.routes } r = 2
            rw [pcOf_set]
            split
            · rename_i hc; rw [← hc.1, hp] at a; omega
            · exact a
      · rename_i hp
        refine ⟨h1, h2, ?_⟩
        intro r hr
        show _ ∨ _ ∨ pcOf { inTable := s.inTable, tpc := s.tpc, pcs := s.pcs.set i 2, routes := i :: s.routes } r = 2
        rw [pcOf_set]
        by_cases hri : i = r
        · exact Or.inr (Or.inr (by rw [if_pos ⟨hri, hi⟩]))
        · have hr' : r ∈ s.routes := by
            simp only [List.mem_cons] at hr
            rcases hr with e | e
            · exact absurd e.symm hri
            · exact e
          rcases h3 r hr' with a | a | a
          · exact Or.inl a
          · exact Or.inr (Or.inl a)
          · exact Or.inr (Or.inr (by simp [hri, a]))
      · rename_i hp
        split
        · refine ⟨h1, h2, ?_⟩
          intro r hr; simp at hr
        · rename_i hc
          have hin : s.inTable = true := by simpa using hc
          refine ⟨h1, h2, ?_⟩
          intro r _; exact Or.inl hin
      · exact ⟨h1, h2, h3⟩
    · exact ⟨h1, h2, h3⟩

theorem inv_run (explicit : Nat → Bool) (sched : List Step) (s : St) (h : Inv s) :
    Inv (run ⟨true, true⟩ explicit s sched) := by
  induction sched generalizing s with
  | nil => exact h
  | cons st rest ih => exact ih _ (inv_step explicit s h st)

/-- the number of commands never changes -/
theorem step_pcs_length (cfg : Cfg) (explicit : Nat → Bool) (s : St) (st : Step) :
    (step cfg explicit s st).pcs.length = s.pcs.length := by
  cases st with
  | t => simp only [step, teardownStep]; split <;> (try split) <;> rfl
  | c i =>
    simp only [step, commandStep]
    split
    · split <;> (try split) <;> simp
    · rfl

/-- at completion nothing of the face is left -/
theorem done_no_routes (s : St) (h : Inv s) (hd : Done s) : s.routes = [] := by
  obtain ⟨h1, _, h3⟩ := h
  obtain ⟨ht, hp⟩ := hd
  cases hr : s.routes with
  | nil => rfl
  | cons r rest =>
    exfalso
    have hm : r ∈ s.routes := by rw [hr]; simp
    rcases h3 r hm with a | a | a
    · have := h1.mp a; omega
    · omega
    · unfold pcOf at a
      rw [List.getD_eq_getElem?_getD] at a
      cases hg : s.pcs[r]? with
      | none => simp [hg] at a
      | some v =>
        have : v ∈ s.pcs := List.mem_of_getElem? hg
        have := hp v this
        simp [hg] at a
        omega

end Ndn.C16.Teardown
