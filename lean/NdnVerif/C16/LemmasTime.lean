import NdnVerif.C16.Lemmas
namespace Ndn.C16

variable {σ L Res Op : Type}

/-- log entries paired with their release times -/
def entries (c : Conf σ L Res Op) : List ((Op × Res) × Nat) := c.log.zip c.logt

/-- Timing invariant: the linearization point (release) of every operation lies strictly inside
    its invocation/return interval, release times are strictly increasing along the log, and every
    released operation is in the log with its result. -/
structure TInv (c : Conf σ L Res Op) : Prop where
  len : c.logt.length = c.log.length
  lt_clock : ∀ x ∈ c.logt, x < c.clock
  sorted : c.logt.Pairwise (· < ·)
  hist : ∀ d ∈ c.hist, d.tinv < d.trel ∧ d.trel < d.tret ∧ d.tret < c.clock ∧ ((d.op, d.res), d.trel) ∈ entries c
  waiting : ∀ t op ti, c.th t = .waiting op ti → ti < c.clock
  running : ∀ t op l rest ti, c.th t = .running op l rest ti → ti < c.clock
  finished : ∀ t op r ti tr, c.th t = .finished op r ti tr → ti < tr ∧ tr < c.clock ∧ ((op, r), tr) ∈ entries c

theorem tinv_init (s0 : σ) : TInv (initConf s0 : Conf σ L Res Op) := by
  refine ⟨rfl, ?_, ?_, ?_, ?_, ?_, ?_⟩ <;> simp [initConf]

theorem entries_mono {c : Conf σ L Res Op} (hl : c.logt.length = c.log.length) (x : Op × Res) (tx : Nat)
    (e : (Op × Res) × Nat) (h : e ∈ c.log.zip c.logt) : e ∈ (c.log ++ [x]).zip (c.logt ++ [tx]) := by
  rw [List.zip_append hl.symm]
  exact List.mem_append_left _ h

theorem tinv_step (body : Op → Body σ L Res) {c c' : Conf σ L Res Op} {e : Ev Op}
    (hi : TInv c) (hs : Step body c e c') : TInv c' := by
  cases hs with
  | @inv t op hidle =>
    refine ⟨hi.len, fun x hx => Nat.lt_succ_of_lt (hi.lt_clock x hx), hi.sorted, ?_, ?_, ?_, ?_⟩
    · intro d hd; have := hi.hist d hd; exact ⟨this.1, this.2.1, Nat.lt_succ_of_lt this.2.2.1, this.2.2.2⟩
    · intro t' op' ti h
      by_cases e : t' = t
      · subst e; simp only [upd, if_true] at h; cases h; exact Nat.lt_succ_self _
      · simp only [upd, e, if_false] at h; exact Nat.lt_succ_of_lt (hi.waiting t' op' ti h)
    · intro t' op' l rest ti h
      by_cases e : t' = t
      · subst e; simp [upd] at h
      · simp only [upd, e, if_false] at h; exact Nat.lt_succ_of_lt (hi.running t' op' l rest ti h)
    · intro t' op' r ti tr h
      by_cases e : t' = t
      · subst e; simp [upd] at h
      · simp only [upd, e, if_false] at h
        have := hi.finished t' op' r ti tr h
        exact ⟨this.1, Nat.lt_succ_of_lt this.2.1, this.2.2⟩
  | @acqW t op ti hwait hmode hnone =>
    refine ⟨hi.len, fun x hx => Nat.lt_succ_of_lt (hi.lt_clock x hx), hi.sorted, ?_, ?_, ?_, ?_⟩
    · intro d hd; have := hi.hist d hd; exact ⟨this.1, this.2.1, Nat.lt_succ_of_lt this.2.2.1, this.2.2.2⟩
    · intro t' op' ti' h
      by_cases e : t' = t
      · subst e; simp [upd] at h
      · simp only [upd, e, if_false] at h; exact Nat.lt_succ_of_lt (hi.waiting t' op' ti' h)
    · intro t' op' l rest ti' h
      by_cases e : t' = t
      · subst e; simp only [upd, if_true] at h; cases h; exact Nat.lt_succ_of_lt (hi.waiting _ _ _ hwait)
      · simp only [upd, e, if_false] at h; exact Nat.lt_succ_of_lt (hi.running t' op' l rest ti' h)
    · intro t' op' r ti' tr h
      by_cases e : t' = t
      · subst e; simp [upd] at h
      · simp only [upd, e, if_false] at h
        have := hi.finished t' op' r ti' tr h
        exact ⟨this.1, Nat.lt_succ_of_lt this.2.1, this.2.2⟩
  | @acqR t op ti hwait hmode hnw =>
    refine ⟨hi.len, fun x hx => Nat.lt_succ_of_lt (hi.lt_clock x hx), hi.sorted, ?_, ?_, ?_, ?_⟩
    · intro d hd; have := hi.hist d hd; exact ⟨this.1, this.2.1, Nat.lt_succ_of_lt this.2.2.1, this.2.2.2⟩
    · intro t' op' ti' h
      by_cases e : t' = t
      · subst e; simp [upd] at h
      · simp only [upd, e, if_false] at h; exact Nat.lt_succ_of_lt (hi.waiting t' op' ti' h)
    · intro t' op' l rest ti' h
      by_cases e : t' = t
      · subst e; simp only [upd, if_true] at h; cases h; exact Nat.lt_succ_of_lt (hi.waiting _ _ _ hwait)
      · simp only [upd, e, if_false] at h; exact Nat.lt_succ_of_lt (hi.running t' op' l rest ti' h)
    · intro t' op' r ti' tr h
      by_cases e : t' = t
      · subst e; simp [upd] at h
      · simp only [upd, e, if_false] at h
        have := hi.finished t' op' r ti' tr h
        exact ⟨this.1, Nat.lt_succ_of_lt this.2.1, this.2.2⟩
  | @micro t op l f rest ti hrun =>
    refine ⟨hi.len, fun x hx => Nat.lt_succ_of_lt (hi.lt_clock x hx), hi.sorted, ?_, ?_, ?_, ?_⟩
    · intro d hd; have := hi.hist d hd; exact ⟨this.1, this.2.1, Nat.lt_succ_of_lt this.2.2.1, this.2.2.2⟩
    · intro t' op' ti' h
      by_cases e : t' = t
      · subst e; simp [upd] at h
      · simp only [upd, e, if_false] at h; exact Nat.lt_succ_of_lt (hi.waiting t' op' ti' h)
    · intro t' op' l' rest' ti' h
      by_cases e : t' = t
      · subst e; simp only [upd, if_true] at h; cases h; exact Nat.lt_succ_of_lt (hi.running _ _ _ _ _ hrun)
      · simp only [upd, e, if_false] at h; exact Nat.lt_succ_of_lt (hi.running t' op' l' rest' ti' h)
    · intro t' op' r ti' tr h
      by_cases e : t' = t
      · subst e; simp [upd] at h
      · simp only [upd, e, if_false] at h
        have := hi.finished t' op' r ti' tr h
        exact ⟨this.1, Nat.lt_succ_of_lt this.2.1, this.2.2⟩
  | @rel t op l ti hrun =>
    have hti := hi.running _ _ _ _ _ hrun
    refine ⟨by simp [hi.len], ?_, ?_, ?_, ?_, ?_, ?_⟩
    · intro x hx
      simp only [List.mem_append, List.mem_singleton] at hx
      rcases hx with hx | hx
      · exact Nat.lt_succ_of_lt (hi.lt_clock x hx)
      · subst hx; exact Nat.lt_succ_self _
    · rw [List.pairwise_append]
      refine ⟨hi.sorted, by simp, ?_⟩
      intro a ha b hb
      simp at hb; subst hb
      exact hi.lt_clock a ha
    · intro d hd
      have := hi.hist d hd
      exact ⟨this.1, this.2.1, Nat.lt_succ_of_lt this.2.2.1, entries_mono hi.len _ _ _ this.2.2.2⟩
    · intro t' op' ti' h
      by_cases e : t' = t
      · subst e; simp [upd] at h
      · simp only [upd, e, if_false] at h; exact Nat.lt_succ_of_lt (hi.waiting t' op' ti' h)
    · intro t' op' l' rest' ti' h
      by_cases e : t' = t
      · subst e; simp [upd] at h
      · simp only [upd, e, if_false] at h; exact Nat.lt_succ_of_lt (hi.running t' op' l' rest' ti' h)
    · intro t' op' r ti' tr h
      by_cases e : t' = t
      · subst e
        simp only [upd, if_true] at h
        cases h
        refine ⟨hti, Nat.lt_succ_self _, ?_⟩
        simp only [entries]
        rw [List.zip_append hi.len.symm]
        simp
      · simp only [upd, e, if_false] at h
        have := hi.finished t' op' r ti' tr h
        exact ⟨this.1, Nat.lt_succ_of_lt this.2.1, entries_mono hi.len _ _ _ this.2.2⟩
  | @ret t op r ti tr hfin =>
    have hf := hi.finished _ _ _ _ _ hfin
    refine ⟨hi.len, fun x hx => Nat.lt_succ_of_lt (hi.lt_clock x hx), hi.sorted, ?_, ?_, ?_, ?_⟩
    · intro d hd
      simp only [List.mem_append, List.mem_singleton] at hd
      rcases hd with hd | hd
      · have := hi.hist d hd; exact ⟨this.1, this.2.1, Nat.lt_succ_of_lt this.2.2.1, this.2.2.2⟩
      · subst hd; exact ⟨hf.1, hf.2.1, Nat.lt_succ_self _, hf.2.2⟩
    · intro t' op' ti' h
      by_cases e : t' = t
      · subst e; simp [upd] at h
      · simp only [upd, e, if_false] at h; exact Nat.lt_succ_of_lt (hi.waiting t' op' ti' h)
    · intro t' op' l' rest' ti' h
      by_cases e : t' = t
      · subst e; simp [upd] at h
      · simp only [upd, e, if_false] at h; exact Nat.lt_succ_of_lt (hi.running t' op' l' rest' ti' h)
    · intro t' op' r' ti' tr' h
      by_cases e : t' = t
      · subst e; simp [upd] at h
      · simp only [upd, e, if_false] at h
        have := hi.finished t' op' r' ti' tr' h
        exact ⟨this.1, Nat.lt_succ_of_lt this.2.1, this.2.2⟩

theorem tinv_exec (body : Op → Body σ L Res) (s0 : σ)
    {c : Conf σ L Res Op} {evs : List (Ev Op)} (h : Exec body (initConf s0) evs c) : TInv c := by
  generalize hc0 : initConf s0 = c0 at h
  induction h with
  | nil => rw [← hc0]; exact tinv_init s0
  | snoc _ hstep ih => exact tinv_step body ih hstep

end Ndn.C16
