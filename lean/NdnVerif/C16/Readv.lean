/-
  C16/Readv.lean — the NLSR readvertiser (fw/mgmt/nlsr_readvertiser.go) as the RIB drives it.

  `Announce`/`Withdraw` run INSIDE the RIB critical section (rib.go: AddEncRoute announces a NEW
  route, RemoveRouteEnc withdraws the removed route, CleanUpFace withdraws every removed route), under
  the readvertiser's own mutex.  State: the advertised counts (`map[uint64]int`, keyed by name hash;
  modelled keyed by name, C14/C07 cover the hashing) and the commands queued on the internal face.
-/
import NdnVerif.C06.LemmasHist
namespace Ndn.C16
open Ndn.C05 Ndn.C06

/-- `RouteOriginClient` -/
def originClient : Nat := 65

structure Rv where
  adv : List (Name × Int) := []        -- advertised counts (Go `int`; absent = 0)
  log : List (Bool × Name) := []       -- commands sent, oldest first; true = rib/register, false = rib/unregister
deriving Repr

def Rv.count (r : Rv) (n : Name) : Int := (afind r.adv n).getD 0

/-- `Announce(name, route)` for a route of origin client -/
def Rv.announce (r : Rv) (n : Name) : Rv := ⟨aset r.adv n (r.count n + 1), r.log ++ [(true, n)]⟩

/-- `Withdraw(name, route)` for a route of origin client: the command is skipped while the prefix is
    still advertised by another route -/
def Rv.withdraw (r : Rv) (n : Name) : Rv :=
  ⟨aset r.adv n (r.count n - 1), if r.count n - 1 > 0 then r.log else r.log ++ [(false, n)]⟩

inductive Call where
  | announce (n : Name)
  | withdraw (n : Name)
deriving Repr

def Rv.call (r : Rv) : Call → Rv
  | .announce n => r.announce n
  | .withdraw n => r.withdraw n

def Rv.run (r : Rv) (cs : List Call) : Rv := cs.foldl Rv.call r

/-- what NLSR believes after receiving the commands in order: a prefix is advertised iff the last
    command naming it was a register -/
def viewOf (log : List (Bool × Name)) (n : Name) : Bool :=
  log.foldl (fun v c => if c.2 = n then c.1 else v) false

def isClient (r : Route) : Bool := r.origin == originClient

/-- number of client-origin routes registered on exactly `n` -/
def clientAt (s : C06.Spec) (n : Name) : Nat := ((s.routesAt n).filter isClient).length

/-- the calls a RIB operation makes into the readvertiser (call sites of rib.go) -/
def ribCalls (s : C06.Spec) : C06.Op → List Call
  | .reg n r => if isClient r && !(s.routesAt n).any (·.sameKey r.face r.origin) then [.announce n] else []
  | .unreg n f o => if o == originClient && (s.routesAt n).any (·.sameKey f o) then [.withdraw n] else []
  | .cleanup f => s.routes.flatMap fun p => (p.2.filter fun r => r.face == f && isClient r).map fun _ => Call.withdraw p.1

/-! ### lemmas -/

@[simp] theorem count_announce (r : Rv) (n m : Name) :
    (r.announce n).count m = if n = m then r.count n + 1 else r.count m := by
  simp only [Rv.announce, Rv.count, afind_aset]; split <;> simp

@[simp] theorem count_withdraw (r : Rv) (n m : Name) :
    (r.withdraw n).count m = if n = m then r.count n - 1 else r.count m := by
  simp only [Rv.withdraw, Rv.count, afind_aset]; split <;> simp

theorem viewOf_append (l : List (Bool × Name)) (b : Bool) (n m : Name) :
    viewOf (l ++ [(b, n)]) m = if n = m then b else viewOf l m := by
  simp [viewOf, List.foldl_append]

/-- the readvertiser invariant: counts are never negative and NLSR's view is exactly the prefixes
    with a positive count -/
def RvInv (r : Rv) : Prop := ∀ n, 0 ≤ r.count n ∧ (viewOf r.log n = true ↔ 0 < r.count n)

theorem rvInv_init : RvInv {} := by
  intro n; simp [Rv.count, afind, viewOf]

theorem rvInv_announce {r : Rv} (h : RvInv r) (n : Name) : RvInv (r.announce n) := by
  intro m
  rw [count_announce]
  have hl : (r.announce n).log = r.log ++ [(true, n)] := rfl
  rw [hl, viewOf_append]
  by_cases e : n = m
  · simp only [e, if_true]; have := (h m).1; constructor
    · omega
    · simp; omega
  · simp only [e, if_false]; exact h m

theorem rvInv_withdraw {r : Rv} (h : RvInv r) (n : Name) (hpos : 1 ≤ r.count n) : RvInv (r.withdraw n) := by
  intro m
  rw [count_withdraw]
  by_cases hc : r.count n - 1 > 0
  · have hl : (r.withdraw n).log = r.log := by simp only [Rv.withdraw]; rw [if_pos hc]
    rw [hl]
    by_cases e : n = m
    · subst e; simp only [if_true]
      constructor
      · omega
      · constructor
        · intro _; omega
        · intro _; exact (h n).2.mpr (by omega)
    · simp only [e, if_false]; exact h m
  · have hl : (r.withdraw n).log = r.log ++ [(false, n)] := by simp only [Rv.withdraw]; rw [if_neg hc]
    rw [hl, viewOf_append]
    by_cases e : n = m
    · subst e; simp only [if_true]
      constructor
      · omega
      · constructor
        · intro hf; simp at hf
        · intro hp; omega
    · simp only [e, if_false]; exact h m

/-- number of withdraw calls naming `n` -/
def wdCount (cs : List Call) (n : Name) : Nat :=
  (cs.filter fun c => match c with | .withdraw m => m = n | _ => false).length

def allWithdraw (cs : List Call) : Prop := ∀ c ∈ cs, ∃ m, c = Call.withdraw m

/-- a batch of withdrawals (CleanUpFace) that never takes more than is advertised -/
theorem run_withdraws (cs : List Call) : ∀ (r : Rv), RvInv r → allWithdraw cs →
    (∀ n, (wdCount cs n : Int) ≤ r.count n) →
    RvInv (r.run cs) ∧ ∀ n, (r.run cs).count n = r.count n - wdCount cs n := by
  induction cs with
  | nil => intro r h _ _; exact ⟨h, by intro n; simp [Rv.run, wdCount]⟩
  | cons c cs ih =>
    intro r h hw hle
    obtain ⟨m, hcm⟩ := hw c (by simp)
    subst hcm
    have hm : 1 ≤ r.count m := by
      have := hle m
      simp only [wdCount, List.filter_cons] at this
      simp at this
      omega
    have h' := rvInv_withdraw h m hm
    have hw' : allWithdraw cs := fun c hc => hw c (by simp [hc])
    have hle' : ∀ n, (wdCount cs n : Int) ≤ (r.withdraw m).count n := by
      intro n
      have := hle n
      rw [count_withdraw]
      simp only [wdCount, List.filter_cons] at this ⊢
      by_cases e : m = n
      · subst e; simp at this ⊢; omega
      · simp [e] at this ⊢; exact this
    obtain ⟨hi, hc⟩ := ih (r.withdraw m) h' hw' hle'
    refine ⟨hi, ?_⟩
    intro n
    show ((r.withdraw m).run cs).count n = _
    rw [hc n, count_withdraw]
    simp only [wdCount, List.filter_cons]
    by_cases e : m = n
    · subst e; simp; omega
    · simp [e]

/-! ### the RIB side: how the client-route count of a prefix changes, and which calls are made -/

/-- route keys (face, origin) are unique per prefix -/
def RKInv (s : C06.Spec) : Prop := ∀ n, RouteKeysNodup (s.routesAt n)

theorem rkInv_init : RKInv C06.Spec.init := by
  intro n; simp [C06.Spec.init, C06.Spec.routesAt, afind, RouteKeysNodup]

theorem rkInv_apply {s : C06.Spec} (hi : SpecInv6 s) (hk : RKInv s) (op : C06.Op) : RKInv (s.apply op) := by
  intro x
  rw [Spec.routesAt_apply hi op x]
  cases op with
  | reg n rt =>
    simp only
    split
    · exact routeKeys_upsert (hk n) rt
    · exact hk x
  | unreg n f o =>
    simp only
    split
    · exact routeKeys_filter (hk n) _
    · exact hk x
  | cleanup f => exact routeKeys_filter (hk x) _

theorem filter_client_upsert_new (rs : List Route) (rt : Route) (h : rs.any (·.sameKey rt.face rt.origin) = false) :
    ((upsertRoute rs rt).filter isClient).length = (rs.filter isClient).length + (if isClient rt then 1 else 0) := by
  induction rs with
  | nil => simp [upsertRoute, List.filter_cons]; split <;> simp
  | cons a t ih =>
    simp only [List.any_cons, Bool.or_eq_false_iff] at h
    simp only [upsertRoute, h.1, Bool.false_eq_true, if_false, List.filter_cons]
    have := ih h.2
    split <;> simp_all <;> omega

theorem filter_client_upsert_old (rs : List Route) (rt : Route) (h : rs.any (·.sameKey rt.face rt.origin) = true) :
    ((upsertRoute rs rt).filter isClient).length = (rs.filter isClient).length := by
  induction rs with
  | nil => simp at h
  | cons a t ih =>
    simp only [upsertRoute]
    by_cases e : a.sameKey rt.face rt.origin = true
    · simp only [e, if_true, List.filter_cons]
      have : isClient rt = isClient a := by
        simp only [Route.sameKey, Bool.and_eq_true, beq_iff_eq] at e
        simp [isClient, e.2]
      rw [this]
      split <;> simp
    · simp only [e, Bool.false_eq_true, if_false, List.filter_cons]
      simp only [List.any_cons, e, Bool.false_or] at h
      have := ih h
      split <;> simp_all

/-- with unique keys, removing the routes of one key removes at most one route -/
theorem filter_client_remove (rs : List Route) (hk : RouteKeysNodup rs) (f o : Nat) :
    ((rs.filter fun q => !q.sameKey f o).filter isClient).length =
      (rs.filter isClient).length - (if o == originClient && rs.any (·.sameKey f o) then 1 else 0) := by
  induction rs with
  | nil => simp
  | cons a t ih =>
    have hk2 : RouteKeysNodup t := (List.nodup_cons.mp hk).2
    have hk1 := (List.nodup_cons.mp hk).1
    by_cases e : a.sameKey f o = true
    · -- `a` is the route removed; no other route of `t` has this key
      have hno : t.any (·.sameKey f o) = false := by
        rw [Bool.eq_false_iff]
        intro hany
        rw [List.any_eq_true] at hany
        obtain ⟨b, hb, hs⟩ := hany
        apply hk1
        simp only [Route.sameKey, Bool.and_eq_true, beq_iff_eq] at e hs
        exact List.mem_map.mpr ⟨b, hb, by show (b.face, b.origin) = (a.face, a.origin); rw [hs.1, hs.2, e.1, e.2]⟩
      have hkeep : t.filter (fun q => !q.sameKey f o) = t := by
        rw [List.filter_eq_self]
        intro b hb
        have : b.sameKey f o = false := by
          rw [Bool.eq_false_iff]; intro hs
          have hany : t.any (fun q => q.sameKey f o) = true := List.any_eq_true.mpr ⟨b, hb, hs⟩
          rw [hno] at hany; exact absurd hany (by simp)
        simp [this]
      have ho : isClient a = (o == originClient) := by
        simp only [Route.sameKey, Bool.and_eq_true, beq_iff_eq] at e
        simp [isClient, e.2]
      simp only [List.filter_cons, e, Bool.not_true, Bool.false_eq_true, if_false, hkeep, List.any_cons, Bool.true_or,
        Bool.and_true]
      rw [ho]
      split <;> simp
    · have e' : a.sameKey f o = false := by simpa using e
      simp only [List.filter_cons, e', Bool.not_false, if_true, List.any_cons, Bool.false_or]
      have := ih hk2
      split
      · simp only [List.length_cons]; rw [this]
        split
        · rename_i hc hcond
          -- the removed route is a client route inside t, so t has at least one client route
          have hpos : 1 ≤ (t.filter isClient).length := by
            simp only [Bool.and_eq_true, beq_iff_eq] at hcond
            obtain ⟨b, hb, hs⟩ := List.any_eq_true.mp hcond.2
            have hbc : isClient b = true := by
              simp only [Route.sameKey, Bool.and_eq_true, beq_iff_eq] at hs
              simp [isClient, hs.2, hcond.1]
            exact List.length_pos_iff.mpr (List.ne_nil_of_mem (List.mem_filter.mpr ⟨hb, hbc⟩))
          omega
        · omega
      · exact this

theorem filter_client_face_add (rs : List Route) (f : Nat) :
    ((rs.filter fun q => !(q.face == f)).filter isClient).length +
      (rs.filter fun r => r.face == f && isClient r).length = (rs.filter isClient).length := by
  induction rs with
  | nil => rfl
  | cons a t ih =>
    by_cases e : (a.face == f) = true <;> by_cases c : isClient a = true <;>
      simp only [List.filter_cons, e, c, Bool.not_true, Bool.not_false, Bool.true_and, Bool.false_and, Bool.and_true,
        Bool.and_false, if_true, if_false, Bool.false_eq_true, List.length_cons, Bool.not_eq_true] <;> omega

theorem filter_client_face (rs : List Route) (f : Nat) :
    ((rs.filter fun q => !(q.face == f)).filter isClient).length =
      (rs.filter isClient).length - (rs.filter fun r => r.face == f && isClient r).length := by
  have := filter_client_face_add rs f
  omega

theorem wdCount_const {α : Type} (l : List α) (k n : Name) :
    wdCount (l.map fun _ => Call.withdraw k) n = if k = n then l.length else 0 := by
  induction l with
  | nil => simp [wdCount]
  | cons a t ih =>
    simp only [wdCount, List.map_cons, List.filter_cons] at ih ⊢
    by_cases e : k = n
    · simp only [e, decide_true, if_true, List.length_cons] at ih ⊢; omega
    · simp only [e, decide_false, if_false, Bool.false_eq_true] at ih ⊢; exact ih

/-- the withdraw calls of CleanUpFace naming `n` are exactly the client routes of the face on `n` -/
theorem wdCount_cleanup (l : List (Name × List Route)) (hn : KeysNodup l) (f : Nat) (n : Name) :
    wdCount (l.flatMap fun p => (p.2.filter fun r => r.face == f && isClient r).map fun _ => Call.withdraw p.1) n =
      (((afind l n).getD []).filter fun r => r.face == f && isClient r).length := by
  induction l with
  | nil => simp [wdCount, afind]
  | cons a t ih =>
    obtain ⟨k, v⟩ := a
    have hn1 : k ∉ t.map (·.1) := (List.nodup_cons.mp hn).1
    have hn2 : KeysNodup t := (List.nodup_cons.mp hn).2
    have happ : ∀ (x y : List Call), wdCount (x ++ y) n = wdCount x n + wdCount y n := by
      intro x y; simp [wdCount, List.filter_append]
    simp only [List.flatMap_cons, happ, afind]
    rw [ih hn2]
    by_cases e : k = n
    · subst e
      have : afind t k = none := by
        rw [afind_eq_none_iff]; exact hn1
      simp only [if_true, this, Option.getD_none, Option.getD_some, List.filter_nil, List.length_nil, Nat.add_zero]
      rw [wdCount_const]; simp
    · simp only [e, if_false]
      rw [wdCount_const]; simp [e]

theorem client_pos_of_any (rs : List Route) (f o : Nat) (ho : (o == originClient) = true)
    (h : rs.any (·.sameKey f o) = true) : 1 ≤ (rs.filter isClient).length := by
  obtain ⟨b, hb, hs⟩ := List.any_eq_true.mp h
  have hbc : isClient b = true := by
    simp only [Route.sameKey, Bool.and_eq_true, beq_iff_eq] at hs
    simp only [beq_iff_eq] at ho
    simp [isClient, hs.2, ho]
  exact List.length_pos_iff.mpr (List.ne_nil_of_mem (List.mem_filter.mpr ⟨hb, hbc⟩))

theorem wd_le_client (rs : List Route) (f : Nat) :
    (rs.filter fun r => r.face == f && isClient r).length ≤ (rs.filter isClient).length := by
  have := filter_client_face_add rs f
  omega

/-- the RIB together with its readvertiser -/
structure RR where
  spec : C06.Spec := C06.Spec.init
  rv : Rv := {}

def RR.step (x : RR) (op : C06.Op) : RR := ⟨x.spec.apply op, x.rv.run (ribCalls x.spec op)⟩
def RR.runOps (x : RR) (ops : List C06.Op) : RR := ops.foldl RR.step x

structure RRInv (x : RR) : Prop where
  spec : SpecInv6 x.spec
  rk : RKInv x.spec
  rv : RvInv x.rv
  counts : ∀ n, x.rv.count n = (clientAt x.spec n : Int)

theorem rrInv_init : RRInv {} :=
  ⟨⟨by simp [C06.Spec.init, KeysNodup], by intro n rs h; simp [C06.Spec.init, afind] at h⟩, rkInv_init, rvInv_init,
   by intro n; simp [Rv.count, afind, clientAt, C06.Spec.routesAt, C06.Spec.init]⟩

theorem rrInv_step {x : RR} (h : RRInv x) (op : C06.Op) : RRInv (x.step op) := by
  refine ⟨Spec.inv_apply h.spec op, rkInv_apply h.spec h.rk op, ?_, ?_⟩
  all_goals
    cases op with
    | reg n rt =>
      simp only [RR.step, ribCalls]
      by_cases hnew : (isClient rt && !(x.spec.routesAt n).any (·.sameKey rt.face rt.origin)) = true
      · simp only [hnew, if_true, Rv.run, List.foldl_cons, List.foldl_nil, Rv.call]
        first
        | exact rvInv_announce h.rv n
        | intro m
          rw [count_announce, clientAt, Spec.routesAt_apply h.spec]
          simp only [Bool.and_eq_true, Bool.not_eq_true'] at hnew
          by_cases e : n = m
          · subst e
            simp only [if_true, filter_client_upsert_new _ _ hnew.2, hnew.1, h.counts n, clientAt]
            omega
          · simp only [e, if_false]; exact h.counts m
      · simp only [hnew, Bool.false_eq_true, if_false, Rv.run, List.foldl_nil]
        first
        | exact h.rv
        | intro m
          rw [clientAt, Spec.routesAt_apply h.spec]
          by_cases e : n = m
          · subst e
            simp only [if_true]
            by_cases hany : (x.spec.routesAt n).any (·.sameKey rt.face rt.origin) = true
            · rw [filter_client_upsert_old _ _ hany]; exact h.counts n
            · have hany' : (x.spec.routesAt n).any (·.sameKey rt.face rt.origin) = false := by simpa using hany
              have hc : isClient rt = false := by
                cases hcl : isClient rt
                · rfl
                · simp [hcl, hany'] at hnew
              rw [filter_client_upsert_new _ _ hany', hc]
              have := h.counts n
              simpa [clientAt] using this
          · simp only [e, if_false]; exact h.counts m
    | unreg n f o =>
      simp only [RR.step, ribCalls]
      by_cases hc : (o == originClient && (x.spec.routesAt n).any (·.sameKey f o)) = true
      · simp only [hc, if_true, Rv.run, List.foldl_cons, List.foldl_nil, Rv.call]
        have hc' := hc
        simp only [Bool.and_eq_true] at hc'
        have hpos := client_pos_of_any _ f o hc'.1 hc'.2
        first
        | exact rvInv_withdraw h.rv n (by rw [h.counts n, clientAt]; omega)
        | intro m
          rw [count_withdraw, clientAt, Spec.routesAt_apply h.spec]
          by_cases e : n = m
          · subst e
            simp only [if_true, filter_client_remove _ (h.rk n) f o, hc, h.counts n, clientAt]
            omega
          · simp only [e, if_false]; exact h.counts m
      · simp only [hc, Bool.false_eq_true, if_false, Rv.run, List.foldl_nil]
        first
        | exact h.rv
        | intro m
          rw [clientAt, Spec.routesAt_apply h.spec]
          by_cases e : n = m
          · subst e
            simp only [if_true, filter_client_remove _ (h.rk n) f o, hc, Bool.false_eq_true, if_false, Nat.sub_zero]
            exact h.counts n
          · simp only [e, if_false]; exact h.counts m
    | cleanup f =>
      simp only [RR.step, ribCalls]
      have hall : allWithdraw (x.spec.routes.flatMap fun p =>
          (p.2.filter fun r => r.face == f && isClient r).map fun _ => Call.withdraw p.1) := by
        intro c hc
        obtain ⟨p, _, hp⟩ := List.mem_flatMap.mp hc
        obtain ⟨_, _, hq⟩ := List.mem_map.mp hp
        exact ⟨p.1, hq.symm⟩
      have hle : ∀ m, (wdCount (x.spec.routes.flatMap fun p =>
          (p.2.filter fun r => r.face == f && isClient r).map fun _ => Call.withdraw p.1) m : Int) ≤ x.rv.count m := by
        intro m
        rw [wdCount_cleanup _ h.spec.keys f m, h.counts m, clientAt]
        have := wd_le_client (x.spec.routesAt m) f
        simp only [C06.Spec.routesAt] at this ⊢
        omega
      have hr := run_withdraws _ x.rv h.rv hall hle
      first
      | exact hr.1
      | intro m
        rw [hr.2 m, wdCount_cleanup _ h.spec.keys f m, h.counts m, clientAt, clientAt, Spec.routesAt_apply h.spec]
        simp only
        have h1 := filter_client_face (x.spec.routesAt m) f
        have h2 := wd_le_client (x.spec.routesAt m) f
        simp only [C06.Spec.routesAt] at h1 h2 ⊢
        omega

theorem rrInv_run (ops : List C06.Op) : ∀ (x : RR), RRInv x → RRInv (x.runOps ops) := by
  induction ops with
  | nil => intro x h; exact h
  | cons o os ih => intro x h; exact ih _ (rrInv_step h o)

end Ndn.C16
