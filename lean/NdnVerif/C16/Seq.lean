/-
  C16 — the sequential specification the concurrent tables must be linearizable to: the route
  multiset with its flattening (C06.Spec), the strategy map with longest-prefix match (C05) — and
  an executable linearizability checker (Wing–Gong search with memoisation) used by the driver on
  histories recorded from the REAL tables.  Core Lean only.
-/
import NdnVerif.C06.Spec
import NdnVerif.C16.Readv
import Std.Data.HashSet
namespace Ndn.C16
open Ndn.C05 Ndn.C06

/-- operations issued concurrently against the shared RIB / FIB-strategy table -/
inductive SOp where
  | reg (n : Name) (r : Route)
  | unreg (n : Name) (face origin : Nat)
  | cleanup (face : Nat)
  | fins (n : Name) (face cost : Nat)    -- direct FIB command: InsertNextHopEnc
  | frem (n : Name) (face : Nat)         -- direct FIB command: RemoveNextHopEnc
  | sets (n strat : Name)
  | unsets (n : Name)
  | nh (n : Name)          -- FindNextHopsEnc
  | st (n : Name)          -- FindStrategyEnc
  | lf                     -- GetAllFIBEntries
  | lr                     -- Rib.GetAllEntries
  | ls                     -- GetAllForwardingStrategies
  | adv                    -- the NLSR readvertiser: advertised counts and commands sent so far
deriving Repr

structure SSt where
  rib : C06.Spec
  strat : List (Name × Name)
  /-- next hops installed by direct FIB commands (management `fib add-nexthop`); the generated
      histories keep these on prefixes the RIB never touches -/
  direct : C05.Spec
  /-- the NLSR readvertiser the RIB calls back (advertised counts, commands sent) -/
  rv : Rv := {}
deriving Repr

def SSt.init (dflt : Name) : SSt := ⟨C06.Spec.init, [([], dflt)], C05.Spec.init dflt, {}⟩

/-- a RIB mutation together with the calls it makes into the readvertiser -/
def SSt.ribStep (s : SSt) (op : C06.Op) : SSt :=
  { s with rib := s.rib.apply op, rv := s.rv.run (ribCalls s.rib op) }

/-- next hops of exactly prefix `p`: installed directly, or the flattening of its routes -/
def SSt.fibAt (s : SSt) (p : Name) : Hops :=
  let d := s.direct.nhAt p
  if !d.isEmpty then d else s.rib.fibAt p

def insertBy {α : Type} (lt : α → α → Bool) (x : α) : List α → List α
  | [] => [x]
  | y :: t => if lt x y then x :: y :: t else y :: insertBy lt x t
def sortBy {α : Type} (lt : α → α → Bool) (l : List α) : List α := l.foldl (fun acc x => insertBy lt x acc) []

def renderHops (h : Hops) : String :=
  if h.isEmpty then "-"
  else ",".intercalate ((sortBy (fun a b => a.1 < b.1 || (a.1 == b.1 && a.2 < b.2)) h).map fun p => s!"{p.1}:{p.2}")

def renderListing (l : List (String × String)) : String :=
  if l.isEmpty then "-"
  else ";".intercalate ((sortBy (fun a b => a.1 < b.1 || (a.1 == b.1 && a.2 < b.2)) l).map fun p => p.1 ++ "=" ++ p.2)

def routeLt (a b : Route) : Bool :=
  a.face < b.face || (a.face == b.face && (a.origin < b.origin || (a.origin == b.origin &&
    (a.cost < b.cost || (a.cost == b.cost && a.flags < b.flags)))))

/-- `name=count;…` for the non-zero advertised counts, then the numbers of commands sent -/
def Rv.render (r : Rv) : String :=
  renderListing ((r.adv.filter fun p => p.2 != 0).map fun p => (p.1.toText, toString p.2)) ++
    s!" reg={(r.log.filter (·.1)).length} unreg={(r.log.filter (!·.1)).length}"

def renderRoutes (rs : List Route) : String :=
  ",".intercalate ((sortBy routeLt rs).map fun r => s!"{r.face}/{r.origin}/{r.cost}/{r.flags}")

def SSt.stratAt (s : SSt) (n : Name) : Option Name := afind s.strat n

/-- sequential semantics: new state and canonical result text -/
def SSt.apply (s : SSt) : SOp → SSt × String
  | .reg n r => (s.ribStep (.reg n r), "ok")
  | .unreg n f o => (s.ribStep (.unreg n f o), "ok")
  | .cleanup f => (s.ribStep (.cleanup f), "ok")
  | .fins n f c => ({ s with direct := s.direct.apply (.ins n f c) }, "ok")
  | .frem n f => ({ s with direct := s.direct.apply (.rem n f) }, "ok")
  | .sets n x => ({ s with strat := aset s.strat n x }, "ok")
  | .unsets n => ({ s with strat := aerase s.strat n }, "ok")
  | .nh n => (s, renderHops (lpm s.fibAt (fun h => !h.isEmpty) [] n n.length))
  | .st n => (s, match lpm s.stratAt (fun x => x.isSome) none n n.length with
                 | some x => x.toText
                 | none => "none")
  | .lf => (s, renderListing ((s.rib.listFib ++ s.direct.listFib).map fun p => (p.1.toText, renderHops p.2)))
  | .lr => (s, renderListing (s.rib.listRib.map fun p => (p.1.toText, renderRoutes p.2)))
  | .ls => (s, renderListing (s.strat.map fun p => (p.1.toText, p.2.toText)))
  | .adv => (s, s.rv.render)

/-- canonical key of a state (listing order independent) -/
def SSt.key (s : SSt) : String :=
  (s.apply .lr).2 ++ "|" ++ (s.apply .ls).2 ++ "|" ++
    renderListing (s.direct.listFib.map fun p => (p.1.toText, renderHops p.2)) ++ "|" ++ s.rv.render

/-- one completed operation of a recorded history -/
structure HOp where
  id : Nat
  inv : Nat
  ret : Nat
  op : SOp
  res : String

/-- `order` is a valid linearization of `h` from `s`: a permutation of the operations that respects
    real-time precedence (an operation that returned before another was invoked comes first) and
    reproduces every recorded result under the sequential semantics.  Returns the final state. -/
def checkWitness (s : SSt) (h : List HOp) (order : List Nat) : Option SSt :=
  let rec go (s : SSt) (pending : List HOp) : List Nat → Option SSt
    | [] => if pending.isEmpty then some s else none
    | i :: rest =>
      match pending.find? (·.id == i) with
      | none => none
      | some o =>
        -- no other pending operation returned before `o` was invoked
        if pending.any (fun p => p.id != i && p.ret < o.inv) then none
        else
          let (s', r) := s.apply o.op
          if r == o.res then go s' (pending.filter (·.id != i)) rest else none
  go s h order

structure Search where
  visited : Std.HashSet String := {}
  finals : List (String × SSt × List Nat) := []   -- key ↦ (state, witness order)
  nodes : Nat := 0

/-- Wing–Gong search: all final states reachable by some valid linearization (with a witness each). -/
def search (fuel : Nat) (s : SSt) (pending : List HOp) (acc : List Nat) (st : Search) : Search :=
  match fuel with
  | 0 => st
  | fuel + 1 =>
    if pending.isEmpty then
      let k := s.key
      if st.finals.any (·.1 == k) then st else { st with finals := (k, s, acc.reverse) :: st.finals }
    else
      let memo := s.key ++ "#" ++ ",".intercalate (pending.map fun p => toString p.id)
      if st.visited.contains memo then st
      else
        let st := { st with visited := st.visited.insert memo, nodes := st.nodes + 1 }
        let minRet := pending.foldl (fun m p => min m p.ret) (pending.headD ⟨0, 0, 0, .lf, ""⟩).ret
        pending.foldl (fun st o =>
          if o.inv < minRet || o.ret == minRet then
            let (s', r) := s.apply o.op
            if r == o.res then search fuel s' (pending.filter (·.id != o.id)) (o.id :: acc) st else st
          else st) st

end Ndn.C16
