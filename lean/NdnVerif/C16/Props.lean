/-
  C16 — property theorems.  "Shared tables tolerate concurrent updates, teardown and lookups."

  What is proved (for EVERY number of threads, every operation set, every schedule the RWMutex
  admits, every interleaving of micro-steps):  if every table operation runs entirely inside one
  critical section of the table's reader/writer mutex (writers exclusive; read-lock holders never
  modify shared state), then every execution is linearizable to the sequential specification, the
  linearization point of each operation lies strictly inside its invocation/return interval, every
  lookup returns the result of the state between two operations, and at quiescence the tables
  equal the sequential replay.  The hypothesis is tied to the current source by the regenerated
  lock-fact table (`tables_follow_lock_discipline`, re-evaluated on every run) and by race-detector
  runs of the real tables whose histories the Lean linearizability checker validates.

  PARTIAL BY NATURE: the Go memory model, the scheduler and `sync.RWMutex` itself are assumed
  (modelled by the `acq` enabling conditions); a theorem cannot exhibit a data race.
-/
import NdnVerif.C16.LemmasTime
import NdnVerif.C16.Lemmas2
import NdnVerif.Gen.C16LockFacts
import NdnVerif.C16.Readv
import NdnVerif.C16.Teardown
namespace Ndn.C16

variable {σ σ2 L Res Op : Type}

/-- **Linearizability under the lock discipline.**  After any execution: replaying the log of
    critical sections sequentially (atomic semantics) yields exactly the results the operations
    returned; when nobody is inside a critical section the shared state is the sequential state. -/
theorem rwmutex_linearizable (body : Op → Body σ L Res) (hd : Disciplined body) (s0 : σ)
    {c : Conf σ L Res Op} {evs : List (Ev Op)} (h : Exec body (initConf s0) evs c) :
    (seqRun body s0 (c.log.map (·.1))).2 = c.log.map (·.2) ∧
    ((∀ t, isRunningWrite body (c.th t) = false) → c.shared = (seqRun body s0 (c.log.map (·.1))).1) := by
  have hi := inv_exec body hd s0 h
  exact ⟨hi.results, hi.nowriter⟩

/-- **Linearization points.**  Every returned operation is in the log with the result it returned,
    at a release time strictly between its invocation and its return; log times strictly increase. -/
theorem linearization_points (body : Op → Body σ L Res) (s0 : σ)
    {c : Conf σ L Res Op} {evs : List (Ev Op)} (h : Exec body (initConf s0) evs c) :
    c.logt.length = c.log.length ∧ c.logt.Pairwise (· < ·) ∧
    ∀ d ∈ c.hist, d.tinv < d.trel ∧ d.trel < d.tret ∧ ((d.op, d.res), d.trel) ∈ c.log.zip c.logt := by
  have ht := tinv_exec body s0 h
  refine ⟨ht.len, ht.sorted, ?_⟩
  intro d hd
  have := ht.hist d hd
  exact ⟨this.1, this.2.1, this.2.2.2⟩

/-- **Real-time order is respected**: an operation that returned before another was invoked is
    linearized before it. -/
theorem realtime_order_respected (body : Op → Body σ L Res) (s0 : σ)
    {c : Conf σ L Res Op} {evs : List (Ev Op)} (h : Exec body (initConf s0) evs c)
    (a b : Done Res Op) (ha : a ∈ c.hist) (hb : b ∈ c.hist) (hab : a.tret < b.tinv) : a.trel < b.trel := by
  have ht := tinv_exec body s0 h
  have h1 := ht.hist a ha
  have h2 := ht.hist b hb
  omega

theorem seqRun_results_length (body : Op → Body σ L Res) (s : σ) (ops : List Op) :
    (seqRun body s ops).2.length = ops.length := by
  induction ops generalizing s with
  | nil => simp [seqRun]
  | cons o os ih => simp [seqRun, ih]

/-- **Every operation sees a state lying between two operations**: the i-th logged result is the
    atomic result on the state reached by the first i logged operations — never a torn or partially
    updated view. -/
theorem result_is_of_state_between_operations (body : Op → Body σ L Res) (hd : Disciplined body) (s0 : σ)
    {c : Conf σ L Res Op} {evs : List (Ev Op)} (h : Exec body (initConf s0) evs c)
    (i : Nat) (op : Op) (r : Res) (hi : c.log[i]? = some (op, r)) :
    r = ((body op).atomic (seqRun body s0 ((c.log.take i).map (·.1))).1).2 := by
  have hres := (inv_exec body hd s0 h).results
  -- split the log at i
  have hlt : i < c.log.length := by
    rcases Nat.lt_or_ge i c.log.length with h1 | h1
    · exact h1
    · rw [List.getElem?_eq_none h1] at hi; simp at hi
  have hsplit : c.log = c.log.take i ++ (op, r) :: c.log.drop (i + 1) := by
    have hg : c.log[i] = (op, r) := by
      rw [List.getElem?_eq_getElem hlt] at hi; exact Option.some.inj hi
    rw [← hg]
    exact (List.take_append_drop i c.log).symm.trans (by rw [List.drop_eq_getElem_cons hlt])
  rw [hsplit] at hres
  simp only [List.map_append, List.map_cons, seqRun_append, seqRun] at hres
  have hlen : (seqRun body s0 (List.map (fun x => x.1) (List.take i c.log))).2.length
      = (List.map (fun x => x.2) (List.take i c.log)).length := by
    rw [seqRun_results_length]; simp
  have := List.append_inj hres hlen
  have h2 := this.2
  simp only [List.cons.injEq] at h2
  exact h2.1.symm

/-! ## The lock structure of the real tables: RIB mutex (outer) + FIB RWMutex (inner) -/

open Ndn.C16.Two in
/-- **Linearizability of the two-lock system.**  Outer operations (route registration / removal /
    face clean-up / RIB listing) hold the RIB mutex for their work on the RIB state σ1 and — still
    holding it — install their FIB changes in ONE write critical section of the FIB RWMutex; inner
    operations (lookups, listings, direct FIB and strategy commands) take only the FIB RWMutex.
    For every number of threads and every schedule the two locks admit: replaying the log
    (appended when an operation releases the lock that publishes its last effect) sequentially
    with the ATOMIC semantics on (σ1, σ2) yields exactly the results returned; whenever no thread
    is inside phase 1 / waiting for the FIB lock / inside the FIB write section the RIB state is the
    sequential one, and whenever no writer is inside the FIB lock the FIB state is the sequential
    one.  In particular a lookup never sees the FIB between two sub-steps of a RIB operation, and a
    RIB listing never sees a RIB whose FIB changes are not installed yet. -/
theorem two_lock_linearizable (body : Op → Body2 σ σ2 L Res) (wf : WF body) (a : σ) (b : σ2)
    {c : Conf2 σ σ2 L Res Op} {evs : List (Ev2 Op)} (h : Exec2 body (init2 a b) evs c) :
    (seqRun2 body (a, b) (c.log.map (·.1))).2 = c.log.map (·.2) ∧
    ((∀ t, dirty1 (c.th t) = false) → c.s1 = (seqRun2 body (a, b) (c.log.map (·.1))).1.1) ∧
    ((∀ t, holdsM2w body (c.th t) = false) → c.s2 = (seqRun2 body (a, b) (c.log.map (·.1))).1.2) := by
  have hi := inv2_exec body wf a b h
  exact ⟨hi.res, hi.s1free, hi.s2free⟩

open Ndn.C16.Two in
/-- at quiescence (every thread idle) both tables equal the sequential replay of the operations -/
theorem two_lock_quiescent (body : Op → Body2 σ σ2 L Res) (wf : WF body) (a : σ) (b : σ2)
    {c : Conf2 σ σ2 L Res Op} {evs : List (Ev2 Op)} (h : Exec2 body (init2 a b) evs c)
    (hq : ∀ t, c.th t = .idle) :
    (c.s1, c.s2) = (seqRun2 body (a, b) (c.log.map (·.1))).1 := by
  have hl := two_lock_linearizable body wf a b h
  have h1 := hl.2.1 (fun t => by rw [hq t]; rfl)
  have h2 := hl.2.2 (fun t => by rw [hq t]; rfl)
  rw [h1, h2]

open Ndn.C16.Two in
/-- mutual exclusion as the two locks provide it: at most one thread holds the RIB mutex, and a
    writer inside the FIB lock excludes every other thread from it -/
theorem two_lock_exclusion (body : Op → Body2 σ σ2 L Res) (wf : WF body) (a : σ) (b : σ2)
    {c : Conf2 σ σ2 L Res Op} {evs : List (Ev2 Op)} (h : Exec2 body (init2 a b) evs c) :
    (∀ t t', holdsM1 (c.th t) = true → holdsM1 (c.th t') = true → t = t') ∧
    (∀ t, holdsM2w body (c.th t) = true → ∀ t', t' ≠ t → holdsM2 (c.th t') = false) := by
  have hi := inv2_exec body wf a b h
  exact ⟨hi.m1excl, hi.m2excl⟩

/-! ## The hypothesis, tied to the source: the regenerated lock facts -/

open Ndn.Gen.C16 in
/-- a method is disciplined: it takes its table's mutex as its first statement and releases it by a
    deferred unlock; a read-lock holder performs no write to shared state; nothing hands out live
    table state; the FIB never calls back into the RIB (lock order RIB → FIB, no cycle) -/
def disciplinedFact (m : MethodFact) : Bool :=
  m.ptrRecv &&       -- a value receiver would copy the table and lock the copy's mutex
  (m.lock == "Lock" || m.lock == "RLock") && m.deferUnlock &&
  (m.lock != "RLock" || m.sharedWrites == 0) && m.returnsLive == 0 &&
  m.lockOps == 2 &&   -- the lock and its deferred unlock only: the critical section is never left early
  m.reentrant == 0 && -- no call back into a locking method of the same table (RWMutex is not re-entrant)
  (m.typ == "RibTable" || !m.callsRib) &&
  -- a RIB operation installs its FIB changes through at most ONE call outside any loop (one inner
  -- critical section while the RIB mutex is still held); a FIB operation makes none
  m.fibCallsInLoop == 0 && (if m.typ == "RibTable" then m.fibCalls ≤ 1 else m.fibCalls == 0)

/-- the operations the property names must all be present in the table (a renamed or removed
    method would silently escape the check otherwise) -/
def requiredMethods : List (String × String) :=
  [("RibTable", "AddEncRoute"), ("RibTable", "RemoveRouteEnc"), ("RibTable", "CleanUpFace"), ("RibTable", "GetAllEntries")] ++
  (["FibStrategyTree", "FibStrategyHashTable"].flatMap fun t =>
    ["FindNextHopsEnc", "FindStrategyEnc", "InsertNextHopEnc", "ClearNextHopsEnc", "RemoveNextHopEnc",
     "ReplaceNextHopsEnc", "SetStrategyEnc", "UnSetStrategyEnc", "GetAllFIBEntries", "GetAllForwardingStrategies"].map fun n => (t, n))

/-- **Every exported operation of the three shared tables follows the lock discipline** in the
    current working tree (facts regenerated by harness/cmd/lockfacts on every run). -/
theorem tables_follow_lock_discipline :
    Ndn.Gen.C16.methods.all disciplinedFact = true ∧
    requiredMethods.all (fun p => Ndn.Gen.C16.methods.any fun m => m.typ == p.1 && m.name == p.2) = true := by
  decide

/-- lookups take the read lock, every mutator the write lock -/
theorem lookups_are_readers_mutators_are_writers :
    (Ndn.Gen.C16.methods.filter fun m => m.name == "FindNextHopsEnc" || m.name == "FindStrategyEnc").all (·.lock == "RLock") = true ∧
    (Ndn.Gen.C16.methods.filter fun m => m.sharedWrites != 0).all (·.lock == "Lock") = true := by
  decide

/-! ## The NLSR readvertiser: a third mutex, taken inside the RIB critical section

`NlsrReadvertiser.Announce/Withdraw` are called by the RIB while it holds its own mutex
(`two_lock_exclusion`: at most one thread at a time), so the readvertiser's mutex is never contended; what
matters is that no path leaves it locked (the next RIB operation would then block for ever *while holding the
RIB mutex*, wedging registrations, listings and face teardown), and that the calls keep NLSR's view right. -/

open Ndn.Gen.C16 in
/-- `Announce` and `Withdraw` take the readvertiser's mutex before touching the advertised counts, release
    it by a deferred unlock right after (no path can leave with it held: exactly these two lock operations),
    and never call back into the RIB / FIB (whose mutex the caller holds) -/
def rvDisciplinedFact (m : MethodFact) : Bool :=
  m.ptrRecv && m.lock == "Lock" && m.deferUnlock && m.lockOps == 2 && m.fibCalls == 0 && !m.callsRib && m.reentrant == 0

theorem readvertiser_follows_lock_discipline :
    Ndn.Gen.C16.readvertiser.all rvDisciplinedFact = true ∧
    ["Announce", "Withdraw"].all (fun n => Ndn.Gen.C16.readvertiser.any fun m => m.name == n) = true := by
  decide

/-- **One management command is one table operation.**  Every command handler of the management modules that
    touch the shared tables (rib/register, rib/unregister, fib/add-nexthop, fib/remove-nexthop,
    strategy-choice/set, /unset) makes at most ONE mutating call into the RIB / FIB-strategy table, outside any
    loop, and the dataset handlers make none (facts regenerated on every run).  A command implemented as two
    table operations - e.g. re-registration as remove + add - is two critical sections, and by
    `split_update_allows_torn_lookup` a lookup can see the state between them.

    Not counted: `table.Rib.CleanUpFace(x)` under `if face.FaceTable.Get(x) == nil` (at most one per handler, only
    in rib/register).  `FaceTable.Remove` deletes the face from the face table before it cleans the RIB, so a
    handler that finds its face gone after the insertion repeats that face's (idempotent) teardown clean-up: the
    state between the two calls is that of the order "command, teardown", not a torn one. -/
theorem one_command_is_one_table_operation :
    Ndn.Gen.C16.mgmtHandlers.all (fun m => m.fibCalls ≤ 1 && m.fibCallsInLoop == 0 && (m.name != "list" || m.fibCalls == 0)) = true ∧
    Ndn.Gen.C16.mgmtGuardedCleanups.all (fun c => c.1 == "RIBModule" && c.2.1 == "register" && c.2.2 ≤ 1) = true ∧
    [("RIBModule", "register"), ("RIBModule", "unregister"), ("FIBModule", "add"), ("FIBModule", "remove"),
     ("StrategyChoiceModule", "set"), ("StrategyChoiceModule", "unset")].all
      (fun p => Ndn.Gen.C16.mgmtHandlers.any fun m => m.typ == p.1 && m.name == p.2 && m.fibCalls == 1) = true := by
  decide

/-- what one call into the readvertiser does with its mutex -/
inductive RvPath | lockUnlock | lockLeak | noLock
deriving DecidableEq

/-- the calls made by successive RIB operations (serialized by the RIB mutex), starting with the
    readvertiser's mutex `held` or free; `none` = a call blocks for ever, its caller holding the RIB mutex -/
def runRvPaths : Bool → List RvPath → Option Bool
  | held, [] => some held
  | held, .noLock :: ps => runRvPaths held ps
  | true, .lockUnlock :: _ => none
  | true, .lockLeak :: _ => none
  | false, .lockUnlock :: ps => runRvPaths false ps
  | false, .lockLeak :: ps => runRvPaths true ps

/-- if no path leaks the mutex, no call ever blocks and the mutex is free after every operation -/
theorem disciplined_readvertiser_never_blocks (ps : List RvPath) (h : ∀ p ∈ ps, p ≠ RvPath.lockLeak) :
    runRvPaths false ps = some false := by
  induction ps with
  | nil => rfl
  | cons p ps ih =>
    have hp := h p (by simp)
    have ht := ih (fun q hq => h q (by simp [hq]))
    cases p with
    | lockUnlock => simpa [runRvPaths] using ht
    | lockLeak => exact absurd rfl hp
    | noLock => simpa [runRvPaths] using ht

/-- ... and one leaking path (an early `return` between Lock and Unlock) wedges the next call that locks -/
theorem leaked_readvertiser_mutex_deadlocks (ps qs : List RvPath) (h : ∀ p ∈ ps, p ≠ RvPath.lockLeak) :
    runRvPaths false (ps ++ RvPath.lockLeak :: RvPath.lockUnlock :: qs) = none := by
  induction ps with
  | nil => rfl
  | cons p ps ih =>
    have hp := h p (by simp)
    have ht := ih (fun q hq => h q (by simp [hq]))
    cases p with
    | lockUnlock => simpa [runRvPaths] using ht
    | lockLeak => exact absurd rfl hp
    | noLock => simpa [runRvPaths] using ht

/-- **The readvertiser keeps NLSR's view equal to the RIB**, for every history of RIB operations: the
    advertised count of a prefix is its number of client-origin routes, counts never go negative, and after
    the commands sent so far NLSR believes a prefix advertised iff the RIB holds a client route for it. -/
theorem nlsr_view_matches_rib (ops : List C06.Op) (n : Name) :
    let x := (({} : RR).runOps ops)
    x.rv.count n = (clientAt x.spec n : Int) ∧ (viewOf x.rv.log n = true ↔ 0 < clientAt x.spec n) := by
  have hi := rrInv_run ops {} rrInv_init
  refine ⟨hi.counts n, ?_⟩
  have := (hi.rv n).2
  rw [hi.counts n] at this
  simpa using this

-- non-vacuity: two faces register the same prefix (client origin), one leaves: still advertised, one
-- register command each, no unregister; then the other leaves: one unregister
example : let x := (({} : RR).runOps [.reg [⟨8, [97]⟩] ⟨5, 65, 1, 0⟩, .reg [⟨8, [97]⟩] ⟨6, 65, 1, 0⟩, .cleanup 5])
    x.rv.log = [(true, [⟨8, [97]⟩]), (true, [⟨8, [97]⟩])] ∧ x.rv.count [⟨8, [97]⟩] = 1 := by decide
example : let x := (({} : RR).runOps [.reg [⟨8, [97]⟩] ⟨5, 65, 1, 0⟩, .reg [⟨8, [97]⟩] ⟨6, 65, 1, 0⟩, .cleanup 5, .unreg [⟨8, [97]⟩] 6 65])
    x.rv.log = [(true, [⟨8, [97]⟩]), (true, [⟨8, [97]⟩]), (false, [⟨8, [97]⟩])] ∧ viewOf x.rv.log [⟨8, [97]⟩] = false := by decide

/-! ## Why the discipline is needed: an update split over two critical sections is observable -/

/-- a tiny instance: the shared state is one next-hop list; `0` = the RIB-style update performed as
    TWO operations (clear, then insert both hops), `1` = lookup -/
def tornBody : Nat → Body (List Nat) (List Nat) (List Nat)
  | 0 => ⟨.write, [], [fun l _ => (l, [])], fun _ => []⟩                      -- clear (own critical section)
  | 1 => ⟨.write, [], [fun l _ => (l, [5, 6])], fun _ => []⟩                  -- insert the new list
  | _ => ⟨.read, [], [fun _ s => (s, s)], fun l => l⟩                         -- lookup

/-- Sequentially the prefix holds `[5]` before the update and `[5, 6]` after it.  If the update is
    issued as two separate critical sections (operations `0` and `1`), then `clear · lookup · insert`
    is a legal order of critical sections — by `rwmutex_linearizable` a real execution can produce it
    — and the lookup returns `[]`, which is neither the state before nor the state after the
    update.  This is defect F-16c of the pinned tree (one ClearNextHopsEnc and one InsertNextHopEnc
    per hop, each under its own lock), repaired by installing the whole update in one critical
    section (ReplaceNextHopsEnc). -/
theorem split_update_allows_torn_lookup :
    (seqRun tornBody [5] [0, 2, 1]).2 = [[], [], []] ∧ (seqRun tornBody [5] [0, 2, 1]).1 = [5, 6] ∧
    ([] : List Nat) ≠ [5] ∧ ([] : List Nat) ≠ [5, 6] := by
  simp [seqRun, Body.atomic, runSteps, tornBody]

-- non-vacuity of the main theorem's hypothesis: a disciplined two-operation system
example : Disciplined tornBody := by
  intro op hm
  match op with
  | 0 => simp [tornBody] at hm
  | 1 => simp [tornBody] at hm
  | n + 2 => intro f hf l s; simp [tornBody] at hf; subst hf; rfl

/-! ## `rib/register` racing the teardown of the face it registers (F-16d) -/

/-- **A registration that races the teardown of its face leaves nothing behind.**  For any number of `rib/register`
    commands for a face (naming it in FaceId or registering their own incoming face), the teardown of that face, and
    EVERY interleaving of their table operations: once all of them have completed, RIB and FIB hold no route of the
    face — the outcome of the sequential order "commands, then teardown" (or of "teardown, then commands", which are
    all refused). -/
theorem register_racing_teardown_leaves_no_route (n : Nat) (explicit : Nat → Bool) (sched : List Teardown.Step)
    (hd : Teardown.Done (Teardown.run ⟨true, true⟩ explicit (Teardown.init n) sched)) :
    (Teardown.run ⟨true, true⟩ explicit (Teardown.init n) sched).routes = [] :=
  Teardown.done_no_routes _ (Teardown.inv_run explicit sched _ (Teardown.inv_init n)) hd

/-- the premise is satisfiable in a non-trivial way: two commands interleaved with the teardown, one route inserted
    after the face left the face table and removed by its own re-check, one removed by the teardown's clean-up -/
example :
    let sched := [Teardown.Step.c 0, .c 1, .c 1, .t, .c 0, .t, .c 0, .c 1]
    Teardown.Done (Teardown.run ⟨true, true⟩ (fun i => i == 0) (Teardown.init 2) sched) ∧
    (Teardown.run ⟨true, true⟩ (fun i => i == 0) (Teardown.init 2) [Teardown.Step.c 0, .c 1, .c 1, .t, .c 0]).routes = [0, 1] := by decide

/-- **Both facts are needed.**  Without the re-check after the insertion (the tree before F-16d) a command handled
    after the teardown — or one whose check passed just before it — leaves its route for good; and with the re-check
    but a teardown that cleaned the RIB BEFORE deleting the face from the face table, a command that runs between
    the two steps passes the re-check and its route stays. -/
theorem register_teardown_needs_both_facts :
    (∃ sched, Teardown.Done (Teardown.run ⟨false, true⟩ (fun _ => false) (Teardown.init 1) sched) ∧ (Teardown.run ⟨false, true⟩ (fun _ => false) (Teardown.init 1) sched).routes ≠ []) ∧
    (∃ sched, Teardown.Done (Teardown.run ⟨false, true⟩ (fun _ => true) (Teardown.init 1) sched) ∧ (Teardown.run ⟨false, true⟩ (fun _ => true) (Teardown.init 1) sched).routes ≠ []) ∧
    (∃ sched, Teardown.Done (Teardown.run ⟨true, false⟩ (fun _ => true) (Teardown.init 1) sched) ∧ (Teardown.run ⟨true, false⟩ (fun _ => true) (Teardown.init 1) sched).routes ≠ []) :=
  ⟨⟨[.t, .t, .c 0, .c 0, .c 0], by decide⟩, ⟨[.c 0, .t, .t, .c 0, .c 0], by decide⟩, ⟨[.t, .c 0, .c 0, .c 0, .t], by decide⟩⟩

/-- the working tree has both (facts regenerated by harness/cmd/lockfacts on every run): `FaceTable.Remove` deletes
    the face before it cleans the RIB, and `register` re-checks the face after its insertion, cleans up and returns
    when it is gone; that clean-up is the only second table call of any command handler
    (`one_command_is_one_table_operation`) -/
theorem register_teardown_model_matches_source :
    Ndn.Gen.C16.faceRemoveDeletesBeforeCleanup = true ∧ Ndn.Gen.C16.registerRechecksFace = true ∧
    Ndn.Gen.C16.mgmtGuardedCleanups = [("RIBModule", "register", 1)] := by decide

end Ndn.C16
