/-
  C16 — the lock structure the tables actually have: an OUTER mutex (the RIB's sync.Mutex) guarding
  state σ1 and an INNER reader/writer mutex (the FIB's sync.RWMutex) guarding state σ2.
    * an outer operation (route registration / removal / face clean-up / RIB listing) takes the outer
      mutex, works on σ1, and — if it has FIB changes — takes the inner mutex in write mode for ONE
      critical section on σ2 (ReplaceNextHopsEnc) before it releases the outer mutex;
    * an inner operation (lookup, listing, direct FIB / strategy command) takes only the inner mutex.
  Lock order outer → inner, never the reverse.  Core Lean only.
-/
import NdnVerif.C16.Conc
namespace Ndn.C16.Two
open Ndn.C16

inductive Kind
  | outer (usesInner : Bool)
  | inner (m : Mode)
deriving DecidableEq, Repr

structure Body2 (σ1 σ2 L Res : Type) where
  kind : Kind
  init : L
  steps1 : List (L → σ1 → L × σ1)   -- micro-steps under the outer mutex
  steps2 : List (L → σ2 → L × σ2)   -- micro-steps under the inner mutex
  result : L → Res

variable {σ1 σ2 L Res Op : Type}

/-- atomic semantics: phase 1 on σ1, then phase 2 on σ2, all at once -/
def Body2.atomic (b : Body2 σ1 σ2 L Res) (s : σ1 × σ2) : (σ1 × σ2) × Res :=
  ((( runSteps b.steps1 b.init s.1).2, (runSteps b.steps2 (runSteps b.steps1 b.init s.1).1 s.2).2),
   b.result (runSteps b.steps2 (runSteps b.steps1 b.init s.1).1 s.2).1)

/-- shape discipline: an inner operation never touches σ1, a read-lock holder never writes σ2, an outer
    operation without FIB changes never touches σ2 -/
structure WF (body : Op → Body2 σ1 σ2 L Res) : Prop where
  inner_no1 : ∀ op m, (body op).kind = .inner m → (body op).steps1 = []
  read_ro : ∀ op, (body op).kind = .inner .read → ∀ f ∈ (body op).steps2, ∀ l s, (f l s).2 = s
  outer_no2 : ∀ op, (body op).kind = .outer false → (body op).steps2 = []

inductive St (σ1 σ2 L Res Op : Type)
  | idle
  | waiting (op : Op)
  | p1 (op : Op) (l : L) (rest : List (L → σ1 → L × σ1))   -- holds the outer mutex, phase 1
  | mid (op : Op) (l : L)                                    -- holds the outer mutex, waits for the inner one
  | p2 (op : Op) (l : L) (rest : List (L → σ2 → L × σ2))   -- holds both (inner in write mode)
  | post (op : Op) (r : Res)                                 -- inner released (logged), outer still held
  | inn (op : Op) (l : L) (rest : List (L → σ2 → L × σ2))  -- inner operation inside the inner mutex
  | finished (op : Op) (r : Res)

def holdsM1 : St σ1 σ2 L Res Op → Bool
  | .p1 .. | .mid .. | .p2 .. | .post .. => true
  | _ => false

def holdsM2 : St σ1 σ2 L Res Op → Bool
  | .p2 .. | .inn .. => true
  | _ => false

def holdsM2w (body : Op → Body2 σ1 σ2 L Res) : St σ1 σ2 L Res Op → Bool
  | .p2 .. => true
  | .inn op _ _ => (body op).kind == .inner .write
  | _ => false

structure Conf2 (σ1 σ2 L Res Op : Type) where
  s1 : σ1
  s2 : σ2
  th : Nat → St σ1 σ2 L Res Op
  log : List (Op × Res)

inductive Ev2 (Op : Type)
  | inv (t : Nat) (op : Op) | acq1 (t : Nat) | micro1 (t : Nat) | end1 (t : Nat) | acq2 (t : Nat)
  | micro2 (t : Nat) | rel2 (t : Nat) | rel1 (t : Nat) | acqI (t : Nat) | microI (t : Nat) | relI (t : Nat)
  | ret (t : Nat)

inductive Step2 (body : Op → Body2 σ1 σ2 L Res) :
    Conf2 σ1 σ2 L Res Op → Ev2 Op → Conf2 σ1 σ2 L Res Op → Prop
  | inv {c t op} : c.th t = .idle → Step2 body c (.inv t op) { c with th := upd c.th t (.waiting op) }
  | acq1 {c t op u} : c.th t = .waiting op → (body op).kind = .outer u → (∀ t', holdsM1 (c.th t') = false) →
      Step2 body c (.acq1 t) { c with th := upd c.th t (.p1 op (body op).init (body op).steps1) }
  | micro1 {c t op l f rest} : c.th t = .p1 op l (f :: rest) →
      Step2 body c (.micro1 t) { c with s1 := (f l c.s1).2, th := upd c.th t (.p1 op (f l c.s1).1 rest) }
  | end1a {c t op l} : c.th t = .p1 op l [] → (body op).kind = .outer true →
      Step2 body c (.end1 t) { c with th := upd c.th t (.mid op l) }
  | end1b {c t op l} : c.th t = .p1 op l [] → (body op).kind = .outer false →
      Step2 body c (.end1 t) { c with th := upd c.th t (.finished op ((body op).result l)),
                                      log := c.log ++ [(op, (body op).result l)] }
  | acq2 {c t op l} : c.th t = .mid op l → (∀ t', holdsM2 (c.th t') = false) →
      Step2 body c (.acq2 t) { c with th := upd c.th t (.p2 op l (body op).steps2) }
  | micro2 {c t op l f rest} : c.th t = .p2 op l (f :: rest) →
      Step2 body c (.micro2 t) { c with s2 := (f l c.s2).2, th := upd c.th t (.p2 op (f l c.s2).1 rest) }
  | rel2 {c t op l} : c.th t = .p2 op l [] →
      Step2 body c (.rel2 t) { c with th := upd c.th t (.post op ((body op).result l)),
                                      log := c.log ++ [(op, (body op).result l)] }
  | rel1 {c t op r} : c.th t = .post op r →
      Step2 body c (.rel1 t) { c with th := upd c.th t (.finished op r) }
  | acqIw {c t op} : c.th t = .waiting op → (body op).kind = .inner .write → (∀ t', holdsM2 (c.th t') = false) →
      Step2 body c (.acqI t) { c with th := upd c.th t (.inn op (body op).init (body op).steps2) }
  | acqIr {c t op} : c.th t = .waiting op → (body op).kind = .inner .read → (∀ t', holdsM2w body (c.th t') = false) →
      Step2 body c (.acqI t) { c with th := upd c.th t (.inn op (body op).init (body op).steps2) }
  | microI {c t op l f rest} : c.th t = .inn op l (f :: rest) →
      Step2 body c (.microI t) { c with s2 := (f l c.s2).2, th := upd c.th t (.inn op (f l c.s2).1 rest) }
  | relI {c t op l} : c.th t = .inn op l [] →
      Step2 body c (.relI t) { c with th := upd c.th t (.finished op ((body op).result l)),
                                      log := c.log ++ [(op, (body op).result l)] }
  | ret {c t op r} : c.th t = .finished op r → Step2 body c (.ret t) { c with th := upd c.th t .idle }

inductive Exec2 (body : Op → Body2 σ1 σ2 L Res) :
    Conf2 σ1 σ2 L Res Op → List (Ev2 Op) → Conf2 σ1 σ2 L Res Op → Prop
  | nil {c} : Exec2 body c [] c
  | snoc {c evs c' e c''} : Exec2 body c evs c' → Step2 body c' e c'' → Exec2 body c (evs ++ [e]) c''

def init2 (a : σ1) (b : σ2) : Conf2 σ1 σ2 L Res Op := ⟨a, b, fun _ => .idle, []⟩

def seqRun2 (body : Op → Body2 σ1 σ2 L Res) : σ1 × σ2 → List Op → (σ1 × σ2) × List Res
  | s, [] => (s, [])
  | s, op :: ops =>
    let r := (body op).atomic s
    let rs := seqRun2 body r.1 ops
    (rs.1, r.2 :: rs.2)

end Ndn.C16.Two
