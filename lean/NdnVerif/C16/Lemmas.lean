import NdnVerif.C16.Conc
namespace Ndn.C16

variable {σ L Res Op : Type}

theorem runSteps_append (a b : List (L → σ → L × σ)) (l : L) (s : σ) :
    runSteps (a ++ b) l s = runSteps b (runSteps a l s).1 (runSteps a l s).2 := by
  induction a generalizing l s with
  | nil => simp [runSteps]
  | cons f fs ih => simp only [List.cons_append, runSteps]; exact ih _ _

theorem runSteps_readonly (fs : List (L → σ → L × σ)) (h : ∀ f ∈ fs, ∀ l s, (f l s).2 = s) (l : L) (s : σ) :
    (runSteps fs l s).2 = s := by
  induction fs generalizing l with
  | nil => simp [runSteps]
  | cons f fs ih =>
    simp only [runSteps]
    have hf := h f (by simp) l s
    have := ih (fun g hg => h g (by simp [hg])) (f l s).1
    rw [show (f l s) = ((f l s).1, (f l s).2) from rfl] 
    simp only [hf]; exact this

theorem seqRun_append (body : Op → Body σ L Res) (s : σ) (a b : List Op) :
    seqRun body s (a ++ b) =
      ((seqRun body (seqRun body s a).1 b).1, (seqRun body s a).2 ++ (seqRun body (seqRun body s a).1 b).2) := by
  induction a generalizing s with
  | nil => simp [seqRun]
  | cons op ops ih =>
    simp only [List.cons_append, seqRun]
    rw [ih]

/-- the state the tables would have after replaying the log sequentially -/
def base (body : Op → Body σ L Res) (s0 : σ) (c : Conf σ L Res Op) : σ :=
  (seqRun body s0 (c.log.map (·.1))).1

/-- The invariant of every reachable configuration. -/
structure Inv (body : Op → Body σ L Res) (s0 : σ) (c : Conf σ L Res Op) : Prop where
  /-- replaying the log sequentially yields exactly the logged results -/
  results : (seqRun body s0 (c.log.map (·.1))).2 = c.log.map (·.2)
  /-- every thread inside its critical section has executed a prefix of its body on `base` -/
  runok : ∀ t op l rest ti, c.th t = .running op l rest ti →
    ∃ done, (body op).steps = done ++ rest ∧ runSteps done (body op).init (base body s0 c) = (l, c.shared)
  /-- with no writer inside, the shared state is the sequential state -/
  nowriter : (∀ t, isRunningWrite body (c.th t) = false) → c.shared = base body s0 c
  /-- a writer inside excludes everybody else -/
  excl : ∀ t, isRunningWrite body (c.th t) = true → ∀ t', t' ≠ t → isRunning (c.th t') = false

theorem inv_init (body : Op → Body σ L Res) (s0 : σ) : Inv body s0 (initConf s0) := by
  refine ⟨by simp [initConf, seqRun], ?_, ?_, ?_⟩
  · intro t op l rest ti h; simp [initConf] at h
  · intro _; simp [initConf, base, seqRun]
  · intro t h; simp [initConf, isRunningWrite] at h

theorem upd_same {α : Type} (f : Nat → α) (t : Nat) (a : α) : upd f t a t = a := by simp [upd]
theorem upd_other {α : Type} (f : Nat → α) (t t' : Nat) (a : α) (h : t' ≠ t) : upd f t a t' = f t' := by
  simp [upd, h]

theorem isRunning_of_write (body : Op → Body σ L Res) (st : Status σ L Res Op)
    (h : isRunningWrite body st = true) : isRunning st = true := by
  cases st <;> simp_all [isRunningWrite, isRunning]

theorem inv_step (body : Op → Body σ L Res) (hd : Disciplined body) (s0 : σ)
    {c c' : Conf σ L Res Op} {e : Ev Op} (hi : Inv body s0 c) (hs : Step body c e c') : Inv body s0 c' := by
  cases hs with
  | @inv t op hidle =>
    refine ⟨hi.results, ?_, ?_, ?_⟩
    · intro t' op' l rest ti' h
      by_cases e : t' = t
      · subst e; simp [upd] at h
      · simp only [upd, e, if_false] at h
        exact hi.runok t' op' l rest ti' h
    · intro hnw
      apply hi.nowriter
      intro t'
      by_cases e : t' = t
      · subst e; simp [hidle, isRunningWrite]
      · have := hnw t'; simpa [upd, e] using this
    · intro t' hw t'' hne
      by_cases e : t' = t
      · subst e; simp [upd, isRunningWrite] at hw
      · simp only [upd, e, if_false] at hw
        by_cases e2 : t'' = t
        · subst e2; simp [upd, isRunning]
        · simp only [upd, e2, if_false]; exact hi.excl t' hw t'' hne
  | @acqW t op ti hwait hmode hnone =>
    have hnw : ∀ t', isRunningWrite body (c.th t') = false := by
      intro t'
      cases h : isRunningWrite body (c.th t') with
      | false => rfl
      | true => have := isRunning_of_write body _ h; rw [hnone t'] at this; simp at this
    have hsh := hi.nowriter hnw
    refine ⟨hi.results, ?_, ?_, ?_⟩
    · intro t' op' l rest ti' h
      by_cases e : t' = t
      · subst e
        simp only [upd, if_true] at h
        cases h
        exact ⟨[], by simp, by simp [runSteps, base] at hsh ⊢; exact hsh.symm ▸ rfl⟩
      · simp only [upd, e, if_false] at h
        have := hnone t'; rw [h] at this; simp [isRunning] at this
    · intro hnw'
      have := hnw' t
      simp [upd, isRunningWrite, hmode] at this
    · intro t' hw t'' hne
      by_cases e : t' = t
      · subst e
        by_cases e2 : t'' = t'
        · exact absurd e2 hne
        · simp only [upd, e2, if_false]; exact hnone t''
      · simp only [upd, e, if_false] at hw
        rw [hnw t'] at hw; simp at hw
  | @acqR t op ti hwait hmode hnw =>
    have hsh := hi.nowriter hnw
    refine ⟨hi.results, ?_, ?_, ?_⟩
    · intro t' op' l rest ti' h
      by_cases e : t' = t
      · subst e
        simp only [upd, if_true] at h
        cases h
        exact ⟨[], by simp, by simp [runSteps, base] at hsh ⊢; exact hsh.symm ▸ rfl⟩
      · simp only [upd, e, if_false] at h
        exact hi.runok t' op' l rest ti' h
    · intro _; exact hsh
    · intro t' hw t'' hne
      by_cases e : t' = t
      · subst e; simp [upd, isRunningWrite, hmode] at hw
      · simp only [upd, e, if_false] at hw
        rw [hnw t'] at hw; simp at hw
  | @micro t op l f rest ti hrun =>
    obtain ⟨done, hsteps, hdone⟩ := hi.runok t op l (f :: rest) ti hrun
    by_cases hm : (body op).mode = .write
    · -- a writer: alone inside
      have hw : isRunningWrite body (c.th t) = true := by simp [hrun, isRunningWrite, hm]
      have hex := hi.excl t hw
      refine ⟨hi.results, ?_, ?_, ?_⟩
      · intro t' op' l' rest' ti' h
        by_cases e : t' = t
        · subst e
          simp only [upd, if_true] at h
          cases h
          refine ⟨done ++ [f], by simp [hsteps], ?_⟩
          simp only [base] at hdone ⊢
          rw [runSteps_append, hdone]
          simp [runSteps]
        · simp only [upd, e, if_false] at h
          have := hex t' e; rw [h] at this; simp [isRunning] at this
      · intro hnw'
        have := hnw' t
        simp [upd, isRunningWrite, hm] at this
      · intro t' hw' t'' hne
        by_cases e : t' = t
        · subst e
          by_cases e2 : t'' = t'
          · exact absurd e2 hne
          · simp only [upd, e2, if_false]; exact hex t'' e2
        · simp only [upd, e, if_false] at hw'
          have := hex t' e
          have h2 := isRunning_of_write body _ hw'
          rw [this] at h2; simp at h2
    · -- a reader: the shared state does not change
      have hmr : (body op).mode = .read := by
        cases h : (body op).mode with
        | write => exact absurd h hm
        | read => rfl
      have hro := hd op hmr
      have hf : f ∈ (body op).steps := by rw [hsteps]; simp
      have hnw : ∀ t', isRunningWrite body (c.th t') = false := by
        intro t'
        cases h : isRunningWrite body (c.th t') with
        | false => rfl
        | true =>
          by_cases e : t' = t
          · subst e; simp [hrun, isRunningWrite, hmr] at h
          · have := hi.excl t' h t (fun e' => e e'.symm)
            rw [hrun] at this; simp [isRunning] at this
      have hsh := hi.nowriter hnw
      have hkeep : (f l c.shared).2 = c.shared := hro f hf l c.shared
      refine ⟨hi.results, ?_, ?_, ?_⟩
      · intro t' op' l' rest' ti' h
        by_cases e : t' = t
        · subst e
          simp only [upd, if_true] at h
          cases h
          refine ⟨done ++ [f], by simp [hsteps], ?_⟩
          simp only [base] at hdone ⊢
          rw [runSteps_append, hdone]
          simp [runSteps]
        · simp only [upd, e, if_false] at h
          obtain ⟨d', hs', hd'⟩ := hi.runok t' op' l' rest' ti' h
          exact ⟨d', hs', by simp only [hkeep]; exact hd'⟩
      · intro _; simp only [hkeep]; exact hsh
      · intro t' hw' t'' hne
        by_cases e : t' = t
        · subst e; simp [upd, isRunningWrite, hmr] at hw'
        · simp only [upd, e, if_false] at hw'
          rw [hnw t'] at hw'; simp at hw'
  | @rel t op l ti hrun =>
    obtain ⟨done, hsteps, hdone⟩ := hi.runok t op l [] ti hrun
    have hsteps' : (body op).steps = done := by simpa using hsteps
    have hat : (body op).atomic (base body s0 c) = (c.shared, (body op).result l) := by
      simp only [Body.atomic, hsteps', hdone]
    have hbase' : base body s0 { c with th := upd c.th t (.finished op ((body op).result l) ti c.clock),
                                        log := c.log ++ [(op, (body op).result l)],
                                        logt := c.logt ++ [c.clock],
                                        clock := c.clock + 1 } = c.shared := by
      simp only [base, List.map_append, List.map_cons, List.map_nil, seqRun_append, seqRun]
      have : (body op).atomic (seqRun body s0 (c.log.map (·.1))).1 = (c.shared, (body op).result l) := hat
      simp [this]
    refine ⟨?_, ?_, ?_, ?_⟩
    · simp only [List.map_append, List.map_cons, List.map_nil, seqRun_append, seqRun]
      have : (body op).atomic (seqRun body s0 (c.log.map (·.1))).1 = (c.shared, (body op).result l) := hat
      simp [this, hi.results]
    · intro t' op' l' rest' ti' h
      by_cases e : t' = t
      · subst e; simp [upd] at h
      · simp only [upd, e, if_false] at h
        rw [hbase']
        obtain ⟨d', hs', hd'⟩ := hi.runok t' op' l' rest' ti' h
        refine ⟨d', hs', ?_⟩
        -- t' is running together with t, so t is a reader and the state did not move
        by_cases hm : (body op).mode = .write
        · have hw : isRunningWrite body (c.th t) = true := by simp [hrun, isRunningWrite, hm]
          have := hi.excl t hw t' e; rw [h] at this; simp [isRunning] at this
        · have hmr : (body op).mode = .read := by
            cases hh : (body op).mode with
            | write => exact absurd hh hm
            | read => rfl
          have hro := hd op hmr
          have : c.shared = base body s0 c := by
            have h2 := runSteps_readonly (body op).steps hro (body op).init (base body s0 c)
            rw [hsteps', hdone] at h2; exact h2
          rw [← this] at hd'; exact hd'
    · intro _; exact hbase'.symm
    · intro t' hw' t'' hne
      by_cases e : t' = t
      · subst e; simp [upd, isRunningWrite] at hw'
      · simp only [upd, e, if_false] at hw'
        by_cases e2 : t'' = t
        · subst e2; simp [upd, isRunning]
        · simp only [upd, e2, if_false]; exact hi.excl t' hw' t'' hne
  | @ret t op r ti tr hfin =>
    refine ⟨hi.results, ?_, ?_, ?_⟩
    · intro t' op' l rest ti' h
      by_cases e : t' = t
      · subst e; simp [upd] at h
      · simp only [upd, e, if_false] at h
        exact hi.runok t' op' l rest ti' h
    · intro hnw
      apply hi.nowriter
      intro t'
      by_cases e : t' = t
      · subst e; simp [hfin, isRunningWrite]
      · have := hnw t'; simpa [upd, e] using this
    · intro t' hw t'' hne
      by_cases e : t' = t
      · subst e; simp [upd, isRunningWrite] at hw
      · simp only [upd, e, if_false] at hw
        by_cases e2 : t'' = t
        · subst e2; simp [upd, isRunning]
        · simp only [upd, e2, if_false]; exact hi.excl t' hw t'' hne

theorem inv_exec (body : Op → Body σ L Res) (hd : Disciplined body) (s0 : σ)
    {c : Conf σ L Res Op} {evs : List (Ev Op)} (h : Exec body (initConf s0) evs c) : Inv body s0 c := by
  generalize hc0 : initConf s0 = c0 at h
  induction h with
  | nil => rw [← hc0]; exact inv_init body s0
  | snoc _ hstep ih => exact inv_step body hd s0 ih hstep

end Ndn.C16
