/-
  C16 — concurrency model: operations whose bodies are sequences of micro-steps on a shared state,
  executed by any number of threads under a reader/writer mutex (sync.RWMutex), and the atomic
  (sequential) semantics they are supposed to be equivalent to.  Core Lean only.

  σ  shared state (the tables)            L  per-operation local state (what the body has read so far)
  A disciplined operation = acquire (Lock or RLock) · micro-steps · release · return.
  A read-only body never changes the shared state (`Body.readonly`).
-/
namespace Ndn.C16

inductive Mode | write | read
deriving DecidableEq, Repr

/-- The body of one table operation: micro-steps reading/writing the shared state and a local
    accumulator, and the value returned to the caller. -/
structure Body (σ L Res : Type) where
  mode : Mode
  init : L
  steps : List (L → σ → L × σ)
  result : L → Res

/-- run micro-steps sequentially -/
def runSteps {σ L : Type} : List (L → σ → L × σ) → L → σ → L × σ
  | [], l, s => (l, s)
  | f :: fs, l, s => let (l', s') := f l s; runSteps fs l' s'

/-- atomic semantics of a body: all micro-steps at once -/
def Body.atomic {σ L Res : Type} (b : Body σ L Res) (s : σ) : σ × Res :=
  let (l, s') := runSteps b.steps b.init s
  (s', b.result l)

/-- a body takes the read lock only if none of its micro-steps changes the shared state -/
def Body.readonly {σ L Res : Type} (b : Body σ L Res) : Prop :=
  ∀ f ∈ b.steps, ∀ l s, (f l s).2 = s

/-- every operation takes the write lock unless it is read-only -/
def Disciplined {σ L Res Op : Type} (body : Op → Body σ L Res) : Prop :=
  ∀ op, (body op).mode = .read → (body op).readonly

inductive Status (σ L Res Op : Type)
  | idle
  | waiting (op : Op) (ti : Nat)                                        -- invoked at time ti, lock not yet held
  | running (op : Op) (l : L) (rest : List (L → σ → L × σ)) (ti : Nat) -- inside the critical section
  | finished (op : Op) (r : Res) (ti tr : Nat)                          -- released at time tr, not yet returned

inductive Ev (Op : Type)
  | inv (t : Nat) (op : Op)
  | acq (t : Nat)
  | micro (t : Nat)
  | rel (t : Nat)
  | ret (t : Nat)
deriving Repr

/-- a returned operation with the times of its invocation, release (linearization point) and return -/
structure Done (Res Op : Type) where
  thread : Nat
  op : Op
  res : Res
  tinv : Nat
  trel : Nat
  tret : Nat

structure Conf (σ L Res Op : Type) where
  shared : σ
  th : Nat → Status σ L Res Op
  log : List (Op × Res)          -- completed critical sections, in release order
  logt : List Nat                -- their release times (same length as `log`)
  hist : List (Done Res Op)      -- returned operations, in return order
  clock : Nat                    -- number of events so far

def upd {α : Type} (f : Nat → α) (t : Nat) (a : α) : Nat → α := fun t' => if t' = t then a else f t'

def isRunning {σ L Res Op : Type} : Status σ L Res Op → Bool
  | .running .. => true
  | _ => false

def isRunningWrite {σ L Res Op : Type} (body : Op → Body σ L Res) : Status σ L Res Op → Bool
  | .running op _ _ _ => (body op).mode == .write
  | _ => false

/-- One event of the concurrent system.  `acq` is enabled only when the RWMutex allows it:
    a writer needs nobody inside, a reader needs no writer inside. -/
inductive Step {σ L Res Op : Type} (body : Op → Body σ L Res) :
    Conf σ L Res Op → Ev Op → Conf σ L Res Op → Prop
  | inv {c t op} : c.th t = .idle →
      Step body c (.inv t op) { c with th := upd c.th t (.waiting op c.clock), clock := c.clock + 1 }
  | acqW {c t op ti} : c.th t = .waiting op ti → (body op).mode = .write → (∀ t', isRunning (c.th t') = false) →
      Step body c (.acq t) { c with th := upd c.th t (.running op (body op).init (body op).steps ti),
                                    clock := c.clock + 1 }
  | acqR {c t op ti} : c.th t = .waiting op ti → (body op).mode = .read →
      (∀ t', isRunningWrite body (c.th t') = false) →
      Step body c (.acq t) { c with th := upd c.th t (.running op (body op).init (body op).steps ti),
                                    clock := c.clock + 1 }
  | micro {c t op l f rest ti} : c.th t = .running op l (f :: rest) ti →
      Step body c (.micro t) { c with shared := (f l c.shared).2,
                                      th := upd c.th t (.running op (f l c.shared).1 rest ti),
                                      clock := c.clock + 1 }
  | rel {c t op l ti} : c.th t = .running op l [] ti →
      Step body c (.rel t) { c with th := upd c.th t (.finished op ((body op).result l) ti c.clock),
                                    log := c.log ++ [(op, (body op).result l)],
                                    logt := c.logt ++ [c.clock],
                                    clock := c.clock + 1 }
  | ret {c t op r ti tr} : c.th t = .finished op r ti tr →
      Step body c (.ret t) { c with th := upd c.th t .idle,
                                    hist := c.hist ++ [⟨t, op, r, ti, tr, c.clock⟩],
                                    clock := c.clock + 1 }

/-- executions: finite sequences of events from a configuration -/
inductive Exec {σ L Res Op : Type} (body : Op → Body σ L Res) :
    Conf σ L Res Op → List (Ev Op) → Conf σ L Res Op → Prop
  | nil {c} : Exec body c [] c
  | snoc {c evs c' e c''} : Exec body c evs c' → Step body c' e c'' → Exec body c (evs ++ [e]) c''

def initConf {σ L Res Op : Type} (s : σ) : Conf σ L Res Op := ⟨s, fun _ => .idle, [], [], [], 0⟩

/-- sequential replay of a list of operations with the atomic semantics -/
def seqRun {σ L Res Op : Type} (body : Op → Body σ L Res) : σ → List Op → σ × List Res
  | s, [] => (s, [])
  | s, op :: ops =>
    let (s', r) := (body op).atomic s
    let (s'', rs) := seqRun body s' ops
    (s'', r :: rs)

end Ndn.C16
