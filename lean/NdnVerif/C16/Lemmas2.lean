import NdnVerif.C16.Conc2
import NdnVerif.C16.Lemmas
namespace Ndn.C16.Two
open Ndn.C16

variable {σ1 σ2 L Res Op : Type}

def dirty1 : St σ1 σ2 L Res Op → Bool
  | .p1 .. | .mid .. | .p2 .. => true
  | _ => false

theorem seqRun2_append (body : Op → Body2 σ1 σ2 L Res) (s : σ1 × σ2) (a b : List Op) :
    seqRun2 body s (a ++ b) =
      ((seqRun2 body (seqRun2 body s a).1 b).1, (seqRun2 body s a).2 ++ (seqRun2 body (seqRun2 body s a).1 b).2) := by
  induction a generalizing s with
  | nil => simp [seqRun2]
  | cons op ops ih => simp only [List.cons_append, seqRun2]; rw [ih]

def base2 (body : Op → Body2 σ1 σ2 L Res) (s0 : σ1 × σ2) (c : Conf2 σ1 σ2 L Res Op) : σ1 × σ2 :=
  (seqRun2 body s0 (c.log.map (·.1))).1

structure Inv2 (body : Op → Body2 σ1 σ2 L Res) (s0 : σ1 × σ2) (c : Conf2 σ1 σ2 L Res Op) : Prop where
  res : (seqRun2 body s0 (c.log.map (·.1))).2 = c.log.map (·.2)
  m1excl : ∀ t t', holdsM1 (c.th t) = true → holdsM1 (c.th t') = true → t = t'
  m2excl : ∀ t, holdsM2w body (c.th t) = true → ∀ t', t' ≠ t → holdsM2 (c.th t') = false
  s1free : (∀ t, dirty1 (c.th t) = false) → c.s1 = (base2 body s0 c).1
  s2free : (∀ t, holdsM2w body (c.th t) = false) → c.s2 = (base2 body s0 c).2
  p1ok : ∀ t op l rest, c.th t = .p1 op l rest →
    ∃ done, (body op).steps1 = done ++ rest ∧ runSteps done (body op).init (base2 body s0 c).1 = (l, c.s1)
  midok : ∀ t op l, c.th t = .mid op l → runSteps (body op).steps1 (body op).init (base2 body s0 c).1 = (l, c.s1)
  p2ok : ∀ t op l rest, c.th t = .p2 op l rest →
    ∃ done l1, (body op).steps2 = done ++ rest ∧
      runSteps (body op).steps1 (body op).init (base2 body s0 c).1 = (l1, c.s1) ∧
      runSteps done l1 (base2 body s0 c).2 = (l, c.s2)
  innok : ∀ t op l rest, c.th t = .inn op l rest →
    (∃ m, (body op).kind = .inner m) ∧
    ∃ done, (body op).steps2 = done ++ rest ∧ runSteps done (body op).init (base2 body s0 c).2 = (l, c.s2)

theorem inv2_init (body : Op → Body2 σ1 σ2 L Res) (a : σ1) (b : σ2) : Inv2 body (a, b) (init2 a b) := by
  refine ⟨by simp [init2, seqRun2], ?_, ?_, ?_, ?_, ?_, ?_, ?_, ?_⟩
  · intro t t' h; simp [init2, holdsM1] at h
  · intro t h; simp [init2, holdsM2w] at h
  · intro _; simp [init2, base2, seqRun2]
  · intro _; simp [init2, base2, seqRun2]
  · intro t op l rest h; simp [init2] at h
  · intro t op l h; simp [init2] at h
  · intro t op l rest h; simp [init2] at h
  · intro t op l rest h; simp [init2] at h

theorem holdsM2_of_w (body : Op → Body2 σ1 σ2 L Res) (st : St σ1 σ2 L Res Op)
    (h : holdsM2w body st = true) : holdsM2 st = true := by
  cases st <;> simp_all [holdsM2w, holdsM2]

theorem holdsM1_of_dirty (st : St σ1 σ2 L Res Op) (h : dirty1 st = true) : holdsM1 st = true := by
  cases st <;> simp_all [dirty1, holdsM1]

/-- a status change of thread `t` that keeps shared state and log, between two statuses that hold no
    lock and are not inside any phase -/
theorem inv2_passive (body : Op → Body2 σ1 σ2 L Res) (s0 : σ1 × σ2) (c : Conf2 σ1 σ2 L Res Op) (t : Nat)
    (new : St σ1 σ2 L Res Op) (hi : Inv2 body s0 c)
    (hold1 : holdsM1 (c.th t) = false) (hold2 : holdsM2 (c.th t) = false)
    (hnew1 : holdsM1 new = false) (hnew2 : holdsM2 new = false) :
    Inv2 body s0 { c with th := upd c.th t new } := by
  have hnw : holdsM2w body new = false := by
    cases h : holdsM2w body new with
    | false => rfl
    | true => have := holdsM2_of_w body _ h; rw [hnew2] at this; simp at this
  have hnd : dirty1 new = false := by
    cases h : dirty1 new with
    | false => rfl
    | true => have := holdsM1_of_dirty _ h; rw [hnew1] at this; simp at this
  have hod : dirty1 (c.th t) = false := by
    cases h : dirty1 (c.th t) with
    | false => rfl
    | true => have := holdsM1_of_dirty _ h; rw [hold1] at this; simp at this
  have how : holdsM2w body (c.th t) = false := by
    cases h : holdsM2w body (c.th t) with
    | false => rfl
    | true => have := holdsM2_of_w body _ h; rw [hold2] at this; simp at this
  refine ⟨hi.res, ?_, ?_, ?_, ?_, ?_, ?_, ?_, ?_⟩
  · intro a b ha hb
    by_cases ea : a = t
    · subst ea; simp [upd, hnew1] at ha
    · by_cases eb : b = t
      · subst eb; simp [upd, hnew1] at hb
      · simp only [upd, ea, eb, if_false] at ha hb; exact hi.m1excl a b ha hb
  · intro a ha b hb
    by_cases ea : a = t
    · subst ea; simp [upd, hnw] at ha
    · simp only [upd, ea, if_false] at ha
      by_cases eb : b = t
      · subst eb; simp [upd, hnew2]
      · simp only [upd, eb, if_false]; exact hi.m2excl a ha b hb
  · intro h
    apply hi.s1free
    intro a
    by_cases ea : a = t
    · subst ea; exact hod
    · have := h a; simpa [upd, ea] using this
  · intro h
    apply hi.s2free
    intro a
    by_cases ea : a = t
    · subst ea; exact how
    · have := h a; simpa [upd, ea] using this
  · intro a op l rest h
    by_cases ea : a = t
    · subst ea; simp only [upd, if_true] at h; rw [h] at hnew1; simp [holdsM1] at hnew1
    · simp only [upd, ea, if_false] at h; exact hi.p1ok a op l rest h
  · intro a op l h
    by_cases ea : a = t
    · subst ea; simp only [upd, if_true] at h; rw [h] at hnew1; simp [holdsM1] at hnew1
    · simp only [upd, ea, if_false] at h; exact hi.midok a op l h
  · intro a op l rest h
    by_cases ea : a = t
    · subst ea; simp only [upd, if_true] at h; rw [h] at hnew1; simp [holdsM1] at hnew1
    · simp only [upd, ea, if_false] at h; exact hi.p2ok a op l rest h
  · intro a op l rest h
    by_cases ea : a = t
    · subst ea; simp only [upd, if_true] at h; rw [h] at hnew2; simp [holdsM2] at hnew2
    · simp only [upd, ea, if_false] at h; exact hi.innok a op l rest h

end Ndn.C16.Two

namespace Ndn.C16.Two
open Ndn.C16
variable {σ1 σ2 L Res Op : Type}

theorem not_dirty_of_not_m1 (st : St σ1 σ2 L Res Op) (h : holdsM1 st = false) : dirty1 st = false := by
  cases h' : dirty1 st with
  | false => rfl
  | true => have := holdsM1_of_dirty _ h'; rw [h] at this; simp at this

theorem not_w_of_not_m2 (body : Op → Body2 σ1 σ2 L Res) (st : St σ1 σ2 L Res Op) (h : holdsM2 st = false) :
    holdsM2w body st = false := by
  cases h' : holdsM2w body st with
  | false => rfl
  | true => have := holdsM2_of_w body _ h'; rw [h] at this; simp at this

/-- one step preserves the invariant -/
theorem inv2_step (body : Op → Body2 σ1 σ2 L Res) (wf : WF body) (s0 : σ1 × σ2)
    {c c' : Conf2 σ1 σ2 L Res Op} {e : Ev2 Op} (hi : Inv2 body s0 c) (hs : Step2 body c e c') :
    Inv2 body s0 c' := by
  cases hs with
  | @inv t op hidle =>
    exact inv2_passive body s0 c t _ hi (by simp [hidle, holdsM1]) (by simp [hidle, holdsM2]) (by simp [holdsM1]) (by simp [holdsM2])
  | @ret t op r hfin =>
    exact inv2_passive body s0 c t _ hi (by simp [hfin, holdsM1]) (by simp [hfin, holdsM2]) (by simp [holdsM1]) (by simp [holdsM2])
  | @acq1 t op u hwait hkind hnone =>
    have hs1 : c.s1 = (base2 body s0 c).1 := hi.s1free (fun a => not_dirty_of_not_m1 _ (hnone a))
    refine ⟨hi.res, ?_, ?_, ?_, ?_, ?_, ?_, ?_, ?_⟩
    · intro a b ha hb
      by_cases ea : a = t
      · by_cases eb : b = t
        · rw [ea, eb]
        · simp only [upd, eb, if_false] at hb; rw [hnone b] at hb; simp at hb
      · simp only [upd, ea, if_false] at ha; rw [hnone a] at ha; simp at ha
    · intro a ha b hb
      by_cases ea : a = t
      · subst ea; simp [upd, holdsM2w] at ha
      · simp only [upd, ea, if_false] at ha
        by_cases eb : b = t
        · subst eb; simp [upd, holdsM2]
        · simp only [upd, eb, if_false]; exact hi.m2excl a ha b hb
    · intro h; have := h t; simp [upd, dirty1] at this
    · intro h
      apply hi.s2free
      intro a
      by_cases ea : a = t
      · subst ea; simp [hwait, holdsM2w]
      · have := h a; simpa [upd, ea] using this
    · intro a op' l rest h
      by_cases ea : a = t
      · subst ea
        simp only [upd, if_true] at h
        cases h
        refine ⟨[], by simp, ?_⟩
        show runSteps [] (body op).init (base2 body s0 c).1 = ((body op).init, c.s1)
        simp only [runSteps]; rw [← hs1]
      · simp only [upd, ea, if_false] at h
        have := hnone a; rw [h] at this; simp [holdsM1] at this
    · intro a op' l h
      by_cases ea : a = t
      · subst ea; simp [upd] at h
      · simp only [upd, ea, if_false] at h
        have := hnone a; rw [h] at this; simp [holdsM1] at this
    · intro a op' l rest h
      by_cases ea : a = t
      · subst ea; simp [upd] at h
      · simp only [upd, ea, if_false] at h
        have := hnone a; rw [h] at this; simp [holdsM1] at this
    · intro a op' l rest h
      by_cases ea : a = t
      · subst ea; simp [upd] at h
      · simp only [upd, ea, if_false] at h; exact hi.innok a op' l rest h
  | @micro1 t op l f rest hrun =>
    obtain ⟨done, hsteps, hdone⟩ := hi.p1ok t op l (f :: rest) hrun
    have hm1 : holdsM1 (c.th t) = true := by simp [hrun, holdsM1]
    have hbase : base2 body s0 { c with s1 := (f l c.s1).2, th := upd c.th t (.p1 op (f l c.s1).1 rest) } = base2 body s0 c := rfl
    refine ⟨hi.res, ?_, ?_, ?_, ?_, ?_, ?_, ?_, ?_⟩
    · intro a b ha hb
      have ha' : holdsM1 (c.th a) = true := by
        by_cases ea : a = t
        · rw [ea]; exact hm1
        · simpa [upd, ea] using ha
      have hb' : holdsM1 (c.th b) = true := by
        by_cases eb : b = t
        · rw [eb]; exact hm1
        · simpa [upd, eb] using hb
      exact hi.m1excl a b ha' hb'
    · intro a ha b hb
      by_cases ea : a = t
      · subst ea; simp [upd, holdsM2w] at ha
      · simp only [upd, ea, if_false] at ha
        by_cases eb : b = t
        · subst eb; simp [upd, holdsM2]
        · simp only [upd, eb, if_false]; exact hi.m2excl a ha b hb
    · intro h; have := h t; simp [upd, dirty1] at this
    · intro h
      rw [hbase]
      apply hi.s2free
      intro a
      by_cases ea : a = t
      · subst ea; simp [hrun, holdsM2w]
      · have := h a; simpa [upd, ea] using this
    · intro a op' l' rest' h
      by_cases ea : a = t
      · subst ea
        simp only [upd, if_true] at h
        cases h
        refine ⟨done ++ [f], by simp [hsteps], ?_⟩
        rw [hbase, runSteps_append, hdone]
        simp [runSteps]
      · simp only [upd, ea, if_false] at h
        have := hi.m1excl a t (by simp [h, holdsM1]) hm1
        exact absurd this ea
    · intro a op' l' h
      by_cases ea : a = t
      · subst ea; simp [upd] at h
      · simp only [upd, ea, if_false] at h
        have := hi.m1excl a t (by simp [h, holdsM1]) hm1
        exact absurd this ea
    · intro a op' l' rest' h
      by_cases ea : a = t
      · subst ea; simp [upd] at h
      · simp only [upd, ea, if_false] at h
        have := hi.m1excl a t (by simp [h, holdsM1]) hm1
        exact absurd this ea
    · intro a op' l' rest' h
      by_cases ea : a = t
      · subst ea; simp [upd] at h
      · simp only [upd, ea, if_false] at h; rw [hbase]; exact hi.innok a op' l' rest' h
  | @end1a t op l hrun hkind =>
    obtain ⟨done, hsteps, hdone⟩ := hi.p1ok t op l [] hrun
    have hsteps' : (body op).steps1 = done := by simpa using hsteps
    have hm1 : holdsM1 (c.th t) = true := by simp [hrun, holdsM1]
    refine ⟨hi.res, ?_, ?_, ?_, ?_, ?_, ?_, ?_, ?_⟩
    · intro a b ha hb
      have ha' : holdsM1 (c.th a) = true := by
        by_cases ea : a = t
        · rw [ea]; exact hm1
        · simpa [upd, ea] using ha
      have hb' : holdsM1 (c.th b) = true := by
        by_cases eb : b = t
        · rw [eb]; exact hm1
        · simpa [upd, eb] using hb
      exact hi.m1excl a b ha' hb'
    · intro a ha b hb
      by_cases ea : a = t
      · subst ea; simp [upd, holdsM2w] at ha
      · simp only [upd, ea, if_false] at ha
        by_cases eb : b = t
        · subst eb; simp [upd, holdsM2]
        · simp only [upd, eb, if_false]; exact hi.m2excl a ha b hb
    · intro h; have := h t; simp [upd, dirty1] at this
    · intro h
      apply hi.s2free
      intro a
      by_cases ea : a = t
      · subst ea; simp [hrun, holdsM2w]
      · have := h a; simpa [upd, ea] using this
    · intro a op' l' rest' h
      by_cases ea : a = t
      · subst ea; simp [upd] at h
      · simp only [upd, ea, if_false] at h; exact hi.p1ok a op' l' rest' h
    · intro a op' l' h
      by_cases ea : a = t
      · subst ea
        simp only [upd, if_true] at h
        cases h
        show runSteps (body op).steps1 (body op).init (base2 body s0 c).1 = (l, c.s1)
        rw [hsteps']; exact hdone
      · simp only [upd, ea, if_false] at h; exact hi.midok a op' l' h
    · intro a op' l' rest' h
      by_cases ea : a = t
      · subst ea; simp [upd] at h
      · simp only [upd, ea, if_false] at h; exact hi.p2ok a op' l' rest' h
    · intro a op' l' rest' h
      by_cases ea : a = t
      · subst ea; simp [upd] at h
      · simp only [upd, ea, if_false] at h; exact hi.innok a op' l' rest' h
  | @acq2 t op l hmid hnone =>
    have hs2 : c.s2 = (base2 body s0 c).2 := hi.s2free (fun a => not_w_of_not_m2 body _ (hnone a))
    have hm1 : holdsM1 (c.th t) = true := by simp [hmid, holdsM1]
    have hmidok := hi.midok t op l hmid
    refine ⟨hi.res, ?_, ?_, ?_, ?_, ?_, ?_, ?_, ?_⟩
    · intro a b ha hb
      have ha' : holdsM1 (c.th a) = true := by
        by_cases ea : a = t
        · rw [ea]; exact hm1
        · simpa [upd, ea] using ha
      have hb' : holdsM1 (c.th b) = true := by
        by_cases eb : b = t
        · rw [eb]; exact hm1
        · simpa [upd, eb] using hb
      exact hi.m1excl a b ha' hb'
    · intro a ha b hb
      by_cases ea : a = t
      · subst ea
        simp only [upd, hb, if_false]; exact hnone b
      · simp only [upd, ea, if_false] at ha
        have := holdsM2_of_w body _ ha; rw [hnone a] at this; simp at this
    · intro h; have := h t; simp [upd, dirty1] at this
    · intro h; have := h t; simp [upd, holdsM2w] at this
    · intro a op' l' rest' h
      by_cases ea : a = t
      · subst ea; simp [upd] at h
      · simp only [upd, ea, if_false] at h; exact hi.p1ok a op' l' rest' h
    · intro a op' l' h
      by_cases ea : a = t
      · subst ea; simp [upd] at h
      · simp only [upd, ea, if_false] at h; exact hi.midok a op' l' h
    · intro a op' l' rest' h
      by_cases ea : a = t
      · subst ea
        simp only [upd, if_true] at h
        cases h
        refine ⟨[], l, by simp, hmidok, ?_⟩
        show runSteps [] l (base2 body s0 c).2 = (l, c.s2)
        simp only [runSteps]; rw [← hs2]
      · simp only [upd, ea, if_false] at h; exact hi.p2ok a op' l' rest' h
    · intro a op' l' rest' h
      by_cases ea : a = t
      · subst ea; simp [upd] at h
      · simp only [upd, ea, if_false] at h
        have := hnone a; rw [h] at this; simp [holdsM2] at this
  | @micro2 t op l f rest hrun =>
    obtain ⟨done, l1, hsteps, hph1, hdone⟩ := hi.p2ok t op l (f :: rest) hrun
    have hm1 : holdsM1 (c.th t) = true := by simp [hrun, holdsM1]
    have hw : holdsM2w body (c.th t) = true := by simp [hrun, holdsM2w]
    have hbase : base2 body s0 { c with s2 := (f l c.s2).2, th := upd c.th t (.p2 op (f l c.s2).1 rest) } = base2 body s0 c := rfl
    refine ⟨hi.res, ?_, ?_, ?_, ?_, ?_, ?_, ?_, ?_⟩
    · intro a b ha hb
      have ha' : holdsM1 (c.th a) = true := by
        by_cases ea : a = t
        · rw [ea]; exact hm1
        · simpa [upd, ea] using ha
      have hb' : holdsM1 (c.th b) = true := by
        by_cases eb : b = t
        · rw [eb]; exact hm1
        · simpa [upd, eb] using hb
      exact hi.m1excl a b ha' hb'
    · intro a ha b hb
      by_cases ea : a = t
      · subst ea
        simp only [upd, hb, if_false]; exact hi.m2excl a hw b hb
      · simp only [upd, ea, if_false] at ha
        have := hi.m2excl a ha t (fun e => ea e.symm)
        rw [hrun] at this; simp [holdsM2] at this
    · intro h; have := h t; simp [upd, dirty1] at this
    · intro h; have := h t; simp [upd, holdsM2w] at this
    · intro a op' l' rest' h
      by_cases ea : a = t
      · subst ea; simp [upd] at h
      · simp only [upd, ea, if_false] at h; rw [hbase]; exact hi.p1ok a op' l' rest' h
    · intro a op' l' h
      by_cases ea : a = t
      · subst ea; simp [upd] at h
      · simp only [upd, ea, if_false] at h; rw [hbase]; exact hi.midok a op' l' h
    · intro a op' l' rest' h
      by_cases ea : a = t
      · subst ea
        simp only [upd, if_true] at h
        cases h
        refine ⟨done ++ [f], l1, by simp [hsteps], hph1, ?_⟩
        show runSteps (done ++ [f]) l1 (base2 body s0 c).2 = ((f l c.s2).1, (f l c.s2).2)
        rw [runSteps_append, hdone]; simp [runSteps]
      · simp only [upd, ea, if_false] at h
        have := hi.m1excl a t (by simp [h, holdsM1]) hm1
        exact absurd this ea
    · intro a op' l' rest' h
      by_cases ea : a = t
      · subst ea; simp [upd] at h
      · simp only [upd, ea, if_false] at h
        have := hi.m2excl t hw a ea; rw [h] at this; simp [holdsM2] at this
  | @rel1 t op r hpost =>
    have hm1 : holdsM1 (c.th t) = true := by simp [hpost, holdsM1]
    refine ⟨hi.res, ?_, ?_, ?_, ?_, ?_, ?_, ?_, ?_⟩
    · intro a b ha hb
      by_cases ea : a = t
      · subst ea; simp [upd, holdsM1] at ha
      · by_cases eb : b = t
        · subst eb; simp [upd, holdsM1] at hb
        · simp only [upd, ea, eb, if_false] at ha hb; exact hi.m1excl a b ha hb
    · intro a ha b hb
      by_cases ea : a = t
      · subst ea; simp [upd, holdsM2w] at ha
      · simp only [upd, ea, if_false] at ha
        by_cases eb : b = t
        · subst eb; simp [upd, holdsM2]
        · simp only [upd, eb, if_false]; exact hi.m2excl a ha b hb
    · intro h
      apply hi.s1free
      intro a
      by_cases ea : a = t
      · subst ea; simp [hpost, dirty1]
      · have := h a; simpa [upd, ea] using this
    · intro h
      apply hi.s2free
      intro a
      by_cases ea : a = t
      · subst ea; simp [hpost, holdsM2w]
      · have := h a; simpa [upd, ea] using this
    · intro a op' l' rest' h
      by_cases ea : a = t
      · subst ea; simp [upd] at h
      · simp only [upd, ea, if_false] at h; exact hi.p1ok a op' l' rest' h
    · intro a op' l' h
      by_cases ea : a = t
      · subst ea; simp [upd] at h
      · simp only [upd, ea, if_false] at h; exact hi.midok a op' l' h
    · intro a op' l' rest' h
      by_cases ea : a = t
      · subst ea; simp [upd] at h
      · simp only [upd, ea, if_false] at h; exact hi.p2ok a op' l' rest' h
    · intro a op' l' rest' h
      by_cases ea : a = t
      · subst ea; simp [upd] at h
      · simp only [upd, ea, if_false] at h; exact hi.innok a op' l' rest' h
  | @acqIw t op hwait hkind hnone =>
    have hs2 : c.s2 = (base2 body s0 c).2 := hi.s2free (fun a => not_w_of_not_m2 body _ (hnone a))
    refine ⟨hi.res, ?_, ?_, ?_, ?_, ?_, ?_, ?_, ?_⟩
    · intro a b ha hb
      by_cases ea : a = t
      · subst ea; simp [upd, holdsM1] at ha
      · by_cases eb : b = t
        · subst eb; simp [upd, holdsM1] at hb
        · simp only [upd, ea, eb, if_false] at ha hb; exact hi.m1excl a b ha hb
    · intro a ha b hb
      by_cases ea : a = t
      · subst ea
        simp only [upd, hb, if_false]; exact hnone b
      · simp only [upd, ea, if_false] at ha
        have := holdsM2_of_w body _ ha; rw [hnone a] at this; simp at this
    · intro h
      apply hi.s1free
      intro a
      by_cases ea : a = t
      · subst ea; simp [hwait, dirty1]
      · have := h a; simpa [upd, ea] using this
    · intro h; have := h t; simp [upd, holdsM2w, hkind] at this
    · intro a op' l' rest' h
      by_cases ea : a = t
      · subst ea; simp [upd] at h
      · simp only [upd, ea, if_false] at h; exact hi.p1ok a op' l' rest' h
    · intro a op' l' h
      by_cases ea : a = t
      · subst ea; simp [upd] at h
      · simp only [upd, ea, if_false] at h; exact hi.midok a op' l' h
    · intro a op' l' rest' h
      by_cases ea : a = t
      · subst ea; simp [upd] at h
      · simp only [upd, ea, if_false] at h
        have := hnone a; rw [h] at this; simp [holdsM2] at this
    · intro a op' l' rest' h
      by_cases ea : a = t
      · subst ea
        simp only [upd, if_true] at h
        cases h
        refine ⟨⟨_, hkind⟩, [], by simp, ?_⟩
        show runSteps [] (body op).init (base2 body s0 c).2 = ((body op).init, c.s2)
        simp only [runSteps]; rw [← hs2]
      · simp only [upd, ea, if_false] at h
        have := hnone a; rw [h] at this; simp [holdsM2] at this
  | @acqIr t op hwait hkind hnow =>
    have hs2 : c.s2 = (base2 body s0 c).2 := hi.s2free hnow
    refine ⟨hi.res, ?_, ?_, ?_, ?_, ?_, ?_, ?_, ?_⟩
    · intro a b ha hb
      by_cases ea : a = t
      · subst ea; simp [upd, holdsM1] at ha
      · by_cases eb : b = t
        · subst eb; simp [upd, holdsM1] at hb
        · simp only [upd, ea, eb, if_false] at ha hb; exact hi.m1excl a b ha hb
    · intro a ha b hb
      by_cases ea : a = t
      · subst ea; simp [upd, holdsM2w, hkind] at ha
      · simp only [upd, ea, if_false] at ha
        rw [hnow a] at ha; simp at ha
    · intro h
      apply hi.s1free
      intro a
      by_cases ea : a = t
      · subst ea; simp [hwait, dirty1]
      · have := h a; simpa [upd, ea] using this
    · intro _; exact hs2
    · intro a op' l' rest' h
      by_cases ea : a = t
      · subst ea; simp [upd] at h
      · simp only [upd, ea, if_false] at h; exact hi.p1ok a op' l' rest' h
    · intro a op' l' h
      by_cases ea : a = t
      · subst ea; simp [upd] at h
      · simp only [upd, ea, if_false] at h; exact hi.midok a op' l' h
    · intro a op' l' rest' h
      by_cases ea : a = t
      · subst ea; simp [upd] at h
      · simp only [upd, ea, if_false] at h; exact hi.p2ok a op' l' rest' h
    · intro a op' l' rest' h
      by_cases ea : a = t
      · subst ea
        simp only [upd, if_true] at h
        cases h
        refine ⟨⟨_, hkind⟩, [], by simp, ?_⟩
        show runSteps [] (body op).init (base2 body s0 c).2 = ((body op).init, c.s2)
        simp only [runSteps]; rw [← hs2]
      · simp only [upd, ea, if_false] at h; exact hi.innok a op' l' rest' h
  | @end1b t op l hrun hkind =>
    obtain ⟨done, hsteps, hdone⟩ := hi.p1ok t op l [] hrun
    have hsteps' : (body op).steps1 = done := by simpa using hsteps
    have hno2 := wf.outer_no2 op hkind
    have hm1 : holdsM1 (c.th t) = true := by simp [hrun, holdsM1]
    have hat : (body op).atomic (base2 body s0 c) = ((c.s1, (base2 body s0 c).2), (body op).result l) := by
      simp only [Body2.atomic, hsteps', hdone, hno2, runSteps]
    have hbase : base2 body s0 { c with th := upd c.th t (.finished op ((body op).result l)),
                                        log := c.log ++ [(op, (body op).result l)] } = (c.s1, (base2 body s0 c).2) := by
      simp only [base2, List.map_append, List.map_cons, List.map_nil, seqRun2_append, seqRun2]
      have : (body op).atomic (seqRun2 body s0 (c.log.map (·.1))).1 = ((c.s1, (base2 body s0 c).2), (body op).result l) := hat
      simp [this, base2]
    refine ⟨?_, ?_, ?_, ?_, ?_, ?_, ?_, ?_, ?_⟩
    · simp only [List.map_append, List.map_cons, List.map_nil, seqRun2_append, seqRun2]
      have : (body op).atomic (seqRun2 body s0 (c.log.map (·.1))).1 = ((c.s1, (base2 body s0 c).2), (body op).result l) := hat
      simp [this, hi.res]
    · intro a b ha hb
      by_cases ea : a = t
      · subst ea; simp [upd, holdsM1] at ha
      · by_cases eb : b = t
        · subst eb; simp [upd, holdsM1] at hb
        · simp only [upd, ea, eb, if_false] at ha hb; exact hi.m1excl a b ha hb
    · intro a ha b hb
      by_cases ea : a = t
      · subst ea; simp [upd, holdsM2w] at ha
      · simp only [upd, ea, if_false] at ha
        by_cases eb : b = t
        · subst eb; simp [upd, holdsM2]
        · simp only [upd, eb, if_false]; exact hi.m2excl a ha b hb
    · intro _; rw [hbase]
    · intro h
      rw [hbase]
      apply hi.s2free
      intro a
      by_cases ea : a = t
      · subst ea; simp [hrun, holdsM2w]
      · have := h a; simpa [upd, ea] using this
    · intro a op' l' rest' h
      by_cases ea : a = t
      · subst ea; simp [upd] at h
      · simp only [upd, ea, if_false] at h
        have := hi.m1excl a t (by simp [h, holdsM1]) hm1
        exact absurd this ea
    · intro a op' l' h
      by_cases ea : a = t
      · subst ea; simp [upd] at h
      · simp only [upd, ea, if_false] at h
        have := hi.m1excl a t (by simp [h, holdsM1]) hm1
        exact absurd this ea
    · intro a op' l' rest' h
      by_cases ea : a = t
      · subst ea; simp [upd] at h
      · simp only [upd, ea, if_false] at h
        have := hi.m1excl a t (by simp [h, holdsM1]) hm1
        exact absurd this ea
    · intro a op' l' rest' h
      by_cases ea : a = t
      · subst ea; simp [upd] at h
      · simp only [upd, ea, if_false] at h
        rw [hbase]
        exact hi.innok a op' l' rest' h
  | @rel2 t op l hrun =>
    obtain ⟨done, l1, hsteps, hph1, hdone⟩ := hi.p2ok t op l [] hrun
    have hsteps' : (body op).steps2 = done := by simpa using hsteps
    have hm1 : holdsM1 (c.th t) = true := by simp [hrun, holdsM1]
    have hw : holdsM2w body (c.th t) = true := by simp [hrun, holdsM2w]
    have hat : (body op).atomic (base2 body s0 c) = ((c.s1, c.s2), (body op).result l) := by
      simp only [Body2.atomic, hph1, hsteps', hdone]
    have hbase : base2 body s0 { c with th := upd c.th t (.post op ((body op).result l)),
                                        log := c.log ++ [(op, (body op).result l)] } = (c.s1, c.s2) := by
      simp only [base2, List.map_append, List.map_cons, List.map_nil, seqRun2_append, seqRun2]
      have : (body op).atomic (seqRun2 body s0 (c.log.map (·.1))).1 = ((c.s1, c.s2), (body op).result l) := hat
      simp [this]
    refine ⟨?_, ?_, ?_, ?_, ?_, ?_, ?_, ?_, ?_⟩
    · simp only [List.map_append, List.map_cons, List.map_nil, seqRun2_append, seqRun2]
      have : (body op).atomic (seqRun2 body s0 (c.log.map (·.1))).1 = ((c.s1, c.s2), (body op).result l) := hat
      simp [this, hi.res]
    · intro a b ha hb
      have ha' : holdsM1 (c.th a) = true := by
        by_cases ea : a = t
        · rw [ea]; exact hm1
        · simpa [upd, ea] using ha
      have hb' : holdsM1 (c.th b) = true := by
        by_cases eb : b = t
        · rw [eb]; exact hm1
        · simpa [upd, eb] using hb
      exact hi.m1excl a b ha' hb'
    · intro a ha b hb
      by_cases ea : a = t
      · subst ea; simp [upd, holdsM2w] at ha
      · simp only [upd, ea, if_false] at ha
        have := hi.m2excl a ha t (fun e => ea e.symm)
        rw [hrun] at this; simp [holdsM2] at this
    · intro _; rw [hbase]
    · intro _; rw [hbase]
    · intro a op' l' rest' h
      by_cases ea : a = t
      · subst ea; simp [upd] at h
      · simp only [upd, ea, if_false] at h
        have := hi.m1excl a t (by simp [h, holdsM1]) hm1
        exact absurd this ea
    · intro a op' l' h
      by_cases ea : a = t
      · subst ea; simp [upd] at h
      · simp only [upd, ea, if_false] at h
        have := hi.m1excl a t (by simp [h, holdsM1]) hm1
        exact absurd this ea
    · intro a op' l' rest' h
      by_cases ea : a = t
      · subst ea; simp [upd] at h
      · simp only [upd, ea, if_false] at h
        have := hi.m1excl a t (by simp [h, holdsM1]) hm1
        exact absurd this ea
    · intro a op' l' rest' h
      by_cases ea : a = t
      · subst ea; simp [upd] at h
      · simp only [upd, ea, if_false] at h
        have := hi.m2excl t hw a ea; rw [h] at this; simp [holdsM2] at this
  | @microI t op l f rest hrun =>
    obtain ⟨⟨m, hkind⟩, done, hsteps, hdone⟩ := hi.innok t op l (f :: rest) hrun
    have hbase : base2 body s0 { c with s2 := (f l c.s2).2, th := upd c.th t (.inn op (f l c.s2).1 rest) } = base2 body s0 c := rfl
    have hf : f ∈ (body op).steps2 := by rw [hsteps]; simp
    -- either t is the exclusive writer, or the step does not change the shared state
    have hcase : (holdsM2w body (c.th t) = true) ∨ ((f l c.s2).2 = c.s2 ∧ holdsM2w body (c.th t) = false) := by
      cases m with
      | write => left; simp [hrun, holdsM2w, hkind]
      | read => right; exact ⟨wf.read_ro op hkind f hf l c.s2, by simp [hrun, holdsM2w, hkind]⟩
    refine ⟨hi.res, ?_, ?_, ?_, ?_, ?_, ?_, ?_, ?_⟩
    · intro a b ha hb
      by_cases ea : a = t
      · subst ea; simp [upd, holdsM1] at ha
      · by_cases eb : b = t
        · subst eb; simp [upd, holdsM1] at hb
        · simp only [upd, ea, eb, if_false] at ha hb; exact hi.m1excl a b ha hb
    · intro a ha b hb
      by_cases ea : a = t
      · subst ea
        have hw : holdsM2w body (c.th a) = true := by
          simp only [upd, if_true, holdsM2w] at ha
          simp [hrun, holdsM2w, ha]
        simp only [upd, hb, if_false]; exact hi.m2excl a hw b hb
      · simp only [upd, ea, if_false] at ha
        have := hi.m2excl a ha t (fun e => ea e.symm)
        rw [hrun] at this; simp [holdsM2] at this
    · intro h
      rw [hbase]
      apply hi.s1free
      intro a
      by_cases ea : a = t
      · subst ea; simp [hrun, dirty1]
      · have := h a; simpa [upd, ea] using this
    · intro h
      rw [hbase]
      rcases hcase with hw | ⟨hkeep, hnw⟩
      · have := h t
        simp only [upd, if_true, holdsM2w] at this
        simp [hrun, holdsM2w, this] at hw
      · show (f l c.s2).2 = (base2 body s0 c).2
        rw [hkeep]
        apply hi.s2free
        intro a
        by_cases ea : a = t
        · subst ea; exact hnw
        · have := h a; simpa [upd, ea] using this
    · intro a op' l' rest' h
      by_cases ea : a = t
      · subst ea; simp [upd] at h
      · simp only [upd, ea, if_false] at h; rw [hbase]; exact hi.p1ok a op' l' rest' h
    · intro a op' l' h
      by_cases ea : a = t
      · subst ea; simp [upd] at h
      · simp only [upd, ea, if_false] at h; rw [hbase]; exact hi.midok a op' l' h
    · intro a op' l' rest' h
      by_cases ea : a = t
      · subst ea; simp [upd] at h
      · simp only [upd, ea, if_false] at h
        -- a p2 thread is a writer: it excludes t
        have := hi.m2excl a (by simp [h, holdsM2w]) t (fun e => ea e.symm)
        rw [hrun] at this; simp [holdsM2] at this
    · intro a op' l' rest' h
      by_cases ea : a = t
      · subst ea
        simp only [upd, if_true] at h
        cases h
        refine ⟨⟨m, hkind⟩, done ++ [f], by simp [hsteps], ?_⟩
        show runSteps (done ++ [f]) (body op).init (base2 body s0 c).2 = ((f l c.s2).1, (f l c.s2).2)
        rw [runSteps_append, hdone]; simp [runSteps]
      · simp only [upd, ea, if_false] at h
        rw [hbase]
        rcases hcase with hw | ⟨hkeep, _⟩
        · have := hi.m2excl t hw a ea; rw [h] at this; simp [holdsM2] at this
        · obtain ⟨hk, d', hs', hd'⟩ := hi.innok a op' l' rest' h
          exact ⟨hk, d', hs', by show runSteps d' (body op').init (base2 body s0 c).2 = (l', (f l c.s2).2); rw [hkeep]; exact hd'⟩
  | @relI t op l hrun =>
    obtain ⟨⟨m, hkind⟩, done, hsteps, hdone⟩ := hi.innok t op l [] hrun
    have hsteps' : (body op).steps2 = done := by simpa using hsteps
    have hno1 := wf.inner_no1 op m hkind
    have hat : (body op).atomic (base2 body s0 c) = (((base2 body s0 c).1, c.s2), (body op).result l) := by
      simp only [Body2.atomic, hno1, runSteps, hsteps', hdone]
    have hbase : base2 body s0 { c with th := upd c.th t (.finished op ((body op).result l)),
                                        log := c.log ++ [(op, (body op).result l)] } = ((base2 body s0 c).1, c.s2) := by
      simp only [base2, List.map_append, List.map_cons, List.map_nil, seqRun2_append, seqRun2]
      have : (body op).atomic (seqRun2 body s0 (c.log.map (·.1))).1 = (((base2 body s0 c).1, c.s2), (body op).result l) := hat
      simp [this, base2]
    -- either t was the exclusive writer, or a reader that saw (and left) the sequential state
    have hcase : (holdsM2w body (c.th t) = true) ∨ (c.s2 = (base2 body s0 c).2) := by
      cases m with
      | write => left; simp [hrun, holdsM2w, hkind]
      | read =>
        right
        apply hi.s2free
        intro a
        cases hw : holdsM2w body (c.th a) with
        | false => rfl
        | true =>
          by_cases ea : a = t
          · subst ea; simp [hrun, holdsM2w, hkind] at hw
          · have := hi.m2excl a hw t (fun e => ea e.symm)
            rw [hrun] at this; simp [holdsM2] at this
    refine ⟨?_, ?_, ?_, ?_, ?_, ?_, ?_, ?_, ?_⟩
    · simp only [List.map_append, List.map_cons, List.map_nil, seqRun2_append, seqRun2]
      have : (body op).atomic (seqRun2 body s0 (c.log.map (·.1))).1 = (((base2 body s0 c).1, c.s2), (body op).result l) := hat
      simp [this, hi.res]
    · intro a b ha hb
      by_cases ea : a = t
      · subst ea; simp [upd, holdsM1] at ha
      · by_cases eb : b = t
        · subst eb; simp [upd, holdsM1] at hb
        · simp only [upd, ea, eb, if_false] at ha hb; exact hi.m1excl a b ha hb
    · intro a ha b hb
      by_cases ea : a = t
      · subst ea; simp [upd, holdsM2w] at ha
      · simp only [upd, ea, if_false] at ha
        by_cases eb : b = t
        · subst eb; simp [upd, holdsM2]
        · simp only [upd, eb, if_false]; exact hi.m2excl a ha b hb
    · intro h
      rw [hbase]
      apply hi.s1free
      intro a
      by_cases ea : a = t
      · subst ea; simp [hrun, dirty1]
      · have := h a; simpa [upd, ea] using this
    · intro _; rw [hbase]
    · intro a op' l' rest' h
      by_cases ea : a = t
      · subst ea; simp [upd] at h
      · simp only [upd, ea, if_false] at h; rw [hbase]; exact hi.p1ok a op' l' rest' h
    · intro a op' l' h
      by_cases ea : a = t
      · subst ea; simp [upd] at h
      · simp only [upd, ea, if_false] at h; rw [hbase]; exact hi.midok a op' l' h
    · intro a op' l' rest' h
      by_cases ea : a = t
      · subst ea; simp [upd] at h
      · simp only [upd, ea, if_false] at h
        have := hi.m2excl a (by simp [h, holdsM2w]) t (fun e => ea e.symm)
        rw [hrun] at this; simp [holdsM2] at this
    · intro a op' l' rest' h
      by_cases ea : a = t
      · subst ea; simp [upd] at h
      · simp only [upd, ea, if_false] at h
        rw [hbase]
        rcases hcase with hw | hs2
        · have := hi.m2excl t hw a ea; rw [h] at this; simp [holdsM2] at this
        · obtain ⟨hk, d', hs', hd'⟩ := hi.innok a op' l' rest' h
          exact ⟨hk, d', hs', by show runSteps d' (body op').init c.s2 = (l', c.s2); rw [hs2] at hd' ⊢; exact hd'⟩

end Ndn.C16.Two

namespace Ndn.C16.Two
open Ndn.C16
variable {σ1 σ2 L Res Op : Type}

theorem inv2_exec (body : Op → Body2 σ1 σ2 L Res) (wf : WF body) (a : σ1) (b : σ2)
    {c : Conf2 σ1 σ2 L Res Op} {evs : List (Ev2 Op)} (h : Exec2 body (init2 a b) evs c) : Inv2 body (a, b) c := by
  generalize hc0 : init2 a b = c0 at h
  induction h with
  | nil => rw [← hc0]; exact inv2_init body a b
  | snoc _ hstep ih => exact inv2_step body wf (a, b) ih hstep

end Ndn.C16.Two
