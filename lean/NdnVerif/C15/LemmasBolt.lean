/-
  C15 — helper lemmas about the bolt store model: byte order, sortedness, completeness of the cursor scan.
-/
import NdnVerif.C15.Lemmas
namespace Ndn.C15


theorem bytesLt_total : ∀ (a b : Bytes), a ≠ b → bytesLt a b = false → bytesLt b a = true
  | [], [], h, _ => absurd rfl h
  | [], _ :: _, _, h => by simp [bytesLt] at h
  | _ :: _, [], _, _ => by simp [bytesLt]
  | x :: xs, y :: ys, hne, h => by
    simp only [bytesLt] at h ⊢
    by_cases hxy : x < y
    · simp [hxy] at h
    · simp only [hxy, if_false] at h
      by_cases hyx : y < x
      · simp [hyx]
      · simp only [hyx, if_false] at h ⊢
        have : x = y := by omega
        subst this
        have hne' : xs ≠ ys := fun e => hne (by rw [e])
        simpa using bytesLt_total xs ys hne' h



theorem bytesLt_trans : ∀ (a b c : Bytes), bytesLt a b = true → bytesLt b c = true → bytesLt a c = true
  | [], [], _, h, _ => by simp [bytesLt] at h
  | [], _ :: _, [], _, h => by simp [bytesLt] at h
  | [], _ :: _, _ :: _, _, _ => by simp [bytesLt]
  | _ :: _, [], _, h, _ => by simp [bytesLt] at h
  | _ :: _, _ :: _, [], _, h => by simp [bytesLt] at h
  | x :: xs, y :: ys, z :: zs, h1, h2 => by
    simp only [bytesLt] at h1 h2 ⊢
    by_cases hxy : x < y
    · by_cases hyz : y < z
      · have : x < z := by omega
        simp [this]
      · simp only [hyz, if_false] at h2
        by_cases hzy : z < y
        · simp [hzy] at h2
        · have : x < z := by omega
          simp [this]
    · simp only [hxy, if_false] at h1
      by_cases hyx : y < x
      · simp [hyx] at h1
      · simp only [hyx, if_false] at h1
        have hxy' : x = y := by omega
        subst hxy'
        by_cases hyz : x < z
        · simp [hyz]
        · simp only [hyz, if_false] at h2 ⊢
          by_cases hzy : z < x
          · simp [hzy] at h2
          · simp only [hzy, if_false] at h2 ⊢
            exact bytesLt_trans xs ys zs h1 h2

/-- a key that has `key` as a prefix is not smaller than `key` -/
theorem prefix_not_lt : ∀ (key b : Bytes), key.isPrefixOf b = true → bytesLt b key = false
  | [], [], _ => by simp [bytesLt]
  | [], _ :: _, _ => by simp [bytesLt]
  | _ :: _, [], h => by simp [List.isPrefixOf] at h
  | k :: ks, x :: xs, h => by
    simp only [List.isPrefixOf, Bool.and_eq_true, beq_iff_eq] at h
    obtain ⟨rfl, h⟩ := h
    simp [bytesLt, prefix_not_lt ks xs h]

/-- keys between `key` and a key that extends `key` also extend `key` -/
theorem prefix_between : ∀ (key a b : Bytes), bytesLt a key = false → bytesLt a b = true →
    key.isPrefixOf b = true → key.isPrefixOf a = true
  | [], _, _, _, _, _ => by simp [List.isPrefixOf]
  | _ :: _, _, [], _, _, h => by simp [List.isPrefixOf] at h
  | _ :: _, [], _ :: _, h, _, _ => by simp [bytesLt] at h
  | k :: ks, x :: xs, y :: ys, h1, h2, h3 => by
    simp only [List.isPrefixOf, Bool.and_eq_true, beq_iff_eq] at h3 ⊢
    obtain ⟨rfl, h3⟩ := h3
    simp only [bytesLt] at h1 h2
    by_cases hxk : x < k
    · simp [hxk] at h1
    · simp only [hxk, if_false] at h1 h2
      by_cases hkx : k < x
      · simp [hkx] at h2
      · simp only [hkx, if_false] at h1 h2
        have : k = x := by omega
        exact ⟨this, prefix_between ks xs ys h1 h2 h3⟩

/-- bolt keeps its keys in strictly increasing byte order -/
def BSorted (s : Bolt) : Prop := s.Pairwise fun a b => bytesLt a.key b.key = true

theorem takeWhile_complete (key : Bytes) : ∀ (l : Bolt), BSorted l → (∀ x ∈ l, bytesLt x.key key = false) →
    ∀ e ∈ l, key.isPrefixOf e.key = true → e ∈ l.takeWhile fun e => key.isPrefixOf e.key
  | [], _, _, e, he, _ => by simp at he
  | h :: t, hs, hge, e, he, hp => by
    have hs' := List.pairwise_cons.mp hs
    have hqh : key.isPrefixOf h.key = true := by
      simp only [List.mem_cons] at he
      rcases he with rfl | he
      · exact hp
      · exact prefix_between key h.key e.key (hge h (List.mem_cons_self ..)) (hs'.1 e he) hp
    simp only [List.takeWhile_cons, hqh, if_true, List.mem_cons]
    simp only [List.mem_cons] at he
    rcases he with rfl | he
    · exact Or.inl rfl
    · exact Or.inr (takeWhile_complete key t hs'.2 (fun x hx => hge x (List.mem_cons_of_mem _ hx)) e he hp)

/-- the cursor scan sees exactly the stored entries whose key extends the query key -/
theorem boltScan_mem_iff (s : Bolt) (hs : BSorted s) (key : Bytes) (e : BEntry) :
    e ∈ boltScan s key ↔ e ∈ s ∧ key.isPrefixOf e.key = true := by
  constructor
  · intro he
    unfold boltScan at he
    exact ⟨(List.dropWhile_sublist _).subset ((List.takeWhile_sublist _).subset he), mem_takeWhile_pred (fun e : BEntry => key.isPrefixOf e.key) _ e he⟩
  · intro ⟨he, hp⟩
    unfold boltScan
    induction s with
    | nil => simp at he
    | cons x xs ih =>
      have hs' := List.pairwise_cons.mp hs
      by_cases hx : bytesLt x.key key = true
      · simp only [List.dropWhile_cons, hx, if_true]
        simp only [List.mem_cons] at he
        rcases he with rfl | he
        · rw [prefix_not_lt key _ hp] at hx; cases hx
        · exact ih hs'.2 he
      · simp only [List.dropWhile_cons, hx]
        have hxf : bytesLt x.key key = false := by simpa using hx
        apply takeWhile_complete key (x :: xs) hs _ e he hp
        intro y hy
        simp only [List.mem_cons] at hy
        rcases hy with rfl | hy
        · exact hxf
        · cases hyk : bytesLt y.key key with
          | false => rfl
          | true =>
            have := bytesLt_trans _ _ _ (hs'.1 y hy) hyk
            rw [hxf] at this; cases this



theorem boltPutKey_mem (s : Bolt) (e x : BEntry) (h : x ∈ boltPutKey s e) : x = e ∨ x ∈ s := by
  induction s with
  | nil => simp [boltPutKey] at h; exact Or.inl h
  | cons y ys ih =>
    simp only [boltPutKey] at h
    split at h
    · simp only [List.mem_cons] at h ⊢
      rcases h with h | h | h
      · exact Or.inl h
      · exact Or.inr (Or.inl h)
      · exact Or.inr (Or.inr h)
    · split at h
      · simp only [List.mem_cons] at h ⊢
        rcases h with h | h
        · exact Or.inl h
        · exact Or.inr (Or.inr h)
      · simp only [List.mem_cons] at h ⊢
        rcases h with h | h
        · exact Or.inr (Or.inl h)
        · rcases ih h with h | h
          · exact Or.inl h
          · exact Or.inr (Or.inr h)

theorem boltPutKey_sorted (s : Bolt) (e : BEntry) (hs : BSorted s) : BSorted (boltPutKey s e) := by
  induction s with
  | nil => simp [boltPutKey, BSorted]
  | cons y ys ih =>
    have hs' := List.pairwise_cons.mp hs
    simp only [boltPutKey]
    split
    · rename_i hlt
      apply List.pairwise_cons.mpr
      refine ⟨?_, hs⟩
      intro z hz
      simp only [List.mem_cons] at hz
      rcases hz with rfl | hz
      · exact hlt
      · exact bytesLt_trans _ _ _ hlt (hs'.1 z hz)
    · rename_i hnlt
      split
      · rename_i heq
        apply List.pairwise_cons.mpr
        refine ⟨?_, hs'.2⟩
        intro z hz
        rw [← heq]; exact hs'.1 z hz
      · rename_i hne
        apply List.pairwise_cons.mpr
        refine ⟨?_, ih hs'.2⟩
        intro z hz
        rcases boltPutKey_mem ys e z hz with rfl | hz
        · exact bytesLt_total _ _ (fun h => hne h.symm) (by simpa using hnlt)
        · exact hs'.1 z hz

theorem boltRemove_sorted (s : Bolt) (name : Name) (pfx : Bool) (hs : BSorted s) : BSorted (boltRemove s name pfx) := by
  unfold boltRemove
  cases pfx <;> exact List.Pairwise.filter _ hs


/-- scan level: with at most 999 scanned keys the answer is a scanned entry of maximal version -/
theorem bolt_scan_newest (s : Bolt) (name : Name)
    (hguard : (boltScan s (encKey name)).length ≤ boltScanLimit) :
    ((boltScan s (encKey name)) = [] → boltGet s name true = none) ∧
    ((boltScan s (encKey name)) ≠ [] →
      ∃ e ∈ boltScan s (encKey name), boltGet s name true = some e.pkt ∧
        ∀ e' ∈ boltScan s (encKey name), e'.ver ≤ e.ver) := by
  have htake : (boltScan s (encKey name)).take boltScanLimit = boltScan s (encKey name) :=
    List.take_of_length_le hguard
  have hs := boltNewest_spec (boltScan s (encKey name)) none
  constructor
  · intro he
    simp [boltGet, he, boltNewest]
  · intro hne
    simp only [boltGet, if_true, htake]
    split at hs
    · exact absurd hs.1 hne
    · rename_i r hr
      obtain ⟨h1, h2, _⟩ := hs
      rcases h1 with h1 | h1
      · exact ⟨r, h1, by simp [hr], h2⟩
      · cases h1


end Ndn.C15
