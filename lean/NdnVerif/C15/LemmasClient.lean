/-
  C15 — the multi-stream client refines the single-stream fetch machine: frame lemmas (other streams and
  the scheduler never touch a stream's Fetch state except `wnd2`) and the projection of a run.
-/
import NdnVerif.C15.LemmasFetch
namespace Ndn.C15

/-- equality of fetch states up to `wnd2` (the only field the scheduler `doCheck` writes) -/
def Fetch.eqv (a b : Fetch) : Prop := { a with wnd2 := 0 } = { b with wnd2 := 0 }

theorem Fetch.eqv_refl (a : Fetch) : a.eqv a := rfl
theorem Fetch.eqv_symm {a b : Fetch} (h : a.eqv b) : b.eqv a := Eq.symm h
theorem Fetch.eqv_trans {a b c : Fetch} (h1 : a.eqv b) (h2 : b.eqv c) : a.eqv c := Eq.trans h1 h2
theorem Fetch.eqv_wnd2 (a : Fetch) (w : Nat) : ({ a with wnd2 := w } : Fetch).eqv a := rfl

theorem Fetch.eqv_iff (a b : Fetch) : a.eqv b ↔ a = { b with wnd2 := a.wnd2 } := by
  cases a; cases b
  simp [Fetch.eqv]

/-- first part of `handleData` on a Data: `segCnt` from FinalBlockId -/
def initSeg (f : Fetch) (p : Pkt) : Option Fetch :=
  match f.segCnt with
  | some _ => some f
  | none =>
    match p.fb with
    | none => none
    | some fb =>
      if fb.typ ≠ typSegment then none
      else
        let cnt := numberVal fb + 1
        if cnt > maxObjectSeg then none
        else some { f with segCnt := some cnt, content := List.replicate cnt none }

/-- second part: store the segment, advance the window, call back -/
def handleSeg (f : Fetch) (p : Pkt) : Fetch × List CbRec :=
  let segCnt := f.segCnt.getD 0
  match p.name.getLast? with
  | none => ({ f with panic := true, complete := true }, [])
  | some sc =>
    if sc.typ ≠ typSegment then f.finalizeError
    else
      let segNum := numberVal sc
      if segNum ≥ segCnt then f.finalizeError
      else
        let f := { f with content := f.content.set segNum (some p.content) }
        if p.content.isEmpty then f.finalizeError
        else if f.wnd1 = segNum then
          let w1 := advance f.content segCnt (segCnt + 1) f.wnd1
          let f := { f with wnd1 := w1, complete := w1 = segCnt }
          let r := f.callback
          (r.1, [r.2])
        else (f, [])

theorem handleData_decomp (f : Fetch) (a : Arrival) :
    f.handleData a =
      if f.complete then (f, []) else
      match a with
      | .timeout => f.finalizeError
      | .data p => match initSeg f p with
        | none => f.finalizeError
        | some f' => handleSeg f' p := by
  unfold Fetch.handleData initSeg handleSeg
  rfl

theorem finalizeError_wnd2 (f : Fetch) (w : Nat) :
    ({ f with wnd2 := w } : Fetch).finalizeError = ({ f.finalizeError.1 with wnd2 := w }, f.finalizeError.2) := by
  unfold Fetch.finalizeError Fetch.callback
  by_cases h : f.complete = true <;> simp [h]

theorem initSeg_wnd2 (f : Fetch) (w : Nat) (p : Pkt) :
    initSeg { f with wnd2 := w } p = (initSeg f p).map fun g => { g with wnd2 := w } := by
  obtain ⟨sc, ct, w0, w1, w2, cp, er, pn⟩ := f
  unfold initSeg
  cases sc with
  | some n => rfl
  | none =>
    simp only
    cases p.fb with
    | none => rfl
    | some fb =>
      simp only
      split
      · rfl
      · split <;> rfl

theorem handleSeg_wnd2 (f : Fetch) (w : Nat) (p : Pkt) :
    handleSeg { f with wnd2 := w } p = ({ (handleSeg f p).1 with wnd2 := w }, (handleSeg f p).2) := by
  unfold handleSeg
  simp only
  cases p.name.getLast? with
  | none => rfl
  | some sc =>
    simp only
    split
    · exact finalizeError_wnd2 f w
    · split
      · exact finalizeError_wnd2 f w
      · split
        · exact finalizeError_wnd2 { f with content := f.content.set (numberVal sc) (some p.content) } w
        · split <;> rfl

/-- `handleData` neither reads nor writes `wnd2` -/
theorem handleData_wnd2 (f : Fetch) (w : Nat) (x : Arrival) :
    ({ f with wnd2 := w } : Fetch).handleData x = ({ (f.handleData x).1 with wnd2 := w }, (f.handleData x).2) := by
  rw [handleData_decomp, handleData_decomp]
  obtain ⟨sc, ct, w0, w1, w2, cp, er, pn⟩ := f
  cases cp with
  | true => rfl
  | false =>
    cases x with
    | timeout =>
      simp only [Bool.false_eq_true, if_false]
      exact finalizeError_wnd2 ⟨sc, ct, w0, w1, w2, false, er, pn⟩ w
    | data p =>
      simp only [Bool.false_eq_true, if_false]
      have hi := initSeg_wnd2 ⟨sc, ct, w0, w1, w2, false, er, pn⟩ w p
      simp only at hi
      rw [hi]
      cases initSeg ⟨sc, ct, w0, w1, w2, false, er, pn⟩ p with
      | none => exact finalizeError_wnd2 ⟨sc, ct, w0, w1, w2, false, er, pn⟩ w
      | some g => exact handleSeg_wnd2 g w p

/-- `handleData` respects equality up to `wnd2` -/
theorem handleData_eqv (a b : Fetch) (x : Arrival) (h : a.eqv b) :
    (a.handleData x).1.eqv (b.handleData x).1 ∧ (a.handleData x).2 = (b.handleData x).2 := by
  rw [(Fetch.eqv_iff a b).mp h, handleData_wnd2]
  exact ⟨Fetch.eqv_wnd2 _ _, rfl⟩

theorem Fetch.eqv_fields {a b : Fetch} (h : a.eqv b) : a.complete = b.complete ∧ a.err = b.err ∧ a.wnd1 = b.wnd1 ∧ a.segCnt = b.segCnt := by
  rw [(Fetch.eqv_iff a b).mp h]; exact ⟨rfl, rfl, rfl, rfl⟩

/-! ### client-level frame lemmas -/

theorem finalizeError_eq_timeout (f : Fetch) : f.finalizeError = f.handleData .timeout := by
  rw [handleData_decomp]
  unfold Fetch.finalizeError
  by_cases h : f.complete = true <;> simp [h]

theorem getCons_setCons (c : Client) (o o' : Nat) (x : Cons) :
    (c.setCons o x).getCons o' = if o' = o ∧ o < c.cons.length then x else c.getCons o' := by
  simp only [Client.getCons, Client.setCons, List.getD_eq_getElem?_getD, List.getElem?_set]
  by_cases h : o = o'
  · subst h
    by_cases hl : o < c.cons.length
    · simp [hl]
    · simp [hl, List.getElem?_eq_none (Nat.le_of_not_lt hl)]
  · have : ¬ o' = o := fun e => h e.symm
    simp [h, this]

theorem length_setCons (c : Client) (o : Nat) (x : Cons) : (c.setCons o x).cons.length = c.cons.length := by
  simp [Client.setCons]

/-- callback records of consume `o` in an `Out` -/
def cbsOf (o : Nat) (cbs : List (Nat × CbRec)) : List CbRec := cbs.filterMap fun ic => if ic.1 = o then some ic.2 else none

theorem cbsOf_map (o i : Nat) (l : List CbRec) : cbsOf o (l.map fun cb => (i, cb)) = if i = o then l else [] := by
  induction l with
  | nil => simp [cbsOf]
  | cons a t ih =>
    simp only [cbsOf, List.map_cons, List.filterMap_cons] at ih ⊢
    by_cases h : i = o
    · simp only [h, if_true] at ih ⊢; rw [ih]
    · simp only [h, if_false] at ih ⊢; exact ih

theorem cbsOf_append (o : Nat) (a b : List (Nat × CbRec)) : cbsOf o (a ++ b) = cbsOf o a ++ cbsOf o b := by
  simp [cbsOf, List.filterMap_append]

def applyArr (f : Fetch) : Option Arrival → Fetch × List CbRec
  | none => (f, [])
  | some a => f.handleData a

/-- effect of a client transition on the streams: stream `o0` receives arrival `a0` (or nothing), every
    other stream's fetch state is untouched up to `wnd2`, and exactly `o0`'s callbacks are emitted -/
def Eff (c : Client) (r : Client × Out) (o0 : Nat) (a0 : Option Arrival) : Prop :=
  r.1.cons.length = c.cons.length ∧
  ∀ o, ((r.1.getCons o).f).eqv (if o = o0 then (applyArr (c.getCons o).f a0).1 else (c.getCons o).f) ∧
       cbsOf o r.2.cbs = (if o = o0 then (applyArr (c.getCons o).f a0).2 else [])

/-- only `wnd2` of some stream changed, same number of streams -/
def Frame (c c' : Client) : Prop := c'.cons.length = c.cons.length ∧ ∀ o, ((c'.getCons o).f).eqv (c.getCons o).f

theorem frame_refl (c : Client) : Frame c c := ⟨rfl, fun _ => Fetch.eqv_refl _⟩

theorem frame_trans {a b c : Client} (h1 : Frame a b) (h2 : Frame b c) : Frame a c :=
  ⟨h2.1.trans h1.1, fun o => Fetch.eqv_trans (h2.2 o) (h1.2 o)⟩

theorem frame_setCons (c : Client) (o : Nat) (x : Cons) (h : x.f.eqv (c.getCons o).f) : Frame c (c.setCons o x) := by
  refine ⟨length_setCons c o x, fun o' => ?_⟩
  rw [getCons_setCons]
  split
  · rename_i h'; rw [h'.1]; exact h
  · exact Fetch.eqv_refl _

theorem frame_of_cons_eq (c c' : Client) (h : c'.cons = c.cons) : Frame c c' := by
  refine ⟨by rw [h], fun o => ?_⟩
  simp only [Client.getCons, h]
  exact Fetch.eqv_refl _

theorem frame_of_cons_set (c c' : Client) (s : Nat) (x : Cons) (hc : c'.cons = c.cons.set s x)
    (hx : x.f.eqv (c.getCons s).f) : Frame c c' :=
  frame_trans (frame_setCons c s x hx) (frame_of_cons_eq _ _ hc)

/-- the scheduler only writes `wnd2` (and the ExpressR bookkeeping) -/
theorem doCheck_frame (fuel : Nat) (c : Client) : Frame c (c.doCheck fuel).1 := by
  induction fuel generalizing c with
  | zero => exact frame_refl c
  | succ fuel ih =>
    unfold Client.doCheck
    split
    · exact frame_refl c
    · simp only
      split
      · exact frame_of_cons_eq _ _ rfl
      · rename_i s _
        refine frame_trans ?_ (ih _)
        exact frame_of_cons_set c _ s _ rfl (Fetch.eqv_wnd2 _ _)

theorem check_frame (c : Client) (cbs : List (Nat × CbRec)) : Frame c (c.check cbs).1 ∧ (c.check cbs).2.cbs = cbs :=
  ⟨doCheck_frame _ c, rfl⟩

theorem applyArr_eqv (a b : Fetch) (x : Option Arrival) (h : a.eqv b) :
    (applyArr a x).1.eqv (applyArr b x).1 ∧ (applyArr a x).2 = (applyArr b x).2 := by
  cases x with
  | none => exact ⟨h, rfl⟩
  | some y => exact handleData_eqv a b y h

theorem eff_of_frame (c c' : Client) (out : Out) (o0 : Nat) (h : Frame c c') (hc : out.cbs = []) :
    Eff c (c', out) o0 none := by
  refine ⟨h.1, fun o => ?_⟩
  simp only [applyArr, hc, cbsOf, List.filterMap_nil]
  exact ⟨by split <;> exact h.2 o, by split <;> rfl⟩

/-- an effect established from a state that differs from `c` only by `wnd2`s is an effect from `c` -/
theorem eff_of_frame_eff (c c1 : Client) (r : Client × Out) (o0 : Nat) (a0 : Option Arrival)
    (h : Frame c c1) (he : Eff c1 r o0 a0) : Eff c r o0 a0 := by
  refine ⟨he.1.trans h.1, fun o => ?_⟩
  obtain ⟨h1, h2⟩ := he.2 o
  by_cases ho : o = o0
  · simp only [ho, if_true] at h1 h2 ⊢
    have := applyArr_eqv _ _ a0 (h.2 o0)
    exact ⟨Fetch.eqv_trans h1 this.1, h2.trans this.2⟩
  · simp only [ho, if_false] at h1 h2 ⊢
    exact ⟨Fetch.eqv_trans h1 (h.2 o), h2⟩

theorem fail_eff (c : Client) (o : Nat) (ho : o < c.cons.length) : Eff c (c.fail o) o (some .timeout) := by
  refine ⟨length_setCons _ _ _, fun o' => ?_⟩
  simp only [Client.fail, getCons_setCons, applyArr, ← finalizeError_eq_timeout, cbsOf_map]
  by_cases h : o' = o
  · subst h; simp [ho]; exact Fetch.eqv_refl _
  · have h' : ¬ o = o' := fun e => h e.symm
    simp [h, h']; exact Fetch.eqv_refl _

theorem eff_check (c c2 : Client) (o : Nat) (a : Arrival) (cbs : List (Nat × CbRec)) (x : Cons)
    (hcons : c2.cons = c.cons.set o x) (hx : x.f = ((c.getCons o).f.handleData a).1)
    (hcbs : cbs = ((c.getCons o).f.handleData a).2.map fun cb => (o, cb)) (ho : o < c.cons.length) :
    Eff c (c2.check cbs) o (some a) := by
  have hfr := check_frame c2 cbs
  have hget : ∀ o', c2.getCons o' = if o' = o then x else c.getCons o' := by
    intro o'
    have := getCons_setCons c o o' x
    simp only [Client.getCons, Client.setCons] at this ⊢
    rw [hcons, this]
    by_cases h : o' = o <;> simp [h, ho]
  refine ⟨by rw [hfr.1.1, hcons]; simp, fun o' => ?_⟩
  rw [hfr.2, hcbs, cbsOf_map]
  by_cases h : o' = o
  · subst h
    simp only [if_true, applyArr]
    refine ⟨Fetch.eqv_trans (hfr.1.2 o') ?_, trivial⟩
    rw [hget]; simp only [if_true]; rw [hx]; exact Fetch.eqv_refl _
  · have h' : ¬ o = o' := fun e => h e.symm
    simp only [h, h', if_false]
    refine ⟨Fetch.eqv_trans (hfr.1.2 o') ?_, trivial⟩
    rw [hget]; simp only [h, if_false]; exact Fetch.eqv_refl _

theorem handleData_eff (c : Client) (o k : Nat) (a : Arrival) (ho : o < c.cons.length) :
    Eff c (c.handleData o k a) o (some a) := by
  unfold Client.handleData
  exact eff_check c _ o a _ _ rfl rfl rfl ho

/-- the arrival `consumeObject` hands to the fetch state: an immediate error in the failing cases -/
def consArr (fetchName : Name) (viaMeta : Bool) : Option Arrival :=
  match fetchName.getLast? with
  | none => some .timeout
  | some l => if l.typ ≠ typVersion then (if viaMeta then some .timeout else none) else none

theorem consumeObject_eff (c : Client) (o : Nat) (viaMeta : Bool) (ho : o < c.cons.length) :
    Eff c (c.consumeObject o viaMeta) o (consArr (c.getCons o).fetchName viaMeta) := by
  unfold Client.consumeObject consArr
  cases hg : (c.getCons o).fetchName.getLast? with
  | none => simp only [hg]; exact fail_eff c o ho
  | some l =>
    simp only [hg]
    by_cases ht : l.typ ≠ typVersion
    · rw [if_pos ht, if_pos ht]
      cases viaMeta with
      | true => exact fail_eff c o ho
      | false =>
        simp only [Bool.false_eq_true, if_false]
        exact eff_of_frame c _ _ o (frame_setCons c o _ (Fetch.eqv_refl _)) rfl
    · rw [if_neg ht, if_neg ht]
      have hfr := check_frame ({ c with streams := c.streams ++ [o] } : Client) []
      exact eff_of_frame c _ _ o (frame_trans (frame_of_cons_eq c _ rfl) hfr.1) hfr.2

theorem meta_ok_eff (c1 : Client) (o : Nat) (n : Name) (h1 : o < c1.cons.length) :
    Eff c1 ((c1.setCons o { (c1.getCons o) with fetchName := n }).consumeObject o true) o (consArr n true) := by
  have he := consumeObject_eff (c1.setCons o { (c1.getCons o) with fetchName := n }) o true
    (by rw [length_setCons]; exact h1)
  have hfn : ((c1.setCons o { (c1.getCons o) with fetchName := n }).getCons o).fetchName = n := by
    rw [getCons_setCons]; simp [h1]
  rw [hfn] at he
  exact eff_of_frame_eff c1 _ _ o _ (frame_setCons c1 o { (c1.getCons o) with fetchName := n } (Fetch.eqv_refl _)) he

def evIdx : Ev → Nat
  | .data o _ => o
  | .timeout o _ => o
  | .unsolicited => 0

/-- the arrival (if any) an engine event hands to the fetch state of the stream it belongs to;
    `finalizeError` is `handleData .timeout` -/
def stepArr (serve : Name → Bool → Option Pkt) (c : Client) : Ev → Option Arrival
  | .unsolicited => none
  | .data o none =>
    if !(c.getCons o).metaPending then none else
    match c.served serve o none with
    | none => none
    | some p =>
      match p.md with
      | none => some .timeout
      | some (n, _) => consArr n true
  | .timeout o none =>
    if !(c.getCons o).metaPending then none
    else if (c.getCons o).metaRetries > 0 then none else some .timeout
  | .data o (some k) =>
    if !((c.getCons o).pending.any (·.1 = k)) then none else
    match c.served serve o (some k) with
    | none => none
    | some p => some (.data p)
  | .timeout o (some k) =>
    match (c.getCons o).pending.find? (·.1 = k) with
    | none => none
    | some (_, left) => if left > 0 then none else some .timeout

theorem eff_bad (c : Client) (o : Nat) : Eff c c.bad o none :=
  eff_of_frame c _ _ o (frame_of_cons_eq c _ rfl) rfl

/-- one engine event: only the stream it belongs to is touched, by exactly the arrival `stepArr` -/
theorem step_eff (serve : Name → Bool → Option Pkt) (c : Client) (e : Ev) (h : evIdx e < c.cons.length) :
    Eff c (c.step serve e) (evIdx e) (stepArr serve c e) := by
  cases e with
  | unsolicited => exact eff_of_frame c _ _ 0 (frame_refl c) rfl
  | data o key =>
    simp only [evIdx] at h
    cases key with
    | none =>
      simp only [Client.step, stepArr, evIdx]
      by_cases hm : (c.getCons o).metaPending = true
      · simp only [hm, Bool.not_true, Bool.false_eq_true, if_false]
        cases c.served serve o none with
        | none => exact eff_bad c o
        | some p =>
          simp only
          have hf1 : Frame c (c.setCons o { (c.getCons o) with metaPending := false }) :=
            frame_setCons c o _ (Fetch.eqv_refl _)
          cases hmd : p.md with
          | none =>
            simp only
            exact eff_of_frame_eff c _ _ o _ hf1 (fail_eff _ o (by rw [length_setCons]; exact h))
          | some nm =>
            obtain ⟨n, fb⟩ := nm
            simp only
            have hl1 : o < (c.setCons o { (c.getCons o) with metaPending := false }).cons.length := by
              rw [length_setCons]; exact h
            exact eff_of_frame_eff c _ _ o _ hf1 (meta_ok_eff _ o n hl1)
      · simp only [hm, Bool.not_false, if_true]
        exact eff_bad c o
    | some k =>
      simp only [Client.step, stepArr, evIdx]
      by_cases hp : (c.getCons o).pending.any (·.1 = k) = true
      · simp only [hp, Bool.not_true, Bool.false_eq_true, if_false]
        cases c.served serve o (some k) with
        | none => exact eff_bad c o
        | some p => exact handleData_eff c o k (.data p) h
      · simp only [hp, Bool.not_false, if_true]
        exact eff_bad c o
  | timeout o key =>
    simp only [evIdx] at h
    cases key with
    | none =>
      simp only [Client.step, stepArr, evIdx]
      by_cases hm : (c.getCons o).metaPending = true
      · simp only [hm, Bool.not_true, Bool.false_eq_true, if_false]
        by_cases hr : (c.getCons o).metaRetries > 0
        · simp only [hr, if_true]
          exact eff_of_frame c _ _ o (frame_setCons c o _ (Fetch.eqv_refl _)) rfl
        · simp only [hr, if_false]
          exact eff_of_frame_eff c _ _ o _ (frame_setCons c o { (c.getCons o) with metaPending := false } (Fetch.eqv_refl _))
            (fail_eff _ o (by rw [length_setCons]; exact h))
      · simp only [hm, Bool.not_false, if_true]
        exact eff_bad c o
    | some k =>
      simp only [Client.step, stepArr, evIdx]
      cases (c.getCons o).pending.find? (·.1 = k) with
      | none => exact eff_bad c o
      | some kl =>
        obtain ⟨k', left⟩ := kl
        simp only
        by_cases hl : left > 0
        · simp only [hl, if_true]
          exact eff_of_frame c _ _ o (frame_setCons c o _ (Fetch.eqv_refl _)) rfl
        · simp only [hl, if_false]
          exact handleData_eff c o k .timeout h

/-! ### projection of a whole run onto one stream -/

abbrev RunSt := Client × List Out × List ((Nat × Key) × Nat)

/-- the state transformer `Client.run` folds over the events (copied from its definition) -/
def runStep (serve : Name → Bool → Option Pkt) (delivers : Nat → Key → Nat → Bool) (acc : RunSt) (e : Ev) : RunSt :=
  let c := acc.1
  let cnt := acc.2.2
  let consistent : Bool :=
    match e with
    | .data o k => delivers o k (countOf cnt (o, k)) && (c.served serve o k).isSome
    | .timeout o k => !(delivers o k (countOf cnt (o, k)) && (c.served serve o k).isSome)
    | .unsolicited => true
  let r := c.step serve e
  let c' := if consistent then r.1 else { r.1 with impossible := true }
  (c', acc.2.1 ++ [r.2], r.2.sent.foldl bump cnt)

def runInit (names : List Name) : RunSt :=
  let s0 := Client.start names
  (s0.1, [s0.2], s0.2.sent.foldl bump [])

theorem ite_impossible_cons (b : Bool) (x : Client) :
    (if b = true then x else { x with impossible := true }).cons = x.cons := by cases b <;> rfl

theorem run_eq_foldl (serve : Name → Bool → Option Pkt) (delivers : Nat → Key → Nat → Bool) (names : List Name) (evs : List Ev) :
    Client.run serve delivers names evs =
      ((evs.foldl (runStep serve delivers) (runInit names)).1, (evs.foldl (runStep serve delivers) (runInit names)).2.1) := rfl

/-- ghost: the arrivals handed to stream `o` while the events `evs` are processed from state `st` -/
def arrivalsOf (serve : Name → Bool → Option Pkt) (delivers : Nat → Key → Nat → Bool) (o : Nat) : RunSt → List Ev → List Arrival
  | _, [] => []
  | st, e :: es =>
    (match stepArr serve st.1 e with
      | some a => if evIdx e = o then [a] else []
      | none => []) ++ arrivalsOf serve delivers o (runStep serve delivers st e) es

theorem runFetch_append (f : Fetch) (a b : List Arrival) :
    runFetch f (a ++ b) = ((runFetch (runFetch f a).1 b).1, (runFetch f a).2 ++ (runFetch (runFetch f a).1 b).2) := by
  induction a generalizing f with
  | nil => simp [runFetch]
  | cons x xs ih => simp only [List.cons_append, runFetch, ih, List.append_assoc]

def outsCbs (o : Nat) (outs : List Out) : List CbRec := cbsOf o (outs.flatMap (·.cbs))

theorem outsCbs_snoc (o : Nat) (outs : List Out) (x : Out) : outsCbs o (outs ++ [x]) = outsCbs o outs ++ cbsOf o x.cbs := by
  simp [outsCbs, cbsOf_append]

/-- processing events keeps every stream's fetch state equal (up to `wnd2`) to the single-stream machine
    fed with that stream's arrivals, and its callbacks equal to that machine's callbacks -/
theorem run_projection (serve : Name → Bool → Option Pkt) (delivers : Nat → Key → Nat → Bool) (o : Nat) :
    ∀ (evs : List Ev) (st : RunSt) (g : Fetch), (∀ e ∈ evs, evIdx e < st.1.cons.length) → ((st.1.getCons o).f).eqv g →
      let fin := evs.foldl (runStep serve delivers) st
      fin.1.cons.length = st.1.cons.length ∧
      ((fin.1.getCons o).f).eqv (runFetch g (arrivalsOf serve delivers o st evs)).1 ∧
      outsCbs o fin.2.1 = outsCbs o st.2.1 ++ (runFetch g (arrivalsOf serve delivers o st evs)).2 := by
  intro evs
  induction evs with
  | nil => intro st g _ hg; simpa [arrivalsOf, runFetch] using hg
  | cons e es ih =>
    intro st g hidx hg
    have he := step_eff serve st.1 e (hidx e (List.mem_cons_self ..))
    -- the state after this event
    have hcons : (runStep serve delivers st e).1.cons = (st.1.step serve e).1.cons := by
      simp only [runStep]; exact ite_impossible_cons _ _
    have hlen : (runStep serve delivers st e).1.cons.length = st.1.cons.length := by rw [hcons]; exact he.1
    have hget : ∀ i, (runStep serve delivers st e).1.getCons i = (st.1.step serve e).1.getCons i := by
      intro i; simp only [Client.getCons, hcons]
    have houts : (runStep serve delivers st e).2.1 = st.2.1 ++ [(st.1.step serve e).2] := rfl
    obtain ⟨h1, h2⟩ := he.2 o
    -- arrival for stream o at this event
    let ao : Option Arrival := if evIdx e = o then stepArr serve st.1 e else none
    have hao1 : ((st.1.step serve e).1.getCons o).f.eqv (applyArr (st.1.getCons o).f ao).1 := by
      by_cases hoi : o = evIdx e
      · simp only [hoi, if_true] at h1; simpa [ao, hoi] using h1
      · have : ¬ evIdx e = o := fun x => hoi x.symm
        simp only [hoi, if_false] at h1; simpa [ao, this, applyArr] using h1
    have hao2 : cbsOf o (st.1.step serve e).2.cbs = (applyArr (st.1.getCons o).f ao).2 := by
      by_cases hoi : o = evIdx e
      · simp only [hoi, if_true] at h2; simpa [ao, hoi] using h2
      · have : ¬ evIdx e = o := fun x => hoi x.symm
        simp only [hoi, if_false] at h2; simpa [ao, this, applyArr] using h2
    have hgg := applyArr_eqv _ _ ao hg
    have := ih (runStep serve delivers st e) (applyArr g ao).1
      (fun e' he' => by rw [hlen]; exact hidx e' (List.mem_cons_of_mem _ he'))
      (by rw [hget]; exact Fetch.eqv_trans hao1 hgg.1)
    obtain ⟨i1, i2, i3⟩ := this
    have harr : arrivalsOf serve delivers o st (e :: es) = ao.toList ++ arrivalsOf serve delivers o (runStep serve delivers st e) es := by
      simp only [arrivalsOf, ao]
      congr 1
      cases stepArr serve st.1 e with
      | none => simp
      | some a => by_cases h : evIdx e = o <;> simp [h]
    have hrf : ∀ rest, runFetch g (ao.toList ++ rest) =
        ((runFetch (applyArr g ao).1 rest).1, (applyArr g ao).2 ++ (runFetch (applyArr g ao).1 rest).2) := by
      intro rest
      cases ao with
      | none => simp [applyArr]
      | some a => simp [applyArr, runFetch]
    simp only [List.foldl_cons]
    refine ⟨i1.trans hlen, ?_, ?_⟩
    · rw [harr, hrf]; exact i2
    · rw [harr, hrf, i3, houts, outsCbs_snoc, hao2, hgg.2, List.append_assoc]

/-! ### the `Consume` calls at the start of a run -/

def startClient (names : List Name) : Client := { cons := names.map fun n => { name := n, fetchName := n } }

def startStep (acc : Client × Out) (o : Nat) : Client × Out :=
  let r := acc.1.consumeObject o false
  (r.1, acc.2.append r.2)

theorem start_eq_foldl (names : List Name) :
    Client.start names = (List.range names.length).foldl startStep (startClient names, {}) := rfl

/-- ghost: the arrivals handed to stream `o` by the `Consume` calls `is` (an immediate error for an empty name) -/
def startArrs (o : Nat) : Client → List Nat → List Arrival
  | _, [] => []
  | c, i :: is =>
    (match consArr (c.getCons i).fetchName false with
      | some a => if i = o then [a] else []
      | none => []) ++ startArrs o (c.consumeObject i false).1 is

theorem start_projection (o : Nat) :
    ∀ (is : List Nat) (acc : Client × Out) (g : Fetch), (∀ i ∈ is, i < acc.1.cons.length) → ((acc.1.getCons o).f).eqv g →
      let fin := is.foldl startStep acc
      fin.1.cons.length = acc.1.cons.length ∧
      ((fin.1.getCons o).f).eqv (runFetch g (startArrs o acc.1 is)).1 ∧
      cbsOf o fin.2.cbs = cbsOf o acc.2.cbs ++ (runFetch g (startArrs o acc.1 is)).2 := by
  intro is
  induction is with
  | nil => intro acc g _ hg; simpa [startArrs, runFetch] using hg
  | cons i rest ih =>
    intro acc g hidx hg
    have he := consumeObject_eff acc.1 i false (hidx i (List.mem_cons_self ..))
    obtain ⟨h1, h2⟩ := he.2 o
    let ao : Option Arrival := if i = o then consArr (acc.1.getCons i).fetchName false else none
    have hao1 : ((acc.1.consumeObject i false).1.getCons o).f.eqv (applyArr (acc.1.getCons o).f ao).1 := by
      by_cases hoi : o = i
      · simp only [hoi, if_true] at h1; simpa [ao, hoi] using h1
      · have : ¬ i = o := fun x => hoi x.symm
        simp only [hoi, if_false] at h1; simpa [ao, this, applyArr] using h1
    have hao2 : cbsOf o (acc.1.consumeObject i false).2.cbs = (applyArr (acc.1.getCons o).f ao).2 := by
      by_cases hoi : o = i
      · simp only [hoi, if_true] at h2; simpa [ao, hoi] using h2
      · have : ¬ i = o := fun x => hoi x.symm
        simp only [hoi, if_false] at h2; simpa [ao, this, applyArr] using h2
    have hgg := applyArr_eqv _ _ ao hg
    have := ih (startStep acc i) (applyArr g ao).1
      (fun j hj => by simp only [startStep]; rw [he.1]; exact hidx j (List.mem_cons_of_mem _ hj))
      (Fetch.eqv_trans hao1 hgg.1)
    obtain ⟨i1, i2, i3⟩ := this
    have harr : startArrs o acc.1 (i :: rest) = ao.toList ++ startArrs o (startStep acc i).1 rest := by
      simp only [startArrs, ao, startStep]
      congr 1
      cases consArr (acc.1.getCons i).fetchName false with
      | none => simp
      | some a => by_cases h : i = o <;> simp [h]
    have hrf : ∀ rest', runFetch g (ao.toList ++ rest') =
        ((runFetch (applyArr g ao).1 rest').1, (applyArr g ao).2 ++ (runFetch (applyArr g ao).1 rest').2) := by
      intro rest'
      cases ao with
      | none => simp [applyArr]
      | some a => simp [applyArr, runFetch]
    simp only [List.foldl_cons]
    refine ⟨i1.trans (by simp only [startStep]; exact he.1), ?_, ?_⟩
    · rw [harr, hrf]; exact i2
    · rw [harr, hrf, i3]
      simp only [startStep, Out.append, cbsOf_append, hao2, hgg.2, List.append_assoc]

theorem startClient_f (names : List Name) (o : Nat) : ((startClient names).getCons o).f = {} := by
  simp only [startClient, Client.getCons, List.getD_eq_getElem?_getD, List.getElem?_map]
  cases names[o]? <;> rfl

/-- all arrivals of stream `o` in a run: those of the `Consume` calls, then those of the events -/
def runArrivals (serve : Name → Bool → Option Pkt) (delivers : Nat → Key → Nat → Bool) (names : List Name)
    (evs : List Ev) (o : Nat) : List Arrival :=
  startArrs o (startClient names) (List.range names.length) ++ arrivalsOf serve delivers o (runInit names) evs

/-- the multi-stream run projected on stream `o` is a run of the single-stream machine -/
theorem run_refines (serve : Name → Bool → Option Pkt) (delivers : Nat → Key → Nat → Bool) (names : List Name)
    (evs : List Ev) (o : Nat) (hidx : ∀ e ∈ evs, evIdx e < names.length) :
    (((Client.run serve delivers names evs).1.getCons o).f).eqv (runFetch {} (runArrivals serve delivers names evs o)).1 ∧
    outsCbs o (Client.run serve delivers names evs).2 = (runFetch {} (runArrivals serve delivers names evs o)).2 := by
  have hs := start_projection o (List.range names.length) (startClient names, {}) {}
    (by intro i hi; simpa [startClient] using hi) (by rw [startClient_f]; exact Fetch.eqv_refl _)
  rw [← start_eq_foldl] at hs
  obtain ⟨s1, s2, s3⟩ := hs
  have hlen : (runInit names).1.cons.length = names.length := by
    show (Client.start names).1.cons.length = _
    rw [s1]; simp [startClient]
  have hr := run_projection serve delivers o evs (runInit names) _
    (by intro e he; rw [hlen]; exact hidx e he) s2
  obtain ⟨_, r2, r3⟩ := hr
  rw [run_eq_foldl]
  simp only [runArrivals, runFetch_append]
  refine ⟨r2, ?_⟩
  rw [r3]
  congr 1
  show outsCbs o [(Client.start names).2] = _
  simpa [outsCbs, cbsOf] using s3

end Ndn.C15
