/-
  C15 — liveness of the multi-stream fetcher at quiescence: bookkeeping invariants that tie the
  fetch window (`wnd1`, `wnd2`, `content`) to the Interests that are out (`pending`,
  `outstanding`), used to show that when no Interest is pending any more every Consume has
  completed (no stream starves behind another one).
-/
import NdnVerif.C15.LemmasPick
import NdnVerif.C15.LemmasFetch
namespace Ndn.C15

def keys (x : Cons) : List Nat := x.pending.map (·.1)

/-- per-stream bookkeeping -/
structure KCons (x : Cons) : Prop where
  nodup : (keys x).Nodup
  lt : ∀ k ∈ keys x, k < x.f.wnd2
  small : x.f.wnd2 ≤ maxObjectSeg
  live : x.f.complete = false →
    match x.f.segCnt with
    | none => x.f.wnd1 = 0 ∧ x.f.wnd2 ≤ 1 ∧ ∀ k : Nat, k < x.f.wnd2 → k ∈ keys x
    | some n => 0 < n ∧ n ≤ maxObjectSeg ∧ x.f.content.length = n ∧ x.f.wnd1 < n ∧
        (x.f.content.getD x.f.wnd1 none).isSome = false ∧ x.f.wnd2 ≤ n ∧
        ∀ k : Nat, k < x.f.wnd2 → k ∈ keys x ∨ (x.f.content.getD k none).isSome = true

theorem KCons.default : KCons (default : Cons) := by
  refine ⟨List.nodup_nil, ?_, Nat.zero_le _, ?_⟩
  · intro k h; cases h
  intro _
  show (0 : Nat) = 0 ∧ (0 : Nat) ≤ 1 ∧ ∀ k : Nat, k < 0 → k ∈ ([] : List Nat)
  refine ⟨rfl, by omega, ?_⟩
  intro k h; omega

theorem fe_spec (f : Fetch) : (f.finalizeError).1.complete = true ∧ (f.finalizeError).1.wnd2 = f.wnd2 := by
  unfold Fetch.finalizeError
  by_cases h : f.complete = true
  · simp [h]
  · simp [h, Fetch.callback]

/-- a waiting stream has an Interest out -/
theorem KCons.waiting_pending {x : Cons} (K : KCons x) (hw : waiting x.f = true) : x.pending ≠ [] := by
  intro he
  have hk : keys x = [] := by simp [keys, he]
  simp only [waiting, Bool.and_eq_true, Bool.not_eq_true', Bool.or_eq_true] at hw
  obtain ⟨hc, hw⟩ := hw
  have L := K.live hc
  rcases hw with hw | hw
  · simp only [skipWait, Bool.and_eq_true, decide_eq_true_eq] at hw
    obtain ⟨h1, h2⟩ := hw
    cases hs : x.f.segCnt with
    | some n => rw [hs] at h1; simp at h1
    | none =>
      rw [hs] at L
      have := L.2.2 0 h2
      rw [hk] at this; cases this
  · cases hs : x.f.segCnt with
    | none => simp [skipOut, hs] at hw
    | some n =>
      rw [hs] at L
      simp only [skipOut, hs, Bool.and_eq_true, decide_eq_true_eq] at hw
      obtain ⟨_, _, _, h4, h5, h6, h7⟩ := L
      rcases h7 x.f.wnd1 (by omega) with h | h
      · rw [hk] at h; cases h
      · rw [h5] at h; cases h

/-- a queued, unfinished stream without Interests out has a segment to request -/
theorem KCons.idle_eligible {x : Cons} (K : KCons x) (hc : x.f.complete = false) (hp : x.pending = []) :
    eligible x.f = true := by
  by_cases hw : waiting x.f = true
  · exact absurd hp (K.waiting_pending hw)
  · simp only [waiting, hc, Bool.not_false, Bool.true_and, Bool.or_eq_true, not_or, Bool.not_eq_true] at hw
    simp [eligible, hc, hw.1, hw.2]

/-- first half of `handleData` for a Data packet: the segment count from FinalBlockId -/
def hdInit (f : Fetch) (p : Pkt) : Option Fetch :=
  match f.segCnt with
  | some _ => some f
  | none =>
    match p.fb with
    | none => none
    | some fb =>
      if fb.typ ≠ typSegment then none
      else
        let cnt := numberVal fb + 1
        if cnt > maxObjectSeg then none
        else some { f with segCnt := some cnt, content := List.replicate cnt none }

/-- second half: store the segment, move the window -/
def hdTail (f : Fetch) (p : Pkt) : Fetch × List CbRec :=
  let segCnt := f.segCnt.getD 0
  match p.name.getLast? with
  | none => ({ f with panic := true, complete := true }, [])
  | some sc =>
    if sc.typ ≠ typSegment then f.finalizeError
    else
      let segNum := numberVal sc
      if segNum ≥ segCnt then f.finalizeError
      else
        let f := { f with content := f.content.set segNum (some p.content) }
        if p.content.isEmpty then f.finalizeError
        else if f.wnd1 = segNum then
          let w1 := advance f.content segCnt (segCnt + 1) f.wnd1
          let f := { f with wnd1 := w1, complete := w1 = segCnt }
          let r := f.callback
          (r.1, [r.2])
        else (f, [])

theorem hd_eq (f : Fetch) (p : Pkt) (hc : f.complete = false) :
    f.handleData (.data p) = match hdInit f p with
      | none => f.finalizeError
      | some g => hdTail g p := by
  unfold Fetch.handleData
  rw [if_neg (by rw [hc]; exact Bool.false_ne_true)]
  rfl

theorem hd_complete (f : Fetch) (a : Arrival) (hc : f.complete = true) : f.handleData a = (f, []) := by
  unfold Fetch.handleData
  rw [if_pos hc]

theorem hd_timeout (f : Fetch) (hc : f.complete = false) : f.handleData .timeout = f.finalizeError := by
  unfold Fetch.handleData
  rw [if_neg (by rw [hc]; exact Bool.false_ne_true)]

theorem hdInit_spec (f g : Fetch) (p : Pkt) (h : hdInit f p = some g) :
    g.wnd1 = f.wnd1 ∧ g.wnd2 = f.wnd2 ∧ g.complete = f.complete ∧
    ((∃ n, f.segCnt = some n ∧ g = f) ∨
      (f.segCnt = none ∧ ∃ n, 1 ≤ n ∧ n ≤ maxObjectSeg ∧ g.segCnt = some n ∧ g.content = List.replicate n none)) := by
  unfold hdInit at h
  cases hs : f.segCnt with
  | some n => simp only [hs] at h; cases h; exact ⟨rfl, rfl, rfl, Or.inl ⟨n, rfl, rfl⟩⟩
  | none =>
    simp only [hs] at h
    cases hfb : p.fb with
    | none => simp [hfb] at h
    | some fb =>
      simp only [hfb] at h
      split at h
      · cases h
      · split at h
        · cases h
        · rename_i h1 h2
          cases h
          exact ⟨rfl, rfl, rfl, Or.inr ⟨rfl, numberVal fb + 1, by omega, by omega, rfl, rfl⟩⟩

/-- the tail either finishes the stream or stores segment `k` and moves `wnd1` over the filled prefix -/
theorem hdTail_spec (g : Fetch) (p : Pkt) (k n : Nat) (hk64 : k < 2 ^ 64)
    (hl : p.name.getLast? = some (segComp k)) (hgs : g.segCnt = some n) :
    (hdTail g p).1.wnd2 = g.wnd2 ∧
    ((hdTail g p).1.complete = false → k < n ∧
      (hdTail g p).1.segCnt = some n ∧ (hdTail g p).1.content = g.content.set k (some p.content) ∧
      ((g.wnd1 ≠ k ∧ (hdTail g p).1.wnd1 = g.wnd1) ∨
        (g.wnd1 = k ∧ (hdTail g p).1.wnd1 = advance (g.content.set k (some p.content)) n (n + 1) g.wnd1 ∧
          (hdTail g p).1.wnd1 ≠ n))) := by
  have hnv : numberVal (segComp k) = k := numberVal_segComp k hk64
  have hty : (segComp k).typ = typSegment := rfl
  by_cases hkn : k ≥ n
  · have e : hdTail g p = g.finalizeError := by
      unfold hdTail
      simp only [hl, hgs, Option.getD_some, hty, ne_eq, not_true_eq_false, if_false, hnv, hkn, if_true]
    rw [e]
    exact ⟨(fe_spec g).2, fun h => by rw [(fe_spec g).1] at h; cases h⟩
  · by_cases hemp : p.content.isEmpty = true
    · have e : hdTail g p = ({ g with content := g.content.set k (some p.content) } : Fetch).finalizeError := by
        unfold hdTail
        simp only [hl, hgs, Option.getD_some, hty, ne_eq, not_true_eq_false, if_false, hnv, hkn, hemp, if_true]
      rw [e]
      exact ⟨(fe_spec _).2, fun h => by rw [(fe_spec _).1] at h; cases h⟩
    · by_cases hw : g.wnd1 = k
      · have e : (hdTail g p).1 =
            { g with
              content := g.content.set k (some p.content)
              wnd1 := advance (g.content.set k (some p.content)) n (n + 1) g.wnd1
              wnd0 := advance (g.content.set k (some p.content)) n (n + 1) g.wnd1
              complete := decide (advance (g.content.set k (some p.content)) n (n + 1) g.wnd1 = n) } := by
          unfold hdTail
          simp only [hl, hgs, Option.getD_some, hty, ne_eq, not_true_eq_false, if_false, hnv, hkn, hemp,
            Bool.false_eq_true, hw, if_true, Fetch.callback]
        rw [e]
        refine ⟨rfl, fun h => ⟨by omega, hgs, rfl, Or.inr ⟨hw, rfl, ?_⟩⟩⟩
        have h' : decide (advance (g.content.set k (some p.content)) n (n + 1) g.wnd1 = n) = false := h
        simpa using h'
      · have e : (hdTail g p).1 = { g with content := g.content.set k (some p.content) } := by
          unfold hdTail
          simp only [hl, hgs, Option.getD_some, hty, ne_eq, not_true_eq_false, if_false, hnv, hkn, hemp,
            Bool.false_eq_true, hw]
        rw [e]
        exact ⟨rfl, fun _ => ⟨by omega, hgs, rfl, Or.inl ⟨hw, rfl⟩⟩⟩

theorem keys_filter (x : Cons) (k : Nat) :
    (x.pending.filter (fun e => decide (e.1 ≠ k))).map (·.1) = (keys x).filter (fun j => decide (j ≠ k)) := by
  unfold keys
  rw [List.filter_map]
  rfl

theorem getD_set_ne {α : Type} (l : List α) (i j : Nat) (a d : α) (h : i ≠ j) : (l.set i a).getD j d = l.getD j d := by
  simp [List.getD_eq_getElem?_getD, List.getElem?_set, h]

theorem getD_set_eq {α : Type} (l : List α) (i : Nat) (a d : α) (h : i < l.length) : (l.set i a).getD i d = a := by
  simp [List.getD_eq_getElem?_getD, List.getElem?_set, h]

theorem maxObjectSeg_lt : maxObjectSeg < 2 ^ 64 := by decide

/-- a segment result (Data named `…/seg=k`, or a failure) keeps the bookkeeping of its stream -/
theorem KCons.handleData {x : Cons} (K : KCons x) (k : Nat) (a : Arrival) (hk : k ∈ keys x)
    (ha : ∀ p, a = .data p → p.name.getLast? = some (segComp k)) :
    KCons { x with f := (x.f.handleData a).1, pending := x.pending.filter (fun e => decide (e.1 ≠ k)) } := by
  have hk2 : k < x.f.wnd2 := K.lt k hk
  have hk64 : k < 2 ^ 64 := by have := K.small; have := maxObjectSeg_lt; omega
  have hkeys : keys { x with f := (x.f.handleData a).1, pending := x.pending.filter (fun e => decide (e.1 ≠ k)) }
      = (keys x).filter (fun j => decide (j ≠ k)) := keys_filter x k
  have hmem : ∀ j : Nat, j ∈ (keys x).filter (fun j => decide (j ≠ k)) ↔ j ∈ keys x ∧ j ≠ k := by
    intro j; simp [List.mem_filter]
  -- wnd2 is never written by handleData
  have hw2 : (x.f.handleData a).1.wnd2 = x.f.wnd2 := by
    by_cases hc : x.f.complete = true
    · rw [hd_complete _ _ hc]
    · have hc' : x.f.complete = false := Bool.eq_false_iff.mpr hc
      cases a with
      | timeout => rw [hd_timeout _ hc']; exact (fe_spec _).2
      | data p =>
        rw [hd_eq _ _ hc']
        cases hi : hdInit x.f p with
        | none => exact (fe_spec _).2
        | some g =>
          simp only
          obtain ⟨_, g2, _, hg⟩ := hdInit_spec x.f g p hi
          have hgs : ∃ n, g.segCnt = some n := by
            rcases hg with ⟨n, h1, h2⟩ | ⟨_, n, _, _, h3, _⟩
            · exact ⟨n, by rw [h2]; exact h1⟩
            · exact ⟨n, h3⟩
          obtain ⟨n, hgs⟩ := hgs
          rw [(hdTail_spec g p k n hk64 (ha p rfl) hgs).1, g2]
  refine ⟨?_, ?_, ?_, ?_⟩
  · rw [hkeys]; exact K.nodup.sublist List.filter_sublist
  · intro j hj
    rw [hkeys, hmem] at hj
    show j < (x.f.handleData a).1.wnd2
    rw [hw2]; exact K.lt j hj.1
  · show (x.f.handleData a).1.wnd2 ≤ maxObjectSeg
    rw [hw2]; exact K.small
  · intro hc'
    have hc'' : (x.f.handleData a).1.complete = false := hc'
    dsimp only
    rw [hkeys, hw2]
    by_cases hc : x.f.complete = true
    · rw [hd_complete _ _ hc] at hc''; rw [hc] at hc''; cases hc''
    have hcf : x.f.complete = false := Bool.eq_false_iff.mpr hc
    have L := K.live hcf
    cases a with
    | timeout => rw [hd_timeout _ hcf, (fe_spec _).1] at hc''; cases hc''
    | data p =>
      rw [hd_eq _ _ hcf] at hc'' ⊢
      cases hi : hdInit x.f p with
      | none => rw [hi] at hc''; simp only at hc''; rw [(fe_spec _).1] at hc''; cases hc''
      | some g =>
        rw [hi] at hc''
        simp only at hc'' ⊢
        obtain ⟨g1, g2, g3, hg⟩ := hdInit_spec x.f g p hi
        -- segment count and buffer before the segment is stored
        have hpre : ∃ n, g.segCnt = some n ∧ 0 < n ∧ n ≤ maxObjectSeg ∧ g.content.length = n ∧ g.wnd1 < n ∧
            (g.content.getD g.wnd1 none).isSome = false ∧ x.f.wnd2 ≤ n ∧
            ∀ j : Nat, j < x.f.wnd2 → j ∈ keys x ∨ (g.content.getD j none).isSome = true := by
          rcases hg with ⟨n, h1, h2⟩ | ⟨h0, n, h1, h2, h3, h4⟩
          · rw [h1] at L
            subst h2
            exact ⟨n, h1, L⟩
          · rw [h0] at L
            obtain ⟨l1, l2, l3⟩ := L
            refine ⟨n, h3, by omega, h2, by rw [h4]; simp, by rw [g1, l1]; omega, ?_, by omega, fun j hj => Or.inl (l3 j hj)⟩
            rw [h4, g1, l1]
            cases n with
            | zero => omega
            | succ m => simp [List.replicate_succ]
        obtain ⟨n, hgs, p1, p2, p3, p4, p5, p6, p7⟩ := hpre
        obtain ⟨_, T⟩ := hdTail_spec g p k n hk64 (ha p rfl) hgs
        obtain ⟨t1, t2, t3, t4⟩ := T hc''
        rw [t2]
        simp only
        have hlen : (g.content.set k (some p.content)).length = n := by rw [List.length_set]; exact p3
        have hcov : ∀ j : Nat, j < x.f.wnd2 → j ∈ (keys x).filter (fun j => decide (j ≠ k)) ∨
            ((g.content.set k (some p.content)).getD j none).isSome = true := by
          intro j hj
          by_cases hjk : j = k
          · subst hjk
            right
            rw [getD_set_eq _ _ _ _ (by omega)]; rfl
          · rcases p7 j hj with h | h
            · exact Or.inl ((hmem j).mpr ⟨h, hjk⟩)
            · right; rw [getD_set_ne _ _ _ _ _ (fun e => hjk e.symm)]; exact h
        rw [t3]
        rcases t4 with ⟨w1, w2⟩ | ⟨w1, w2, w3⟩
        · rw [w2]
          refine ⟨p1, p2, hlen, p4, ?_, p6, hcov⟩
          rw [getD_set_ne _ _ _ _ _ (fun e => w1 e.symm)]; exact p5
        · obtain ⟨a1, a2, _, a4⟩ := advance_spec (g.content.set k (some p.content)) n (n + 1) g.wnd1 (by omega) (by omega)
          rw [w2] at w3 ⊢
          have hlt : advance (g.content.set k (some p.content)) n (n + 1) g.wnd1 < n := by omega
          exact ⟨p1, p2, hlen, hlt, a4 hlt, p6, hcov⟩

/-! ### client-level bookkeeping -/

def totalPending (c : Client) : Nat := (c.cons.map fun x => x.pending.length).sum

theorem sum_map_set {α : Type} (f : α → Nat) : ∀ (l : List α) (i : Nat) (a : α) (h : i < l.length),
    ((l.set i a).map f).sum + f (l[i]) = (l.map f).sum + f a := by
  intro l
  induction l with
  | nil => intro i a h; cases h
  | cons x t ih =>
    intro i a h
    cases i with
    | zero => simp; omega
    | succ i =>
      have := ih i a (by simpa using h)
      simp only [List.set_cons_succ, List.map_cons, List.sum_cons, List.getElem_cons_succ]
      omega

theorem getCons_of_lt (c : Client) (o : Nat) (h : o < c.cons.length) : c.getCons o = c.cons[o] := by
  unfold Client.getCons
  rw [List.getD_eq_getElem?_getD, List.getElem?_eq_getElem h]; rfl

theorem totalPending_setCons (c : Client) (o : Nat) (x : Cons) (h : o < c.cons.length) :
    totalPending (c.setCons o x) + (c.getCons o).pending.length = totalPending c + x.pending.length := by
  unfold totalPending Client.setCons
  rw [getCons_of_lt c o h]
  exact sum_map_set (fun x => x.pending.length) c.cons o x h

theorem setCons_of_ge (c : Client) (o : Nat) (x : Cons) (h : ¬ o < c.cons.length) : c.setCons o x = c := by
  unfold Client.setCons
  rw [List.set_eq_of_length_le (by omega)]

structure Inv5 (N : Nat) (c : Client) : Prop where
  len : c.cons.length = N
  k : ∀ o : Nat, KCons (c.getCons o)
  out : c.outstanding = totalPending c
  inrange : ∀ o ∈ c.streams, o < c.cons.length

/-- consume `o` is somewhere: queued in the fetcher, waiting for its metadata, or finished -/
def Placed (c : Client) (o : Nat) : Prop :=
  o ∈ c.streams ∨ (c.getCons o).metaPending = true ∨ (c.getCons o).f.complete = true

theorem KCons.congr {x y : Cons} (K : KCons x) (hf : y.f = x.f) (hp : y.pending = x.pending) : KCons y := by
  have hk : keys y = keys x := by unfold keys; rw [hp]
  refine ⟨by rw [hk]; exact K.nodup, by rw [hk, hf]; exact K.lt, by rw [hf]; exact K.small, ?_⟩
  intro hc
  rw [hf] at hc ⊢
  rw [hk]
  exact K.live hc

/-- replacing the record of one consume by one with the same pending list and an acceptable fetch
    state keeps the client bookkeeping -/
theorem Inv5.setCons {N : Nat} {c : Client} (I : Inv5 N c) (o : Nat) (x : Cons) (hK : KCons x)
    (hp : x.pending.length = (c.getCons o).pending.length) : Inv5 N (c.setCons o x) := by
  by_cases h : o < c.cons.length
  · refine ⟨by unfold Client.setCons; simp [I.len], ?_, ?_, ?_⟩
    · intro o'
      rw [getCons_setCons]
      split
      · exact hK
      · exact I.k o'
    · have := totalPending_setCons c o x h
      show c.outstanding = _
      rw [I.out]; omega
    · intro o' ho'
      show o' < (c.cons.set o x).length
      rw [List.length_set]; exact I.inrange o' ho'
  · rw [setCons_of_ge c o x h]; exact I

theorem KCons.fail {x : Cons} (K : KCons x) : KCons { x with f := x.f.finalizeError.1 } := by
  have h1 := fe_spec x.f
  refine ⟨K.nodup, ?_, ?_, ?_⟩
  · intro k hk; show k < x.f.finalizeError.1.wnd2; rw [h1.2]; exact K.lt k hk
  · show x.f.finalizeError.1.wnd2 ≤ _; rw [h1.2]; exact K.small
  · intro hc
    have : x.f.finalizeError.1.complete = false := hc
    rw [h1.1] at this; cases this

theorem Inv5.fail {N : Nat} {c : Client} (I : Inv5 N c) (o : Nat) : Inv5 N (c.fail o).1 := by
  unfold Client.fail
  exact I.setCons o _ (I.k o).fail rfl

theorem fail_placed (c : Client) (o o' : Nat) (ho : o < c.cons.length) (h : o' = o ∨ Placed c o') :
    Placed (c.fail o).1 o' := by
  unfold Client.fail Placed
  simp only
  rw [getCons_setCons]
  by_cases he : o' = o
  · subst he
    simp only [ho, and_self, if_true]
    exact Or.inr (Or.inr (fe_spec _).1)
  · simp only [he, false_and, if_false]
    rcases h with h | h
    · exact absurd h he
    · exact h

/-! ### doCheck keeps the bookkeeping -/

theorem mem_eraseIdx_or {l : List Nat} {i a : Nat} (h : a ∈ l) : a ∈ l.eraseIdx i ∨ a = l.getD i 0 := by
  by_cases he : l.getD i 0 = a
  · exact Or.inr he.symm
  · exact Or.inl (mem_eraseIdx_of_ne h he)

/-- the selection loop removes only finished streams -/
theorem pick_removed (cons : List Cons) : ∀ (fuel : Nat) (streams : List Nat) (rr : Nat) (first : Option Nat),
    ∀ x ∈ streams, x ∈ (pick cons fuel streams rr first).1 ∨ (fOf cons x).complete = true := by
  intro fuel
  induction fuel with
  | zero => intro streams rr first x hx; simp only [pick]; exact Or.inl hx
  | succ fuel ih =>
    intro streams rr first x hx
    rw [pick]
    by_cases hemp : streams.isEmpty = true
    · simp only [hemp, if_true]; exact Or.inl hx
    · simp only [hemp, Bool.false_eq_true, if_false]
      obtain ⟨s, hsd⟩ : ∃ s : Nat, s = streams.getD ((rr + 1) % streams.length) 0 := ⟨_, rfl⟩
      rw [← hsd]
      by_cases hfs : first = some s
      · simp only [hfs, if_true]; exact Or.inl hx
      · simp only [hfs, if_false]
        by_cases hc : (cons.getD s default).f.complete = true
        · simp only [hc, if_true]
          rcases mem_eraseIdx_or (i := (rr + 1) % streams.length) hx with h | h
          · exact ih _ _ _ x h
          · right; rw [h, ← hsd]; exact hc
        · have hc' : (cons.getD s default).f.complete = false := Bool.eq_false_iff.mpr hc
          simp only [hc', Bool.false_eq_true, if_false]
          (repeat' split) <;> first | exact ih _ _ _ x hx | exact Or.inl hx

theorem KCons.queue {x : Cons} (K : KCons x) (he : eligible x.f = true) :
    KCons { x with f := { x.f with wnd2 := x.f.wnd2 + 1 }, pending := x.pending ++ [(x.f.wnd2, retryBudget)] } := by
  simp only [eligible, Bool.and_eq_true, Bool.not_eq_true'] at he
  obtain ⟨⟨hc, h2⟩, h3⟩ := he
  have L := K.live hc
  have hkeys : keys
      { x with
        f := { x.f with wnd2 := x.f.wnd2 + 1 }
        pending := x.pending ++ [(x.f.wnd2, retryBudget)] } = keys x ++ [x.f.wnd2] := by
    simp [keys]
  refine ⟨?_, ?_, ?_, ?_⟩
  · rw [hkeys, List.nodup_append]
    refine ⟨K.nodup, by simp, ?_⟩
    intro a ha b hb hab
    simp at hb; subst hb; subst hab
    have := K.lt _ ha; omega
  · intro k hk
    rw [hkeys] at hk
    show k < x.f.wnd2 + 1
    rcases List.mem_append.mp hk with h | h
    · have := K.lt k h; omega
    · simp at h; omega
  · show x.f.wnd2 + 1 ≤ maxObjectSeg
    cases hs : x.f.segCnt with
    | none =>
      rw [hs] at L
      simp only [skipWait, hs, Option.isNone_none, Bool.true_and, decide_eq_false_iff_not] at h2
      have : maxObjectSeg = 100000000 := rfl
      omega
    | some n =>
      rw [hs] at L
      simp only [skipOut, hs, Bool.and_eq_false_iff, decide_eq_false_iff_not] at h3
      obtain ⟨l1, l2, _⟩ := L
      omega
  · intro _
    dsimp only
    rw [hkeys]
    cases hs : x.f.segCnt with
    | none =>
      rw [hs] at L
      simp only [skipWait, hs, Option.isNone_none, Bool.true_and, decide_eq_false_iff_not] at h2
      obtain ⟨l1, l2, l3⟩ := L
      refine ⟨l1, by omega, ?_⟩
      intro k hk
      have : k = x.f.wnd2 := by omega
      rw [this]; simp
    | some n =>
      rw [hs] at L
      simp only [skipOut, hs, Bool.and_eq_false_iff, decide_eq_false_iff_not] at h3
      obtain ⟨l1, l2, l3, l4, l5, l6, l7⟩ := L
      refine ⟨l1, l2, l3, l4, l5, by omega, ?_⟩
      intro k hk
      by_cases hkw : k < x.f.wnd2
      · rcases l7 k hkw with h | h
        · exact Or.inl (List.mem_append_left _ h)
        · exact Or.inr h
      · have : k = x.f.wnd2 := by omega
        left; rw [this]; simp

theorem Inv5.afterPick {N : Nat} {c : Client} (I : Inv5 N c) (r : List Nat × Nat × Option Nat × Bool)
    (hsub : ∀ x ∈ r.1, x ∈ c.streams) : Inv5 N (afterPick c r) :=
  ⟨I.len, I.k, I.out, fun o ho => I.inrange o (hsub o ho)⟩

theorem Inv5.queueSeg {N : Nat} {c : Client} (I : Inv5 N c) (s : Nat) (hs : s ∈ c.streams)
    (he : eligible (fOf c.cons s) = true) : Inv5 N (queueSeg c s) := by
  have hlt := I.inrange s hs
  unfold C15.queueSeg
  obtain ⟨x2, hx2⟩ : ∃ x2 : Cons, x2 =
      { (c.getCons s) with
        f := { (c.getCons s).f with wnd2 := (c.getCons s).f.wnd2 + 1 }
        pending := (c.getCons s).pending ++ [((c.getCons s).f.wnd2, retryBudget)] } := ⟨_, rfl⟩
  rw [← hx2]
  have hK : KCons x2 := by rw [hx2]; exact (I.k s).queue he
  have hplen : x2.pending.length = (c.getCons s).pending.length + 1 := by rw [hx2]; simp
  refine ⟨by show (c.cons.set s x2).length = N; rw [List.length_set]; exact I.len, ?_, ?_, ?_⟩
  · intro o'
    show (c.setCons s x2).getCons o' |> KCons
    rw [getCons_setCons]
    split
    · exact hK
    · exact I.k o'
  · have := totalPending_setCons c s x2 hlt
    show c.outstanding + 1 = totalPending (c.setCons s x2)
    rw [I.out]; omega
  · intro o' ho'
    show o' < (c.cons.set s x2).length
    rw [List.length_set]; exact I.inrange o' ho'

theorem queueSeg_placed (c : Client) (s o : Nat) (h : Placed c o) : Placed (queueSeg c s) o := by
  unfold Placed at h ⊢
  have e : (queueSeg c s).getCons o = (c.setCons s
      { (c.getCons s) with
        f := { (c.getCons s).f with wnd2 := (c.getCons s).f.wnd2 + 1 }
        pending := (c.getCons s).pending ++ [((c.getCons s).f.wnd2, retryBudget)] }).getCons o := rfl
  rw [e, getCons_setCons]
  have hst : (queueSeg c s).streams = c.streams := rfl
  rw [hst]
  split
  · rename_i hh; obtain ⟨e1, _⟩ := hh; subst e1; exact h
  · exact h

theorem doCheck_inv5 {N : Nat} : ∀ (fuel : Nat) (c : Client), Inv5 N c →
    Inv5 N (c.doCheck fuel).1 ∧ ∀ o : Nat, Placed c o → Placed (c.doCheck fuel).1 o := by
  intro fuel
  induction fuel with
  | zero => intro c I; exact ⟨I, fun o h => h⟩
  | succ fuel ih =>
    intro c I
    rw [doCheck_succ]
    by_cases hw : c.outstanding ≥ window
    · rw [if_pos hw]; exact ⟨I, fun o h => h⟩
    · rw [if_neg hw]
      obtain ⟨p1, p2, _⟩ := pick_spec c.cons ((c.streams.length + 1) * (c.streams.length + 1) + 1) c.streams
        c.rrIndex none (fun f h => by cases h)
      have prem := pick_removed c.cons ((c.streams.length + 1) * (c.streams.length + 1) + 1) c.streams c.rrIndex none
      have I1 : Inv5 N (afterPick c (pickOf c)) := I.afterPick _ p1
      have pl1 : ∀ o : Nat, Placed c o → Placed (afterPick c (pickOf c)) o := by
        intro o h
        rcases h with h | h | h
        · rcases prem o h with h' | h'
          · exact Or.inl h'
          · exact Or.inr (Or.inr h')
        · exact Or.inr (Or.inl h)
        · exact Or.inr (Or.inr h)
      cases hsel : (pickOf c).2.2.1 with
      | none => exact ⟨I1, pl1⟩
      | some s =>
        simp only
        obtain ⟨hs1, hs2⟩ := p2 s hsel
        have I2 := I1.queueSeg s hs1 hs2
        obtain ⟨i1, i2⟩ := ih _ I2
        exact ⟨i1, fun o h => i2 o (queueSeg_placed _ s o (pl1 o h))⟩

theorem check_inv5 {N : Nat} {c : Client} (I : Inv5 N c) (cbs : List (Nat × CbRec)) :
    Inv5 N (c.check cbs).1 ∧ ∀ o : Nat, Placed c o → Placed (c.check cbs).1 o := by
  unfold Client.check
  exact doCheck_inv5 (window + 1) c I

/-! ### every event keeps the bookkeeping -/

theorem consumeObject_inv5 {N : Nat} {c : Client} (I : Inv5 N c) (o : Nat) (ho : o < c.cons.length) (v : Bool) :
    Inv5 N (c.consumeObject o v).1 ∧
    ∀ o' : Nat, o' = o ∨ Placed c o' → Placed (c.consumeObject o v).1 o' := by
  have hfail : Inv5 N (c.fail o).1 ∧ ∀ o' : Nat, o' = o ∨ Placed c o' → Placed (c.fail o).1 o' :=
    ⟨I.fail o, fun o' h => fail_placed c o o' ho h⟩
  unfold Client.consumeObject
  simp only
  cases hgl : (c.getCons o).fetchName.getLast? with
  | none => exact hfail
  | some l =>
    simp only
    by_cases hv : l.typ ≠ typVersion
    · rw [if_pos hv]
      by_cases hvm : v = true
      · rw [if_pos hvm]; exact hfail
      · rw [if_neg hvm]
        refine ⟨I.setCons o _ ((I.k o).congr rfl rfl) rfl, ?_⟩
        intro o' h
        unfold Placed
        simp only
        rw [getCons_setCons]
        by_cases he : o' = o
        · subst he; simp [ho]
        · simp only [he, false_and, if_false]
          rcases h with h | h
          · exact absurd h he
          · exact h
    · rw [if_neg hv]
      have I1 : Inv5 N ({ c with streams := c.streams ++ [o] } : Client) := by
        refine ⟨I.len, I.k, I.out, ?_⟩
        intro o' ho'
        have : o' ∈ c.streams ++ [o] := ho'
        rcases List.mem_append.mp this with h | h
        · exact I.inrange o' h
        · simp at h; subst h; exact ho
      obtain ⟨i1, i2⟩ := check_inv5 I1 []
      refine ⟨i1, fun o' h => i2 o' ?_⟩
      rcases h with h | h
      · subst h; exact Or.inl (List.mem_append_right _ (by simp))
      · rcases h with h | h
        · exact Or.inl (List.mem_append_left _ h)
        · exact Or.inr h

theorem length_filter_ne {l : List Nat} (nd : l.Nodup) {k : Nat} (hk : k ∈ l) :
    (l.filter (fun j => decide (j ≠ k))).length + 1 = l.length := by
  induction l with
  | nil => cases hk
  | cons a t ih =>
    obtain ⟨hnot, ndt⟩ := List.nodup_cons.mp nd
    by_cases hak : a = k
    · subst hak
      have hself : t.filter (fun j => decide (j ≠ a)) = t := by
        apply List.filter_eq_self.mpr
        intro b hb
        have : b ≠ a := fun e => hnot (e ▸ hb)
        exact decide_eq_true this
      rw [List.filter_cons, if_neg (by simp), hself, List.length_cons]
    · have hkt : k ∈ t := by
        rcases List.mem_cons.mp hk with h | h
        · exact absurd h.symm hak
        · exact h
      have := ih ndt hkt
      have hp : (fun j => decide (j ≠ k)) a = true := decide_eq_true hak
      rw [List.filter_cons, if_pos hp, List.length_cons, List.length_cons]
      omega

theorem handleData_inv5 {N : Nat} {c : Client} (I : Inv5 N c) (o k : Nat) (a : Arrival)
    (hk : k ∈ keys (c.getCons o)) (ha : ∀ p, a = .data p → p.name.getLast? = some (segComp k)) :
    Inv5 N (c.handleData o k a).1 ∧ ∀ o' : Nat, Placed c o' → Placed (c.handleData o k a).1 o' := by
  have ho : o < c.cons.length := by
    apply Classical.byContradiction
    intro h
    unfold Client.getCons at hk
    rw [List.getD_eq_getElem?_getD, List.getElem?_eq_none (by omega)] at hk
    cases hk
  obtain ⟨x, hx⟩ : ∃ x : Cons, x = c.getCons o := ⟨_, rfl⟩
  obtain ⟨x2, hx2⟩ : ∃ x2 : Cons, x2 =
      { x with
        f := (x.f.handleData a).1
        pending := x.pending.filter (fun e => decide (e.1 ≠ k)) } := ⟨_, rfl⟩
  have hK2 : KCons x2 := by rw [hx2]; exact KCons.handleData (hx ▸ I.k o) k a (hx ▸ hk) ha
  have hlen : x2.pending.length + 1 = x.pending.length := by
    have h1 : x2.pending.length = (keys x2).length := by simp [keys]
    have h2 : x.pending.length = (keys x).length := by simp [keys]
    have h3 : keys x2 = (keys x).filter (fun j => decide (j ≠ k)) := by rw [hx2]; exact keys_filter x k
    rw [h1, h2, h3]
    exact length_filter_ne (hx ▸ (I.k o).nodup) (hx ▸ hk)
  obtain ⟨removed, hrem⟩ : ∃ b : Bool, b = (!x.f.complete && (x.f.handleData a).1.complete &&
      !(x.f.handleData a).1.err && !(x.f.handleData a).1.panic) := ⟨_, rfl⟩
  -- the client before the final check
  obtain ⟨c2, hc2⟩ : ∃ c2 : Client, c2 =
      { (c.setCons o x2) with
        outstanding := (c.setCons o x2).outstanding - 1
        streams := if removed then (c.setCons o x2).streams.filter (fun s => decide (s ≠ o))
          else (c.setCons o x2).streams } := ⟨_, rfl⟩
  have hhd : c.handleData o k a = c2.check (((x.f.handleData a).2).map fun cb => (o, cb)) := by
    unfold Client.handleData
    rw [hc2, hx2, hrem, hx]
  rw [hhd]
  have hg2 : ∀ o' : Nat, c2.getCons o' = if o' = o then x2 else c.getCons o' := by
    intro o'
    have : c2.getCons o' = (c.setCons o x2).getCons o' := by rw [hc2]; rfl
    rw [this, getCons_setCons]
    by_cases he : o' = o
    · simp [he, ho]
    · simp [he]
  have hst2 : ∀ s, s ∈ c2.streams → s ∈ c.streams := by
    intro s hs
    rw [hc2] at hs
    have hs' : s ∈ (if removed = true then c.streams.filter (fun s => decide (s ≠ o)) else c.streams) := hs
    split at hs'
    · exact (List.mem_filter.mp hs').1
    · exact hs'
  have I2 : Inv5 N c2 := by
    refine ⟨?_, ?_, ?_, ?_⟩
    · rw [hc2]; show (c.cons.set o x2).length = N; rw [List.length_set]; exact I.len
    · intro o'
      rw [hg2]
      split
      · exact hK2
      · exact I.k o'
    · have h1 := totalPending_setCons c o x2 ho
      rw [← hx] at h1
      have h2 : c2.outstanding = c.outstanding - 1 := by rw [hc2]; rfl
      have h3 : totalPending c2 = totalPending (c.setCons o x2) := by rw [hc2]; rfl
      rw [h2, h3, I.out]; omega
    · intro s hs
      have : c2.cons.length = c.cons.length := by
        rw [hc2]; show (c.cons.set o x2).length = _; rw [List.length_set]
      rw [this]; exact I.inrange s (hst2 s hs)
  obtain ⟨i1, i2⟩ := check_inv5 I2 (((x.f.handleData a).2).map fun cb => (o, cb))
  refine ⟨i1, fun o' h => i2 o' ?_⟩
  -- placement before the check
  unfold Placed at h ⊢
  rw [hg2]
  by_cases he : o' = o
  · subst he
    simp only [if_true]
    rcases h with h | h | h
    · by_cases hr : removed = true
      · right; right
        rw [hrem] at hr
        simp only [Bool.and_eq_true] at hr
        rw [hx2]; exact hr.1.1.2
      · left
        rw [hc2]
        show o' ∈ (if removed = true then c.streams.filter (fun s => decide (s ≠ o')) else c.streams)
        rw [if_neg hr]; exact h
    · right; left; rw [hx2, hx]; exact h
    · right; right
      rw [hx2]
      show (x.f.handleData a).1.complete = true
      rw [hx, hd_complete _ _ h]; exact h
  · simp only [he, if_false]
    rcases h with h | h | h
    · left
      rw [hc2]
      show o' ∈ (if removed = true then c.streams.filter (fun s => decide (s ≠ o)) else c.streams)
      split
      · exact List.mem_filter.mpr ⟨h, by simpa using he⟩
      · exact h
    · exact Or.inr (Or.inl h)
    · exact Or.inr (Or.inr h)

theorem bad_inv5 {N : Nat} {c : Client} (I : Inv5 N c) :
    Inv5 N c.bad.1 ∧ ∀ o' : Nat, Placed c o' → Placed c.bad.1 o' :=
  ⟨⟨I.len, I.k, I.out, I.inrange⟩, fun _ h => h⟩

theorem lt_of_metaPending (c : Client) (o : Nat) (h : (c.getCons o).metaPending = true) : o < c.cons.length := by
  apply Classical.byContradiction
  intro hn
  rw [getCons_default c o hn] at h
  cases h

theorem setCons_placed_other (c : Client) (o o' : Nat) (x : Cons) (hne : o' ≠ o) (h : Placed c o') :
    Placed (c.setCons o x) o' := by
  unfold Placed at h ⊢
  rw [getCons_setCons]
  simp only [hne, false_and, if_false]
  exact h

theorem keys_map_retry (x : Cons) (k left : Nat) :
    keys { x with pending := x.pending.map fun e => if e.1 = k then (k, left - 1) else e } = keys x := by
  unfold keys
  simp only [List.map_map]
  apply List.map_congr_left
  intro e _
  simp only [Function.comp]
  split
  · rename_i h; exact h.symm
  · rfl

/-- every event keeps the bookkeeping, and a consume that is placed stays placed.
    `hserve`: the producer's store answers an exact Get with a packet of that name. -/
theorem step_inv5 {N : Nat} {c : Client} (I : Inv5 N c) (serve : Name → Bool → Option Pkt)
    (hserve : ∀ (nm : Name) (p : Pkt), serve nm false = some p → p.name = nm) (e : Ev) :
    Inv5 N (c.step serve e).1 ∧ ∀ o' : Nat, Placed c o' → Placed (c.step serve e).1 o' := by
  cases e with
  | unsolicited => exact ⟨I, fun _ h => h⟩
  | data o k =>
    cases k with
    | none =>
      simp only [Client.step]
      by_cases hmp : (c.getCons o).metaPending = true
      · simp only [hmp, Bool.not_true, Bool.false_eq_true, if_false]
        have ho := lt_of_metaPending c o hmp
        cases c.served serve o none with
        | none => exact bad_inv5 I
        | some p =>
          simp only
          obtain ⟨c1, hc1⟩ : ∃ c1 : Client, c1 = c.setCons o { (c.getCons o) with metaPending := false } := ⟨_, rfl⟩
          rw [← hc1]
          have I1 : Inv5 N c1 := by rw [hc1]; exact I.setCons o _ ((I.k o).congr rfl rfl) rfl
          have ho1 : o < c1.cons.length := by rw [I1.len, ← I.len]; exact ho
          have pl1 : ∀ o' : Nat, o' ≠ o → Placed c o' → Placed c1 o' := by
            intro o' hne h; rw [hc1]; exact setCons_placed_other c o o' _ hne h
          cases p.md with
          | none =>
            refine ⟨I1.fail o, fun o' h => fail_placed c1 o o' ho1 ?_⟩
            by_cases he : o' = o
            · exact Or.inl he
            · exact Or.inr (pl1 o' he h)
          | some nm =>
            simp only
            obtain ⟨c2, hc2⟩ : ∃ c2 : Client, c2 = c1.setCons o { (c1.getCons o) with fetchName := nm.1 } := ⟨_, rfl⟩
            rw [← hc2]
            have I2 : Inv5 N c2 := by rw [hc2]; exact I1.setCons o _ ((I1.k o).congr rfl rfl) rfl
            have ho2 : o < c2.cons.length := by rw [I2.len, ← I.len]; exact ho
            obtain ⟨i1, i2⟩ := consumeObject_inv5 I2 o ho2 true
            refine ⟨i1, fun o' h => i2 o' ?_⟩
            by_cases he : o' = o
            · exact Or.inl he
            · right; rw [hc2]; exact setCons_placed_other c1 o o' _ he (pl1 o' he h)
      · have : (c.getCons o).metaPending = false := Bool.eq_false_iff.mpr hmp
        simp only [this, Bool.not_false, if_true]; exact bad_inv5 I
    | some k =>
      simp only [Client.step]
      by_cases hany : ((c.getCons o).pending.any fun e => decide (e.1 = k)) = true
      · simp only [hany, Bool.not_true, Bool.false_eq_true, if_false]
        have hk : k ∈ keys (c.getCons o) := by
          obtain ⟨e, he, hek⟩ := List.any_eq_true.mp hany
          have : e.1 = k := by simpa using hek
          exact List.mem_map.mpr ⟨e, he, this⟩
        cases hsv : c.served serve o (some k) with
        | none => exact bad_inv5 I
        | some p =>
          simp only
          apply handleData_inv5 I o k _ hk
          intro p' hp'
          cases hp'
          have := hserve _ p hsv
          rw [this]; simp
      · have : ((c.getCons o).pending.any fun e => decide (e.1 = k)) = false := Bool.eq_false_iff.mpr hany
        simp only [this, Bool.not_false, if_true]; exact bad_inv5 I
  | timeout o k =>
    cases k with
    | none =>
      simp only [Client.step]
      by_cases hmp : (c.getCons o).metaPending = true
      · simp only [hmp, Bool.not_true, Bool.false_eq_true, if_false]
        have ho := lt_of_metaPending c o hmp
        split
        · refine ⟨I.setCons o _ ((I.k o).congr rfl rfl) rfl, ?_⟩
          intro o' h
          by_cases he : o' = o
          · subst he
            unfold Placed
            rw [getCons_setCons]
            simp [ho, hmp]
          · exact setCons_placed_other c o o' _ he h
        · obtain ⟨c1, hc1⟩ : ∃ c1 : Client, c1 = c.setCons o { (c.getCons o) with metaPending := false } := ⟨_, rfl⟩
          rw [← hc1]
          have I1 : Inv5 N c1 := by rw [hc1]; exact I.setCons o _ ((I.k o).congr rfl rfl) rfl
          have ho1 : o < c1.cons.length := by rw [I1.len, ← I.len]; exact ho
          refine ⟨I1.fail o, fun o' h => fail_placed c1 o o' ho1 ?_⟩
          by_cases he : o' = o
          · exact Or.inl he
          · right; rw [hc1]; exact setCons_placed_other c o o' _ he h
      · have : (c.getCons o).metaPending = false := Bool.eq_false_iff.mpr hmp
        simp only [this, Bool.not_false, if_true]; exact bad_inv5 I
    | some k =>
      simp only [Client.step]
      cases hf : (c.getCons o).pending.find? (fun e => decide (e.1 = k)) with
      | none => exact bad_inv5 I
      | some e =>
        simp only
        have hk : k ∈ keys (c.getCons o) := by
          have h1 := List.mem_of_find?_eq_some hf
          have h2 := List.find?_some hf
          exact List.mem_map.mpr ⟨e, h1, by simpa using h2⟩
        split
        · refine ⟨I.setCons o _ ?_ (by simp), ?_⟩
          · have hkeys := keys_map_retry (c.getCons o) k e.2
            refine ⟨?_, ?_, (I.k o).small, ?_⟩
            · rw [hkeys]; exact (I.k o).nodup
            · rw [hkeys]; exact (I.k o).lt
            · intro hc; rw [hkeys]; exact (I.k o).live hc
          · intro o' h
            unfold Placed at h ⊢
            rw [getCons_setCons]
            split
            · rename_i hh; obtain ⟨e1, _⟩ := hh; subst e1; exact h
            · exact h
        · exact handleData_inv5 I o k .timeout hk (fun p hp => by cases hp)

/-! ### start, run, and quiescence -/

theorem start_fold5 {N : Nat} (os : List Nat) : ∀ (acc : Client × Out), Inv5 N acc.1 → (∀ o ∈ os, o < N) →
    Inv5 N (os.foldl (fun (acc : Client × Out) o =>
      ((acc.1.consumeObject o false).1, acc.2.append (acc.1.consumeObject o false).2)) acc).1 ∧
    ∀ o' : Nat, (Placed acc.1 o' ∨ o' ∈ os) →
      Placed (os.foldl (fun (acc : Client × Out) o =>
        ((acc.1.consumeObject o false).1, acc.2.append (acc.1.consumeObject o false).2)) acc).1 o' := by
  induction os with
  | nil =>
    intro acc I _
    refine ⟨I, ?_⟩
    intro o' h
    rcases h with h | h
    · exact h
    · cases h
  | cons o rest ih =>
    intro acc I hlt
    simp only [List.foldl_cons]
    have ho : o < acc.1.cons.length := by rw [I.len]; exact hlt o List.mem_cons_self
    obtain ⟨i1, i2⟩ := consumeObject_inv5 I o ho false
    obtain ⟨j1, j2⟩ := ih ((acc.1.consumeObject o false).1, acc.2.append (acc.1.consumeObject o false).2) i1
      (fun o' h => hlt o' (List.mem_cons_of_mem _ h))
    refine ⟨j1, ?_⟩
    intro o' h
    apply j2
    rcases h with h | h
    · exact Or.inl (i2 o' (Or.inr h))
    · rcases List.mem_cons.mp h with h | h
      · exact Or.inl (i2 o' (Or.inl h))
      · exact Or.inr h

theorem sum_map_zero {α : Type} (l : List α) : (l.map fun _ => 0).sum = 0 := by
  induction l with
  | nil => rfl
  | cons a t ih => simp [ih]

theorem start_inv5 (names : List Name) :
    Inv5 names.length (Client.start names).1 ∧ ∀ o : Nat, o < names.length → Placed (Client.start names).1 o := by
  unfold Client.start
  have I0 : Inv5 names.length ({ cons := names.map fun n => { name := n, fetchName := n } } : Client) := by
    refine ⟨by simp, ?_, ?_, ?_⟩
    · intro o
      unfold Client.getCons
      simp only [List.getD_eq_getElem?_getD, List.getElem?_map]
      cases names[o]? with
      | none => exact KCons.default
      | some n => exact KCons.default.congr rfl rfl
    · show (0 : Nat) = totalPending _
      unfold totalPending
      simp only [List.map_map]
      exact (sum_map_zero names).symm
    · intro o ho; cases ho
  obtain ⟨i1, i2⟩ := start_fold5 (List.range names.length)
    (({ cons := names.map fun n => { name := n, fetchName := n } } : Client), ({} : Out)) I0
    (fun o ho => List.mem_range.mp ho)
  exact ⟨i1, fun o ho => i2 o (Or.inr (List.mem_range.mpr ho))⟩

theorem run_inv5 (serve : Name → Bool → Option Pkt)
    (hserve : ∀ (nm : Name) (p : Pkt), serve nm false = some p → p.name = nm)
    (delivers : Nat → Key → Nat → Bool) (names : List Name) (evs : List Ev) :
    Inv5 names.length (Client.run serve delivers names evs).1 ∧
    ∀ o : Nat, o < names.length → Placed (Client.run serve delivers names evs).1 o := by
  unfold Client.run
  simp only
  have key : ∀ (evs : List Ev) (acc : Client × List Out × List ((Nat × Key) × Nat)),
      (Inv5 names.length acc.1 ∧ ∀ o : Nat, o < names.length → Placed acc.1 o) →
      (Inv5 names.length (evs.foldl (fun (acc : Client × List Out × List ((Nat × Key) × Nat)) e =>
        let c := acc.1
        let cnt := acc.2.2
        let consistent : Bool :=
          match e with
          | .data o k => delivers o k (countOf cnt (o, k)) && (c.served serve o k).isSome
          | .timeout o k => !(delivers o k (countOf cnt (o, k)) && (c.served serve o k).isSome)
          | .unsolicited => true
        let r := c.step serve e
        let c' := if consistent then r.1 else { r.1 with impossible := true }
        (c', acc.2.1 ++ [r.2], r.2.sent.foldl bump cnt)) acc).1 ∧
       ∀ o : Nat, o < names.length → Placed (evs.foldl (fun (acc : Client × List Out × List ((Nat × Key) × Nat)) e =>
        let c := acc.1
        let cnt := acc.2.2
        let consistent : Bool :=
          match e with
          | .data o k => delivers o k (countOf cnt (o, k)) && (c.served serve o k).isSome
          | .timeout o k => !(delivers o k (countOf cnt (o, k)) && (c.served serve o k).isSome)
          | .unsolicited => true
        let r := c.step serve e
        let c' := if consistent then r.1 else { r.1 with impossible := true }
        (c', acc.2.1 ++ [r.2], r.2.sent.foldl bump cnt)) acc).1 o) := by
    intro evs
    induction evs with
    | nil => intro acc h; exact h
    | cons e rest ih =>
      intro acc h
      simp only [List.foldl_cons]
      apply ih
      obtain ⟨s1, s2⟩ := step_inv5 h.1 serve hserve e
      have mark : ∀ (b : Bool) (c : Client), (Inv5 names.length c ∧ ∀ o : Nat, o < names.length → Placed c o) →
          (Inv5 names.length (if b = true then c else { c with impossible := true }) ∧
           ∀ o : Nat, o < names.length → Placed (if b = true then c else { c with impossible := true }) o) := by
        intro b c hc
        cases b
        · exact ⟨⟨hc.1.len, hc.1.k, hc.1.out, hc.1.inrange⟩, hc.2⟩
        · exact hc
      exact mark _ _ ⟨s1, fun o ho => s2 o (h.2 o ho)⟩
  exact key evs _ (start_inv5 names)

/-- **no starvation**: in every run of the multi-stream client — whatever the order of results, which
    of them are failures, and how the streams interleave — once no Interest is pending any more
    (no segment Interest, no metadata Interest), every Consume has completed. -/
theorem quiescent_all_complete (serve : Name → Bool → Option Pkt)
    (hserve : ∀ (nm : Name) (p : Pkt), serve nm false = some p → p.name = nm)
    (delivers : Nat → Key → Nat → Bool) (names : List Name) (evs : List Ev)
    (hq : ∀ o : Nat, ((Client.run serve delivers names evs).1.getCons o).pending = [] ∧
      ((Client.run serve delivers names evs).1.getCons o).metaPending = false) :
    ∀ o : Nat, o < names.length → ((Client.run serve delivers names evs).1.getCons o).f.complete = true := by
  obtain ⟨I5, pl⟩ := run_inv5 serve hserve delivers names evs
  have I4 := Inv4.run serve delivers names evs
  obtain ⟨c, hc⟩ : ∃ c : Client, c = (Client.run serve delivers names evs).1 := ⟨_, rfl⟩
  rw [← hc] at hq I5 pl I4 ⊢
  -- nothing is outstanding
  have htp : totalPending c = 0 := by
    unfold totalPending
    have : ∀ x ∈ c.cons, x.pending.length = 0 := by
      intro x hx
      obtain ⟨i, hi, rfl⟩ := List.getElem_of_mem hx
      have := (hq i).1
      rw [getCons_of_lt c i hi] at this
      rw [this]; rfl
    have h0 : c.cons.map (fun x => x.pending.length) = c.cons.map (fun _ => 0) :=
      List.map_congr_left this
    rw [h0]; exact sum_map_zero _
  have hout : c.outstanding = 0 := by rw [I5.out, htp]
  -- so the fetcher is empty
  have hstreams : c.streams = [] := by
    rcases I4.served with h | h | ⟨x, hx, hw⟩
    · rw [hout] at h; simp [window] at h
    · exact h
    · rw [fOf_eq] at hw
      exact absurd (hq x).1 ((I5.k x).waiting_pending hw)
  intro o ho
  rcases pl o ho with h | h | h
  · rw [hstreams] at h; cases h
  · rw [(hq o).2] at h; cases h
  · exact h

/-! ### completion is reported exactly once -/

def nComplete (l : List CbRec) : Nat := (l.filter (·.complete)).length

theorem nComplete_append (a b : List CbRec) : nComplete (a ++ b) = nComplete a + nComplete b := by
  simp [nComplete, List.filter_append]

theorem fe_cb (f : Fetch) (hc : f.complete = false) :
    nComplete f.finalizeError.2 = 1 ∧ f.finalizeError.1.panic = f.panic := by
  unfold Fetch.finalizeError
  simp [hc, Fetch.callback, nComplete]

theorem hdTail_cb (g : Fetch) (p : Pkt) (hg : g.complete = false) (hp : g.panic = false) :
    nComplete (hdTail g p).2 = (if (hdTail g p).1.complete && !(hdTail g p).1.panic then 1 else 0) ∧
    ((hdTail g p).1.panic = true → (hdTail g p).1.complete = true) := by
  have fe1 := fun f : Fetch => (fe_spec f).1
  unfold hdTail
  simp only
  split
  · simp [nComplete]
  · split
    · have := fe_cb g hg
      simp [this.1, this.2, hp, fe1]
    · split
      · have := fe_cb g hg
        simp [this.1, this.2, hp, fe1]
      · split
        · rename_i _ sc _ _ _ _
          have := fe_cb ({ g with content := g.content.set (numberVal sc) (some p.content) } : Fetch) hg
          rw [this.1, this.2, fe1]
          simp [hp]
        · split
          · rename_i _ sc _ _ _ _ _
            simp only [Fetch.callback, nComplete]
            by_cases hw : advance (g.content.set (numberVal sc) (some p.content)) (g.segCnt.getD 0)
                (g.segCnt.getD 0 + 1) g.wnd1 = g.segCnt.getD 0
            · simp [hw, hp]
            · simp [hw, hp]
          · simp [nComplete, hg, hp]

theorem hd_cb (f : Fetch) (a : Arrival) (hc : f.complete = false) (hp : f.panic = false) :
    nComplete (f.handleData a).2 = (if (f.handleData a).1.complete && !(f.handleData a).1.panic then 1 else 0) ∧
    ((f.handleData a).1.panic = true → (f.handleData a).1.complete = true) := by
  cases a with
  | timeout =>
    rw [hd_timeout _ hc]
    have := fe_cb f hc
    simp [this.1, this.2, hp, (fe_spec f).1]
  | data p =>
    rw [hd_eq _ _ hc]
    cases hi : hdInit f p with
    | none =>
      have := fe_cb f hc
      simp [this.1, this.2, hp, (fe_spec f).1]
    | some g =>
      simp only
      obtain ⟨_, _, g3, hg⟩ := hdInit_spec f g p hi
      have hgp : g.panic = false := by
        unfold hdInit at hi
        cases hs : f.segCnt with
        | some n => simp only [hs] at hi; cases hi; exact hp
        | none =>
          simp only [hs] at hi
          cases hfb : p.fb with
          | none => simp [hfb] at hi
          | some fb =>
            simp only [hfb] at hi
            split at hi
            · cases hi
            · split at hi
              · cases hi
              · cases hi; exact hp
      exact hdTail_cb g p (by rw [g3]; exact hc) hgp

theorem runFetch_complete (f : Fetch) (hc : f.complete = true) : ∀ arr : List Arrival, runFetch f arr = (f, []) := by
  intro arr
  induction arr with
  | nil => rfl
  | cons a as ih => simp only [runFetch, hd_complete _ _ hc, ih, List.append_nil]

/-- the single-stream machine reports completion at most once; exactly once when it ends complete
    (and did not hit the Go panic), never while it is not complete -/
theorem runFetch_once : ∀ (arr : List Arrival) (f : Fetch), f.complete = false → f.panic = false →
    nComplete (runFetch f arr).2 ≤ 1 ∧
    ((runFetch f arr).1.complete = true → (runFetch f arr).1.panic = false → nComplete (runFetch f arr).2 = 1) ∧
    ((runFetch f arr).1.complete = false → nComplete (runFetch f arr).2 = 0) := by
  intro arr
  induction arr with
  | nil => intro f hc _; simp [runFetch, nComplete, hc]
  | cons a as ih =>
    intro f hc hp
    obtain ⟨h1, h2⟩ := hd_cb f a hc hp
    simp only [runFetch]
    by_cases hc' : (f.handleData a).1.complete = true
    · rw [runFetch_complete _ hc']
      simp only [List.append_nil]
      rw [h1, hc']
      cases hpp : (f.handleData a).1.panic <;> simp
    · have hcf : (f.handleData a).1.complete = false := Bool.eq_false_iff.mpr hc'
      have hpf : (f.handleData a).1.panic = false := by
        cases hpp : (f.handleData a).1.panic with
        | false => rfl
        | true => exact absurd (h2 hpp) hc'
      obtain ⟨i1, i2, i3⟩ := ih (f.handleData a).1 hcf hpf
      rw [nComplete_append, h1, hcf]
      simp only [Bool.false_and, Bool.false_eq_true, if_false, Nat.zero_add]
      exact ⟨i1, i2, i3⟩

end Ndn.C15
