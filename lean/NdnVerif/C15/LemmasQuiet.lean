/-
  C15 — liveness of the multi-stream fetcher at quiescence: bookkeeping invariants that tie the
  fetch window (`wnd1`, `wnd2`, `content`) to the Interests that are out (`pending`,
  `outstanding`), used to show that when no Interest is pending any more every Consume has
  completed (no stream starves behind another one).
-/
import NdnVerif.C15.LemmasPick
import NdnVerif.C15.LemmasFetch
namespace Ndn.C15

def keys (x : Cons) : List Nat := x.pending.map (·.1)

/-- per-stream bookkeeping -/
structure KCons (x : Cons) : Prop where
  nodup : (keys x).Nodup
  lt : ∀ k ∈ keys x, k < x.f.wnd2
  small : x.f.wnd2 ≤ maxObjectSeg
  live : x.f.complete = false →
    match x.f.segCnt with
    | none => x.f.wnd1 = 0 ∧ x.f.wnd2 ≤ 1 ∧ ∀ k : Nat, k < x.f.wnd2 → k ∈ keys x
    | some n => 0 < n ∧ n ≤ maxObjectSeg ∧ x.f.content.length = n ∧ x.f.wnd1 < n ∧
        (x.f.content.getD x.f.wnd1 none).isSome = false ∧ x.f.wnd2 ≤ n ∧
        ∀ k : Nat, k < x.f.wnd2 → k ∈ keys x ∨ (x.f.content.getD k none).isSome = true

theorem KCons.default : KCons (default : Cons) := by
  refine ⟨List.nodup_nil, ?_, Nat.zero_le _, ?_⟩
  · intro k h; cases h
  intro _
  show (0 : Nat) = 0 ∧ (0 : Nat) ≤ 1 ∧ ∀ k : Nat, k < 0 → k ∈ ([] : List Nat)
  refine ⟨rfl, by omega, ?_⟩
  intro k h; omega

theorem fe_spec (f : Fetch) : (f.finalizeError).1.complete = true ∧ (f.finalizeError).1.wnd2 = f.wnd2 := by
  unfold Fetch.finalizeError
  by_cases h : f.complete = true
  · simp [h]
  · simp [h, Fetch.callback]

/-- a waiting stream has an Interest out -/
theorem KCons.waiting_pending {x : Cons} (K : KCons x) (hw : waiting x.f = true) : x.pending ≠ [] := by
  intro he
  have hk : keys x = [] := by simp [keys, he]
  simp only [waiting, Bool.and_eq_true, Bool.not_eq_true', Bool.or_eq_true] at hw
  obtain ⟨hc, hw⟩ := hw
  have L := K.live hc
  rcases hw with hw | hw
  · simp only [skipWait, Bool.and_eq_true, decide_eq_true_eq] at hw
    obtain ⟨h1, h2⟩ := hw
    cases hs : x.f.segCnt with
    | some n => rw [hs] at h1; simp at h1
    | none =>
      rw [hs] at L
      have := L.2.2 0 h2
      rw [hk] at this; cases this
  · cases hs : x.f.segCnt with
    | none => simp [skipOut, hs] at hw
    | some n =>
      rw [hs] at L
      simp only [skipOut, hs, Bool.and_eq_true, decide_eq_true_eq] at hw
      obtain ⟨_, _, _, h4, h5, h6, h7⟩ := L
      rcases h7 x.f.wnd1 (by omega) with h | h
      · rw [hk] at h; cases h
      · rw [h5] at h; cases h

/-- a queued, unfinished stream without Interests out has a segment to request -/
theorem KCons.idle_eligible {x : Cons} (K : KCons x) (hc : x.f.complete = false) (hp : x.pending = []) :
    eligible x.f = true := by
  by_cases hw : waiting x.f = true
  · exact absurd hp (K.waiting_pending hw)
  · simp only [waiting, hc, Bool.not_false, Bool.true_and, Bool.or_eq_true, not_or, Bool.not_eq_true] at hw
    simp [eligible, hc, hw.1, hw.2]

/-- first half of `handleData` for a Data packet: the segment count from FinalBlockId -/
def hdInit (f : Fetch) (p : Pkt) : Option Fetch :=
  match f.segCnt with
  | some _ => some f
  | none =>
    match p.fb with
    | none => none
    | some fb =>
      if fb.typ ≠ typSegment then none
      else
        let cnt := numberVal fb + 1
        if cnt > maxObjectSeg then none
        else some { f with segCnt := some cnt, content := List.replicate cnt none }

/-- second half: store the segment, move the window -/
def hdTail (f : Fetch) (p : Pkt) : Fetch × List CbRec :=
  let segCnt := f.segCnt.getD 0
  match p.name.getLast? with
  | none => ({ f with panic := true, complete := true }, [])
  | some sc =>
    if sc.typ ≠ typSegment then f.finalizeError
    else
      let segNum := numberVal sc
      if segNum ≥ segCnt then f.finalizeError
      else
        let f := { f with content := f.content.set segNum (some p.content) }
        if p.content.isEmpty then f.finalizeError
        else if f.wnd1 = segNum then
          let w1 := advance f.content segCnt (segCnt + 1) f.wnd1
          let f := { f with wnd1 := w1, complete := w1 = segCnt }
          let r := f.callback
          (r.1, [r.2])
        else (f, [])

theorem hd_eq (f : Fetch) (p : Pkt) (hc : f.complete = false) :
    f.handleData (.data p) = match hdInit f p with
      | none => f.finalizeError
      | some g => hdTail g p := by
  unfold Fetch.handleData
  rw [if_neg (by rw [hc]; exact Bool.false_ne_true)]
  rfl

theorem hd_complete (f : Fetch) (a : Arrival) (hc : f.complete = true) : f.handleData a = (f, []) := by
  unfold Fetch.handleData
  rw [if_pos hc]

theorem hd_timeout (f : Fetch) (hc : f.complete = false) : f.handleData .timeout = f.finalizeError := by
  unfold Fetch.handleData
  rw [if_neg (by rw [hc]; exact Bool.false_ne_true)]

theorem hdInit_spec (f g : Fetch) (p : Pkt) (h : hdInit f p = some g) :
    g.wnd1 = f.wnd1 ∧ g.wnd2 = f.wnd2 ∧ g.complete = f.complete ∧
    ((∃ n, f.segCnt = some n ∧ g = f) ∨
      (f.segCnt = none ∧ ∃ n, 1 ≤ n ∧ n ≤ maxObjectSeg ∧ g.segCnt = some n ∧ g.content = List.replicate n none)) := by
  unfold hdInit at h
  cases hs : f.segCnt with
  | some n => simp only [hs] at h; cases h; exact ⟨rfl, rfl, rfl, Or.inl ⟨n, rfl, rfl⟩⟩
  | none =>
    simp only [hs] at h
    cases hfb : p.fb with
    | none => simp [hfb] at h
    | some fb =>
      simp only [hfb] at h
      split at h
      · cases h
      · split at h
        · cases h
        · rename_i h1 h2
          cases h
          exact ⟨rfl, rfl, rfl, Or.inr ⟨rfl, numberVal fb + 1, by omega, by omega, rfl, rfl⟩⟩

/-- the tail either finishes the stream or stores segment `k` and moves `wnd1` over the filled prefix -/
theorem hdTail_spec (g : Fetch) (p : Pkt) (k n : Nat) (hk64 : k < 2 ^ 64)
    (hl : p.name.getLast? = some (segComp k)) (hgs : g.segCnt = some n) :
    (hdTail g p).1.wnd2 = g.wnd2 ∧
    ((hdTail g p).1.complete = false → k < n ∧
      (hdTail g p).1.segCnt = some n ∧ (hdTail g p).1.content = g.content.set k (some p.content) ∧
      ((g.wnd1 ≠ k ∧ (hdTail g p).1.wnd1 = g.wnd1) ∨
        (g.wnd1 = k ∧ (hdTail g p).1.wnd1 = advance (g.content.set k (some p.content)) n (n + 1) g.wnd1 ∧
          (hdTail g p).1.wnd1 ≠ n))) := by
  have hnv : numberVal (segComp k) = k := numberVal_segComp k hk64
  have hty : (segComp k).typ = typSegment := rfl
  by_cases hkn : k ≥ n
  · have e : hdTail g p = g.finalizeError := by
      unfold hdTail
      simp only [hl, hgs, Option.getD_some, hty, ne_eq, not_true_eq_false, if_false, hnv, hkn, if_true]
    rw [e]
    exact ⟨(fe_spec g).2, fun h => by rw [(fe_spec g).1] at h; cases h⟩
  · by_cases hemp : p.content.isEmpty = true
    · have e : hdTail g p = ({ g with content := g.content.set k (some p.content) } : Fetch).finalizeError := by
        unfold hdTail
        simp only [hl, hgs, Option.getD_some, hty, ne_eq, not_true_eq_false, if_false, hnv, hkn, hemp, if_true]
      rw [e]
      exact ⟨(fe_spec _).2, fun h => by rw [(fe_spec _).1] at h; cases h⟩
    · by_cases hw : g.wnd1 = k
      · have e : (hdTail g p).1 =
            { g with
              content := g.content.set k (some p.content)
              wnd1 := advance (g.content.set k (some p.content)) n (n + 1) g.wnd1
              wnd0 := advance (g.content.set k (some p.content)) n (n + 1) g.wnd1
              complete := decide (advance (g.content.set k (some p.content)) n (n + 1) g.wnd1 = n) } := by
          unfold hdTail
          simp only [hl, hgs, Option.getD_some, hty, ne_eq, not_true_eq_false, if_false, hnv, hkn, hemp,
            Bool.false_eq_true, hw, if_true, Fetch.callback]
        rw [e]
        refine ⟨rfl, fun h => ⟨by omega, hgs, rfl, Or.inr ⟨hw, rfl, ?_⟩⟩⟩
        have h' : decide (advance (g.content.set k (some p.content)) n (n + 1) g.wnd1 = n) = false := h
        simpa using h'
      · have e : (hdTail g p).1 = { g with content := g.content.set k (some p.content) } := by
          unfold hdTail
          simp only [hl, hgs, Option.getD_some, hty, ne_eq, not_true_eq_false, if_false, hnv, hkn, hemp,
            Bool.false_eq_true, hw]
        rw [e]
        exact ⟨rfl, fun _ => ⟨by omega, hgs, rfl, Or.inl ⟨hw, rfl⟩⟩⟩

theorem keys_filter (x : Cons) (k : Nat) :
    (x.pending.filter (fun e => decide (e.1 ≠ k))).map (·.1) = (keys x).filter (fun j => decide (j ≠ k)) := by
  unfold keys
  rw [List.filter_map]
  rfl

theorem getD_set_ne {α : Type} (l : List α) (i j : Nat) (a d : α) (h : i ≠ j) : (l.set i a).getD j d = l.getD j d := by
  simp [List.getD_eq_getElem?_getD, List.getElem?_set, h]

theorem getD_set_eq {α : Type} (l : List α) (i : Nat) (a d : α) (h : i < l.length) : (l.set i a).getD i d = a := by
  simp [List.getD_eq_getElem?_getD, List.getElem?_set, h]

theorem maxObjectSeg_lt : maxObjectSeg < 2 ^ 64 := by decide

/-- a segment result (Data named `…/seg=k`, or a failure) keeps the bookkeeping of its stream -/
theorem KCons.handleData {x : Cons} (K : KCons x) (k : Nat) (a : Arrival) (hk : k ∈ keys x)
    (ha : ∀ p, a = .data p → p.name.getLast? = some (segComp k)) :
    KCons { x with f := (x.f.handleData a).1, pending := x.pending.filter (fun e => decide (e.1 ≠ k)) } := by
  have hk2 : k < x.f.wnd2 := K.lt k hk
  have hk64 : k < 2 ^ 64 := by have := K.small; have := maxObjectSeg_lt; omega
  have hkeys : keys { x with f := (x.f.handleData a).1, pending := x.pending.filter (fun e => decide (e.1 ≠ k)) }
      = (keys x).filter (fun j => decide (j ≠ k)) := keys_filter x k
  have hmem : ∀ j : Nat, j ∈ (keys x).filter (fun j => decide (j ≠ k)) ↔ j ∈ keys x ∧ j ≠ k := by
    intro j; simp [List.mem_filter]
  -- wnd2 is never written by handleData
  have hw2 : (x.f.handleData a).1.wnd2 = x.f.wnd2 := by
    by_cases hc : x.f.complete = true
    · rw [hd_complete _ _ hc]
    · have hc' : x.f.complete = false := Bool.eq_false_iff.mpr hc
      cases a with
      | timeout => rw [hd_timeout _ hc']; exact (fe_spec _).2
      | data p =>
        rw [hd_eq _ _ hc']
        cases hi : hdInit x.f p with
        | none => exact (fe_spec _).2
        | some g =>
          simp only
          obtain ⟨_, g2, _, hg⟩ := hdInit_spec x.f g p hi
          have hgs : ∃ n, g.segCnt = some n := by
            rcases hg with ⟨n, h1, h2⟩ | ⟨_, n, _, _, h3, _⟩
            · exact ⟨n, by rw [h2]; exact h1⟩
            · exact ⟨n, h3⟩
          obtain ⟨n, hgs⟩ := hgs
          rw [(hdTail_spec g p k n hk64 (ha p rfl) hgs).1, g2]
  refine ⟨?_, ?_, ?_, ?_⟩
  · rw [hkeys]; exact K.nodup.sublist List.filter_sublist
  · intro j hj
    rw [hkeys, hmem] at hj
    show j < (x.f.handleData a).1.wnd2
    rw [hw2]; exact K.lt j hj.1
  · show (x.f.handleData a).1.wnd2 ≤ maxObjectSeg
    rw [hw2]; exact K.small
  · intro hc'
    have hc'' : (x.f.handleData a).1.complete = false := hc'
    dsimp only
    rw [hkeys, hw2]
    by_cases hc : x.f.complete = true
    · rw [hd_complete _ _ hc] at hc''; rw [hc] at hc''; cases hc''
    have hcf : x.f.complete = false := Bool.eq_false_iff.mpr hc
    have L := K.live hcf
    cases a with
    | timeout => rw [hd_timeout _ hcf, (fe_spec _).1] at hc''; cases hc''
    | data p =>
      rw [hd_eq _ _ hcf] at hc'' ⊢
      cases hi : hdInit x.f p with
      | none => rw [hi] at hc''; simp only at hc''; rw [(fe_spec _).1] at hc''; cases hc''
      | some g =>
        rw [hi] at hc''
        simp only at hc'' ⊢
        obtain ⟨g1, g2, g3, hg⟩ := hdInit_spec x.f g p hi
        -- segment count and buffer before the segment is stored
        have hpre : ∃ n, g.segCnt = some n ∧ 0 < n ∧ n ≤ maxObjectSeg ∧ g.content.length = n ∧ g.wnd1 < n ∧
            (g.content.getD g.wnd1 none).isSome = false ∧ x.f.wnd2 ≤ n ∧
            ∀ j : Nat, j < x.f.wnd2 → j ∈ keys x ∨ (g.content.getD j none).isSome = true := by
          rcases hg with ⟨n, h1, h2⟩ | ⟨h0, n, h1, h2, h3, h4⟩
          · rw [h1] at L
            subst h2
            exact ⟨n, h1, L⟩
          · rw [h0] at L
            obtain ⟨l1, l2, l3⟩ := L
            refine ⟨n, h3, by omega, h2, by rw [h4]; simp, by rw [g1, l1]; omega, ?_, by omega, fun j hj => Or.inl (l3 j hj)⟩
            rw [h4, g1, l1]
            cases n with
            | zero => omega
            | succ m => simp [List.replicate_succ]
        obtain ⟨n, hgs, p1, p2, p3, p4, p5, p6, p7⟩ := hpre
        obtain ⟨_, T⟩ := hdTail_spec g p k n hk64 (ha p rfl) hgs
        obtain ⟨t1, t2, t3, t4⟩ := T hc''
        rw [t2]
        simp only
        have hlen : (g.content.set k (some p.content)).length = n := by rw [List.length_set]; exact p3
        have hcov : ∀ j : Nat, j < x.f.wnd2 → j ∈ (keys x).filter (fun j => decide (j ≠ k)) ∨
            ((g.content.set k (some p.content)).getD j none).isSome = true := by
          intro j hj
          by_cases hjk : j = k
          · subst hjk
            right
            rw [getD_set_eq _ _ _ _ (by omega)]; rfl
          · rcases p7 j hj with h | h
            · exact Or.inl ((hmem j).mpr ⟨h, hjk⟩)
            · right; rw [getD_set_ne _ _ _ _ _ (fun e => hjk e.symm)]; exact h
        rw [t3]
        rcases t4 with ⟨w1, w2⟩ | ⟨w1, w2, w3⟩
        · rw [w2]
          refine ⟨p1, p2, hlen, p4, ?_, p6, hcov⟩
          rw [getD_set_ne _ _ _ _ _ (fun e => w1 e.symm)]; exact p5
        · obtain ⟨a1, a2, _, a4⟩ := advance_spec (g.content.set k (some p.content)) n (n + 1) g.wnd1 (by omega) (by omega)
          rw [w2] at w3 ⊢
          have hlt : advance (g.content.set k (some p.content)) n (n + 1) g.wnd1 < n := by omega
          exact ⟨p1, p2, hlen, hlt, a4 hlt, p6, hcov⟩

end Ndn.C15
