/-
  C15 — store histories and their abstract content (a finite map name ↦ (version, packet)),
  the memory-trie abstraction function `MNode.lookup`, well-formedness of tries.  Core Lean only.
-/
import NdnVerif.C15.Lemmas
namespace Ndn.C15

/-- component-wise prefix, decided with `DecidableEq Component` -/
def pfxOf : Name → Name → Bool
  | [], _ => true
  | _ :: _, [] => false
  | a :: as, b :: bs => decide (a = b) && pfxOf as bs

theorem pfxOf_iff (q nm : Name) : pfxOf q nm = true ↔ ∃ rest, nm = q ++ rest := by
  induction q generalizing nm with
  | nil => simp [pfxOf]
  | cons a as ih =>
    cases nm with
    | nil => simp [pfxOf]
    | cons b bs =>
      simp only [pfxOf, Bool.and_eq_true, decide_eq_true_eq, ih, List.cons_append, List.cons.injEq]
      constructor
      · rintro ⟨rfl, rest, rfl⟩; exact ⟨rest, rfl, rfl⟩
      · rintro ⟨rest, rfl, rfl⟩; exact ⟨rfl, rest, rfl⟩

theorem pfxOf_append (q rest : Name) : pfxOf q (q ++ rest) = true := (pfxOf_iff _ _).mpr ⟨rest, rfl⟩

theorem pfxOf_refl (q : Name) : pfxOf q q = true := by simpa using pfxOf_append q []

/-- one store operation; `tx` = Begin / Put* / Commit as `Produce` does -/
inductive SOp where
  | put (p : Put)
  | remove (name : Name) (pfx : Bool)
  | tx (puts : List Put)

abbrev Content := Name → Option (Nat × Pkt)

def Content.put (m : Content) (p : Put) : Content := fun n => if n = p.name then some (p.ver, p.pkt) else m n

def Content.remove (m : Content) (name : Name) (pfx : Bool) : Content :=
  fun n => if (if pfx then pfxOf name n else decide (n = name)) then none else m n

def Content.apply (m : Content) : SOp → Content
  | .put p => m.put p
  | .remove name pfx => m.remove name pfx
  | .tx puts => puts.foldl Content.put m

/-- what a store must hold after a history: the last Put of a name wins, Remove(exact) deletes the name,
    Remove(prefix) deletes every name that has the given name as a prefix -/
def contents (ops : List SOp) : Content := ops.foldl Content.apply (fun _ => none)

theorem contents_snoc (ops : List SOp) (op : SOp) : contents (ops ++ [op]) = (contents ops).apply op := by
  simp [contents, List.foldl_append]

/-- the memory store after a history -/
def memStep (root : MNode) : SOp → MNode
  | .put p => memPut root p
  | .remove name pfx => memRemove root name pfx
  | .tx puts => memTx root puts

def memRun (ops : List SOp) : MNode := ops.foldl memStep MNode.empty

/-- the bolt store after a history (a transaction's puts become visible together at Commit) -/
def boltStep (s : Bolt) : SOp → Bolt
  | .put p => boltPut s p
  | .remove name pfx => boltRemove s name pfx
  | .tx puts => puts.foldl boltPut s

def boltRun (ops : List SOp) : Bolt := ops.foldl boltStep []

/-- abstraction function of the trie: the (version, packet) stored at a name -/
def MNode.lookup (root : MNode) (nm : Name) : Option (Nat × Pkt) :=
  (root.find nm).bind fun n => n.wire.map fun p => (n.ver, p)

/-- packet `p` is stored with version `v` at a name under `name`, and no name under `name` holds a larger version -/
def NewestUnder (m : Content) (name : Name) (v : Nat) (p : Pkt) : Prop :=
  ∃ nm, pfxOf name nm = true ∧ m nm = some (v, p) ∧
    ∀ nm' v' p', pfxOf name nm' = true → m nm' = some (v', p') → v' ≤ v

/-- nothing is stored at or below `name` -/
def NoneUnder (m : Content) (name : Name) : Prop := ∀ nm, pfxOf name nm = true → m nm = none

theorem pfxOf_trans (a b c : Name) (h1 : pfxOf a b = true) (h2 : pfxOf b c = true) : pfxOf a c = true := by
  obtain ⟨r1, rfl⟩ := (pfxOf_iff a b).mp h1
  obtain ⟨r2, rfl⟩ := (pfxOf_iff _ c).mp h2
  rw [List.append_assoc]; exact pfxOf_append a _

end Ndn.C15
