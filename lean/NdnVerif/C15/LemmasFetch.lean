/-
  C15 — helper lemmas for the any-order fetch theorem (core Lean only).
-/
import NdnVerif.C15.Spec
namespace Ndn.C15

theorem numberVal_segComp (k : Nat) (hk : k < 2 ^ 64) : numberVal (segComp k) = k := by
  have h := decNat_encNat k hk
  unfold decNat at h
  split at h
  · exact Option.some.inj h
  · cases h

/-- the window-advance loop stops at the first index that is out of range or not yet filled -/
theorem advance_spec (content : List (Option Bytes)) (n : Nat) :
    ∀ fuel w, w ≤ n → n - w < fuel →
      w ≤ advance content n fuel w ∧ advance content n fuel w ≤ n ∧
      (∀ i, w ≤ i → i < advance content n fuel w → (content.getD i none).isSome = true) ∧
      (advance content n fuel w < n → (content.getD (advance content n fuel w) none).isSome = false) := by
  intro fuel
  induction fuel with
  | zero => intro w _ h; omega
  | succ fuel ih =>
    intro w hw hf
    unfold advance
    by_cases hc : (w < n && (content.getD w none).isSome) = true
    · simp only [hc, if_true]
      simp only [Bool.and_eq_true, decide_eq_true_eq] at hc
      have := ih (w + 1) (by omega) (by omega)
      obtain ⟨h1, h2, h3, h4⟩ := this
      refine ⟨by omega, h2, ?_, h4⟩
      intro i hi1 hi2
      by_cases hiw : i = w
      · subst hiw; exact hc.2
      · exact h3 i (by omega) hi2
    · simp only [hc, Bool.false_eq_true, if_false]
      refine ⟨Nat.le_refl _, hw, ?_, ?_⟩
      · intro i h1 h2; omega
      · intro hlt
        simp only [Bool.and_eq_true, decide_eq_true_eq, not_and, Bool.not_eq_true] at hc
        simpa using hc hlt

/-- `content` holds exactly the segments whose indices are in `S` -/
def Filled (segs : List Bytes) (S : List Nat) (content : List (Option Bytes)) : Prop :=
  content.length = segs.length ∧
  ∀ i, i < segs.length → content.getD i none = if i ∈ S then some (segs.getD i []) else none

theorem filled_set (segs : List Bytes) (S : List Nat) (content : List (Option Bytes)) (k : Nat)
    (h : Filled segs S content) (hk : k < segs.length) :
    Filled segs (k :: S) (content.set k (some (segs.getD k []))) := by
  refine ⟨by simp [h.1], ?_⟩
  intro i hi
  simp only [List.getD_eq_getElem?_getD, List.getElem?_set]
  by_cases hik : k = i
  · subst hik
    have : k < content.length := by rw [h.1]; exact hk
    simp [this]
  · have := h.2 i hi
    simp only [List.getD_eq_getElem?_getD] at this
    simp only [hik, if_false, this, List.mem_cons]
    have : ¬ i = k := fun e => hik e.symm
    simp [this]

/-- a filled range of the buffer joins to the corresponding segments -/
theorem joinRange_filled (segs : List Bytes) (S : List Nat) (content : List (Option Bytes)) (a b : Nat)
    (h : Filled segs S content) (hb : b ≤ segs.length) (hall : ∀ i, a ≤ i → i < b → i ∈ S) :
    joinRange content a b = ((segs.take b).drop a).flatten := by
  unfold joinRange
  rw [List.flatMap_def]
  congr 1
  apply List.ext_getElem
  · simp [h.1]
  · intro j h1 h2
    simp only [List.length_map, List.length_drop, List.length_take] at h1 h2
    have hj : a + j < b := by omega
    have hlen : a + j < segs.length := by omega
    have hc := h.2 (a + j) hlen
    have hin : a + j ∈ S := hall (a + j) (by omega) hj
    simp only [hin, if_true, List.getD_eq_getElem?_getD] at hc
    simp only [List.getElem_map, List.getElem_drop, List.getElem_take]
    have hcl : a + j < content.length := by rw [h.1]; exact hlen
    rw [List.getElem?_eq_getElem hcl] at hc
    simp only [Option.getD_some] at hc
    rw [hc]
    simp [List.getElem?_eq_getElem hlen]

theorem take_flatten_extend (segs : List Bytes) (w w1 : Nat) (h : w ≤ w1) :
    (segs.take w).flatten ++ ((segs.take w1).drop w).flatten = (segs.take w1).flatten := by
  rw [← List.flatten_append]
  congr 1
  have : segs.take w = (segs.take w1).take w := by
    rw [List.take_take]; congr 1; omega
  rw [this, List.take_append_drop]

end Ndn.C15

namespace Ndn.C15

/-- the Data packet Produce makes for segment `i` of an object with segments `segs` -/
def segPkt (base : Name) (segs : List Bytes) (i : Nat) : Pkt :=
  { name := base ++ [segComp i], fb := some (segComp (segs.length - 1)), content := segs.getD i [] }

/-- a sequence of `handleData` calls -/
def runFetch (f : Fetch) : List Arrival → Fetch × List CbRec
  | [] => (f, [])
  | a :: as =>
    let r := f.handleData a
    let r2 := runFetch r.1 as
    (r2.1, r.2 ++ r2.2)

structure FInv (segs : List Bytes) (S : List Nat) (f : Fetch) (cbs : List CbRec) : Prop where
  segCnt : f.segCnt = some segs.length
  filled : Filled segs S f.content
  wnd0 : f.wnd0 = f.wnd1
  below : ∀ i, i < f.wnd1 → i ∈ S
  le : f.wnd1 ≤ segs.length
  notin : f.wnd1 < segs.length → f.wnd1 ∉ S
  complete : f.complete = decide (f.wnd1 = segs.length)
  noerr : f.err = false
  nopanic : f.panic = false
  chunks : (cbs.map (·.chunk)).flatten = (segs.take f.wnd1).flatten
  cberr : ∀ c ∈ cbs, c.err = false
  ncomplete : (cbs.filter (·.complete)).length = if f.wnd1 = segs.length then 1 else 0
  lastc : f.wnd1 = segs.length → ∃ c, cbs.getLast? = some c ∧ c.complete = true

theorem finv_step (base : Name) (segs : List Bytes) (S : List Nat) (f : Fetch) (cbs : List CbRec) (k : Nat)
    (h : FInv segs S f cbs) (hkS : k ∉ S) (hk : k < segs.length) (hne : segs.getD k [] ≠ [])
    (hn : segs.length < 2 ^ 64) :
    FInv segs (k :: S) (f.handleData (.data (segPkt base segs k))).1
      (cbs ++ (f.handleData (.data (segPkt base segs k))).2) := by
  have hwk : f.wnd1 ≤ k := by
    apply Nat.le_of_not_lt
    intro hlt
    exact hkS (h.below k hlt)
  have hcompl : f.complete = false := by
    rw [h.complete]; simp; omega
  have hlast : (base ++ [segComp k]).getLast? = some (segComp k) := by simp
  have hnum : numberVal (segComp k) = k := numberVal_segComp k (by omega)
  have hfilled := filled_set segs S f.content k h.filled hk
  unfold Fetch.handleData
  simp only [hcompl, Bool.false_eq_true, if_false, segPkt, h.segCnt, hlast, Option.getD_some]
  have ht : (segComp k).typ = typSegment := rfl
  simp only [ht, ne_eq, not_true_eq_false, if_false, hnum]
  have hge : ¬ k ≥ segs.length := by omega
  simp only [hge, if_false]
  have hemp : (segs.getD k []).isEmpty = false := by
    cases hs : segs.getD k [] with
    | nil => exact absurd hs hne
    | cons _ _ => rfl
  simp only [hemp, Bool.false_eq_true, if_false]
  by_cases hw : f.wnd1 = k
  · simp only [hw, if_true]
    -- the window advances over everything that is filled now
    have hadv := advance_spec (f.content.set k (some (segs.getD k []))) segs.length (segs.length + 1) k (by omega) (by omega)
    obtain ⟨a1, a2, a3, a4⟩ := hadv
    generalize hw1 : advance (f.content.set k (some (segs.getD k []))) segs.length (segs.length + 1) k = w1 at a1 a2 a3 a4
    have hin : ∀ i, k ≤ i → i < w1 → i ∈ k :: S := by
      intro i hi1 hi2
      have := a3 i hi1 hi2
      rw [hfilled.2 i (by omega)] at this
      by_cases hmem : i ∈ k :: S
      · exact hmem
      · simp [hmem] at this
    have hbelow : ∀ i, i < w1 → i ∈ k :: S := by
      intro i hi
      by_cases hik : i < k
      · exact List.mem_cons_of_mem _ (h.below i (by omega))
      · exact hin i (by omega) hi
    have hk1 : k < w1 := by
      -- position k itself is filled, so the window moves past it
      apply Nat.lt_of_le_of_ne a1
      intro e
      have hlt : w1 < segs.length := by omega
      have := a4 hlt
      rw [← e, hfilled.2 k hk] at this
      simp at this
    simp only [Fetch.callback]
    refine ⟨rfl, hfilled, rfl, hbelow, a2, ?_, rfl, h.noerr, h.nopanic, ?_, ?_, ?_, ?_⟩
    · intro hlt hmem
      have := a4 hlt
      rw [hfilled.2 w1 hlt] at this
      simp [hmem] at this
    · simp only [List.map_append, List.flatten_append, List.map_cons, List.map_nil, List.flatten_cons, List.flatten_nil,
        List.append_nil, h.chunks, h.wnd0, hw]
      rw [joinRange_filled segs (k :: S) _ k w1 hfilled a2 hin]
      exact take_flatten_extend segs k w1 (by omega)
    · intro c hc
      simp only [List.mem_append, List.mem_cons, List.not_mem_nil, or_false] at hc
      rcases hc with hc | hc
      · exact h.cberr c hc
      · subst hc; exact h.noerr
    · have h0 : (cbs.filter (·.complete)).length = 0 := by
        rw [h.ncomplete]; simp; omega
      simp only [List.filter_append, List.length_append, h0, Nat.zero_add]
      by_cases hc : w1 = segs.length
      · simp [List.filter, hc]
      · simp [List.filter, hc]
    · intro hc
      exact ⟨_, List.getLast?_concat, by simpa using hc⟩
  · simp only [hw, if_false, List.append_nil]
    have hlt : f.wnd1 < k := by omega
    refine ⟨rfl, hfilled, h.wnd0, ?_, h.le, ?_, (by simp; omega), h.noerr, h.nopanic, h.chunks, h.cberr, h.ncomplete, h.lastc⟩
    · intro i hi; exact List.mem_cons_of_mem _ (h.below i hi)
    · intro hl hmem
      simp only [List.mem_cons] at hmem
      rcases hmem with hmem | hmem
      · omega
      · exact h.notin hl hmem

end Ndn.C15

namespace Ndn.C15

/-- the state after the first Data has set `segCnt` and sized the buffer -/
def fetchInit (n : Nat) : Fetch := { segCnt := some n, content := List.replicate n none }

/-- the first Data initialises `segCnt` from FinalBlockId and sizes the buffer; from then on
    `handleData` behaves as from `fetchInit` -/
theorem handleData_first (base : Name) (segs : List Bytes) (k : Nat) (h1 : 1 ≤ segs.length)
    (hmax : segs.length ≤ maxObjectSeg) :
    ({} : Fetch).handleData (.data (segPkt base segs k)) = (fetchInit segs.length).handleData (.data (segPkt base segs k)) := by
  have hnum : numberVal (segComp (segs.length - 1)) = segs.length - 1 :=
    numberVal_segComp _ (by simp only [maxObjectSeg] at hmax; omega)
  have ht : (segComp (segs.length - 1)).typ = typSegment := rfl
  have hcnt : segs.length - 1 + 1 = segs.length := by omega
  have hle : ¬ segs.length > maxObjectSeg := by omega
  unfold Fetch.handleData fetchInit
  simp [segPkt, hnum, ht, hcnt, hle]

theorem finv_init (segs : List Bytes) (h1 : 1 ≤ segs.length) : FInv segs [] (fetchInit segs.length) [] := by
  refine ⟨rfl, ⟨by simp [fetchInit], ?_⟩, rfl, ?_, by simp [fetchInit], by simp, ?_, rfl, rfl, by simp [fetchInit], by simp, ?_, ?_⟩
  · intro i hi
    simp [fetchInit, List.getD_eq_getElem?_getD, hi]
  · intro i hi; simp [fetchInit] at hi
  · have : ¬ 0 = segs.length := by omega
    simp [fetchInit, this]
  · have : ¬ 0 = segs.length := by omega
    simp [fetchInit, this]
  · intro h; simp [fetchInit] at h; omega

theorem finv_run (base : Name) (segs : List Bytes) (hn : segs.length < 2 ^ 64)
    (hseg : ∀ i, i < segs.length → segs.getD i [] ≠ []) :
    ∀ (order : List Nat) (S : List Nat) (f : Fetch) (cbs : List CbRec), FInv segs S f cbs → order.Nodup →
      (∀ i ∈ order, i ∉ S ∧ i < segs.length) →
      FInv segs (order.reverse ++ S) (runFetch f (order.map fun i => Arrival.data (segPkt base segs i))).1
        (cbs ++ (runFetch f (order.map fun i => Arrival.data (segPkt base segs i))).2) := by
  intro order
  induction order with
  | nil => intro S f cbs h _ _; simpa [runFetch] using h
  | cons k rest ih =>
    intro S f cbs h hnd hmem
    have hk := hmem k (List.mem_cons_self ..)
    have hstep := finv_step base segs S f cbs k h hk.1 hk.2 (hseg k hk.2) hn
    have hnd' := (List.nodup_cons.mp hnd)
    have := ih (k :: S) _ _ hstep hnd'.2 (by
      intro i hi
      have := hmem i (List.mem_cons_of_mem _ hi)
      refine ⟨?_, this.2⟩
      intro hc
      simp only [List.mem_cons] at hc
      rcases hc with hc | hc
      · subst hc; exact hnd'.1 hi
      · exact this.1 hc)
    simpa [runFetch, List.reverse_cons, List.append_assoc] using this

end Ndn.C15

namespace Ndn.C15

theorem zip_range_map {α β : Type} (l : List α) (d : α) (g : Nat × α → β) :
    ((List.range l.length).zip l).map g = (List.range l.length).map fun i => g (i, l.getD i d) := by
  apply List.ext_getElem
  · simp
  · intro i h1 h2
    simp only [List.length_map, List.length_zip, List.length_range, Nat.min_self] at h1
    simp [List.getD_eq_getElem?_getD, List.getElem?_eq_getElem h1]

end Ndn.C15
