/-
  C15 — the selection loop of `rrSegFetcher.doCheck` (model: `pick`, `Client.doCheck`), after fix
  37d53c2: it always returns (the fuel the model passes is never used up, `spin` stays false), it
  returns only streams that have a segment to request, and when it returns nothing although
  streams are queued, a stream that is waiting for outstanding Interests is queued (so a later
  result re-triggers the check).
-/
import NdnVerif.C15.Model
namespace Ndn.C15

/-! ### distance (in `next()` steps) to the stream that marks the full circle -/

def hitAt (streams : List Nat) (rr f k : Nat) : Bool :=
  decide (streams.getD ((rr + k) % streams.length) 0 = f)

def distAux (streams : List Nat) (rr f : Nat) : Nat → Nat → Nat
  | 0, k => k
  | n + 1, k => if hitAt streams rr f k then k else distAux streams rr f n (k + 1)

/-- least `k ≥ 1` such that the k-th `next()` returns `f` (`length + 1` if there is none) -/
def dist (streams : List Nat) (rr f : Nat) : Nat := distAux streams rr f streams.length 1

theorem distAux_ge (streams : List Nat) (rr f : Nat) : ∀ (n k : Nat), k ≤ distAux streams rr f n k := by
  intro n
  induction n with
  | zero => intro k; simp [distAux]
  | succ n ih =>
    intro k
    simp only [distAux]
    split
    · exact Nat.le_refl _
    · exact Nat.le_trans (Nat.le_succ k) (ih (k + 1))

theorem distAux_le_of_hit (streams : List Nat) (rr f : Nat) : ∀ (n k j : Nat), k ≤ j → j < k + n →
    hitAt streams rr f j = true → distAux streams rr f n k ≤ j := by
  intro n
  induction n with
  | zero => intro k j h1 h2; omega
  | succ n ih =>
    intro k j h1 h2 hj
    simp only [distAux]
    split
    · exact h1
    · rename_i hk
      have : k ≠ j := fun e => hk (e ▸ hj)
      exact ih (k + 1) j (by omega) (by omega) hj

theorem distAux_hit (streams : List Nat) (rr f : Nat) : ∀ (n k : Nat), distAux streams rr f n k < k + n →
    hitAt streams rr f (distAux streams rr f n k) = true := by
  intro n
  induction n with
  | zero => intro k h; simp [distAux] at h
  | succ n ih =>
    intro k h
    rw [distAux] at h ⊢
    by_cases hk : hitAt streams rr f k = true
    · rw [if_pos hk]; exact hk
    · rw [if_neg hk] at h ⊢
      exact ih (k + 1) (by omega)

theorem dist_pos (streams : List Nat) (rr f : Nat) : 1 ≤ dist streams rr f := distAux_ge streams rr f _ 1

/-- an element of the list is reached within `length` steps -/
theorem dist_le_of_mem {streams : List Nat} (rr : Nat) {f : Nat} (h : f ∈ streams) :
    dist streams rr f ≤ streams.length := by
  obtain ⟨i, hi, hf⟩ := List.getElem_of_mem h
  have hL : 0 < streams.length := by omega
  -- the step count that lands on index i
  have key : ∃ k : Nat, 1 ≤ k ∧ k ≤ streams.length ∧ (rr + k) % streams.length = i := by
    by_cases hlt : rr % streams.length < i
    · refine ⟨i - rr % streams.length, by omega, by omega, ?_⟩
      rw [Nat.add_mod]
      have : (i - rr % streams.length) % streams.length = i - rr % streams.length := Nat.mod_eq_of_lt (by omega)
      rw [this]
      have : rr % streams.length + (i - rr % streams.length) = i := by omega
      rw [this]; exact Nat.mod_eq_of_lt hi
    · have ha : rr % streams.length < streams.length := Nat.mod_lt _ hL
      refine ⟨i + streams.length - rr % streams.length, by omega, by omega, ?_⟩
      rw [Nat.add_mod]
      by_cases hz : i + streams.length - rr % streams.length = streams.length
      · rw [hz, Nat.mod_self, Nat.add_zero, Nat.mod_mod]; omega
      · have : (i + streams.length - rr % streams.length) % streams.length = i + streams.length - rr % streams.length :=
          Nat.mod_eq_of_lt (by omega)
        rw [this]
        have : rr % streams.length + (i + streams.length - rr % streams.length) = i + streams.length := by omega
        rw [this, Nat.add_mod_right]; exact Nat.mod_eq_of_lt hi
  obtain ⟨k, h1, h2, h3⟩ := key
  have hh : hitAt streams rr f k = true := by
    simp only [hitAt, h3, decide_eq_true_eq]
    rw [List.getD_eq_getElem?_getD, List.getElem?_eq_getElem hi]; exact hf
  exact Nat.le_trans (distAux_le_of_hit streams rr f _ 1 k h1 (by omega) hh) h2

theorem hitAt_shift (streams : List Nat) (rr f k : Nat) :
    hitAt streams ((rr + 1) % streams.length) f k = hitAt streams rr f (k + 1) := by
  simp only [hitAt]
  rw [Nat.mod_add_mod, Nat.add_assoc, Nat.add_comm 1 k]

/-- one `next()` step that does not return `f` brings `f` one step closer -/
theorem dist_step {streams : List Nat} {rr f : Nat} (hmem : f ∈ streams)
    (hne : streams.getD ((rr + 1) % streams.length) 0 ≠ f) :
    dist streams ((rr + 1) % streams.length) f + 1 ≤ dist streams rr f := by
  have hle := dist_le_of_mem rr hmem
  have e0 : dist streams rr f = distAux streams rr f streams.length 1 := rfl
  have e1 : dist streams ((rr + 1) % streams.length) f =
      distAux streams ((rr + 1) % streams.length) f streams.length 1 := rfl
  have hhit : hitAt streams rr f (dist streams rr f) = true := by
    rw [e0]; exact distAux_hit streams rr f _ 1 (by omega)
  have h1 : hitAt streams rr f 1 = false := by unfold hitAt; exact decide_eq_false hne
  have hpos := dist_pos streams rr f
  have hne1 : dist streams rr f ≠ 1 := fun e => by rw [e, h1] at hhit; cases hhit
  have hh : hitAt streams ((rr + 1) % streams.length) f (dist streams rr f - 1) = true := by
    rw [hitAt_shift]
    have : dist streams rr f - 1 + 1 = dist streams rr f := by omega
    rw [this]; exact hhit
  have := distAux_le_of_hit streams ((rr + 1) % streams.length) f streams.length 1 (dist streams rr f - 1)
    (by omega) (by omega) hh
  omega

/-! ### the loop returns: `(L+1)² + 1` iterations are enough -/

def phi (streams : List Nat) (rr : Nat) (first : Option Nat) : Nat :=
  streams.length * (streams.length + 1) +
    match first with
    | none => streams.length + 1
    | some f => dist streams rr f

theorem phi_lower (streams : List Nat) (rr : Nat) (first : Option Nat) :
    streams.length * (streams.length + 1) + 1 ≤ phi streams rr first := by
  unfold phi
  cases first with
  | none => simp
  | some f => simp only; have := dist_pos streams rr f; omega

theorem phi_erase {streams : List Nat} {i : Nat} (hi : i < streams.length) (rr : Nat) (first : Option Nat)
    (hmem : ∀ f : Nat, first = some f → f ∈ streams.eraseIdx i) :
    phi (streams.eraseIdx i) rr first ≤ streams.length * streams.length := by
  have hlen : (streams.eraseIdx i).length = streams.length - 1 := List.length_eraseIdx_of_lt hi
  obtain ⟨m, hm⟩ : ∃ m : Nat, streams.length = m + 1 := ⟨streams.length - 1, by omega⟩
  have hexp : (m + 1) * (m + 1) = m * (m + 1) + (m + 1) := by rw [Nat.add_mul]; omega
  unfold phi
  rw [hlen, hm]
  simp only [Nat.add_sub_cancel]
  cases first with
  | none => simp only; omega
  | some f =>
    simp only
    have := dist_le_of_mem rr (hmem f rfl)
    rw [hlen, hm] at this
    simp only [Nat.add_sub_cancel] at this
    omega

theorem mem_eraseIdx_of_ne {l : List Nat} {i a : Nat} (h : a ∈ l) (hne : l.getD i 0 ≠ a) : a ∈ l.eraseIdx i := by
  induction l generalizing i with
  | nil => cases h
  | cons x t ih =>
    cases i with
    | zero =>
      simp only [List.eraseIdx_cons_zero]
      rcases List.mem_cons.mp h with rfl | h
      · simp at hne
      · exact h
    | succ i =>
      simp only [List.eraseIdx_cons_succ]
      rcases List.mem_cons.mp h with rfl | h
      · exact List.mem_cons_self
      · exact List.mem_cons_of_mem _ (ih h (by simpa using hne))

theorem getD_mem {l : List Nat} {i : Nat} (h : i < l.length) : l.getD i 0 ∈ l := by
  rw [List.getD_eq_getElem?_getD, List.getElem?_eq_getElem h]; exact List.getElem_mem h

theorem pick_returns (cons : List Cons) : ∀ (fuel : Nat) (streams : List Nat) (rr : Nat) (first : Option Nat),
    (∀ f : Nat, first = some f → f ∈ streams) → phi streams rr first < fuel →
    (pick cons fuel streams rr first).2.2.2 = false := by
  intro fuel
  induction fuel with
  | zero => intro streams rr first _ h; omega
  | succ fuel ih =>
    intro streams rr first hf hphi
    rw [pick]
    by_cases hemp : streams.isEmpty = true
    · simp [hemp]
    · simp only [hemp, Bool.false_eq_true, if_false]
      have hL : 0 < streams.length := by
        cases streams with
        | nil => simp at hemp
        | cons a t => simp
      have hrr : (rr + 1) % streams.length < streams.length := Nat.mod_lt _ hL
      have hs := getD_mem hrr
      obtain ⟨s, hsd⟩ : ∃ s : Nat, s = streams.getD ((rr + 1) % streams.length) 0 := ⟨_, rfl⟩
      rw [← hsd] at hs ⊢
      by_cases hfs : first = some s
      · simp [hfs]
      · simp only [hfs, if_false]
        -- the updated `first`
        obtain ⟨first', hfirst'⟩ : ∃ x : Option Nat, x = if first.isNone then some s else first := ⟨_, rfl⟩
        rw [← hfirst']
        have hf' : ∀ f : Nat, first' = some f → f ∈ streams := by
          intro f hx
          rw [hfirst'] at hx
          cases first with
          | none => simp at hx; rw [← hx]; exact hs
          | some f0 => simp at hx; exact hf f (by rw [hx])
        -- continuing with the same list makes progress
        have cont : phi streams ((rr + 1) % streams.length) first' < fuel := by
          unfold phi at hphi ⊢
          cases first with
          | none =>
            simp at hfirst'; subst hfirst'
            simp only at hphi ⊢
            have := dist_le_of_mem ((rr + 1) % streams.length) hs
            omega
          | some f0 =>
            simp at hfirst'; subst hfirst'
            simp only at hphi ⊢
            have hne : streams.getD ((rr + 1) % streams.length) 0 ≠ f0 := by
              rw [← hsd]; intro e; exact hfs (by rw [e])
            have := dist_step (hf f0 rfl) hne
            omega
        split
        · -- lazy removal
          apply ih
          · intro f hx
            split at hx
            · cases hx
            · rename_i hne
              have hfm := hf' f hx
              apply mem_eraseIdx_of_ne hfm
              rw [← hsd]; intro e; exact hne (by rw [hx, e])
          · -- the list got shorter
            have hmem2 : ∀ f : Nat, (if first' = some s then none else first') = some f →
                f ∈ streams.eraseIdx ((rr + 1) % streams.length) := by
              intro f hx
              split at hx
              · cases hx
              · rename_i hne
                apply mem_eraseIdx_of_ne (hf' f hx)
                rw [← hsd]; intro e; exact hne (by rw [hx, e])
            have h1 := phi_erase hrr ((rr + 1) % streams.length) _ hmem2
            have h2 := phi_lower streams rr first
            have h3 : streams.length * (streams.length + 1) = streams.length * streams.length + streams.length :=
              Nat.mul_succ _ _
            omega
        · (repeat' split) <;> first | exact ih _ _ _ hf' cont | rfl

/-! ### what the loop returns -/

/-- "if we don't know the segment count, wait for the first segment" -/
def skipWait (f : Fetch) : Bool := f.segCnt.isNone && decide (f.wnd2 > 0)
/-- "all interests are out" -/
def skipOut (f : Fetch) : Bool :=
  match f.segCnt with
  | some n => decide (n > 0) && decide (f.wnd2 ≥ n)
  | none => false
/-- the stream has a segment to request now -/
def eligible (f : Fetch) : Bool := !f.complete && !skipWait f && !skipOut f
/-- the stream is not finished and has nothing to request now: it waits for results of Interests
    that are out -/
def waiting (f : Fetch) : Bool := !f.complete && (skipWait f || skipOut f)

def fOf (cons : List Cons) (s : Nat) : Fetch := (cons.getD s default).f

theorem mem_of_mem_eraseIdx {l : List Nat} {i a : Nat} (h : a ∈ l.eraseIdx i) : a ∈ l :=
  (List.eraseIdx_sublist l i).subset h

theorem pick_spec (cons : List Cons) : ∀ (fuel : Nat) (streams : List Nat) (rr : Nat) (first : Option Nat),
    (∀ f : Nat, first = some f → f ∈ streams ∧ waiting (fOf cons f) = true) →
    (∀ x ∈ (pick cons fuel streams rr first).1, x ∈ streams) ∧
    (∀ s : Nat, (pick cons fuel streams rr first).2.2.1 = some s →
      s ∈ (pick cons fuel streams rr first).1 ∧ eligible (fOf cons s) = true) ∧
    ((pick cons fuel streams rr first).2.2.1 = none → (pick cons fuel streams rr first).2.2.2 = false →
      (pick cons fuel streams rr first).1 = [] ∨
      ∃ x ∈ (pick cons fuel streams rr first).1, waiting (fOf cons x) = true) := by
  intro fuel
  induction fuel with
  | zero =>
    intro streams rr first _
    simp only [pick]
    refine ⟨fun x h => h, ?_, ?_⟩
    · intro s h; cases h
    · intro _ h; cases h
  | succ fuel ih =>
    intro streams rr first hf
    rw [pick]
    by_cases hemp : streams.isEmpty = true
    · simp only [hemp, if_true]
      refine ⟨fun x h => h, ?_, ?_⟩
      · intro s h; cases h
      · intro _ _
        left
        cases streams with
        | nil => rfl
        | cons a t => simp at hemp
    · simp only [hemp, Bool.false_eq_true, if_false]
      have hL : 0 < streams.length := by
        cases streams with
        | nil => simp at hemp
        | cons a t => simp
      have hrr : (rr + 1) % streams.length < streams.length := Nat.mod_lt _ hL
      have hs := getD_mem hrr
      obtain ⟨s, hsd⟩ : ∃ s : Nat, s = streams.getD ((rr + 1) % streams.length) 0 := ⟨_, rfl⟩
      rw [← hsd] at hs ⊢
      by_cases hfs : first = some s
      · simp only [hfs, if_true]
        refine ⟨fun x h => h, ?_, ?_⟩
        · intro s' h; cases h
        · intro _ _; exact Or.inr ⟨s, hs, (hf s hfs).2⟩
      · simp only [hfs, if_false]
        obtain ⟨first', hfirst'⟩ : ∃ x : Option Nat, x = if first.isNone then some s else first := ⟨_, rfl⟩
        rw [← hfirst']
        have hfold : ∀ f : Nat, first' = some f → f ≠ s → f ∈ streams ∧ waiting (fOf cons f) = true := by
          intro f hx hne
          rw [hfirst'] at hx
          cases first with
          | none => simp at hx; exact absurd hx.symm hne
          | some f0 => simp at hx; exact hf f (by rw [hx])
        have hfs' : first' = some s ∨ (∃ f, first' = some f ∧ f ≠ s) := by
          rw [hfirst']
          cases first with
          | none => left; simp
          | some f0 => right; exact ⟨f0, by simp, fun e => hfs (by rw [e])⟩
        by_cases hc : (fOf cons s).complete = true
        · -- lazy removal
          have hc' : (cons.getD s default).f.complete = true := hc
          simp only [hc', if_true]
          have hinv : ∀ f : Nat, (if first' = some s then none else first') = some f →
              f ∈ streams.eraseIdx ((rr + 1) % streams.length) ∧ waiting (fOf cons f) = true := by
            intro f hx
            split at hx
            · cases hx
            · rename_i hne
              have hfne : f ≠ s := fun e => hne (by rw [hx, e])
              obtain ⟨h1, h2⟩ := hfold f hx hfne
              refine ⟨mem_eraseIdx_of_ne h1 ?_, h2⟩
              rw [← hsd]; exact fun e => hfne e.symm
          obtain ⟨i1, i2, i3⟩ := ih (streams.eraseIdx ((rr + 1) % streams.length)) ((rr + 1) % streams.length) _ hinv
          exact ⟨fun x h => mem_of_mem_eraseIdx (i1 x h), i2, i3⟩
        · have hc' : (cons.getD s default).f.complete = false := Bool.eq_false_iff.mpr hc
          simp only [hc', Bool.false_eq_true, if_false]
          -- the invariant for a stream that is skipped
          have hinv : waiting (fOf cons s) = true → ∀ f : Nat, first' = some f →
              f ∈ streams ∧ waiting (fOf cons f) = true := by
            intro hw f hx
            by_cases hfe : f = s
            · subst hfe; exact ⟨hs, hw⟩
            · exact hfold f hx hfe
          by_cases h2 : skipWait (fOf cons s) = true
          · have h2' : ((cons.getD s default).f.segCnt.isNone && decide ((cons.getD s default).f.wnd2 > 0)) = true := h2
            simp only [h2', if_true]
            exact ih streams _ first' (hinv (by
              have e1 : (fOf cons s).complete = false := hc'
              simp only [waiting, e1, h2, Bool.not_false, Bool.true_or, Bool.and_true]))
          · have h2' : ((cons.getD s default).f.segCnt.isNone && decide ((cons.getD s default).f.wnd2 > 0)) = false :=
              Bool.eq_false_iff.mpr h2
            simp only [h2', Bool.false_eq_true, if_false]
            have hret : skipOut (fOf cons s) = false →
                (∀ x ∈ ((streams, (rr + 1) % streams.length, some s, false) : List Nat × Nat × Option Nat × Bool).1,
                  x ∈ streams) ∧
                (∀ s' : Nat, ((streams, (rr + 1) % streams.length, some s, false) :
                    List Nat × Nat × Option Nat × Bool).2.2.1 = some s' →
                  s' ∈ streams ∧ eligible (fOf cons s') = true) := by
              intro e3
              refine ⟨fun x h => h, ?_⟩
              intro s' hs'
              cases hs'
              refine ⟨hs, ?_⟩
              have e2 : skipWait (fOf cons s) = false := Bool.eq_false_iff.mpr h2
              have e1 : (fOf cons s).complete = false := hc'
              simp only [eligible, e1, e2, e3, Bool.not_false, Bool.and_self]
            have hso : skipOut (fOf cons s) = (match (cons.getD s default).f.segCnt with
                | some n => decide (n > 0) && decide ((cons.getD s default).f.wnd2 ≥ n)
                | none => false) := rfl
            cases hsc : (cons.getD s default).f.segCnt with
            | none =>
              rw [hsc] at hso
              simp only [Bool.false_eq_true, if_false]
              obtain ⟨r1, r2⟩ := hret hso
              exact ⟨r1, r2, fun h => by cases h⟩
            | some n =>
              rw [hsc] at hso
              simp only at hso ⊢
              by_cases h3 : (decide (n > 0) && decide ((cons.getD s default).f.wnd2 ≥ n)) = true
              · rw [if_pos h3]
                rw [h3] at hso
                exact ih streams _ first' (hinv (by
                  have e1 : (fOf cons s).complete = false := hc'
                  simp only [waiting, e1, hso, Bool.not_false, Bool.or_true, Bool.and_true]))
              · rw [if_neg h3]
                rw [Bool.eq_false_iff.mpr h3] at hso
                obtain ⟨r1, r2⟩ := hret hso
                exact ⟨r1, r2, fun h => by cases h⟩

/-! ### doCheck -/

/-- what holds after a completed `doCheck`: the window is full, or no stream is queued, or a queued
    stream is waiting for results of Interests that are out (and its results will call `doCheck`
    again) -/
def Served (c : Client) : Prop :=
  c.outstanding ≥ window ∨ c.streams = [] ∨ ∃ x ∈ c.streams, waiting (fOf c.cons x) = true

/-- streams queued in the fetcher have no metadata Interest out -/
def NoMeta (c : Client) : Prop := ∀ o ∈ c.streams, (c.getCons o).metaPending = false

theorem pick_fuel_ok (streams : List Nat) (rr : Nat) :
    phi streams rr none < (streams.length + 1) * (streams.length + 1) + 1 := by
  unfold phi
  simp only
  have : (streams.length + 1) * (streams.length + 1) = streams.length * (streams.length + 1) + (streams.length + 1) := by
    rw [Nat.add_mul]; omega
  omega

theorem getCons_setCons (c : Client) (s o : Nat) (x : Cons) :
    (c.setCons s x).getCons o = if o = s ∧ s < c.cons.length then x else c.getCons o := by
  unfold Client.getCons Client.setCons
  simp only [List.getD_eq_getElem?_getD, List.getElem?_set]
  by_cases h : s = o
  · subst h
    by_cases hl : s < c.cons.length
    · simp [hl]
    · simp [hl]
  · have : ¬ o = s := fun e => h e.symm
    simp [h, this]

def afterPick (c : Client) (r : List Nat × Nat × Option Nat × Bool) : Client :=
  { c with streams := r.1, rrIndex := r.2.1, spin := c.spin || r.2.2.2 }

def queueSeg (c1 : Client) (s : Nat) : Client :=
  { (c1.setCons s { (c1.getCons s) with
        f := { (c1.getCons s).f with wnd2 := (c1.getCons s).f.wnd2 + 1 },
        pending := (c1.getCons s).pending ++ [((c1.getCons s).f.wnd2, retryBudget)] }) with
    outstanding := c1.outstanding + 1 }

def pickOf (c : Client) : List Nat × Nat × Option Nat × Bool :=
  pick c.cons ((c.streams.length + 1) * (c.streams.length + 1) + 1) c.streams c.rrIndex none

theorem doCheck_succ (fuel : Nat) (c : Client) :
    c.doCheck (fuel + 1) =
      if c.outstanding ≥ window then (c, [])
      else match (pickOf c).2.2.1 with
        | none => (afterPick c (pickOf c), [])
        | some s =>
          (((queueSeg (afterPick c (pickOf c)) s).doCheck fuel).1,
            (s, some ((afterPick c (pickOf c)).getCons s).f.wnd2) ::
              ((queueSeg (afterPick c (pickOf c)) s).doCheck fuel).2) := by
  rw [Client.doCheck]
  rfl

theorem doCheck_spec : ∀ (fuel : Nat) (c : Client), c.spin = false → NoMeta c →
    (c.doCheck fuel).1.spin = false ∧ NoMeta (c.doCheck fuel).1 ∧
    (∀ x ∈ (c.doCheck fuel).1.streams, x ∈ c.streams) ∧
    (c.doCheck fuel).1.cons.length = c.cons.length ∧
    (c.doCheck fuel).1.impossible = c.impossible ∧
    (∀ o : Nat, ((c.doCheck fuel).1.getCons o).metaPending = (c.getCons o).metaPending ∧
      ((c.doCheck fuel).1.getCons o).f.complete = (c.getCons o).f.complete) ∧
    (window - c.outstanding < fuel → Served (c.doCheck fuel).1) := by
  intro fuel
  induction fuel with
  | zero =>
    intro c hs hm
    refine ⟨hs, hm, fun x h => h, rfl, rfl, fun o => ⟨rfl, rfl⟩, fun h => ?_⟩
    omega
  | succ fuel ih =>
    intro c hs hm
    rw [doCheck_succ]
    by_cases hw : c.outstanding ≥ window
    · rw [if_pos hw]
      exact ⟨hs, hm, fun x h => h, rfl, rfl, fun o => ⟨rfl, rfl⟩, fun _ => Or.inl hw⟩
    · rw [if_neg hw]
      obtain ⟨r, hr⟩ : ∃ r, r = pickOf c := ⟨_, rfl⟩
      rw [← hr]
      have hret : r.2.2.2 = false := by
        rw [hr]; exact pick_returns c.cons _ c.streams c.rrIndex none (fun f h => by cases h) (pick_fuel_ok _ _)
      obtain ⟨p1, p2, p3⟩ := pick_spec c.cons ((c.streams.length + 1) * (c.streams.length + 1) + 1) c.streams
        c.rrIndex none (fun f h => by cases h)
      have hr' : pick c.cons ((c.streams.length + 1) * (c.streams.length + 1) + 1) c.streams c.rrIndex none = r := by
        rw [hr]; rfl
      rw [hr'] at p1 p2 p3
      have hspin : (afterPick c r).spin = false := by
        show (c.spin || r.2.2.2) = false; rw [hs, hret]; rfl
      cases hsel : r.2.2.1 with
      | none =>
        refine ⟨hspin, fun o ho => hm o (p1 o ho), p1, rfl, rfl, fun o => ⟨rfl, rfl⟩, fun _ => ?_⟩
        rcases p3 hsel hret with h | ⟨x, hx, hwx⟩
        · exact Or.inr (Or.inl h)
        · exact Or.inr (Or.inr ⟨x, hx, hwx⟩)
      | some s =>
        simp only
        obtain ⟨c2, hc2⟩ : ∃ c2 : Client, c2 = queueSeg (afterPick c r) s := ⟨_, rfl⟩
        rw [← hc2]
        have g2 : ∀ o : Nat, (c2.getCons o).metaPending = (c.getCons o).metaPending ∧
            (c2.getCons o).f.complete = (c.getCons o).f.complete := by
          intro o
          have e : c2.getCons o = ((afterPick c r).setCons s { ((afterPick c r).getCons s) with
              f := { ((afterPick c r).getCons s).f with wnd2 := ((afterPick c r).getCons s).f.wnd2 + 1 },
              pending := ((afterPick c r).getCons s).pending ++ [(((afterPick c r).getCons s).f.wnd2, retryBudget)] }).getCons o := by
            rw [hc2]; rfl
          have e1 : ∀ o' : Nat, (afterPick c r).getCons o' = c.getCons o' := fun _ => rfl
          rw [e, getCons_setCons]
          split
          · rename_i h; obtain ⟨h1, _⟩ := h; subst h1
            simp only; rw [e1]; exact ⟨rfl, rfl⟩
          · rw [e1]; exact ⟨rfl, rfl⟩
        have hs2' : c2.spin = false := by rw [hc2]; exact hspin
        have hst2 : c2.streams = r.1 := by rw [hc2]; rfl
        have hm2 : NoMeta c2 := by
          intro o ho
          rw [hst2] at ho
          rw [(g2 o).1]; exact hm o (p1 o ho)
        have hlen2 : c2.cons.length = c.cons.length := by
          rw [hc2]; show ((afterPick c r).cons.set s _).length = _
          rw [List.length_set]; rfl
        have himp2 : c2.impossible = c.impossible := by rw [hc2]; rfl
        have hout2 : c2.outstanding = c.outstanding + 1 := by rw [hc2]; rfl
        obtain ⟨i1, i2, i3, i4, i5, i6, i7⟩ := ih c2 hs2' hm2
        refine ⟨i1, i2, ?_, by rw [i4, hlen2], by rw [i5, himp2], ?_, ?_⟩
        · intro x hx; exact p1 x (by rw [← hst2]; exact i3 x hx)
        · intro o; rw [(i6 o).1, (i6 o).2]; exact g2 o
        · intro hf; exact i7 (by rw [hout2]; omega)

theorem check_spec (c : Client) (cbs : List (Nat × CbRec)) (hs : c.spin = false) (hm : NoMeta c) :
    (c.check cbs).1.spin = false ∧ NoMeta (c.check cbs).1 ∧ Served (c.check cbs).1 ∧
    (∀ x ∈ (c.check cbs).1.streams, x ∈ c.streams) ∧
    (∀ o : Nat, ((c.check cbs).1.getCons o).metaPending = (c.getCons o).metaPending) := by
  unfold Client.check
  obtain ⟨i1, i2, i3, _, _, i6, i7⟩ := doCheck_spec (window + 1) c hs hm
  exact ⟨i1, i2, i7 (by omega), i3, fun o => (i6 o).1⟩

/-! ### the invariant over every event of every run -/

structure Inv4 (c : Client) : Prop where
  spin : c.spin = false
  served : Served c
  nometa : NoMeta c

theorem fOf_eq (c : Client) (x : Nat) : fOf c.cons x = (c.getCons x).f := rfl

/-- a change that leaves the queued streams' fetch state and metadata flag alone -/
theorem Inv4.congr {c c' : Client} (I : Inv4 c) (h1 : c'.spin = c.spin) (h2 : c'.streams = c.streams)
    (h3 : c'.outstanding = c.outstanding)
    (h4 : ∀ o ∈ c.streams, (c'.getCons o).f = (c.getCons o).f ∧
      (c'.getCons o).metaPending = (c.getCons o).metaPending) : Inv4 c' := by
  refine ⟨by rw [h1]; exact I.spin, ?_, ?_⟩
  · rcases I.served with h | h | ⟨x, hx, hw⟩
    · exact Or.inl (by rw [h3]; exact h)
    · exact Or.inr (Or.inl (by rw [h2]; exact h))
    · exact Or.inr (Or.inr ⟨x, by rw [h2]; exact hx, by rw [fOf_eq, (h4 x hx).1, ← fOf_eq]; exact hw⟩)
  · intro o ho
    rw [h2] at ho
    rw [(h4 o ho).2]; exact I.nometa o ho

theorem Inv4.setCons {c : Client} (I : Inv4 c) (o : Nat) (x : Cons)
    (h : o ∈ c.streams → x.f = (c.getCons o).f ∧ x.metaPending = (c.getCons o).metaPending) :
    Inv4 (c.setCons o x) := by
  refine I.congr rfl rfl rfl ?_
  intro o' ho'
  rw [getCons_setCons]
  split
  · rename_i hh; obtain ⟨e, _⟩ := hh; subst e; exact h ho'
  · exact ⟨rfl, rfl⟩

theorem Inv4.fail {c : Client} (I : Inv4 c) (o : Nat) (ho : o ∉ c.streams) : Inv4 (c.fail o).1 := by
  unfold Client.fail
  exact I.setCons o _ (fun h => absurd h ho)

theorem Inv4.check {c : Client} (hs : c.spin = false) (hm : NoMeta c) (cbs : List (Nat × CbRec)) :
    Inv4 (c.check cbs).1 := by
  obtain ⟨a, b, d, _, _⟩ := check_spec c cbs hs hm
  exact ⟨a, d, b⟩

theorem Inv4.consumeObject {c : Client} (I : Inv4 c) (o : Nat) (viaMeta : Bool) (ho : o ∉ c.streams)
    (hmp : (c.getCons o).metaPending = false) : Inv4 (c.consumeObject o viaMeta).1 := by
  unfold Client.consumeObject
  simp only
  cases hgl : (c.getCons o).fetchName.getLast? with
  | none => exact I.fail o ho
  | some l =>
    simp only
    by_cases hv : l.typ ≠ typVersion
    · rw [if_pos hv]
      by_cases hvm : viaMeta = true
      · rw [if_pos hvm]; exact I.fail o ho
      · rw [if_neg hvm]; exact I.setCons o _ (fun h => absurd h ho)
    · rw [if_neg hv]
      apply Inv4.check (c := { c with streams := c.streams ++ [o] }) I.spin
      intro o' ho'
      have ho'' : o' ∈ c.streams ++ [o] := ho'
      rcases List.mem_append.mp ho'' with h | h
      · exact I.nometa o' h
      · simp at h; subst h; exact hmp

theorem Inv4.handleData {c : Client} (I : Inv4 c) (o k : Nat) (a : Arrival) : Inv4 (c.handleData o k a).1 := by
  unfold Client.handleData
  apply Inv4.check
  · exact I.spin
  · intro o' ho'
    have hin : o' ∈ c.streams := by
      have ho'' : o' ∈ (if _ then (c.setCons o _).streams.filter (· ≠ o) else (c.setCons o _).streams) := ho'
      split at ho''
      · exact (List.mem_filter.mp ho'').1
      · exact ho''
    have := I.nometa o' hin
    show ((c.setCons o _).getCons o').metaPending = false
    rw [getCons_setCons]
    split
    · rename_i hh; obtain ⟨e, _⟩ := hh; subst e; exact this
    · exact this

theorem getCons_default (c : Client) (o : Nat) (h : ¬ o < c.cons.length) : c.getCons o = default := by
  unfold Client.getCons
  rw [List.getD_eq_getElem?_getD, List.getElem?_eq_none (by omega)]; rfl

theorem Inv4.step {c : Client} (I : Inv4 c) (serve : Name → Bool → Option Pkt) (e : Ev) :
    Inv4 (c.step serve e).1 := by
  have hbad : Inv4 c.bad.1 := I.congr rfl rfl rfl (fun _ _ => ⟨rfl, rfl⟩)
  cases e with
  | unsolicited => exact I
  | data o k =>
    cases k with
    | none =>
      simp only [Client.step]
      by_cases hmp : (c.getCons o).metaPending = true
      · simp only [hmp, Bool.not_true, Bool.false_eq_true, if_false]
        have ho : o ∉ c.streams := fun h => by have := I.nometa o h; rw [hmp] at this; cases this
        cases c.served serve o none with
        | none => exact hbad
        | some p =>
          simp only
          have I1 : Inv4 (c.setCons o { (c.getCons o) with metaPending := false }) :=
            I.setCons o _ (fun h => absurd h ho)
          have ho1 : o ∉ (c.setCons o { (c.getCons o) with metaPending := false }).streams := ho
          cases p.md with
          | none => exact I1.fail o ho1
          | some nm =>
            simp only
            have I2 := I1.setCons o { ((c.setCons o { (c.getCons o) with metaPending := false }).getCons o) with
              fetchName := nm.1 } (fun h => absurd h ho1)
            apply I2.consumeObject o true ho1
            -- the metadata flag of o is off
            by_cases hl : o < c.cons.length
            · rw [getCons_setCons]
              have hl1 : o < (c.setCons o { (c.getCons o) with metaPending := false }).cons.length := by
                unfold Client.setCons; simpa using hl
              simp only [hl1, and_self, if_true]
              rw [getCons_setCons]
              simp only [hl, and_self, if_true]
            · rw [getCons_default]
              · rfl
              · unfold Client.setCons; simpa using hl
      · have : (c.getCons o).metaPending = false := Bool.eq_false_iff.mpr hmp
        simp only [this, Bool.not_false, if_true]; exact hbad
    | some k =>
      simp only [Client.step]
      split
      · exact hbad
      · cases c.served serve o (some k) with
        | none => exact hbad
        | some p => exact I.handleData o k _
  | timeout o k =>
    cases k with
    | none =>
      simp only [Client.step]
      by_cases hmp : (c.getCons o).metaPending = true
      · simp only [hmp, Bool.not_true, Bool.false_eq_true, if_false]
        have ho : o ∉ c.streams := fun h => by have := I.nometa o h; rw [hmp] at this; cases this
        split
        · exact I.setCons o _ (fun h => absurd h ho)
        · exact (I.setCons o _ (fun h => absurd h ho)).fail o ho
      · have : (c.getCons o).metaPending = false := Bool.eq_false_iff.mpr hmp
        simp only [this, Bool.not_false, if_true]; exact hbad
    | some k =>
      simp only [Client.step]
      cases (c.getCons o).pending.find? (·.1 = k) with
      | none => exact hbad
      | some e =>
        simp only
        split
        · exact I.setCons o _ (fun _ => ⟨rfl, rfl⟩)
        · exact I.handleData o k _

/-! ### start and run -/

theorem consumeObject_frame (c : Client) (o : Nat) (v : Bool) (hs : c.spin = false) (hm : NoMeta c)
    (hmp : (c.getCons o).metaPending = false) :
    (∀ x ∈ (c.consumeObject o v).1.streams, x ∈ c.streams ∨ x = o) ∧
    (∀ o' : Nat, o' ≠ o → ((c.consumeObject o v).1.getCons o').metaPending = (c.getCons o').metaPending) := by
  have hfail : (∀ x ∈ (c.fail o).1.streams, x ∈ c.streams ∨ x = o) ∧
      (∀ o' : Nat, o' ≠ o → ((c.fail o).1.getCons o').metaPending = (c.getCons o').metaPending) := by
    unfold Client.fail
    refine ⟨fun x h => Or.inl h, ?_⟩
    intro o' hne
    simp only
    rw [getCons_setCons]
    split
    · rename_i h; exact absurd h.1 hne
    · rfl
  unfold Client.consumeObject
  simp only
  cases hgl : (c.getCons o).fetchName.getLast? with
  | none => exact hfail
  | some l =>
    simp only
    by_cases hv : l.typ ≠ typVersion
    · rw [if_pos hv]
      by_cases hvm : v = true
      · rw [if_pos hvm]; exact hfail
      · rw [if_neg hvm]
        refine ⟨fun x h => Or.inl h, ?_⟩
        intro o' hne
        simp only
        rw [getCons_setCons]
        split
        · rename_i h; exact absurd h.1 hne
        · rfl
    · rw [if_neg hv]
      have hm' : NoMeta ({ c with streams := c.streams ++ [o] } : Client) := by
        intro o' ho'
        have ho'' : o' ∈ c.streams ++ [o] := ho'
        rcases List.mem_append.mp ho'' with h | h
        · exact hm o' h
        · simp at h; subst h; exact hmp
      obtain ⟨_, _, _, i4, i5⟩ := check_spec ({ c with streams := c.streams ++ [o] } : Client) [] hs hm'
      refine ⟨?_, fun o' _ => i5 o'⟩
      intro x hx
      have := i4 x hx
      have h2 : x ∈ c.streams ++ [o] := this
      rcases List.mem_append.mp h2 with h | h
      · exact Or.inl h
      · simp at h; exact Or.inr h

theorem start_fold (os : List Nat) : ∀ (acc : Client × Out), Inv4 acc.1 → os.Nodup →
    (∀ o ∈ os, o ∉ acc.1.streams ∧ (acc.1.getCons o).metaPending = false) →
    Inv4 (os.foldl (fun (acc : Client × Out) o =>
      ((acc.1.consumeObject o false).1, acc.2.append (acc.1.consumeObject o false).2)) acc).1 := by
  induction os with
  | nil => intro acc I _ _; exact I
  | cons o rest ih =>
    intro acc I nd hfresh
    simp only [List.foldl_cons]
    obtain ⟨h1, h2⟩ := hfresh o List.mem_cons_self
    have I' := I.consumeObject o false h1 h2
    obtain ⟨f1, f2⟩ := consumeObject_frame acc.1 o false I.spin I.nometa h2
    have nd' := (List.nodup_cons.mp nd)
    apply ih ((acc.1.consumeObject o false).1, acc.2.append (acc.1.consumeObject o false).2) I' nd'.2
    intro o' ho'
    have hne : o' ≠ o := fun e => nd'.1 (e ▸ ho')
    obtain ⟨g1, g2⟩ := hfresh o' (List.mem_cons_of_mem _ ho')
    refine ⟨?_, by rw [f2 o' hne]; exact g2⟩
    intro hin
    rcases f1 o' hin with h | h
    · exact g1 h
    · exact hne h

theorem Inv4.start (names : List Name) : Inv4 (Client.start names).1 := by
  unfold Client.start
  apply start_fold
  · refine ⟨rfl, Or.inr (Or.inl rfl), ?_⟩
    intro o ho; cases ho
  · exact List.nodup_range
  · intro o _
    refine ⟨?_, ?_⟩
    · intro h; cases h
    simp only [Client.getCons, List.getD_eq_getElem?_getD, List.getElem?_map]
    cases names[o]? <;> rfl

theorem Inv4.markImpossible {c : Client} (I : Inv4 c) (b : Bool) :
    Inv4 (if b = true then c else { c with impossible := true }) := by
  cases b
  · exact I.congr rfl rfl rfl (fun _ _ => ⟨rfl, rfl⟩)
  · exact I

/-- every run: after every event the selection loop has returned (`spin = false`) and the fetcher is
    `Served` -/
theorem Inv4.run (serve : Name → Bool → Option Pkt) (delivers : Nat → Key → Nat → Bool) (names : List Name)
    (evs : List Ev) : Inv4 (Client.run serve delivers names evs).1 := by
  unfold Client.run
  simp only
  have key : ∀ (evs : List Ev) (acc : Client × List Out × List ((Nat × Key) × Nat)), Inv4 acc.1 →
      Inv4 (evs.foldl (fun (acc : Client × List Out × List ((Nat × Key) × Nat)) e =>
        let c := acc.1
        let cnt := acc.2.2
        let consistent : Bool :=
          match e with
          | .data o k => delivers o k (countOf cnt (o, k)) && (c.served serve o k).isSome
          | .timeout o k => !(delivers o k (countOf cnt (o, k)) && (c.served serve o k).isSome)
          | .unsolicited => true
        let r := c.step serve e
        let c' := if consistent then r.1 else { r.1 with impossible := true }
        (c', acc.2.1 ++ [r.2], r.2.sent.foldl bump cnt)) acc).1 := by
    intro evs
    induction evs with
    | nil => intro acc I; exact I
    | cons e rest ih =>
      intro acc I
      simp only [List.foldl_cons]
      apply ih
      exact (I.step serve e).markImpossible _
  exact key evs _ (Inv4.start names)

end Ndn.C15
