/-
  C15 — property theorems (helper lemmas live in Lemmas.lean).  Every theorem is unbounded: no bound
  on the number or size of buffers, on trie shape, on store size (except where a guard is stated).
-/
import NdnVerif.C15.Lemmas
import NdnVerif.C15.LemmasFetch
import NdnVerif.C15.LemmasBolt
import NdnVerif.C15.LemmasMemStore
import NdnVerif.C15.LemmasBoltStore
import NdnVerif.C15.LemmasClient
import NdnVerif.C15.LemmasQuiet
namespace Ndn.C15

/-! ### Produce: segmentation -/

/-- the inner loop of Produce neither loses, duplicates nor reorders bytes: the segment it cuts
    followed by what remains is the input, for every buffer list and every room -/
theorem fillSeg_concat (bufs : List Bytes) (room : Nat) :
    (fillSeg bufs room).1 ++ (fillSeg bufs room).2.flatten = bufs.flatten :=
  fillSeg_concat' bufs room

/-- the concatenation of the produced segments is the concatenation of the input buffers — for EVERY
    list of input buffers (any split, empty buffers included) -/
theorem segments_concat (bufs : List Bytes) : (segments bufs).flatten = bufs.flatten :=
  segments_flatten bufs

example : segments [[1, 2], [], [3]] = [[1, 2, 3]] := by
  simp [segments, fillSeg, segSize]

/-- segment shape: every segment has at most 8000 bytes (every buffer list); if the last input buffer
    is not empty: no segment is empty, all but the last have exactly 8000 bytes and there are
    (size-1)/8000+1 of them — the FinalBlockId Produce announces is the last segment's number.
    (Full statement without the guard is false for the code: a trailing empty buffer after an exact
    multiple of 8000 bytes yields one extra empty segment beyond FinalBlockId — design/C15.md §6.) -/
theorem segment_count (bufs : List Bytes) :
    (∀ s ∈ segments bufs, s.length ≤ segSize) ∧
    (LastNonempty bufs → bufs ≠ [] →
      (∀ s ∈ segments bufs, s ≠ []) ∧
      (∀ s ∈ (segments bufs).dropLast, s.length = segSize) ∧
      (segments bufs).length = (totalLen bufs - 1) / segSize + 1) := by
  refine ⟨segments_le bufs, fun h hne => ?_⟩
  have := segments_count bufs h hne
  exact ⟨segments_nonempty bufs h, this.2, this.1⟩

example : LastNonempty [[1, 2], [], [3]] ∧ [[1, 2], [], [3]] ≠ ([] : List Bytes) := by
  constructor
  · intro b hb; simp at hb; subst hb; simp
  · simp

/-- the guard of `segment_count` is needed (shown with room 2 instead of 8000): after a segment that is
    exactly full a trailing empty buffer remains, and the next outer iteration cuts an empty segment -/
example : fillSeg [[1, 2], []] 2 = ([1, 2], [[]]) ∧ fillSeg [[]] 2 = ([], []) := by
  simp [fillSeg]

/-! ### stores: newest version, removal -/

/-- bolt keeps its keys sorted: the empty store is, `Put` and `Remove` preserve it — so every store
    reachable by the operations satisfies the hypothesis `BSorted` of the next theorem -/
theorem bolt_reachable_sorted :
    BSorted [] ∧ (∀ s p, BSorted s → BSorted (boltPut s p)) ∧ (∀ s n pfx, BSorted s → BSorted (boltRemove s n pfx)) :=
  ⟨List.Pairwise.nil, fun s p h => boltPutKey_sorted s _ h, fun s n pfx h => boltRemove_sorted s n pfx h⟩

/-- bolt, prefix query, at most 999 keys under the prefix (guard = the code's scan limit, F-15d): the
    answer is a stored packet whose key extends the query key and whose version is maximal among ALL
    stored packets whose key extends the query key (version 0 included); none stored ⇒ no answer.
    The full statement (no guard) is false for the code: with more than 999 keys under the prefix the
    packets beyond the 999th are never looked at (replay corpus/C15/bolt-scan-limit.ops). -/
theorem newest_version_selected_bolt_partial (s : Bolt) (hs : BSorted s) (name : Name)
    (hguard : (boltScan s (encKey name)).length ≤ boltScanLimit) :
    ((∀ e ∈ s, (encKey name).isPrefixOf e.key = false) → boltGet s name true = none) ∧
    ((∃ e ∈ s, (encKey name).isPrefixOf e.key = true) →
      ∃ e ∈ s, (encKey name).isPrefixOf e.key = true ∧ boltGet s name true = some e.pkt ∧
        ∀ e' ∈ s, (encKey name).isPrefixOf e'.key = true → e'.ver ≤ e.ver) := by
  have hscan := bolt_scan_newest s name hguard
  have hiff := boltScan_mem_iff s hs (encKey name)
  constructor
  · intro hnone
    apply hscan.1
    apply List.eq_nil_iff_forall_not_mem.mpr
    intro e he
    have := (hiff e).mp he
    rw [hnone e this.1] at this
    cases this.2
  · intro ⟨e0, he0, hp0⟩
    have hne : boltScan s (encKey name) ≠ [] := by
      intro hnil
      have := (hiff e0).mpr ⟨he0, hp0⟩
      rw [hnil] at this; cases this
    obtain ⟨e, he, hget, hmax⟩ := hscan.2 hne
    have := (hiff e).mp he
    exact ⟨e, this.1, this.2, hget, fun e' he' hp' => hmax e' ((hiff e').mpr ⟨he', hp'⟩)⟩

def exPkt (n : Nat) : Pkt := { name := [⟨8, [n]⟩], fb := none, content := [n] }
def exBolt : Bolt := boltPut (boltPut [] ⟨[⟨8, [1]⟩, ⟨8, [1]⟩], 5, exPkt 1⟩) ⟨[⟨8, [1]⟩, ⟨8, [2]⟩], 3, exPkt 2⟩

example : BSorted exBolt ∧ (boltScan exBolt (encKey [⟨8, [1]⟩])).length ≤ boltScanLimit := by
  refine ⟨?_, by decide⟩
  unfold BSorted
  decide

/-- non-vacuity: byte order ≠ version order; the newer packet (first key) is chosen -/
example : boltGet exBolt [⟨8, [1]⟩] true = some (exPkt 1) := by decide

/-- removal from the bolt store: nothing at or below a removed prefix is served (exact or prefix
    query), a removed exact name is not served -/
theorem removed_not_served_bolt (s : Bolt) (name : Name) :
    (∀ q : Name, (encKey name).isPrefixOf (encKey q) → ∀ pfx, boltGet (boltRemove s name true) q pfx = none) ∧
    boltGet (boltRemove s name false) name false = none := by
  constructor
  · intro q hq pfx
    have hnone : ∀ e ∈ boltRemove s name true, ¬ (encKey q).isPrefixOf e.key = true := by
      intro e he hp
      simp only [boltRemove, if_true, List.mem_filter] at he
      have h1 : (encKey name).isPrefixOf e.key = true := by
        rw [List.isPrefixOf_iff_prefix] at hq hp ⊢
        exact List.IsPrefix.trans hq hp
      simp [h1] at he
    cases pfx with
    | true =>
      have hscan : boltScan (boltRemove s name true) (encKey q) = [] := by
        apply List.eq_nil_iff_forall_not_mem.mpr
        intro e he
        unfold boltScan at he
        have hp := mem_takeWhile_pred _ _ _ he
        have hm := (List.dropWhile_sublist _).subset ((List.takeWhile_sublist _).subset he)
        exact hnone e hm hp
      simp [boltGet, hscan, boltNewest]
    | false =>
      simp only [boltGet, Bool.false_eq_true, if_false, Option.map_eq_none_iff, List.find?_eq_none]
      intro e he hk
      simp only [decide_eq_true_eq] at hk
      apply hnone e he
      rw [hk, List.isPrefixOf_iff_prefix]
      exact List.prefix_refl _
  · simp only [boltGet, Bool.false_eq_true, if_false, Option.map_eq_none_iff, List.find?_eq_none, boltRemove]
    intro e he
    simp only [List.mem_filter] at he
    simpa using he.2

example : boltGet exBolt [⟨8, [1]⟩, ⟨8, [2]⟩] false = some (exPkt 2) ∧
    boltGet (boltRemove exBolt [⟨8, [1]⟩] true) [⟨8, [1]⟩, ⟨8, [2]⟩] false = none := by decide

/-- memory store, prefix query: the exact node's packet if it has one; otherwise a packet of maximal
    version among all packets stored below the node, version 0 included — for every order of the
    children lists (Go map iteration order) -/
theorem newest_version_selected_mem (root node : MNode) (name : Name) (h : root.find name = some node) :
    (∀ p, node.wire = some p → memGet root name true = some p) ∧
    (node.wire = none →
      (∀ p, memGet root name true = some p → ∃ v, (v, p) ∈ node.entries ∧ ∀ e ∈ node.entries, e.1 ≤ v) ∧
      (node.entries ≠ [] → (memGet root name true).isSome = true) ∧
      (node.entries = [] → memGet root name true = none)) := by
  have hb := findNewest_best node
  constructor
  · intro p hp
    simp [memGet, h, hp]
  · intro hw
    have hg : memGet root name true = node.findNewest.wire := by simp [memGet, h, hw]
    rw [hg]
    refine ⟨?_, ?_, ?_⟩
    · intro p hp
      exact ⟨node.findNewest.ver, hb.1 p hp, fun e he => (hb.2 e he).2⟩
    · intro hne
      obtain ⟨e, he⟩ := List.exists_mem_of_ne_nil _ hne
      exact (hb.2 e he).1
    · intro he
      cases hfw : node.findNewest.wire with
      | none => rfl
      | some p => have := hb.1 p hfw; simp [he] at this

def exMem : MNode :=
  memPut (memPut (memPut MNode.empty ⟨[⟨8, [1]⟩, ⟨8, [1]⟩], 0, exPkt 1⟩) ⟨[⟨8, [1]⟩, ⟨8, [2]⟩], 3, exPkt 2⟩)
    ⟨[⟨8, [1]⟩, ⟨8, [3]⟩], 2, exPkt 3⟩

/-- non-vacuity: three versions inserted out of order, the query node has no packet of its own -/
example : memGet exMem [⟨8, [1]⟩] true = some (exPkt 2) := by
  simp [exMem, memPut, memGet, MNode.insert, MNode.empty, MKids.lookup, MKids.push, MKids.set, MNode.find, MNode.kids,
    MNode.wire, MNode.findNewest, MKids.newest, MNode.ver, exPkt]

/-- version 0 alone is found (F-15b) -/
example : memGet (memPut MNode.empty ⟨[⟨8, [1]⟩, ⟨8, [1]⟩], 0, exPkt 1⟩) [⟨8, [1]⟩] true = some (exPkt 1) := by
  simp [memPut, memGet, MNode.insert, MNode.empty, MKids.lookup, MKids.push, MNode.find, MNode.kids,
    MNode.wire, MNode.findNewest, MKids.newest, MNode.ver, exPkt]

/-- memory store: after `Remove(name, prefix)` no query at or below `name` is answered; after
    `Remove(name, exact)` the exact query for `name` is not answered -/
theorem removed_not_served_mem (root : MNode) (name : Name) :
    (∀ rest pfx, memGet (memRemove root name true) (name ++ rest) pfx = none) ∧
    memGet (memRemove root name false) name false = none := by
  constructor
  · intro rest pfx
    exact memGet_of_gone _ _ _ (find_remove_prefix root name rest)
  · unfold memGet memRemove
    cases hf : (root.remove name false).1.find name with
    | none => rfl
    | some n => simp [find_remove_exact root name n hf]

/-! ### consumer: any delivery order, retransmissions -/

/-- Any-order fetch.  For every object (`segs`: the segments Produce stored, none empty, at most
    `maxObjectSeg`) and EVERY order in which the segment Data reach `handleData` (each segment exactly
    once — `order` is any permutation of the segment numbers):
    the chunks `Content()` hands to the callback concatenate to the object's content (nothing
    corrupted, duplicated or reordered), the state ends complete without error, exactly one callback
    invocation reports completion and it is the last one. -/
theorem fetch_any_order (base : Name) (segs : List Bytes) (order : List Nat)
    (hne : segs ≠ []) (hseg : ∀ s ∈ segs, s ≠ []) (hmax : segs.length ≤ maxObjectSeg)
    (hperm : order.Perm (List.range segs.length)) :
    let r := runFetch {} (order.map fun i => Arrival.data (segPkt base segs i))
    (r.2.map (·.chunk)).flatten = segs.flatten ∧ r.1.complete = true ∧ r.1.err = false ∧
    (r.2.filter (·.complete)).length = 1 ∧ (∃ c, r.2.getLast? = some c ∧ c.complete = true) ∧
    ∀ c ∈ r.2, c.err = false := by
  intro r
  have h1 : 1 ≤ segs.length := List.length_pos_iff.mpr hne
  have hn : segs.length < 2 ^ 64 := by simp only [maxObjectSeg] at hmax; omega
  have hsegD : ∀ i, i < segs.length → segs.getD i [] ≠ [] := by
    intro i hi
    rw [List.getD_eq_getElem?_getD, List.getElem?_eq_getElem hi]
    exact hseg _ (List.getElem_mem hi)
  have hnd : order.Nodup := hperm.nodup_iff.mpr List.nodup_range
  have hmem : ∀ i, i ∈ order ↔ i < segs.length := by
    intro i; rw [hperm.mem_iff]; simp
  -- the first Data initialises the state; from then on the invariant of `finv_step` is carried along
  have hrun : FInv segs (order.reverse ++ []) r.1 ([] ++ r.2) := by
    have hstart : r = runFetch (fetchInit segs.length) (order.map fun i => Arrival.data (segPkt base segs i)) := by
      cases horder : order with
      | nil =>
        have := (hmem 0).mpr (by omega)
        simp [horder] at this
      | cons k rest =>
        simp only [r, horder, List.map_cons, runFetch]
        rw [handleData_first base segs k h1 hmax]
    rw [hstart]
    exact finv_run base segs hn hsegD order [] _ [] (finv_init segs h1) hnd
      (fun i hi => ⟨by simp, (hmem i).mp hi⟩)
  simp only [List.append_nil, List.nil_append] at hrun
  have hw : r.1.wnd1 = segs.length := by
    apply Nat.le_antisymm hrun.le
    apply Nat.le_of_not_lt
    intro hlt
    exact hrun.notin hlt (by simp [(hmem _).mpr hlt])
  refine ⟨?_, ?_, hrun.noerr, ?_, hrun.lastc hw, hrun.cberr⟩
  · rw [hrun.chunks, hw, List.take_length]
  · rw [hrun.complete]; simp [hw]
  · rw [hrun.ncomplete]; simp [hw]

/-- non-vacuity: three segments arriving in the order 2, 0, 1 -/
example : List.Perm [2, 0, 1] (List.range [[1], [2], [3]].length) := by decide

example :
    (runFetch {} ([2, 0, 1].map fun i => Arrival.data (segPkt [⟨8, [1]⟩] [[1], [2], [3]] i))).2
      = [⟨[1], false, false⟩, ⟨[2, 3], true, false⟩] := by decide

/-- Retransmission: a timeout of a segment Interest that still has retries left never reaches the
    fetch state — ExpressR re-expresses the Interest, no callback is made, the window is untouched.
    Together with `fetch_any_order` (which is about the Data that do arrive, in whatever order the
    retransmissions cause) this covers every loss pattern within the retry budget. -/
theorem timeout_within_budget_absorbed (serve : Name → Bool → Option Pkt) (c : Client) (o k k' left : Nat)
    (ho : o < c.cons.length)
    (hp : (c.getCons o).pending.find? (·.1 = k) = some (k', left)) (hl : left > 0) :
    ((c.step serve (.timeout o (some k))).1.getCons o).f = (c.getCons o).f ∧
    (c.step serve (.timeout o (some k))).2.cbs = [] ∧
    (c.step serve (.timeout o (some k))).2.sent = [(o, some k)] := by
  simp only [Client.step, hp, hl, if_true]
  simp [Client.getCons, Client.setCons, List.getD_eq_getElem?_getD, ho]

/-! ### Produce and Consume together -/

/-- what Produce stores (last input buffer not empty): the packets `segPkt` of `segments bufs` under
    the returned name `<name>/v=ver` — segment `i` named `<name>/v/seg=i`, FinalBlockId = number of the
    last segment — followed by the metadata packet `<name>/32=metadata/v/seg=0` whose content names
    `<name>/v` and that FinalBlockId -/
theorem produce_packets (name : Name) (ver : Nat) (bufs : List Bytes) (hlast : LastNonempty bufs) (hne : bufs ≠ []) :
    let base := name ++ [verComp ver]
    let segs := segments bufs
    let fb := segComp (segs.length - 1)
    let mname := name ++ [metaKw, verComp ver, segComp 0]
    produce name ver bufs = some
      { ret := base,
        puts := ((List.range segs.length).map fun i => (⟨base ++ [segComp i], ver, segPkt base segs i⟩ : Put)) ++
          [⟨mname, ver, { name := mname, fb := some fb, content := encMeta base (encComp fb), md := some (base, encComp fb) }⟩] } := by
  intro base segs fb mname
  have hpos := lastNonempty_totalLen_pos bufs hne hlast
  have hcnt := (segments_count bufs hlast hne).1
  have hlastSeg : (totalLen bufs - 1) / segSize = segs.length - 1 := by
    show _ = (segments bufs).length - 1
    rw [hcnt]; rfl
  unfold produce
  have hz : ¬ totalLen bufs = 0 := by omega
  simp only [hz, if_false, hlastSeg]
  congr 2
  congr 1
  rw [zip_range_map (segments bufs) []]
  rfl

/-- Round trip: content of any non-zero size, split into input buffers in any way (last buffer not
    empty), published by Produce and fetched segment by segment in ANY arrival order, reaches the
    consumer's callback byte-for-byte, with exactly one completion report and no error. -/
theorem publish_retrieve_roundtrip (name : Name) (ver : Nat) (bufs : List Bytes) (order : List Nat)
    (hlast : LastNonempty bufs) (hne : bufs ≠ []) (hmax : (segments bufs).length ≤ maxObjectSeg)
    (hperm : order.Perm (List.range (segments bufs).length)) :
    let r := runFetch {} (order.map fun i => Arrival.data (segPkt (name ++ [verComp ver]) (segments bufs) i))
    (r.2.map (·.chunk)).flatten = bufs.flatten ∧ r.1.complete = true ∧ r.1.err = false ∧
    (r.2.filter (·.complete)).length = 1 := by
  intro r
  have hs : segments bufs ≠ [] := fun e => hne ((segments_eq_nil bufs).mp e)
  have := fetch_any_order (name ++ [verComp ver]) (segments bufs) order hs (segments_nonempty bufs hlast) hmax hperm
  obtain ⟨h1, h2, h3, h4, _, _⟩ := this
  exact ⟨by rw [← segments_concat bufs]; exact h1, h2, h3, h4⟩

/-! ### stores over whole histories: exactly the packets Put and not Removed -/

/-- MEMORY store, every history of Put / Remove(exact|prefix) / transaction(Begin, Put*, Commit): the trie is
    well formed (distinct child keys) and holds at every name exactly what the abstract content
    `contents ops` holds (last Put wins, Remove exact deletes the name, Remove prefix deletes every name
    under it) — pruning of emptied nodes and the merge of a transaction trie included -/
theorem mem_store_exact (ops : List SOp) :
    (memRun ops).WF ∧ ∀ nm, (memRun ops).lookup nm = contents ops nm :=
  memRel_run ops

/-- TLV keys: for names whose component types and value lengths fit uint64, the encoded key is injective
    and `encKey q` is a byte-prefix of `encKey nm` iff `q` is a component-prefix of `nm` -/
theorem key_prefix_is_name_prefix (q nm : Name) (hq : NameWF q) (hn : NameWF nm) :
    ((encKey q).isPrefixOf (encKey nm) = true ↔ pfxOf q nm = true) ∧ (encKey q = encKey nm → q = nm) :=
  ⟨encKey_prefix_iff q nm hq hn, encKey_inj q nm hq hn⟩

/-- BOLT store model, every history (names within Go's value ranges): the key list is strictly sorted and
    its entries are exactly `{(encKey nm, ver, pkt) | contents ops nm = some (ver, pkt)}` -/
theorem bolt_store_exact (ops : List SOp) (hw : ∀ op ∈ ops, op.WF) :
    BSorted (boltRun ops) ∧
    (∀ e ∈ boltRun ops, ∃ nm, e.key = encKey nm ∧ contents ops nm = some (e.ver, e.pkt)) ∧
    (∀ nm v p, contents ops nm = some (v, p) → ∃ e ∈ boltRun ops, e.key = encKey nm ∧ e.ver = v ∧ e.pkt = p) :=
  let h := boltRel_run ops hw
  ⟨h.sorted, h.sound, h.complete⟩

def exOps : List SOp :=
  [.put ⟨[⟨8, [1]⟩, ⟨8, [1]⟩], 5, exPkt 1⟩, .tx [⟨[⟨8, [1]⟩, ⟨8, [2]⟩], 3, exPkt 2⟩, ⟨[⟨8, [2]⟩], 9, exPkt 3⟩],
   .remove [⟨8, [2]⟩] true, .put ⟨[⟨8, [1]⟩, ⟨8, [3]⟩], 0, exPkt 4⟩]

example : ∀ op ∈ exOps, op.WF := by
  intro op hop
  simp only [exOps, List.mem_cons, List.mem_nil_iff, or_false] at hop
  rcases hop with rfl | rfl | rfl | rfl <;> simp [SOp.WF, NameWF, CompWF]

example : contents exOps [⟨8, [1]⟩, ⟨8, [2]⟩] = some (3, exPkt 2) ∧ contents exOps [⟨8, [2]⟩] = none := by
  constructor <;> simp [exOps, contents, Content.apply, Content.put, Content.remove, pfxOf]

/-- MEMORY store after any history, in terms of the abstract content: exact Get = content; prefix Get
    answers with the exact packet if there is one, otherwise with a packet stored under the prefix whose
    version is maximal among ALL names of the content under the prefix — and with nothing iff the content
    has no name under the prefix -/
theorem newest_version_selected_mem_history (ops : List SOp) (name : Name) :
    memGet (memRun ops) name false = (contents ops name).map (·.2) ∧
    (∀ v p, contents ops name = some (v, p) → memGet (memRun ops) name true = some p) ∧
    (contents ops name = none →
      (∀ p, memGet (memRun ops) name true = some p → ∃ v, NewestUnder (contents ops) name v p) ∧
      (memGet (memRun ops) name true = none ↔ NoneUnder (contents ops) name)) := by
  obtain ⟨hwf, hex⟩ := mem_store_exact ops
  cases hf : (memRun ops).find name with
  | none =>
    have hnone : ∀ rest, contents ops (name ++ rest) = none := fun rest => by
      rw [← hex]; exact lookup_append_none _ name rest hf
    have h0 : contents ops name = none := by simpa using hnone []
    refine ⟨by simp [memGet, hf, h0], ?_, ?_⟩
    · intro v p h; rw [h0] at h; cases h
    · intro _
      refine ⟨by simp [memGet, hf], ?_⟩
      simp only [memGet, hf, true_iff]
      intro nm hnm
      obtain ⟨rest, rfl⟩ := (pfxOf_iff name nm).mp hnm
      exact hnone rest
  | some node =>
    have hlk : ∀ rest, contents ops (name ++ rest) = node.lookup rest := fun rest => by
      rw [← hex]; exact lookup_append _ node name rest hf
    have h0 : contents ops name = node.wire.map fun p => (node.ver, p) := by
      have := hlk []
      cases node with | mk w v kids => simpa [lookup_nil, MNode.wire, MNode.ver] using this
    have hnwf := wf_find _ name node hwf hf
    have hsel := newest_version_selected_mem (memRun ops) node name hf
    refine ⟨?_, ?_, ?_⟩
    · rw [h0]; simp only [memGet, hf]; cases hw : node.wire <;> simp [hw]
    · intro v p h
      rw [h0] at h
      cases hw : node.wire with
      | none => simp [hw] at h
      | some q => simp [hw] at h; rw [← h.2]; exact hsel.1 q hw
    · intro hc
      have hw : node.wire = none := by
        rw [h0] at hc; cases hq : node.wire with
        | none => rfl
        | some q => simp [hq] at hc
      obtain ⟨h1, h2, h3⟩ := hsel.2 hw
      have hentry : ∀ e, e ∈ node.entries ↔ ∃ rest, contents ops (name ++ rest) = some e := by
        intro e
        constructor
        · intro he
          obtain ⟨rest, hr⟩ := lookup_of_entries node hnwf e he
          exact ⟨rest, by rw [hlk, hr]⟩
        · rintro ⟨rest, hr⟩
          rw [hlk] at hr
          exact entries_of_lookup node rest e hr
      constructor
      · intro p hp
        obtain ⟨v, hv, hmax⟩ := h1 p hp
        obtain ⟨rest, hr⟩ := (hentry (v, p)).mp hv
        refine ⟨v, name ++ rest, pfxOf_append name rest, hr, ?_⟩
        intro nm' v' p' hnm' hc'
        obtain ⟨rest', rfl⟩ := (pfxOf_iff name nm').mp hnm'
        exact hmax (v', p') ((hentry (v', p')).mpr ⟨rest', hc'⟩)
      · constructor
        · intro hnone nm hnm
          obtain ⟨rest, rfl⟩ := (pfxOf_iff name nm).mp hnm
          cases hcn : contents ops (name ++ rest) with
          | none => rfl
          | some e =>
            have hmem := (hentry e).mpr ⟨rest, hcn⟩
            have := h2 (List.ne_nil_of_mem hmem)
            rw [hnone] at this; cases this
        · intro hno
          apply h3
          apply List.eq_nil_iff_forall_not_mem.mpr
          intro e he
          obtain ⟨rest, hr⟩ := (hentry e).mp he
          rw [hno (name ++ rest) (pfxOf_append name rest)] at hr; cases hr

/-- nothing stored under a prefix ⇒ the cursor scan is empty (so the scan-limit guard holds trivially) -/
theorem boltScan_nil_of_noneUnder (ops : List SOp) (hw : ∀ op ∈ ops, op.WF) (name : Name) (hn : NameWF name)
    (hno : NoneUnder (contents ops) name) : boltScan (boltRun ops) (encKey name) = [] := by
  have hrel := boltRel_run ops hw
  apply List.eq_nil_iff_forall_not_mem.mpr
  intro e he
  obtain ⟨hes, hp⟩ := (boltScan_mem_iff _ hrel.sorted (encKey name) e).mp he
  obtain ⟨nm, h1, h2⟩ := hrel.sound e hes
  have hwn := hrel.support nm (by simp [h2])
  rw [h1] at hp
  rw [hno nm ((encKey_prefix_iff name nm hn hwn).mp hp)] at h2
  cases h2

/-- BOLT store model after any history (names within Go's value ranges), in terms of the abstract
    content: exact Get = content; prefix Get — under the guard "at most 999 keys under the prefix" (the
    code's scan limit, known finding F-15d) — answers with a packet stored under the prefix whose version
    is maximal among ALL names of the content under the prefix, and with nothing iff there is none.
    The unguarded statement is false for the code (replays corpus/C15/bolt-scan-limit*.ops). -/
theorem newest_version_selected_bolt_history_partial (ops : List SOp) (hw : ∀ op ∈ ops, op.WF) (name : Name)
    (hn : NameWF name) :
    boltGet (boltRun ops) name false = (contents ops name).map (·.2) ∧
    ((boltScan (boltRun ops) (encKey name)).length ≤ boltScanLimit →
      (∀ p, boltGet (boltRun ops) name true = some p → ∃ v, NewestUnder (contents ops) name v p) ∧
      (boltGet (boltRun ops) name true = none ↔ NoneUnder (contents ops) name)) := by
  have hrel := boltRel_run ops hw
  refine ⟨boltGet_exact_of_rel _ _ name hn hrel, fun hguard => ?_⟩
  obtain ⟨hnone, hsome⟩ := newest_version_selected_bolt_partial (boltRun ops) hrel.sorted name hguard
  -- stored keys under the encoded prefix = names of the content under the prefix
  have hkey : ∀ e ∈ boltRun ops, ∀ nm, e.key = encKey nm → contents ops nm = some (e.ver, e.pkt) →
      ((encKey name).isPrefixOf e.key = true ↔ pfxOf name nm = true) := by
    intro e _ nm h1 h2
    rw [h1]; exact encKey_prefix_iff name nm hn (hrel.support nm (by simp [h2]))
  by_cases hex : ∃ e ∈ boltRun ops, (encKey name).isPrefixOf e.key = true
  · obtain ⟨e, he, hp, hget, hmax⟩ := hsome hex
    obtain ⟨nm, h1, h2⟩ := hrel.sound e he
    have hnew : NewestUnder (contents ops) name e.ver e.pkt := by
      refine ⟨nm, (hkey e he nm h1 h2).mp hp, h2, ?_⟩
      intro nm' v' p' hnm' hc'
      obtain ⟨e', he', k1, k2, k3⟩ := hrel.complete nm' v' p' hc'
      have := hmax e' he' ((hkey e' he' nm' k1 (by rw [k2, k3]; exact hc')).mpr hnm')
      omega
    constructor
    · intro p hp'
      rw [hget] at hp'; cases hp'
      exact ⟨e.ver, hnew⟩
    · rw [hget]
      constructor
      · intro h; cases h
      · intro hno
        obtain ⟨nm0, hn0, hc0, _⟩ := hnew
        rw [hno nm0 hn0] at hc0; cases hc0
  · have hall : ∀ e ∈ boltRun ops, (encKey name).isPrefixOf e.key = false := by
      intro e he
      cases hq : (encKey name).isPrefixOf e.key with
      | false => rfl
      | true => exact absurd ⟨e, he, hq⟩ hex
    have hget := hnone hall
    constructor
    · intro p hp'; rw [hget] at hp'; cases hp'
    · simp only [hget, true_iff]
      intro nm hnm
      cases hc : contents ops nm with
      | none => rfl
      | some vp =>
        obtain ⟨e, he, k1, k2, k3⟩ := hrel.complete nm vp.1 vp.2 hc
        have := (hkey e he nm k1 (by rw [k2, k3]; exact hc)).mpr hnm
        rw [hall e he] at this; cases this

example : (boltScan (boltRun exOps) (encKey [⟨8, [1]⟩])).length ≤ boltScanLimit := by decide

/-- Removed packets are no longer served, over every history and for both stores: right after
    `Remove(name, prefix)` no exact or prefix Get at or below `name` is answered; right after
    `Remove(name, exact)` the exact Get of `name` is not answered.  (More generally, by the two
    `…_history` theorems, a Get is answered only from `contents`, which a Remove clears until the next Put.) -/
theorem removed_not_served_history (ops : List SOp) (hw : ∀ op ∈ ops, op.WF) (name rest : Name)
    (hn : NameWF (name ++ rest)) :
    (∀ pfx, memGet (memRun (ops ++ [.remove name true])) (name ++ rest) pfx = none ∧
            boltGet (boltRun (ops ++ [.remove name true])) (name ++ rest) pfx = none) ∧
    (memGet (memRun (ops ++ [.remove name false])) name false = none ∧
     boltGet (boltRun (ops ++ [.remove name false])) name false = none) := by
  have hnw := nameWF_append.mp hn
  have hw1 : ∀ op ∈ ops ++ [SOp.remove name true], op.WF := by
    intro op hop
    rcases List.mem_append.mp hop with h | h
    · exact hw op h
    · simp at h; subst h; exact hnw.1
  have hw2 : ∀ op ∈ ops ++ [SOp.remove name false], op.WF := by
    intro op hop
    rcases List.mem_append.mp hop with h | h
    · exact hw op h
    · simp at h; subst h; exact hnw.1
  constructor
  · have hno : NoneUnder (contents (ops ++ [.remove name true])) (name ++ rest) := by
      intro nm hnm
      have : pfxOf name nm = true := pfxOf_trans name (name ++ rest) nm (pfxOf_append name rest) hnm
      simp [contents_snoc, Content.apply, Content.remove, this]
    have h0 : contents (ops ++ [.remove name true]) (name ++ rest) = none := hno _ (pfxOf_refl _)
    have hm := newest_version_selected_mem_history (ops ++ [.remove name true]) (name ++ rest)
    have hb := newest_version_selected_bolt_history_partial (ops ++ [.remove name true]) hw1 (name ++ rest) hn
    have hscan := boltScan_nil_of_noneUnder _ hw1 (name ++ rest) hn hno
    intro pfx
    cases pfx with
    | false => exact ⟨by rw [hm.1, h0]; rfl, by rw [hb.1, h0]; rfl⟩
    | true => exact ⟨((hm.2.2 h0).2).mpr hno, ((hb.2 (by rw [hscan]; simp)).2).mpr hno⟩
  · have h0 : contents (ops ++ [.remove name false]) name = none := by
      simp [contents_snoc, Content.apply, Content.remove]
    have hm := newest_version_selected_mem_history (ops ++ [.remove name false]) name
    have hb := newest_version_selected_bolt_history_partial (ops ++ [.remove name false]) hw2 name hnw.1
    exact ⟨by rw [hm.1, h0]; rfl, by rw [hb.1, h0]; rfl⟩

/-- Both stores agree after the same history: exact Gets are equal; for a prefix Get on a name that
    holds no packet itself (the documented difference: the memory store prefers the exact packet, bolt
    the newest below it) and within bolt's scan limit, either both answer nothing or both answer with
    packets of the SAME, maximal version stored under the prefix. -/
theorem stores_agree (ops : List SOp) (hw : ∀ op ∈ ops, op.WF) (name : Name) (hn : NameWF name) :
    memGet (memRun ops) name false = boltGet (boltRun ops) name false ∧
    (contents ops name = none → (boltScan (boltRun ops) (encKey name)).length ≤ boltScanLimit →
      (memGet (memRun ops) name true = none ↔ boltGet (boltRun ops) name true = none) ∧
      ∀ p q, memGet (memRun ops) name true = some p → boltGet (boltRun ops) name true = some q →
        ∃ v, NewestUnder (contents ops) name v p ∧ NewestUnder (contents ops) name v q) := by
  have hm := newest_version_selected_mem_history ops name
  have hb := newest_version_selected_bolt_history_partial ops hw name hn
  refine ⟨by rw [hm.1, hb.1], fun h0 hguard => ?_⟩
  obtain ⟨hm1, hm2⟩ := hm.2.2 h0
  obtain ⟨hb1, hb2⟩ := hb.2 hguard
  refine ⟨by rw [hm2, hb2], ?_⟩
  intro p q hp hq
  obtain ⟨v1, h1⟩ := hm1 p hp
  obtain ⟨v2, h2⟩ := hb1 q hq
  have : v1 = v2 := by
    obtain ⟨n1, a1, b1, c1⟩ := h1
    obtain ⟨n2, a2, b2, c2⟩ := h2
    have := c1 n2 v2 q a2 b2
    have := c2 n1 v1 p a1 b1
    omega
  subst this
  exact ⟨v1, h1, h2⟩

/-! ### several concurrent Consume calls on one client -/

/-- Frame property of one engine event in the multi-stream client (any number of concurrent consumes):
    the number of streams is unchanged; the stream the event belongs to (`evIdx e`) receives exactly the
    arrival `stepArr` (a Data, a final timeout/error = `handleData .timeout`, or nothing: absorbed
    retransmission, scheduling only); EVERY OTHER stream's fetch state is untouched except for `wnd2`
    (the only field the scheduler `doCheck` writes) and no callback of another stream is made. -/
theorem concurrent_step_frame (serve : Name → Bool → Option Pkt) (c : Client) (e : Ev) (h : evIdx e < c.cons.length) :
    (c.step serve e).1.cons.length = c.cons.length ∧
    ∀ o, ((((c.step serve e).1.getCons o).f).eqv
            (if o = evIdx e then (applyArr (c.getCons o).f (stepArr serve c e)).1 else (c.getCons o).f)) ∧
         cbsOf o (c.step serve e).2.cbs = (if o = evIdx e then (applyArr (c.getCons o).f (stepArr serve c e)).2 else []) :=
  step_eff serve c e h

/-- Multi-stream refines single-stream.  For EVERY run of the client (any consume names, any event sequence
    whose stream indices exist — also runs flagged `impossible` or `spin`), and every stream `o`: the callback
    records of `o` are exactly those of the single-stream machine `runFetch {}` fed with `o`'s arrivals
    (`runArrivals`: the Data served for its segment events in order, plus `.timeout` where a retry budget is
    exhausted or the metadata step fails), and `o`'s final fetch state is that machine's final state up to
    `wnd2`.  Other streams and the scheduler never influence what stream `o` delivers. -/
theorem concurrent_fetch_refines_single (serve : Name → Bool → Option Pkt) (delivers : Nat → Key → Nat → Bool)
    (names : List Name) (evs : List Ev) (o : Nat) (hidx : ∀ e ∈ evs, evIdx e < names.length) :
    (((Client.run serve delivers names evs).1.getCons o).f).eqv (runFetch {} (runArrivals serve delivers names evs o)).1 ∧
    outsCbs o (Client.run serve delivers names evs).2 = (runFetch {} (runArrivals serve delivers names evs o)).2 :=
  run_refines serve delivers names evs o hidx

/-- `fetch_any_order` lifted to concurrent consumes: if the arrivals of stream `o` in a run are the Data of
    all segments of its object, each once, in ANY order, then — whatever the other streams do, fail or
    starve — `o`'s callbacks deliver the exact content with exactly one completion and no error.
    PARTIAL: the hypothesis is stated on the projected arrival list; deriving it from "every segment is
    stored and every Interest of `o` gets through within the retry budget" (i.e. that the event sequence
    of a non-`impossible`, non-`spin` run contains exactly one Data per segment of `o`) needs liveness of
    the scheduler (`doCheck`/`pick` progress, LemmasPick.lean) and is not proved here. -/
theorem concurrent_fetch_any_order_partial (serve : Name → Bool → Option Pkt) (delivers : Nat → Key → Nat → Bool)
    (names : List Name) (evs : List Ev) (o : Nat) (hidx : ∀ e ∈ evs, evIdx e < names.length)
    (base : Name) (segs : List Bytes) (order : List Nat)
    (hne : segs ≠ []) (hseg : ∀ s ∈ segs, s ≠ []) (hmax : segs.length ≤ maxObjectSeg)
    (hperm : order.Perm (List.range segs.length))
    (harr : runArrivals serve delivers names evs o = order.map fun i => Arrival.data (segPkt base segs i)) :
    ((outsCbs o (Client.run serve delivers names evs).2).map (·.chunk)).flatten = segs.flatten ∧
    ((Client.run serve delivers names evs).1.getCons o).f.complete = true ∧
    ((Client.run serve delivers names evs).1.getCons o).f.err = false ∧
    ((outsCbs o (Client.run serve delivers names evs).2).filter (·.complete)).length = 1 := by
  obtain ⟨h1, h2⟩ := concurrent_fetch_refines_single serve delivers names evs o hidx
  have hf := fetch_any_order base segs order hne hseg hmax hperm
  rw [harr] at h1 h2
  obtain ⟨f1, f2, f3, f4, _, _⟩ := hf
  have hfl := Fetch.eqv_fields h1
  exact ⟨by rw [h2]; exact f1, by rw [hfl.1]; exact f2, by rw [hfl.2.1]; exact f3, by rw [h2]; exact f4⟩

/-- non-vacuity: two concurrent consumes on one client; stream 1's object is not stored (its Interest
    times out 1+3 times and it fails), stream 0 gets its two segments around those events -/
def exA : Name := [⟨8, [1]⟩, verComp 1]
def exB : Name := [⟨8, [2]⟩, verComp 1]
def exServe (n : Name) (_ : Bool) : Option Pkt :=
  if n = exA ++ [segComp 0] then some (segPkt exA [[7], [8]] 0)
  else if n = exA ++ [segComp 1] then some (segPkt exA [[7], [8]] 1) else none
def exEvs : List Ev :=
  [.data 0 (some 0), .timeout 1 (some 0), .timeout 1 (some 0), .timeout 1 (some 0), .data 0 (some 1), .timeout 1 (some 0)]

example : (∀ e ∈ exEvs, evIdx e < [exA, exB].length) ∧
    (Client.run exServe (fun _ _ _ => true) [exA, exB] exEvs).1.impossible = false ∧
    outsCbs 0 (Client.run exServe (fun _ _ _ => true) [exA, exB] exEvs).2 = [⟨[7], false, false⟩, ⟨[8], true, false⟩] ∧
    outsCbs 1 (Client.run exServe (fun _ _ _ => true) [exA, exB] exEvs).2 = [⟨[], true, true⟩] := by decide

/-! ### the scheduler of the multi-stream fetcher: termination, progress, no starvation
      (`rrSegFetcher.doCheck` after fix 37d53c2; helper lemmas in LemmasPick.lean / LemmasQuiet.lean) -/

/-- **every call returns**: for ANY fetcher state (any stream list, any round-robin index, any fetch
    states — reachable or not) the selection loop of `doCheck` ends within the `(L+1)²+1` iterations the
    model grants it; the explicit non-termination outcome `spin` is unreachable in every run. -/
theorem selection_loop_returns (c : Client) : (pickOf c).2.2.2 = false :=
  pick_returns c.cons _ c.streams c.rrIndex none (fun _ h => by cases h) (pick_fuel_ok _ _)

theorem run_never_spins (serve : Name → Bool → Option Pkt) (delivers : Nat → Key → Nat → Bool)
    (names : List Name) (evs : List Ev) : (Client.run serve delivers names evs).1.spin = false :=
  (Inv4.run serve delivers names evs).spin

/-- before the fix the loop did not return (corpus/C15/concurrent-failed-stream-spin.ops): with the
    reset of `first` removed it is exactly this termination measure that fails; here the fixed loop on
    the same shape (finished stream first, a stream with all Interests out behind it) -/
def exSpinShape : Client :=
  { cons := [{ f := { complete := true } }, { f := { segCnt := some 1, wnd2 := 1 } }]
    streams := [0, 1]
    rrIndex := 1 }

example : (pickOf exSpinShape).2.2 = (none, false) := by decide

/-- the selection loop hands out Interests only to queued streams that have a segment to request
    (not finished, not waiting for their first segment, not all Interests out), and it drops only
    finished streams from the queue -/
theorem selection_returns_only_ready (c : Client) :
    (∀ s : Nat, (pickOf c).2.2.1 = some s → s ∈ (pickOf c).1 ∧ eligible (fOf c.cons s) = true) ∧
    (∀ x ∈ c.streams, x ∈ (pickOf c).1 ∨ (fOf c.cons x).complete = true) :=
  ⟨(pick_spec c.cons _ c.streams c.rrIndex none (fun _ h => by cases h)).2.1,
   pick_removed c.cons _ c.streams c.rrIndex none⟩

/-- **a queued stream is served**: in every run, after every event (Data, final failure, retry, metadata
    result — whichever stream it belongs to): if the window has room and some stream is queued in the
    fetcher, then a queued unfinished stream has Interests out (so the next result calls `doCheck`
    again) — a stream that could be served is never left behind an idle fetcher.  This is what the
    seeded change C15-3 (no `queueCheck` on failure results) broke.
    `hserve`: the producer's store answers an exact Get with a packet of that name. -/
theorem queued_stream_eventually_served (serve : Name → Bool → Option Pkt)
    (hserve : ∀ (nm : Name) (p : Pkt), serve nm false = some p → p.name = nm)
    (delivers : Nat → Key → Nat → Bool) (names : List Name) (evs : List Ev) :
    let c := (Client.run serve delivers names evs).1
    c.outstanding < window → c.streams ≠ [] →
      ∃ x ∈ c.streams, (c.getCons x).f.complete = false ∧ (c.getCons x).pending ≠ [] := by
  intro c hroom hne
  have I4 := Inv4.run serve delivers names evs
  have I5 := (run_inv5 serve hserve delivers names evs).1
  rcases I4.served with h | h | ⟨x, hx, hw⟩
  · exact absurd h (by show ¬ c.outstanding ≥ window; omega)
  · exact absurd h hne
  · refine ⟨x, hx, ?_, (I5.k x).waiting_pending (by rw [← fOf_eq]; exact hw)⟩
    rw [fOf_eq] at hw
    simp only [waiting, Bool.and_eq_true, Bool.not_eq_true'] at hw
    exact hw.1

/-- **no starvation**: in every run of the multi-stream client — any number of concurrent Consume calls,
    any order of results, any of them failures — once no Interest is pending any more (no segment
    Interest, no metadata Interest), EVERY Consume has completed (with content or with an error). -/
theorem no_starvation_at_quiescence (serve : Name → Bool → Option Pkt)
    (hserve : ∀ (nm : Name) (p : Pkt), serve nm false = some p → p.name = nm)
    (delivers : Nat → Key → Nat → Bool) (names : List Name) (evs : List Ev)
    (hq : ∀ o : Nat, ((Client.run serve delivers names evs).1.getCons o).pending = [] ∧
      ((Client.run serve delivers names evs).1.getCons o).metaPending = false) :
    ∀ o : Nat, o < names.length → ((Client.run serve delivers names evs).1.getCons o).f.complete = true :=
  quiescent_all_complete serve hserve delivers names evs hq

/-- **completion exactly once, per Consume, also under concurrency**: in every run every Consume's
    callback reports completion at most once; at quiescence (no Interest pending) it has reported it
    exactly once (unless the Go index panic on an empty Data name was hit, which is an explicit
    outcome of the model). -/
theorem completion_exactly_once_concurrent (serve : Name → Bool → Option Pkt)
    (hserve : ∀ (nm : Name) (p : Pkt), serve nm false = some p → p.name = nm)
    (delivers : Nat → Key → Nat → Bool) (names : List Name) (evs : List Ev)
    (hidx : ∀ e ∈ evs, evIdx e < names.length) (o : Nat) (ho : o < names.length) :
    nComplete (outsCbs o (Client.run serve delivers names evs).2) ≤ 1 ∧
    ((∀ o' : Nat, ((Client.run serve delivers names evs).1.getCons o').pending = [] ∧
        ((Client.run serve delivers names evs).1.getCons o').metaPending = false) →
      ((Client.run serve delivers names evs).1.getCons o).f.panic = false →
      nComplete (outsCbs o (Client.run serve delivers names evs).2) = 1) := by
  obtain ⟨e1, e2⟩ := concurrent_fetch_refines_single serve delivers names evs o hidx
  obtain ⟨r1, r2, _⟩ := runFetch_once (runArrivals serve delivers names evs o) {} rfl rfl
  rw [e2]
  refine ⟨r1, fun hq hp => ?_⟩
  have hc := quiescent_all_complete serve hserve delivers names evs hq o ho
  have e1' := congrArg (fun f : Fetch => (f.complete, f.panic)) e1
  simp only at e1'
  obtain ⟨ec, ep⟩ := Prod.mk.inj e1'
  exact r2 (by rw [← ec]; exact hc) (by rw [← ep]; exact hp)

/-- non-vacuity: two concurrent Consume calls, one of them fails while the other completes; at
    quiescence both have completed, each exactly once -/
example :
    let r := Client.run exServe (fun _ _ _ => true) [exA, exB] exEvs
    (∀ o, (r.1.getCons o).pending = [] ∧ (r.1.getCons o).metaPending = false) ∧
    (r.1.getCons 0).f.complete = true ∧ (r.1.getCons 1).f.complete = true ∧
    nComplete (outsCbs 0 r.2) = 1 ∧ nComplete (outsCbs 1 r.2) = 1 := by
  refine ⟨?_, by decide, by decide, by decide, by decide⟩
  intro o
  match o with
  | 0 => decide
  | 1 => decide
  | n + 2 => exact ⟨rfl, rfl⟩

/-! ### a Remove while a transaction is open -/

/-- Memory store: Begin, any interleaving of Puts and Removes, Commit equals the Removes (in order) applied
    to the committed trie followed by the transaction of the Puts — `Remove` acts on the committed packets
    also while a transaction is open, the transaction's Puts appear at Commit.  Hence such a history is the
    `SOp` history `removes ++ [tx puts]` and `mem_store_exact`, `newest_version_selected_mem_history`,
    `removed_not_served_history` apply to it: a packet removed inside the transaction (and not Put by it)
    is not served afterwards. -/
theorem remove_inside_transaction (root : MNode) (items : List TxItem) :
    memStx root items =
      memTx ((txRemoves items).foldl (fun r nb => memRemove r nb.1 nb.2) root) (txPuts items) := by
  have key : ∀ (items : List TxItem) (r t : MNode),
      items.foldl txStep (r, t) =
      ((txRemoves items).foldl (fun r nb => memRemove r nb.1 nb.2) r, (txPuts items).foldl memPut t) := by
    intro items
    induction items with
    | nil => intro r t; rfl
    | cons it rest ih =>
      intro r t
      cases it with
      | put p => simp only [List.foldl_cons, txStep, ih, txRemoves, txPuts, List.filterMap_cons]
      | remove n b => simp only [List.foldl_cons, txStep, ih, txRemoves, txPuts, List.filterMap_cons]
  simp only [memStx, memTx, key]

example : memGet (memStx exMem [.put ⟨[⟨8, [9]⟩], 1, exPkt 9⟩, .remove [⟨8, [1]⟩] true]) [⟨8, [1]⟩] true = none ∧
    memGet (memStx exMem [.put ⟨[⟨8, [9]⟩], 1, exPkt 9⟩, .remove [⟨8, [1]⟩] true]) [⟨8, [9]⟩] false = some (exPkt 9) := by
  rw [remove_inside_transaction]
  constructor
  · simp only [txRemoves, txPuts, List.filterMap_cons, List.filterMap_nil, List.foldl_cons, List.foldl_nil]
    have := (removed_not_served_mem exMem [⟨8, [1]⟩]).1 [] true
    simp only [List.append_nil] at this
    simp [memTx, memGet, memRemove, exMem, memPut, MNode.insert, MNode.empty, MKids.lookup, MKids.push, MKids.set, MNode.remove,
      MKids.isEmpty, MKids.erase, MNode.merge, MKids.mergeInto, MNode.find, MNode.kids, MNode.wire, MNode.findNewest, MKids.newest, exPkt]
  · simp [txRemoves, txPuts, memTx, memGet, memRemove, exMem, memPut, MNode.insert, MNode.empty, MKids.lookup, MKids.push, MKids.set, MNode.remove,
      MKids.isEmpty, MKids.erase, MNode.merge, MKids.mergeInto, MNode.find, MNode.kids, MNode.wire, exPkt]

end Ndn.C15
