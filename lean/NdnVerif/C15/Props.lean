/-
  C15 — property theorems (helper lemmas live in Lemmas*.lean).
-/
import NdnVerif.C15.Spec
namespace Ndn.C15

/-- the inner loop of Produce neither loses, duplicates nor reorders bytes: the segment it cuts
    followed by what remains is the input, for every buffer list and every room -/
theorem fillSeg_concat (bufs : List Bytes) (room : Nat) :
    (fillSeg bufs room).1 ++ (fillSeg bufs room).2.flatten = bufs.flatten := by
  induction bufs generalizing room with
  | nil => simp [fillSeg]
  | cons b rest ih =>
    unfold fillSeg
    split
    · simp
    · split
      · simp [List.append_assoc, ih]
      · simp [← List.append_assoc, List.take_append_drop]

/-- a segment never exceeds the room it was given (8000 bytes in Produce) -/
theorem fillSeg_length_le (bufs : List Bytes) (room : Nat) :
    (fillSeg bufs room).1.length ≤ room := by
  induction bufs generalizing room with
  | nil => simp [fillSeg]
  | cons b rest ih =>
    unfold fillSeg
    split
    · simp
    · split
      · rename_i h; have := ih (room - b.length); simp; omega
      · simp [List.length_take]; omega

example : (fillSeg [[1, 2, 3], [4, 5]] 4).1 = [1, 2, 3, 4] := by decide

end Ndn.C15
