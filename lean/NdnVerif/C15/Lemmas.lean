/-
  C15 — helper lemmas for Props.lean (core Lean only).
-/
import NdnVerif.C15.Spec
namespace Ndn.C15


/-- the last input buffer (if any) is not empty -/
def LastNonempty (bufs : List Bytes) : Prop := ∀ b, bufs.getLast? = some b → b ≠ []

theorem totalLen_eq (bufs : List Bytes) : totalLen bufs = bufs.flatten.length := by
  induction bufs with
  | nil => rfl
  | cons b rest ih => simp [totalLen] at ih ⊢ <;> omega

theorem fillSeg_concat' (bufs : List Bytes) (room : Nat) :
    (fillSeg bufs room).1 ++ (fillSeg bufs room).2.flatten = bufs.flatten := by
  induction bufs generalizing room with
  | nil => simp [fillSeg]
  | cons b rest ih =>
    unfold fillSeg
    split
    · simp
    · split
      · simp [List.append_assoc, ih]
      · simp [← List.append_assoc, List.take_append_drop]

theorem fillSeg_totalLen (bufs : List Bytes) (room : Nat) :
    (fillSeg bufs room).1.length + totalLen (fillSeg bufs room).2 = totalLen bufs := by
  have := congrArg List.length (fillSeg_concat' bufs room)
  simp only [List.length_append] at this
  rw [totalLen_eq, totalLen_eq]; exact this

theorem fillSeg_length_le' (bufs : List Bytes) (room : Nat) :
    (fillSeg bufs room).1.length ≤ room := by
  induction bufs generalizing room with
  | nil => simp [fillSeg]
  | cons b rest ih =>
    unfold fillSeg
    split
    · simp
    · split
      · rename_i h; have := ih (room - b.length); simp; omega
      · simp [List.length_take]; omega

/-- a segment that leaves buffers behind is full -/
theorem fillSeg_full (bufs : List Bytes) (room : Nat) (h : (fillSeg bufs room).2 ≠ []) :
    (fillSeg bufs room).1.length = room := by
  induction bufs generalizing room with
  | nil => simp [fillSeg] at h
  | cons b rest ih =>
    unfold fillSeg at h ⊢
    split
    · rename_i h0; simp [h0]
    · rename_i h0
      split
      · rename_i hle
        simp only [hle, if_true, h0, if_false] at h
        have := ih (room - b.length) h
        simp; omega
      · simp [List.length_take]; omega

theorem lastNonempty_tail {b : Bytes} {rest : List Bytes} (h : LastNonempty (b :: rest)) (hr : rest ≠ []) :
    LastNonempty rest := by
  intro x hx
  apply h x
  cases rest with
  | nil => exact absurd rfl hr
  | cons c cs => simpa [List.getLast?_cons_cons] using hx

theorem fillSeg_rest_lastNonempty (bufs : List Bytes) (room : Nat) (h : LastNonempty bufs) :
    LastNonempty (fillSeg bufs room).2 := by
  induction bufs generalizing room with
  | nil => simp [fillSeg, LastNonempty]
  | cons b rest ih =>
    unfold fillSeg
    split
    · exact h
    · split
      · by_cases hr : rest = []
        · subst hr; simp [fillSeg, LastNonempty]
        · exact ih _ (lastNonempty_tail h hr)
      · rename_i hgt
        intro x hx
        cases rest with
        | nil =>
          simp at hx; subst hx
          intro hd
          have := congrArg List.length hd
          simp [List.length_drop] at this; omega
        | cons c cs =>
          apply h x
          simpa [List.getLast?_cons_cons] using hx

theorem fillSeg_nonempty (bufs : List Bytes) (room : Nat) (hne : bufs ≠ []) (h : LastNonempty bufs) (hr : 0 < room) :
    (fillSeg bufs room).1 ≠ [] := by
  induction bufs generalizing room with
  | nil => exact absurd rfl hne
  | cons b rest ih =>
    unfold fillSeg
    have h0 : room ≠ 0 := by omega
    simp only [h0, if_false]
    split
    · rename_i hle
      by_cases hb : b = []
      · subst hb
        have hrest : rest ≠ [] := by
          intro hr; subst hr
          exact h [] (by simp) rfl
        have := ih room hrest (lastNonempty_tail h hrest) hr
        simpa using this
      · simp [hb]
    · rename_i hgt
      intro ht
      have ht' : b.take room = [] := ht
      have : (b.take room).length = 0 := by rw [ht']; rfl
      rw [List.length_take] at this; omega

theorem lastNonempty_totalLen_pos (l : List Bytes) (hne : l ≠ []) (h : LastNonempty l) : 0 < totalLen l := by
  induction l with
  | nil => exact absurd rfl hne
  | cons b rest ih =>
    by_cases hr : rest = []
    · subst hr
      have : b ≠ [] := h b (by simp)
      have := List.length_pos_iff.mpr this
      simp [totalLen]; omega
    · have := ih hr (lastNonempty_tail h hr)
      simp [totalLen] at this ⊢; omega


theorem segments_flatten (bufs : List Bytes) : (segments bufs).flatten = bufs.flatten := by
  fun_induction segments bufs with
  | case1 => simp
  | case2 b rest r ih =>
    simp only [List.flatten_cons, ih]
    exact fillSeg_concat' (b :: rest) segSize
/-- every segment has at most 8000 bytes (every buffer list) -/
theorem segments_le (bufs : List Bytes) : ∀ s ∈ segments bufs, s.length ≤ segSize := by
  fun_induction segments bufs with
  | case1 => simp
  | case2 b rest r ih =>
    intro s hs
    simp only [List.mem_cons] at hs
    rcases hs with rfl | hs
    · exact fillSeg_length_le' _ _
    · exact ih s hs

theorem segments_nonempty (bufs : List Bytes) (h : LastNonempty bufs) : ∀ s ∈ segments bufs, s ≠ [] := by
  fun_induction segments bufs with
  | case1 => simp
  | case2 b rest r ih =>
    intro s hs
    simp only [List.mem_cons] at hs
    rcases hs with rfl | hs
    · exact fillSeg_nonempty _ _ (by simp) h (by simp [segSize])
    · exact ih (fillSeg_rest_lastNonempty _ _ h) s hs

theorem segments_eq_nil (bufs : List Bytes) : segments bufs = [] ↔ bufs = [] := by
  constructor
  · intro h
    cases bufs with
    | nil => rfl
    | cons b rest => rw [segments] at h; simp at h
  · intro h; subst h; rw [segments]

theorem segments_count (bufs : List Bytes) (h : LastNonempty bufs) (hne : bufs ≠ []) :
    (segments bufs).length = (totalLen bufs - 1) / segSize + 1
    ∧ ∀ s ∈ (segments bufs).dropLast, s.length = segSize := by
  fun_induction segments bufs with
  | case1 => exact absurd rfl hne
  | case2 b rest r ih =>
    have hr := fillSeg_rest_lastNonempty (b :: rest) segSize h
    have htot := fillSeg_totalLen (b :: rest) segSize
    have hle := fillSeg_length_le' (b :: rest) segSize
    have hpos : (fillSeg (b :: rest) segSize).1 ≠ [] := fillSeg_nonempty _ _ (by simp) h (by simp [segSize])
    have hpos' : 0 < (fillSeg (b :: rest) segSize).1.length := List.length_pos_iff.mpr hpos
    by_cases hrest : (fillSeg (b :: rest) segSize).2 = []
    · have hs : segments (fillSeg (b :: rest) segSize).2 = [] := (segments_eq_nil _).mpr hrest
      simp only [r] at hs ⊢
      rw [hs]
      rw [hrest] at htot
      have hz : totalLen ([] : List Bytes) = 0 := rfl
      rw [hz] at htot
      constructor
      · simp only [List.length_cons, List.length_nil]
        have : (totalLen (b :: rest) - 1) / segSize = 0 := by
          apply Nat.div_eq_of_lt; omega
        omega
      · simp
    · have hfull := fillSeg_full _ _ hrest
      have ih' := ih hr hrest
      have hrpos : 0 < totalLen (fillSeg (b :: rest) segSize).2 := lastNonempty_totalLen_pos _ hrest hr
      simp only [r] at ih' ⊢
      constructor
      · simp only [List.length_cons, ih'.1]
        have e : totalLen (b :: rest) - 1 = segSize + (totalLen (fillSeg (b :: rest) segSize).2 - 1) := by omega
        rw [e, Nat.add_div_left _ (by simp [segSize])]
      · intro s hs
        have hne2 : segments (fillSeg (b :: rest) segSize).2 ≠ [] := fun e => hrest ((segments_eq_nil _).mp e)
        rw [List.dropLast_cons_of_ne_nil hne2] at hs
        simp only [List.mem_cons] at hs
        rcases hs with rfl | hs
        · exact hfull
        · exact ih'.2 s hs



theorem mem_takeWhile_pred {α : Type} (p : α → Bool) (l : List α) (x : α) (h : x ∈ l.takeWhile p) : p x = true := by
  induction l with
  | nil => simp at h
  | cons a t ih =>
    simp only [List.takeWhile_cons] at h
    split at h
    · simp only [List.mem_cons] at h
      rcases h with rfl | h
      · assumption
      · exact ih h
    · simp at h

theorem boltNewest_spec (es : List BEntry) (best : Option BEntry) :
    match boltNewest es best with
    | none => es = [] ∧ best = none
    | some r => (r ∈ es ∨ best = some r) ∧ (∀ e ∈ es, e.ver ≤ r.ver) ∧ (∀ b, best = some b → b.ver ≤ r.ver) := by
  induction es generalizing best with
  | nil =>
    cases best with
    | none => simp [boltNewest]
    | some b => simp [boltNewest]
  | cons e es ih =>
    unfold boltNewest
    cases best with
    | none =>
      have := ih (some e)
      split at this
      · simp at this
      · rename_i r h
        simp only [h]
        obtain ⟨h1, h2, h3⟩ := this
        refine ⟨?_, ?_, ?_⟩
        · rcases h1 with h1 | h1
          · exact Or.inl (List.mem_cons_of_mem _ h1)
          · simp at h1; subst h1; exact Or.inl (List.mem_cons_self ..)
        · intro x hx
          simp only [List.mem_cons] at hx
          rcases hx with rfl | hx
          · exact h3 _ rfl
          · exact h2 x hx
        · intro b hb; cases hb
    | some b =>
      by_cases hv : e.ver > b.ver
      · have := ih (some e)
        simp only [hv, if_true] at this ⊢
        split at this
        · simp at this
        · rename_i r h
          obtain ⟨h1, h2, h3⟩ := this
          have her : e.ver ≤ r.ver := h3 _ rfl
          refine ⟨?_, ?_, ?_⟩
          · rcases h1 with h1 | h1
            · exact Or.inl (List.mem_cons_of_mem _ h1)
            · simp at h1; subst h1; exact Or.inl (List.mem_cons_self ..)
          · intro x hx
            simp only [List.mem_cons] at hx
            rcases hx with rfl | hx
            · exact her
            · exact h2 x hx
          · intro b' hb'; simp at hb'; subst hb'; omega
      · have := ih (some b)
        simp only [hv, if_false] at this ⊢
        split at this
        · simp at this
        · rename_i r h
          obtain ⟨h1, h2, h3⟩ := this
          have hbr : b.ver ≤ r.ver := h3 _ rfl
          refine ⟨?_, ?_, ?_⟩
          · rcases h1 with h1 | h1
            · exact Or.inl (List.mem_cons_of_mem _ h1)
            · exact Or.inr h1
          · intro x hx
            simp only [List.mem_cons] at hx
            rcases hx with rfl | hx
            · omega
            · exact h2 x hx
          · intro b' hb'; simp at hb'; subst hb'; exact hbr



/-- `r` is a best choice among the (version, packet) entries `es`: if it carries a packet that packet
    is one of the entries, and every entry is dominated by it -/
def Best (r : MNode) (es : List (Nat × Pkt)) : Prop :=
  (∀ p, r.wire = some p → (r.ver, p) ∈ es) ∧ (∀ e ∈ es, r.wire.isSome = true ∧ e.1 ≤ r.ver)

theorem best_no_wire {r : MNode} {es : List (Nat × Pkt)} (h : Best r es) (hw : r.wire = none) : es = [] := by
  apply List.eq_nil_iff_forall_not_mem.mpr
  intro e he
  have := (h.2 e he).1
  simp [hw] at this

mutual
theorem findNewest_best : (n : MNode) → Best n.findNewest n.entries
  | .mk w v kids => by
    cases w with
    | none =>
      have h0 : Best (.mk none v kids) [] := by simp [Best, MNode.wire]
      have := newest_best kids (.mk none v kids) _ h0
      simpa [MNode.findNewest, MNode.entries] using this
    | some p =>
      have h0 : Best (.mk (some p) v kids) [(v, p)] := by simp [Best, MNode.wire, MNode.ver]
      have := newest_best kids (.mk (some p) v kids) _ h0
      simpa [MNode.findNewest, MNode.entries] using this
theorem newest_best : (kids : MKids) → (known : MNode) → (es0 : List (Nat × Pkt)) → Best known es0 →
    Best (MKids.newest kids known) (es0 ++ kids.entries)
  | .nil, known, es0, h => by simpa [MKids.newest, MKids.entries] using h
  | .cons c ch rest, known, es0, h => by
    have hcl := findNewest_best ch
    simp only [MKids.newest, MKids.entries, ← List.append_assoc]
    apply newest_best rest
    cases hcw : ch.findNewest.wire with
    | none =>
      have := best_no_wire hcl hcw
      simp [hcw, this, h]
    | some pc =>
      cases hkw : known.wire with
      | none =>
        have := best_no_wire h hkw
        simp [hcw, hkw, this, hcl]
      | some pk =>
        by_cases hv : ch.findNewest.ver > known.ver
        · have hsel : (if (some pc).isSome && ((some pk).isNone || decide (ch.findNewest.ver > known.ver)) then ch.findNewest else known) = ch.findNewest := by
            simp [hv]
          rw [hsel]
          refine ⟨?_, ?_⟩
          · intro p hp
            exact List.mem_append_right _ (hcl.1 p hp)
          · intro e he
            rcases List.mem_append.mp he with he | he
            · have := (h.2 e he).2
              exact ⟨by simp [hcw], by omega⟩
            · exact hcl.2 e he
        · have hsel : (if (some pc).isSome && ((some pk).isNone || decide (ch.findNewest.ver > known.ver)) then ch.findNewest else known) = known := by
            simp [hv]
          rw [hsel]
          refine ⟨?_, ?_⟩
          · intro p hp
            exact List.mem_append_left _ (h.1 p hp)
          · intro e he
            rcases List.mem_append.mp he with he | he
            · exact h.2 e he
            · have := (hcl.2 e he).2
              exact ⟨by simp [hkw], by omega⟩
end



theorem lookup_erase_self : (kids : MKids) → (c : Component) → (kids.erase c).lookup c = none
  | .nil, c => by simp [MKids.erase, MKids.lookup]
  | .cons k n rest, c => by
    have ih := lookup_erase_self rest c
    simp only [MKids.erase]
    split
    · exact ih
    · rename_i h; simp [MKids.lookup, h, ih]

theorem lookup_set_self : (kids : MKids) → (c : Component) → (x v : MNode) → kids.lookup c = some x →
    (kids.set c v).lookup c = some v
  | .nil, c, x, v, h => by simp [MKids.lookup] at h
  | .cons k n rest, c, x, v, h => by
    simp only [MKids.lookup] at h
    simp only [MKids.set]
    split
    · rename_i hk; simp [MKids.lookup, hk]
    · rename_i hk
      simp only [hk, if_false] at h
      simp [MKids.lookup, hk, lookup_set_self rest c x v h]

theorem lookup_isEmpty (kids : MKids) (c : Component) (h : kids.isEmpty = true) : kids.lookup c = none := by
  cases kids with
  | nil => rfl
  | cons => simp [MKids.isEmpty] at h

/-- nothing is stored at or below this (possibly absent) node -/
def Gone (o : Option MNode) : Prop := ∀ n, o = some n → n.wire = none ∧ n.kids = .nil

theorem find_remove_prefix (root : MNode) (name rest : Name) :
    Gone ((root.remove name true).1.find (name ++ rest)) := by
  induction name generalizing root with
  | nil =>
    cases root with
    | mk w v kids =>
      simp only [MNode.remove, if_true, List.nil_append]
      cases rest with
      | nil => intro n hn; simp [MNode.find] at hn; subst hn; simp [MNode.wire, MNode.kids]
      | cons c cs => intro n hn; simp [MNode.find, MNode.kids, MKids.lookup] at hn
  | cons c cs ih =>
    cases root with
    | mk w v kids =>
      simp only [MNode.remove, List.cons_append]
      split
      · rename_i he
        intro n hn
        simp [MNode.find, MNode.kids, lookup_isEmpty kids c he] at hn
      · cases hl : kids.lookup c with
        | none =>
          intro n hn
          simp [MNode.find, MNode.kids, hl] at hn
        | some ch =>
          simp only
          by_cases hp : (ch.remove cs true).2 = true
          · intro n hn
            simp [hp, MNode.find, MNode.kids, lookup_erase_self] at hn
          · intro n hn
            simp only [hp, MNode.find, MNode.kids, Bool.false_eq_true, if_false] at hn
            rw [lookup_set_self kids c ch _ hl] at hn
            exact ih ch n (by simpa using hn)

theorem memGet_of_gone (root : MNode) (q : Name) (pfx : Bool) (h : Gone (root.find q)) : memGet root q pfx = none := by
  unfold memGet
  cases hf : root.find q with
  | none => rfl
  | some node =>
    obtain ⟨hw, hk⟩ := h node hf
    cases node with
    | mk w v kids =>
      simp only [MNode.wire, MNode.kids] at hw hk
      subst hw; subst hk
      cases pfx <;> simp [MNode.wire, MNode.findNewest, MKids.newest]

theorem find_remove_exact (root : MNode) (name : Name) :
    ∀ n, (root.remove name false).1.find name = some n → n.wire = none := by
  induction name generalizing root with
  | nil =>
    cases root with
    | mk w v kids => intro n hn; simp [MNode.remove, MNode.find] at hn; subst hn; rfl
  | cons c cs ih =>
    cases root with
    | mk w v kids =>
      simp only [MNode.remove]
      split
      · rename_i he
        intro n hn
        simp [MNode.find, MNode.kids, lookup_isEmpty kids c he] at hn
      · cases hl : kids.lookup c with
        | none =>
          intro n hn
          simp [MNode.find, MNode.kids, hl] at hn
        | some ch =>
          simp only
          by_cases hp : (ch.remove cs false).2 = true
          · intro n hn
            simp [hp, MNode.find, MNode.kids, lookup_erase_self] at hn
          · intro n hn
            simp only [hp, MNode.find, MNode.kids, Bool.false_eq_true, if_false] at hn
            rw [lookup_set_self kids c ch _ hl] at hn
            exact ih ch n (by simpa using hn)


end Ndn.C15
