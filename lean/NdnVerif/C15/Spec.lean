/-
  C15 specification — what the property demands, stated without the code's data structures:
    * an object's content is cut into consecutive 8000-byte chunks (`chunks`); packet names are
      <obj>/v=V/seg=k, the metadata packet <obj>/32=metadata/v=V/seg=0 names <obj>/v=V and the last segment;
    * a store is a finite set of (name, version, packet); a prefix query answers with a stored packet
      under the prefix whose version is maximal; removed packets are not answered;
    * a consumer's callback reports completion exactly once; the chunks it saw concatenate to the
      content of the newest published version (or to a prefix of it when it ends with an error).
  The executable predicates below are evaluated by the driver on the IMPLEMENTATION's outputs.
  Core Lean only.
-/
import NdnVerif.C15.Model
namespace Ndn.C15

/-! ### protocol helpers shared with the Go harness (content generator, checksum) -/

/-- content byte `i` of the object produced with `seed` (harness: `contentByte`) -/
def contentByte (seed i : Nat) : Nat := (seed * 31 + i * 7 + i / 251) % 256

def genContent (seed size : Nat) : Bytes := (List.range size).map (contentByte seed)

def hashP : Nat := 4294967291

def hashBytes (b : Bytes) : Nat := b.foldl (fun h x => (h * 257 + x + 1) % hashP) 0

/-! ### segmentation spec -/

/-- consecutive chunks of `n+1` bytes (the last one may be shorter, none is empty) -/
def chunksOf (n : Nat) : Nat → Bytes → List Bytes
  | 0, _ => []
  | fuel + 1, b => if b.isEmpty then [] else b.take (n + 1) :: chunksOf n fuel (b.drop (n + 1))

/-- the segments the property prescribes for `content` -/
def chunks (content : Bytes) : List Bytes := chunksOf (segSize - 1) content.length content

def segName (obj : Name) (ver k : Nat) : Name := obj ++ [verComp ver, segComp k]
def metaName (obj : Name) (ver : Nat) : Name := obj ++ [metaKw, verComp ver, segComp 0]

/-! ### store spec: the set of packets that should be stored, from the operations alone -/

structure SPkt where
  name : Name
  ver : Nat
  clen : Nat
  chash : Nat
  /-- a packet the store MAY hold: Produce's extra empty segment beyond FinalBlockId when the input
      ends with an empty buffer after an exact multiple of 8000 bytes (never fetched, no content) -/
  opt : Bool := false
deriving Repr, DecidableEq

/-- packets `Produce(obj, ver, content)` must store -/
def specPackets (obj : Name) (ver : Nat) (content : Bytes) : List SPkt :=
  let cs := chunks content
  let last := cs.length - 1
  let segs := (List.range cs.length).zip cs |>.map fun (k, c) =>
    (⟨segName obj ver k, ver, c.length, hashBytes c, false⟩ : SPkt)
  let m := encMeta (obj ++ [verComp ver]) (encComp (segComp last))
  segs ++ [⟨metaName obj ver, ver, m.length, hashBytes m, false⟩]

def specPut (present : List SPkt) (p : SPkt) : List SPkt :=
  p :: present.filter (·.name ≠ p.name)

def specRemove (present : List SPkt) (n : Name) (pfx : Bool) : List SPkt :=
  present.filter fun p => !(if pfx then n.isPrefixOf p.name else p.name == n)

def candidates (present : List SPkt) (n : Name) (pfx : Bool) : List SPkt :=
  present.filter fun p => if pfx then n.isPrefixOf p.name else p.name == n

inductive GetVerdict where
  | ok
  | missing          -- something is stored under the query but nothing was returned
  | notStored        -- the returned name is not stored (removed, or never stored)
  | stale            -- the returned name is stored but with other content
  | notNewest        -- a stored packet under the prefix has a larger version
deriving DecidableEq, Repr

/-- verdict on one `Get(n, pfx)` answer (`none` or the returned packet's name, content length, hash) -/
def getVerdict (present : List SPkt) (n : Name) (pfx : Bool) (ans : Option (Name × Nat × Nat)) : GetVerdict :=
  let cands := candidates present n pfx
  match ans with
  | none => if cands.all (·.opt) then .ok else .missing
  | some (rn, len, h) =>
    match cands.find? (·.name == rn) with
    | none => .notStored
    | some c =>
      if c.clen ≠ len || c.chash ≠ h then .stale
      else if rn == n then .ok                      -- exact match is an acceptable answer
      else if cands.all (·.ver ≤ c.ver) then .ok else .notNewest

/-! ### consumer spec -/

structure Pub where
  obj : Name
  ver : Nat
  content : Bytes
  segs : List (Nat × Nat)      -- (length, hash) of every chunk
  mlen : Nat
  mhash : Nat

def mkPub (obj : Name) (ver : Nat) (content : Bytes) : Pub :=
  let m := encMeta (obj ++ [verComp ver]) (encComp (segComp ((chunks content).length - 1)))
  { obj := obj, ver := ver, content := content, segs := (chunks content).map fun c => (c.length, hashBytes c),
    mlen := m.length, mhash := hashBytes m }

def stored (present : List SPkt) (n : Name) (len h : Nat) : Bool :=
  present.any fun p => p.name == n && p.clen == len && p.chash == h

def Pub.metaPresent (present : List SPkt) (p : Pub) : Bool := stored present (metaName p.obj p.ver) p.mlen p.mhash

/-- index of the first segment that is no longer stored (= number of leading intact segments) -/
def Pub.intactPrefix (present : List SPkt) (p : Pub) : Nat :=
  ((List.range p.segs.length).zip p.segs).takeWhile (fun (k, lh) => stored present (segName p.obj p.ver k) lh.1 lh.2) |>.length

/-- the publication a `Consume(name)` must deliver: for a versioned name that version, otherwise the
    newest version whose metadata packet is (still) stored -/
def target (pubs : List Pub) (present : List SPkt) (name : Name) : Option Pub :=
  match name.getLast? with
  | none => none
  | some l =>
    if l.typ = typVersion then
      pubs.find? fun p => p.obj ++ [verComp p.ver] == name
    else
      (pubs.filter fun p => p.obj == name && p.metaPresent present).foldl
        (fun best p => match best with
          | none => some p
          | some b => if p.ver > b.ver then some p else some b) none

structure CbObs where
  len : Nat
  hash : Nat
  complete : Bool
  err : Bool
deriving Repr

/-- do the observed chunks concatenate to a prefix of `content`? returns the delivered length -/
def chunksMatch (content : Bytes) : List CbObs → Nat → Option Nat
  | [], off => some off
  | c :: cs, off =>
    if c.len = 0 then chunksMatch content cs off
    else
      let sl := (content.drop off).take c.len
      if sl.length = c.len && hashBytes sl = c.hash then chunksMatch content cs (off + c.len) else none

inductive Act where
  | deliver (ms : Nat)
  | dropInterest
  | dropData
deriving Repr, DecidableEq

/-- a delivery counts when the Data is back before the shortest Interest lifetime used (1 s) -/
def Act.isDeliver : Act → Bool | .deliver ms => ms < 1000 | _ => false

/-- one of the `1 + retryBudget` expressions of the Interest `key` gets through (attempts not in the
    script are delivered) -/
def withinBudget (script : List (String × List Act)) (key : String) : Bool :=
  match script.find? (·.1 == key) with
  | none => true
  | some (_, acts) => acts.length < retryBudget + 1 || (acts.take (retryBudget + 1)).any Act.isDeliver

end Ndn.C15
