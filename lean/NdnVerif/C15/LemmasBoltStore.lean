/-
  C15 — the bolt model holds exactly the packets Put and not Removed; TLV key encoding is injective and
  byte-prefix of keys = component-prefix of names.
-/
import NdnVerif.C15.LemmasHistory
import NdnVerif.C15.LemmasBolt
namespace Ndn.C15

/-! ### key encoding -/

/-- Go value ranges: component type and value length are uint64 -/
def CompWF (c : Component) : Prop := c.typ < 2 ^ 64 ∧ c.val.length < 2 ^ 64
def NameWF (n : Name) : Prop := ∀ c ∈ n, CompWF c

theorem nameWF_cons {c : Component} {cs : Name} : NameWF (c :: cs) ↔ CompWF c ∧ NameWF cs := by
  simp [NameWF]

theorem nameWF_append {a b : Name} : NameWF (a ++ b) ↔ NameWF a ∧ NameWF b := by
  simp only [NameWF, List.mem_append]
  constructor
  · intro h; exact ⟨fun c hc => h c (Or.inl hc), fun c hc => h c (Or.inr hc)⟩
  · rintro ⟨h1, h2⟩ c (hc | hc); exact h1 c hc; exact h2 c hc

theorem encKey_cons (c : Component) (cs : Name) : encKey (c :: cs) = encComp c ++ encKey cs := by
  simp [encKey]

theorem encKey_append (a b : Name) : encKey (a ++ b) = encKey a ++ encKey b := by
  simp [encKey]

theorem encTL_ne_nil (x : Nat) : encTL x ≠ [] := by
  unfold encTL; repeat' split
  all_goals simp

theorem encComp_ne_nil (c : Component) : encComp c ≠ [] := by
  simp [encComp, encTL_ne_nil]

/-- a component's TLV is self-delimiting: two encodings followed by anything agree only if the
    components and the remainders agree -/
theorem encComp_append_inj (a b : Component) (ha : CompWF a) (hb : CompWF b) (r1 r2 : Bytes)
    (h : encComp a ++ r1 = encComp b ++ r2) : a = b ∧ r1 = r2 := by
  simp only [encComp, List.append_assoc] at h
  have h1 := congrArg decTL h
  rw [decTL_encTL _ ha.1, decTL_encTL _ hb.1] at h1
  simp only [Option.some.injEq, Prod.mk.injEq] at h1
  obtain ⟨ht, h2⟩ := h1
  have h3 := congrArg decTL h2
  rw [decTL_encTL _ ha.2, decTL_encTL _ hb.2] at h3
  simp only [Option.some.injEq, Prod.mk.injEq] at h3
  obtain ⟨hl, h4⟩ := h3
  have := List.append_inj h4 hl
  cases a; cases b
  simp only at ht this
  exact ⟨by rw [ht, this.1], this.2⟩

theorem pfxOf_cons (a b : Component) (as bs : Name) : pfxOf (a :: as) (b :: bs) = (decide (a = b) && pfxOf as bs) := rfl

/-- byte-prefix of encoded keys = component-prefix of names -/
theorem encKey_prefix_iff (q nm : Name) (hq : NameWF q) (hn : NameWF nm) :
    (encKey q).isPrefixOf (encKey nm) = true ↔ pfxOf q nm = true := by
  rw [List.isPrefixOf_iff_prefix]
  constructor
  · intro h
    induction q generalizing nm with
    | nil => simp [pfxOf]
    | cons a as ih =>
      obtain ⟨t, ht⟩ := h
      cases nm with
      | nil =>
        have hnil : encKey ([] : Name) = [] := rfl
        rw [encKey_cons, hnil] at ht
        have : encComp a = [] := by
          have h1 := List.append_eq_nil_iff.mp ht
          exact (List.append_eq_nil_iff.mp h1.1).1
        exact absurd this (encComp_ne_nil a)
      | cons b bs =>
        rw [encKey_cons, encKey_cons, List.append_assoc] at ht
        have hq' := nameWF_cons.mp hq
        have hn' := nameWF_cons.mp hn
        obtain ⟨hab, hrest⟩ := encComp_append_inj a b hq'.1 hn'.1 _ _ ht
        subst hab
        simp only [pfxOf_cons, decide_true, Bool.true_and]
        exact ih bs hq'.2 hn'.2 ⟨t, hrest⟩
  · intro h
    obtain ⟨rest, rfl⟩ := (pfxOf_iff q nm).mp h
    exact ⟨encKey rest, (encKey_append q rest).symm⟩

theorem encKey_inj (a b : Name) (ha : NameWF a) (hb : NameWF b) (h : encKey a = encKey b) : a = b := by
  have h1 : pfxOf a b = true := (encKey_prefix_iff a b ha hb).mp (by rw [h, List.isPrefixOf_iff_prefix]; exact List.prefix_refl _)
  obtain ⟨rest, hr⟩ := (pfxOf_iff a b).mp h1
  subst hr
  rw [encKey_append] at h
  have : encKey rest = [] := List.self_eq_append_right.mp h
  cases rest with
  | nil => simp
  | cons c cs =>
    rw [encKey_cons] at this
    have : encComp c = [] := List.append_eq_nil_iff.mp this |>.1
    exact absurd this (encComp_ne_nil c)

/-! ### sorted key lists -/

theorem bytesLt_irrefl (a : Bytes) : bytesLt a a = false :=
  prefix_not_lt a a (by rw [List.isPrefixOf_iff_prefix]; exact List.prefix_refl _)

/-- strictly sorted keys are distinct: an entry is determined by its key -/
theorem sorted_key_inj (s : Bolt) (hs : BSorted s) (x y : BEntry) (hx : x ∈ s) (hy : y ∈ s) (hk : x.key = y.key) : x = y := by
  induction s with
  | nil => simp at hx
  | cons a t ih =>
    have hs' := List.pairwise_cons.mp hs
    simp only [List.mem_cons] at hx hy
    rcases hx with rfl | hx <;> rcases hy with rfl | hy
    · rfl
    · have := hs'.1 y hy
      rw [hk, bytesLt_irrefl] at this; cases this
    · have := hs'.1 x hx
      rw [← hk, bytesLt_irrefl] at this; cases this
    · exact ih hs'.2 hx hy

theorem boltPutKey_self_mem (s : Bolt) (e : BEntry) : e ∈ boltPutKey s e := by
  induction s with
  | nil => simp [boltPutKey]
  | cons y ys ih =>
    simp only [boltPutKey]
    split
    · simp
    · split
      · simp
      · simp [ih]

theorem boltPutKey_keep (s : Bolt) (e x : BEntry) (hx : x ∈ s) (hk : x.key ≠ e.key) : x ∈ boltPutKey s e := by
  induction s with
  | nil => simp at hx
  | cons y ys ih =>
    simp only [boltPutKey]
    simp only [List.mem_cons] at hx
    split
    · rcases hx with rfl | hx
      · simp
      · simp [hx]
    · split
      · rename_i heq
        rcases hx with rfl | hx
        · exact absurd heq hk
        · simp [hx]
      · rcases hx with rfl | hx
        · simp
        · simp [ih hx]

theorem boltPutKey_same_key (s : Bolt) (hs : BSorted s) (e x : BEntry) (hx : x ∈ boltPutKey s e) (hk : x.key = e.key) : x = e :=
  sorted_key_inj _ (boltPutKey_sorted s e hs) x e hx (boltPutKey_self_mem s e) hk

/-! ### the bolt list after a history -/

def SOp.WF : SOp → Prop
  | .put p => NameWF p.name
  | .remove name _ => NameWF name
  | .tx puts => ∀ p ∈ puts, NameWF p.name

/-- the sorted list `s` represents the content `m` -/
structure BoltRel (s : Bolt) (m : Content) : Prop where
  sorted : BSorted s
  support : ∀ nm, m nm ≠ none → NameWF nm
  sound : ∀ e ∈ s, ∃ nm, e.key = encKey nm ∧ m nm = some (e.ver, e.pkt)
  complete : ∀ nm v p, m nm = some (v, p) → ∃ e ∈ s, e.key = encKey nm ∧ e.ver = v ∧ e.pkt = p

theorem boltRel_empty : BoltRel [] (fun _ => none) :=
  ⟨List.Pairwise.nil, by simp, by simp, by simp⟩

theorem boltRel_put (s : Bolt) (m : Content) (p : Put) (hp : NameWF p.name) (h : BoltRel s m) :
    BoltRel (boltPut s p) (m.put p) := by
  refine ⟨boltPutKey_sorted s _ h.sorted, ?_, ?_, ?_⟩
  · intro nm hne
    simp only [Content.put] at hne
    split at hne
    · rename_i e; rw [e]; exact hp
    · exact h.support nm hne
  · intro x hx
    by_cases hk : x.key = encKey p.name
    · have := boltPutKey_same_key s h.sorted _ x hx hk
      subst this
      exact ⟨p.name, rfl, by simp [Content.put]⟩
    · rcases boltPutKey_mem s _ x hx with rfl | hxs
      · exact absurd rfl hk
      · obtain ⟨nm, h1, h2⟩ := h.sound x hxs
        refine ⟨nm, h1, ?_⟩
        have : nm ≠ p.name := by intro e; apply hk; rw [h1, e]
        simp [Content.put, this, h2]
  · intro nm v q hm
    simp only [Content.put] at hm
    split at hm
    · rename_i e
      simp only [Option.some.injEq, Prod.mk.injEq] at hm
      exact ⟨_, boltPutKey_self_mem s _, by rw [e], hm.1, hm.2⟩
    · rename_i hne
      obtain ⟨e, he, h1, h2, h3⟩ := h.complete nm v q hm
      refine ⟨e, boltPutKey_keep s _ e he ?_, h1, h2, h3⟩
      intro hk
      apply hne
      exact encKey_inj nm p.name (h.support nm (by simp [hm])) hp (by rw [← h1, hk])

theorem boltRel_remove (s : Bolt) (m : Content) (name : Name) (pfx : Bool) (hn : NameWF name) (h : BoltRel s m) :
    BoltRel (boltRemove s name pfx) (m.remove name pfx) := by
  refine ⟨boltRemove_sorted s name pfx h.sorted, ?_, ?_, ?_⟩
  · intro nm hne
    apply h.support nm
    intro hm
    apply hne
    simp [Content.remove, hm]
  · intro x hx
    cases pfx with
    | true =>
      simp only [boltRemove, if_true, List.mem_filter, Bool.not_eq_true'] at hx
      obtain ⟨nm, h1, h2⟩ := h.sound x hx.1
      refine ⟨nm, h1, ?_⟩
      have hw := h.support nm (by simp [h2])
      have : pfxOf name nm = false := by
        cases hp : pfxOf name nm with
        | false => rfl
        | true =>
          have := (encKey_prefix_iff name nm hn hw).mpr hp
          rw [← h1, hx.2] at this; cases this
      simp [Content.remove, this, h2]
    | false =>
      simp only [boltRemove, Bool.false_eq_true, if_false, List.mem_filter, decide_eq_true_eq] at hx
      obtain ⟨nm, h1, h2⟩ := h.sound x hx.1
      refine ⟨nm, h1, ?_⟩
      have : nm ≠ name := by intro e; apply hx.2; rw [h1, e]
      simp [Content.remove, this, h2]
  · intro nm v q hm
    cases pfx with
    | true =>
      simp only [Content.remove, if_true] at hm
      cases hc : pfxOf name nm with
      | true => simp [hc] at hm
      | false =>
        simp only [hc, Bool.false_eq_true, if_false] at hm
        obtain ⟨e, he, h1, h2, h3⟩ := h.complete nm v q hm
        have hw := h.support nm (by simp [hm])
        refine ⟨e, ?_, h1, h2, h3⟩
        simp only [boltRemove, if_true, List.mem_filter, Bool.not_eq_true']
        refine ⟨he, ?_⟩
        cases hp : (encKey name).isPrefixOf e.key with
        | false => rfl
        | true =>
          rw [h1] at hp
          have := (encKey_prefix_iff name nm hn hw).mp hp
          rw [hc] at this; cases this
    | false =>
      simp only [Content.remove, Bool.false_eq_true, if_false, decide_eq_true_eq] at hm
      by_cases hc : nm = name
      · simp [hc] at hm
      · simp only [hc, if_false] at hm
        obtain ⟨e, he, h1, h2, h3⟩ := h.complete nm v q hm
        have hw := h.support nm (by simp [hm])
        refine ⟨e, ?_, h1, h2, h3⟩
        simp only [boltRemove, Bool.false_eq_true, if_false, List.mem_filter, decide_eq_true_eq]
        refine ⟨he, ?_⟩
        intro hk
        exact hc (encKey_inj nm name hw hn (by rw [← h1, hk]))

theorem boltRel_puts (puts : List Put) (s : Bolt) (m : Content) (hp : ∀ p ∈ puts, NameWF p.name) (h : BoltRel s m) :
    BoltRel (puts.foldl boltPut s) (puts.foldl Content.put m) := by
  induction puts generalizing s m with
  | nil => exact h
  | cons p ps ih =>
    exact ih _ _ (fun q hq => hp q (List.mem_cons_of_mem _ hq)) (boltRel_put s m p (hp p (List.mem_cons_self ..)) h)

theorem boltRel_step (s : Bolt) (m : Content) (op : SOp) (hw : op.WF) (h : BoltRel s m) :
    BoltRel (boltStep s op) (m.apply op) := by
  cases op with
  | put p => exact boltRel_put s m p hw h
  | remove name pfx => exact boltRel_remove s m name pfx hw h
  | tx puts => exact boltRel_puts puts s m hw h

theorem boltRel_run (ops : List SOp) (hw : ∀ op ∈ ops, op.WF) : BoltRel (boltRun ops) (contents ops) := by
  have : ∀ (s : Bolt) (m : Content), BoltRel s m → BoltRel (ops.foldl boltStep s) (ops.foldl Content.apply m) := by
    induction ops with
    | nil => intro s m h; exact h
    | cons op rest ih =>
      intro s m h
      exact ih (fun o ho => hw o (List.mem_cons_of_mem _ ho)) _ _ (boltRel_step s m op (hw op (List.mem_cons_self ..)) h)
  exact this _ _ boltRel_empty

/-- exact `Get` of the bolt model reads the abstract content -/
theorem boltGet_exact_of_rel (s : Bolt) (m : Content) (name : Name) (hn : NameWF name) (h : BoltRel s m) :
    boltGet s name false = (m name).map (·.2) := by
  simp only [boltGet, Bool.false_eq_true, if_false]
  cases hm : m name with
  | none =>
    simp only [Option.map_none, Option.map_eq_none_iff, List.find?_eq_none, decide_eq_true_eq]
    intro e he hk
    obtain ⟨nm, h1, h2⟩ := h.sound e he
    have : nm = name := encKey_inj nm name (h.support nm (by simp [h2])) hn (by rw [← h1, hk])
    rw [this, hm] at h2; cases h2
  | some vp =>
    obtain ⟨v, p⟩ := vp
    obtain ⟨e, he, h1, h2, h3⟩ := h.complete name v p hm
    cases hf : s.find? (fun e => decide (e.key = encKey name)) with
    | none =>
      have := List.find?_eq_none.mp hf e he
      simp [h1] at this
    | some e' =>
      have hk : e'.key = encKey name := by simpa using List.find?_some hf
      have hmem := List.mem_of_find?_eq_some hf
      have := sorted_key_inj s h.sorted e' e hmem he (by rw [hk, h1])
      simp [this, h3]

end Ndn.C15
