/-
  C15 model — std/object: Client.Produce (segmentation, FinalBlockId, metadata packet), the
  consumer (Consume → fetchMetadata → rrSegFetcher.doCheck / handleData, ConsumeState.Content,
  ExpressR retry counter), MemoryStore (trie) and BoltStore (sorted key/value list).

  The model describes the code as it is after the C15 `fix:` commits (see design/C15.md):
    * Produce builds the versioned name / segment names / metadata name without sharing the
      caller's backing array (F-15a);
    * prefix lookups of both stores return a stored packet of maximal version, version 0 included
      (F-15b, bolt `maxVer`).
  Core Lean only (linked into the driver executable).
-/
import NdnVerif.Base.Name
namespace Ndn.C15

/-! ### constants (std/object) -/

/-- `pSegmentSize` (client_produce.go) -/
def segSize : Nat := 8000
/-- `rrSegFetcher.window` (client_consume_seg.go `newRrSegFetcher`) -/
def window : Nat := 10
/-- `ExpressRArgs.Retries` used by fetchMetadata and doCheck -/
def retryBudget : Nat := 3
/-- `maxObjectSeg` -/
def maxObjectSeg : Nat := 100000000
/-- bolt prefix scan: `iter := 1000 … if iter--; iter <= 0 break` examines at most 999 keys -/
def boltScanLimit : Nat := 999

def typKeyword : Nat := 32
def typSegment : Nat := 50
def typVersion : Nat := 54

/-! ### names and packets -/

def segComp (n : Nat) : Component := ⟨typSegment, encNat n⟩
def verComp (n : Nat) : Component := ⟨typVersion, encNat n⟩
/-- keyword component `32=metadata` -/
def metaKw : Component := ⟨typKeyword, [0x6d, 0x65, 0x74, 0x61, 0x64, 0x61, 0x74, 0x61]⟩

/-- `Component.NumberVal` -/
def numberVal (c : Component) : Nat := beDec c.val

/-- `Component.EncodeInto` / `Bytes` (type and length as TLV variable-length numbers) -/
def encComp (c : Component) : Bytes := encTL c.typ ++ encTL c.val.length ++ c.val

/-- bolt key: `BoltStore.encodeName` = concatenated component encodings (no outer Name TL) -/
def encKey (n : Name) : Bytes := n.flatMap encComp

/-- `rdr.MetaData{Name, FinalBlockID}.Encode()` : 07 L name 1a L fbid -/
def encMeta (name : Name) (fbid : Bytes) : Bytes :=
  let nb := encKey name
  [0x07] ++ encTL nb.length ++ nb ++ [0x1a] ++ encTL fbid.length ++ fbid

/-- what the model keeps of a Data wire: name, FinalBlockId, content bytes, and — for packets built
    from `rdr.MetaData` — the decoded metadata (the model does not parse TLV content) -/
structure Pkt where
  name : Name
  fb : Option Component
  content : Bytes
  md : Option (Name × Bytes) := none
deriving DecidableEq, Repr

/-! ### Produce: segmentation (client_produce.go lines 64-87) -/

/-- inner loop `for len(content) > 0 && segContentSize < pSegmentSize`: fill one segment with at most
    `room` more bytes; returns the segment bytes and the remaining buffer list -/
def fillSeg : List Bytes → Nat → Bytes × List Bytes
  | [], _ => ([], [])
  | b :: rest, room =>
    if room = 0 then ([], b :: rest)                 -- segContentSize == pSegmentSize
    else if b.length ≤ room then                     -- sizeLeft = len(content[0]); buffer consumed, popped
      let r := fillSeg rest (room - b.length)
      (b ++ r.1, r.2)
    else (b.take room, b.drop room :: rest)          -- sizeLeft = room; segment is full afterwards

def totalLen (bufs : List Bytes) : Nat := (bufs.map List.length).sum

theorem fillSeg_measure (bufs : List Bytes) (room : Nat) (h : bufs ≠ []) (hr : 0 < room) :
    totalLen (fillSeg bufs room).2 + (fillSeg bufs room).2.length < totalLen bufs + bufs.length := by
  induction bufs generalizing room with
  | nil => exact absurd rfl h
  | cons b rest ih =>
    unfold fillSeg
    have hr0 : room ≠ 0 := by omega
    simp only [hr0, if_false]
    split
    · rename_i hle
      cases rest with
      | nil => simp [fillSeg, totalLen]
      | cons c cs =>
        by_cases hz : room - b.length = 0
        · simp [fillSeg, hz, totalLen]; omega
        · have := ih (room - b.length) (by simp) (by omega)
          simp [totalLen] at this ⊢; omega
    · rename_i hgt
      simp [totalLen, List.length_drop]; omega

/-- outer loop `for seg = 0; len(content) > 0; seg++` : the list of segment contents -/
def segments (bufs : List Bytes) : List Bytes :=
  match bufs with
  | [] => []
  | b :: rest =>
    let r := fillSeg (b :: rest) segSize
    r.1 :: segments r.2
termination_by totalLen bufs + bufs.length
decreasing_by
  have := fillSeg_measure (b :: rest) segSize (by simp) (by simp [segSize])
  simpa using this

structure Put where
  name : Name
  ver : Nat
  pkt : Pkt
deriving Repr

structure ProduceOut where
  ret : Name
  puts : List Put

/-- `Client.Produce` (fixed code): `none` = "cannot produce empty object" -/
def produce (name : Name) (ver : Nat) (bufs : List Bytes) : Option ProduceOut :=
  let size := totalLen bufs
  if size = 0 then none else
  let lastSeg := (size - 1) / segSize
  let fb := segComp lastSeg
  let basename := name ++ [verComp ver]
  let segs := segments bufs
  let segPuts := (List.range segs.length).zip segs |>.map fun (i, c) =>
    let n := basename ++ [segComp i]
    ({ name := n, ver := ver, pkt := { name := n, fb := some fb, content := c } } : Put)
  let mname := name ++ [metaKw, verComp ver, segComp 0]
  let fbid := encComp fb
  let mput : Put := { name := mname, ver := ver,
                      pkt := { name := mname, fb := some fb, content := encMeta basename fbid, md := some (basename, fbid) } }
  some { ret := basename, puts := segPuts ++ [mput] }

/-! ### MemoryStore (store_memory.go) — a trie; children are an association list (Go map) -/

mutual
inductive MNode where
  | mk (wire : Option Pkt) (ver : Nat) (kids : MKids)
inductive MKids where
  | nil
  | cons (c : Component) (n : MNode) (rest : MKids)
end

def MNode.wire : MNode → Option Pkt | .mk w _ _ => w
def MNode.ver : MNode → Nat | .mk _ v _ => v
def MNode.kids : MNode → MKids | .mk _ _ k => k
def MNode.empty : MNode := .mk none 0 .nil

def MKids.isEmpty : MKids → Bool | .nil => true | .cons .. => false

def MKids.lookup : MKids → Component → Option MNode
  | .nil, _ => none
  | .cons c n rest, k => if c = k then some n else rest.lookup k

/-- replace the child stored under `k` (which exists) -/
def MKids.set : MKids → Component → MNode → MKids
  | .nil, _, _ => .nil
  | .cons c n rest, k, v => if c = k then .cons c v rest else .cons c n (rest.set k v)

/-- add a child under a new key (Go map insertion; iteration order is unspecified) -/
def MKids.push : MKids → Component → MNode → MKids
  | .nil, k, v => .cons k v .nil
  | .cons c n rest, k, v => .cons c n (rest.push k v)

def MKids.erase : MKids → Component → MKids
  | .nil, _ => .nil
  | .cons c n rest, k => if c = k then rest else .cons c n (rest.erase k)

/-- `memoryStoreNode.find` -/
def MNode.find : MNode → Name → Option MNode
  | n, [] => some n
  | n, c :: cs => match n.kids.lookup c with
    | some ch => ch.find cs
    | none => none

mutual
/-- `memoryStoreNode.findNewest` (fixed): a node carrying a wire beats one without; among nodes with a
    wire the strictly larger version wins -/
def MNode.findNewest : MNode → MNode
  | .mk w v kids => MKids.newest kids (.mk w v kids)
def MKids.newest : MKids → MNode → MNode
  | .nil, known => known
  | .cons _ ch rest, known =>
    let cl := ch.findNewest
    MKids.newest rest (if cl.wire.isSome && (known.wire.isNone || cl.ver > known.ver) then cl else known)
end

/-- `memoryStoreNode.insert` -/
def MNode.insert : MNode → Name → Nat → Pkt → MNode
  | .mk _ _ kids, [], ver, p => .mk (some p) ver kids
  | .mk w v kids, c :: cs, ver, p =>
    match kids.lookup c with
    | some ch => .mk w v (kids.set c (ch.insert cs ver p))
    | none => .mk w v (kids.push c (MNode.empty.insert cs ver p))

/-- `memoryStoreNode.remove`; the Bool tells the parent to prune this child.
    Abstraction: Go distinguishes a nil children map from an empty one (`n.children == nil`); the
    model prunes on "no children". The difference (an empty node without wire is kept or not) is not
    observable through Get. -/
def MNode.remove : MNode → Name → Bool → MNode × Bool
  | .mk _ _ kids, [], pfx =>
    let kids' := if pfx then .nil else kids
    (.mk none 0 kids', kids'.isEmpty)
  | .mk w v kids, c :: cs, pfx =>
    if kids.isEmpty then (.mk w v kids, false)
    else match kids.lookup c with
      | some ch =>
        let r := ch.remove cs pfx
        let kids' := if r.2 then kids.erase c else kids.set c r.1
        (.mk w v kids', w.isNone && kids'.isEmpty)
      | none => (.mk w v kids, false)

mutual
/-- `memoryStoreNode.merge` (Commit): the transaction trie is merged into the root -/
def MNode.merge : MNode → MNode → MNode
  | .mk w v kids, .mk tw tv tkids =>
    let wv := if tw.isSome then (tw, tv) else (w, v)
    .mk wv.1 wv.2 (MKids.mergeInto kids tkids)
def MKids.mergeInto : MKids → MKids → MKids
  | kids, .nil => kids
  | kids, .cons c ch rest =>
    match kids.lookup c with
    | some nch => MKids.mergeInto (kids.set c (MNode.merge nch ch)) rest
    | none => MKids.mergeInto (kids.push c ch) rest
end

/-- `MemoryStore.Get` -/
def memGet (root : MNode) (name : Name) (pfx : Bool) : Option Pkt :=
  match root.find name with
  | some node => (if node.wire.isNone && pfx then node.findNewest else node).wire
  | none => none

def memPut (root : MNode) (p : Put) : MNode := root.insert p.name p.ver p.pkt
def memRemove (root : MNode) (name : Name) (pfx : Bool) : MNode := (root.remove name pfx).1

/-- Begin; Put…; Commit -/
def memTx (root : MNode) (puts : List Put) : MNode :=
  root.merge (puts.foldl memPut MNode.empty)

/-! ### memory store: answers allowed by the model for a prefix query (Go map iteration order) -/

mutual
def MNode.entries : MNode → List (Nat × Pkt)
  | .mk w v kids => (match w with | some p => [(v, p)] | none => []) ++ MKids.entries kids
def MKids.entries : MKids → List (Nat × Pkt)
  | .nil => []
  | .cons _ n rest => n.entries ++ MKids.entries rest
end

/-- all packets a prefix `Get` of the memory store may return, over every map iteration order:
    the exact node's packet if it has one, else any packet of maximal version below it -/
def memAllowed (root : MNode) (name : Name) : List Pkt :=
  match root.find name with
  | none => []
  | some node =>
    match node.wire with
    | some p => [p]
    | none =>
      let es := node.entries
      let mx := es.foldl (fun m e => max m e.1) 0
      (es.filter (·.1 == mx)).map (·.2)

/-! ### BoltStore (store_bolt.go) — B+tree bucket = list sorted by key bytes -/

/-- `bytes.Compare a b < 0` -/
def bytesLt : Bytes → Bytes → Bool
  | [], [] => false
  | [], _ :: _ => true
  | _ :: _, [] => false
  | x :: xs, y :: ys => if x < y then true else if y < x then false else bytesLt xs ys

structure BEntry where
  key : Bytes
  ver : Nat
  pkt : Pkt

abbrev Bolt := List BEntry

/-- `bucket.Put` -/
def boltPutKey : Bolt → BEntry → Bolt
  | [], e => [e]
  | x :: xs, e =>
    if bytesLt e.key x.key then e :: x :: xs
    else if x.key = e.key then e :: xs
    else x :: boltPutKey xs e

def boltPut (s : Bolt) (p : Put) : Bolt := boltPutKey s ⟨encKey p.name, p.ver, p.pkt⟩

/-- `c.Seek(key)` then `c.Next()` while `bytes.HasPrefix(k, key)` -/
def boltScan (s : Bolt) (key : Bytes) : List BEntry :=
  (s.dropWhile fun e => bytesLt e.key key).takeWhile fun e => key.isPrefixOf e.key

/-- the scan loop of `BoltStore.Get(prefix)` (fixed): first packet, then strictly larger versions -/
def boltNewest : List BEntry → Option BEntry → Option BEntry
  | [], best => best
  | e :: es, best =>
    boltNewest es (match best with
      | none => some e
      | some b => if e.ver > b.ver then some e else some b)

/-- `BoltStore.Get` -/
def boltGet (s : Bolt) (name : Name) (pfx : Bool) : Option Pkt :=
  let key := encKey name
  if pfx then (boltNewest ((boltScan s key).take boltScanLimit) none).map (·.pkt)
  else (s.find? fun e => e.key = key).map (·.pkt)

/-- `BoltStore.Remove` -/
def boltRemove (s : Bolt) (name : Name) (pfx : Bool) : Bolt :=
  let key := encKey name
  if pfx then s.filter fun e => !key.isPrefixOf e.key
  else s.filter fun e => e.key ≠ key

/-! ### consumer: ConsumeState + rrSegFetcher (client_consume.go, client_consume_seg.go) -/

structure Fetch where
  segCnt : Option Nat := none            -- `segCnt` (-1 = none)
  content : List (Option Bytes) := []    -- `content` (nil = none)
  wnd0 : Nat := 0
  wnd1 : Nat := 0
  wnd2 : Nat := 0
  complete : Bool := false
  err : Bool := false
  panic : Bool := false                  -- Go index panic (`name[len(name)-1]` on an empty Data name)
deriving Repr

/-- what the engine hands to the callback of a segment Interest -/
inductive Arrival where
  | data (p : Pkt)
  | timeout          -- any non-Data result

/-- one observation of the consume callback: the harness callback calls `Content()` every time -/
structure CbRec where
  chunk : Bytes
  complete : Bool
  err : Bool
deriving Repr, DecidableEq

def joinRange (c : List (Option Bytes)) (a b : Nat) : Bytes :=
  ((c.take b).drop a).flatMap fun o => o.getD []

/-- the callback + `ConsumeState.Content()` : returns content[wnd0:wnd1] and advances wnd0 -/
def Fetch.callback (f : Fetch) : Fetch × CbRec :=
  ({ f with wnd0 := f.wnd1 }, ⟨joinRange f.content f.wnd0 f.wnd1, f.complete, f.err⟩)

/-- `finalizeError` -/
def Fetch.finalizeError (f : Fetch) : Fetch × List CbRec :=
  if f.complete then (f, []) else
  let r := ({ f with err := true, complete := true } : Fetch).callback
  (r.1, [r.2])

/-- the window advance `for wnd[1] < segCnt && content[wnd[1]] != nil { wnd[1]++ }` -/
def advance (content : List (Option Bytes)) (segCnt : Nat) : Nat → Nat → Nat
  | 0, w => w
  | fuel + 1, w =>
    if w < segCnt && (content.getD w none).isSome then advance content segCnt fuel (w + 1) else w

/-- `rrSegFetcher.handleData` after the `outstanding--; queueCheck()` prologue -/
def Fetch.handleData (f : Fetch) (a : Arrival) : Fetch × List CbRec :=
  if f.complete then (f, []) else
  match a with
  | .timeout => f.finalizeError
  | .data p =>
    -- FinalBlockId → segCnt on the first Data
    let r : Option Fetch :=
      match f.segCnt with
      | some _ => some f
      | none =>
        match p.fb with
        | none => none
        | some fb =>
          if fb.typ ≠ typSegment then none
          else
            let cnt := numberVal fb + 1
            if cnt > maxObjectSeg then none
            else some { f with segCnt := some cnt, content := List.replicate cnt none }
    match r with
    | none => f.finalizeError
    | some f =>
      let segCnt := f.segCnt.getD 0
      match p.name.getLast? with
      | none => ({ f with panic := true, complete := true }, [])
      | some sc =>
        if sc.typ ≠ typSegment then f.finalizeError
        else
          let segNum := numberVal sc
          if segNum ≥ segCnt then f.finalizeError
          else
            let f := { f with content := f.content.set segNum (some p.content) }
            if p.content.isEmpty then f.finalizeError
            else if f.wnd1 = segNum then
              let w1 := advance f.content segCnt (segCnt + 1) f.wnd1
              let f := { f with wnd1 := w1, complete := w1 = segCnt }
              let r := f.callback
              (r.1, [r.2])
            else (f, [])

/-- `rrSegFetcher.doCheck` for a single stream: the segment numbers of the Interests sent now.
    `fuel` bounds the `defer s.doCheck()` recursion (each round increments `outstanding`). -/
def doCheck : Nat → Nat → Fetch → (Nat × Fetch × List Nat)
  | 0, outstanding, f => (outstanding, f, [])
  | fuel + 1, outstanding, f =>
    if outstanding ≥ window then (outstanding, f, [])
    else if f.complete then (outstanding, f, [])                                      -- lazily removed
    else if f.segCnt.isNone && f.wnd2 > 0 then (outstanding, f, [])                  -- wait for the first segment
    else if (match f.segCnt with | some c => c > 0 && f.wnd2 ≥ c | none => false) then (outstanding, f, [])
    else
      let r := doCheck fuel (outstanding + 1) { f with wnd2 := f.wnd2 + 1 }
      (r.1, r.2.1, f.wnd2 :: r.2.2)

/-! ### one `Client.Consume` seen from the engine boundary (client_consume.go, client_expressr.go)

  The consumer client is driven by the callbacks of its engine: for every Interest it expressed
  either a Data or a timeout arrives.  `Key` names the Interest (`none` = the metadata Interest,
  `some k` = segment `k`).  ExpressR re-expresses on timeout while retries are left. -/

abbrev Key := Option Nat

inductive Ev where
  | data (k : Key)
  | timeout (k : Key)
  | unsolicited              -- Data that matched no pending Interest: dropped by the engine

structure Cons where
  name : Name                          -- argument of Consume
  fetchName : Name                     -- `state.fetchName`
  metaPending : Bool := false
  metaRetries : Nat := retryBudget
  streaming : Bool := false            -- state handed to the fetcher (`segfetch <- state`)
  f : Fetch := {}
  outstanding : Nat := 0
  pending : List (Nat × Nat) := []     -- segment Interests out: (segment, retries left)
  impossible : Bool := false           -- the event sequence cannot be produced by this model

/-- result of a step: new state, Interests expressed (in order), callback observations (in order) -/
structure ConsOut where
  st : Cons
  sent : List Key := []
  cbs : List CbRec := []

def Cons.fail (c : Cons) : ConsOut :=
  let r := c.f.finalizeError
  { st := { c with f := r.1 }, cbs := r.2 }

/-- `fetcher.add(state)` + `doCheck` -/
def Cons.check (c : Cons) (cbs : List CbRec) : ConsOut :=
  let r := doCheck (window + 1) c.outstanding c.f
  { st := { c with outstanding := r.1, f := r.2.1, pending := c.pending ++ r.2.2.map fun k => (k, retryBudget) },
    sent := r.2.2.map some, cbs := cbs }

/-- `consumeObject` once the name to fetch is known -/
def Cons.consumeObject (c : Cons) (viaMeta : Bool) : ConsOut :=
  match c.fetchName.getLast? with
  | none => c.fail                                       -- "name cannot be empty"
  | some l =>
    if l.typ ≠ typVersion then
      if viaMeta then c.fail                             -- "metadata does not have version component"
      else { st := { c with metaPending := true }, sent := [none] }
    else ({ c with streaming := true } : Cons).check []

/-- `Client.Consume` -/
def Cons.start (name : Name) : ConsOut :=
  ({ name := name, fetchName := name } : Cons).consumeObject false

/-- one engine callback. `serve` is the producer store's Get as seen through the network. -/
def Cons.step (serve : Name → Bool → Option Pkt) (c : Cons) : Ev → ConsOut
  | .unsolicited => { st := c }
  | .data none =>
    if !c.metaPending then { st := { c with impossible := true } } else
    match serve (c.name ++ [metaKw]) true with
    | none => { st := { c with impossible := true } }
    | some p =>
      let c := { c with metaPending := false }
      match p.md with
      | none => c.fail                                   -- ParseMetaData fails / no usable name
      | some (n, _) => ({ c with fetchName := n } : Cons).consumeObject true
  | .timeout none =>
    if !c.metaPending then { st := { c with impossible := true } }
    else if c.metaRetries > 0 then { st := { c with metaRetries := c.metaRetries - 1 }, sent := [none] }
    else ({ c with metaPending := false } : Cons).fail
  | .data (some k) =>
    if !(c.pending.any (·.1 = k)) then { st := { c with impossible := true } } else
    match serve (c.fetchName ++ [segComp k]) false with
    | none => { st := { c with impossible := true } }
    | some p =>
      let r := c.f.handleData (.data p)
      ({ c with pending := c.pending.filter (·.1 ≠ k), outstanding := c.outstanding - 1, f := r.1 } : Cons).check r.2
  | .timeout (some k) =>
    match c.pending.find? (·.1 = k) with
    | none => { st := { c with impossible := true } }
    | some (_, left) =>
      if left > 0 then
        { st := { c with pending := c.pending.map fun e => if e.1 = k then (k, left - 1) else e }, sent := [some k] }
      else
        let r := c.f.handleData .timeout
        ({ c with pending := c.pending.filter (·.1 ≠ k), outstanding := c.outstanding - 1, f := r.1 } : Cons).check r.2

/-- what the store answers to the Interest `k` of this consume -/
def Cons.served (serve : Name → Bool → Option Pkt) (c : Cons) : Key → Option Pkt
  | none => serve (c.name ++ [metaKw]) true
  | some k => serve (c.fetchName ++ [segComp k]) false

def countOf (cnt : List (Key × Nat)) (k : Key) : Nat :=
  match cnt.find? (·.1 = k) with
  | some (_, n) => n
  | none => 0

def bump (cnt : List (Key × Nat)) (k : Key) : List (Key × Nat) :=
  (k, countOf cnt k + 1) :: cnt.filter (·.1 ≠ k)

/-- run a whole event sequence; returns the final state and, per event, what followed it.
    `delivers k n` = the network lets the n-th Interest for `k` and its Data through in time; the
    engine then reports Data iff the producer's store answers, a timeout otherwise — an event that
    contradicts this marks the run `impossible`. -/
def Cons.run (serve : Name → Bool → Option Pkt) (delivers : Key → Nat → Bool) (name : Name) (evs : List Ev) :
    Cons × List ConsOut :=
  let o0 := Cons.start name
  let r := evs.foldl (fun (acc : Cons × List ConsOut × List (Key × Nat)) e =>
    let c := acc.1
    let cnt := acc.2.2
    let consistent : Bool :=
      match e with
      | .data k => delivers k (countOf cnt k) && (c.served serve k).isSome
      | .timeout k => !(delivers k (countOf cnt k) && (c.served serve k).isSome)
      | .unsolicited => true
    let o := c.step serve e
    let o := if consistent then o else { o with st := { o.st with impossible := true } }
    (o.st, acc.2.1 ++ [o], o.sent.foldl bump cnt)) (o0.st, [o0], o0.sent.foldl bump [])
  (r.1, r.2.1)

end Ndn.C15
