/-
  C15 model — std/object: Client.Produce (segmentation, FinalBlockId, metadata packet), the
  consumer (Consume → fetchMetadata → rrSegFetcher.doCheck / handleData, ConsumeState.Content,
  ExpressR retry counter), MemoryStore (trie) and BoltStore (sorted key/value list).

  The model describes the code as it is after the C15 `fix:` commits (see design/C15.md):
    * Produce builds the versioned name / segment names / metadata name without sharing the
      caller's backing array (F-15a);
    * prefix lookups of both stores return a stored packet of maximal version, version 0 included
      (F-15b, bolt `maxVer`).
  Core Lean only (linked into the driver executable).
-/
import NdnVerif.Base.Name
namespace Ndn.C15

/-! ### constants (std/object) -/

/-- `pSegmentSize` (client_produce.go) -/
def segSize : Nat := 8000
/-- `rrSegFetcher.window` (client_consume_seg.go `newRrSegFetcher`) -/
def window : Nat := 10
/-- `ExpressRArgs.Retries` used by fetchMetadata and doCheck -/
def retryBudget : Nat := 3
/-- `maxObjectSeg` -/
def maxObjectSeg : Nat := 100000000
/-- bolt prefix scan: `iter := 1000 … if iter--; iter <= 0 break` examines at most 999 keys -/
def boltScanLimit : Nat := 999

def typKeyword : Nat := 32
def typSegment : Nat := 50
def typVersion : Nat := 54

/-! ### names and packets -/

def segComp (n : Nat) : Component := ⟨typSegment, encNat n⟩
def verComp (n : Nat) : Component := ⟨typVersion, encNat n⟩
/-- keyword component `32=metadata` -/
def metaKw : Component := ⟨typKeyword, [0x6d, 0x65, 0x74, 0x61, 0x64, 0x61, 0x74, 0x61]⟩

/-- `Component.NumberVal` -/
def numberVal (c : Component) : Nat := beDec c.val

/-- `Component.EncodeInto` / `Bytes` (type and length as TLV variable-length numbers) -/
def encComp (c : Component) : Bytes := encTL c.typ ++ encTL c.val.length ++ c.val

/-- bolt key: `BoltStore.encodeName` = concatenated component encodings (no outer Name TL) -/
def encKey (n : Name) : Bytes := n.flatMap encComp

/-- `rdr.MetaData{Name, FinalBlockID}.Encode()` : 07 L name 1a L fbid -/
def encMeta (name : Name) (fbid : Bytes) : Bytes :=
  let nb := encKey name
  [0x07] ++ encTL nb.length ++ nb ++ [0x1a] ++ encTL fbid.length ++ fbid

/-- what the model keeps of a Data wire: name, FinalBlockId, content bytes, and — for packets built
    from `rdr.MetaData` — the decoded metadata (the model does not parse TLV content) -/
structure Pkt where
  name : Name
  fb : Option Component
  content : Bytes
  md : Option (Name × Bytes) := none
deriving DecidableEq, Repr

/-! ### Produce: segmentation (client_produce.go lines 64-87) -/

/-- inner loop `for len(content) > 0 && segContentSize < pSegmentSize`: fill one segment with at most
    `room` more bytes; returns the segment bytes and the remaining buffer list -/
def fillSeg : List Bytes → Nat → Bytes × List Bytes
  | [], _ => ([], [])
  | b :: rest, room =>
    if room = 0 then ([], b :: rest)                 -- segContentSize == pSegmentSize
    else if b.length ≤ room then                     -- sizeLeft = len(content[0]); buffer consumed, popped
      let r := fillSeg rest (room - b.length)
      (b ++ r.1, r.2)
    else (b.take room, b.drop room :: rest)          -- sizeLeft = room; segment is full afterwards

def totalLen (bufs : List Bytes) : Nat := (bufs.map List.length).sum

theorem fillSeg_measure (bufs : List Bytes) (room : Nat) (h : bufs ≠ []) (hr : 0 < room) :
    totalLen (fillSeg bufs room).2 + (fillSeg bufs room).2.length < totalLen bufs + bufs.length := by
  induction bufs generalizing room with
  | nil => exact absurd rfl h
  | cons b rest ih =>
    unfold fillSeg
    have hr0 : room ≠ 0 := by omega
    simp only [hr0, if_false]
    split
    · rename_i hle
      cases rest with
      | nil => simp [fillSeg, totalLen]
      | cons c cs =>
        by_cases hz : room - b.length = 0
        · simp [fillSeg, hz, totalLen]; omega
        · have := ih (room - b.length) (by simp) (by omega)
          simp [totalLen] at this ⊢; omega
    · rename_i hgt
      simp [totalLen, List.length_drop]; omega

/-- outer loop `for seg = 0; len(content) > 0; seg++` : the list of segment contents -/
def segments (bufs : List Bytes) : List Bytes :=
  match bufs with
  | [] => []
  | b :: rest =>
    let r := fillSeg (b :: rest) segSize
    r.1 :: segments r.2
termination_by totalLen bufs + bufs.length
decreasing_by
  have := fillSeg_measure (b :: rest) segSize (by simp) (by simp [segSize])
  simpa using this

structure Put where
  name : Name
  ver : Nat
  pkt : Pkt
deriving Repr

structure ProduceOut where
  ret : Name
  puts : List Put

/-- `Client.Produce` (fixed code): `none` = "cannot produce empty object" -/
def produce (name : Name) (ver : Nat) (bufs : List Bytes) : Option ProduceOut :=
  let size := totalLen bufs
  if size = 0 then none else
  let lastSeg := (size - 1) / segSize
  let fb := segComp lastSeg
  let basename := name ++ [verComp ver]
  let segs := segments bufs
  let segPuts := (List.range segs.length).zip segs |>.map fun (i, c) =>
    let n := basename ++ [segComp i]
    ({ name := n, ver := ver, pkt := { name := n, fb := some fb, content := c } } : Put)
  let mname := name ++ [metaKw, verComp ver, segComp 0]
  let fbid := encComp fb
  let mput : Put := { name := mname, ver := ver,
                      pkt := { name := mname, fb := some fb, content := encMeta basename fbid, md := some (basename, fbid) } }
  some { ret := basename, puts := segPuts ++ [mput] }

/-! ### MemoryStore (store_memory.go) — a trie; children are an association list (Go map) -/

mutual
inductive MNode where
  | mk (wire : Option Pkt) (ver : Nat) (kids : MKids)
inductive MKids where
  | nil
  | cons (c : Component) (n : MNode) (rest : MKids)
end

def MNode.wire : MNode → Option Pkt | .mk w _ _ => w
def MNode.ver : MNode → Nat | .mk _ v _ => v
def MNode.kids : MNode → MKids | .mk _ _ k => k
def MNode.empty : MNode := .mk none 0 .nil

def MKids.isEmpty : MKids → Bool | .nil => true | .cons .. => false

def MKids.lookup : MKids → Component → Option MNode
  | .nil, _ => none
  | .cons c n rest, k => if c = k then some n else rest.lookup k

/-- replace the child stored under `k` (which exists) -/
def MKids.set : MKids → Component → MNode → MKids
  | .nil, _, _ => .nil
  | .cons c n rest, k, v => if c = k then .cons c v rest else .cons c n (rest.set k v)

/-- add a child under a new key (Go map insertion; iteration order is unspecified) -/
def MKids.push : MKids → Component → MNode → MKids
  | .nil, k, v => .cons k v .nil
  | .cons c n rest, k, v => .cons c n (rest.push k v)

/-- `delete(n.children, key)`: the key is gone afterwards -/
def MKids.erase : MKids → Component → MKids
  | .nil, _ => .nil
  | .cons c n rest, k => if c = k then rest.erase k else .cons c n (rest.erase k)

/-- `memoryStoreNode.find` -/
def MNode.find : MNode → Name → Option MNode
  | n, [] => some n
  | n, c :: cs => match n.kids.lookup c with
    | some ch => ch.find cs
    | none => none

mutual
/-- `memoryStoreNode.findNewest` (fixed): a node carrying a wire beats one without; among nodes with a
    wire the strictly larger version wins -/
def MNode.findNewest : MNode → MNode
  | .mk w v kids => MKids.newest kids (.mk w v kids)
def MKids.newest : MKids → MNode → MNode
  | .nil, known => known
  | .cons _ ch rest, known =>
    let cl := ch.findNewest
    MKids.newest rest (if cl.wire.isSome && (known.wire.isNone || cl.ver > known.ver) then cl else known)
end

/-- `memoryStoreNode.insert` -/
def MNode.insert : MNode → Name → Nat → Pkt → MNode
  | .mk _ _ kids, [], ver, p => .mk (some p) ver kids
  | .mk w v kids, c :: cs, ver, p =>
    match kids.lookup c with
    | some ch => .mk w v (kids.set c (ch.insert cs ver p))
    | none => .mk w v (kids.push c (MNode.empty.insert cs ver p))

/-- `memoryStoreNode.remove`; the Bool tells the parent to prune this child.
    Abstraction: Go distinguishes a nil children map from an empty one (`n.children == nil`); the
    model prunes on "no children". The difference (an empty node without wire is kept or not) is not
    observable through Get. -/
def MNode.remove : MNode → Name → Bool → MNode × Bool
  | .mk _ _ kids, [], pfx =>
    let kids' := if pfx then .nil else kids
    (.mk none 0 kids', kids'.isEmpty)
  | .mk w v kids, c :: cs, pfx =>
    if kids.isEmpty then (.mk w v kids, false)
    else match kids.lookup c with
      | some ch =>
        let r := ch.remove cs pfx
        let kids' := if r.2 then kids.erase c else kids.set c r.1
        (.mk w v kids', w.isNone && kids'.isEmpty)
      | none => (.mk w v kids, false)

mutual
/-- `memoryStoreNode.merge` (Commit): the transaction trie is merged into the root -/
def MNode.merge : MNode → MNode → MNode
  | .mk w v kids, .mk tw tv tkids =>
    let wv := if tw.isSome then (tw, tv) else (w, v)
    .mk wv.1 wv.2 (MKids.mergeInto kids tkids)
def MKids.mergeInto : MKids → MKids → MKids
  | kids, .nil => kids
  | kids, .cons c ch rest =>
    match kids.lookup c with
    | some nch => MKids.mergeInto (kids.set c (MNode.merge nch ch)) rest
    | none => MKids.mergeInto (kids.push c ch) rest
end

/-- `MemoryStore.Get` -/
def memGet (root : MNode) (name : Name) (pfx : Bool) : Option Pkt :=
  match root.find name with
  | some node => (if node.wire.isNone && pfx then node.findNewest else node).wire
  | none => none

def memPut (root : MNode) (p : Put) : MNode := root.insert p.name p.ver p.pkt
def memRemove (root : MNode) (name : Name) (pfx : Bool) : MNode := (root.remove name pfx).1

/-- Begin; Put…; Commit -/
def memTx (root : MNode) (puts : List Put) : MNode :=
  root.merge (puts.foldl memPut MNode.empty)

/-! ### memory store: answers allowed by the model for a prefix query (Go map iteration order) -/

mutual
def MNode.entries : MNode → List (Nat × Pkt)
  | .mk w v kids => (match w with | some p => [(v, p)] | none => []) ++ MKids.entries kids
def MKids.entries : MKids → List (Nat × Pkt)
  | .nil => []
  | .cons _ n rest => n.entries ++ MKids.entries rest
end

/-- all packets a prefix `Get` of the memory store may return, over every map iteration order:
    the exact node's packet if it has one, else any packet of maximal version below it -/
def memAllowed (root : MNode) (name : Name) : List Pkt :=
  match root.find name with
  | none => []
  | some node =>
    match node.wire with
    | some p => [p]
    | none =>
      let es := node.entries
      let mx := es.foldl (fun m e => max m e.1) 0
      (es.filter (·.1 == mx)).map (·.2)

/-- an operation issued while a transaction is open -/
inductive TxItem where
  | put (p : Put)
  | remove (name : Name) (pfx : Bool)

/-- Begin; items…; Commit on the memory store: `Put` goes to the transaction trie (`s.tx`), `Remove` acts on
    the committed trie (`s.root.remove`) also while a transaction is open; Commit merges -/
def txStep (acc : MNode × MNode) : TxItem → MNode × MNode
  | .put p => (acc.1, memPut acc.2 p)
  | .remove n pfx => (memRemove acc.1 n pfx, acc.2)

def memStx (root : MNode) (items : List TxItem) : MNode :=
  let r := items.foldl txStep (root, MNode.empty)
  r.1.merge r.2

def txPuts (items : List TxItem) : List Put := items.filterMap fun | .put p => some p | .remove .. => none
def txRemoves (items : List TxItem) : List (Name × Bool) := items.filterMap fun | .remove n b => some (n, b) | .put _ => none

/-! ### BoltStore (store_bolt.go) — B+tree bucket = list sorted by key bytes -/

/-- `bytes.Compare a b < 0` -/
def bytesLt : Bytes → Bytes → Bool
  | [], [] => false
  | [], _ :: _ => true
  | _ :: _, [] => false
  | x :: xs, y :: ys => if x < y then true else if y < x then false else bytesLt xs ys

structure BEntry where
  key : Bytes
  ver : Nat
  pkt : Pkt

abbrev Bolt := List BEntry

/-- `bucket.Put` -/
def boltPutKey : Bolt → BEntry → Bolt
  | [], e => [e]
  | x :: xs, e =>
    if bytesLt e.key x.key then e :: x :: xs
    else if x.key = e.key then e :: xs
    else x :: boltPutKey xs e

def boltPut (s : Bolt) (p : Put) : Bolt := boltPutKey s ⟨encKey p.name, p.ver, p.pkt⟩

/-- `c.Seek(key)` then `c.Next()` while `bytes.HasPrefix(k, key)` -/
def boltScan (s : Bolt) (key : Bytes) : List BEntry :=
  (s.dropWhile fun e => bytesLt e.key key).takeWhile fun e => key.isPrefixOf e.key

/-- the scan loop of `BoltStore.Get(prefix)` (fixed): first packet, then strictly larger versions -/
def boltNewest : List BEntry → Option BEntry → Option BEntry
  | [], best => best
  | e :: es, best =>
    boltNewest es (match best with
      | none => some e
      | some b => if e.ver > b.ver then some e else some b)

/-- `BoltStore.Get` -/
def boltGet (s : Bolt) (name : Name) (pfx : Bool) : Option Pkt :=
  let key := encKey name
  if pfx then (boltNewest ((boltScan s key).take boltScanLimit) none).map (·.pkt)
  else (s.find? fun e => e.key = key).map (·.pkt)

/-- `BoltStore.Remove` -/
def boltRemove (s : Bolt) (name : Name) (pfx : Bool) : Bolt :=
  let key := encKey name
  if pfx then s.filter fun e => !key.isPrefixOf e.key
  else s.filter fun e => e.key ≠ key

/-! ### consumer: ConsumeState + rrSegFetcher (client_consume.go, client_consume_seg.go) -/

structure Fetch where
  segCnt : Option Nat := none            -- `segCnt` (-1 = none)
  content : List (Option Bytes) := []    -- `content` (nil = none)
  wnd0 : Nat := 0
  wnd1 : Nat := 0
  wnd2 : Nat := 0
  complete : Bool := false
  err : Bool := false
  panic : Bool := false                  -- Go index panic (`name[len(name)-1]` on an empty Data name)
deriving Repr

/-- what the engine hands to the callback of a segment Interest -/
inductive Arrival where
  | data (p : Pkt)
  | timeout          -- any non-Data result

/-- one observation of the consume callback: the harness callback calls `Content()` every time -/
structure CbRec where
  chunk : Bytes
  complete : Bool
  err : Bool
deriving Repr, DecidableEq

def joinRange (c : List (Option Bytes)) (a b : Nat) : Bytes :=
  ((c.take b).drop a).flatMap fun o => o.getD []

/-- the callback + `ConsumeState.Content()` : returns content[wnd0:wnd1] and advances wnd0 -/
def Fetch.callback (f : Fetch) : Fetch × CbRec :=
  ({ f with wnd0 := f.wnd1 }, ⟨joinRange f.content f.wnd0 f.wnd1, f.complete, f.err⟩)

/-- `finalizeError` -/
def Fetch.finalizeError (f : Fetch) : Fetch × List CbRec :=
  if f.complete then (f, []) else
  let r := ({ f with err := true, complete := true } : Fetch).callback
  (r.1, [r.2])

/-- the window advance `for wnd[1] < segCnt && content[wnd[1]] != nil { wnd[1]++ }` -/
def advance (content : List (Option Bytes)) (segCnt : Nat) : Nat → Nat → Nat
  | 0, w => w
  | fuel + 1, w =>
    if w < segCnt && (content.getD w none).isSome then advance content segCnt fuel (w + 1) else w

/-- `rrSegFetcher.handleData` after the `outstanding--; queueCheck()` prologue -/
def Fetch.handleData (f : Fetch) (a : Arrival) : Fetch × List CbRec :=
  if f.complete then (f, []) else
  match a with
  | .timeout => f.finalizeError
  | .data p =>
    -- FinalBlockId → segCnt on the first Data
    let r : Option Fetch :=
      match f.segCnt with
      | some _ => some f
      | none =>
        match p.fb with
        | none => none
        | some fb =>
          if fb.typ ≠ typSegment then none
          else
            let cnt := numberVal fb + 1
            if cnt > maxObjectSeg then none
            else some { f with segCnt := some cnt, content := List.replicate cnt none }
    match r with
    | none => f.finalizeError
    | some f =>
      let segCnt := f.segCnt.getD 0
      match p.name.getLast? with
      | none => ({ f with panic := true, complete := true }, [])
      | some sc =>
        if sc.typ ≠ typSegment then f.finalizeError
        else
          let segNum := numberVal sc
          if segNum ≥ segCnt then f.finalizeError
          else
            let f := { f with content := f.content.set segNum (some p.content) }
            if p.content.isEmpty then f.finalizeError
            else if f.wnd1 = segNum then
              let w1 := advance f.content segCnt (segCnt + 1) f.wnd1
              let f := { f with wnd1 := w1, complete := w1 = segCnt }
              let r := f.callback
              (r.1, [r.2])
            else (f, [])

/-! ### the consumer client seen from its engine (client.go `run`, client_consume.go,
      client_consume_seg.go, client_expressr.go)

  One `Client` serves several concurrent `Consume` calls (index `o`).  It is driven by the callbacks
  of its engine: for every Interest it expressed either a Data or a timeout arrives.  `Key` names
  the Interest (`none` = the metadata Interest, `some k` = segment `k`).  ExpressR re-expresses on
  timeout while retries are left.  Every event is processed to completion before the next one
  (single `run` goroutine; the harness never lets two engine callbacks coincide). -/

abbrev Key := Option Nat

inductive Ev where
  | data (o : Nat) (k : Key)
  | timeout (o : Nat) (k : Key)
  | unsolicited              -- Data that matched no pending Interest: dropped by the engine

/-- one `ConsumeState` plus the ExpressR bookkeeping of its Interests -/
structure Cons where
  name : Name := []                    -- argument of Consume
  fetchName : Name := []               -- `state.fetchName`
  metaPending : Bool := false
  metaRetries : Nat := retryBudget
  f : Fetch := {}
  pending : List (Nat × Nat) := []     -- segment Interests out: (segment, retries left)

instance : Inhabited Cons := ⟨{}⟩

structure Client where
  cons : List Cons
  streams : List Nat := []             -- `rrSegFetcher.streams` (indices into `cons`)
  rrIndex : Nat := 0
  outstanding : Nat := 0
  spin : Bool := false                 -- doCheck's selection loop does not terminate (explicit outcome)
  impossible : Bool := false           -- the event sequence cannot be produced by this model

/-- what followed one event: Interests expressed (consume index, key) and callback observations -/
structure Out where
  sent : List (Nat × Key) := []
  cbs : List (Nat × CbRec) := []

def Out.append (a b : Out) : Out := ⟨a.sent ++ b.sent, a.cbs ++ b.cbs⟩

def Client.getCons (c : Client) (o : Nat) : Cons := c.cons.getD o default
def Client.setCons (c : Client) (o : Nat) (x : Cons) : Client := { c with cons := c.cons.set o x }

/-- the selection loop of `doCheck` (`next()` round robin, lazy removal of completed streams, stop
    after a full circle).  Fixed code: when the stream remembered as `first` is removed, a new circle
    starts (before the fix the loop never ended in that case).
    Returns streams, rrIndex, the chosen stream, and whether the fuel ran out (`spin`).
    Fuel: with L streams the fixed loop makes fewer than (L+1)² iterations (every iteration either
    returns, removes a stream, fixes `first`, or moves one step closer to `first`; a removal can push
    `first` at most one full circle away), so `doCheck` passes (L+1)²+1. -/
def pick (cons : List Cons) : Nat → List Nat → Nat → Option Nat → List Nat × Nat × Option Nat × Bool
  | 0, streams, rr, _ => (streams, rr, none, true)
  | fuel + 1, streams, rr, first =>
    if streams.isEmpty then (streams, rr, none, false)                 -- next() = nil
    else
      let rr := (rr + 1) % streams.length
      let s := streams.getD rr 0
      if first = some s then (streams, rr, none, false)                 -- we've gone full circle
      else
        let first := if first.isNone then some s else first
        let f := (cons.getD s default).f
        if f.complete then
          pick cons fuel (streams.eraseIdx rr) rr (if first = some s then none else first)
        else if f.segCnt.isNone && f.wnd2 > 0 then pick cons fuel streams rr first      -- wait for the first segment
        else if (match f.segCnt with | some n => n > 0 && f.wnd2 ≥ n | none => false) then
          pick cons fuel streams rr first                                    -- all interests are out
        else (streams, rr, some s, false)

/-- `rrSegFetcher.doCheck`; `fuel` bounds the `defer s.doCheck()` recursion (each round increments
    `outstanding`, which stops at `window`) -/
def Client.doCheck : Nat → Client → Client × List (Nat × Key)
  | 0, c => (c, [])
  | fuel + 1, c =>
    if c.outstanding ≥ window then (c, [])
    else
      let r := pick c.cons ((c.streams.length + 1) * (c.streams.length + 1) + 1) c.streams c.rrIndex none
      let c := { c with streams := r.1, rrIndex := r.2.1, spin := c.spin || r.2.2.2 }
      match r.2.2.1 with
      | none => (c, [])
      | some s =>
        let x := c.getCons s
        let seg := x.f.wnd2
        let x := { x with f := { x.f with wnd2 := seg + 1 }, pending := x.pending ++ [(seg, retryBudget)] }
        let c := { (c.setCons s x) with outstanding := c.outstanding + 1 }
        let r2 := Client.doCheck fuel c
        (r2.1, (s, some seg) :: r2.2)

def Client.check (c : Client) (cbs : List (Nat × CbRec)) : Client × Out :=
  let r := c.doCheck (window + 1)
  (r.1, ⟨r.2, cbs⟩)

/-- `finalizeError` of consume `o` (outside the fetcher: no doCheck) -/
def Client.fail (c : Client) (o : Nat) : Client × Out :=
  let x := c.getCons o
  let r := x.f.finalizeError
  (c.setCons o { x with f := r.1 }, ⟨[], r.2.map fun cb => (o, cb)⟩)

/-- `consumeObject` once the name to fetch is known -/
def Client.consumeObject (c : Client) (o : Nat) (viaMeta : Bool) : Client × Out :=
  let x := c.getCons o
  match x.fetchName.getLast? with
  | none => c.fail o                                       -- "name cannot be empty"
  | some l =>
    if l.typ ≠ typVersion then
      if viaMeta then c.fail o                             -- "metadata does not have version component"
      else (c.setCons o { x with metaPending := true }, ⟨[(o, none)], []⟩)
    else
      -- `segfetch <- state` ; `fetcher.add` ; `queueCheck`
      ({ c with streams := c.streams ++ [o] } : Client).check []

/-- the `Client.Consume` calls of one operation, in order -/
def Client.start (names : List Name) : Client × Out :=
  let c0 : Client := { cons := names.map fun n => { name := n, fetchName := n } }
  (List.range names.length).foldl (fun (acc : Client × Out) o =>
    let r := acc.1.consumeObject o false
    (r.1, acc.2.append r.2)) (c0, {})

/-- `handleData` of the fetcher for consume `o` -/
def Client.handleData (c : Client) (o : Nat) (k : Nat) (a : Arrival) : Client × Out :=
  let x := c.getCons o
  let r := x.f.handleData a
  -- `s.remove(state)` happens only on regular completion
  let removed := !x.f.complete && r.1.complete && !r.1.err && !r.1.panic
  let c := c.setCons o { x with f := r.1, pending := x.pending.filter (·.1 ≠ k) }
  let c := { c with outstanding := c.outstanding - 1, streams := if removed then c.streams.filter (· ≠ o) else c.streams }
  c.check (r.2.map fun cb => (o, cb))

/-- what the producer's store answers to Interest `k` of consume `o` -/
def Client.served (serve : Name → Bool → Option Pkt) (c : Client) (o : Nat) : Key → Option Pkt
  | none => serve ((c.getCons o).name ++ [metaKw]) true
  | some k => serve ((c.getCons o).fetchName ++ [segComp k]) false

def Client.bad (c : Client) : Client × Out := ({ c with impossible := true }, {})

/-- one engine callback. `serve` is the producer store's Get as seen through the network. -/
def Client.step (serve : Name → Bool → Option Pkt) (c : Client) : Ev → Client × Out
  | .unsolicited => (c, {})
  | .data o none =>
    let x := c.getCons o
    if !x.metaPending then c.bad else
    match c.served serve o none with
    | none => c.bad
    | some p =>
      let c := c.setCons o { x with metaPending := false }
      match p.md with
      | none => c.fail o                                   -- ParseMetaData fails / no usable name
      | some (n, _) => (c.setCons o { (c.getCons o) with fetchName := n }).consumeObject o true
  | .timeout o none =>
    let x := c.getCons o
    if !x.metaPending then c.bad
    else if x.metaRetries > 0 then (c.setCons o { x with metaRetries := x.metaRetries - 1 }, ⟨[(o, none)], []⟩)
    else (c.setCons o { x with metaPending := false }).fail o
  | .data o (some k) =>
    let x := c.getCons o
    if !(x.pending.any (·.1 = k)) then c.bad else
    match c.served serve o (some k) with
    | none => c.bad
    | some p => c.handleData o k (.data p)
  | .timeout o (some k) =>
    let x := c.getCons o
    match x.pending.find? (·.1 = k) with
    | none => c.bad
    | some (_, left) =>
      if left > 0 then
        (c.setCons o { x with pending := x.pending.map fun e => if e.1 = k then (k, left - 1) else e }, ⟨[(o, some k)], []⟩)
      else c.handleData o k .timeout

def countOf (cnt : List ((Nat × Key) × Nat)) (k : Nat × Key) : Nat :=
  match cnt.find? (·.1 = k) with
  | some (_, n) => n
  | none => 0

def bump (cnt : List ((Nat × Key) × Nat)) (k : Nat × Key) : List ((Nat × Key) × Nat) :=
  (k, countOf cnt k + 1) :: cnt.filter (·.1 ≠ k)

/-- run a whole event sequence; returns the final state and, per event, what followed it.
    `delivers o k n` = the network lets the n-th Interest for `k` of consume `o` and its Data through
    in time; the engine then reports Data iff the producer's store answers, a timeout otherwise — an
    event that contradicts this marks the run `impossible`. -/
def Client.run (serve : Name → Bool → Option Pkt) (delivers : Nat → Key → Nat → Bool) (names : List Name)
    (evs : List Ev) : Client × List Out :=
  let s0 := Client.start names
  let r := evs.foldl (fun (acc : Client × List Out × List ((Nat × Key) × Nat)) e =>
    let c := acc.1
    let cnt := acc.2.2
    let consistent : Bool :=
      match e with
      | .data o k => delivers o k (countOf cnt (o, k)) && (c.served serve o k).isSome
      | .timeout o k => !(delivers o k (countOf cnt (o, k)) && (c.served serve o k).isSome)
      | .unsolicited => true
    let r := c.step serve e
    let c' := if consistent then r.1 else { r.1 with impossible := true }
    (c', acc.2.1 ++ [r.2], r.2.sent.foldl bump cnt)) (s0.1, [s0.2], s0.2.sent.foldl bump [])
  (r.1, r.2.1)

end Ndn.C15
