/-
  C15 — the memory trie holds exactly the packets Put and not Removed (refinement trie → finite map).
-/
import NdnVerif.C15.LemmasHistory
namespace Ndn.C15

/-! ### children lists -/

theorem lookup_set_ne : (kids : MKids) → (c k : Component) → (v : MNode) → k ≠ c →
    (kids.set c v).lookup k = kids.lookup k
  | .nil, _, _, _, _ => by simp [MKids.set, MKids.lookup]
  | .cons a n rest, c, k, v, h => by
    simp only [MKids.set]
    split
    · rename_i hac; subst hac
      have : ¬ a = k := fun e => h e.symm
      simp [MKids.lookup, this]
    · simp only [MKids.lookup]
      split
      · rfl
      · exact lookup_set_ne rest c k v h

theorem lookup_push : (kids : MKids) → (c k : Component) → (v : MNode) →
    (kids.push c v).lookup k = match kids.lookup k with | some x => some x | none => if c = k then some v else none
  | .nil, c, k, v => by simp [MKids.push, MKids.lookup]
  | .cons a n rest, c, k, v => by
    simp only [MKids.push, MKids.lookup]
    split
    · rfl
    · exact lookup_push rest c k v

theorem lookup_erase_ne : (kids : MKids) → (c k : Component) → k ≠ c → (kids.erase c).lookup k = kids.lookup k
  | .nil, _, _, _ => by simp [MKids.erase, MKids.lookup]
  | .cons a n rest, c, k, h => by
    simp only [MKids.erase]
    split
    · rename_i hac; subst hac
      have : ¬ a = k := fun e => h e.symm
      simp [MKids.lookup, this, lookup_erase_ne rest a k h]
    · simp only [MKids.lookup]
      split
      · rfl
      · exact lookup_erase_ne rest c k h

/-! ### lookup through nodes -/

theorem lookup_nil (w : Option Pkt) (v : Nat) (kids : MKids) : (MNode.mk w v kids).lookup [] = w.map fun p => (v, p) := by
  simp [MNode.lookup, MNode.find, MNode.wire, MNode.ver]

theorem lookup_cons (w : Option Pkt) (v : Nat) (kids : MKids) (d : Component) (ds : Name) :
    (MNode.mk w v kids).lookup (d :: ds) = (kids.lookup d).bind fun ch => ch.lookup ds := by
  simp only [MNode.lookup, MNode.find, MNode.kids]
  cases kids.lookup d <;> rfl

theorem lookup_empty (nm : Name) : MNode.empty.lookup nm = none := by
  cases nm with
  | nil => simp [MNode.empty, lookup_nil]
  | cons d ds => simp [MNode.empty, lookup_cons, MKids.lookup]

/-- `insert` is a point update of the abstract content -/
theorem lookup_insert (root : MNode) (name : Name) (ver : Nat) (p : Pkt) (nm : Name) :
    (root.insert name ver p).lookup nm = if nm = name then some (ver, p) else root.lookup nm := by
  induction name generalizing root nm with
  | nil =>
    cases root with
    | mk w v kids =>
      cases nm with
      | nil => simp [MNode.insert, lookup_nil]
      | cons d ds => simp [MNode.insert, lookup_cons]
  | cons c cs ih =>
    cases root with
    | mk w v kids =>
      simp only [MNode.insert]
      cases hl : kids.lookup c with
      | some ch =>
        simp only
        cases nm with
        | nil => simp [lookup_nil]
        | cons d ds =>
          simp only [lookup_cons]
          by_cases hd : d = c
          · subst hd
            rw [lookup_set_self kids d ch _ hl, hl]
            simp [ih]
          · rw [lookup_set_ne kids c d _ hd]
            have : ¬ (d :: ds = c :: cs) := by simp [hd]
            simp [this]
      | none =>
        simp only
        cases nm with
        | nil => simp [lookup_nil]
        | cons d ds =>
          simp only [lookup_cons, lookup_push]
          by_cases hd : d = c
          · subst hd
            simp [hl, ih, lookup_empty]
          · have h1 : ¬ (d :: ds = c :: cs) := by simp [hd]
            have h2 : ¬ c = d := fun e => hd e.symm
            simp only [h1, h2, if_false]
            cases kids.lookup d <;> rfl

theorem lookup_of_no_kids (w : Option Pkt) (v : Nat) (kids : MKids) (h : kids.isEmpty = true) (d : Component) (ds : Name) :
    (MNode.mk w v kids).lookup (d :: ds) = none := by
  simp [lookup_cons, lookup_isEmpty kids d h]

/-- a node that asks to be pruned holds nothing -/
theorem remove_prune_holds_nothing (n : MNode) (name : Name) (pfx : Bool) (h : (n.remove name pfx).2 = true) (q : Name) :
    (n.remove name pfx).1.lookup q = none := by
  cases n with
  | mk w v kids =>
    cases name with
    | nil =>
      simp only [MNode.remove] at h ⊢
      cases q with
      | nil => simp [lookup_nil]
      | cons d ds => exact lookup_of_no_kids _ _ _ h d ds
    | cons c cs =>
      simp only [MNode.remove] at h ⊢
      by_cases he : kids.isEmpty = true
      · simp [he] at h
      · simp only [he, Bool.false_eq_true, if_false] at h ⊢
        cases hl : kids.lookup c with
        | none => simp [hl] at h
        | some ch =>
          simp only [hl] at h ⊢
          simp only [Bool.and_eq_true] at h
          have hw : w = none := by simpa using h.1
          subst hw
          cases q with
          | nil => simp [lookup_nil]
          | cons d ds => exact lookup_of_no_kids _ _ _ h.2 d ds

def removeCond (name : Name) (pfx : Bool) (nm : Name) : Bool := if pfx then pfxOf name nm else decide (nm = name)

theorem removeCond_cons_same (c : Component) (cs ds : Name) (pfx : Bool) :
    removeCond (c :: cs) pfx (c :: ds) = removeCond cs pfx ds := by
  cases pfx <;> simp [removeCond, pfxOf]

theorem removeCond_cons_ne (c d : Component) (cs ds : Name) (pfx : Bool) (h : d ≠ c) :
    removeCond (c :: cs) pfx (d :: ds) = false := by
  have : ¬ c = d := fun e => h e.symm
  cases pfx <;> simp [removeCond, pfxOf, h, this]

theorem removeCond_cons_nil (c : Component) (cs : Name) (pfx : Bool) : removeCond (c :: cs) pfx [] = false := by
  cases pfx <;> simp [removeCond, pfxOf]

/-- `remove` deletes exactly the name (exact) or every name under it (prefix) from the abstract content —
    pruning of emptied nodes included -/
theorem lookup_remove (root : MNode) (name : Name) (pfx : Bool) (nm : Name) :
    (root.remove name pfx).1.lookup nm = if removeCond name pfx nm then none else root.lookup nm := by
  induction name generalizing root nm with
  | nil =>
    cases root with
    | mk w v kids =>
      simp only [MNode.remove]
      cases nm with
      | nil => cases pfx <;> simp [lookup_nil, removeCond, pfxOf]
      | cons d ds =>
        cases pfx with
        | true => simp [removeCond, pfxOf, lookup_cons, MKids.lookup]
        | false => simp [removeCond, lookup_cons]
  | cons c cs ih =>
    cases root with
    | mk w v kids =>
      cases nm with
      | nil =>
        simp only [removeCond_cons_nil, Bool.false_eq_true, if_false, MNode.remove]
        split
        · rfl
        · split <;> simp [lookup_nil]
      | cons d ds =>
        simp only [MNode.remove]
        split
        · rename_i he
          simp [lookup_of_no_kids _ _ _ he]
        · cases hl : kids.lookup c with
          | none =>
            simp only
            by_cases hd : d = c
            · subst hd; simp [lookup_cons, hl]
            · simp [removeCond_cons_ne c d cs ds pfx hd]
          | some ch =>
            simp only
            by_cases hd : d = c
            · subst hd
              rw [removeCond_cons_same]
              have hih := ih ch ds
              by_cases hp : (ch.remove cs pfx).2 = true
              · simp only [hp, if_true, lookup_cons, lookup_erase_self, Option.bind_none, hl, Option.bind_some]
                rw [← hih, remove_prune_holds_nothing ch cs pfx hp]
              · simp only [hp, Bool.false_eq_true, if_false, lookup_cons, lookup_set_self kids d ch _ hl, Option.bind_some, hl]
                exact hih
            · rw [removeCond_cons_ne c d cs ds pfx hd]
              by_cases hp : (ch.remove cs pfx).2 = true
              · simp [hp, lookup_cons, lookup_erase_ne kids c d hd]
              · simp [hp, lookup_cons, lookup_set_ne kids c d _ hd]

/-! ### well-formed tries: the keys of a children list are distinct (Go map) -/

mutual
def MNode.WF : MNode → Prop
  | .mk _ _ kids => kids.WF
def MKids.WF : MKids → Prop
  | .nil => True
  | .cons c n rest => rest.lookup c = none ∧ n.WF ∧ rest.WF
end

theorem wf_empty : MNode.empty.WF := by simp [MNode.empty, MNode.WF, MKids.WF]

theorem set_absent : (kids : MKids) → (c : Component) → (v : MNode) → kids.lookup c = none → kids.set c v = kids
  | .nil, _, _, _ => rfl
  | .cons a n rest, c, v, h => by
    simp only [MKids.lookup] at h
    split at h
    · cases h
    · rename_i hac
      simp [MKids.set, hac, set_absent rest c v h]

theorem lookup_set_none (kids : MKids) (c k : Component) (v : MNode) (h : kids.lookup k = none) :
    (kids.set c v).lookup k = none := by
  by_cases hk : k = c
  · subst hk; rw [set_absent kids k v h]; exact h
  · rw [lookup_set_ne kids c k v hk]; exact h

theorem wf_child : (kids : MKids) → (c : Component) → (ch : MNode) → kids.WF → kids.lookup c = some ch → ch.WF
  | .nil, _, _, _, h => by simp [MKids.lookup] at h
  | .cons a n rest, c, ch, hw, h => by
    simp only [MKids.WF] at hw
    simp only [MKids.lookup] at h
    split at h
    · cases h; exact hw.2.1
    · exact wf_child rest c ch hw.2.2 h

theorem set_wf : (kids : MKids) → (c : Component) → (v : MNode) → kids.WF → v.WF → (kids.set c v).WF
  | .nil, _, _, _, _ => by simp [MKids.set, MKids.WF]
  | .cons a n rest, c, v, hw, hv => by
    simp only [MKids.WF] at hw
    simp only [MKids.set]
    split
    · simp only [MKids.WF]; exact ⟨hw.1, hv, hw.2.2⟩
    · simp only [MKids.WF]
      exact ⟨lookup_set_none rest c a v hw.1, hw.2.1, set_wf rest c v hw.2.2 hv⟩

theorem push_wf : (kids : MKids) → (c : Component) → (v : MNode) → kids.WF → kids.lookup c = none → v.WF →
    (kids.push c v).WF
  | .nil, _, _, _, _, hv => by simp [MKids.push, MKids.WF, MKids.lookup, hv]
  | .cons a n rest, c, v, hw, hc, hv => by
    simp only [MKids.WF] at hw
    simp only [MKids.lookup] at hc
    split at hc
    · cases hc
    · rename_i hac
      simp only [MKids.push, MKids.WF]
      refine ⟨?_, hw.2.1, push_wf rest c v hw.2.2 hc hv⟩
      rw [lookup_push, hw.1]
      have : ¬ c = a := fun e => hac e.symm
      simp [this]

theorem erase_wf : (kids : MKids) → (c : Component) → kids.WF → (kids.erase c).WF
  | .nil, _, _ => by simp [MKids.erase, MKids.WF]
  | .cons a n rest, c, hw => by
    simp only [MKids.WF] at hw
    simp only [MKids.erase]
    split
    · exact erase_wf rest c hw.2.2
    · rename_i hac
      simp only [MKids.WF]
      refine ⟨?_, hw.2.1, erase_wf rest c hw.2.2⟩
      rw [lookup_erase_ne rest c a hac]; exact hw.1

theorem insert_wf (root : MNode) (name : Name) (ver : Nat) (p : Pkt) (h : root.WF) : (root.insert name ver p).WF := by
  induction name generalizing root with
  | nil => cases root with | mk w v kids => simpa [MNode.insert, MNode.WF] using h
  | cons c cs ih =>
    cases root with
    | mk w v kids =>
      simp only [MNode.WF] at h
      simp only [MNode.insert]
      cases hl : kids.lookup c with
      | some ch =>
        simp only [MNode.WF]
        exact set_wf kids c _ h (ih ch (wf_child kids c ch h hl))
      | none =>
        simp only [MNode.WF]
        exact push_wf kids c _ h hl (ih MNode.empty wf_empty)

theorem remove_wf (root : MNode) (name : Name) (pfx : Bool) (h : root.WF) : (root.remove name pfx).1.WF := by
  induction name generalizing root with
  | nil =>
    cases root with
    | mk w v kids =>
      simp only [MNode.WF] at h
      cases pfx <;> simp [MNode.remove, MNode.WF, MKids.WF, h]
  | cons c cs ih =>
    cases root with
    | mk w v kids =>
      simp only [MNode.WF] at h
      simp only [MNode.remove]
      split
      · simpa [MNode.WF] using h
      · cases hl : kids.lookup c with
        | none => simpa [MNode.WF] using h
        | some ch =>
          simp only [MNode.WF]
          split
          · exact erase_wf kids c h
          · exact set_wf kids c _ h (ih ch (wf_child kids c ch h hl))

/-! ### merge (Commit of a transaction) -/

/-- children after merging the transaction's children list (whose keys are distinct) -/
theorem lookup_mergeInto : (tkids : MKids) → (kids : MKids) → (d : Component) → tkids.WF →
    (MKids.mergeInto kids tkids).lookup d =
      match tkids.lookup d with
      | some tch => some (match kids.lookup d with | some nch => MNode.merge nch tch | none => tch)
      | none => kids.lookup d
  | .nil, kids, d, _ => by simp [MKids.mergeInto, MKids.lookup]
  | .cons c ch rest, kids, d, hw => by
    simp only [MKids.WF] at hw
    simp only [MKids.mergeInto]
    cases hl : kids.lookup c with
    | some nch =>
      simp only
      rw [lookup_mergeInto rest _ d hw.2.2]
      by_cases hd : d = c
      · subst hd
        simp [hw.1, MKids.lookup, lookup_set_self kids d nch _ hl, hl]
      · have : ¬ c = d := fun e => hd e.symm
        simp [MKids.lookup, this, lookup_set_ne kids c d _ hd]
    | none =>
      simp only
      rw [lookup_mergeInto rest _ d hw.2.2]
      by_cases hd : d = c
      · subst hd
        simp [hw.1, MKids.lookup, lookup_push, hl]
      · have : ¬ c = d := fun e => hd e.symm
        simp only [MKids.lookup, this, if_false, lookup_push]
        cases rest.lookup d <;> cases kids.lookup d <;> rfl

/-- `merge` overlays the transaction's content on the root's -/
theorem lookup_merge (n tx : MNode) (nm : Name) (hw : tx.WF) :
    (n.merge tx).lookup nm = match tx.lookup nm with | some x => some x | none => n.lookup nm := by
  induction nm generalizing n tx with
  | nil =>
    cases n with
    | mk w v kids =>
      cases tx with
      | mk tw tv tkids =>
        cases tw <;> simp [MNode.merge, lookup_nil]
  | cons d ds ih =>
    cases n with
    | mk w v kids =>
      cases tx with
      | mk tw tv tkids =>
        simp only [MNode.WF] at hw
        simp only [MNode.merge, lookup_cons, lookup_mergeInto tkids kids d hw]
        cases htl : tkids.lookup d with
        | none => simp
        | some tch =>
          have htw := wf_child tkids d tch hw htl
          cases hkl : kids.lookup d with
          | none => simp; cases tch.lookup ds <;> rfl
          | some nch => simp [ih nch tch htw]

mutual
theorem merge_wf : (tx n : MNode) → n.WF → tx.WF → (n.merge tx).WF
  | .mk tw tv tkids, .mk w v kids, hn, ht => by
    simp only [MNode.WF] at hn ht
    simp only [MNode.merge, MNode.WF]
    exact mergeInto_wf tkids kids hn ht
theorem mergeInto_wf : (tkids kids : MKids) → kids.WF → tkids.WF → (MKids.mergeInto kids tkids).WF
  | .nil, kids, hk, _ => by simpa [MKids.mergeInto] using hk
  | .cons c ch rest, kids, hk, ht => by
    simp only [MKids.WF] at ht
    simp only [MKids.mergeInto]
    cases hl : kids.lookup c with
    | some nch =>
      simp only
      exact mergeInto_wf rest _ (set_wf kids c _ hk (merge_wf ch nch (wf_child kids c nch hk hl) ht.2.1)) ht.2.2
    | none =>
      simp only
      exact mergeInto_wf rest _ (push_wf kids c ch hk hl ht.2.1) ht.2.2
end

/-! ### the trie after a history -/

/-- the trie `root` represents the content `m` -/
def MemRel (root : MNode) (m : Content) : Prop := root.WF ∧ ∀ nm, root.lookup nm = m nm

theorem memRel_put (root : MNode) (m : Content) (p : Put) (h : MemRel root m) : MemRel (memPut root p) (m.put p) := by
  refine ⟨insert_wf root _ _ _ h.1, fun nm => ?_⟩
  simp only [memPut, lookup_insert, Content.put, h.2]

theorem memRel_remove (root : MNode) (m : Content) (name : Name) (pfx : Bool) (h : MemRel root m) :
    MemRel (memRemove root name pfx) (m.remove name pfx) := by
  refine ⟨remove_wf root _ _ h.1, fun nm => ?_⟩
  simp only [memRemove, lookup_remove, Content.remove, removeCond, h.2]

theorem memRel_puts (puts : List Put) (root : MNode) (m : Content) (h : MemRel root m) :
    MemRel (puts.foldl memPut root) (puts.foldl Content.put m) := by
  induction puts generalizing root m with
  | nil => exact h
  | cons p ps ih => exact ih _ _ (memRel_put root m p h)

def overlay (t m : Content) : Content := fun n => match t n with | some x => some x | none => m n

theorem overlay_put (t m : Content) (p : Put) : (overlay t m).put p = overlay (t.put p) m := by
  funext n
  simp only [Content.put, overlay]
  split <;> rfl

theorem foldl_put_overlay (puts : List Put) (t m : Content) :
    puts.foldl Content.put (overlay t m) = overlay (puts.foldl Content.put t) m := by
  induction puts generalizing t with
  | nil => rfl
  | cons p ps ih => simp only [List.foldl_cons, overlay_put, ih]

theorem memRel_tx (root : MNode) (m : Content) (puts : List Put) (h : MemRel root m) :
    MemRel (memTx root puts) (puts.foldl Content.put m) := by
  have ht := memRel_puts puts MNode.empty (fun _ => none) ⟨wf_empty, fun nm => lookup_empty nm⟩
  refine ⟨merge_wf _ _ h.1 ht.1, fun nm => ?_⟩
  have hm : m = overlay (fun _ => none) m := by funext n; rfl
  rw [hm, foldl_put_overlay]
  simp only [memTx, lookup_merge _ _ nm ht.1, ht.2, overlay, h.2]

theorem memRel_step (root : MNode) (m : Content) (op : SOp) (h : MemRel root m) : MemRel (memStep root op) (m.apply op) := by
  cases op with
  | put p => exact memRel_put root m p h
  | remove name pfx => exact memRel_remove root m name pfx h
  | tx puts => exact memRel_tx root m puts h

theorem memRel_run (ops : List SOp) : MemRel (memRun ops) (contents ops) := by
  have : ∀ (root : MNode) (m : Content), MemRel root m → MemRel (ops.foldl memStep root) (ops.foldl Content.apply m) := by
    induction ops with
    | nil => intro root m h; exact h
    | cons op rest ih => intro root m h; exact ih _ _ (memRel_step root m op h)
  exact this _ _ ⟨wf_empty, fun nm => lookup_empty nm⟩

/-! ### the packets below a node -/

theorem find_append (root : MNode) (a b : Name) : root.find (a ++ b) = (root.find a).bind fun n => n.find b := by
  induction a generalizing root with
  | nil => simp [MNode.find]
  | cons c cs ih =>
    simp only [List.cons_append, MNode.find]
    cases root.kids.lookup c with
    | none => rfl
    | some ch => exact ih ch

theorem lookup_append (root node : MNode) (a b : Name) (h : root.find a = some node) : root.lookup (a ++ b) = node.lookup b := by
  simp [MNode.lookup, find_append, h]

theorem lookup_append_none (root : MNode) (a b : Name) (h : root.find a = none) : root.lookup (a ++ b) = none := by
  simp [MNode.lookup, find_append, h]

theorem kids_entries_of_lookup : (kids : MKids) → (d : Component) → (ch : MNode) → kids.lookup d = some ch →
    ∀ e ∈ ch.entries, e ∈ kids.entries
  | .nil, _, _, h => by simp [MKids.lookup] at h
  | .cons a n rest, d, ch, h => by
    intro e he
    simp only [MKids.lookup] at h
    simp only [MKids.entries, List.mem_append]
    split at h
    · cases h; exact Or.inl he
    · exact Or.inr (kids_entries_of_lookup rest d ch h e he)

/-- every stored (version, packet) below a node is one of its `entries` -/
theorem entries_of_lookup (n : MNode) (nm : Name) (e : Nat × Pkt) (h : n.lookup nm = some e) : e ∈ n.entries := by
  induction nm generalizing n with
  | nil =>
    cases n with
    | mk w v kids =>
      rw [lookup_nil] at h
      cases w with
      | none => simp at h
      | some p => simp at h; subst h; simp [MNode.entries]
  | cons d ds ih =>
    cases n with
    | mk w v kids =>
      rw [lookup_cons] at h
      cases hl : kids.lookup d with
      | none => simp [hl] at h
      | some ch =>
        simp only [hl, Option.bind_some] at h
        simp only [MNode.entries, List.mem_append]
        exact Or.inr (kids_entries_of_lookup kids d ch hl e (ih ch h))

mutual
/-- in a well-formed trie every entry is reachable by a name -/
theorem lookup_of_entries : (n : MNode) → n.WF → ∀ e ∈ n.entries, ∃ nm, n.lookup nm = some e
  | .mk w v kids, hw, e, he => by
    simp only [MNode.WF] at hw
    simp only [MNode.entries, List.mem_append] at he
    rcases he with he | he
    · cases w with
      | none => simp at he
      | some p => simp at he; subst he; exact ⟨[], by simp [lookup_nil]⟩
    · obtain ⟨d, ds, ch, h1, h2⟩ := kids_lookup_of_entries kids hw e he
      exact ⟨d :: ds, by simp [lookup_cons, h1, h2]⟩
theorem kids_lookup_of_entries : (kids : MKids) → kids.WF → ∀ e ∈ kids.entries,
    ∃ d ds ch, kids.lookup d = some ch ∧ ch.lookup ds = some e
  | .nil, _, e, he => by simp [MKids.entries] at he
  | .cons c n rest, hw, e, he => by
    simp only [MKids.WF] at hw
    simp only [MKids.entries, List.mem_append] at he
    rcases he with he | he
    · obtain ⟨nm, h⟩ := lookup_of_entries n hw.2.1 e he
      exact ⟨c, nm, n, by simp [MKids.lookup], h⟩
    · obtain ⟨d, ds, ch, h1, h2⟩ := kids_lookup_of_entries rest hw.2.2 e he
      have hcd : ¬ c = d := by
        intro hc; subst hc; rw [hw.1] at h1; cases h1
      exact ⟨d, ds, ch, by simp [MKids.lookup, hcd, h1], h2⟩
end

theorem wf_find (root : MNode) (nm : Name) (node : MNode) (hw : root.WF) (h : root.find nm = some node) : node.WF := by
  induction nm generalizing root with
  | nil => simp [MNode.find] at h; subst h; exact hw
  | cons c cs ih =>
    cases root with
    | mk w v kids =>
      simp only [MNode.WF] at hw
      simp only [MNode.find, MNode.kids] at h
      cases hl : kids.lookup c with
      | none => simp [hl] at h
      | some ch => simp only [hl] at h; exact ih ch (wf_child kids c ch hw hl) h

end Ndn.C15
