/-
  C09 — /localhost traffic never crosses a non-local face.  Property theorems over the shared model
  `Fw` (C01/Fw.lean), for EVERY state `s` (hence every reachable one), every operation, both
  strategies, every FIB, every oracle value (`tie`, `pick`).
  Helper lemmas: C01/FwLemmas.lean, C01/FwLemmas2.lean.
-/
import NdnVerif.C09.Model
import NdnVerif.C02.Props
import NdnVerif.C01.FwLemmas
import NdnVerif.C01.FwLemmas2
import NdnVerif.C01.FwLemmas3
namespace Ndn.Fw.C09
open Ndn Ndn.Fw Ndn.Fw.Spec

/-- No packet whose name begins with /localhost is ever transmitted on a non-local face — whatever
    the FIB, strategy choice, PIT contents, cache contents, PIT tokens or NextHopFaceId say.
    (Covers every send site: strategy send, NextHopFaceId, Content Store hit, single-match and
    multi-match Data fan-out; configuration and timer operations send nothing.) -/
theorem localhost_never_sent_nonlocal (s : St) (op : Op) (snd : Send) (h : snd ∈ (step s op).2) :
    ¬(nonLocal s.faces snd.face = true ∧ specLocalhost snd.name = true) := by
  rintro ⟨hnl, hlh⟩
  have hlh' := specLocalhost_isLocalhost hlh
  cases op with
  | interest f i tie pick =>
    simp only [step] at h
    rcases onInterest_out s f i tie pick with h0 | ⟨ce, h1, _, _, _, fc, hfc, hsc⟩ | ⟨hop, tok, _, hfw⟩
    · rw [h0] at h; simp at h
    · rw [h1] at h
      simp at h
      subst h
      simp only [Send.face, Send.name, nonLocal, hfc] at hnl hlh'
      simp [hnl, hlh'] at hsc
    · obtain ⟨g, rfl, hu, _⟩ := hfw snd h
      obtain ⟨fc, hfc, _, _, hsc⟩ := usableOut_spec hu
      simp only [Send.face, Send.name, nonLocal, hfc] at hnl hlh'
      exact hsc ⟨by simpa using hnl, hlh'⟩
  | data f d =>
    simp only [step] at h
    obtain ⟨g, tok, rfl, _, fc, hfc, hsc⟩ := onData_sends s f d snd h
    simp only [Send.face, Send.name, nonLocal, hfc] at hnl hlh'
    simp [hnl, hlh'] at hsc
  | _ => simp [step] at h

/-- non-vacuity: a local consumer asks for /localhost/a while the only route is a default route to
    the non-local face 2: nothing is sent (before the fix of F-09a the Interest left on face 2). -/
example :
    let s : St := { faces := [⟨1, true, .p2p⟩, ⟨2, false, .p2p⟩], fib := [([], [(2, 1)])] }
    (step s (.interest 1 { name := [localhostComp, ⟨8, [97]⟩], nonce := some 5 } [] 0)).2 = [] := by decide

/-- An Interest named /localhost/… arriving on a non-local face is not accepted: the state is left
    exactly as it was (no PIT entry, no in-record, no dead-nonce entry, no cache use) and nothing is
    sent. -/
theorem localhost_interest_rejected_inbound_no_change (s : St) (f : FaceId) (fc : Face) (i : Interest)
    (tie : List FaceId) (pick : Nat) (hf : faceOf s.faces f = some fc) (hnl : fc.isLocal = false)
    (hlh : specLocalhost i.name = true) :
    step s (.interest f i tie pick) = (s, []) := by
  have hlh' := specLocalhost_isLocalhost hlh
  simp only [step, onInterest, hf]
  cases hopStep i.hop with
  | none => rfl
  | some hop => simp [hnl, hlh']

/-- A Data named /localhost/… arriving on a non-local face is not accepted: it is neither cached nor
    matched against the PIT, the state is unchanged and nothing is sent. -/
theorem localhost_data_rejected_inbound_no_change (s : St) (f : FaceId) (fc : Face) (d : Data)
    (hf : faceOf s.faces f = some fc) (hnl : fc.isLocal = false) (hlh : specLocalhost d.name = true) :
    step s (.data f d) = (s, []) := by
  have hlh' := specLocalhost_isLocalhost hlh
  simp [step, onData, hf, hnl, hlh']

/-- both rejections under one name (the statement of the property) -/
theorem localhost_rejected_inbound_no_change (s : St) (f : FaceId) (fc : Face)
    (hf : faceOf s.faces f = some fc) (hnl : fc.isLocal = false) :
    (∀ i tie pick, specLocalhost i.name = true → step s (.interest f i tie pick) = (s, [])) ∧
    (∀ d, specLocalhost d.name = true → step s (.data f d) = (s, [])) :=
  ⟨fun i tie pick h => localhost_interest_rejected_inbound_no_change s f fc i tie pick hf hnl h,
   fun d h => localhost_data_rejected_inbound_no_change s f fc d hf hnl h⟩

example :
    let s : St := { faces := [⟨2, false, .p2p⟩, ⟨1, true, .p2p⟩], fib := [([localhostComp], [(1, 1)])] }
    step s (.interest 2 { name := [localhostComp, ⟨8, [97]⟩], nonce := some 5 } [] 0) = (s, []) := by decide

/-- Local faces are unaffected — /localhost exchanges between local applications and the forwarder work:
    in a reachable state (`WF`), a first /localhost Interest (any name, in fact) from local face `f`
    whose longest-prefix FIB entry has a next hop the outgoing pipeline accepts, not answered by the
    cache, IS forwarded; every copy goes to a local face; and the Data that comes back on any local
    face echoing the attached PIT token is delivered to `f` with the PIT token `f` supplied. -/
theorem localhost_local_works (s : St) (hwf : WF s) (f : FaceId) (ff : Face) (i : Interest) (tie : List FaceId) (pick : Nat)
    (hop : Option Nat) (nonce : Nat) (g : FaceId) (c : Nat)
    (hf : faceOf s.faces f = some ff) (hfl : ff.isLocal = true) (hlh : specLocalhost i.name = true)
    (hhop : hopStep i.hop = some hop) (hn : i.nonce = some nonce) (hdead : dnlHas s.dnl i.name nonce = false)
    (hfirst : preEntry s i = none) (hcs : s.csServe = false ∨ csFind s.now s.cs i pick = none) (hnh : i.nextHop = none)
    (hg : (g, c) ∈ lpmNextHops s.fib (lookupName s.regions i)) (hu : usableOut s.faces f i.name hop g = true) :
    let r := step s (.interest f i tie pick)
    r.2 ≠ [] ∧
    (∀ snd ∈ r.2, (∃ g', snd = .interest g' i.name hop (.mine s.nextTok)) ∧ nonLocal s.faces snd.face = false) ∧
    (∀ (from_ : FaceId) (fc : Face) (content : Nat), faceOf s.faces from_ = some fc → fc.isLocal = true →
      Send.data f i.name content i.tok ∈
        (step r.1 (.data from_ { name := i.name, content := content, tok := .six s.nextTok })).2) := by
  intro r
  have hsc : (!ff.isLocal && isLocalhost i.name) = false := by simp [hfl]
  obtain ⟨hne, hall⟩ := C02.first_interest_forwarded_hop_minus_one s hwf f i tie pick ff hop nonce g c hf hsc hhop hn hdead
    hfirst hcs hnh hg hu
  refine ⟨hne, ?_, ?_⟩
  · intro snd hsnd
    refine ⟨hall snd hsnd, ?_⟩
    have := localhost_never_sent_nonlocal s (.interest f i tie pick) snd hsnd
    obtain ⟨g', rfl⟩ := hall snd hsnd
    cases hnl : nonLocal s.faces (Send.interest g' i.name hop (.mine s.nextTok)).face with
    | false => rfl
    | true => exact absurd ⟨hnl, hlh⟩ this
  · intro from_ fc content hfc hfcl
    have hdup : ∀ e, preEntry s i = some e → (e.inRecs.any fun r => r.face != f && r.nonce == nonce) = false := by
      intro e he; rw [hfirst] at he; cases he
    rcases onInterest_stage s hwf f i tie pick ff hop nonce hf hhop hsc hn hdead hdup with
      ⟨ce, cs', hsv, hfind, _⟩ | ⟨s', tok, e', hst, heq⟩
    · rcases hcs with h | h
      · rw [h] at hsv; cases hsv
      · rw [h] at hfind; cases hfind
    · obtain ⟨htok, hin⟩ := hst.fresh hfirst
      subst htok
      obtain ⟨⟨e2, he2, hi2⟩, hfaces⟩ := forwardInterest_entry (s := s') i nonce hop f tie hst.entry
      have hr1 : r.1 = (forwardInterest s' s.nextTok i nonce hop f tie).1 := by
        show (step s (.interest f i tie pick)).1 = _
        simp only [step]; rw [heq]
      simp only [step]
      rw [hr1]
      have hfc' : faceOf (forwardInterest s' s.nextTok i nonce hop f tie).1.faces from_ = some fc := by
        rw [hfaces, hst.faces]; exact hfc
      rw [onData_token_delivers _ from_ fc i.name content s.nextTok e2 hfc' hfcl he2, hi2, hin, hfaces, hst.faces]
      apply dataSends_of_deliverable (t := (f, i.tok)) (by simp) hf
      simp [hfl]

example :
    let s : St := { faces := [⟨1, true, .p2p⟩, ⟨2, true, .p2p⟩, ⟨3, false, .p2p⟩],
                    fib := [([localhostComp], [(3, 0), (2, 5)])] }
    let i : Interest := { name := [localhostComp, ⟨8, [97]⟩], nonce := some 5, tok := [7] }
    (step s (.interest 1 i [] 0)).2 = [.interest 2 i.name none (.mine 0)] ∧
    (step (step s (.interest 1 i [] 0)).1 (.data 2 { name := i.name, content := 9, tok := .six 0 })).2 = [.data 1 i.name 9 [7]] := by
  decide

/-- Which faces are non-local (the scope a transport must assign; compared with the REAL transport
    constructors by the `scope` operations of the harness, clause `C09-scope-classification`): a
    Unix-stream face is Local; a unicast TCP/UDP face is Local exactly when its remote address is a
    loopback address. -/
theorem scope_classification_spec (kind addr : String) :
    scopeLocal "unix" addr = true ∧
    (isLoopbackText addr = true → scopeLocal kind addr = true) ∧
    (kind ≠ "unix" → isLoopbackText addr = false → scopeLocal kind addr = false) := by
  refine ⟨by simp [scopeLocal], ?_, ?_⟩
  · intro h; simp [scopeLocal, h]
  · intro hk h; simp [scopeLocal, h, hk]

/-- a face whose scope is the one the specification assigns to a non-loopback remote address is covered by
    the guards: after it has been added, no /localhost packet is ever sent on it, whatever follows -/
theorem nonloopback_face_never_gets_localhost (s : St) (id : FaceId) (kind addr : String) (lt : Link) (op : Op)
    (hk : kind ≠ "unix") (ha : isLoopbackText addr = false) (snd : Send)
    (h : snd ∈ (step (step s (.addFace ⟨id, scopeLocal kind addr, lt⟩)).1 op).2) (hf : snd.face = id) :
    specLocalhost snd.name = false := by
  have hloc : scopeLocal kind addr = false := (scope_classification_spec kind addr).2.2 hk ha
  have := localhost_never_sent_nonlocal _ op snd h
  cases hl : specLocalhost snd.name with
  | false => rfl
  | true =>
    exfalso
    apply this
    refine ⟨?_, hl⟩
    rw [hf]
    simp only [step, nonLocal, faceOf]
    rw [List.find?_append]
    have : (List.filter (fun x => x.id != id) s.faces).find? (fun x => x.id == id) = none := by
      rw [List.find?_eq_none]
      intro x hx
      have := (List.mem_filter.mp hx).2
      simpa using this
    simp [this, hloc]

end Ndn.Fw.C09
