/- C09 — property theorems (placeholder while the pipeline is being tied; replaced below). -/
import NdnVerif.C09.Model
namespace Ndn.Fw.C09
open Ndn Ndn.Fw

theorem hop0_dropped (s : St) (f : FaceId) (i : Interest) (tie : List FaceId) (pick : Nat)
    (h : i.hop = some 0) : onInterest s f i tie pick = (s, []) := by
  unfold onInterest
  cases faceOf s.faces f with
  | none => rfl
  | some inF => simp [h, hopStep]

end Ndn.Fw.C09
