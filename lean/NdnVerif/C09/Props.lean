/-
  C09 — /localhost traffic never crosses a non-local face.  Property theorems over the shared model
  `Fw` (C01/Fw.lean), for EVERY state `s` (hence every reachable one), every operation, both
  strategies, every FIB, every oracle value (`tie`, `pick`).
  Helper lemmas: C01/FwLemmas.lean, C01/FwLemmas2.lean.
-/
import NdnVerif.C09.Model
import NdnVerif.C01.FwLemmas
namespace Ndn.Fw.C09
open Ndn Ndn.Fw Ndn.Fw.Spec

/-- No packet whose name begins with /localhost is ever transmitted on a non-local face — whatever
    the FIB, strategy choice, PIT contents, cache contents, PIT tokens or NextHopFaceId say.
    (Covers every send site: strategy send, NextHopFaceId, Content Store hit, single-match and
    multi-match Data fan-out; configuration and timer operations send nothing.) -/
theorem localhost_never_sent_nonlocal (s : St) (op : Op) (snd : Send) (h : snd ∈ (step s op).2) :
    ¬(nonLocal s.faces snd.face = true ∧ specLocalhost snd.name = true) := by
  rintro ⟨hnl, hlh⟩
  have hlh' := specLocalhost_isLocalhost hlh
  cases op with
  | interest f i tie pick =>
    simp only [step] at h
    rcases onInterest_out s f i tie pick with h0 | ⟨ce, h1, _, _, _, fc, hfc, hsc⟩ | ⟨hop, tok, _, hfw⟩
    · rw [h0] at h; simp at h
    · rw [h1] at h
      simp at h
      subst h
      simp only [Send.face, Send.name, nonLocal, hfc] at hnl hlh'
      simp [hnl, hlh'] at hsc
    · obtain ⟨g, rfl, hu, _⟩ := hfw snd h
      obtain ⟨fc, hfc, _, _, hsc⟩ := usableOut_spec hu
      simp only [Send.face, Send.name, nonLocal, hfc] at hnl hlh'
      exact hsc ⟨by simpa using hnl, hlh'⟩
  | data f d =>
    simp only [step] at h
    obtain ⟨g, tok, rfl, _, fc, hfc, hsc⟩ := onData_sends s f d snd h
    simp only [Send.face, Send.name, nonLocal, hfc] at hnl hlh'
    simp [hnl, hlh'] at hsc
  | _ => simp [step] at h

/-- non-vacuity: a local consumer asks for /localhost/a while the only route is a default route to
    the non-local face 2: nothing is sent (before the fix of F-09a the Interest left on face 2). -/
example :
    let s : St := { faces := [⟨1, true, .p2p⟩, ⟨2, false, .p2p⟩], fib := [([], [(2, 1)])] }
    (step s (.interest 1 { name := [localhostComp, ⟨8, [97]⟩], nonce := some 5 } [] 0)).2 = [] := by decide

/-- An Interest named /localhost/… arriving on a non-local face is not accepted: the state is left
    exactly as it was (no PIT entry, no in-record, no dead-nonce entry, no cache use) and nothing is
    sent. -/
theorem localhost_interest_rejected_inbound_no_change (s : St) (f : FaceId) (fc : Face) (i : Interest)
    (tie : List FaceId) (pick : Nat) (hf : faceOf s.faces f = some fc) (hnl : fc.isLocal = false)
    (hlh : specLocalhost i.name = true) :
    step s (.interest f i tie pick) = (s, []) := by
  have hlh' := specLocalhost_isLocalhost hlh
  simp only [step, onInterest, hf]
  cases hopStep i.hop with
  | none => rfl
  | some hop => simp [hnl, hlh']

/-- A Data named /localhost/… arriving on a non-local face is not accepted: it is neither cached nor
    matched against the PIT, the state is unchanged and nothing is sent. -/
theorem localhost_data_rejected_inbound_no_change (s : St) (f : FaceId) (fc : Face) (d : Data)
    (hf : faceOf s.faces f = some fc) (hnl : fc.isLocal = false) (hlh : specLocalhost d.name = true) :
    step s (.data f d) = (s, []) := by
  have hlh' := specLocalhost_isLocalhost hlh
  simp [step, onData, hf, hnl, hlh']

/-- both rejections under one name (the statement of the property) -/
theorem localhost_rejected_inbound_no_change (s : St) (f : FaceId) (fc : Face)
    (hf : faceOf s.faces f = some fc) (hnl : fc.isLocal = false) :
    (∀ i tie pick, specLocalhost i.name = true → step s (.interest f i tie pick) = (s, [])) ∧
    (∀ d, specLocalhost d.name = true → step s (.data f d) = (s, [])) :=
  ⟨fun i tie pick h => localhost_interest_rejected_inbound_no_change s f fc i tie pick hf hnl h,
   fun d h => localhost_data_rejected_inbound_no_change s f fc d hf hnl h⟩

example :
    let s : St := { faces := [⟨2, false, .p2p⟩, ⟨1, true, .p2p⟩], fib := [([localhostComp], [(1, 1)])] }
    step s (.interest 2 { name := [localhostComp, ⟨8, [97]⟩], nonce := some 5 } [] 0) = (s, []) := by decide

end Ndn.Fw.C09
