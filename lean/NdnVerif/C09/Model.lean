/- C09 is decided over the shared model `Fw` of C01 (imported read-only). -/
import NdnVerif.C01.Fw
import NdnVerif.C01.FwSpec
