/-
  C01/FwDriver.lean — line-protocol driver shared by the C01 / C02 / C09 executables:
  parses the ops written by harness/c01/fwh, runs the `Fw` model in lock-step (→ DIFF) and the
  executable specification `FwSpec` on the IMPLEMENTATION's own outputs (→ SPEC).
-/
import NdnVerif.Driver.Common
import NdnVerif.C01.Fw
import NdnVerif.C01.FwSpec
namespace Ndn.Fw.Drv
open Ndn Ndn.Driver Ndn.Fw

/-! ### parsing -/

def optNat (s : String) : Option (Option Nat) :=
  if s == "-" then some none else s.toNat?.map some

def parseB (s : String) : Option Bool :=
  if s == "1" then some true else if s == "0" then some false else none

def parseLink (s : String) : Option Link :=
  match s with
  | "p2p" => some .p2p
  | "multi" => some .multi
  | "adhoc" => some .adhoc
  | _ => none

def parseHints (s : String) : Option (List Name) :=
  if s == "-" then some [] else (s.splitOn ",").mapM Name.ofText

abbrev PSend := Spec.Obs

def parseSend (s : String) : Option PSend :=
  match s.splitOn " " with
  | [hd, nm, a, b] =>
    match Name.ofText nm with
    | none => none
    | some name =>
      if hd.startsWith "I>" then
        match (hd.drop 2).toNat?, optNat (a.drop 2).toString with
        | some f, some hop => some { isData := false, face := f, name := name, hop := hop, tok := (b.drop 2).toString }
        | _, _ => none
      else if hd.startsWith "D>" then
        match (hd.drop 2).toNat?, (a.drop 2).toNat? with
        | some f, some c => some { isData := true, face := f, name := name, content := c, tok := (b.drop 2).toString }
        | _, _ => none
      else none
  | _ => none

def kvNat (parts : List String) (key : String) : Nat :=
  match parts.find? (·.startsWith (key ++ "=")) with
  | some p => ((p.drop (key.length + 1)).toNat?).getD 0
  | none => 0

/-- "<sends> | <counters>" → the sends and the pit / cs sizes (none if malformed) -/
def parseGot (got : String) : Option (List PSend × Nat × Nat) :=
  match got.splitOn " | " with
  | [s, c] =>
    let parts := c.splitOn " "
    (if s.isEmpty then some [] else (s.splitOn " ; ").mapM parseSend).map fun l => (l, kvNat parts "pit", kvNat parts "cs")
  | _ => none

/-! ### rendering of the model's output -/

def insSorted (a : String) : List String → List String
  | [] => [a]
  | b :: t => if a < b || a == b then a :: b :: t else b :: insSorted a t

def sortStrings (l : List String) : List String := l.foldr insSorted []

def optStr : Option Nat → String
  | none => "-"
  | some n => toString n

structure DrvSt where
  m : St := {}
  /-- label k ↦ model token (T<k> of the protocol, by first appearance) -/
  labels : List Nat := []
  /-- name text ↦ label most recently seen on an Interest send of the implementation -/
  lastTok : List (String × Nat) := []
  sp : Spec.SpSt := {}
  started : Bool := false
  /-- ingress through the real link service (dispatchInterest / dispatchData of fw/face) -/
  ls : Bool := false

def labelOf (labels : List Nat) (t : Nat) : List Nat × Nat :=
  match labels.findIdx? (· == t) with
  | some k => (labels, k)
  | none => (labels ++ [t], labels.length)

def renderSends (labels : List Nat) (l : List Send) : List Nat × List String :=
  l.foldl (fun (acc : List Nat × List String) s =>
    match s with
    | .interest f n hop (.mine t) =>
      let (lb, k) := labelOf acc.1 t
      (lb, acc.2 ++ [s!"I>{f} {n.toText} h={optStr hop} t=T{k}"])
    | .interest f n hop (.raw b) => (acc.1, acc.2 ++ [s!"I>{f} {n.toText} h={optStr hop} t={hexOrDash b}"])
    | .data f n c b => (acc.1, acc.2 ++ [s!"D>{f} {n.toText} c={c} t={hexOrDash b}"])) (labels, [])

def counters (m : St) : String :=
  s!"oi={m.nOutInterests} od={m.nOutData} si={m.nSatisfied} pit={m.pit.length} cs={m.cs.length}"

def foreignBase : Nat := 1000000000000

/-- Data token text → model token (none = unknown reference → "skip") -/
def parseDTok (d : DrvSt) (s : String) : Option DTok :=
  if s == "-" then some .none
  else if s.startsWith "T" then
    match (s.drop 1).toNat? with
    | some k => (d.labels[k]?).map DTok.six
    | none => none
  else if s.startsWith "@" then
    match d.lastTok.find? (·.1 == (s.drop 1).toString) with
    | some (_, k) => (d.labels[k]?).map DTok.six
    | none => none
  else match bytesOfHex s with
    | some b => if b.length == 6 then some (.six (foreignBase + beDec (b.drop 2))) else some (.other b)
    | none => none

/-- the Data token as the ledger sees it (labels resolved from the implementation's outputs) -/
def specTok (sp : Spec.SpSt) (s : String) : Spec.STok :=
  if s == "-" then .none
  else if s.startsWith "T" then (match (s.drop 1).toNat? with | some k => .label k | none => .other)
  else if s.startsWith "@" then
    match Name.ofText (s.drop 1).toString with
    | some n => (match sp.lastTok.find? (·.1 == n) with | some (_, k) => .label k | none => .foreign6)
    | none => .other
  else match bytesOfHex s with
    | some b => if b.length == 6 then .foreign6 else .other
    | none => .other

def covOfInterest (pre post : St) (i : Interest) (sends : List Send) : List String :=
  let dataHit := sends.any (·.isData)
  (if dataHit then ["i-cs-hit"] else []) ++
  (if sends.isEmpty then ["i-no-send"] else []) ++
  (if sends.length > 1 then ["i-multi-send"] else []) ++
  (if !dataHit && sends.length == 1 then ["i-one-send"] else []) ++
  (if i.nextHop.isSome then ["i-nexthop"] else []) ++
  (if i.hop == some 0 then ["i-hop0"] else []) ++
  (if i.nonce.isNone then ["i-no-nonce"] else []) ++
  (if post.pit.length > pre.pit.length then ["i-new-entry"] else ["i-no-new-entry"]) ++
  (if post.dnl.length > pre.dnl.length then ["i-retx-dnl"] else []) ++
  (if isLocalhost i.name then ["i-localhost"] else []) ++
  (match i.nonce with
   | some n => if dnlHas pre.dnl i.name n then ["i-dead-nonce"] else []
   | none => [])

def covOfData (pre : St) (d : Data) (sends : List Send) : List String :=
  let pit := pre.pit
  let k := (matchData pit d).length
  (if k == 0 then ["d-unsolicited"] else if k == 1 then ["d-single"] else ["d-multi"]) ++
  (match d.tok with | .six _ => ["d-token"] | .none => ["d-notoken"] | .other _ => ["d-othertoken"]) ++
  (if sends.isEmpty then ["d-no-send"] else if sends.length == 1 then ["d-one-send"] else ["d-many-send"]) ++
  (if isLocalhost d.name then ["d-localhost"] else [])

def keepClause (pid : String) (f : SpecFail) : Bool := f.clause.startsWith pid

/-- the step function of the executables; `pid` selects which property's clauses are reported -/
def stepFw (pid : String) (d : DrvSt) (op : String) (got : String) : StepResult DrvSt :=
  let bad : StepResult DrvSt := { st := d, expected := some "bad-op" }
  let cfg (m : St) (sp : Spec.SpSt) : StepResult DrvSt :=
    { st := { d with m := m, sp := sp }, expected := some "ok" }
  let newOp (a sv cap dnl : String) (ls : Bool) : StepResult DrvSt :=
    match parseB a, parseB sv, cap.toNat?, dnl.toNat? with
    | some a, some sv, some cap, some dnl =>
      { st := { m := { csAdmit := a, csServe := sv, csCap := cap, dnlLife := dnl * ms },
                sp := { csAdmit := a, csServe := sv, dnlLife := dnl * ms }, started := true, ls := ls },
        expected := some "ok", cov := [if ls then "ingress-link-service" else "ingress-direct"] }
    | _, _, _, _ => bad
  match op.splitOn " " with
  | ["new", a, sv, cap, dnl, _alg] => newOp a sv cap dnl false
  | ["new", a, sv, cap, dnl, _alg, "ls"] => newOp a sv cap dnl true
  | ["scope", kind, addr] =>
    -- scope classification by the real transport constructors against the specification
    let want := if Spec.scopeLocal kind addr then "L" else "N"
    if got == "err" then { st := d, cov := ["scope-err"] }
    else { st := d, expected := some want, cov := ["scope-" ++ want],
           spec := (if got != want then
             [(⟨"C09-scope-classification", kind, s!"the {kind} transport for remote address {addr} has scope {got}, the specification says {want}"⟩ : SpecFail)]
             else []).filter (keepClause pid) }
  | _ =>
  if !d.started then { st := d, expected := some "skip" } else
  match op.splitOn " " with
  | ["face", id, sc, lt] =>
    match id.toNat?, parseLink lt with
    | some id, some lt =>
      -- "tcp4:ADDR" / "tcp6:ADDR": the scope is the one the specification assigns to that remote address
      let isLocal := if sc.startsWith "tcp" then Spec.scopeLocal ((sc.take 4).toString) ((sc.drop 5).toString) else sc == "L"
      let f : Face := ⟨id, isLocal, lt⟩
      cfg (step d.m (.addFace f)).1 (Spec.cfgOp d.sp (.addFace f))
    | _, _ => bad
  | ["rmface", id] =>
    match id.toNat? with
    | some id => cfg (step d.m (.rmFace id)).1 (Spec.cfgOp d.sp (.rmFace id))
    | none => bad
  | ["fib", n, f, c] =>
    match Name.ofText n, f.toNat?, c.toNat? with
    | some n, some f, some c => cfg (step d.m (.fibIns n f c)).1 (Spec.cfgOp d.sp (.fibIns n f c))
    | _, _, _ => bad
  | ["unfib", n, f] =>
    match Name.ofText n, f.toNat? with
    | some n, some f => cfg (step d.m (.fibRem n f)).1 (Spec.cfgOp d.sp (.fibRem n f))
    | _, _ => bad
  | ["clrfib", n] =>
    match Name.ofText n with
    | some n => cfg (step d.m (.fibClr n)).1 (Spec.cfgOp d.sp (.fibClr n))
    | none => bad
  | ["strat", n, s] =>
    match Name.ofText n, (if s == "best" then some Strat.best else if s == "multi" then some Strat.multi else none) with
    | some n, some s => cfg (step d.m (.setStrat n s)).1 (Spec.cfgOp d.sp (.setStrat n s))
    | _, _ => bad
  | ["unstrat", n] =>
    match Name.ofText n with
    | some n => cfg (step d.m (.unsetStrat n)).1 (Spec.cfgOp d.sp (.unsetStrat n))
    | none => bad
  | ["region", n] =>
    match Name.ofText n with
    | some n => cfg (step d.m (.region n)).1 (Spec.cfgOp d.sp (.region n))
    | none => bad
  | ["csconf", a, sv] =>
    match parseB a, parseB sv with
    | some a, some sv => cfg (step d.m (.csConf a sv)).1 (Spec.cfgOp d.sp (.csConf a sv))
    | _, _ => bad
  | ["cap", n] =>
    match n.toNat? with
    | some n => cfg (step d.m (.cap n)).1 (Spec.cfgOp d.sp (.cap n))
    | none => bad
  | ["adv", dt] =>
    match dt.toNat? with
    | some dt =>
      let m := (step d.m (.adv dt)).1
      let gp := got.splitOn " "
      let sp := { Spec.advance d.sp dt with lastPit := kvNat gp "pit", lastCs := kvNat gp "cs" }
      { st := { d with m := m, sp := sp },
        expected := if m.amb then none else some s!"pit={m.pit.length} cs={m.cs.length}",
        cov := (if m.pit.length < d.m.pit.length then ["adv-pit-expiry"] else []) ++
               (if m.dnl.length < d.m.dnl.length then ["adv-dnl-reap"] else []) ++
               (if m.amb then ["adv-ambiguous-timer-order"] else []) ++ ["adv"] }
    | none => bad
  | ["I", f, n, cbp, mbf, nonce, hop, life, tok, nh, fh] =>
    match f.toNat?, Name.ofText n, parseB cbp, parseB mbf, optNat nonce, optNat hop, optNat life,
          bytesOfHex tok, optNat nh, parseHints fh with
    | some f, some n, some cbp, some mbf, some nonce, some hop, some life, some tok, some nh, some fh =>
      let i : Interest := { name := n, cbp := cbp, mbf := mbf, nonce := nonce, hop := hop, lifeMs := life,
                            tok := tok, nextHop := nh, hints := fh }
      let psends := ((parseGot got).map (·.1)).getD []
      -- oracles resolved from the implementation's answer
      let tie := (psends.filter (!·.isData)).map (·.face)
      let cands := csPrefixCands d.m.now d.m.cs i
      let pick := match psends.find? (·.isData) with
        | some ps => (cands.findIdx? (·.name == ps.name)).getD 0
        | none =>
          -- no Data came out: if the requester is non-local the walk may have picked a /localhost
          -- Data that the outgoing scope rule dropped
          if Spec.nonLocal d.m.faces f then (cands.findIdx? (fun c => isLocalhost c.name)).getD 0 else 0
      let (m, sends) := step d.m (.interest f i tie pick)
      let (labels, strs) := renderSends d.labels sends
      let lastTok := psends.foldl (fun acc ps =>
        if !ps.isData && ps.tok.startsWith "T" then
          match (ps.tok.drop 1).toNat? with
          | some k => (ps.name.toText, k) :: acc.filter (·.1 != ps.name.toText)
          | none => acc
        else acc) d.lastTok
      let (sp, fails) := match parseGot got with
        | some (ps, pit, cs) => Spec.onInterest d.sp f i ps pit cs
        | none => (d.sp, if isCrash got then [⟨"C01-no-crash", "interest", got⟩, ⟨"C02-no-crash", "interest", got⟩,
                                               ⟨"C09-no-crash", "interest", got⟩] else [])
      { st := { d with m := m, labels := labels, lastTok := lastTok, sp := sp },
        expected := if m.amb then none else some (" ; ".intercalate (sortStrings strs) ++ " | " ++ counters m),
        spec := fails.filter (keepClause pid),
        cov := covOfInterest d.m m i sends,
        nontrivial := !sends.isEmpty }
    | _, _, _, _, _, _, _, _, _, _ => bad
  | ["D", f, n, fresh, c, tok] =>
    match f.toNat?, Name.ofText n, optNat fresh, c.toNat? with
    | some f, some n, some fresh, some c =>
      match parseDTok d tok with
      | none => { st := d, expected := some "skip", cov := ["d-skip"] }
      | some dt =>
        let dd : Data := { name := n, freshMs := fresh, content := c, tok := dt }
        /- the face layer is not transparent for two kinds of Data (fw/face/link-service.go dispatchData):
           a 6-byte PIT token names its forwarding thread in the first two bytes (only thread 0 exists
           here), and token-less Data from a local face is handed to the threads of its prefixes of
           length >= 1 - none for the empty name -/
        let tokBytes := (bytesOfHex tok).getD []
        let faceLocal := match faceOf d.m.faces f with | some fc => fc.isLocal | none => false
        let droppedByFaceLayer := d.ls && (faceOf d.m.faces f).isSome &&
          ((tokBytes.length == 6 && !(tok.startsWith "T") && !(tok.startsWith "@") && tokBytes.take 2 != [0, 0]) ||
           (faceLocal && n.isEmpty && (match dt with | .six _ => false | _ => true)))
        if droppedByFaceLayer then
          { st := d, expected := some (" | " ++ counters d.m), cov := ["d-dropped-by-face-layer"] }
        else
        let (m, sends) := step d.m (.data f dd)
        let (labels, strs) := renderSends d.labels sends
        let (sp, fails) := match parseGot got with
          | some (ps, pit, cs) => Spec.onData d.sp f dd (specTok d.sp tok) ps pit cs
          | none => (d.sp, if isCrash got then [⟨"C01-no-crash", "data", got⟩, ⟨"C02-no-crash", "data", got⟩,
                                                 ⟨"C09-no-crash", "data", got⟩] else [])
        { st := { d with m := m, labels := labels, sp := sp },
          expected := if m.amb then none else some (" ; ".intercalate (sortStrings strs) ++ " | " ++ counters m),
          spec := fails.filter (keepClause pid),
          cov := covOfData d.m dd sends,
          nontrivial := !sends.isEmpty }
    | _, _, _, _ => bad
  | _ => bad

end Ndn.Fw.Drv
