/-
  C01/FwDriver.lean — line-protocol driver shared by the C01 / C02 / C09 executables:
  parses the ops written by harness/c01/fwh, runs the `Fw` model in lock-step (→ DIFF) and the
  executable specification `FwSpec` on the IMPLEMENTATION's own outputs (→ SPEC).
-/
import NdnVerif.Driver.Common
import NdnVerif.C01.Fw
import NdnVerif.C01.FwSpec
import NdnVerif.C01.FwMulti
namespace Ndn.Fw.Drv
open Ndn Ndn.Driver Ndn.Fw

/-! ### parsing -/

def optNat (s : String) : Option (Option Nat) :=
  if s == "-" then some none else s.toNat?.map some

def parseB (s : String) : Option Bool :=
  if s == "1" then some true else if s == "0" then some false else none

def parseLink (s : String) : Option Link :=
  match s with
  | "p2p" => some .p2p
  | "multi" => some .multi
  | "adhoc" => some .adhoc
  | _ => none

def parseHints (s : String) : Option (List Name) :=
  if s == "-" then some [] else (s.splitOn ",").mapM Name.ofText

abbrev PSend := Spec.Obs

def parseSend (s : String) : Option PSend :=
  match s.splitOn " " with
  | [hd, nm, a, b] =>
    match Name.ofText nm with
    | none => none
    | some name =>
      if hd.startsWith "I>" then
        match (hd.drop 2).toNat?, optNat (a.drop 2).toString with
        | some f, some hop => some { isData := false, face := f, name := name, hop := hop, tok := (b.drop 2).toString }
        | _, _ => none
      else if hd.startsWith "D>" then
        match (hd.drop 2).toNat?, (a.drop 2).toNat? with
        | some f, some c => some { isData := true, face := f, name := name, content := c, tok := (b.drop 2).toString }
        | _, _ => none
      else none
  | _ => none

def kvNat (parts : List String) (key : String) : Nat :=
  match parts.find? (·.startsWith (key ++ "=")) with
  | some p => ((p.drop (key.length + 1)).toNat?).getD 0
  | none => 0

/-- "<sends> | <counters>[ | <hash oracle>]" → the sends and the pit / cs sizes (none if malformed) -/
def parseGot (got : String) : Option (List PSend × Nat × Nat) :=
  match got.splitOn " | " with
  | s :: c :: _ =>
    let parts := c.splitOn " "
    (if s.isEmpty then some [] else (s.splitOn " ; ").mapM parseSend).map fun l => (l, kvNat parts "pit", kvNat parts "cs")
  | _ => none

/-- the name-hash oracle of multi-thread histories: (Hash mod n, PrefixHash[i] mod n for i = 0..len) -/
def parseOracle (got : String) : Option (String × Nat × List Nat) :=
  match got.splitOn " | " with
  | [_, _, o] =>
    match o.splitOn " " with
    | [a, b] =>
      if a.startsWith "th=" && b.startsWith "ph=" then
        match (a.drop 3).toNat?, ((b.drop 3).toString.splitOn ",").mapM (·.toNat?) with
        | some th, some ph => some (o, th, ph)
        | _, _ => none
      else none
    | _ => none
  | _ => none

/-! ### rendering of the model's output -/

def insSorted (a : String) : List String → List String
  | [] => [a]
  | b :: t => if a < b || a == b then a :: b :: t else b :: insSorted a t

def sortStrings (l : List String) : List String := l.foldr insSorted []

def optStr : Option Nat → String
  | none => "-"
  | some n => toString n

structure DrvSt where
  /-- thread 0 -/
  m : St := {}
  /-- threads 1 … n-1 (multi-thread histories) -/
  rest : List St := []
  /-- label k ↦ (thread, model token) (T<k> of the protocol, by first appearance) -/
  labels : List (Nat × Nat) := []
  /-- name text ↦ label most recently seen on an Interest send of the implementation -/
  lastTok : List (String × Nat) := []
  sp : Spec.SpSt := {}
  started : Bool := false
  /-- ingress through the real link service (dispatchInterest / dispatchData of fw/face) -/
  ls : Bool := false

def labelOf (labels : List (Nat × Nat)) (t : Nat × Nat) : List (Nat × Nat) × Nat :=
  match labels.findIdx? (· == t) with
  | some k => (labels, k)
  | none => (labels ++ [t], labels.length)

/-- render the sends of thread `th` -/
def renderSends (labels : List (Nat × Nat)) (th : Nat) (l : List Send) : List (Nat × Nat) × List String :=
  l.foldl (fun (acc : List (Nat × Nat) × List String) s =>
    match s with
    | .interest f n hop (.mine t) =>
      let (lb, k) := labelOf acc.1 (th, t)
      (lb, acc.2 ++ [s!"I>{f} {n.toText} h={optStr hop} t=T{k}"])
    | .interest f n hop (.raw b) => (acc.1, acc.2 ++ [s!"I>{f} {n.toText} h={optStr hop} t={hexOrDash b}"])
    | .data f n c b => (acc.1, acc.2 ++ [s!"D>{f} {n.toText} c={c} t={hexOrDash b}"])) (labels, [])

def counters (ts : List St) : String :=
  let sum (f : St → Nat) := ts.foldl (fun a s => a + f s) 0
  s!"oi={sum (·.nOutInterests)} od={sum (·.nOutData)} si={sum (·.nSatisfied)} pit={sum (·.pit.length)} cs={sum (·.cs.length)}"

def foreignBase : Nat := 1000000000000

/-- Data token text → model token and the thread id the token names (none = unknown reference → "skip") -/
def parseDTok (d : DrvSt) (s : String) : Option (DTok × Option Nat) :=
  let ofLabel (k : Nat) : Option (DTok × Option Nat) := (d.labels[k]?).map fun p => (DTok.six p.2, some p.1)
  if s == "-" then some (.none, none)
  else if s.startsWith "T" then
    match (s.drop 1).toNat? with
    | some k => ofLabel k
    | none => none
  else if s.startsWith "@" then
    match d.lastTok.find? (·.1 == (s.drop 1).toString) with
    | some (_, k) => ofLabel k
    | none => none
  else match bytesOfHex s with
    | some b => if b.length == 6 then some (.six (foreignBase + beDec (b.drop 2)), some (beDec (b.take 2))) else some (.other b, none)
    | none => none

/-- the Data token as the ledger sees it (labels resolved from the implementation's outputs) -/
def specTok (sp : Spec.SpSt) (s : String) : Spec.STok :=
  if s == "-" then .none
  else if s.startsWith "T" then (match (s.drop 1).toNat? with | some k => .label k | none => .other)
  else if s.startsWith "@" then
    match Name.ofText (s.drop 1).toString with
    | some n => (match sp.lastTok.find? (·.1 == n) with | some (_, k) => .label k | none => .foreign6)
    | none => .other
  else match bytesOfHex s with
    | some b => if b.length == 6 then .foreign6 else .other
    | none => .other

def covOfInterest (pre post : St) (i : Interest) (sends : List Send) : List String :=
  let dataHit := sends.any (·.isData)
  (if dataHit then ["i-cs-hit"] else []) ++
  (if sends.isEmpty then ["i-no-send"] else []) ++
  (if sends.length > 1 then ["i-multi-send"] else []) ++
  (if !dataHit && sends.length == 1 then ["i-one-send"] else []) ++
  (if i.nextHop.isSome then ["i-nexthop"] else []) ++
  (if i.hop == some 0 then ["i-hop0"] else []) ++
  (if i.nonce.isNone then ["i-no-nonce"] else []) ++
  (if post.pit.length > pre.pit.length then ["i-new-entry"] else ["i-no-new-entry"]) ++
  (if post.dnl.length > pre.dnl.length then ["i-retx-dnl"] else []) ++
  (if isLocalhost i.name then ["i-localhost"] else []) ++
  (match i.nonce with
   | some n => if dnlHas pre.dnl i.name n then ["i-dead-nonce"] else []
   | none => [])

def covOfData (pre : St) (d : Data) (sends : List Send) : List String :=
  let pit := pre.pit
  let k := (matchData pit d).length
  (if k == 0 then ["d-unsolicited"] else if k == 1 then ["d-single"] else ["d-multi"]) ++
  (match d.tok with | .six _ => ["d-token"] | .none => ["d-notoken"] | .other _ => ["d-othertoken"]) ++
  (if sends.isEmpty then ["d-no-send"] else if sends.length == 1 then ["d-one-send"] else ["d-many-send"]) ++
  (if isLocalhost d.name then ["d-localhost"] else [])

def keepClause (pid : String) (f : SpecFail) : Bool := f.clause.startsWith pid

/-- the step function of the executables; `pid` selects which property's clauses are reported -/
def stepFwCore (pid : String) (d : DrvSt) (op : String) (got : String) : StepResult DrvSt :=
  let bad : StepResult DrvSt := { st := d, expected := some "bad-op" }
  let cfgAll (o : Op) : StepResult DrvSt :=
    { st := { d with m := (step d.m o).1, rest := d.rest.map (fun s => (step s o).1), sp := Spec.cfgOp d.sp o },
      expected := some "ok" }
  let ts : List St := d.m :: d.rest
  let newOp (a sv cap dnl : String) (ls : Bool) (n : Nat) : StepResult DrvSt :=
    match parseB a, parseB sv, cap.toNat?, dnl.toNat? with
    | some a, some sv, some cap, some dnl =>
      let s0 : St := { csAdmit := a, csServe := sv, csCap := cap, dnlLife := dnl * ms }
      { st := { m := s0, rest := List.replicate (n - 1) s0,
                sp := { csAdmit := a, csServe := sv, dnlLife := dnl * ms, multi := n > 1 }, started := true, ls := ls },
        expected := some "ok",
        cov := [if n > 1 then "ingress-link-service-multithread" else if ls then "ingress-link-service" else "ingress-direct"] }
    | _, _, _, _ => bad
  match op.splitOn " " with
  | ["new", a, sv, cap, dnl, _alg] => newOp a sv cap dnl false 1
  | ["new", a, sv, cap, dnl, _alg, "ls"] => newOp a sv cap dnl true 1
  | ["new", a, sv, cap, dnl, _alg, "ls", n] =>
    match n.toNat? with
    | some n => if n ≥ 1 then newOp a sv cap dnl true n else bad
    | none => bad
  | ["faces2", _k] =>
    /- concurrent registration of a Local and a NonLocal face in the real face table: each keeps its own
       id, and the face the forwarder finds under an arrival's id is the face the packet arrived on -/
    if got.startsWith "face-ids-reused" then
      { st := d, expected := some "ok", cov := ["faces2"],
        spec := ([(⟨"C01-face-id-reused", "face-table", s!"{got}: Data for a pending Interest of the old face would be emitted on the new one"⟩ : SpecFail),
                  ⟨"C09-face-id-reused", "face-table", s!"{got}: the scope found under an arrival's face id need not be the scope of the face it arrived on"⟩]).filter (keepClause pid) }
    else
    { st := d, expected := some "ok", cov := ["faces2"],
      spec := (if got != "ok" && !isCrash got then
          [(⟨"C09-arrival-scope-attribution", "face-id-clash", s!"two faces registered at the same moment: {got} (the scope found under an arrival's face id is not the scope of the face it arrived on)"⟩ : SpecFail)] ++
          (if (got.splitOn "accepted=").getLast? != some "0" then
            [(⟨"C09-localhost-accepted-inbound", "face-id-clash", s!"a /localhost Interest arriving on the NON-local one of two concurrently registered faces was accepted: {got}"⟩ : SpecFail)] else [])
        else []).filter (keepClause pid) }
  | ["scope", kind, addr] =>
    -- scope classification by the real transport constructors against the specification
    let want := if Spec.scopeLocal kind addr then "L" else "N"
    if got == "err" then { st := d, cov := ["scope-err"] }
    else { st := d, expected := some want, cov := ["scope-" ++ want],
           spec := ((if got != "L" && got != "N" then
             [(⟨"C09-scope-not-binary", kind, s!"the {kind} transport for remote address {addr} has a scope that is neither Local nor NonLocal ({got})"⟩ : SpecFail)]
             else []) ++ if got != want then
             [(⟨"C09-scope-classification", kind, s!"the {kind} transport for remote address {addr} has scope {got}, the specification says {want}"⟩ : SpecFail)]
             else []).filter (keepClause pid) }
  | _ =>
  if !d.started then { st := d, expected := some "skip" } else
  match op.splitOn " " with
  | ["face", id, sc, lt] =>
    match id.toNat?, parseLink lt with
    | some id, some lt =>
      -- "tcp4:ADDR" / "tcp6:ADDR": the scope is the one the specification assigns to that remote address
      let isLocal := if sc.startsWith "tcp" then Spec.scopeLocal ((sc.take 4).toString) ((sc.drop 5).toString) else sc == "L"
      let f : Face := ⟨id, isLocal, lt⟩
      { cfgAll (.addFace f) with
        spec := (if got.startsWith "scope=" then
          [(⟨"C09-scope-not-binary", "face", s!"face {id} ({sc}) was given a scope that is neither Local nor NonLocal ({got}): every `== NonLocal` guard of the pipeline lets it pass as a local face"⟩ : SpecFail)]
          else []).filter (keepClause pid) }
    | _, _ => bad
  | ["dynface", id, sc, lt] =>
    -- a face whose id comes from the real face table; the protocol names it by its slot number
    match id.toNat?, parseLink lt with
    | some id, some lt => { cfgAll (.addFace ⟨id, sc == "L", lt⟩) with cov := ["dynface"] }
    | _, _ => bad
  | ["dynclose", id] =>
    match id.toNat? with
    | some id => { cfgAll (.rmFace id) with cov := ["dynclose"] }
    | none => bad
  | ["rmface", id] =>
    match id.toNat? with
    | some id => cfgAll (.rmFace id)
    | none => bad
  | ["fib", n, f, c] =>
    match Name.ofText n, f.toNat?, c.toNat? with
    | some n, some f, some c => cfgAll (.fibIns n f c)
    | _, _, _ => bad
  | ["unfib", n, f] =>
    match Name.ofText n, f.toNat? with
    | some n, some f => cfgAll (.fibRem n f)
    | _, _ => bad
  | ["clrfib", n] =>
    match Name.ofText n with
    | some n => cfgAll (.fibClr n)
    | none => bad
  | ["strat", n, s] =>
    match Name.ofText n, (if s == "best" then some Strat.best else if s == "multi" then some Strat.multi else none) with
    | some n, some s => cfgAll (.setStrat n s)
    | _, _ => bad
  | ["unstrat", n] =>
    match Name.ofText n with
    | some n => cfgAll (.unsetStrat n)
    | none => bad
  | ["region", n] =>
    match Name.ofText n with
    | some n => cfgAll (.region n)
    | none => bad
  | ["csconf", a, sv] =>
    match parseB a, parseB sv with
    | some a, some sv => cfgAll (.csConf a sv)
    | _, _ => bad
  | ["cap", n] =>
    match n.toNat? with
    | some n => cfgAll (.cap n)
    | none => bad
  | ["adv", dt] =>
    match dt.toNat? with
    | some dt =>
      let ts' := ts.map fun s => (step s (.adv dt)).1
      let gp := got.splitOn " "
      let sp := { Spec.advance d.sp dt with lastPit := kvNat gp "pit", lastCs := kvNat gp "cs" }
      let amb := ts'.any (·.amb)
      let pitOf (l : List St) : Nat := l.foldl (fun a s => a + s.pit.length) 0
      let csOf (l : List St) : Nat := l.foldl (fun a s => a + s.cs.length) 0
      let dnlOf (l : List St) : Nat := l.foldl (fun a s => a + s.dnl.length) 0
      { st := { d with m := ts'.headD d.m, rest := ts'.drop 1, sp := sp },
        expected := if amb then none else some s!"pit={pitOf ts'} cs={csOf ts'}",
        cov := (if pitOf ts' < pitOf ts then ["adv-pit-expiry"] else []) ++
               (if dnlOf ts' < dnlOf ts then ["adv-dnl-reap"] else []) ++
               (if amb then ["adv-ambiguous-timer-order"] else []) ++ ["adv"] }
    | none => bad
  | ["I", f, n, cbp, mbf, nonce, hop, life, tok, nh, fh] =>
    match f.toNat?, Name.ofText n, parseB cbp, parseB mbf, optNat nonce, optNat hop, optNat life,
          bytesOfHex tok, optNat nh, parseHints fh with
    | some f, some n, some cbp, some mbf, some nonce, some hop, some life, some tok, some nh, some fh =>
      let i : Interest := { name := n, cbp := cbp, mbf := mbf, nonce := nonce, hop := hop, lifeMs := life,
                            tok := tok, nextHop := nh, hints := fh }
      let psends := ((parseGot got).map (·.1)).getD []
      let orc := parseOracle got
      -- which forwarding thread: the dispatch rule of the face layer (multi-thread histories), else thread 0
      let n := ts.length
      let th := if n > 1 then interestThread n (fun _ => (orc.map (·.2.1)).getD 0) i.name else 0
      let pre := ts.getD th d.m
      -- oracles resolved from the implementation's answer
      let tie := (psends.filter (!·.isData)).map (·.face)
      let cands := csPrefixCands pre.now pre.cs i
      let pick := match psends.find? (·.isData) with
        | some ps => (cands.findIdx? (·.name == ps.name)).getD 0
        | none =>
          -- no Data came out: if the requester is non-local the walk may have picked a /localhost
          -- Data that the outgoing scope rule dropped
          if Spec.nonLocal pre.faces f then (cands.findIdx? (fun c => isLocalhost c.name)).getD 0 else 0
      let (post, sends) := step pre (.interest f i tie pick)
      let ts' := ts.set th post
      let (labels, strs) := renderSends d.labels th sends
      let lastTok := psends.foldl (fun acc ps =>
        if !ps.isData && ps.tok.startsWith "T" then
          match (ps.tok.drop 1).toNat? with
          | some k => (ps.name.toText, k) :: acc.filter (·.1 != ps.name.toText)
          | none => acc
        else acc) d.lastTok
      let (sp, fails) := match parseGot got with
        | some (ps, pit, cs) => Spec.onInterest d.sp f i ps pit cs
        | none => (d.sp, if isCrash got then [⟨"C01-no-crash", "interest", got⟩, ⟨"C02-no-crash", "interest", got⟩,
                                               ⟨"C09-no-crash", "interest", got⟩] else [])
      let amb := ts'.any (·.amb)
      { st := { d with m := ts'.headD d.m, rest := ts'.drop 1, labels := labels, lastTok := lastTok, sp := sp },
        expected := if amb then none else some (" ; ".intercalate (sortStrings strs) ++ " | " ++ counters ts' ++
          (match orc with | some (o, _, _) => " | " ++ o | none => "")),
        spec := fails.filter (keepClause pid),
        cov := covOfInterest pre post i sends,
        nontrivial := !sends.isEmpty }
    | _, _, _, _, _, _, _, _, _, _ => bad
  | ["D", f, n, fresh, c, tok] =>
    match f.toNat?, Name.ofText n, optNat fresh, c.toNat? with
    | some f, some n, some fresh, some c =>
      match parseDTok d tok with
      | none =>
        /- the model knows no such token reference. If the implementation's harness did resolve it (the two
           have diverged before), the ledger - which depends on the implementation's outputs only - still
           accounts for the arrival -/
        if got == "skip" then { st := d, expected := some "skip", cov := ["d-skip"] }
        else
          let dd : Data := { name := n, freshMs := fresh, content := c, tok := .none }
          let (sp, fails) := match parseGot got with
            | some (ps, pit, cs) => Spec.onData d.sp f dd (specTok d.sp tok) ps pit cs
            | none => (d.sp, [])
          -- (after an ambiguous timer order the model is no longer compared: it may lack the Interest whose token the
          -- reference names, which is no disagreement)
          { st := { d with sp := sp }, expected := if ts.any (·.amb) then none else some "skip",
            spec := fails.filter (keepClause pid), cov := ["d-skip"] }
      | some (dt, tokThread) =>
        let dd : Data := { name := n, freshMs := fresh, content := c, tok := dt }
        let orc := parseOracle got
        let nT := ts.length
        /- ingress through the link service: the dispatch rule decides the thread(s); direct ingress:
           the harness queues the packet into thread 0 itself -/
        let ph := (orc.map (·.2.2)).getD []
        let H : Name → Nat := fun p => ph.getD p.length 0
        let targets : List Nat := if d.ls then dataThreads nT H n tokThread else [0]
        let (ts', sends) :=
          if d.ls then
            let r := mData ⟨ts⟩ H f dd tokThread
            (r.1.ts, r.2)
          else
            let r := onData d.m f dd
            (r.1 :: d.rest, r.2)
        let (labels, strs) := renderSends d.labels 0 sends
        let (sp, fails) := match parseGot got with
          | some (ps, pit, cs) => Spec.onData d.sp f dd (specTok d.sp tok) ps pit cs
          | none => (d.sp, if isCrash got then [⟨"C01-no-crash", "data", got⟩, ⟨"C02-no-crash", "data", got⟩,
                                                 ⟨"C09-no-crash", "data", got⟩] else [])
        let amb := ts'.any (·.amb)
        { st := { d with m := ts'.headD d.m, rest := ts'.drop 1, labels := labels, sp := sp },
          expected := if amb then none else some (" ; ".intercalate (sortStrings strs) ++ " | " ++ counters ts' ++
            (match orc with | some (o, _, _) => " | " ++ o | none => "")),
          spec := fails.filter (keepClause pid),
          cov := covOfData (ts.getD (targets.headD 0) d.m) dd sends ++
                 (if targets.isEmpty then ["d-dropped-by-face-layer"] else if targets.length > 1 then ["d-several-threads"] else []),
          nontrivial := !sends.isEmpty }
    | _, _, _, _ => bad
  | _ => bad


/-- `IT …`: the Interest of `I …` with a second complete packet (Data /localhost/smuggled) behind it in the SAME
    frame. A frame carries one network-layer packet: the link service drops it (F-09c repaired), nothing happens. -/
def stepFw (pid : String) (d : DrvSt) (op : String) (got : String) : StepResult DrvSt :=
  if op.startsWith "IT " then
    if !d.ls then { st := d, expected := some "skip" } else
    -- spec side: whatever the implementation sent is judged as for the plain Interest (a /localhost Data that
    -- leaves on a non-local face is a C09 violation, an Interest forwarded from a dropped frame shows as a DIFF)
    let r := stepFwCore pid d ("I " ++ (op.drop 3).toString) got
    { st := d, expected := none,
      spec := r.spec.filter (fun f => f.clause.startsWith "C09-localhost-sent-nonlocal" || f.clause == "C01-no-crash" || f.clause.startsWith "C01-data-to-non-pending") ++
              (if (got.splitOn " | ").headD "" != "" && !isCrash got then
                 [⟨"C09-frame-with-two-packets-forwarded", "trailing", s!"a frame holding an Interest AND a second packet behind it was not dropped; transmitted: {(got.splitOn " | ").headD ""}"⟩]
               else []),
      cov := ["interest-with-trailing-packet"] }
  else stepFwCore pid d op got

end Ndn.Fw.Drv
