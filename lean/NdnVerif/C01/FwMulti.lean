/-
  C01/FwMulti.lean — the forwarder as SEVERAL forwarding threads (fw.Threads), each an `Fw` state with
  its own PIT / CS / dead nonce list / timers, sharing faces, FIB, strategy choices and configuration,
  plus the dispatch rule of the face layer (fw/face/link-service.go dispatchInterest / dispatchData,
  fw/fw/thread.go HashNameToFwThread / HashNameToAllPrefixFwThreads, fw/dispatch GetFWThread):

    Interest            → thread  hash(name) mod n            (/localhost names: thread 0)
    Data, 6-byte token  → the thread named in the first two bytes of the token, if it exists
    Data, otherwise     → every thread  hash(prefix) mod n  over ALL prefixes of the name, lengths
                          0 … len (fix of F-01a: the zero-length prefix was skipped, and Data from a
                          non-local face only went to the thread of its full name); /localhost names:
                          thread 0 and the thread of the zero-length prefix

  The name hash is an oracle `H : Name → Nat` (xxhash in the code; assumption A-hash); the theorems
  hold for every `H`.  Core Lean only.
-/
import NdnVerif.C01.Fw
namespace Ndn.Fw

/-- HashNameToFwThread -/
def interestThread (n : Nat) (H : Name → Nat) (name : Name) : Nat :=
  if isLocalhost name then 0 else H name % n

/-- the thread indices marked by HashNameToAllPrefixFwThreads -/
def prefixThreads (n : Nat) (H : Name → Nat) (name : Name) : List Nat :=
  if isLocalhost name then [0, H [] % n]
  else (prefixesDesc name).map fun p => H p % n

/-- dispatchData: the threads a Data is queued to, in thread order, each once.
    `tokThread` = thread id of a 6-byte PIT token -/
def dataThreads (n : Nat) (H : Name → Nat) (name : Name) (tokThread : Option Nat) : List Nat :=
  match tokThread with
  | some t => if t < n then [t] else []
  | none => (List.range n).filter fun t => (prefixThreads n H name).contains t

/-- the forwarder: one `Fw` state per forwarding thread -/
structure MSt where
  ts : List St
deriving Repr

def MSt.n (m : MSt) : Nat := m.ts.length

/-- a configuration / timer operation acts on every thread (faces, FIB, strategies, regions and the CS
    switches are process globals; every thread runs its own timers on the common clock) -/
def mAll (m : MSt) (op : Op) : MSt := ⟨m.ts.map fun s => (step s op).1⟩

def setAt (l : List St) (t : Nat) (s : St) : List St := l.set t s

/-- an Interest arrival: processed by exactly one thread -/
def mInterest (m : MSt) (H : Name → Nat) (f : FaceId) (i : Interest) (tie : List FaceId) (pick : Nat) :
    MSt × List Send :=
  let t := interestThread m.n H i.name
  match m.ts[t]? with
  | none => (m, [])
  | some s =>
    let r := onInterest s f i tie pick
    (⟨setAt m.ts t r.1⟩, r.2)

/-- a Data arrival: processed independently by every thread it is dispatched to -/
def mData (m : MSt) (H : Name → Nat) (f : FaceId) (d : Data) (tokThread : Option Nat) : MSt × List Send :=
  let targets := dataThreads m.n H d.name tokThread
  (⟨m.ts.zipIdx.map fun p => if targets.contains p.2 then (onData p.1 f d).1 else p.1⟩,
   targets.flatMap fun t => match m.ts[t]? with
     | some s => (onData s f d).2
     | none => [])

/-- operations of the multi-thread forwarder -/
inductive MOp
  | cfg (op : Op)                                  -- configuration / timer operation, on every thread
  | interest (f : FaceId) (i : Interest) (tie : List FaceId) (pick : Nat)
  | data (f : FaceId) (d : Data) (tokThread : Option Nat)

def mstep (H : Name → Nat) (m : MSt) : MOp → MSt × List Send
  | .cfg (.interest ..) => (m, [])
  | .cfg (.data ..) => (m, [])
  | .cfg op => (mAll m op, [])
  | .interest f i tie pick => mInterest m H f i tie pick
  | .data f d tokThread => mData m H f d tokThread

def mrun (H : Name → Nat) (m : MSt) (ops : List MOp) : MSt := ops.foldl (fun m op => (mstep H m op).1) m

end Ndn.Fw
