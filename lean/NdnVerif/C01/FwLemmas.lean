/-
  C01/FwLemmas.lean — helper lemmas about the shared model `Fw` (used by C01/C02/C09 Props).
-/
import NdnVerif.C01.Fw
import NdnVerif.C01.FwSpec
namespace Ndn.Fw
open Ndn Ndn.Fw.Spec

deriving instance ReflBEq, LawfulBEq for Component

/-! ### frame lemmas: what the small state transformers leave alone -/

@[simp] theorem dnlInsert_pit (s : St) (n : Name) (k : Nat) : (dnlInsert s n k).pit = s.pit := by
  unfold dnlInsert; split <;> rfl
@[simp] theorem dnlInsert_faces (s : St) (n : Name) (k : Nat) : (dnlInsert s n k).faces = s.faces := by
  unfold dnlInsert; split <;> rfl
@[simp] theorem dnlInsert_fib (s : St) (n : Name) (k : Nat) : (dnlInsert s n k).fib = s.fib := by
  unfold dnlInsert; split <;> rfl
@[simp] theorem dnlInsert_strat (s : St) (n : Name) (k : Nat) : (dnlInsert s n k).strat = s.strat := by
  unfold dnlInsert; split <;> rfl
@[simp] theorem dnlInsert_regions (s : St) (n : Name) (k : Nat) : (dnlInsert s n k).regions = s.regions := by
  unfold dnlInsert; split <;> rfl
@[simp] theorem dnlInsert_now (s : St) (n : Name) (k : Nat) : (dnlInsert s n k).now = s.now := by
  unfold dnlInsert; split <;> rfl
@[simp] theorem dnlInsert_nextTok (s : St) (n : Name) (k : Nat) : (dnlInsert s n k).nextTok = s.nextTok := by
  unfold dnlInsert; split <;> rfl
@[simp] theorem dnlInsert_cs (s : St) (n : Name) (k : Nat) : (dnlInsert s n k).cs = s.cs := by
  unfold dnlInsert; split <;> rfl
@[simp] theorem dnlInsert_csServe (s : St) (n : Name) (k : Nat) : (dnlInsert s n k).csServe = s.csServe := by
  unfold dnlInsert; split <;> rfl

theorem dnlInsertAll_frame (s : St) (l : List (Name × Nat)) :
    (dnlInsertAll s l).pit = s.pit ∧ (dnlInsertAll s l).faces = s.faces ∧ (dnlInsertAll s l).fib = s.fib ∧
    (dnlInsertAll s l).strat = s.strat ∧ (dnlInsertAll s l).regions = s.regions ∧
    (dnlInsertAll s l).now = s.now ∧ (dnlInsertAll s l).nextTok = s.nextTok := by
  unfold dnlInsertAll
  induction l generalizing s with
  | nil => simp
  | cons a t ih =>
    simp only [List.foldl_cons]
    have h := ih (dnlInsert s a.1 a.2)
    simp at h
    exact h

@[simp] theorem dnlInsertAll_pit (s : St) (l) : (dnlInsertAll s l).pit = s.pit := (dnlInsertAll_frame s l).1
@[simp] theorem dnlInsertAll_faces (s : St) (l) : (dnlInsertAll s l).faces = s.faces := (dnlInsertAll_frame s l).2.1
@[simp] theorem dnlInsertAll_fib (s : St) (l) : (dnlInsertAll s l).fib = s.fib := (dnlInsertAll_frame s l).2.2.1
@[simp] theorem dnlInsertAll_now (s : St) (l) : (dnlInsertAll s l).now = s.now := (dnlInsertAll_frame s l).2.2.2.2.2.1
@[simp] theorem dnlInsertAll_nextTok (s : St) (l) : (dnlInsertAll s l).nextTok = s.nextTok := (dnlInsertAll_frame s l).2.2.2.2.2.2

@[simp] theorem csInsert_pit (s : St) (d : Data) : (csInsert s d).pit = s.pit := by
  unfold csInsert; split <;> rfl
@[simp] theorem csInsert_faces (s : St) (d : Data) : (csInsert s d).faces = s.faces := by
  unfold csInsert; split <;> rfl
@[simp] theorem csInsert_now (s : St) (d : Data) : (csInsert s d).now = s.now := by
  unfold csInsert; split <;> rfl
@[simp] theorem csInsert_nextTok (s : St) (d : Data) : (csInsert s d).nextTok = s.nextTok := by
  unfold csInsert; split <;> rfl

@[simp] theorem countData_pit (s : St) (n : Nat) : (countData s n).pit = s.pit := rfl
@[simp] theorem countData_faces (s : St) (n : Nat) : (countData s n).faces = s.faces := rfl
@[simp] theorem countData_nextTok (s : St) (n : Nat) : (countData s n).nextTok = s.nextTok := rfl

/-! ### faces -/

theorem faceOf_some_id {faces : List Face} {g : FaceId} {fc : Face} (h : faceOf faces g = some fc) : fc.id = g := by
  unfold faceOf at h
  have := List.find?_some h
  simpa using this

/-! ### Data sends -/

theorem mem_dataSends {faces : List Face} {name : Name} {content : Nat} {targets : List (FaceId × Bytes)} {snd : Send}
    (h : snd ∈ dataSends faces name content targets) :
    ∃ t ∈ targets, snd = .data t.1 name content t.2 ∧ (∃ fc, faceOf faces t.1 = some fc ∧ ¬(!fc.isLocal && isLocalhost name) = true) := by
  unfold dataSends at h
  rw [List.mem_filterMap] at h
  obtain ⟨t, ht, hs⟩ := h
  refine ⟨t, ht, ?_⟩
  cases hf : faceOf faces t.1 with
  | none => simp [hf] at hs
  | some fc =>
    simp only [hf] at hs
    split at hs
    · simp at hs
    · rename_i hsc
      simp at hs
      exact ⟨hs.symm, fc, rfl, hsc⟩

theorem dataSends_nil (faces : List Face) (name : Name) (content : Nat) : dataSends faces name content [] = [] := rfl

/-- a deliverable target always produces its send -/
theorem dataSends_of_deliverable {faces : List Face} {name : Name} {content : Nat} {targets : List (FaceId × Bytes)}
    {t : FaceId × Bytes} (ht : t ∈ targets) {fc : Face} (hf : faceOf faces t.1 = some fc)
    (hsc : (!fc.isLocal && isLocalhost name) = false) :
    Send.data t.1 name content t.2 ∈ dataSends faces name content targets := by
  unfold dataSends
  rw [List.mem_filterMap]
  exact ⟨t, ht, by simp [hf, hsc]⟩

/-! ### matching Data against the PIT -/

theorem mem_prefixesDesc {n p : Name} (h : p ∈ prefixesDesc n) : ∃ k, k ≤ n.length ∧ p = n.take k := by
  unfold prefixesDesc at h
  simp only [List.mem_map, List.mem_reverse, List.mem_range] at h
  obtain ⟨k, hk, rfl⟩ := h
  exact ⟨k, by omega, rfl⟩

theorem take_mem_prefixesDesc (n : Name) (k : Nat) (hk : k ≤ n.length) : n.take k ∈ prefixesDesc n := by
  unfold prefixesDesc
  simp only [List.mem_map, List.mem_reverse, List.mem_range]
  exact ⟨k, by omega, rfl⟩

theorem isPrefixOf_take (n : Name) (k : Nat) : Name.isPrefixOf (n.take k) n = true := by
  unfold Name.isPrefixOf
  simp only [List.length_take, Bool.and_eq_true, decide_eq_true_eq, beq_iff_eq]
  refine ⟨Nat.min_le_right _ _, ?_⟩
  rw [List.take_eq_take_iff]
  omega

theorem eq_take_of_isPrefixOf {a n : Name} (h : Name.isPrefixOf a n = true) : a = n.take a.length := by
  unfold Name.isPrefixOf at h
  simp only [Bool.and_eq_true, decide_eq_true_eq, beq_iff_eq] at h
  exact h.2.symm

theorem mem_matchByName {pit : List Entry} {n : Name} {e : Entry} :
    e ∈ matchByName pit n ↔ e ∈ pit ∧ nameMatch n e.name e.cbp = true := by
  unfold matchByName nameMatch
  simp only [List.mem_flatMap, List.mem_filter, Bool.and_eq_true, beq_iff_eq, Bool.or_eq_true]
  constructor
  · rintro ⟨p, hp, he, hn, hc⟩
    obtain ⟨k, hk, rfl⟩ := mem_prefixesDesc hp
    refine ⟨he, ?_⟩
    rcases hc with hc | hc
    · right; exact ⟨hc, by rw [hn]; exact isPrefixOf_take n k⟩
    · left
      rw [hn]
      have : (List.take k n).length = k := by simp; omega
      rw [this] at hc
      subst hc
      simp
  · rintro ⟨he, hm⟩
    rcases hm with hm | ⟨hc, hp⟩
    · refine ⟨n, ?_, he, hm.symm, Or.inr rfl⟩
      have := take_mem_prefixesDesc n n.length (Nat.le_refl _)
      simpa using this
    · have h1 := eq_take_of_isPrefixOf hp
      have hle : e.name.length ≤ n.length := by
        unfold Name.isPrefixOf at hp; simp at hp; exact hp.1
      exact ⟨n.take e.name.length, take_mem_prefixesDesc n _ hle, he, h1, Or.inl hc⟩

theorem mem_matchData {pit : List Entry} {d : Data} {e : Entry} (h : e ∈ matchData pit d) :
    e ∈ pit ∧ satisfies d e = true := by
  unfold matchData at h
  unfold satisfies
  cases hd : d.tok with
  | six v =>
    simp only [hd, Option.mem_toList] at h
    have h1 := List.mem_of_find?_eq_some h
    have h2 := List.find?_some h
    exact ⟨h1, by simpa using h2⟩
  | none =>
    simp only [hd] at h
    have := mem_matchByName.mp h
    exact ⟨this.1, this.2⟩
  | other b =>
    simp only [hd] at h
    have := mem_matchByName.mp h
    exact ⟨this.1, this.2⟩

/-! ### outgoing Interests -/

/-- `snd` is an Interest forwarded for entry `tok` to a next hop accepted by processOutgoingInterest -/
def IsFwd (faces : List Face) (inFace : FaceId) (i : Interest) (hop : Option Nat) (tok : Nat)
    (cands : List FaceId) (snd : Send) : Prop :=
  ∃ g, snd = .interest g i.name hop (.mine tok) ∧ usableOut faces inFace i.name hop g = true ∧ g ∈ cands

theorem IsFwd.mono {faces inFace i hop tok c1 c2 snd} (h : IsFwd faces inFace i hop tok c1 snd)
    (hs : ∀ g ∈ c1, g ∈ c2) : IsFwd faces inFace i hop tok c2 snd := by
  obtain ⟨g, h1, h2, h3⟩ := h
  exact ⟨g, h1, h2, hs g h3⟩

theorem outInterest_sends (s : St) (tok : Nat) (i : Interest) (nonce : Nat) (hop : Option Nat) (g inFace : FaceId) :
    (outInterest s tok i nonce hop g inFace).2 =
      if usableOut s.faces inFace i.name hop g then [.interest g i.name hop (.mine tok)] else [] := by
  unfold outInterest; split <;> rfl

@[simp] theorem outInterest_faces (s : St) (tok i nonce hop g inFace) :
    (outInterest s tok i nonce hop g inFace).1.faces = s.faces := by
  unfold outInterest; split <;> rfl
@[simp] theorem outInterest_nextTok (s : St) (tok i nonce hop g inFace) :
    (outInterest s tok i nonce hop g inFace).1.nextTok = s.nextTok := by
  unfold outInterest; split <;> rfl
@[simp] theorem outInterest_now (s : St) (tok i nonce hop g inFace) :
    (outInterest s tok i nonce hop g inFace).1.now = s.now := by
  unfold outInterest; split <;> rfl

theorem outInterest_isFwd (s : St) (tok i nonce hop g inFace) :
    ∀ snd ∈ (outInterest s tok i nonce hop g inFace).2, IsFwd s.faces inFace i hop tok [g] snd := by
  intro snd h
  rw [outInterest_sends] at h
  split at h
  · rename_i hu
    simp at h
    exact ⟨g, h, hu, by simp⟩
  · simp at h

theorem bestRoute_isFwd (s : St) (tok i nonce hop inFace) (l : List (FaceId × Nat)) :
    ∀ snd ∈ (bestRoute s tok i nonce hop inFace l).2, IsFwd s.faces inFace i hop tok (l.map (·.1)) snd := by
  induction l with
  | nil => intro snd h; simp [bestRoute] at h
  | cons nh t ih =>
    intro snd h
    unfold bestRoute at h
    split at h
    · exact (outInterest_isFwd s tok i nonce hop nh.1 inFace snd h).mono (by simp)
    · exact (ih snd h).mono (by intro g hg; simp at hg ⊢; right; exact hg)

@[simp] theorem multicast_faces (s : St) (tok i nonce hop inFace) (l : List (FaceId × Nat)) :
    (multicast s tok i nonce hop inFace l).1.faces = s.faces := by
  induction l generalizing s with
  | nil => rfl
  | cons nh t ih => simp [multicast, ih]

theorem multicast_isFwd (s : St) (tok i nonce hop inFace) (l : List (FaceId × Nat)) :
    ∀ snd ∈ (multicast s tok i nonce hop inFace l).2, IsFwd s.faces inFace i hop tok (l.map (·.1)) snd := by
  induction l generalizing s with
  | nil => intro snd h; simp [multicast] at h
  | cons nh t ih =>
    intro snd h
    simp only [multicast, List.mem_append] at h
    rcases h with h | h
    · exact (outInterest_isFwd s tok i nonce hop nh.1 inFace snd h).mono (by simp)
    · have := ih (outInterest s tok i nonce hop nh.1 inFace).1 snd h
      rw [outInterest_faces] at this
      exact this.mono (by intro g hg; simp at hg ⊢; right; exact hg)

theorem mem_sortNh_map (tie : List FaceId) (l : List (FaceId × Nat)) (g : FaceId) :
    g ∈ (sortNh tie l).map (·.1) → g ∈ l.map (·.1) := by
  have hins : ∀ (a : FaceId × Nat) (m : List (FaceId × Nat)) (x : FaceId × Nat), x ∈ insertNh tie a m → x = a ∨ x ∈ m := by
    intro a m
    induction m with
    | nil => intro x hx; simp [insertNh] at hx; exact Or.inl hx
    | cons b t ih =>
      intro x hx
      unfold insertNh at hx
      split at hx
      · simp at hx ⊢; rcases hx with h | h | h <;> simp [h]
      · simp at hx ⊢
        rcases hx with h | h
        · simp [h]
        · rcases ih x h with h | h <;> simp [h]
  have : ∀ x, x ∈ sortNh tie l → x ∈ l := by
    unfold sortNh
    induction l with
    | nil => intro x hx; simp at hx
    | cons a t ih =>
      intro x hx
      simp only [List.foldr_cons] at hx
      rcases hins a _ x hx with h | h
      · simp [h]
      · simp [ih x h]
  intro hg
  simp only [List.mem_map] at hg ⊢
  obtain ⟨x, hx, rfl⟩ := hg
  exact ⟨x, this x hx, rfl⟩

/-- the candidate next hops named by the property: consumer-chosen face, or FIB longest-prefix match
    of the name / the forwarding hint outside the producer region -/
def nextHopCands (s : St) (i : Interest) : List FaceId :=
  match i.nextHop with
  | some g => [g]
  | none => (lpmNextHops s.fib (lookupName s.regions i)).map (·.1)

theorem forwardInterest_isFwd (s : St) (tok : Nat) (i : Interest) (nonce : Nat) (hop : Option Nat) (inFace : FaceId)
    (tie : List FaceId) :
    ∀ snd ∈ (forwardInterest s tok i nonce hop inFace tie).2, IsFwd s.faces inFace i hop tok (nextHopCands s i) snd := by
  intro snd h
  unfold forwardInterest at h
  unfold nextHopCands
  cases hn : i.nextHop with
  | some g =>
    simp only [hn] at h
    have := outInterest_isFwd _ tok i nonce hop g inFace snd h
    simpa using this
  | none =>
    simp only [hn] at h
    split at h
    · simp at h
    · rename_i e he
      split at h
      · simp at h
      · split at h
        · simp at h
        · have hsub : ∀ g, g ∈ (List.filter (fun nh => !(e.inRecs.any (·.face == nh.1)) || nh.1 == inFace)
              (lpmNextHops s.fib (lookupName s.regions i))).map (·.1) →
              g ∈ (lpmNextHops s.fib (lookupName s.regions i)).map (·.1) := by
            intro g hg
            simp only [List.mem_map, List.mem_filter] at hg ⊢
            obtain ⟨x, ⟨hx, _⟩, rfl⟩ := hg
            exact ⟨x, hx, rfl⟩
          split at h
          · have := bestRoute_isFwd _ tok i nonce hop inFace _ snd h
            exact this.mono (fun g hg => hsub g (mem_sortNh_map tie _ g hg))
          · have := multicast_isFwd _ tok i nonce hop inFace _ snd h
            exact this.mono hsub

/-! ### the incoming Interest pipeline -/

theorem insertInterest_frame (s : St) (i : Interest) (hint : Option Name) (f : FaceId) (nonce : Nat) :
    (insertInterest s i hint f nonce).1.faces = s.faces ∧ (insertInterest s i hint f nonce).1.fib = s.fib ∧
    (insertInterest s i hint f nonce).1.regions = s.regions ∧ (insertInterest s i hint f nonce).1.strat = s.strat ∧
    (insertInterest s i hint f nonce).1.cs = s.cs ∧ (insertInterest s i hint f nonce).1.now = s.now ∧
    (insertInterest s i hint f nonce).1.csServe = s.csServe ∧ (insertInterest s i hint f nonce).1.dnl = s.dnl := by
  unfold insertInterest
  split <;> simp

theorem csFind_match {now : Time} {cs : List CsEnt} {i : Interest} {pick : Nat} {ce : CsEnt} {cs' : List CsEnt}
    (h : csFind now cs i pick = some (ce, cs')) : nameMatch ce.name i.name i.cbp = true ∧ ce ∈ cs := by
  have hc : ∀ (c : List CsEnt) (hl : c.length > 0), c = csPrefixCands now cs i → i.cbp = true →
      nameMatch (c[pick % c.length]'(Nat.mod_lt _ hl)).name i.name i.cbp = true ∧ c[pick % c.length]'(Nat.mod_lt _ hl) ∈ cs := by
    intro c hl hceq hcbp
    have hm : c[pick % c.length]'(Nat.mod_lt _ hl) ∈ csPrefixCands now cs i := by rw [← hceq]; exact List.getElem_mem _
    unfold csPrefixCands at hm
    simp only [List.mem_filter, Bool.and_eq_true] at hm
    refine ⟨?_, hm.1.1⟩
    unfold nameMatch
    simp [hcbp, hm.1.2.2]
  unfold csFind at h
  split at h
  · rename_i e he
    have hmem := List.mem_of_find?_eq_some he
    have hname : e.name = i.name := by simpa using List.find?_some he
    split at h
    · have hce : ce = e := by
        split at h <;> (simp at h; exact h.1.symm)
      subst hce
      exact ⟨by unfold nameMatch; simp [hname], hmem⟩
    · split at h
      · rename_i hcbp
        dsimp only at h
        split at h
        · rename_i hl
          simp at h
          have := hc _ hl rfl hcbp
          rw [h.1] at this
          exact this
        · simp at h
      · simp at h
  · split at h
    · rename_i hcbp
      dsimp only at h
      split at h
      · rename_i hl
        simp at h
        have := hc _ hl rfl hcbp
        rw [h.1] at this
        exact this
      · simp at h
    · simp at h

/-- the sends produced by an Interest arrival: nothing; or THE answer from the Content Store (alone, to
    the requester, with the requester's token); or forwarded copies to usable candidate next hops with
    the decremented hop limit and this forwarder's token -/
theorem onInterest_out (s : St) (f : FaceId) (i : Interest) (tie : List FaceId) (pick : Nat) :
    (onInterest s f i tie pick).2 = [] ∨
    (∃ ce, (onInterest s f i tie pick).2 = [.data f ce.name ce.content i.tok] ∧
        nameMatch ce.name i.name i.cbp = true ∧ ce ∈ s.cs ∧ s.csServe = true ∧
        (∃ fc, faceOf s.faces f = some fc ∧ ¬(!fc.isLocal && isLocalhost ce.name) = true)) ∨
    (∃ hop tok, hopStep i.hop = some hop ∧
        ∀ snd ∈ (onInterest s f i tie pick).2, IsFwd s.faces f i hop tok (nextHopCands s i) snd) := by
  generalize hout : (onInterest s f i tie pick).2 = out
  unfold onInterest at hout
  split at hout
  · left; simp at hout; exact hout
  · rename_i inF hF
    split at hout
    · left; simp at hout; exact hout
    · rename_i hop hhop
      split at hout
      · left; simp at hout; exact hout
      · split at hout
        · left; simp at hout; exact hout
        · rename_i nonce hnonce
          split at hout
          · left; simp at hout; exact hout
          · have hfr := insertInterest_frame s i (fhName s.regions i.hints) f nonce
            dsimp only at hout
            generalize insertInterest s i (fhName s.regions i.hints) f nonce = r at hout hfr
            obtain ⟨s1, tok, dup⟩ := r
            simp only at hout hfr
            obtain ⟨hfaces, hfib, hregions, _, hcs, hnow, hserve, _⟩ := hfr
            split at hout
            · left; simp at hout; exact hout
            · split at hout
              · left; simp at hout; exact hout
              · rename_i e he
                split at hout
                · -- already pending
                  right; right
                  refine ⟨hop, tok, hhop, ?_⟩
                  intro snd h
                  rw [← hout] at h
                  have := forwardInterest_isFwd _ tok i nonce hop f tie snd h
                  simp only [dnlInsert_faces, hfaces] at this
                  unfold nextHopCands at this ⊢
                  simpa [hfib, hregions] using this
                · split at hout
                  · -- content store hit
                    rename_i ce cs' hcs'
                    have hserve' : s1.csServe = true := by
                      cases hsv : s1.csServe with
                      | true => rfl
                      | false => simp [hsv] at hcs'
                    simp only [hserve', if_true] at hcs'
                    rw [hcs, hnow] at hcs'
                    have hm := csFind_match hcs'
                    simp only at hout
                    cases hfc : faceOf s.faces f with
                    | none => rw [hfc] at hF; simp at hF
                    | some fc =>
                      by_cases hsc : (!fc.isLocal && isLocalhost ce.name) = true
                      · left
                        rw [← hout, hfaces]
                        unfold dataSends
                        simp only [List.filterMap_cons, hfc, hsc, if_true, List.filterMap_nil]
                      · right; left
                        refine ⟨ce, ?_, hm.1, hm.2, by rw [← hserve]; exact hserve', fc, rfl, hsc⟩
                        rw [← hout, hfaces]
                        unfold dataSends
                        have hsc' : (!fc.isLocal && isLocalhost ce.name) = false := by
                          cases hb : (!fc.isLocal && isLocalhost ce.name) with
                          | true => exact absurd hb hsc
                          | false => rfl
                        simp only [List.filterMap_cons, hfc, hsc', List.filterMap_nil, Bool.false_eq_true, if_false]
                  · right; right
                    refine ⟨hop, tok, hhop, ?_⟩
                    intro snd h
                    rw [← hout] at h
                    have := forwardInterest_isFwd _ tok i nonce hop f tie snd h
                    simp only [hfaces] at this
                    unfold nextHopCands at this ⊢
                    simpa [hfib, hregions] using this

/-! ### the incoming Data pipeline -/

/-- face `g` holds, in state `s`, an in-record with PIT token `tok` in an entry that Data `d` satisfies -/
def PendingFor (s : St) (d : Data) (g : FaceId) (tok : Bytes) : Prop :=
  ∃ e ∈ s.pit, satisfies d e = true ∧ ∃ r ∈ e.inRecs, r.face = g ∧ r.tok = tok

/-- the scope rule lets a packet named `name` leave on face `g` -/
def Deliverable (faces : List Face) (name : Name) (g : FaceId) : Prop :=
  ∃ fc, faceOf faces g = some fc ∧ ¬(!fc.isLocal && isLocalhost name) = true

theorem onData_sends (s : St) (f : FaceId) (d : Data) (snd : Send) (h : snd ∈ (onData s f d).2) :
    ∃ g tok, snd = .data g d.name d.content tok ∧ PendingFor s d g tok ∧ Deliverable s.faces d.name g := by
  unfold onData at h
  split at h
  · simp at h
  · split at h
    · simp at h
    · dsimp only at h
      have hpit : (if s.csAdmit = true then csInsert s d else s).pit = s.pit := by split <;> simp
      have hfaces : (if s.csAdmit = true then csInsert s d else s).faces = s.faces := by split <;> simp
      rw [hpit] at h
      split at h
      · simp at h
      · rename_i e hm
        simp only [hfaces] at h
        obtain ⟨t, ht, hsnd, hdel⟩ := mem_dataSends h
        simp only [List.mem_map] at ht
        obtain ⟨r, hr, rfl⟩ := ht
        have he : e ∈ matchData s.pit d := by rw [hm]; simp
        obtain ⟨hep, hsat⟩ := mem_matchData he
        exact ⟨r.face, r.tok, hsnd, ⟨e, hep, hsat, r, hr, rfl, rfl⟩, hdel⟩
      · rename_i e0 rest hm
        simp only [hfaces, List.mem_flatMap] at h
        obtain ⟨e, he, h⟩ := h
        obtain ⟨t, ht, hsnd, hdel⟩ := mem_dataSends h
        simp only [List.mem_map, List.mem_filter] at ht
        obtain ⟨r, ⟨hr, _⟩, rfl⟩ := ht
        obtain ⟨hep, hsat⟩ := mem_matchData he
        exact ⟨r.face, r.tok, hsnd, ⟨e, hep, hsat, r, hr, rfl, rfl⟩, hdel⟩

theorem specLocalhost_isLocalhost {n : Name} (h : specLocalhost n = true) : isLocalhost n = true := by
  cases n with
  | nil => simp [specLocalhost] at h
  | cons c t =>
    simp only [specLocalhost, beq_iff_eq] at h
    simp [isLocalhost, h, localhostComp]

theorem usableOut_spec {faces : List Face} {inFace : FaceId} {name : Name} {hop : Option Nat} {g : FaceId}
    (h : usableOut faces inFace name hop g = true) :
    ∃ fc, faceOf faces g = some fc ∧ ¬(g = inFace ∧ fc.link ≠ .adhoc) ∧ ¬(hop = some 0 ∧ fc.isLocal = false) ∧
      ¬(fc.isLocal = false ∧ isLocalhost name = true) := by
  unfold usableOut at h
  cases hf : faceOf faces g with
  | none => simp [hf] at h
  | some fc =>
    have hid := faceOf_some_id hf
    simp only [hf, Bool.and_eq_true, Bool.not_eq_true', Bool.and_eq_false_imp] at h
    refine ⟨fc, rfl, ?_, ?_, ?_⟩
    · rintro ⟨h1, h2⟩
      have := h.1.1
      simp [hid, h1] at this
      exact h2 this
    · rintro ⟨h1, h2⟩
      have := h.1.2
      simp [h1, h2] at this
    · rintro ⟨h1, h2⟩
      have := h.2
      simp [h1, h2] at this

end Ndn.Fw
